"""C20 — problem wrappers / loaders are transparent; counters and capability flags truthful.
proof:          Properties_C20.v  (Counters.v: heap model of the shared counters refines the pointer-free specification for
                every history; finite theorems over coq/gen/Wrappers.v, regenerated from the sources by translate/gen_C20_wrappers.py)
correspondence: Counters.v (reset mode as read from the source) vs ProblemWithCounters / ControlProblemWithCounters histories (drv_C20 hist)
oracle:         (a) documented counter semantics simulated in Python on the implementation's final counters / sharing classes;
                (b) every TypeErasedProblem / TypeErasedControlProblem entry point through wrapper (value, ref), FunctionalProblem,
                    DLProblem plug-ins generated + compiled at check time, wrapper around the plug-in == native reference problem;
                (c) counters == call log of the wrapped problem per call; (d) provides_*/supports_* == the subset the problem
                    defines, provided => no not_implemented_error, absent (throwing default) => exactly that error;
                (e) load failures map to the documented exception classes;
                (f) vf.cascheck / drv_casadi: the real alpaqa::CasADiProblem (library's own CasADi runtime replacement) on generated
                    CasADi-ABI shared objects == native reference with the same members; flags == exported functions; sparsity patterns;
                    counters of a counting wrapper == generated functions entered; wrong arity / dimensions / missing symbols rejected;
                    ALM∘PANOC on the loaded problem == on the native reference."""
import importlib.util, itertools, os, subprocess
from vf.core import *

NF = 21
NLP_FIELDS = ["proj_diff_g", "proj_multipliers", "prox_grad_step", "inactive_indices_res_lna", "f", "grad_f", "f_grad_f", "f_g",
              "grad_f_grad_g_prod", "g", "grad_g_prod", "grad_gi", "jac_g", "grad_L", "hess_L_prod", "hess_L", "hess_ψ_prod", "hess_ψ",
              "ψ", "grad_ψ", "ψ_grad_ψ"]
OCP_FIELDS = ["f", "jac_f", "grad_f_prod", "h", "h_N", "l", "l_N", "qr", "q_N", "add_Q", "add_Q_N", "add_R_masked", "add_S_masked",
              "add_R_prod_masked", "add_S_prod_masked", "constr", "constr_N", "grad_constr_prod", "grad_constr_prod_N",
              "add_gn_hess_constr", "add_gn_hess_constr_N"]
# NLP mask bits (harness/c20_plugin_common.h)
NLP_BITS = ["eval_proj_diff_g", "eval_proj_multipliers", "eval_prox_grad_step", "eval_inactive_indices_res_lna", "eval_jac_g",
            "get_jac_g_sparsity", "eval_grad_gi", "eval_hess_L_prod", "eval_hess_L", "get_hess_L_sparsity", "eval_hess_ψ_prod",
            "eval_hess_ψ", "get_hess_ψ_sparsity", "eval_f_grad_f", "eval_f_g", "eval_grad_f_grad_g_prod", "eval_grad_L", "eval_ψ",
            "eval_grad_ψ", "eval_ψ_grad_ψ", "name", "initialize_box_C", "initialize_box_D", "initialize_l1_reg"]
B = {n: i for i, n in enumerate(NLP_BITS)}
OCP_BITS = ["get_D", "get_D_N", "eval_h", "eval_h_N", "eval_add_Q_N", "eval_add_R_prod_masked", "eval_add_S_prod_masked",
            "get_R_work_size", "get_S_work_size", "eval_constr", "eval_constr_N", "eval_grad_constr_prod", "eval_grad_constr_prod_N",
            "eval_add_gn_hess_constr", "eval_add_gn_hess_constr_N"]
OB = {n: i for i, n in enumerate(OCP_BITS)}
INF = float("inf")

def has(mask, name, tbl=B):
    return (mask >> tbl[name]) & 1 == 1

# --------------------------------------------------------------------------------------------------- histories

def hist_alphabet(W, funcs, maxw):
    ops = []
    if W < maxw:
        ops.append(("n",))
    for w in range(W):
        for f in funcs:
            ops.append(("c", w, f))
        if W < maxw:
            ops.append(("k", w))
        for s in range(W):
            if s != w:
                ops.append(("a", w, s))
        ops.append(("d", w))
        ops.append(("r", w))
    return ops

def enum_hist(L, funcs, maxw):
    """all histories of exactly L operations starting with a construction"""
    out = []
    def rec(h, W):
        if len(h) == L:
            out.append(list(h)); return
        for o in hist_alphabet(W, funcs, maxw):
            h.append(o)
            rec(h, W + (1 if o[0] in ("n", "k") else 0))
            h.pop()
    rec([("n",)], 1)
    return out

def rand_hist(rng, L, allow_reset, maxw=8):
    h, W = [("n",)], 1
    hot = [rng.randrange(NF) for _ in range(3)]
    while len(h) < L:
        c = rng.random()
        if c < 0.45:
            h.append(("c", rng.randrange(W), rng.choice(hot) if rng.random() < 0.7 else rng.randrange(NF)))
        elif c < 0.6 and W < maxw:
            h.append(("k", rng.randrange(W))); W += 1
        elif c < 0.65 and W < maxw:
            h.append(("n",)); W += 1
        elif c < 0.78 and W > 1:
            h.append(("a", rng.randrange(W), rng.randrange(W)))
        elif c < 0.9:
            h.append(("d", rng.randrange(W)))
        elif allow_reset:
            h.append(("r", rng.randrange(W)))
    return h

def simulate(ops, mode):
    """documented ('zero') or shipped ('null') reset; returns (executed_prefix_len, ub_index or -1, final, classes)"""
    ptr, heap = [], []
    ub = -1
    for k, o in enumerate(ops):
        t = o[0]
        if t == "n":
            heap.append([0] * NF); ptr.append(len(heap) - 1)
        elif t == "c":
            b = ptr[o[1]]
            if b is None: ub = k; break
            heap[b][o[2]] += 1
        elif t == "k":
            ptr.append(ptr[o[1]])
        elif t == "a":
            ptr[o[1]] = ptr[o[2]]
        elif t == "d":
            b = ptr[o[1]]
            if b is None: ub = k; break
            heap.append(list(heap[b])); ptr[o[1]] = len(heap) - 1
        elif t == "r":
            if mode == "null":
                ptr[o[1]] = None
            else:
                b = ptr[o[1]]
                if b is None: ub = k; break
                heap[b] = [0] * NF
    final = [None if b is None else list(heap[b]) for b in ptr]
    seen, cls = [], []
    for b in ptr:
        if b is None:
            cls.append(-1)
        else:
            if b not in seen: seen.append(b)
            cls.append(seen.index(b))
    return ub, final, cls

def hist_input(kind, guard, ops):
    return "hist %s %d %d %s" % (kind, guard, len(ops), " ".join(" ".join(str(x) for x in o) for o in ops))

def coq_op(o):
    t = o[0]
    if t == "n": return "ONew"
    if t == "c": return "OCall %d %d" % (o[1], o[2])
    if t == "k": return "OCopy %d" % o[1]
    if t == "a": return "OAssign %d %d" % (o[1], o[2])
    if t == "d": return "ODecouple %d" % o[1]
    return "OReset %d" % o[1]

def coq_hist(kind, ops, out):
    ub = out["ub_at"]
    pre = ops if ub < 0 else ops[:ub]
    final = coqlist(["None" if f is None else "(Some %s)" % coqlist([str(x) for x in f]) for f in out["final"]])
    cls = coqlist(["None" if c < 0 else "(Some %d)" % c for c in out["cls"]])
    return "(CHist %s_reset_mode %d %s %s %s %s)%%nat" % (kind, NF, coqlist([coq_op(o) for o in pre]),
                                                         "None" if ub < 0 else "(Some (%s))" % coq_op(ops[ub]), final, cls)

def check_histories(ctx, st):
    rng = ctx.rng
    cases = []
    # exhaustive short histories (2 functions, at most 3 wrappers)
    L = ctx.n(4, 5)
    for kind in ("nlp", "ocp"):
        ex = enum_hist(L if kind == "nlp" else L - 1, [4, 5] if kind == "nlp" else [0, 3], 3)
        ctx.coverage["exhaustive_histories_%s" % kind] = {"length": L if kind == "nlp" else L - 1, "count": len(ex)}
        cases += [(kind, h, "exh") for h in ex]
    for i in range(ctx.n(600, 4000)):
        kind = "nlp" if i % 2 == 0 else "ocp"
        cases.append((kind, rand_hist(rng, rng.randint(5, 40), allow_reset=(rng.random() < 0.4)), "rnd"))
    # corpus: the minimal histories of the theorems
    for kind in ("nlp", "ocp"):
        cases += [(kind, [("n",), ("r", 0), ("c", 0, 4)], "corpus"), (kind, [("n",), ("r", 0), ("d", 0)], "corpus"),
                  (kind, [("n",), ("c", 0, 0), ("k", 0), ("r", 0)], "corpus"),
                  (kind, [("n",), ("c", 0, 0), ("k", 0), ("k", 0), ("c", 2, 0), ("d", 1), ("c", 1, 0), ("r", 0), ("c", 1, 0), ("a", 2, 0), ("c", 2, 1)], "corpus")]
    outs = run_driver(ctx, "C20", [(hist_input(k, 1, h)) + "\n" for k, h, _ in cases])
    if outs is None or len(outs) != len(cases):
        ctx.broke("correspondence", "drv_C20 hist", "driver returned %s lines for %d histories; rc=%s %s" % (
            None if outs is None else len(outs), len(cases), getattr(ctx, "driver_rc", "?"), getattr(ctx, "driver_err", "")))
        return
    terms = []
    n_known = 0
    for (kind, h, src), o in zip(cases, outs):
        ctx.count("hist/%s/%s" % (kind, src))
        ops_kinds = "".join(sorted(set(x[0] for x in h)))
        ctx.case("hist/%s/%s/ub=%s/cls=%d" % (kind, ops_kinds, o.get("ub_what", "?"), len(set(o.get("cls", [])))),
                 sample={"hist": hist_input(kind, 1, h), "impl": o} if len(ctx.coverage["samples"]) < 2 else None)
        if "exc" in o:
            ctx.violation("C20:counter-history:%s:exception" % kind, "exception %s" % o["exc"], {"driver": "drv_C20", "input": hist_input(kind, 1, h), "impl_output": o})
            continue
        ub, final, cls = simulate(h, "zero")
        impl = (o["ub_at"], o["final"], o["cls"])
        if impl != (ub, final, cls):
            ub2, final2, cls2 = simulate(h, "null")
            why = describe_hist_diff(h, (ub, final, cls), impl)
            if impl == (ub2, final2, cls2) and any(x[0] == "r" for x in h):
                n_known += 1
                ctx.violation("C20:reset-evaluations-nulls-shared-counters",
                              "reset_evaluations() resets the shared_ptr instead of the counters: " + why,
                              {"driver": "drv_C20", "input": hist_input(kind, 1, h), "impl_output": o, "expected_final": final, "expected_classes": cls, "why": why})
            else:
                ctx.violation("C20:counter-history:%s:%s" % (kind, why.split(":")[0]), why,
                              {"driver": "drv_C20", "input": hist_input(kind, 1, h), "impl_output": o, "expected_final": final, "expected_classes": cls, "why": why})
        terms.append(coq_hist(kind, h, o))
    ctx.coverage["histories"] = len(cases)
    ctx.coverage["histories_showing_reset_defect"] = n_known
    failing = coq_failing_cases(ctx, "hist", "Counters Wrappers Corr_C20", "c20case", "chk20", terms, shard=600, dump="model20")
    ctx.coverage["correspondence_cases"] = len(terms)
    if failing:
        k = failing[0]
        ctx.coverage["correspondence_disagreements"] = len(failing)
        ctx.broke("correspondence", "Counters.v vs drv_C20 hist (%s)" % cases[k][0],
                  json.dumps({"input": hist_input(cases[k][0], 1, cases[k][1]), "impl_output": outs[k], "model": getattr(ctx, "last_dump", "")}))
    elif failing is not None:
        ctx.coverage["correspondence_disagreements"] = 0
    # the null dereference itself, unguarded, in its own process
    for kind in ("nlp", "ocp"):
        inp = hist_input(kind, 0, [("n",), ("r", 0), ("c", 0, 4 if kind == "nlp" else 0)])
        rc, o, err = run_driver_isolated("C20", inp + "\n")
        ctx.case("hist/%s/unguarded-reset-call/rc=%s" % (kind, rc))
        ok = rc == 0 and o and o[0].get("final") == [[1 if i == (4 if kind == "nlp" else 0) else 0 for i in range(NF)]]
        ctx.coverage["unguarded_reset_then_call_%s" % kind] = "rc=%s" % rc
        if not ok:
            ctx.violation("C20:reset-evaluations-nulls-shared-counters",
                          "construct, reset_evaluations(), call: process ended with rc=%s (negative = signal)" % rc,
                          {"driver": "drv_C20", "input": inp, "rc": rc, "impl_output": o, "stderr": err[-300:],
                           "why": "the call after reset_evaluations() dereferences the null shared_ptr"})

def describe_hist_diff(h, exp, impl):
    if exp[0] != impl[0]:
        return "undefined-behaviour: operation %d of the history hits a null counter pointer (expected %s)" % (impl[0], "none" if exp[0] < 0 else exp[0])
    if len(exp[1]) != len(impl[1]):
        return "wrapper-count: %d wrappers expected %d" % (len(impl[1]), len(exp[1]))
    for w, (a, b) in enumerate(zip(exp[1], impl[1])):
        if a != b:
            if b is None:
                return "null-pointer: wrapper %d has no counters after the history" % w
            f = next(i for i in range(NF) if a[i] != b[i])
            return "count: wrapper %d counter #%d reads %d, expected %d" % (w, f, b[f], a[f])
    return "sharing: classes %s expected %s" % (impl[2], exp[2])

# --------------------------------------------------------------------------------------------------- plug-ins

def cdbl(x):
    if x == INF: return "INFINITY"
    if x == -INF: return "-INFINITY"
    return repr(float(x))

def carr(name, v, typ="double"):
    return "static const %s %s[%d] = {%s};\n" % (typ, name, max(1, len(v)), ", ".join(cdbl(x) if typ == "double" else str(x) for x in v) if v else "0")

NLP_C_WRAPPERS = """
#define P_(i) (&((struct Inst *)(i))->P)
static real_t eval_f(void *i, const real_t *x) { return c20_eval_f(P_(i), x); }
static void eval_grad_f(void *i, const real_t *x, real_t *g) { c20_eval_grad_f(P_(i), x, g); }
static void eval_g(void *i, const real_t *x, real_t *g) { c20_eval_g(P_(i), x, g); }
static void eval_grad_g_prod(void *i, const real_t *x, const real_t *y, real_t *o) { c20_eval_grad_g_prod(P_(i), x, y, o); }
static void eval_proj_diff_g(void *i, const real_t *z, real_t *e) { c20_eval_proj_diff_g(P_(i), z, e); }
static void eval_proj_multipliers(void *i, real_t *y, real_t M) { c20_eval_proj_multipliers(P_(i), y, M); }
static real_t eval_prox_grad_step(void *i, real_t g, const real_t *x, const real_t *gr, real_t *xh, real_t *p) { return c20_eval_prox_grad_step(P_(i), g, x, gr, xh, p); }
static alpaqa_index_t eval_inactive_indices_res_lna(void *i, real_t g, const real_t *x, const real_t *gr, alpaqa_index_t *J) { return c20_eval_inactive_indices_res_lna(P_(i), g, x, gr, (long *)J); }
static void eval_jac_g(void *i, const real_t *x, real_t *J) { c20_eval_jac_g(P_(i), x, J); }
static void eval_grad_gi(void *i, const real_t *x, alpaqa_index_t k, real_t *o) { c20_eval_grad_gi(P_(i), x, k, o); }
static void eval_hess_L_prod(void *i, const real_t *x, const real_t *y, real_t s, const real_t *v, real_t *Hv) { c20_eval_hess_L_prod(P_(i), x, y, s, v, Hv); }
static void eval_hess_L(void *i, const real_t *x, const real_t *y, real_t s, real_t *H) { c20_eval_hess_L(P_(i), x, y, s, H); }
static void eval_hess_psi_prod(void *i, const real_t *x, const real_t *y, const real_t *S, real_t s, const real_t *zl, const real_t *zu, const real_t *v, real_t *Hv) { c20_eval_hess_psi_prod(P_(i), x, y, S, s, zl, zu, v, Hv); }
static void eval_hess_psi(void *i, const real_t *x, const real_t *y, const real_t *S, real_t s, const real_t *zl, const real_t *zu, real_t *H) { c20_eval_hess_psi(P_(i), x, y, S, s, zl, zu, H); }
static real_t eval_f_grad_f(void *i, const real_t *x, real_t *g) { return c20_eval_f_grad_f(P_(i), x, g); }
static real_t eval_f_g(void *i, const real_t *x, real_t *g) { return c20_eval_f_g(P_(i), x, g); }
static void eval_grad_f_grad_g_prod(void *i, const real_t *x, const real_t *y, real_t *gf, real_t *gg) { c20_eval_grad_f_grad_g_prod(P_(i), x, y, gf, gg); }
static void eval_grad_L(void *i, const real_t *x, const real_t *y, real_t *gL, real_t *w) { c20_eval_grad_L(P_(i), x, y, gL, w); }
static real_t eval_psi(void *i, const real_t *x, const real_t *y, const real_t *S, const real_t *zl, const real_t *zu, real_t *yh) { return c20_eval_psi(P_(i), x, y, S, zl, zu, yh); }
static void eval_grad_psi(void *i, const real_t *x, const real_t *y, const real_t *S, const real_t *zl, const real_t *zu, real_t *g, real_t *wn, real_t *wm) { c20_eval_grad_psi(P_(i), x, y, S, zl, zu, g, wn, wm); }
static real_t eval_psi_grad_psi(void *i, const real_t *x, const real_t *y, const real_t *S, const real_t *zl, const real_t *zu, real_t *g, real_t *wn, real_t *wm) { return c20_eval_psi_grad_psi(P_(i), x, y, S, zl, zu, g, wn, wm); }
static alpaqa_sparsity_t get_jac_g_sparsity(void *i) {
    struct Inst *I = i; alpaqa_sparsity_t s; memset(&s, 0, sizeof s);
    s.kind = alpaqa_sparsity_sparse_coo;
    s.sparse_coo.rows = I->P.m; s.sparse_coo.cols = I->P.n; s.sparse_coo.symmetry = alpaqa_unsymmetric;
    s.sparse_coo.nnz = c20_jac_nnz(I->P.n, I->P.m); s.sparse_coo.row_indices = I->jr; s.sparse_coo.col_indices = I->jc;
    s.sparse_coo.order = alpaqa_sparse_coo_unsorted; s.sparse_coo.first_index = 0;
    return s;
}
static alpaqa_sparsity_t get_hess_L_sparsity(void *i) {
    struct Inst *I = i; alpaqa_sparsity_t s; memset(&s, 0, sizeof s);
    s.kind = alpaqa_sparsity_dense; s.dense.rows = I->P.n; s.dense.cols = I->P.n; s.dense.symmetry = alpaqa_upper;
    return s;
}
static alpaqa_sparsity_t get_hess_psi_sparsity(void *i) {
    struct Inst *I = i; alpaqa_sparsity_t s; memset(&s, 0, sizeof s);
    s.kind = alpaqa_sparsity_sparse_csc;
    s.sparse_csc.rows = I->P.n; s.sparse_csc.cols = I->P.n; s.sparse_csc.symmetry = alpaqa_upper;
    s.sparse_csc.nnz = I->P.n; s.sparse_csc.inner_idx = I->hin; s.sparse_csc.outer_ptr = I->hout;
    s.sparse_csc.order = alpaqa_sparse_csc_sorted_rows;
    return s;
}
static void initialize_box_C(void *i, real_t *lb, real_t *ub) { (void)i; for (long k = 0; k < N_; ++k) { lb[k] = C_lb[k]; ub[k] = C_ub[k]; } }
static void initialize_box_D(void *i, real_t *lb, real_t *ub) { (void)i; for (long k = 0; k < M_; ++k) { lb[k] = D_lb[k]; ub[k] = D_ub[k]; } }
static void initialize_l1_reg(void *i, real_t *lambda, alpaqa_length_t *size) { (void)i; if (!lambda) *size = NL_; else for (long k = 0; k < NL_; ++k) lambda[k] = L1[k]; }
static void cleanup(void *i) { free(i); }
"""
NLP_FIELD_OF_BIT = {"eval_hess_ψ_prod": "eval_hess_psi_prod", "eval_hess_ψ": "eval_hess_psi", "get_hess_ψ_sparsity": "get_hess_psi_sparsity",
                    "eval_ψ": "eval_psi", "eval_grad_ψ": "eval_grad_psi", "eval_ψ_grad_ψ": "eval_psi_grad_psi"}

def nlp_plugin_source(c, fn="register_alpaqa_problem", abi="ALPAQA_DL_ABI_VERSION", version_fn=True, version_abi="ALPAQA_DL_ABI_VERSION",
                      null_functions=False, define_register=True):
    n, m, mask = c["n"], c["m"], c["mask"]
    s = "#include <alpaqa/dl/dl-problem.h>\n#include <math.h>\n#include <stdlib.h>\n#include <string.h>\n#include \"c20_plugin_common.h\"\ntypedef alpaqa_real_t real_t;\n"
    s += "#define N_ %d\n#define M_ %d\n#define NL_ %d\n" % (n, m, len(c["l1"]))
    s += carr("C_lb", c["C"][0]) + carr("C_ub", c["C"][1]) + carr("D_lb", c["D"][0]) + carr("D_ub", c["D"][1]) + carr("L1", c["l1"])
    s += "struct Inst { alpaqa_problem_functions_t functions; c20_nlp P; int jr[%d], jc[%d], hin[%d], hout[%d]; };\n" % (m + 2, m + 2, n + 1, n + 2)
    s += NLP_C_WRAPPERS
    if define_register:
        s += "ALPAQA_DL_PROBLEM_EXPORT alpaqa_problem_register_t %s(alpaqa_register_arg_t a) {\n    (void)a;\n" % fn
        s += "    struct Inst *I = calloc(1, sizeof *I);\n    I->P.n = N_; I->P.m = M_; I->P.mask = %du;\n" % mask
        s += "    I->P.LJ = %d; I->P.LHL = N_ * N_; I->P.LHpsi = %s;\n" % ((m + 1 if m > 0 else 0) if has(mask, "get_jac_g_sparsity") else m * n,
                                                                          "N_" if has(mask, "get_hess_ψ_sparsity") else "N_ * N_")
        s += "    c20_jac_pattern(N_, M_, I->jr, I->jc);\n    for (int k = 0; k < N_; ++k) I->hin[k] = k;\n    for (int k = 0; k <= N_; ++k) I->hout[k] = k;\n"
        s += "    I->functions.n = N_; I->functions.m = M_;\n"
        for req in ("eval_f", "eval_grad_f", "eval_g", "eval_grad_g_prod"):
            s += "    I->functions.%s = &%s;\n" % (req, req)
        for bit in NLP_BITS:
            if not has(mask, bit):
                continue
            if bit == "name":
                s += "    I->functions.name = \"%s\";\n" % c["name"]
            else:
                s += "    I->functions.%s = &%s;\n" % (bit, NLP_FIELD_OF_BIT.get(bit, bit))
        s += "    alpaqa_problem_register_t r;\n    ALPAQA_PROBLEM_REGISTER_INIT(&r);\n    r.abi_version = %s;\n" % abi
        s += "    r.instance = I; r.cleanup = &cleanup; r.functions = %s;\n    return r;\n}\n" % ("NULL" if null_functions else "&I->functions")
    if version_fn:
        s += "ALPAQA_DL_PROBLEM_EXPORT alpaqa_dl_abi_version_t %s_version(void) { return %s; }\n" % (fn, version_abi)
    return s

OCP_C_WRAPPERS = """
#define P_(i) (&((struct Inst *)(i))->P)
typedef alpaqa_index_t ix;
static void get_U(void *i, real_t *lb, real_t *ub) { c20o_get_U(P_(i), lb, ub); }
static void get_D(void *i, real_t *lb, real_t *ub) { c20o_get_D(P_(i), lb, ub); }
static void get_D_N(void *i, real_t *lb, real_t *ub) { c20o_get_D_N(P_(i), lb, ub); }
static void get_x_init(void *i, real_t *x) { c20o_get_x_init(P_(i), x); }
static void eval_f(void *i, ix t, const real_t *x, const real_t *u, real_t *o) { c20o_eval_f(P_(i), t, x, u, o); }
static void eval_jac_f(void *i, ix t, const real_t *x, const real_t *u, real_t *o) { c20o_eval_jac_f(P_(i), t, x, u, o); }
static void eval_grad_f_prod(void *i, ix t, const real_t *x, const real_t *u, const real_t *p, real_t *o) { c20o_eval_grad_f_prod(P_(i), t, x, u, p, o); }
static void eval_h(void *i, ix t, const real_t *x, const real_t *u, real_t *o) { c20o_eval_h(P_(i), t, x, u, o); }
static void eval_h_N(void *i, const real_t *x, real_t *o) { c20o_eval_h_N(P_(i), x, o); }
static real_t eval_l(void *i, ix t, const real_t *h) { return c20o_eval_l(P_(i), t, h); }
static real_t eval_l_N(void *i, const real_t *h) { return c20o_eval_l_N(P_(i), h); }
static void eval_qr(void *i, ix t, const real_t *xu, const real_t *h, real_t *o) { c20o_eval_qr(P_(i), t, xu, h, o); }
static void eval_q_N(void *i, const real_t *x, const real_t *h, real_t *o) { c20o_eval_q_N(P_(i), x, h, o); }
static void eval_add_Q(void *i, ix t, const real_t *xu, const real_t *h, real_t *Q) { c20o_eval_add_Q(P_(i), t, xu, h, Q); }
static void eval_add_Q_N(void *i, const real_t *x, const real_t *h, real_t *Q) { c20o_eval_add_Q_N(P_(i), x, h, Q); }
static void eval_add_R_masked(void *i, ix t, const real_t *xu, const real_t *h, const ix *m, real_t *R, real_t *w) { c20o_eval_add_R_masked(P_(i), t, xu, h, (const long *)m, R, w); }
static void eval_add_S_masked(void *i, ix t, const real_t *xu, const real_t *h, const ix *m, real_t *S, real_t *w) { c20o_eval_add_S_masked(P_(i), t, xu, h, (const long *)m, S, w); }
static void eval_add_R_prod_masked(void *i, ix t, const real_t *xu, const real_t *h, const ix *mJ, const ix *mK, const real_t *v, real_t *o, real_t *w) { c20o_eval_add_R_prod_masked(P_(i), t, xu, h, (const long *)mJ, (const long *)mK, v, o, w); }
static void eval_add_S_prod_masked(void *i, ix t, const real_t *xu, const real_t *h, const ix *mK, const real_t *v, real_t *o, real_t *w) { c20o_eval_add_S_prod_masked(P_(i), t, xu, h, (const long *)mK, v, o, w); }
static alpaqa_length_t get_R_work_size(void *i) { (void)i; return C20_RWORK; }
static alpaqa_length_t get_S_work_size(void *i) { (void)i; return C20_SWORK; }
static void eval_constr(void *i, ix t, const real_t *x, real_t *c) { c20o_eval_constr(P_(i), t, x, c); }
static void eval_constr_N(void *i, const real_t *x, real_t *c) { c20o_eval_constr_N(P_(i), x, c); }
static void eval_grad_constr_prod(void *i, ix t, const real_t *x, const real_t *p, real_t *o) { c20o_eval_grad_constr_prod(P_(i), t, x, p, o); }
static void eval_grad_constr_prod_N(void *i, const real_t *x, const real_t *p, real_t *o) { c20o_eval_grad_constr_prod_N(P_(i), x, p, o); }
static void eval_add_gn_hess_constr(void *i, ix t, const real_t *x, const real_t *M, real_t *o) { c20o_eval_add_gn_hess_constr(P_(i), t, x, M, o); }
static void eval_add_gn_hess_constr_N(void *i, const real_t *x, const real_t *M, real_t *o) { c20o_eval_add_gn_hess_constr_N(P_(i), x, M, o); }
static void cleanup(void *i) { free(i); }
"""
OCP_REQUIRED = ["get_U", "get_x_init", "eval_f", "eval_jac_f", "eval_grad_f_prod", "eval_l", "eval_l_N", "eval_qr", "eval_q_N", "eval_add_Q",
                "eval_add_R_masked", "eval_add_S_masked"]

def ocp_plugin_source(c, abi="ALPAQA_DL_ABI_VERSION", version_abi="ALPAQA_DL_ABI_VERSION", define_register=True):
    fn = "register_alpaqa_control_problem"
    s = "#include <alpaqa/dl/dl-problem.h>\n#include <stdlib.h>\n#include <string.h>\n#include \"c20_plugin_common.h\"\ntypedef alpaqa_real_t real_t;\n"
    s += "struct Inst { alpaqa_control_problem_functions_t functions; c20_ocp P; };\n" + OCP_C_WRAPPERS
    if define_register:
        s += "ALPAQA_DL_PROBLEM_EXPORT alpaqa_control_problem_register_t %s(alpaqa_register_arg_t a) {\n    (void)a;\n    struct Inst *I = calloc(1, sizeof *I);\n" % fn
        d = c["dims"]
        for k, v in zip(("N", "nx", "nu", "nh", "nh_N", "nc", "nc_N"), d):
            s += "    I->P.%s = %d; I->functions.%s = %d;\n" % (k, v, k, v)
        s += "    I->P.lenJ = %d; I->P.lenK = %d; I->P.mask = %du;\n" % (len(c["mJ"]), len(c["mK"]), c["mask"])
        for f in OCP_REQUIRED:
            s += "    I->functions.%s = &%s;\n" % (f, f)
        for bit in OCP_BITS:
            if has(c["mask"], bit, OB):
                s += "    I->functions.%s = &%s;\n" % (bit, bit)
        s += "    alpaqa_control_problem_register_t r;\n    ALPAQA_PROBLEM_REGISTER_INIT(&r);\n    r.abi_version = %s;\n" % abi
        s += "    r.instance = I; r.cleanup = &cleanup; r.functions = &I->functions;\n    return r;\n}\n"
    s += "ALPAQA_DL_PROBLEM_EXPORT alpaqa_dl_abi_version_t %s_version(void) { return %s; }\n" % (fn, version_abi)
    return s

CPP_EXC_PLUGIN = """
#include <alpaqa/dl/dl-problem.h>
#include <stdexcept>
extern "C" ALPAQA_DL_PROBLEM_EXPORT alpaqa_problem_register_t register_alpaqa_problem(alpaqa_register_arg_t) {
    alpaqa_problem_register_t r;
    try { throw std::runtime_error("c20-plugin-failure"); }
    catch (...) { r.exception = new alpaqa_exception_ptr_t{std::current_exception()}; }
    return r;
}
extern "C" ALPAQA_DL_PROBLEM_EXPORT alpaqa_dl_abi_version_t register_alpaqa_problem_version(void) { return ALPAQA_DL_ABI_VERSION; }
"""

def compile_plugin(ctx, name, src, cpp=False):
    d = os.path.join(BUILD, "c20_plugins")
    os.makedirs(d, exist_ok=True)
    cfile = os.path.join(d, name + (".cpp" if cpp else ".c"))
    so = os.path.join(d, name + ".so")
    open(cfile, "w", encoding="utf-8").write(src)
    inc = "-I%s/src/interop/dl-api/include -I%s" % (REPO, HARNESS)
    if cpp:
        cmd = "g++ -std=c++20 -O1 -shared -fPIC %s -o %s %s" % (inc, so, cfile)
    else:
        cmd = "gcc -std=gnu11 -O1 -ffp-contract=off -w -shared -fPIC %s -o %s %s" % (inc, so, cfile)
    rc, out, err = sh(cmd, timeout=120)
    if rc != 0:
        ctx.broke("correspondence", "plugin-compile:%s" % name, (out + err)[-2000:])
        return None
    return so

# --------------------------------------------------------------------------------------------------- NLP cases

def dy(rng, lo=-4, hi=4):
    return rng.randint(lo * 8, hi * 8) / 8.0

def gen_nlp_case(rng, idx, functional=False):
    n = rng.choice([1, 2, 2, 3]); m = rng.choice([0, 1, 1, 2])
    c = rng.random()
    if functional:
        mask = 0
        for b in ("eval_jac_g", "eval_grad_gi", "eval_hess_L_prod", "eval_hess_L", "eval_hess_ψ_prod", "eval_hess_ψ"):
            if rng.random() < 0.5: mask |= 1 << B[b]
    elif c < 0.1:
        mask = 0
    elif c < 0.2:
        mask = (1 << 20) - 1
    else:
        p = rng.choice([0.2, 0.5, 0.8])
        mask = sum(1 << i for i in range(20) if rng.random() < p)
    if not functional:
        if rng.random() < 0.5: mask |= 1 << B["name"]
        if rng.random() < 0.7: mask |= 1 << B["initialize_box_C"]
        if rng.random() < 0.85: mask |= 1 << B["initialize_box_D"]
        if rng.random() < 0.4: mask |= 1 << B["initialize_l1_reg"]
    def box(k, allow_inf):
        lb, ub = [], []
        for _ in range(k):
            a, b = sorted([dy(rng), dy(rng)])
            if allow_inf and rng.random() < 0.2: a = -INF
            if allow_inf and rng.random() < 0.2: b = INF
            lb.append(a); ub.append(b)
        return lb, ub
    C = box(n, True) if has(mask, "initialize_box_C") or functional else ([-INF] * n, [INF] * n)
    D = box(m, False) if has(mask, "initialize_box_D") or functional else ([-INF] * m, [INF] * m)
    l1 = []
    if has(mask, "initialize_l1_reg"):
        l1 = [abs(dy(rng, 0, 2)) for _ in range(rng.choice([1, n]))]
        if rng.random() < 0.3: l1 = [0.0]
        # BoxConstrProblem with l1 needs lb <= 0 <= ub only for its own prox step; keep C around zero then
        C = ([-abs(x) if x != -INF else x for x in C[0]], [abs(x) if x != INF else x for x in C[1]])
    name = "plug%d" % idx
    args = []
    for _ in range(2):
        args.append(dict(x=[dy(rng) for _ in range(n)], y=[dy(rng) for _ in range(m)], Σ=[abs(dy(rng)) + 0.5 for _ in range(m)],
                         v=[dy(rng) for _ in range(n)], γ=rng.choice([0.5, 1.0, 0.25, 2.0]), M=dy(rng, 0, 4), scale=rng.choice([1.0, 0.5, -2.0]),
                         i=rng.randrange(max(m, 1))))
    return dict(n=n, m=m, mask=mask, C=C, D=D, l1=l1, name=name, args=args, functional=functional)

def nlp_input(kind, path, c, a, name):
    return "nlp %s %s %d %d %d %s %s %s %s %s %s %s %s %s %s %s %s %s %d" % (
        kind, path or "-", c["mask"], c["n"], c["m"], vec_in(c["C"][0]), vec_in(c["C"][1]), vec_in(c["D"][0]), vec_in(c["D"][1]), vec_in(c["l1"]), name,
        vec_in(a["x"]), vec_in(a["y"]), vec_in(a["Σ"]), vec_in(a["v"]), hexf(a["γ"]), hexf(a["M"]), hexf(a["scale"]), a["i"])

THROWING = ["eval_inactive_indices_res_lna", "eval_jac_g", "eval_grad_gi", "eval_hess_L_prod", "eval_hess_L", "eval_hess_ψ_prod", "eval_hess_ψ",
            "get_box_C", "get_box_D"]

def expected_provides(c, kind):
    mask, n, m = c["mask"], c["n"], c["m"]
    l1 = c["l1"]
    base_C = len(l1) == 0 or (len(l1) == 1 and l1[0] == 0)
    e = {b: has(mask, b) for b in NLP_BITS[4:20]}
    e["eval_inactive_indices_res_lna"] = (not has(mask, "eval_prox_grad_step")) or has(mask, "eval_inactive_indices_res_lna")
    e["get_box_C"] = (not has(mask, "eval_prox_grad_step")) and base_C
    e["get_box_D"] = not has(mask, "eval_proj_diff_g")
    e["check"] = True
    e["get_name"] = True
    e["supports_eval_hess_ψ_prod"] = e["eval_hess_ψ_prod"] or (m == 0 and e["eval_hess_L_prod"])
    e["supports_eval_hess_ψ"] = e["eval_hess_ψ"] or (m == 0 and e["eval_hess_L"])
    return e

def flags_oracle(c, o):
    """provided => callable without not_implemented_error; absent (throwing default) => exactly that error"""
    pv, ms, m = o["provides"], o["methods"], c["m"]
    for f in THROWING:
        exc = ms[f].get("exc", "")
        ni = exc.startswith("not_implemented_error")
        if pv[f]:
            if ni: return "%s is reported as provided but calling it raises %s" % (f, exc)
        else:
            if f == "eval_jac_g" and m == 0:
                ok = not exc
            elif f in ("eval_hess_ψ_prod", "eval_hess_ψ") and pv["supports_" + f]:
                ok = not ni
            else:
                ok = exc == "not_implemented_error:" + f
            if not ok: return "%s is reported as absent but calling it gave %r instead of not_implemented_error(%s)" % (f, exc or "no error", f)
    for f in ("eval_hess_ψ_prod", "eval_hess_ψ"):
        if pv["supports_" + f] and ms[f].get("exc", "").startswith("not_implemented_error"):
            return "supports_%s is true but calling it raises %s" % (f, ms[f]["exc"])
    return None

def strip_obs(d):
    return {k: v for k, v in d.items() if k not in ("cnt", "log")}

def compare_nlp(ref, o):
    if ref.get("provides") != o.get("provides"):
        ks = [k for k in ref.get("provides", {}) if ref["provides"].get(k) != o.get("provides", {}).get(k)]
        return "flag", "provides/supports flags differ from the underlying problem: %s" % ", ".join("%s=%s (underlying %s)" % (k, o.get("provides", {}).get(k), ref["provides"][k]) for k in ks)
    for f, r in ref["methods"].items():
        if strip_obs(r) != strip_obs(o["methods"].get(f, {})):
            return f, "%s returns %s but the underlying problem returns %s" % (f, json.dumps(strip_obs(o["methods"].get(f, {})), ensure_ascii=False)[:300], json.dumps(strip_obs(r), ensure_ascii=False)[:300])
    if (ref.get("n"), ref.get("m")) != (o.get("n"), o.get("m")):
        return "dims", "dimensions differ"
    return None

def counters_oracle(o, fields, have_log=True):
    for f, r in o["methods"].items():
        cnt, log = r.get("cnt", {}), r.get("log", {})
        if have_log:
            for x in fields:
                if cnt.get(x, 0) != log.get("eval_" + x, 0):
                    return f, x, "during %s the counter '%s' changed by %d but the wrapped problem's eval_%s was called %d times" % (f, x, cnt.get(x, 0), x, log.get("eval_" + x, 0))
        for x in cnt:
            if x not in fields: return f, x, "unknown counter %s" % x
    return None

def run_lines(ctx, what, lines, kinds):
    """batch run; if the driver dies, re-run every case in its own process so that the crashing input is identified"""
    outs = run_driver(ctx, "C20", [l_ + "\n" for l_ in lines], timeout=1500)
    if outs is not None and len(outs) == len(lines) and getattr(ctx, "driver_rc", 0) == 0:
        return outs
    ctx.log("drv_C20 %s batch failed (rc=%s); re-running the %d cases one by one" % (what, getattr(ctx, "driver_rc", "?"), len(lines)))
    outs = []
    for line, k in zip(lines, kinds):
        rc, o, err = run_driver_isolated("C20", line + "\n")
        if rc != 0 or len(o) != 1:
            ctx.violation("C20:crash:%s:%s" % (what, k), "%s %s: the process ended with rc=%s (negative = signal) while calling the entry points" % (what, k, rc),
                          {"driver": "drv_C20", "input": line, "rc": rc, "stderr": err[-400:], "why": "crash (null function pointer / invalid memory access) instead of a result or not_implemented_error"})
            outs.append({"exc": "crash rc=%s" % rc, "crashed": True})
        else:
            outs.append(o[0])
    return outs

def check_nlp(ctx):
    rng = ctx.rng
    nplug = ctx.n(12, 60)
    cases = [gen_nlp_case(rng, i) for i in range(nplug)] + [gen_nlp_case(rng, 1000 + i, functional=True) for i in range(ctx.n(6, 40))]
    # wrapper-only cases (no plug-in)
    extra = [gen_nlp_case(rng, 2000 + i) for i in range(ctx.n(30, 300))]
    lines, meta = [], []
    nso = 0
    for c in cases + extra:
        so = None
        is_plug = (c in cases) and not c["functional"]
        if is_plug:
            so = compile_plugin(ctx, c["name"], nlp_plugin_source(c))
            if so is None: return
            nso += 1
        refname = "FunctionalProblem" if c["functional"] else (c["name"] if has(c["mask"], "name") or not is_plug else os.path.basename(so))
        if not is_plug and not c["functional"]: refname = c["name"]
        kinds = ["native", "wrap", "wrapref"] + (["functional"] if c["functional"] else []) + (["dl", "dlwrap"] if is_plug else [])
        for a in c["args"]:
            for k in kinds:
                lines.append(nlp_input(k, so, c, a, refname)); meta.append((c, a, k))
    ctx.coverage["nlp_plugins_compiled"] = nso
    outs = run_lines(ctx, "nlp", lines, [k for _, _, k in meta])
    ref = None
    for (c, a, k), o, line in zip(meta, outs, lines):
        ctx.count("nlp/" + k)
        rep = {"driver": "drv_C20", "input": line, "impl_output": o}
        if o.get("crashed"):
            continue
        if "exc" in o or "load_exc" in o or "methods" not in o:
            ctx.case("nlp/%s/exc" % k)
            ctx.violation("C20:nlp:%s:unexpected-exception" % k, "unexpected exception %s" % (o.get("exc") or o.get("load_exc")), rep)
            continue
        nprov = sum(1 for v in o["provides"].values() if v)
        ctx.case("nlp/%s/m%d/prov%d/%s" % (k, min(c["m"], 1), nprov // 4, "".join("T" if "exc" in o["methods"][f] else "." for f in THROWING)),
                 sample={"input": line, "impl": {"provides": o["provides"]}} if k == "dl" and len(ctx.coverage["samples"]) < 4 else None)
        if k == "native":
            ref = o
            exp = expected_provides(c, k)
            bad = [f for f, v in exp.items() if o["provides"].get(f) != v]
            if bad:
                ctx.violation("C20:flags:native:%s" % bad[0], "native reference: provides flags %s do not match the defined subset" % bad, rep)
        else:
            d = compare_nlp(ref, o)
            if d:
                rep.update(reference_output=ref, why=d[1])
                ctx.violation("C20:not-transparent:%s:%s" % (k, d[0]), "%s: %s" % (k, d[1]), rep)
        fo = flags_oracle(c, o)
        if fo:
            rep["why"] = fo
            ctx.violation("C20:flags:%s:%s" % (k, fo.split(" ")[0]), "%s: %s" % (k, fo), rep)
        if k == "wrapref" and (o.get("ref_aliases") is False or o.get("ref_sees_mutation") is False):
            rep["why"] = ("problem_with_counters_ref: the wrapper does not refer to the problem it was given (aliases=%s, a later change of the problem "
                          "is seen through the wrapper=%s)" % (o.get("ref_aliases"), o.get("ref_sees_mutation")))
            ctx.violation("C20:not-transparent:wrapref:holds-a-copy", rep["why"], rep)
        if k in ("wrap", "wrapref", "dlwrap"):
            co = counters_oracle(o, NLP_FIELDS, have_log=(k != "dlwrap"))
            if co:
                rep["why"] = co[2]
                ctx.violation("C20:counter:%s:%s:%s" % (k, co[0], co[1]), "%s: %s" % (k, co[2]), rep)
            # the directly called member counts exactly once when it is the problem's own function
            for f, r in o["methods"].items():
                own = f[5:] if f.startswith("eval_") else None
                if own in NLP_FIELDS and "exc" not in r:
                    direct = o["provides"].get(f, True)   # required functions have no flag
                    if direct and r.get("cnt", {}).get(own, 0) != 1:
                        rep["why"] = "calling %s once changed counter %s by %s" % (f, own, r.get("cnt", {}).get(own, 0))
                        ctx.violation("C20:counter:%s:%s:not-once" % (k, f), rep["why"], rep)

# --------------------------------------------------------------------------------------------------- OCP cases

def gen_ocp_case(rng, idx, valid=True):
    N = rng.choice([1, 2, 3]); nx = rng.choice([1, 2]); nu = rng.choice([1, 2, 3])
    nh = rng.choice([0, 1, 2]); nh_N = rng.choice([0, 1, 2]); nc = rng.choice([0, 0, 1, 2]); nc_N = nc if rng.random() < 0.7 else rng.choice([0, 1])
    p = rng.choice([0.2, 0.5, 0.9])
    mask = sum(1 << i for i in range(len(OCP_BITS)) if rng.random() < p)
    mask |= (1 << OB["eval_h"]) | (1 << OB["eval_h_N"])
    if valid and nc > 0:
        mask |= (1 << OB["get_D"]) | (1 << OB["eval_constr"]) | (1 << OB["eval_grad_constr_prod"])
    if nc == 0 and nc_N > 0:   # terminal defaults forward to the stage functions: keep them callable
        mask |= (1 << OB["get_D"]) | (1 << OB["eval_constr"]) | (1 << OB["eval_grad_constr_prod"])
    lenJ = rng.randint(1, nu); mJ = sorted(rng.sample(range(nu), lenJ)); mK = [i for i in range(nu) if i not in mJ]
    big = 4
    args = []
    for _ in range(2):
        args.append(dict(t=rng.randrange(N), x=[dy(rng) for _ in range(nx + nu)], u=[dy(rng) for _ in range(nu)],
                         h=[dy(rng) for _ in range(big)], hN=[dy(rng) for _ in range(big)], p=[dy(rng) for _ in range(nx)],
                         pc=[dy(rng) for _ in range(big)], pcN=[dy(rng) for _ in range(big)], v=[dy(rng) for _ in range(nu)],
                         M=[abs(dy(rng)) for _ in range(big)], MN=[abs(dy(rng)) for _ in range(big)]))
    return dict(dims=[N, nx, nu, nh, nh_N, nc, nc_N], mask=mask, mJ=mJ, mK=mK, args=args, name="oplug%d" % idx)

def ocp_input(kind, path, c, a):
    iv = lambda v: "%d %s" % (len(v), " ".join(str(x) for x in v))
    return "ocp %s %s %d %s %d %s %s %s %s %s %s %s %s %s %s %s %s" % (
        kind, path or "-", c["mask"], " ".join(str(x) for x in c["dims"]), a["t"], vec_in(a["x"]), vec_in(a["u"]), vec_in(a["h"]), vec_in(a["hN"]),
        vec_in(a["p"]), vec_in(a["pc"]), vec_in(a["pcN"]), vec_in(a["v"]), vec_in(a["M"]), vec_in(a["MN"]), iv(c["mJ"]), iv(c["mK"]))

def compare_ocp(ref, o, skip=()):
    for key in ("ctor_exc", "dims", "provides"):
        if ref.get(key) != o.get(key):
            if key == "provides":
                ks = [k for k in ref["provides"] if ref["provides"].get(k) != o.get("provides", {}).get(k)]
                return "flag", "provides flags differ from the underlying problem: %s" % ", ".join("%s=%s (underlying %s)" % (k, o.get("provides", {}).get(k), ref["provides"][k]) for k in ks)
            return key, "%s: %r but the underlying problem gives %r" % (key, o.get(key), ref.get(key))
    for f, r in ref.get("methods", {}).items():
        if f in skip:
            continue
        if strip_obs(r) != strip_obs(o.get("methods", {}).get(f, {})):
            return f, "%s returns %s but the underlying problem returns %s" % (f, json.dumps(strip_obs(o.get("methods", {}).get(f, {})))[:300], json.dumps(strip_obs(r))[:300])
    return None

def check_ocp(ctx):
    rng = ctx.rng
    cases = [gen_ocp_case(rng, i) for i in range(ctx.n(3, 20))]
    extra = [gen_ocp_case(rng, 100 + i, valid=(rng.random() < 0.85)) for i in range(ctx.n(30, 300))]
    lines, meta = [], []
    for c in cases + extra:
        so = None
        if c in cases:
            so = compile_plugin(ctx, c["name"], ocp_plugin_source(c))
            if so is None: return
        for a in c["args"]:
            for k in ["native", "wrap", "native0", "wrap0", "wrapref"] + (["dl", "dlwrap"] if so else []):
                lines.append(ocp_input(k, so, c, a)); meta.append((c, a, k))
    outs = run_lines(ctx, "ocp", lines, [k for _, _, k in meta])
    ref = {}
    for (c, a, k), o, line in zip(meta, outs, lines):
        ctx.count("ocp/" + k)
        rep = {"driver": "drv_C20", "input": line, "impl_output": o}
        ctx.case("ocp/%s/%s/%s" % (k, "ctor" if "ctor_exc" in o else "load" if "load_exc" in o else "ok", "".join(str(min(x, 1)) for x in c["dims"][3:])))
        if o.get("crashed"):
            continue
        if "exc" in o:
            ctx.violation("C20:ocp:%s:unexpected-exception" % k, "unexpected exception %s" % o["exc"], rep); continue
        # absolute clause (independent of the reference object): a terminal function the problem does not define is the stage function at step N
        for f, rr in (o.get("methods") or {}).items():
            if isinstance(rr, dict) and "stage_at_N" in rr and "exc" not in rr:
                ctx.count("ocp/terminal-default-vs-stage-at-N")
            if isinstance(rr, dict) and "stage_at_N" in rr and "exc" not in rr and rr.get("o") != rr["stage_at_N"]:
                rep["why"] = "%s is not defined by the problem, so it must equal the stage function evaluated at time step N=%d: got %r, stage function gives %r" % (f, c["dims"][0], rr.get("o"), rr["stage_at_N"])
                ctx.violation("C20:ocp:terminal-default-is-not-the-stage-function-at-N:%s" % f, "ocp %s: %s" % (k, rep["why"]), dict(rep))
        if k in ("native", "native0"):
            ref[k] = o
            if "methods" in o:
                exp = {b: has(c["mask"], b, OB) for b in OCP_BITS}
                bad = [f for f, v in exp.items() if o["provides"].get(f) != v]
                if bad:
                    ctx.violation("C20:flags:ocp-native:%s" % bad[0], "native OCP reference: provides flags %s do not match the defined subset" % bad, rep)
            continue
        if k in ("dl", "dlwrap"):
            if o.get("type_erasable") is False:
                ctx.violation("C20:dl-control-problem-lacks-required-members",
                              "DLControlProblem has no eval_proj_diff_g / eval_proj_multipliers, which ControlProblemVTable requires: "
                              "TypeErasedControlProblem cannot be constructed from a loaded optimal-control plug-in (does not compile); "
                              "the check continues with an adapter that adds the two members", rep)
            if "load_exc" in o:
                ctx.violation("C20:dl-control-problem-constructor-rejects-valid-plugin",
                              "DLControlProblem(%s) throws %s for a valid plug-in (the constructor tests the member `functions` before assigning r.functions)" % (os.path.basename(line.split()[2]), o["load_exc"]), rep)
                continue
        r = ref["native" if k in ("wrap", "dl", "dlwrap") else "native0"]
        # the C ABI has no entries for the two projections: nothing to compare them with once DLControlProblem defines its own
        d = compare_ocp(r, o, skip=("eval_proj_diff_g", "eval_proj_multipliers") if k in ("dl", "dlwrap") and o.get("type_erasable") else ())
        if d:
            rep.update(reference_output=r, why=d[1])
            ctx.violation("C20:not-transparent:ocp-%s:%s" % (k, d[0]), "ocp %s: %s" % (k, d[1]), rep)
        if k == "wrapref" and o.get("ref_aliases") is False:
            rep["why"] = "ocproblem_with_counters_ref: the wrapper does not refer to the problem it was given"
            ctx.violation("C20:not-transparent:ocp-wrapref:holds-a-copy", rep["why"], rep)
        if k in ("wrap", "wrap0", "wrapref", "dlwrap") and "methods" in o:
            co = counters_oracle(o, OCP_FIELDS, have_log=(k != "dlwrap"))
            if co:
                rep["why"] = co[2]
                ctx.violation("C20:counter:ocp-%s:%s:%s" % (k, co[0], co[1]), "ocp %s: %s" % (k, co[2]), rep)
            for f, rr in o["methods"].items():
                own = f[5:] if f.startswith("eval_") else None
                if own in OCP_FIELDS and "exc" not in rr and o["provides"].get(f, True) and rr.get("cnt", {}).get(own, 0) != 1:
                    rep["why"] = "calling %s once changed counter %s by %s" % (f, own, rr.get("cnt", {}).get(own, 0))
                    ctx.violation("C20:counter:ocp-%s:%s:not-once" % (k, f), rep["why"], rep)

# --------------------------------------------------------------------------------------------------- load failures, flags

def check_loads(ctx):
    rng = ctx.rng
    base = gen_nlp_case(rng, 9000); base["name"] = "loadcase"
    ocp = gen_ocp_case(rng, 9000)
    BAD = "0xA1A000000004ull"
    plugs = {
        "ok_custom_name": (nlp_plugin_source(base, fn="my_register"), False),
        "ok_no_version_fn": (nlp_plugin_source(base, version_fn=False), False),
        "missing_register": (nlp_plugin_source(base, define_register=False), False),
        "version_fn_mismatch": (nlp_plugin_source(base, version_abi=BAD), False),
        "register_abi_mismatch": (nlp_plugin_source(base, version_fn=False, abi=BAD), False),
        "null_functions": (nlp_plugin_source(base, null_functions=True), False),
        "plugin_exception": (CPP_EXC_PLUGIN, True),
        "ocp_ok": (ocp_plugin_source(ocp), False),
        "ocp_version_mismatch": (ocp_plugin_source(ocp, version_abi=BAD), False),
        "ocp_missing_register": (ocp_plugin_source(ocp, define_register=False), False),
    }
    so = {}
    for k, (src, cpp) in plugs.items():
        so[k] = compile_plugin(ctx, "load_" + k, src, cpp)
        if so[k] is None: return
    nofile = os.path.join(BUILD, "c20_plugins", "does_not_exist.so")
    tests = [("nlp", nofile, "-", "dynamic_load_error"), ("nlp", "-", "-", "invalid_argument"),
             ("nlp", so["ok_custom_name"], "my_register", "loaded"), ("nlp", so["ok_custom_name"], "-", "dynamic_load_error"),
             ("nlp", so["ok_no_version_fn"], "-", "loaded"), ("nlp", so["missing_register"], "-", "dynamic_load_error"),
             ("nlp", so["version_fn_mismatch"], "-", "invalid_abi_error"), ("nlp", so["register_abi_mismatch"], "-", "invalid_abi_error"),
             ("nlp", so["null_functions"], "-", "logic_error"), ("nlp", so["plugin_exception"], "-", "runtime_error:c20-plugin-failure"),
             ("ocp", so["ocp_ok"], "-", "loaded"), ("ocp", so["ocp_version_mismatch"], "-", "invalid_abi_error"),
             ("ocp", so["ocp_missing_register"], "-", "dynamic_load_error"), ("ocp", nofile, "-", "dynamic_load_error"), ("ocp", "-", "-", "invalid_argument")]
    # two plug-ins generated from one template (same non-static function names, different data) alive in one process
    twin = {}
    for k, coef in (("twin_a", 1), ("twin_b", 2)):
        src = nlp_plugin_source(dict(base, name=k, mask=0))
        src = src.replace("static real_t eval_f(void *i, const real_t *x) { return c20_eval_f(P_(i), x); }",
                          "real_t problem_eval_f(void *i, const real_t *x) { return c20_eval_f(P_(i), x) + %d; }" % coef)
        src = src.replace("static void eval_grad_f(void *i, const real_t *x, real_t *g) { c20_eval_grad_f(P_(i), x, g); }",
                          "void problem_eval_grad_f(void *i, const real_t *x, real_t *g) { c20_eval_grad_f(P_(i), x, g); g[0] += %d; }" % coef)
        src = src.replace("I->functions.eval_f = &eval_f;", "I->functions.eval_f = &problem_eval_f;").replace("I->functions.eval_grad_f = &eval_grad_f;", "I->functions.eval_grad_f = &problem_eval_grad_f;")
        if "problem_eval_f" not in src or "&problem_eval_grad_f" not in src:
            ctx.broke("correspondence", "plugin-template:twin", "could not rewrite the plug-in template"); return
        twin[k] = compile_plugin(ctx, "load_" + k, src)
        if twin[k] is None: return
    line = "two %s %s %s" % (twin["twin_a"], twin["twin_b"], vec_in([0.5] * base["n"]))
    rc, o, err = run_driver_isolated("C20", line + "\n")
    ctx.count("load/two-plugins-alive")
    rep = {"driver": "drv_C20", "input": line, "impl_output": o, "rc": rc}
    if rc != 0 or not o or "load_exc" in o[0] or "exc" in o[0]:
        ctx.violation("C20:load:two-plugins-alive:failed", "loading two plug-ins in one process failed: rc=%s %s" % (rc, o[0] if o else err[-200:]), rep)
    else:
        r = o[0]
        ctx.case("load/two/%s" % ("distinct" if r["a_alone"] != r["b_alone"] else "same"))
        bad = [k for k, ref in (("a_both", "a_alone"), ("b_both", "b_alone"), ("a_both_rev", "a_alone"), ("b_both_rev", "b_alone"), ("ga_both", "ga_alone"), ("gb_both", "gb_alone"))
               if r[k] != r[ref]]
        if r["a_alone"] == r["b_alone"]:
            ctx.violation("C20:load:two-plugins-alive:vacuous", "the two plug-ins do not differ", rep)
        if bad:
            rep["why"] = "with both plug-ins loaded, %s differ from the values each plug-in gives when loaded alone: a plug-in's functions were replaced by the other's" % bad
            ctx.violation("C20:load:two-plugins-alive:functions-of-the-other-plugin", rep["why"], rep)
    for which, path, fn, exp in tests:
        line = "load %s %s %s" % (which, path, fn)
        rc, o, err = run_driver_isolated("C20", line + "\n")
        got = "crash rc=%s" % rc if rc != 0 or not o else ("loaded" if "loaded" in o[0] else o[0].get("load_exc", o[0].get("exc", "?")))
        tag = os.path.basename(path).replace("load_", "").replace(".so", "") if path != "-" else "empty-filename"
        ctx.count("load/" + which)
        ctx.case("load/%s/%s/%s" % (which, tag, got.split(":")[0]))
        ok = got == exp or (exp in ("logic_error", "invalid_argument") and got.startswith(exp + ":"))
        if not ok:
            rep = {"driver": "drv_C20", "input": line, "impl_output": o, "rc": rc, "expected": exp, "observed": got}
            if which == "ocp" and (exp == "loaded" or "did not return any functions" in got):
                ctx.violation("C20:dl-control-problem-constructor-rejects-valid-plugin",
                              "DLControlProblem(%s) gives %s for a valid plug-in" % (tag, got), rep)
            elif tag in ("version_fn_mismatch", "ocp_version_mismatch") and got == "loaded":
                ctx.violation("C20:load:version-function-abi-mismatch-ignored",
                              "plug-in whose <name>_version() reports another ABI version is loaded anyway: invalid_abi_error derives from "
                              "dynamic_load_error and is swallowed by the catch that handles a missing version function (%s loader)" % which, rep)
            else:
                ctx.violation("C20:load:%s:%s" % (which, tag), "loading %s: expected %s, observed %s" % (tag, exp, got), rep)

def check_tables(ctx, st):
    """mismatches of the generated tables, reported with the member as witness (the finite theorems cover the rest)"""
    T = st["tables"]
    def V(sig, what, extra=None):
        ctx.violation(sig, what, dict({"source": "translate/gen_C20_wrappers.py tables of %s" % REPO, "why": what}, **(extra or {})))
    for which in ("nlp", "ocp"):
        hdr = "problem-with-counters.hpp" if which == "nlp" else "ocproblem.hpp"
        for m in T[which + "_methods"]:
            ctx.case("table/%s/method/%s" % (which, "counted" if m["counter"] else "plain"))
            if m["counter"] is not None and ("eval_" + m["counter"] != m["name"] or m["timer"] != m["counter"]):
                V("C20:wrapper-table:counter:%s" % m["name"], "%s: %s increments counter '%s' / timer '%s'" % (hdr, m["name"], m["counter"], m["timer"]))
            if m["callee"] != m["name"] or m["args"] != m["params"]:
                V("C20:wrapper-table:forward:%s" % m["name"], "%s: %s forwards to problem.%s(%s), declared parameters (%s)" % (hdr, m["name"], m["callee"], ", ".join(m["args"]), ", ".join(m["params"])))
            if m["requires"] is not None and m["requires"] != m["name"]:
                V("C20:requires-clause-mismatch:%s" % m["name"], "%s: %s is constrained on %s" % (hdr, m["name"], m["requires"]))
        for p in T[which + "_provides"]:
            ctx.case("table/%s/provides" % which)
            if p["callee"] != p["name"]:
                V("C20:wrapper-table:forward:%s" % p["name"], "%s: %s returns problem.%s()" % (hdr, p["name"], p["callee"]))
            if p["requires"] != p["name"]:
                rep = None
                if p["name"] == "provides_eval_hess_ψ_prod":
                    rc, o, err = run_driver_isolated("C20", "f10 0\nf10 1\n")
                    rep = {"driver": "drv_C20", "input": "f10 0", "impl_output": o, "rc": rc}
                V("C20:requires-clause-mismatch:%s" % p["name"],
                  "%s: the requires-clause of %s tests %s: a problem that has %s but not %s loses the flag through the wrapper "
                  "(wrapper reports the function as provided whatever the problem says)" % (hdr, p["name"], p["requires"], p["name"], p["requires"]), rep)
    # on the real classes
    rc, o, err = run_driver_isolated("C20", "f10 0\nf10 1\nocph 0\nocph 12\n")
    if rc != 0 or len(o) != 4:
        ctx.broke("correspondence", "drv_C20 f10/ocph", "rc=%s %s" % (rc, err)); return
    for r in o[:2]:
        ctx.case("f10/%s/%s" % (r["underlying"], r["wrapped"]))
        if r["direct"] != r["underlying"] or r["wrapped"] != r["underlying"]:
            ctx.violation("C20:requires-clause-mismatch:provides_eval_hess_ψ_prod",
                          "problem with eval_hess_ψ_prod (provides=%s) and no eval_hess_ψ: TypeErasedProblem reports %s directly, %s through ProblemWithCounters" % (r["underlying"], r["direct"], r["wrapped"]),
                          {"driver": "drv_C20", "input": "f10 %d" % r["underlying"], "impl_output": r})
    for r, mask in zip(o[2:], (0, 12)):
        ctx.case("ocph/%d/%s" % (mask, r["h_wrapped"]))
        if r["h_wrapped"] != r["h_direct"] or r["hN_wrapped"] != r["hN_direct"]:
            ctx.violation("C20:ocp-wrapper-does-not-forward:provides_eval_h",
                          "ControlProblemWithCounters has no provides_eval_h / provides_eval_h_N: a problem reporting eval_h absent (%s) is reported as providing it through the wrapper (%s)" % (r["h_direct"], r["h_wrapped"]),
                          {"driver": "drv_C20", "input": "ocph %d" % mask, "impl_output": r})

def run(ctx):
    ctx.coverage["rule"] = ("counter histories: exhaustive short (<=3 wrappers, 2 functions) + random long (<=8 wrappers, 21 functions; 60% without reset) on both counting wrappers, "
                            "distinct by (wrapper kind, set of operation kinds, UB kind, number of sharing classes); "
                            "NLP/OCP problems: random subsets of the optional functions (native class with switchable members, C plug-ins generated and compiled per subset), "
                            "every type-erased entry point with dyadic arguments, distinct by (kind, m=0?, number of provided functions, which throwing defaults threw); "
                            "load failures: one plug-in per failure class")
    ctx.assumptions += ["dlopen/dlsym, the C ABI and the compiler's struct layout are trusted (the plug-ins are compiled with gcc from the shipped dl-problem.h)",
                        "timers (std::chrono) are not modelled; only counters are compared",
                        "the wrapper model covers the shared_ptr graph (null / shared / decoupled); memory reclamation of blocks is not modelled",
                        "translator grammar: one forwarding member per line in problem-with-counters.hpp / ocproblem.hpp / dl-problem.cpp (lines that do not parse are listed as out_of_grammar)",
                        "test functions of the native and plug-in problems are shared C code (harness/c20_plugin_common.h); only the forwarding layers differ",
                        "CasADi loader: run with the library's own replacement of the CasADi runtime on shared objects generated by lib/vf/casgen.py "
                        "(CasADi generated-code ABI as in test/outer/rosenbrock_functions_test.c; closed forms harness/cas_closed_forms.h shared with the native "
                        "reference of drv_casadi); libcasadi itself (ALPAQA_WITH_EXTERNAL_CASADI) and the optimal-control loader CasADiControlProblem are not run"]
    spec = importlib.util.spec_from_file_location("gen_C20_wrappers", os.path.join(VERIF, "translate", "gen_C20_wrappers.py"))
    tr = importlib.util.module_from_spec(spec); spec.loader.exec_module(tr)
    try:
        st = tr.generate(REPO, VERIF)
    except Exception as ex:
        ctx.broke("translator", "gen_C20_wrappers", repr(ex)); st = None
    if st:
        ctx.coverage["translator"] = {k: v for k, v in st.items() if k != "tables"}
        if st["out_of_grammar"]:
            ctx.log("translator-out-of-grammar: %s" % st["out_of_grammar"])
    check_properties(ctx)
    rc, log = coq_make(["theories/Corr_C20.vo"])      # not a dependency of Properties_C20.v
    if rc != 0:
        ctx.broke("correspondence", "Corr_C20.v does not compile", log)
    if not build_driver(ctx, "C20"):
        return
    if st:
        check_tables(ctx, st)
    check_histories(ctx, st)
    check_nlp(ctx)
    check_ocp(ctx)
    check_loads(ctx)
    # CasADi loader at run time: real CasADiProblem on generated CasADi-ABI plug-ins (transparency, flags, sparsity, counters, load failures, one solve)
    from vf import cascheck
    cascheck.attach_C20(ctx)
