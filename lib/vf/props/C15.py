"""C15 — proximal / projection operators.
translator: translate/gen_prox.py regenerates coq/gen/ProxGen.v from box.hpp / box-constr-problem.hpp / l1-norm.hpp / prox.hpp /
  indicator-box.hpp on every run; ProxGenEq.v proves every generated definition equal to Prox.v (obligations of Properties_C15.v);
proof: Properties_C15.v (Prox.v at the real instance);
correspondence: Prox.v at binary64 (Corr_C15.chk15) vs drv_C15 (the shipped operators);
oracle: optimality conditions evaluated directly on the implementation's outputs."""
import math
from vf.core import *
from vf import proxgen       # translator G10: translate/gen_prox.py -> coq/gen/ProxGen.v (ProxGenEq.v: generated = Prox.v)

INF = float("inf")

def gen_box(rng, n, around_zero=False):
    lb, ub = [], []
    for _ in range(n):
        k = rng.random()
        if around_zero:
            l = -abs(rng.dyadic(0, 4)); u = abs(rng.dyadic(0, 4))
        else:
            a, b = rng.dyadic(), rng.dyadic()
            l, u = min(a, b), max(a, b)
        if k < 0.15:
            l = -INF
        elif k < 0.3:
            u = INF
        elif k < 0.4:
            l, u = -INF, INF
        elif k < 0.5:
            u = l if not around_zero else u   # equal bounds
            if around_zero and rng.random() < 0.5:
                l = u = 0.0
        lb.append(l); ub.append(u)
    return lb, ub

def gen_cases(ctx):
    rng = ctx.rng
    cases = []
    N = ctx.n(400, 6000)
    for i in range(N):
        kind = rng.choice(["step0", "step1", "stepn", "stepn", "mult", "l1s", "l1v", "l1c", "l1cv", "boxprox", "boxstep", "projdiff", "ustep"])
        n = rng.choice([1, 1, 2, 3, 5, 8])
        γ = rng.posreal(-3, 2)
        if kind.startswith("step"):
            l1k = {"step0": 0, "step1": 1, "stepn": n}[kind]
            lb, ub = gen_box(rng, n, around_zero=(l1k > 0))
            l1 = [abs(rng.dyadic(0, 3)) if rng.random() < 0.65 else 0.0 for _ in range(l1k)]
            x = rng.vec(n, 2.0); g = rng.vec(n, 2.0)
            # aim at ties: forward point exactly on a bound or on the threshold
            for j in range(n):
                c = rng.random()
                lam = (l1[0] if l1k == 1 else l1[j]) if l1k else 0.0
                if c < 0.2 and math.isfinite(lb[j]):
                    x[j] = lb[j] + γ * g[j] + (γ * lam if lam else 0)
                elif c < 0.4 and math.isfinite(ub[j]):
                    x[j] = ub[j] + γ * g[j] - (γ * lam if lam else 0)
                elif c < 0.55 and lam:
                    x[j] = γ * g[j] + rng.choice([1, -1]) * γ * lam
                elif c < 0.7:
                    x[j] = γ * g[j]          # forward point exactly 0 (the kink of |.|; with a zero weight it is an ordinary interior point)
            cases.append(dict(op="step", lb=lb, ub=ub, l1=l1, γ=γ, x=x, g=g))
        elif kind == "ustep":
            cases.append(dict(op="ustep", γ=γ, x=rng.vec(n, 2.0), g=rng.vec(n, 2.0)))
        elif kind == "mult":
            lb, ub = gen_box(rng, n)
            M = rng.choice([0.0, 1.0, 2.5, 1e9, rng.posreal()])
            y = rng.vec(n, 4.0)
            for j in range(n):
                if rng.random() < 0.3:
                    y[j] = rng.choice([M, -M, 0.0])
            cases.append(dict(op="mult", k=rng.randint(0, n), lb=lb, ub=ub, M=M, y=y))
        elif kind == "l1s":
            lam = rng.choice([0.0, abs(rng.dyadic(0, 3)), rng.posreal()])
            v = rng.vec(n, 2.0)
            for j in range(n):
                if rng.random() < 0.3:
                    v[j] = rng.choice([1, -1]) * lam * γ
            cases.append(dict(op="l1s", λ=lam, γ=γ, v=v))
        elif kind == "l1v":
            lam = [rng.choice([0.0, abs(rng.dyadic(0, 3))]) for _ in range(n)]
            v = rng.vec(n, 2.0)
            for j in range(n):
                c = rng.random()
                if c < 0.3:
                    v[j] = rng.choice([1, -1]) * lam[j] * γ
                elif c < 0.45:
                    v[j] = 0.0
            cases.append(dict(op="l1v", λ=lam, γ=γ, v=v))
        elif kind == "l1c":
            lam = rng.choice([abs(rng.dyadic(0, 3)), rng.posreal(), 0.0])
            v = rng.vec(2 * n, 2.0)
            if rng.random() < 0.3:   # exact tie |z| = γλ via a 3-4-5 triangle
                s = lam * γ / 5.0
                v[0], v[1] = 3 * s, 4 * s
            if rng.random() < 0.3: v[-2] = v[-1] = 0.0      # an exactly zero component
            cases.append(dict(op="l1c", λ=lam, γ=γ, v=v))
        elif kind == "l1cv":
            lam = [rng.choice([0.0, abs(rng.dyadic(0, 3))]) for _ in range(n)]
            v = rng.vec(2 * n, 2.0)
            for j in range(n):      # exactly zero components (also where the weight is zero), exact ties |z| = γλ
                c = rng.random()
                if c < 0.25: v[2 * j] = v[2 * j + 1] = 0.0
                elif c < 0.4: v[2 * j], v[2 * j + 1] = 3 * lam[j] * γ / 5.0, 4 * lam[j] * γ / 5.0
            cases.append(dict(op="l1cv", λ=lam, γ=γ, v=v))
        elif kind == "boxprox":
            lb, ub = gen_box(rng, n)
            v = rng.vec(n, 4.0)
            for j in range(n):
                c = rng.random()
                if c < 0.2 and math.isfinite(lb[j]): v[j] = lb[j]
                elif c < 0.4 and math.isfinite(ub[j]): v[j] = ub[j]
            cases.append(dict(op="boxprox", lb=lb, ub=ub, v=v))
        elif kind == "boxstep":
            lb, ub = gen_box(rng, n)
            cases.append(dict(op="boxstep", lb=lb, ub=ub, γf=rng.choice([-γ, γ, -1.0]), x=rng.vec(n, 3.0), d=rng.vec(n, 3.0)))
        elif kind == "projdiff":
            lb, ub = gen_box(rng, n)
            cases.append(dict(op="projdiff", lb=lb, ub=ub, z=rng.vec(n, 4.0)))
    # nuclear norm (oracle only; SVD is Eigen's)
    for i in range(ctx.n(40, 400)):
        r, c = rng.choice([(1, 1), (2, 2), (2, 3), (3, 2), (4, 3), (3, 5)])
        lam = rng.choice([0.0, 0.5, 1.0, rng.posreal(-2, 1)])
        cases.append(dict(op="nuc", r=r, c=c, λ=lam, γ=rng.posreal(-2, 1), v=[rng.gauss(0, 1) for _ in range(r * c)]))
    # flat / low-rank matrices whose largest ENTRY is far below their largest SINGULAR VALUE, thresholds in between, at and beyond σ_max;
    # exact ties and zero matrices
    for r, c in ((2, 2), (3, 3), (2, 3), (4, 3), (3, 5)):
        for a in (1.0, 0.25):
            smax = a * math.sqrt(r * c)
            for t in (0.5 * a, a, 0.5 * (a + smax), smax * (1 - 2 ** -20), smax * 1.25):
                for γ in (1.0, 0.5):
                    cases.append(dict(op="nuc", r=r, c=c, λ=t / γ, γ=γ, v=[a] * (r * c)))
                    sgn = [a * (1 if (i + j) % 2 == 0 else -1) for j in range(c) for i in range(r)]
                    cases.append(dict(op="nuc", r=r, c=c, λ=t / γ, γ=γ, v=sgn))
        cases.append(dict(op="nuc", r=r, c=c, λ=1.0, γ=1.0, v=[0.0] * (r * c)))
    return cases

def to_input(c):
    op = c["op"]
    if op == "step":
        return "step %s %s %s %s %s %s" % (vec_in(c["lb"]), vec_in(c["ub"]), vec_in(c["l1"]), hexf(c["γ"]), vec_in(c["x"]), vec_in(c["g"]))
    if op == "ustep":
        return "ustep %s %s %s" % (hexf(c["γ"]), vec_in(c["x"]), vec_in(c["g"]))
    if op == "mult":
        return "mult %d %s %s %s %s" % (c["k"], vec_in(c["lb"]), vec_in(c["ub"]), hexf(c["M"]), vec_in(c["y"]))
    if op in ("l1s", "l1c"):
        return "%s %s %s %s" % (op, hexf(c["λ"]), hexf(c["γ"]), vec_in(c["v"]))
    if op in ("l1v", "l1cv"):
        return "%s %s %s %s" % (op, vec_in(c["λ"]), hexf(c["γ"]), vec_in(c["v"]))
    if op == "boxprox":
        return "boxprox %s %s %s" % (vec_in(c["lb"]), vec_in(c["ub"]), vec_in(c["v"]))
    if op == "boxstep":
        return "boxstep %s %s %s %s %s" % (vec_in(c["lb"]), vec_in(c["ub"]), hexf(c["γf"]), vec_in(c["x"]), vec_in(c["d"]))
    if op == "projdiff":
        return "projdiff %s %s %s" % (vec_in(c["lb"]), vec_in(c["ub"]), vec_in(c["z"]))
    if op == "nuc":
        return "nuc %d %d %s %s %s" % (c["r"], c["c"], hexf(c["λ"]), hexf(c["γ"]), vec_in(c["v"]))
    raise ValueError(op)

def to_coq(c, o):
    """Coq term of type c15case, or None when the op has no Coq model"""
    op = c["op"]
    V = lambda k: coqvec(o[k])
    if op == "step":
        return "CStep %s %s %s %s %s %s %s %s %s %s" % (coqvec(c["lb"]), coqvec(c["ub"]), coqvec(c["l1"]), coqf(c["γ"]),
                                                      coqvec(c["x"]), coqvec(c["g"]), V("xh"), V("p"), coqf(o["h"]),
                                                      coqlist([coqnat(i) for i in o["J"]]))
    if op == "ustep":  # unconstrained = box with infinite sides
        n = len(c["x"])
        return "CStep %s %s [] %s %s %s %s %s %s %s" % (coqvec([-INF] * n), coqvec([INF] * n), coqf(c["γ"]), coqvec(c["x"]), coqvec(c["g"]),
                                                       V("xh"), V("p"), coqf(o["h"]), coqlist([coqnat(i) for i in o["J"]]))
    if op == "mult":
        return "CMult %s %s %s %s %s %s" % (coqnat(c["k"]), coqvec(c["lb"]), coqvec(c["ub"]), coqf(c["M"]), coqvec(c["y"]), V("y"))
    if op == "l1s":
        return "CL1s %s %s %s %s %s" % (coqf(c["λ"]), coqf(c["γ"]), coqvec(c["v"]), V("out"), coqf(o["h"]))
    if op == "l1v":
        return "CL1v %s %s %s %s %s" % (coqvec(c["λ"]), coqf(c["γ"]), coqvec(c["v"]), V("out"), coqf(o["h"]))
    if op == "l1c":
        return "CL1c %s %s %s %s" % (coqf(c["λ"]), coqf(c["γ"]), coqvec(c["v"]), V("out"))
    if op == "boxprox":
        return "CBoxProx %s %s %s %s" % (coqvec(c["lb"]), coqvec(c["ub"]), coqvec(c["v"]), V("out"))
    if op == "boxstep":
        return "CBoxStep %s %s %s %s %s %s %s" % (coqvec(c["lb"]), coqvec(c["ub"]), coqf(c["γf"]), coqvec(c["x"]), coqvec(c["d"]), V("out"), V("p"))
    if op == "projdiff":
        return "CProjDiff %s %s %s %s" % (coqvec(c["lb"]), coqvec(c["ub"]), coqvec(c["z"]), V("out"))
    return None

# --------------------------------------------------------------------------- oracle (property predicate on impl outputs)

def ulp(x):
    return math.ulp(x) if math.isfinite(x) else 0.0

def close(a, b, rel=1e-11, ab=1e-300):
    if math.isnan(a) or math.isnan(b):
        return math.isnan(a) and math.isnan(b)
    if a == b:
        return True
    return abs(a - b) <= rel * max(abs(a), abs(b)) + ab

def soft(v, s):
    return v - s if v > s else (v + s if v < -s else 0.0)

def oracle(c, o):
    """returns None or a string describing how the property fails on this implementation output"""
    op = c["op"]
    if "exc" in o:
        return "unexpected exception: " + o["exc"]
    U = lambda k: [unhex(t) for t in o[k]]
    if op in ("step", "ustep"):
        n = len(c["x"]); xh, p, h = U("xh"), U("p"), unhex(o["h"])
        lb = c.get("lb", [-INF] * n); ub = c.get("ub", [INF] * n); l1 = c.get("l1", [])
        γ = c["γ"]; J = o["J"]
        hexp = 0.0
        for i in range(n):
            lam = 0.0 if not l1 else (l1[0] if len(l1) == 1 else l1[i])
            x, g = c["x"][i], c["g"][i]
            v = x - γ * g
            # feasibility up to rounding of x + (lb - x)
            slack = 4 * max(ulp(x), ulp(lb[i]) if math.isfinite(lb[i]) else 0, ulp(ub[i]) if math.isfinite(ub[i]) else 0, ulp(xh[i]))
            if not (lb[i] - slack <= xh[i] <= ub[i] + slack):
                return "x̂[%d]=%r outside [%r,%r]" % (i, xh[i], lb[i], ub[i])
            if not close(p[i], xh[i] - x, 1e-9, 4 * ulp(x) + 4 * ulp(xh[i])):
                return "p[%d] != x̂-x" % i
            # optimality condition of min λ|u| + δ_box(u) + (u-v)²/(2γ): r = (v - x̂)/γ ∈ λ∂|x̂| + N_box(x̂)
            r = (v - xh[i]) / γ
            tol = 1e-9 * (1 + abs(v) / γ + abs(lam)) + 8 * (ulp(v) + ulp(xh[i])) / γ
            lo, hi = (-lam, lam) if abs(xh[i]) <= 4 * ulp(x) + 4*ulp(γ*g) else ((lam, lam) if xh[i] > 0 else (-lam, -lam))
            at_lb = math.isfinite(lb[i]) and abs(xh[i] - lb[i]) <= slack
            at_ub = math.isfinite(ub[i]) and abs(xh[i] - ub[i]) <= slack
            if at_lb: lo = -INF
            if at_ub: hi = INF
            if not (lo - tol <= r <= hi + tol):
                return "optimality condition fails at component %d: r=%r not in [%r,%r]" % (i, r, lo, hi)
            hexp += abs(lam * xh[i])
            # inactive set: reported iff strictly inside the box and off the soft-threshold kink (decided away from ties)
            t = soft(v, γ * lam)
            margin = 1e-9 * (1 + abs(v) + abs(γ * lam))
            # exact mode: when every intermediate is exactly representable the classification has no margin
            from fractions import Fraction as Fr
            try:
                ev = Fr(x) - Fr(γ) * Fr(g); es = Fr(γ) * Fr(lam)
                exact = (Fr(v) == ev) and (Fr(γ * lam) == es) and Fr(γ * g) == Fr(γ) * Fr(g)
                et = ev - es if ev > es else (ev + es if ev < -es else Fr(0))
                exact = exact and (et == 0 or Fr(float(et)) == et)
            except (OverflowError, ValueError):
                exact = False
            if exact:
                margin = 0.0
                t = float(et)
            inside = (lb[i] + margin < t < ub[i] - margin) and (lam == 0 or abs(v) > γ * lam + margin)
            outside = (t < lb[i] - margin or t > ub[i] + margin or (lam != 0 and abs(v) < γ * lam - margin) or
                       (lam != 0 and abs(v) > γ * lam + margin and (t < lb[i] - margin or t > ub[i] + margin)))
            on_lb = (not exact) and math.isfinite(lb[i]) and abs(t - lb[i]) <= margin
            on_ub = (not exact) and math.isfinite(ub[i]) and abs(t - ub[i]) <= margin
            if exact:
                outside = not inside
            if inside and not on_lb and not on_ub and i not in J:
                return "index %d is inactive (locally identity shift) but not reported" % i
            if outside and i in J:
                return "index %d reported inactive but mapping is not a local shift there" % i
        if not close(h, hexp, 1e-10, 1e-300):
            return "returned h=%r but h(x̂)=%r" % (h, hexp)
        if J != sorted(set(J)):
            return "inactive index list not strictly ascending"
    elif op == "mult":
        y = U("y"); M = c["M"]
        for i in range(len(y)):
            if i < c["k"]:
                if y[i] != 0: return "penalty-only row %d not zeroed" % i
                continue
            lo = 0.0 if c["lb"][i] == -INF else -M
            hi = 0.0 if c["ub"][i] == INF else M
            exp = min(max(c["y"][i], lo), hi)
            if y[i] != exp and not (y[i] == 0 and exp == 0):
                return "multiplier %d: got %r expected clamp %r" % (i, y[i], exp)
    elif op in ("l1s", "l1v"):
        out = U("out"); h = unhex(o["h"]); γ = c["γ"]
        if not all(math.isfinite(t) for t in out + [h]): return "l1 prox of a finite input is not finite: out=%r h=%r" % (out, h)
        hexp = 0.0
        for i, v in enumerate(c["v"]):
            lam = c["λ"] if op == "l1s" else c["λ"][i]
            r = (v - out[i]) / γ
            tol = 1e-9 * (1 + abs(v) / γ + lam) + 8 * ulp(v) / γ
            if out[i] > 0 and abs(r - lam) > tol: return "l1 subgradient fails (pos) at %d" % i
            if out[i] < 0 and abs(r + lam) > tol: return "l1 subgradient fails (neg) at %d" % i
            if out[i] == 0 and abs(r) > lam + tol: return "l1 subgradient fails (zero) at %d" % i
            hexp += lam * abs(out[i])
        if not close(h, hexp, 1e-10): return "returned h=%r but h(out)=%r" % (h, hexp)
        if op == "l1s":
            pso, psf, psr = U("ps_out"), U("ps_fb"), U("ps_ref")
            for i in range(len(pso)):
                if not close(pso[i], psr[i]): return "prox_step out != prox(in+γfwd·fwd)"
                if not close(psf[i], pso[i] - c["v"][i], 1e-9, 8 * ulp(c["v"][i])): return "prox_step fb != out - in"
    elif op in ("l1c", "l1cv"):
        out = U("out"); h = unhex(o["h"]); γ = c["γ"]; hexp = 0.0
        if not all(math.isfinite(t) for t in out + [h]): return "complex l1 prox of a finite input is not finite: out=%r h=%r" % (out, h)
        for i in range(len(out) // 2):
            lam = c["λ"] if op == "l1c" else c["λ"][i]
            a, b = c["v"][2 * i], c["v"][2 * i + 1]; oa, ob = out[2 * i], out[2 * i + 1]
            ra, rb = (a - oa) / γ, (b - ob) / γ
            no = math.hypot(oa, ob); tol = 1e-9 * (1 + math.hypot(a, b) / γ + lam)
            if no > 0:
                if abs(ra - lam * oa / no) > tol or abs(rb - lam * ob / no) > tol:
                    return "complex l1 subgradient fails at %d" % i
            elif math.hypot(ra, rb) > lam + tol:
                return "complex l1 subgradient (zero) fails at %d" % i
            hexp += lam * no
        if not close(h, hexp, 1e-10): return "returned h=%r but h(out)=%r" % (h, hexp)
    elif op == "boxprox":
        out = U("out")
        for i, v in enumerate(c["v"]):
            if out[i] != min(max(v, c["lb"][i]), c["ub"][i]): return "box prox component %d is not the projection" % i
        if unhex(o["h"]) != 0: return "box prox must return 0"
        if "out_view" in o:
            if [t for t in o["out_view"]] != [t for t in o["out"]]: return "box prox through a non-contiguous matrix window differs from the same data as a vector: %r vs %r" % (o["out_view"], o["out"])
            if not o["view_guard_ok"]: return "box prox wrote outside the output window"
    elif op == "boxstep":
        out, p = U("out"), U("p")
        for i in range(len(out)):
            x = c["x"][i]; v = x + c["γf"] * c["d"][i]
            e = min(max(v, c["lb"][i]), c["ub"][i])
            if not close(out[i], e, 1e-12, 8 * ulp(x) + 8*ulp(v)): return "box prox_step out[%d] is not the projection" % i
            if not close(p[i], out[i] - x, 1e-9, 8 * ulp(x)): return "box prox_step p != out - in"
        if "out_view" in o:
            if list(o["out_view"]) != list(o["out"]) or list(o["p_view"]) != list(o["p"]):
                return "box prox_step through non-contiguous matrix windows differs from the same data as vectors: out %r vs %r, p %r vs %r" % (o["out_view"], o["out"], o["p_view"], o["p"])
            if not o["view_guard_ok"]: return "box prox_step wrote outside the output windows"
    elif op == "projdiff":
        out = U("out")
        for i, z in enumerate(c["z"]):
            e = z - min(max(z, c["lb"][i]), c["ub"][i])
            if not close(out[i], e, 1e-12): return "projecting difference component %d" % i
    elif op == "nuc":
        h = unhex(o["h"]); svi, svo = U("sv_in"), U("sv_out"); lam, γ = c["λ"], c["γ"]
        scale = 1 + (svi[0] if svi else 0)
        for a, b in zip(svi, svo):
            if abs(max(a - lam * γ, 0.0) - b) > 1e-9 * scale: return "nuclear prox: singular values are not soft-thresholded"
        if abs(h - lam * sum(svo)) > 1e-9 * scale * (1 + lam): return "nuclear prox: returned value is not λ‖out‖*"
        if lam > 0:
            if unhex(o["W_norm2"]) > 1 + 1e-7: return "nuclear prox: subgradient spectral norm > 1"
            if unhex(o["subgrad_dev"]) > 1e-6: return "nuclear prox: subgradient does not match U1 V1ᵀ on the range"
    return None

def signature(c, o):
    op = c["op"]
    if op in ("step", "ustep"):
        n = len(c["x"])
        lb = c.get("lb", [-INF] * n); ub = c.get("ub", [INF] * n)
        xh = [unhex(t) for t in o["xh"]]
        st = []
        for i in range(min(n, 3)):
            st.append(("L" if xh[i] == lb[i] else "U" if xh[i] == ub[i] else "Z" if xh[i] == 0 else "I") + ("j" if i in o["J"] else ""))
        return "%s/%d/%s" % (op, len(c.get("l1", [])) if len(c.get("l1", [])) < 2 else 2, "".join(st))
    if op == "mult":
        return "mult/%s" % "".join("0" if unhex(t) == 0 else "M" if abs(unhex(t)) == c["M"] else "y" for t in o["y"][:3])
    if "out" in o:
        return "%s/%s" % (op, "".join("0" if unhex(t) == 0 else "+" if unhex(t) > 0 else "-" for t in o["out"][:3]))
    return op

def run(ctx):
    ctx.coverage["rule"] = ("random+boundary-aimed operator inputs (ties on bounds / thresholds as exact dyadics, infinite and equal bounds, zero weights); "
                            "a case is distinct by its (operator, l1 kind, per-component outcome class [lower/upper/zero/interior, reported-inactive]) signature")
    ctx.assumptions += ["binary64 rounding is not modelled in the theorems (ideal reals); the float run of the same definitions is compared with tolerance 2^-36",
                        "infinite box sides are None in the model (equal to ±inf doubles when x is finite)",
                        "nuclear norm: only the optimality condition on implementation outputs is checked (Eigen SVD is an oracle); no theorem",
                        "tie 1: translate/gen_prox.py (restricted Eigen coefficient-wise expression/statement grammar, ~1800 lines of Python) is trusted "
                        "to translate what it accepts faithfully; it is cross-checked on every run by running the GENERATED definitions at binary64 "
                        "against the implementation (Corr_ProxGen.chk15g); `Some l` bounds are assumed finite"]
    proxgen.translate(ctx)                 # tie 1: regenerate coq/gen/ProxGen.v from core.REPO; status -> ctx.coverage["translator_prox"]
    ok_proof = check_properties(ctx)
    if not ok_proof:
        proxgen.name_obligations(ctx)      # name every ProxGenEq obligation (generated = hand model) that no longer checks
    proxgen.exact_status(ctx)              # operand-order-exact equalities: informational
    if not build_driver(ctx, "C15"):
        return
    cases = gen_cases(ctx)
    outs = run_driver(ctx, "C15", [(to_input(c)) + "\n" for c in cases])
    if outs is None or len(outs) != len(cases):
        ctx.broke("correspondence", "drv_C15", "driver returned %s lines for %d cases; rc=%s %s" % (None if outs is None else len(outs), len(cases), getattr(ctx, "driver_rc", "?"), getattr(ctx, "driver_err", "")))
        return
    terms, idx = [], []
    for k, (c, o) in enumerate(zip(cases, outs)):
        ctx.count(c["op"])
        ctx.case(signature(c, o) if "exc" not in o else c["op"] + "/exc", sample={"case": {a: (b if not isinstance(b, float) else hexf(b)) for a, b in c.items()}, "impl": o} if k % 97 == 0 else None)
        bad = oracle(c, o)
        if bad:
            ctx.violation("C15:%s:%s" % (c["op"], bad.split(" at ")[0][:60]), bad, {"driver": "drv_C15", "input": to_input(c), "impl_output": o, "why": bad})
        if "exc" in o:
            continue
        t = to_coq(c, o)
        if t:
            terms.append("(" + t + ")"); idx.append(k)
    failing = coq_failing_cases(ctx, "corr", "Prox Corr_C15", "c15case", "chk15", terms, dump="model15")
    ctx.coverage["correspondence_cases"] = len(terms)
    if failing:
        k = idx[failing[0]]
        ctx.coverage["correspondence_disagreements"] = len(failing)
        ctx.broke("correspondence", "Prox.v vs drv_C15 (%s)" % cases[k]["op"],
                  json.dumps({"input": to_input(cases[k]), "impl_output": outs[k], "model": getattr(ctx, "last_dump", "")}))
    else:
        ctx.coverage["correspondence_disagreements"] = 0
    proxgen.validate(ctx, terms, idx, cases, outs, to_input)   # translation validation: GENERATED definitions vs implementation at binary64
