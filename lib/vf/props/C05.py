"""C05 — inner solvers decrease the forward-backward envelope; step size never grows.
proof: Properties_C05.v (SolverKernels.v over R); correspondence: Corr_Run (fbe, step, ls, qub, halve, cand at binary64) on callback records
of real runs (drv_solve) incl. a scripted direction provider that forces every line-search branch; oracle: the inequalities on the records."""
import math
from vf.core import *
from vf import solvelib as sl
from vf import runcorr

def gen_requests(ctx):
    rng = ctx.rng
    reqs = []
    N = ctx.n(220, 2500)
    for i in range(N):
        c = rng.random()
        if c < 0.45:
            solver, direction = rng.choice([("panoc", "scripted"), ("zerofpr", "scripted")])
        else:
            solver, direction = rng.choice([s for s in sl.STACKS if s[0] != "fista"])
        kind = rng.choice(["nonconvex", "nonconvex", "qp"])
        prob, kind = sl.gen_problem(rng, kind, hess=(solver == "pantr" and rng.random() < 0.5))
        params = ["solver.max_iter=%d" % rng.choice([3, 8, 25, 60])]
        L0 = rng.choice([None, None, "1e-3", "1e-1", "1", "1e4"])
        if L0: params.append("solver.Lipschitz.L_0=" + L0)
        if rng.random() < 0.15: params.append("solver.L_max=%s" % rng.choice(["4", "64", "1e3"]))   # L reaches L_max
        if solver in ("panoc", "zerofpr"):
            if rng.random() < 0.2: params.append("solver.linesearch_strictness_factor=%s" % rng.choice(["0.5", "0.99", "0.1"]))
            if rng.random() < 0.2: params.append("solver.min_linesearch_coefficient=%s" % rng.choice(["0.25", "0.0078125", "0.5"]))
            if solver == "panoc" and rng.random() < 0.2: params.append("solver.linesearch_coefficient_update_factor=%s" % rng.choice(["0.25", "0.75"]))
            if rng.random() < 0.15: params.append("solver.update_direction_in_candidate=true")
            if rng.random() < 0.10: params.append("solver.recompute_last_prox_step_after_stepsize_change=true")
        if solver == "pantr" and not prob.hess: params.append("dir.finite_diff=true")
        script = [rng.choice([0, 1, 2, 2, 3, 3, 4, 5, 6, 6, 6, 7, 8]) for _ in range(rng.randint(1, 6))] if direction == "scripted" else []
        x0 = rng.vec(prob.n, 2.0)
        y0 = rng.vec(prob.m, 1.0); S0 = [rng.choice([0.5, 1.0, 4.0, 10.0]) for _ in range(prob.m)]
        if rng.random() < 0.25: prob.prov = rng.choice([0x80, 0x20, 0x40, 0x10, 0xa0, 0xfe, 0x0e, rng.randrange(0, 256) & 0xfe])   # provider mix (supplied members poison the work buffers)
        reqs.append(sl.Request(prob, x0, y0, S0, solver, direction, "inner", params, tol=1e-9, script=script,
                               script_initial=(direction == "scripted" and rng.random() < 0.3), **({"stop_at_eval": rng.randint(5, 60)} if rng.random() < 0.05 else {})))
    return reqs

def oracle(rq, o):
    """the property's inequalities on the reported iterates; returns list of (sig, msg, k)"""
    bad = []
    if "exc" in o: return bad
    c = runcorr.solver_consts(rq)
    recs = o["records"]
    D, V = sl.D, sl.V
    eps = 2.0 ** -52
    for i, r in enumerate(recs):
        gamma, L = D(r, "gamma"), D(r, "L")
        if not (math.isfinite(gamma) and math.isfinite(L)): continue
        # gamma * L stays at the configured ratio
        if not sl.close(gamma * L, c["Lgamma"], 1e-12, 0):
            bad.append(("C05:gammaL-ratio:" + rq.solver, "gamma*L=%r != Lgamma_factor=%r at k=%d" % (gamma * L, c["Lgamma"], r["k"]), i))
        psi, psih, phi = D(r, "psi"), D(r, "psih"), D(r, "phi")
        grad, p = V(r, "grad"), V(r, "p"); pp = D(r, "nsqp")
        if not all(math.isfinite(t) for t in grad + p + [psi, psih, phi, pp]): continue
        gp = sum(a * b for a, b in zip(grad, p))
        # each reported iterate satisfies the quadratic upper bound unless L reached L_max
        if L < c["L_max"] and not c["recompute"]:
            rhs = psi + gp + 0.5 * L * pp + (1 + abs(psi)) * c["qub_tol"]
            slack = 64 * eps * (abs(psi) + abs(gp) + L * pp + abs(psih))
            if psih > rhs + slack:
                bad.append(("C05:qub-violated-at-reported-iterate:" + rq.solver, "k=%d: psi(x_hat)=%r > %r (L=%r < L_max)" % (r["k"], psih, rhs, L), i))
        nxt = recs[i + 1] if i + 1 < len(recs) else None
        if nxt is None or nxt["outer"] != r["outer"] or r["status"] != "Busy": continue
        g2 = D(nxt, "gamma"); phi2 = D(nxt, "phi")
        if g2 > gamma:
            bad.append(("C05:gamma-increased:" + rq.solver, "gamma grew from %r to %r at k=%d" % (gamma, g2, r["k"]), i))
        if not math.isfinite(phi2) or rq.prob.l1: continue
        ck = (1 - gamma * L) / (2 * gamma)
        slack = 256 * eps * (1 + abs(phi) + abs(phi2) + abs(psi) + ck * pp)
        if rq.solver in ("panoc", "zerofpr"):
            if c["force"] or c["recompute"]: continue
            tau = D(r, "tau")
            if tau > 0:
                bound = phi - c["beta"] * ck * pp + (1 + abs(phi)) * c["ls_tol"]
                if phi2 > bound + slack:
                    bad.append(("C05:accelerated-step-no-descent:" + rq.solver, "k=%d tau=%r: phi_next=%r > phi - beta*c*|p|^2 + margin = %r" % (r["k"], tau, phi2, bound), i))
            elif L < c["L_max"]:
                bound = phi - ck * pp + (1 + abs(psi)) * c["qub_tol"]
                if phi2 > bound + slack:
                    bad.append(("C05:safe-step-no-descent:" + rq.solver, "k=%d tau=0: phi_next=%r > phi - c*|p|^2 + margin = %r" % (r["k"], phi2, bound), i))
        elif rq.solver == "pantr":
            # non-increase whenever the step size is unchanged (accepted TR step) — and also for the fallback prox step
            if L < c["L_max"]:
                tr_tol = runcorr.fl(rq, "solver.TR_tolerance_factor", 10 * eps)
                bound = phi + (1 + abs(phi)) * (tr_tol + c["qub_tol"]) + (1 + abs(psi)) * c["qub_tol"]
                if g2 == gamma and phi2 > bound + slack:
                    bad.append(("C05:trust-region-increase:pantr", "k=%d: phi_next=%r > phi=%r with unchanged step size" % (r["k"], phi2, phi), i))
    return bad

def run(ctx):
    ctx.coverage["rule"] = ("runs of PANOC/ZeroFPR (L-BFGS, structured L-BFGS, Anderson, no-op and a SCRIPTED direction provider cycling through fail / p / 3p / ascent / huge / NaN / random / "
                            "gradient step / zero) and PANTR on generated nonconvex quartic and QP problems with boxes, L_0 from 1e-3 to 1e4, small L_max, varied line-search parameters; "
                            "every consecutive pair of callback records is one evaluation; distinct = (solver, direction, branch class [tau=1, 0<tau<1, tau=0, gamma halved, L at L_max]) signature")
    ctx.assumptions += ["theorems over ideal reals; the record-level inequalities are evaluated at binary64 with slack 256 eps (1+|phi|+...)",
                        "psi, grad psi are arbitrary in the theorems (nothing is assumed about the user's functions or the direction provider)",
                        "PANTR: non-increase is checked for unchanged step size (property text); FISTA is not part of C05",
                        "recompute_last_prox_step_after_stepsize_change=true rewrites the reported iterate k after the line search: the descent clauses are stated and checked for the default (false)"]
    # tie 1 (translator G9): regenerate gen/KernelsGen.v from the source, status in ctx.coverage["translator_kernels"], re-check KernelsGenEq.v
    from vf.props import KERNELS
    KERNELS.pre(ctx)
    check_properties(ctx)
    if not build_driver(ctx, "solve"): return
    reqs = gen_requests(ctx)
    outs = run_driver(ctx, "solve", [r.to_input() for r in reqs], timeout=1500)
    if outs is None or len(outs) != len(reqs):
        ctx.broke("correspondence", "drv_solve", "driver produced %s results for %d runs rc=%s %s" % (None if outs is None else len(outs), len(reqs), getattr(ctx, "driver_rc", "?"), getattr(ctx, "driver_err", "")))
        return
    terms, owners = [], []
    for rq, o in zip(reqs, outs):
        if "exc" in o:
            ctx.count("exception"); continue
        ctx.count("%s.%s" % (rq.solver, rq.direction))
        recs = o["records"]
        c = runcorr.solver_consts(rq)
        for i, r in enumerate(recs[:-1]):
            tau = sl.D(r, "tau") if "tau" in r else float("nan")
            cls = "t1" if tau == 1 else "tp" if tau > 0 else "t0" if tau == 0 else "tr"
            if sl.D(recs[i + 1], "gamma") < sl.D(r, "gamma"): cls += "h"
            if sl.D(r, "L") >= c["L_max"]: cls += "M"
            ctx.case("%s/%s/%s" % (rq.solver, rq.direction, cls), sample=({"request": rq.describe(), "record_k": {k: v for k, v in r.items()}, "record_k+1_phi": recs[i + 1]["phi"]}
                                                                         if len(ctx.coverage["samples"]) < 3 and tau > 0 else None))
        for sig, msg, i in oracle(rq, o):
            ctx.violation(sig, msg, {"driver": "drv_solve", "input": rq.to_input(), "request": rq.describe(), "record": recs[i], "next_record": recs[i + 1] if i + 1 < len(recs) else None, "why": msg})
        for kind, t in runcorr.terms_from_run(rq, o, {"fbe", "step", "ls", "qub", "halve", "cand"}):
            terms.append(t); owners.append((kind, rq))
            ctx.count("corr/" + kind)
    failing = coq_failing_cases(ctx, "run", "Prox SolverStatus SolverKernels Corr_Run", "runcase", "chkrun", terms)
    ctx.coverage["correspondence_cases"] = len(terms)
    ctx.coverage["correspondence_disagreements"] = len(failing or [])
    if failing:
        kind, rq = owners[failing[0]]
        kinds = sorted(set(owners[i][0] for i in failing))
        ctx.broke("correspondence", "SolverKernels.v vs drv_solve records (%s)" % ",".join(kinds),
                  json.dumps({"first_disagreeing_case": terms[failing[0]], "kind": kind, "request": rq.describe(), "n_disagreements": len(failing)}))
    KERNELS.attach_runs(ctx, reqs, outs)     # generated kernels (per solver copy) vs the same callback records, at binary64
    # whole-loop tie for PANOC: verified model (Panoc.v) vs the real solver on whole runs
    from vf.props import PANOC, PANTR
    def on_run(cs, o):
        return [(sig, msg) for sig, msg, _ in oracle(cs.rq, o)]
    PANOC.attach(ctx, extra_oracle=on_run)
    PANTR.attach(ctx, extra_oracle=on_run)
    from vf.props import ZEROFPR
    ZEROFPR.attach(ctx, extra_oracle=on_run)
    # the SHIPPED stacks (PANOC with LBFGS / StructuredLBFGS / Anderson / Noop providers inside the model): refinement of the oracle model + whole runs
    from vf.props import PANOCDIR
    PANOCDIR.attach(ctx, extra_oracle=on_run)
    from vf.props import ZEROFPRDIR
    ZEROFPRDIR.attach(ctx, extra_oracle=on_run)
    # the SHIPPED PANTR stack (NewtonTRDirection over SteihaugCG inside the model): refinement of the oracle model + whole runs
    from vf.props import PANTRDIR
    PANTRDIR.attach(ctx, extra_oracle=on_run)
    # PANOC-OCP: whole-loop model + its NaN-candidate stream (an accelerated candidate with a non-finite cost must be dropped, not accepted)
    from vf.props import PANOCOCP
    PANOCOCP.attach(ctx, scale=0.25)
