"""PANOC — whole-run model of PANOCSolver::operator() (coq/theories/Panoc.v) and its loop invariants.
proof: Properties_PANOC.v (PanocProofs.v over R, for every problem oracle, direction oracle, stop/time oracle and parameter set);
correspondence: Corr_PANOC.chkpanoc — the executable model at binary64, with the oracles instantiated by the drv_solve problem family,
the ScriptedDirection and the driver's stop-injection points, must reproduce WHOLE RUNS of the real solver (not teacher-forced):
every progress-callback record, final status / iterations / eps / outputs, all statistics counters, evaluation / direction-call /
callback counts; oracle: the invariants evaluated directly on the implementation's records."""
import math
from vf.core import *
from vf import solvelib as sl

EPS = 2.0 ** -52
INF = float("inf")

DEFAULTS = dict(max_iter=100, max_no_progress=10, L_0=0.0, lip_eps=1e-6, lip_delta=1e-12, Lgamma=0.95, L_min=1e-5, L_max=1e20,
                crit="ApproxKKT", qub_tol=10 * EPS, ls_tol=10 * EPS, beta=0.95, tau_factor=0.5, tau_min=1.0 / 256,
                force=False, upd=False, recompute=False, eager=False)
KEYS = dict(max_iter="solver.max_iter", max_no_progress="solver.max_no_progress", L_0="solver.Lipschitz.L_0", lip_eps="solver.Lipschitz.ε",
            lip_delta="solver.Lipschitz.δ", Lgamma="solver.Lipschitz.Lγ_factor", L_min="solver.L_min", L_max="solver.L_max",
            qub_tol="solver.quadratic_upperbound_tolerance_factor", ls_tol="solver.linesearch_tolerance_factor",
            beta="solver.linesearch_strictness_factor", tau_factor="solver.linesearch_coefficient_update_factor",
            tau_min="solver.min_linesearch_coefficient", force="solver.force_linesearch", upd="solver.update_direction_in_candidate",
            recompute="solver.recompute_last_prox_step_after_stepsize_change", eager="solver.eager_gradient_eval")

def pstr(v):
    if isinstance(v, bool):
        return "true" if v else "false"
    if isinstance(v, int):
        return str(v)
    return repr(float(v))

class Case:
    def __init__(self, prob, x0, y0, S0, P, always, tol, script, initial, stop_eval=-1, stop_cb=-1, stop_dir=-1, time0=False, tag="random"):
        self.__dict__.update(locals()); del self.__dict__["self"]
        params = []
        for k, v in P.items():
            if k == "crit":
                params.append("xcrit=%s" % v)
            else:
                params.append("%s=%s" % (KEYS[k], pstr(v)))
        self.rq = sl.Request(prob, x0, y0, S0, "panoc", "scripted", "inner", params, always=always, tol=tol,
                             max_time_ns=(0 if time0 else -1), stop_at_eval=stop_eval, stop_at_cb=stop_cb, stop_at_dircall=stop_dir,
                             script=script, script_initial=initial)

    def P_(self, k):
        return self.P.get(k, DEFAULTS[k])

def coqmat(M):
    return coqlist([coqvec(r) for r in M])

def coq_params(cs):
    g = cs.P_
    return ("(mkParams %s %s %s %s %s %s %s %s %s %s %s %s %s %s %s %s %s %s %s %s)" %
            (coqnat(g("max_iter")), coqnat(g("max_no_progress")), coqf(g("L_0")), coqf(g("lip_eps")), coqf(g("lip_delta")), coqf(g("Lgamma")),
             coqf(g("L_min")), coqf(g("L_max")), g("crit"), coqf(g("qub_tol")), coqf(g("ls_tol")), coqf(g("beta")), coqf(g("tau_factor")),
             coqf(g("tau_min")), coqbool(g("force")), coqbool(g("upd")), coqbool(g("recompute")), coqbool(g("eager")),
             coqbool(cs.always), coqf(cs.tol)))

def coq_rec(r):
    V, D = sl.V, sl.D
    return ("(mkX %s St%s %s %s %s %s %s %s %s %s %s %s %s %s %s %s %s)" %
            (coqnat(r["k"]), r["status"], coqvec(V(r, "x")), coqvec(V(r, "p")), coqf(D(r, "nsqp")), coqvec(V(r, "xh")), coqvec(V(r, "yh")),
             coqf(D(r, "phi")), coqf(D(r, "psi")), coqvec(V(r, "grad")), coqf(D(r, "psih")), coqvec(V(r, "gradh")), coqf(D(r, "L")),
             coqf(D(r, "gamma")), coqf(D(r, "eps")), coqf(D(r, "tau")), coqvec(V(r, "q"))))

def coq_case(cs, o):
    p = cs.prob
    V, D = sl.V, sl.D
    fuel = cs.P_("max_iter") + 8
    ist = [o["stepsize_backtracks"], o["linesearch_backtracks"], o["linesearch_failures"], o["lbfgs_failures"], o["tau_1_accepted"], o["count_tau"]]
    fst = [D(o, "sum_tau"), D(o, "final_gamma"), D(o, "final_psi"), D(o, "final_h"), D(o, "final_phi")]
    return ("(PCase %s %s %s %s %s %s %s %s %s %s %s %s %s %s %s %s %s %s %s %s %s %s %s St%s %s %s %s %s %s %s %s %s %s %s %s)" %
            (coqnat(p.n), coqmat(p.Q), coqvec(p.c), coqvec(p.w), coqmat(p.A), coqvec(p.d), coqvec(p.Clb), coqvec(p.Cub), coqvec(p.Dlb), coqvec(p.Dub),
             coqvec(p.l1), coqvec(cs.x0), coqvec(cs.y0), coqvec(cs.S0), coq_params(cs), coqlist([coqnat(s) for s in cs.script]), coqbool(cs.initial),
             coqZ(cs.stop_eval), coqZ(cs.stop_cb), coqZ(cs.stop_dir), coqbool(cs.time0), coqnat(fuel), coqnat(3000),
             o["status"], coqnat(o["iterations"]), coqf(D(o, "eps")), coqvec(V(o, "x_out")), coqvec(V(o, "y_out")), coqvec(V(o, "err_z")),
             coqlist([coqnat(v) for v in ist]), coqvec(fst), coqnat(o["evals"]), coqnat(o["dircalls"]), coqnat(o["cbs"]),
             coqlist([coq_rec(r) for r in o["records"]])))

# ------------------------------------------------------------------ generators
def gen_random(ctx, N):
    rng = ctx.rng
    out = []
    for _ in range(N):
        n = rng.choice([1, 2, 2, 3, 4]); m = rng.choice([0, 0, 1, 2, 3])
        prob, kind = sl.gen_problem(rng, rng.choice(["nonconvex", "nonconvex", "qp"]), n=n, m=m)
        r = rng.random()
        if r < 0.12: prob.l1 = [rng.choice([0.0, 0.25, 1.0])]
        elif r < 0.2: prob.l1 = [rng.choice([0.0, 0.5, 2.0]) for _ in range(n)]
        P = {"max_iter": rng.choice([0, 1, 2, 2, 3, 5, 8, 15, 25]), "crit": rng.choice(sl.CRITS)}
        if rng.random() < 0.6: P["L_0"] = rng.choice([1e-3, 0.125, 1.0, 16.0, 1e4])
        if rng.random() < 0.25: P["L_max"] = rng.choice([4.0, 64.0, 1e3])
        if rng.random() < 0.1: P["L_min"] = rng.choice([1.0, 1e-2])
        if rng.random() < 0.2: P["Lgamma"] = rng.choice([0.5, 0.99, 0.25])
        if rng.random() < 0.2: P["beta"] = rng.choice([0.5, 0.99, 0.1])
        if rng.random() < 0.2: P["tau_min"] = rng.choice([0.25, 0.0078125, 0.5, 0.3])
        if rng.random() < 0.2: P["tau_factor"] = rng.choice([0.25, 0.75, 0.5])
        if rng.random() < 0.2: P["upd"] = True
        if rng.random() < 0.15: P["recompute"] = True
        if rng.random() < 0.2: P["eager"] = True
        if rng.random() < 0.08: P["force"] = True
        if rng.random() < 0.2: P["max_no_progress"] = rng.choice([0, 1, 2, 3])
        if rng.random() < 0.1: P["qub_tol"] = rng.choice([0.0, 1e-3])
        if rng.random() < 0.1: P["ls_tol"] = rng.choice([0.0, 1e-3])
        script = [rng.choice([0, 1, 1, 2, 2, 3, 3, 4, 5, 6, 6, 7, 7, 8, 9]) for _ in range(rng.randint(1, 6))]
        x0 = rng.vec(n, 2.0)
        y0 = rng.vec(m, 1.0); S0 = [rng.choice([0.5, 1.0, 4.0, 10.0]) for _ in range(m)]
        kw = {}
        r = rng.random()
        if r < 0.15: kw["stop_eval"] = rng.randint(0, 60)
        elif r < 0.23: kw["stop_cb"] = rng.randint(0, 6)
        elif r < 0.33: kw["stop_dir"] = rng.randint(0, 12)
        elif r < 0.37: kw["time0"] = True
        out.append(Case(prob, x0, y0, S0, P, rng.random() < 0.6, rng.choice([1e-1, 1e-3, 1e-6, 1e-10, 0.0]), script, rng.random() < 0.3, **kw))
    return out

def gen_noprogress(ctx, N):
    """huge |x| and tiny gradient: x + p == x in floating point although p != 0 -> the no-progress counter and its sampling rule"""
    rng = ctx.rng
    out = []
    for _ in range(N):
        n = rng.choice([1, 2])
        prob = sl.Problem(n, 0, [[0.0] * n for _ in range(n)], [2.0 ** -30] * n, [0.0] * n, [], [], [-INF] * n, [INF] * n, [], [])
        P = {"max_iter": rng.choice([6, 12, 25]), "crit": rng.choice(["ProjGradNorm", "FPRNorm", "ApproxKKT"]), "L_0": 1.0,
             "max_no_progress": rng.choice([0, 1, 2, 3, 4])}
        script = [rng.choice([0, 1, 8, 8, 2]) for _ in range(rng.randint(1, 4))]
        out.append(Case(prob, [2.0 ** 60] * n, [], [], P, True, 1e-12, script, False, tag="noprogress"))
    return out

def gen_dyadic(ctx):
    """exact ties on exactly representable data: eps == tol, QUB with equality, L == L_max, tau == tau_min, k == max_iter"""
    rng = ctx.rng
    out = []
    for x0 in (1.0, -2.0, 0.5, 3.0):
        for script in ([1], [2], [0], [7], [8, 1], [3, 1]):
            for Lg in (0.5, 0.25):
                for L0, Lmax in ((1.0, 1e20), (1.0, 1.0), (0.5, 1.0), (0.25, 2.0), (2.0, 1e20)):
                    prob = sl.Problem(1, 0, [[1.0]], [0.0], [0.0], [], [], [-INF], [INF], [], [])
                    # psi = x^2/2: L = 1 makes the quadratic upper bound an equality; eps_0 = |p| = gamma |x0| exactly
                    gamma = Lg / L0
                    tol = rng.choice([abs(gamma * x0), abs(gamma * x0) / 2, 0.0])
                    P = {"max_iter": rng.choice([1, 2, 4]), "crit": "ProjGradNorm", "L_0": L0, "L_max": Lmax, "Lgamma": Lg, "qub_tol": 0.0, "ls_tol": 0.0,
                         "tau_min": rng.choice([0.5, 0.25, 1.0 / 256]), "tau_factor": 0.5, "beta": rng.choice([0.5, 0.95])}
                    out.append(Case(prob, [x0], [], [], P, True, tol, script, rng.random() < 0.5, tag="dyadic"))
    return out

# ------------------------------------------------------------------ oracle on the implementation's records
def oracle(cs, o):
    bad = []
    if "exc" in o:
        return [("PANOC:exception", "driver exception %s" % o["exc"])]
    V, D = sl.V, sl.D
    recs = o["records"]
    st = o["status"]
    P = cs.P_
    if o["iterations"] > P("max_iter"):
        bad.append(("PANOC:iterations-exceed-max-iter", "iterations=%d > max_iter=%d" % (o["iterations"], P("max_iter"))))
    if st == "MaxIter" and o["iterations"] != P("max_iter"):
        bad.append(("PANOC:maxiter-status-before-limit", "MaxIter with iterations=%d != %d" % (o["iterations"], P("max_iter"))))
    if st == "Interrupted" and cs.stop_eval < 0 and cs.stop_cb < 0 and cs.stop_dir < 0:
        bad.append(("PANOC:interrupted-without-request", "Interrupted although stop() was never called"))
    for r in recs:
        x, p, xh = V(r, "x"), V(r, "p"), V(r, "xh")
        if all(math.isfinite(t) for t in x + p + xh):
            for a, b, c in zip(x, p, xh):
                if not sl.close(a + b, c, 1e-12, 1e-300):
                    bad.append(("PANOC:xhat-not-x-plus-p", "k=%d: x + p = %r but x_hat = %r" % (r["k"], a + b, c)))
                    break
        g, L = D(r, "gamma"), D(r, "L")
        if math.isfinite(g) and math.isfinite(L) and L != 0 and not sl.close(g * L, P("Lgamma"), 1e-12, 0):
            bad.append(("PANOC:gammaL-ratio", "k=%d: gamma*L=%r != %r" % (r["k"], g * L, P("Lgamma"))))
    for a, b in zip(recs, recs[1:]):
        if D(b, "gamma") > D(a, "gamma"):
            bad.append(("PANOC:gamma-increased", "k=%d: gamma %r -> %r" % (a["k"], D(a, "gamma"), D(b, "gamma"))))
    if recs and recs[-1]["status"] != "Busy":
        fin = recs[-1]
        ow = st in ("Converged", "Interrupted") or cs.always
        if ow and not P("eager"):
            if [t.hex() for t in V(o, "x_out")] != [t.hex() for t in V(fin, "xh")] and not any(math.isnan(t) for t in V(o, "x_out")):
                bad.append(("PANOC:x-out-not-final-xhat", "x_out %r != final x_hat %r" % (V(o, "x_out"), V(fin, "xh"))))
        if not ow and [t.hex() for t in V(o, "x_out")] != [float(t).hex() for t in cs.x0]:
            bad.append(("PANOC:x-overwritten", "x written although status=%s and always_overwrite_results=false" % st))
    return bad

def near_tie(cs, o):
    """decisions visible in the records that are within 1e-9 (relative) of a tie"""
    V, D = sl.V, sl.D
    P = cs.P_
    tol = cs.tol if cs.tol > 0 else 1e-8
    for r in o.get("records", []):
        e = D(r, "eps")
        if math.isfinite(e) and abs(e - tol) <= 1e-9 * max(abs(e), tol):
            return "eps~tol"
        psi, psih, L, pp = D(r, "psi"), D(r, "psih"), D(r, "L"), D(r, "nsqp")
        gp = sum(a * b for a, b in zip(V(r, "grad"), V(r, "p")))
        rhs = psi + gp + 0.5 * L * pp + (1 + abs(psi)) * P("qub_tol")
        if all(math.isfinite(t) for t in (psih, rhs)) and abs(psih - rhs) <= 1e-9 * (abs(psi) + abs(gp) + L * pp + abs(psih) + 1e-300):
            return "qub"
    recs = o.get("records", [])
    for a, b in zip(recs, recs[1:]):
        g, L, phi, pp, phi2 = D(a, "gamma"), D(a, "L"), D(a, "phi"), D(a, "nsqp"), D(b, "phi")
        if not all(math.isfinite(t) for t in (g, L, phi, pp, phi2)) or g == 0: continue
        bound = phi - P("beta") * (1 - g * L) / (2 * g) * pp + (1 + abs(phi)) * P("ls_tol")
        if abs(phi2 - bound) <= 1e-9 * (abs(phi) + abs(phi2) + 1e-300):
            return "ls"
    return None

def is_dyadic(cs):
    # exact data (powers of two / small dyadics): never discarded as a near tie
    return cs.tag in ("dyadic", "noprogress")

# ------------------------------------------------------------------ run
def run(ctx):
    ctx.coverage["rule"] = ("whole runs of PANOCSolver<ScriptedDirection> (scripts over fail / p / 3p / ascent / 1e8 p / NaN / LCG-random / -gamma grad / zero / 1e200 p) on the "
                            "drv_solve problem family (n<=4, m<=3, boxes C and D, optional l1), max_iter<=25, all 10 stopping criteria, varied Lipschitz / line-search / "
                            "flag parameters (eager, recompute, update-in-candidate, force), stop() injected at evaluation / callback / direction-call indices, max_time=0, "
                            "budgets 0/1/2, no-progress plateaus, exact dyadic ties; one evaluation = one whole run compared record by record with Panoc.panoc at binary64; "
                            "distinct = (status, #records, branch classes of the run)")
    ctx.assumptions += ["theorems over ideal reals (binary64 rounding is covered by the whole-run correspondence only)",
                        "problem functions, direction provider, stop flag and clock are arbitrary oracles in the theorems",
                        "oracle coherence (eval_ψ_grad_ψ(x) = (eval_ψ(x), eval_grad_L(x, ŷ(x)))) is a stated hypothesis of the ψ(x)/∇ψ(x) clause of the invariant only",
                        "time_elapsed > max_time is modelled as an input flag; exceptions thrown by user functions are not modelled"]
    check_properties(ctx, "PANOC")
    run_corr(ctx, "PANOC", 1.0)

def attach(ctx, scale=0.35, extra_oracle=None):
    """used by C01 / C03 / C05 / C06: re-check Properties_PANOC.v (whole-loop invariants of PANOC for all oracles) and run the
    whole-run correspondence of Panoc.v against the real PANOCSolver; violations get the calling property's prefix"""
    check_properties(ctx, "PANOC")
    ctx.assumptions.append("PANOC whole-loop model (Panoc.v, theorems in Properties_PANOC.v) attached: whole runs of PANOCSolver<ScriptedDirection> must coincide with the verified model at binary64")
    run_corr(ctx, ctx.pid, scale, extra_oracle)

def run_corr(ctx, prefix, scale, extra_oracle=None):
    if not build_driver(ctx, "solve"): return
    cases = gen_dyadic(ctx) + gen_noprogress(ctx, max(4, int(scale * ctx.n(12, 60)))) + gen_random(ctx, max(40, int(scale * ctx.n(260, 3000))))
    outs = run_driver(ctx, "solve", [c.rq.to_input() for c in cases], timeout=1500)
    if outs is None or len(outs) != len(cases):
        ctx.broke("correspondence", "drv_solve", "driver produced %s results for %d runs rc=%s %s" % (None if outs is None else len(outs), len(cases), getattr(ctx, "driver_rc", "?"), getattr(ctx, "driver_err", "")))
        return
    terms, owners = [], []
    for cs, o in zip(cases, outs):
        ctx.count(cs.tag)
        if extra_oracle is not None and "exc" not in o:
            # the calling property's own predicate on this whole run (the failing-input search over these runs)
            for sig, msg in extra_oracle(cs, o):
                ctx.violation(sig, msg, {"driver": "drv_solve", "input": cs.rq.to_input(), "request": cs.rq.describe(),
                                         "impl_output": {k: v for k, v in o.items() if k != "records"},
                                         "final_record": o["records"][-1] if o["records"] else None, "why": msg})
        for sig, msg in oracle(cs, o):
            ctx.violation(sig.replace("PANOC:", prefix + ":panoc-model:") if prefix != "PANOC" else sig, msg, {"driver": "drv_solve", "input": cs.rq.to_input(), "request": cs.rq.describe(), "impl_output": {k: v for k, v in o.items() if k != "records"}, "why": msg})
        if "exc" in o:
            ctx.count("exception"); continue
        recs = o["records"]
        cls = set()
        for i, r in enumerate(recs[:-1]):
            tau = sl.D(r, "tau")
            cls.add("t1" if tau == 1 else "tp" if tau > 0 else "t0")
            if sl.D(recs[i + 1], "gamma") < sl.D(r, "gamma"): cls.add("h")
            if sl.D(r, "L") >= cs.P_("L_max"): cls.add("M")
        flags = "".join(k[0] for k in ("eager", "recompute", "upd", "force") if cs.P_(k))
        stopk = "E" if cs.stop_eval >= 0 else "C" if cs.stop_cb >= 0 else "D" if cs.stop_dir >= 0 else "T" if cs.time0 else "-"
        ctx.case("%s/%d/%s/%s/%s/%s" % (o["status"], min(len(recs), 6), "".join(sorted(cls)), flags, stopk, cs.P_("crit")),
                 sample=({"request": cs.rq.describe(), "status": o["status"], "iterations": o["iterations"], "records": len(recs)} if len(recs) > 3 else None))
        ctx.count("status/" + o["status"])
        terms.append(coq_case(cs, o)); owners.append((cs, o))
    failing = coq_failing_cases(ctx, "panocrun", "Prox SolverStatus SolverKernels AugLag Panoc Corr_PANOC", "pcase", "chkpanoc", terms, shard=ctx.n(12, 60), dump="modelpanoc")
    ctx.coverage["panoc_whole_run_cases"] = len(terms)
    if failing is None:
        return
    real, ties = [], 0
    for i in failing:
        cs, o = owners[i]
        t = None if is_dyadic(cs) else near_tie(cs, o)
        if t:
            ties += 1; ctx.count("discarded-near-tie/" + t)
        else:
            real.append(i)
    ctx.coverage["panoc_whole_run_disagreements"] = len(real)
    ctx.coverage["discarded_near_ties"] = ties
    if real:
        cs, o = owners[real[0]]
        # the model is PROVED to satisfy the invariants; an input on which the implementation leaves the model's trajectory is a concrete failing input
        (ctx.violation if prefix == "PANOC" else (lambda *a, **k: None))(("%s:panoc-" % prefix if prefix != "PANOC" else "PANOC:") + "run-differs-from-verified-model", "whole run of PANOCSolver differs from the verified model Panoc.panoc (first of %d disagreeing runs; status=%s iterations=%s)" % (len(real), o.get("status"), o.get("iterations")),
                      {"driver": "drv_solve", "input": cs.rq.to_input(), "request": cs.rq.describe(), "impl_output": {k: v for k, v in o.items() if k != "records"},
                       "model_dump": getattr(ctx, "last_dump", "")[-3000:], "why": "model (Coq, binary64) and implementation disagree on this run"})
        ctx.broke("correspondence", "Panoc.v (whole run) vs PANOCSolver<ScriptedDirection> in drv_solve",
                  json.dumps({"n_disagreements": len(real), "first_disagreeing_request": cs.rq.describe(), "driver_input": cs.rq.to_input(),
                              "impl": {k: v for k, v in o.items() if k != "records"}, "impl_records": len(o["records"]),
                              "model_dump": getattr(ctx, "last_dump", "")[-1500:]}))
