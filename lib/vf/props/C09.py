"""C09 — L-BFGS two-loop recursion equals the dense BFGS inverse Hessian of its history.
proof: Properties_C09.v (Lbfgs.v at the real instance: ring refinement for all op sequences, two-loop = H,
       H symmetric / secant / positive definite, update_valid = documented test, masked apply formula,
       apply_masked leaves the stored history and its ρ alone, so apply = H after ANY interleaving);
correspondence: Lbfgs.v at binary64 (Corr_C09.chk09) vs drv_C09 (the real alpaqa::LBFGS, public API only),
       every observable after every operation of a sequence;
oracle: independent of the Coq model — abstract bounded history kept from the inputs and the documented acceptance
       test; exact-rational DENSE BFGS matrix (H⁺ = VᵀHV + ρssᵀ) of the stored pairs times q compared with what
       apply / apply_masked returned (also after apply_masked calls: the clause that found the former defect F7,
       repaired by /repo 9c14560e5); the stored s, y, ρ must be bit-for-bit the same before and after apply_masked;
       symmetry, secant equation, positive definiteness on the implementation's own dense matrix (n applies on
       unit vectors)."""
import math, itertools
from fractions import Fraction as Fr
from vf.core import *
from vf import gentie        # translator G11a: translate/gen_lbfgs.py -> coq/gen/LbfgsGen.v (LbfgsGenEq.v: generated = Lbfgs.v)

EPS = 2.0 ** -52
# signatures of the two ways a write of apply_masked into the stored history shows up (the defect fixed by 9c14560e5;
# listed as kind=fixed in known_findings.json, i.e. nothing is suppressed: a reappearance is a VIOLATION)
MASKED_WRITES_SIG = "C09:apply_masked-modifies-stored-history"
OVERWRITTEN_RHO_SIG = "C09:apply-after-masked-uses-overwritten-rho"

# --------------------------------------------------------------------------- small helpers

def fdot(a, b):
    """Eigen dot without vectorisation: sequential left fold starting from the first product"""
    if not a:
        return 0.0
    r = a[0] * b[0]
    for x, y in zip(a[1:], b[1:]):
        r = r + x * y
    return r

def xdot(a, b):
    return sum((Fr(x) * Fr(y) for x, y in zip(a, b)), Fr(0))

def finite(v):
    return all(math.isfinite(x) for x in v)

def close(a, b, rel=1e-9, ab=0.0):
    if math.isnan(a) or math.isnan(b):
        return math.isnan(a) and math.isnan(b)
    if a == b:
        return True
    if math.isinf(a) or math.isinf(b):
        return False
    return abs(a - b) <= rel * max(abs(a), abs(b)) + ab

class P:
    def __init__(s, mem, mdf, mas, ca, ce, fpd, curv):
        s.mem, s.mdf, s.mas, s.ca, s.ce, s.fpd, s.curv = mem, mdf, mas, ca, ce, fpd, curv
    def cbfgs(s):
        return s.ce > 0
    def tok(s, n):
        return "new %d %s %s %s %s %d %d %d" % (s.mem, hexf(s.mdf), hexf(s.mas), hexf(s.ca), hexf(s.ce), s.fpd, s.curv, n)
    def coq(s):
        return "(@Build_params float %s %s %s %s %s %s %s)" % (coqnat(s.mem), coqf(s.mdf), coqf(s.mas), coqf(s.ca), coqf(s.ce),
                                                               coqbool(s.fpd), coqbool(s.curv))
    def js(s):
        return dict(memory=s.mem, min_div_fac=hexf(s.mdf), min_abs_s=hexf(s.mas), cbfgs_alpha=s.ca, cbfgs_eps=s.ce,
                    force_pos_def=bool(s.fpd), curvature=bool(s.curv))

def documented_valid(p, yts, sts, ptp):
    """the documented acceptance test (lbfgs.hpp, LBFGSParams) in exact rational arithmetic:
         reject if sᵀs <= min_abs_s; reject if yᵀs not finite; a = yᵀs (force_pos_def) or |yᵀs|;
         reject if a <= min_div_fac·sᵀs; CBFGS (ϵ > 0): reject unless a >= sᵀs·ϵ·(pᵀp)^(α/2).
       yts: Fraction or a non-finite float; sts, ptp: Fractions.
       Returns (decision, relative distance to the nearest threshold, thresholds-exactly-representable)."""
    if isinstance(yts, float):
        return False, 1.0, True
    margins = []
    exact = True
    def m(a, b):
        sc = max(abs(a), abs(b), Fr(1, 10 ** 300))
        margins.append(float(abs(a - b) / sc))
    m(sts, Fr(p.mas))
    if sts <= Fr(p.mas):
        return False, min(margins), exact
    a = yts if p.fpd else abs(yts)
    thr = Fr(p.mdf) * sts
    try:
        exact = exact and Fr(p.mdf * float(sts)) == thr
    except OverflowError:
        exact = False
    m(a, thr)
    if a <= thr:
        return False, min(margins), exact
    if p.cbfgs():
        e = p.ca / 2
        try:
            pwv = math.pow(float(ptp), e)
        except (OverflowError, ValueError):
            pwv = float("nan")
        if not math.isfinite(pwv):
            return False, 1.0, exact
        if e == 1: pwx = ptp
        elif e == 2: pwx = ptp * ptp
        elif e == 0: pwx = Fr(1)
        else: pwx = Fr(pwv)
        thr2 = sts * Fr(p.ce) * pwx
        exact = exact and Fr(pwv) == pwx and (e != 0.5 or Fr(pwv) ** 2 == ptp) and Fr(float(sts) * p.ce * pwv) == thr2
        m(a, thr2)
        if not (a >= thr2):
            return False, min(margins), exact
    return True, min(margins), exact

# --------------------------------------------------------------------------- dense BFGS (exact rationals)

def dense_H(pairs, γ, n):
    """pairs oldest first [(s, y)] (Fractions); returns n×n matrix (rows) or None if some yᵀs = 0"""
    Hm = [[(γ if i == j else Fr(0)) for j in range(n)] for i in range(n)]
    for s, y in pairs:
        ys = sum((a * b for a, b in zip(y, s)), Fr(0))
        if ys == 0:
            return None
        ρ = 1 / ys
        V = [[(Fr(1) if i == j else Fr(0)) - ρ * y[i] * s[j] for j in range(n)] for i in range(n)]   # V = I - ρ y sᵀ
        HV = [[sum((Hm[i][k] * V[k][j] for k in range(n)), Fr(0)) for j in range(n)] for i in range(n)]
        Hm = [[sum((V[k][i] * HV[k][j] for k in range(n)), Fr(0)) + ρ * s[i] * s[j] for j in range(n)] for i in range(n)]
    return Hm

def matvec(M, v):
    return [sum((a * b for a, b in zip(row, v)), Fr(0)) for row in M]

def magnitude_bound(pairs, rhos, γ, q):
    """upper bound on every intermediate of the two-loop recursion (absolute values), floats"""
    qa = [abs(x) for x in q]
    al = []
    for (s, y), r in zip(reversed(pairs), reversed(rhos)):
        a = abs(r) * sum(abs(u) * v for u, v in zip(s, qa))
        al.append(a)
        qa = [v + a * abs(u) for u, v in zip(y, qa)]
    qa = [abs(γ) * v for v in qa]
    for (s, y), r, a in zip(pairs, rhos, reversed(al)):
        b = abs(r) * sum(abs(u) * v for u, v in zip(y, qa))
        qa = [v + (a + b) * abs(u) for u, v in zip(s, qa)]
    return max(qa + [1e-300])

def two_loop_with_stored_rho(pairs, rhos, γ, q):
    """the two-loop recursion evaluated with the ρ values the implementation has in storage (only used to attribute a
    wrong apply() result to ρ values overwritten by an earlier apply_masked, which selects the violation signature)"""
    q = list(q); al = []
    for (s, y), r in zip(reversed(pairs), reversed(rhos)):
        a = r * fdot(s, q); al.append(a)
        q = [v - a * u for u, v in zip(y, q)]
    q = [v * γ for v in q]
    for (s, y), r, a in zip(pairs, rhos, reversed(al)):
        b = r * fdot(y, q)
        q = [v - (b - a) * u for u, v in zip(s, q)]
    return q

# --------------------------------------------------------------------------- generators

BMAT = [[4.0, 1.0, 0.0, 0.5], [1.0, 3.0, 0.5, 0.0], [0.0, 0.5, 2.0, 0.25], [0.5, 0.0, 0.25, 5.0]]   # SPD, dyadic

def good_pair(rng, n):
    while True:
        s = [rng.dyadic(-2, 2, 2) for _ in range(n)]
        if any(s):
            break
    y = [sum(BMAT[i][j] * s[j] for j in range(n)) for i in range(n)]
    if rng.random() < 0.4:
        y = [v + rng.dyadic(-1, 1, 3) * 0.125 for v in y]
    return s, y

def gen_pair(rng, n, p):
    c = rng.random()
    if c < 0.16:    # step along one coordinate: invalid on every index set J that misses it (apply_masked must skip it)
        k = rng.randrange(n); s = [0.0] * n; s[k] = rng.choice([1.0, -0.5, 2.0, 0.75])
        return s, [sum(BMAT[i][j] * s[j] for j in range(n)) for i in range(n)]
    if c < 0.68:
        return good_pair(rng, n)
    if c < 0.78:    # negative / zero curvature
        s, y = good_pair(rng, n)
        return s, [-v for v in y] if rng.random() < 0.7 else [0.0] * n
    if c < 0.84:    # tiny or zero step
        return [0.0] * n if rng.random() < 0.5 else [2.0 ** -60] + [0.0] * (n - 1), [rng.dyadic() for _ in range(n)]
    if c < 0.94:    # exact tie on yᵀs = min_div_fac·sᵀs (dyadic min_div_fac) or sᵀs = min_abs_s
        s = [0.0] * n; y = [0.0] * n
        s[0] = rng.choice([1.0, 2.0, 0.5, -1.0])
        y[0] = p.mdf * s[0] + rng.choice([0.0, 0.0, s[0] * 2.0 ** -40, -s[0] * 2.0 ** -40])
        if n > 1 and rng.random() < 0.5:
            s[1] = 1.0; y[1] = p.mdf
        return s, y
    if c < 0.96:    # non-finite data: yᵀs = inf / nan must be rejected
        s, y = good_pair(rng, n)
        y[0] = rng.choice([float("inf"), float("nan"), float("-inf")])
        return s, y
    return [rng.gauss(0, 1) for _ in range(n)], [rng.gauss(0, 1) for _ in range(n)]

def gen_params(rng, mem=None):
    mem = mem if mem is not None else rng.choice([1, 1, 2, 2, 3, 3, 5])
    mdf = rng.choice([EPS, EPS, 0.0, 0.25, 0.5, 1.0])
    mas = rng.choice([EPS * EPS, EPS * EPS, 0.0, 0.5, 1.0])
    if rng.random() < 0.2:
        ca, ce = rng.choice([0.0, 1.0, 2.0, 4.0]), rng.choice([0.5, 1.0, 0.125, 2.0])
    else:
        ca, ce = 1.0, 0.0
    return P(mem, mdf, mas, ca, ce, int(rng.random() < 0.7), int(rng.random() < 0.6))

def gen_J(rng, n):
    c = rng.random()
    if c < 0.15:
        return list(range(n))
    if c < 0.2:
        return []
    J = [j for j in range(n) if rng.random() < 0.6]
    return J

def gen_q(rng, n):
    return [rng.dyadic(-4, 4, 2) if rng.random() < 0.8 else rng.gauss(0, 1) for _ in range(n)]

def gen_γ(rng):
    return rng.choice([-1.0, -1.0, 1.0, 0.5, 0.75, 2.0, rng.posreal(-3, 2)])

def gen_seq(rng, maxlen):
    p = gen_params(rng)
    n = n_ctor = rng.choice([1, 2, 2, 3, 3, 4])
    ops = []
    L = rng.randint(1, maxlen)
    while len(ops) < L:
        c = rng.random()
        if c < 0.40:
            s, y = gen_pair(rng, n, p)
            pp = rng.choice([0.0, 1.0, 4.0, 0.25, 2.0]) if p.cbfgs() else 0.0
            ops.append(dict(op="updsy", s=s, y=y, pp=pp, forced=int(rng.random() < 0.12)))
        elif c < 0.48:
            s, y = gen_pair(rng, n, p)
            xk = [rng.dyadic(-2, 2, 2) for _ in range(n)]; pk = [rng.dyadic(-2, 2, 2) for _ in range(n)]
            sg = int(rng.random() < 0.5)
            xn = [a + b for a, b in zip(xk, s)]
            pn = [a + b for a, b in zip(pk, y)] if sg else [a - b for a, b in zip(pk, y)]
            ops.append(dict(op="upd", xk=xk, xn=xn, pk=pk, pn=pn, sign=sg, forced=int(rng.random() < 0.1)))
        elif c < 0.66:
            ops.append(dict(op="apply", q=gen_q(rng, n), γ=gen_γ(rng)))
        elif c < 0.80:
            ops.append(dict(op=rng.choice(["applym", "applym", "applymv"]), q=gen_q(rng, n), γ=gen_γ(rng), J=gen_J(rng, n)))
        elif c < 0.86:    # dense block: n applies on the unit vectors with one γ
            γ = gen_γ(rng)
            for j in range(n):
                ops.append(dict(op="apply", q=[1.0 if i == j else 0.0 for i in range(n)], γ=γ, dense=(j, n)))
        elif c < 0.89:
            ops.append(dict(op="reset"))
        elif c < 0.91:
            n = rng.choice([1, 2, 3, 4])
            ops.append(dict(op="resize", n=n))
        else:
            ops.append(dict(op="scale", f=rng.choice([2.0, 0.5, 0.25, 3.0, 1.5, -1.0, 1.0])))
    return dict(kind="random", p=p, n=n_ctor, ops=ops)

# exhaustive short sequences over a small alphabet (n = 2)
ALPHA = {
    "A": dict(op="updsy", s=[1.0, 0.0], y=[2.0, 1.0], pp=0.0, forced=0),
    "B": dict(op="updsy", s=[0.5, 1.0], y=[1.0, 3.0], pp=0.0, forced=0),
    "C": dict(op="updsy", s=[1.0, 1.0], y=[-1.0, 0.5], pp=0.0, forced=0),      # rejected (yᵀs < 0)
    "F": dict(op="updsy", s=[1.0, -1.0], y=[3.0, 1.0], pp=0.0, forced=1),      # forced, yᵀs = 2 > 0 (valid anyway)
    "G": dict(op="updsy", s=[1.0, 1.0], y=[-1.0, 0.5], pp=0.0, forced=1),      # forced, negative curvature
    "P": dict(op="apply", q=[1.0, -2.0], γ=-1.0),
    "Q": dict(op="apply", q=[0.5, 1.0], γ=0.5),
    "M": dict(op="applym", q=[1.0, 1.0], γ=-1.0, J=[0]),
    "N": dict(op="applymv", q=[1.0, 1.0], γ=1.0, J=[1]),
    "R": dict(op="reset"),
    "K": dict(op="scale", f=2.0),
}

def exhaustive(letters, lengths, mems, curv_opts=(1,), tail=()):
    out = []
    for mem in mems:
        for curv in curv_opts:
            p = P(mem, EPS, EPS * EPS, 1.0, 0.0, 1, curv)
            for L in lengths:
                for w in itertools.product(letters, repeat=L):
                    ops = [dict(ALPHA[c]) for c in w] + [dict(ALPHA[c]) for c in tail]
                    out.append(dict(kind="exh", p=p, n=2, ops=ops, word="".join(w) + "".join(tail)))
    return out

def valid_cases(rng, N):
    """direct update_valid calls, aimed at the thresholds (exact dyadic ties)"""
    seqs = []
    for _ in range(max(1, N // 12)):
        p = gen_params(rng)
        if rng.random() < 0.5:
            p.ca, p.ce = rng.choice([0.0, 1.0, 2.0, 4.0]), rng.choice([0.5, 1.0, 0.125])
        ops = []
        for _ in range(12):
            sts = rng.choice([p.mas, 1.0, 4.0, 0.25, 2.0, p.mas * 2 if p.mas else 2.0 ** -200, 0.0])
            ptp = rng.choice([0.0, 1.0, 4.0, 0.25, 16.0, 2.0])
            c = rng.random()
            if c < 0.3:
                yts = p.mdf * sts
            elif c < 0.5 and p.cbfgs():
                try:
                    yts = sts * p.ce * math.pow(ptp, p.ca / 2)
                except (ValueError, OverflowError):
                    yts = 1.0
            elif c < 0.6:
                yts = rng.choice([float("nan"), float("inf"), float("-inf")])
            else:
                yts = rng.dyadic(-4, 4, 3)
            if rng.random() < 0.3 and math.isfinite(yts):
                yts = yts * rng.choice([1 + EPS, 1 - EPS / 2, -1.0])
            ops.append(dict(op="valid", yts=yts, sts=sts, ptp=ptp))
        seqs.append(dict(kind="valid", p=p, n=1, ops=ops))
    return seqs

def gen_cases(ctx):
    rng = ctx.rng
    seqs = []
    # corpus: the minimal replay of the former F7 (apply after apply_masked), NaN-mark life cycle, boundary cases; always run first
    p0 = P(2, EPS, EPS * EPS, 1.0, 0.0, 1, 1)
    seqs.append(dict(kind="corpus", p=p0, n=2, word="F7-minimal", ops=[
        dict(op="updsy", s=[1.0, 1.0], y=[2.0, 1.0], pp=0.0, forced=0),
        dict(op="apply", q=[1.0, 0.0], γ=-1.0),
        dict(op="applym", q=[1.0, 0.0], γ=-1.0, J=[0]),
        dict(op="apply", q=[1.0, 0.0], γ=-1.0)]))
    # pair A is invalid on J={1} (marked through α), valid on J={0} (mark must be cleared), marked again; apply in between and after
    seqs.append(dict(kind="corpus", p=P(2, EPS, EPS * EPS, 1.0, 0.0, 1, 0), n=2, word="nan-mark-life-cycle", ops=[
        dict(op="updsy", s=[1.0, 0.0], y=[2.0, 1.0], pp=0.0, forced=0),
        dict(op="updsy", s=[0.5, 1.0], y=[1.0, 3.0], pp=0.0, forced=0),
        dict(op="applym", q=[1.0, 1.0], γ=1.0, J=[1]),
        dict(op="apply", q=[1.0, -2.0], γ=0.5),
        dict(op="applymv", q=[1.0, 1.0], γ=0.5, J=[0]),
        dict(op="applym", q=[-1.0, 2.0], γ=-1.0, J=[1]),
        dict(op="applym", q=[-1.0, 2.0], γ=2.0, J=[0, 1]),
        dict(op="apply", q=[1.0, 0.0], γ=-1.0)]))
    # n = 3 with two-element index sets: the smallest size where the ρ of the second masked loop matters (with one index the
    # first loop already zeroes q on J, so β = 0 whatever ρ is)
    seqs.append(dict(kind="corpus", p=P(2, EPS, EPS * EPS, 1.0, 0.0, 1, 0), n=3, word="masked-second-loop-rho", ops=[
        dict(op="updsy", s=[1.0, 0.5, 0.0], y=[4.5, 2.5, 0.25], pp=0.0, forced=0),
        dict(op="updsy", s=[0.0, 1.0, 1.0], y=[1.0, 3.5, 2.5], pp=0.0, forced=0),
        dict(op="applym", q=[1.0, 2.0, -1.0], γ=0.75, J=[0, 1]),
        dict(op="applymv", q=[1.0, 2.0, -1.0], γ=-1.0, J=[1, 2]),
        dict(op="apply", q=[1.0, 2.0, -1.0], γ=-1.0)]))
    seqs.append(dict(kind="corpus", p=P(0, EPS, EPS * EPS, 1.0, 0.0, 1, 1), n=2, word="memory0", ops=[]))
    seqs.append(dict(kind="corpus", p=P(1, EPS, EPS * EPS, 1.0, 1.0, 1, 1), n=2, word="cbfgs-masked-throws", ops=[
        dict(op="applym", q=[1.0, 0.0], γ=1.0, J=[0]),
        dict(op="updsy", s=[1.0, 1.0], y=[2.0, 1.0], pp=1.0, forced=0),
        dict(op="applym", q=[1.0, 0.0], γ=1.0, J=[0])]))
    for _ in range(ctx.n(400, 5000)):
        seqs.append(gen_seq(rng, ctx.n(12, 16)))
    seqs += valid_cases(rng, ctx.n(240, 6000))
    if ctx.quick():
        seqs += exhaustive("ABCGPMNRK", [1, 2, 3], [1, 2])
        seqs += exhaustive("ABC", [4, 5], [1, 2, 3], tail="PQ")
    else:
        seqs += exhaustive("ABCGPMRK", [1, 2, 3, 4], [1, 2, 3], curv_opts=(1, 0))
        seqs += exhaustive("ABCFGPQMNRK", [1, 2, 3], [1, 2, 3])
        seqs += exhaustive("ABC", [5, 6, 7], [1, 2, 3, 5], tail="PQM")
    return seqs

# --------------------------------------------------------------------------- driver / Coq text

def op_tok(o):
    k = o["op"]
    if k == "updsy":
        return "updsy %s %s %s %d" % (vec_in(o["s"]), vec_in(o["y"]), hexf(o["pp"]), o["forced"])
    if k == "upd":
        return "upd %s %s %s %s %d %d" % (vec_in(o["xk"]), vec_in(o["xn"]), vec_in(o["pk"]), vec_in(o["pn"]), o["sign"], o["forced"])
    if k == "apply":
        return "apply %s %s" % (vec_in(o["q"]), hexf(o["γ"]))
    if k in ("applym", "applymv"):
        return "%s %s %s %d %s" % (k, vec_in(o["q"]), hexf(o["γ"]), len(o["J"]), " ".join(str(j) for j in o["J"]))
    if k == "reset":
        return "reset"
    if k == "resize":
        return "resize %d" % o["n"]
    if k == "scale":
        return "scale %s" % hexf(o["f"])
    if k == "valid":
        return "valid %s %s %s" % (hexf(o["yts"]), hexf(o["sts"]), hexf(o["ptp"]))
    raise ValueError(k)

def op_coq(o):
    k = o["op"]
    if k == "updsy":
        return "(@OUpdSy float %s %s %s %s)" % (coqvec(o["s"]), coqvec(o["y"]), coqf(o["pp"]), coqbool(o["forced"]))
    if k == "upd":
        return "(@OUpd float %s %s %s %s %s %s)" % (coqvec(o["xk"]), coqvec(o["xn"]), coqvec(o["pk"]), coqvec(o["pn"]),
                                                    coqbool(o["sign"]), coqbool(o["forced"]))
    if k == "apply":
        return "(@OApply float %s %s)" % (coqvec(o["q"]), coqf(o["γ"]))
    if k in ("applym", "applymv"):
        return "(@OApplyM float %s %s %s)" % (coqvec(o["q"]), coqf(o["γ"]), coqlist([coqnat(j) for j in o["J"]]))
    if k == "reset":
        return "(@OReset float)"
    if k == "resize":
        return "(@OResize float %s)" % coqnat(o["n"])
    if k == "scale":
        return "(@OScale float %s)" % coqf(o["f"])
    raise ValueError(k)

def split(flat, n):
    return [flat[i * n:(i + 1) * n] for i in range(len(flat) // n)] if n else []

def obs_coq(r):
    n = r["n"]
    S = split(r["S"], n); Y = split(r["Y"], n)
    return "(Build_obs %s %s %s %s %s %s)" % (coqnat(r["ret"]), coqvec(r.get("q", [])), coqnat(r["ch"]),
                                             coqlist([coqvec(v) for v in S]), coqlist([coqvec(v) for v in Y]), coqvec(r["R"]))

def seq_terms(sq, outs):
    """Coq terms for one sequence: one CSeq, or one CValid per `valid` record"""
    p = sq["p"]
    if sq["kind"] == "valid":
        return ["(CValid %s %s %s %s %s)" % (p.coq(), coqf(o["yts"]), coqf(o["sts"]), coqf(o["ptp"]), coqbool(r["ret"] == 1))
                for o, r in zip(sq["ops"], outs[1:])]
    ok = outs[0]["ret"] == 2
    steps = ["(%s, %s)" % (op_coq(o), obs_coq(r)) for o, r in zip(sq["ops"], outs[1:])] if ok else []
    return ["(CSeq %s %s %s %s)" % (p.coq(), coqnat(sq["n"]), coqbool(ok), coqlist(steps))]

# --------------------------------------------------------------------------- oracle

class Bad(Exception):
    def __init__(self, sig, why, k):
        self.sig, self.why, self.k = sig, why, k

def oracle_seq(ctx, sq, outs, stats, soft):
    """walks one sequence; raises Bad(signature, why, op index) at the first property failure.
    A write of apply_masked into the stored history is appended to `soft` (once per sequence) and the walk goes on, so that
    its consequence — a later apply() that is not the dense BFGS operator — is found and reported with its own replay too.
    Independent of the Coq model: abstract bounded history + documented test + dense BFGS in exact rationals."""
    p = sq["p"]; n = sq["n"]
    r0 = outs[0]
    if p.mem < 1:
        if r0["ret"] != 3:
            raise Bad("C09:memory-lt-1-not-rejected", "memory=%d accepted" % p.mem, -1)
        return
    if r0["ret"] != 2 or r0["hist"] != p.mem or r0["ch"] != 0:
        raise Bad("C09:construction", "constructor: ret=%s history()=%s current_history()=%s" % (r0["ret"], r0.get("hist"), r0.get("ch")), -1)
    H = []               # abstract history, oldest first: [(s, y)]
    masked_seen = False  # an apply_masked ran on a non-empty history since the last reset (attribution only)
    rho_flagged = False  # a stored-ρ failure of this sequence is already in `soft`
    dense_cols = []
    for k, (o, r) in enumerate(zip(sq["ops"], outs[1:])):
        kind = o["op"]
        if "exc" in r and not (kind == "resize"):
            raise Bad("C09:unexpected-exception:" + kind, "exception: %s" % r["exc"], k)
        U = lambda key: [unhex(t) for t in r[key]]
        if kind == "valid":
            yts = o["yts"]
            dec, margin, exact = documented_valid(p, Fr(yts) if math.isfinite(yts) else yts, Fr(o["sts"]), Fr(o["ptp"]))
            stats["valid_checked"] += 1
            if not exact and margin < 1e-12:
                stats["tie_discarded"] += 1
            elif (r["ret"] == 1) != dec:
                raise Bad("C09:update_valid-differs-from-documented-test",
                          "update_valid(yᵀs=%r, sᵀs=%r, pᵀp=%r) returned %s, documented test says %s" % (yts, o["sts"], o["ptp"], r["ret"], dec), k)
            continue
        if kind in ("updsy", "upd"):
            if kind == "updsy":
                s, y, pp = o["s"], o["y"], o["pp"]
            else:
                s = [a - b for a, b in zip(o["xn"], o["xk"])]
                y = [a - b for a, b in zip(o["pn"], o["pk"])] if o["sign"] else [a - b for a, b in zip(o["pk"], o["pn"])]
                pp = fdot(o["pn"], o["pn"]) if p.cbfgs() else 0.0
            if finite(s) and finite(y):
                yts_x, sts_x = xdot(y, s), xdot(s, s)
                yts_f, sts_f = fdot(y, s), fdot(s, s)
                dec, margin, exact = documented_valid(p, yts_x, sts_x, Fr(pp))
                exact = exact and (math.isfinite(yts_f) and math.isfinite(sts_f) and Fr(yts_f) == yts_x and Fr(sts_f) == sts_x)
                if not exact and margin < 1e-9:
                    stats["tie_discarded"] += 1
                    dec = (r["ret"] == 1) or bool(o["forced"])      # ill-conditioned decision: follow the implementation
            else:
                dec = False if not math.isfinite(fdot(y, s)) else (r["ret"] == 1)
            exp = dec or bool(o["forced"])
            if (r["ret"] == 1) != exp:
                raise Bad("C09:update-acceptance-differs-from-documented-test",
                          "update returned %s but the documented test (forced=%s) says %s" % (r["ret"], o["forced"], exp), k)
            if exp:
                H = (H + [(s, y)])[-p.mem:]
            stats["accepted" if exp else "rejected"] += 1
        elif kind == "reset":
            H = []; masked_seen = False
        elif kind == "resize":
            H = []; masked_seen = False; n = o["n"]
        elif kind == "scale":
            H = [(s, [v * o["f"] for v in y]) for s, y in H]
        # ---- stored history after the operation (public accessors) must be the abstract one
        if r["n"] != n or r["hist"] != p.mem:
            raise Bad("C09:dimensions", "n()=%s history()=%s expected %s %s" % (r["n"], r["hist"], n, p.mem), k)
        if r["ch"] != len(H):
            raise Bad("C09:history-length", "current_history()=%d but %d pairs should be stored (op %s)" % (r["ch"], len(H), kind), k)
        if r["rev"] != list(reversed(r["fwd"])) or len(set(r["fwd"])) != len(r["fwd"]) or len(r["fwd"]) != len(H) \
           or any(not (0 <= i < p.mem) for i in r["fwd"]):
            raise Bad("C09:iteration-order", "foreach_fwd=%s foreach_rev=%s for %d stored pairs" % (r["fwd"], r["rev"], len(H)), k)
        S = split(U("S"), n); Y = split(U("Y"), n); R = U("R")
        for i, (s, y) in enumerate(H):
            if not all(close(a, b, 1e-15) for a, b in zip(S[i], s)) or not all(close(a, b, 1e-15) for a, b in zip(Y[i], y)):
                raise Bad("C09:stored-history-differs", "pair %d (oldest first) after %s: stored s=%s y=%s, expected s=%s y=%s"
                          % (i, kind, S[i], Y[i], s, y), k)
        rho_bad = []
        for i, (s, y) in enumerate(H):
            ys = fdot(y, s)
            if not (finite(s) and finite(y)) or ys == 0:     # 1/(±0): the sign of the infinity is not part of the property
                continue
            e = 1.0 / ys
            if not close(R[i], e, 1e-9):
                rho_bad.append(i)
        if kind in ("applym", "applymv"):
            # apply_masked is const on the history: s, y, ρ read through the accessors are bit-for-bit what they were before the call
            prev = outs[k]
            changed = [key for key in ("S", "Y", "R", "fwd") if r[key] != prev[key]]
            if changed and not rho_flagged:
                rho_flagged = True
                soft.append(Bad(MASKED_WRITES_SIG, "apply_masked(q=%s, γ=%s, J=%s) changed the stored %s: before %s, after %s (stored pairs %s)"
                                % (o["q"], o["γ"], o["J"], "/".join(changed), {c: [unhex(x) for x in prev[c]] if c != "fwd" else prev[c] for c in changed},
                                   {c: [unhex(x) for x in r[c]] if c != "fwd" else r[c] for c in changed}, H), k))
            stats["masked_history_unchanged_checked"] += 1
        if rho_bad and not rho_flagged:
            raise Bad("C09:stored-rho-not-reciprocal-curvature", "ρ of pair %s is %s, 1/yᵀs = %s" %
                      (rho_bad[0], R[rho_bad[0]], 1.0 / fdot(H[rho_bad[0]][1], H[rho_bad[0]][0]) if fdot(H[rho_bad[0]][1], H[rho_bad[0]][0]) else "inf"), k)
        # ---- apply
        if kind == "apply":
            q_in = o["q"]; q_out = U("q")
            if not H:
                if r["ret"] != 0 or q_out != q_in:
                    raise Bad("C09:apply-on-empty-history", "ret=%s q=%s" % (r["ret"], q_out), k)
                stats["apply_empty"] += 1
                dense_cols = []
                continue
            if r["ret"] != 1:
                raise Bad("C09:apply-returned-false-with-history", "ret=%s" % r["ret"], k)
            ok_num = all(finite(s) and finite(y) for s, y in H) and finite(q_in)
            Hx = [([Fr(a) for a in s], [Fr(a) for a in y]) for s, y in H] if ok_num else None
            sN, yN = H[-1]
            γ = o["γ"]
            undefined = not ok_num
            if not undefined and (p.curv or γ < 0):
                yy = xdot(yN, yN)
                if yy == 0: undefined = True
                else: γx = xdot(yN, sN) / yy
            elif not undefined:
                γx = Fr(γ)
            Hd = dense_H(Hx, γx, n) if not undefined else None
            if Hd is None:
                stats["apply_undefined"] += 1
                dense_cols = []
                continue
            exp = matvec(Hd, [Fr(a) for a in q_in])
            rhos_true = [float(1 / xdot(y, s)) for s, y in H]
            M = magnitude_bound(H, rhos_true, float(γx), q_in)
            tol = 1e-10 * M
            wrong = [i for i in range(n) if not (abs(Fr(q_out[i]) - exp[i]) <= tol) ] if finite(q_out) else list(range(n))
            if wrong:
                # attribution: does the output equal the two-loop with the ρ values found in storage BEFORE this call?
                prevR = [unhex(t) for t in outs[k]["R"]] if k >= 0 else R
                γs = (1.0 / (prevR[-1] * fdot(yN, yN))) if (p.curv or γ < 0) else γ
                alt = two_loop_with_stored_rho(H, prevR, γs, q_in)
                same_as_alt = all(close(a, b, 1e-9, 1e-12 * M) for a, b in zip(alt, q_out))
                prev_bad = any(not close(a, b, 1e-9) for a, b in zip(prevR, rhos_true))
                i = wrong[0]
                why = ("apply(q=%s, γ=%s) with stored pairs %s returned %s; dense BFGS inverse Hessian of the stored pairs gives %s"
                       % (q_in, γ, H, q_out, [float(e) for e in exp]))
                if masked_seen and prev_bad and same_as_alt:
                    raise Bad(OVERWRITTEN_RHO_SIG, why + "; stored ρ = %s were overwritten by apply_masked (1/yᵀs = %s)" % (prevR, rhos_true), k)
                raise Bad("C09:apply-differs-from-dense-bfgs", why, k)
            stats["apply_checked"] += 1
            # dense block bookkeeping
            if "dense" in o:
                j, nn = o["dense"]
                if j == 0: dense_cols = []
                dense_cols.append(q_out)
                if len(dense_cols) == nn == n and j == n - 1:
                    cols = dense_cols; dense_cols = []
                    scale = max(abs(v) for c in cols for v in c) + 1e-300
                    cond_tol = 1e-9 * max(scale, max(magnitude_bound(H, rhos_true, float(γx), [1.0] * n), 1e-300))
                    for a in range(n):
                        for b in range(a):
                            if abs(cols[a][b] - cols[b][a]) > cond_tol:
                                raise Bad("C09:dense-not-symmetric", "H[%d][%d]=%r H[%d][%d]=%r" % (b, a, cols[a][b], a, b, cols[b][a]), k)
                    Hy = [sum(cols[j2][i] * yN[j2] for j2 in range(n)) for i in range(n)]
                    ysN = fdot(yN, sN)
                    if abs(ysN) > 1e-6 * math.sqrt(fdot(yN, yN) * fdot(sN, sN)):
                        ytol = 1e-8 * max(magnitude_bound(H, rhos_true, float(γx), yN), 1e-300)
                        if any(abs(a - b) > ytol for a, b in zip(Hy, sN)):
                            raise Bad("C09:secant-equation", "H·y_new = %s but s_new = %s" % (Hy, sN), k)
                    if all(xdot(y, s) > 0 for s, y in H) and γx > 0:
                        # positive definite: exact check on the rational matrix of the implementation's doubles is too strict; use probes
                        probes = [[1.0 if i == j2 else 0.0 for i in range(n)] for j2 in range(n)] + \
                                 [[(-1.0) ** ((m >> i) & 1) for i in range(n)] for m in range(2 ** n)]
                        for v in probes:
                            Hv = [sum(cols[j2][i] * v[j2] for j2 in range(n)) for i in range(n)]
                            vHv = sum(a * b for a, b in zip(v, Hv))
                            expv = float(sum(Fr(a) * e for a, e in zip(v, matvec(Hd, [Fr(a) for a in v]))))
                            if not (vHv > 0) and expv > 1e-7 * scale:
                                raise Bad("C09:not-positive-definite", "vᵀHv = %r for v=%s (exact value %r)" % (vHv, v, expv), k)
                        stats["posdef_checked"] += 1
                    stats["dense_blocks"] += 1
            else:
                dense_cols = []
            continue
        dense_cols = []
        # ---- apply_masked
        if kind in ("applym", "applymv"):
            q_in = o["q"]; q_out = U("q"); J = o["J"]; γ = o["γ"]
            if not H:
                if r["ret"] != 0 or q_out != q_in:
                    raise Bad("C09:apply_masked-on-empty-history", "ret=%s q=%s" % (r["ret"], q_out), k)
                continue
            if p.cbfgs():
                if r["ret"] != 3 or q_out != q_in:
                    raise Bad("C09:apply_masked-cbfgs-must-throw", "ret=%s" % r["ret"], k)
                continue
            masked_seen = True
            if not (all(finite(s) and finite(y) for s, y in H) and finite(q_in)):
                continue
            # the same construction on the J-restricted vectors; pairs invalid on J skipped
            HJ = []
            illcond = False
            for s, y in H:
                sJ = [Fr(s[j]) for j in J]; yJ = [Fr(y[j]) for j in J]
                ys = sum((a * b for a, b in zip(yJ, sJ)), Fr(0)); ss = sum((a * a for a in sJ), Fr(0))
                dec, margin, exact = documented_valid(P(p.mem, p.mdf, p.mas, p.ca, 0.0, p.fpd, p.curv), ys, ss, Fr(0))
                ys_f = sum(s[j] * y[j] for j in J); ss_f = sum(s[j] * s[j] for j in J)
                if margin < 1e-9 and not (exact and Fr(ys_f) == ys and Fr(ss_f) == ss):
                    illcond = True
                if dec:
                    HJ.append((sJ, yJ))
            if illcond:
                stats["tie_discarded"] += 1
                continue
            for j in range(n):
                if j not in J and not (q_out[j] == q_in[j] or (math.isnan(q_out[j]) and math.isnan(q_in[j]))):
                    raise Bad("C09:apply_masked-touches-outside-J", "component %d changed from %r to %r (J=%s)" % (j, q_in[j], q_out[j], J), k)
            γm = None
            if p.curv or γ < 0:
                neg = False
                for sJ, yJ in reversed(HJ):
                    yy = sum((a * a for a in yJ), Fr(0))
                    g = sum((a * b for a, b in zip(yJ, sJ)), Fr(0)) / yy if yy != 0 else None
                    if g is None or g < 0:
                        neg = True; break       # corner (negative curvature accepted with force_pos_def=false): correspondence only
                    γm = g; break
                if neg:
                    stats["masked_negative_curvature_corner"] += 1
                    continue
            else:
                γm = Fr(γ)
            if γm is None:     # no valid pair and no step size: documented failure
                if r["ret"] != 0 or q_out != q_in:
                    raise Bad("C09:apply_masked-all-invalid", "no pair valid on J=%s but ret=%s q=%s" % (J, r["ret"], q_out), k)
                stats["masked_all_invalid"] += 1
                continue
            if r["ret"] != 1:
                raise Bad("C09:apply_masked-returned-false", "ret=%s with %d pairs valid on J=%s" % (r["ret"], len(HJ), J), k)
            Hd = dense_H(HJ, γm, len(J))
            exp = matvec(Hd, [Fr(q_in[j]) for j in J])
            Hf = [([float(a) for a in s], [float(a) for a in y]) for s, y in HJ]
            M = magnitude_bound(Hf, [float(1 / sum((a * b for a, b in zip(y, s)), Fr(0))) for s, y in HJ], float(γm), [q_in[j] for j in J])
            tol = 1e-10 * M
            for t, j in enumerate(J):
                if not (math.isfinite(q_out[j]) and abs(Fr(q_out[j]) - exp[t]) <= tol):
                    raise Bad("C09:apply_masked-differs-from-restricted-dense-bfgs",
                              "apply_masked(q=%s, γ=%s, J=%s) with stored pairs %s returned %s; restricted dense construction (%d of %d pairs valid on J) gives %s on J"
                              % (q_in, γ, J, H, q_out, len(HJ), len(H), [float(e) for e in exp]), k)
            stats["masked_checked"] += 1
            if len(HJ) < len(H):
                stats["masked_with_skipped_pairs"] += 1

def seq_signature(sq, outs, marked=False):
    p = sq["p"]
    kinds = [o["op"] for o in sq["ops"]]
    acc = sum(1 for o, r in zip(sq["ops"], outs[1:]) if o["op"] in ("updsy", "upd") and r["ret"] == 1)
    rej = sum(1 for o, r in zip(sq["ops"], outs[1:]) if o["op"] in ("updsy", "upd") and r["ret"] == 0)
    fl = []
    if acc > p.mem: fl.append("wrap")
    if rej: fl.append("rej")
    if any(o.get("forced") for o in sq["ops"]): fl.append("forced")
    for kd in ("apply", "applym", "applymv", "reset", "resize", "scale", "upd", "valid"):
        if kd in kinds: fl.append(kd)
    if any(r["ret"] == 3 for r in outs): fl.append("throw")
    if any(o["op"].startswith("applym") and r["ret"] == 0 for o, r in zip(sq["ops"], outs[1:])): fl.append("mfalse")
    if marked: fl.append("nanmark")      # an apply_masked had to exclude a stored pair (NaN mark in the α workspace)
    if any(any(t == "nan" for t in r.get("R", [])) for r in outs): fl.append("nanrho")
    return "m%d/n%d/c%d%d%d/%s" % (p.mem, sq["n"], p.curv, p.fpd, int(p.cbfgs()), ",".join(fl))

def seq_json(sq):
    return {"params": sq["p"].js(), "n": sq["n"], "ops": [{a: (hexf(b) if isinstance(b, float) else b) for a, b in o.items()} for o in sq["ops"]]}

def seq_from_json(d):
    """inverse of seq_json (replay files)"""
    pj = d["params"]
    p = P(pj["memory"], unhex(pj["min_div_fac"]), unhex(pj["min_abs_s"]), float(pj["cbfgs_alpha"]), float(pj["cbfgs_eps"]),
          int(pj["force_pos_def"]), int(pj["curvature"]))
    def val(k, v):
        if k in ("J", "dense") or isinstance(v, int) and k in ("forced", "sign", "n"):
            return v
        if isinstance(v, list):
            return [unhex(x) for x in v]
        if isinstance(v, str) and k != "op":
            return unhex(v)
        return v
    ops = [{k: val(k, v) for k, v in o.items()} for o in d["ops"]]
    for o in ops:
        if "dense" in o:
            o["dense"] = tuple(o["dense"])
    return dict(kind="replay", p=p, n=d["n"], ops=ops, word="replay")

def run(ctx):
    ctx.coverage["rule"] = ("operation sequences on one LBFGS object through the public API (update_sy/update incl. forced, apply, apply_masked both overloads, "
                            "reset, resize, scale_y): random (memory 1..5, n 1..4, both step-size policies, CBFGS on/off, acceptance ties as exact dyadics) + "
                            "exhaustive words over a small op alphabet + direct update_valid threshold cases; a sequence is distinct by "
                            "(memory, n, policy flags, set of op kinds, wrap-around / rejection / forced / throw / masked-false / NaN-mark occurrence)")
    ctx.assumptions += ["binary64 rounding is not modelled in the theorems (ideal reals); the float run of the same definitions is compared with tolerance 2^-36",
                        "std::pow is a parameter of the model (theorems hold for every pow); the float run uses x, sqrt x, x*x, 1 for exponents 1, 1/2, 2, 0",
                        "the NaN<config_t> mark apply_masked writes into the workspace α(i) of a pair it excludes is modelled as a bool of the slot (sl_skip), cleared by every ordinary assignment of α(i); std::isnan(α(i)) is `sl_skip || isnan α`, so a genuine NaN α at binary64 is skipped as in the code",
                        "memory is a natural number in the model (negative LBFGSParams::memory not modelled); index sets J are lists of in-range indices without repetition",
                        "uninitialised storage after resize is never read by the code paths modelled (only live slots are accessed)"]
    gentie.translate(ctx, gentie.LBFGS)            # tie 1: regenerate coq/gen/LbfgsGen.v from core.REPO; status -> ctx.coverage["translator_lbfgs"]
    ok = check_properties(ctx)                     # Properties_C09.v requires LbfgsGenEq.v (generated = hand model, piece by piece)
    if not ok:
        gentie.name_obligations(ctx, gentie.LBFGS)   # name every LbfgsGenEq obligation that no longer checks
    gentie.account_eq(ctx, gentie.LBFGS, ok)
    ctx.assumptions += ["translator G11a (gen_lbfgs.py): reads / writes of s(i), y(i), ρ(i), α(i), idx, full are get / set on an abstract column store "
                        "(LbfgsGenLib.store_ops, instantiated by the slots of Lbfgs.state); `α(i) = NaN<config_t>` / `std::isnan(α(i))` are the mark / test of the "
                        "store; foreach_fwd / foreach_rev evaluate their index list at loop entry (their bodies never assign idx / full: checked by the translator)",
                        "generated piece = hand model piece is proved over ideal reals where the terms are not convertible (LbfgsGenEq.v); binary64 agreement of "
                        "the generated functions with the implementation is checked by Corr_LbfgsGen.chk09g on the same records (independent of the hand model)"]
    rc, log = coq_make(["theories/Corr_C09.vo"])     # the executable side of the model must be current as well
    if rc != 0:
        ctx.broke("correspondence", "coq-build:Corr_C09", log)
        return
    if not build_driver(ctx, "C09"):
        return
    seqs = gen_cases(ctx) if not ctx.replay_path else [seq_from_json(json.load(open(ctx.replay_path))["replay"]["sequence"])]
    lines = []
    for sq in seqs:
        lines.append(sq["p"].tok(sq["n"]))
        if sq["p"].mem >= 1:
            lines += [op_tok(o) for o in sq["ops"]]
    outs = run_driver(ctx, "C09", [l_ + "\n" for l_ in lines], timeout=1200)
    nrec = len(lines)
    if outs is None or len(outs) != nrec:
        ctx.broke("correspondence", "drv_C09", "driver returned %s lines for %d records; rc=%s %s" %
                  (None if outs is None else len(outs), nrec, getattr(ctx, "driver_rc", "?"), getattr(ctx, "driver_err", "")))
        return
    stats = {k: 0 for k in ["accepted", "rejected", "apply_checked", "apply_empty", "apply_undefined", "masked_checked", "masked_all_invalid",
                            "masked_with_skipped_pairs", "masked_negative_curvature_corner", "dense_blocks", "posdef_checked", "tie_discarded", "valid_checked",
                            "masked_history_unchanged_checked"]}
    terms, owner = [], []
    pos = 0
    nops = 0
    for qi, sq in enumerate(seqs):
        cnt = 1 + (len(sq["ops"]) if sq["p"].mem >= 1 else 0)
        so = outs[pos:pos + cnt]; pos += cnt
        ctx.count(sq["kind"])
        for o in sq["ops"]:
            ctx.count("op:" + o["op"])
        nops += len(sq["ops"])
        soft = []
        skipped0 = stats["masked_with_skipped_pairs"] + stats["masked_all_invalid"]
        try:
            oracle_seq(ctx, sq, so, stats, soft)
        except Bad as b:
            soft.append(b)
        marked = stats["masked_with_skipped_pairs"] + stats["masked_all_invalid"] > skipped0
        ctx.case(seq_signature(sq, so, marked), sample={"sequence": seq_json(sq), "impl": so[-1]} if qi % 499 == 0 else None, n=max(1, len(sq["ops"])))
        for b in soft:
            upto = sq["ops"][:b.k + 1] if b.k >= 0 else []
            replay_in = "\n".join([sq["p"].tok(sq["n"])] + [op_tok(o) for o in upto])
            ctx.violation(b.sig, b.why, {"driver": "drv_C09", "input": replay_in, "sequence": seq_json(dict(sq, ops=upto)),
                                         "impl_output": so[:b.k + 2], "why": b.why})
        ts = seq_terms(sq, so)
        for t in ts:
            terms.append(t); owner.append(qi)
    ctx.coverage["oracle"] = stats
    ctx.coverage["sequences"] = len(seqs)
    ctx.coverage["operations"] = nops
    failing = coq_failing_cases(ctx, "corr", "Lbfgs Corr_C09", "c09case", "chk09", terms, shard=ctx.n(120, 250), dump="model09")
    ctx.coverage["correspondence_cases"] = len(terms)
    if failing:
        qi = owner[failing[0]]
        sq = seqs[qi]
        ctx.coverage["correspondence_disagreements"] = len(failing)
        ctx.broke("correspondence", "Lbfgs.v vs drv_C09 (%s sequence %s)" % (sq["kind"], sq.get("word", "")),
                  json.dumps({"sequence": seq_json(sq), "coq_term": terms[failing[0]][:3000], "model": getattr(ctx, "last_dump", "")}))
    elif failing is not None:
        ctx.coverage["correspondence_disagreements"] = 0
    # translation validation: the GENERATED functions (run on the same container) against the same implementation records
    def describe(i):
        sq = seqs[owner[i]]
        return "%s sequence %s: %s" % (sq["kind"], sq.get("word", ""), json.dumps(seq_json(sq), ensure_ascii=False)[:1500])
    gentie.validate(ctx, gentie.LBFGS, "gencorr", "Lbfgs LbfgsGenLib LbfgsGen LbfgsGenInst Corr_C09 Corr_LbfgsGen", "c09case", "chk09g", terms,
                    "model09g", describe, shard=ctx.n(120, 250))
