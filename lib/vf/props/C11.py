"""C11 — Steihaug CG / Newton-TR: the trust-region step is feasible and beats the Cauchy point.
proof: Properties_C11.v (Steihaug.v at the real instance, B an abstract symmetric linear operator);
correspondence: Steihaug.v at binary64 (Corr_C11.chk11) vs drv_C11 (the shipped SteihaugCG::solve and
NewtonTRDirection::apply, with a dense symmetric matrix as the Hessian operator);
oracle: norm <= radius, returned value = g's + 1/2 s'Bs recomputed, <= 0, <= Cauchy value (computed here,
independently), interior exit reason, iteration cap; Newton-TR: active components = forward-backward step,
returned value = recomputed model decrease of the combined step."""
import math
from fractions import Fraction as Fr
from vf.core import *
from vf import gentie        # translator G11b: translate/gen_steihaug.py -> coq/gen/SteihaugGen.v (SteihaugGenEq.v: generated = Steihaug.v)

INF = float("inf")

# --------------------------------------------------------------------------- small dense linear algebra (python lists)

def dot(a, b):
    return math.fsum(x * y for x, y in zip(a, b))

def matvec(M, v):
    return [dot(row, v) for row in M]

def norm(v):
    return math.sqrt(math.fsum(x * x for x in v))

def fro(M):
    return math.sqrt(math.fsum(x * x for r in M for x in r))

def sym_from_eig(rng, n, eigs, dyadic=False):
    """Q D Q' with Q a Householder reflection (eigenvectors = columns of Q); symmetrised exactly"""
    if n == 0:
        return [], []
    v = [rng.choice([1.0, -1.0, 2.0, 0.5, -0.5, 0.0, 1.0]) if dyadic else rng.gauss(0, 1) for _ in range(n)]
    vv = dot(v, v)
    if vv == 0:
        v[0] = 1.0; vv = 1.0
    Q = [[(1.0 if i == j else 0.0) - 2.0 * v[i] * v[j] / vv for j in range(n)] for i in range(n)]
    M = [[math.fsum(Q[i][k] * eigs[k] * Q[j][k] for k in range(n)) for j in range(n)] for i in range(n)]
    for i in range(n):
        for j in range(i):
            M[i][j] = M[j][i]
    return M, Q

def round_half_away(v):
    return int(math.copysign(math.floor(abs(v) + 0.5), v))

# --------------------------------------------------------------------------- generators

def gen_B(rng, n):
    kind = rng.choice(["pd", "pd", "pd_ill", "psd_sing", "indef", "indef", "zero", "diag", "negdef", "dyadic"])
    sc = 2.0 ** rng.randint(-12, 12) if rng.random() < 0.5 else 1.0
    Q = None
    if kind == "pd":
        eigs = [rng.uniform(0.1, 4.0) for _ in range(n)]
    elif kind == "pd_ill":
        eigs = [10.0 ** rng.uniform(-6, 3) for _ in range(n)]
    elif kind == "psd_sing":
        eigs = [rng.choice([0.0, rng.uniform(0.5, 3.0)]) for _ in range(n)]
        if n:
            eigs[rng.randrange(n)] = 0.0
    elif kind == "indef":
        eigs = [rng.uniform(-3.0, 3.0) for _ in range(n)]
        if n >= 2:
            eigs[0] = -abs(eigs[0]) - 0.1; eigs[1] = abs(eigs[1]) + 0.1
    elif kind == "negdef":
        eigs = [-rng.uniform(0.1, 4.0) for _ in range(n)]
    elif kind == "zero":
        eigs = [0.0] * n
    else:
        eigs = [rng.dyadic(-4, 4, 2) for _ in range(n)]
    if kind == "zero":
        B = [[0.0] * n for _ in range(n)]
        Q = [[1.0 if i == j else 0.0 for j in range(n)] for i in range(n)]
    elif kind == "diag":
        B = [[eigs[i] * sc if i == j else 0.0 for j in range(n)] for i in range(n)]
        Q = [[1.0 if i == j else 0.0 for j in range(n)] for i in range(n)]
    elif kind == "dyadic":
        B = [[0.0] * n for _ in range(n)]
        for i in range(n):
            for j in range(i, n):
                B[i][j] = B[j][i] = rng.dyadic(-4, 4, 2) * sc
        Q = None
    else:
        B, Q = sym_from_eig(rng, n, [e * sc for e in eigs])
    return kind, B, Q

def gen_params(rng):
    c = rng.random()
    if c < 0.35:
        ts, tsr, tm = 1.0, 0.5, INF                       # defaults
    else:
        ts = rng.choice([1.0, 1e-3, 1e-8, 2.0 ** -20, 0.0, 0.25])
        tsr = rng.choice([0.5, 1.0, 0.125, 4.0])
        tm = rng.choice([INF, INF, 1e-3, 2.0 ** -30, 1.0])
    mif = rng.choice([1.0, 1.0, 1.0, 0.0, 0.5, 2.0, 1.5, 0.25, 3.0])
    return ts, tsr, tm, mif

def gen_cg(rng, special=None):
    n = rng.choice([1, 1, 2, 2, 3, 3, 4, 5, 6, 8])
    if special == "empty":
        n = 0
    kind, B, Q = gen_B(rng, n)
    gk = rng.choice(["rand", "rand", "eig", "dyadic", "gauss"])
    if gk == "eig" and Q is not None and n:
        k = rng.randrange(n); a = rng.choice([1.0, -1.0, 2.0, 0.25, 3.0])
        g = [a * Q[i][k] for i in range(n)]
    elif gk == "dyadic":
        g = [rng.dyadic(-4, 4, 2) for _ in range(n)]
    elif gk == "gauss":
        g = [rng.gauss(0, 1) for _ in range(n)]
    else:
        g = rng.vec(n, 2.0)
    gs = 2.0 ** rng.randint(-10, 10) if rng.random() < 0.4 else 1.0
    g = [x * gs for x in g]
    if n and all(x == 0 for x in g) and special != "zero_g":
        g[rng.randrange(n)] = 1.0
    if special == "zero_g":
        g = [0.0] * n
    Δ = 2.0 ** rng.randint(-20, 20) * rng.choice([1.0, 1.5, 1.25, 1.0])
    if rng.random() < 0.35 and n:
        # aim the radius at the scale of the Newton / Cauchy step so that interior and boundary exits both occur
        gn = norm(g); bn = fro(B)
        if bn > 0 and gn > 0:
            Δ = (gn / bn) * rng.choice([0.25, 0.5, 1.0, 2.0, 8.0, 64.0, 1024.0])
    ts, tsr, tm, mif = gen_params(rng)
    extra = rng.choice([0, 0, 0, 3])
    return dict(op="cg", kind=kind, gk=gk, g=g, B=B, Δ=Δ, ts=ts, tsr=tsr, tm=tm, mif=mif, extra=extra)

def tie_cases():
    """exact dyadic cases sitting on the decision boundaries of solve()"""
    D = dict(ts=1.0, tsr=0.5, tm=INF, mif=1.0, extra=0, kind="tie", gk="tie")
    out = []
    # dBd == 0 exactly: gradient in the null space of a singular PSD matrix  (dBd <= 0 branch)
    out.append(dict(op="cg", g=[0.0, 1.0], B=[[1.0, 0.0], [0.0, 0.0]], Δ=2.0, **D))
    out.append(dict(op="cg", g=[3.0, -4.0], B=[[0.0, 0.0], [0.0, 0.0]], Δ=10.0, **D))
    # Newton step exactly on the boundary: ||z + alpha d|| == radius (>= branch)
    out.append(dict(op="cg", g=[-2.0], B=[[1.0]], Δ=2.0, **D))
    out.append(dict(op="cg", g=[3.0, 4.0], B=[[1.0, 0.0], [0.0, 1.0]], Δ=5.0, **D))
    # first CG step lands exactly on the sphere with a non-zero residual (alpha = 1, |s| = 3 = radius, r' = (-2,0,2))
    out.append(dict(op="cg", g=[2.0, 1.0, 2.0], B=[[2.0, 0, 0], [0, 1.0, 0], [0, 0, 0.0]], Δ=3.0, **{**D, "ts": 0.0}))
    # second CG pass hits dBd == 0 (indefinite 2x2, exact arithmetic)
    out.append(dict(op="cg", g=[1.0, 1.0], B=[[1.0, 0.0], [0.0, -1.0]], Δ=4.0, **D))
    # residual exactly zero after one step (r_next == 0 with tolerance 0)
    out.append(dict(op="cg", g=[2.0, 0.0], B=[[2.0, 0.0], [0.0, 1.0]], Δ=8.0, **{**D, "ts": 0.0}))
    # iteration cap: tolerance 0, identity-like spectrum with distinct eigenvalues, caps 0 / 1 / 2
    for mif in (0.0, 0.5, 1.0, 2.0):
        out.append(dict(op="cg", g=[1.0, 1.0, 1.0], B=[[1.0, 0, 0], [0, 2.0, 0], [0, 0, 4.0]], Δ=64.0, **{**D, "ts": 0.0, "mif": mif}))
    # negative curvature where the two boundary points have equal value (g orthogonal to d is impossible; use g tiny)
    out.append(dict(op="cg", g=[1.0, 0.0], B=[[-1.0, 0.0], [0.0, -1.0]], Δ=1.0, **D))
    out.append(dict(op="cg", g=[], B=[], Δ=1.0, **D))
    return out

def gen_ntr(rng):
    n = rng.choice([1, 2, 2, 3, 4, 5, 6])
    kind, H, Q = gen_B(rng, n)
    if rng.random() < 0.5:
        sc = max(fro(H), 1e-300)
        if not (2.0 ** -6 < sc < 2.0 ** 6):      # keep the Hessian on the scale of x for most box cases
            kind, H, Q = gen_B(rng, n)
    γ = rng.posreal(-3, 2)
    lb, ub = [], []
    for _ in range(n):
        a, b = rng.dyadic(-4, 0), rng.dyadic(0, 4)
        k = rng.random()
        if k < 0.2: a = -INF
        elif k < 0.4: b = INF
        elif k < 0.55: a, b = -INF, INF
        lb.append(a); ub.append(b)
    x = rng.vec(n, 2.0); grad = rng.vec(n, 2.0)
    for j in range(n):
        c = rng.random()
        if c < 0.15 and math.isfinite(lb[j]):
            x[j] = lb[j] + γ * grad[j]         # forward point exactly on the bound: active (strict test)
        elif c < 0.3 and math.isfinite(ub[j]):
            x[j] = ub[j] + γ * grad[j]
        elif c < 0.45 and math.isfinite(lb[j]):
            x[j] = lb[j]; grad[j] = abs(grad[j]) + 0.5   # pushed against the bound: active
    Δ = 2.0 ** rng.randint(-8, 8) * rng.choice([1.0, 1.5])
    hvf = rng.choice([1.0, 1.0, 0.0, 0.5])
    ts, tsr, tm, mif = gen_params(rng)
    return dict(op="ntr", kind=kind, lb=lb, ub=ub, γ=γ, x=x, grad=grad, H=H, Δ=Δ, hvf=hvf, ts=ts, tsr=tsr, tm=tm, mif=mif)

def gen_cases(ctx):
    rng = ctx.rng
    cases = list(tie_cases())
    # zero gradient (fixed defect: regression cases) and the known alpha-overflow finding; first, so that their replay is the plain case
    cases.append(dict(op="cg", kind="zero_g", gk="zero", g=[0.0, 0.0], B=[[2.0, 0.0], [0.0, 1.0]], Δ=1.0, ts=1.0, tsr=0.5, tm=INF, mif=1.0, extra=0))
    cases.append(gen_cg(rng, special="zero_g"))
    cases.append(dict(op="cg", kind="tinyPD", gk="overflow", g=[1.0], B=[[2.0 ** -1070]], Δ=1.0, ts=1.0, tsr=0.5, tm=INF, mif=1.0, extra=0))
    # Newton-TR at a point whose inactive forward-backward step is zero (r_J = 0)
    cases.append(dict(op="ntr", kind="zero_rJ", lb=[-1.0, -1.0], ub=[1.0, 1.0], γ=0.5, x=[0.25, 1.0], grad=[0.0, -1.0],
                      H=[[2.0, 0.0], [0.0, 1.0]], Δ=1.0, hvf=0.0, ts=1.0, tsr=0.5, tm=INF, mif=1.0))
    for i in range(ctx.n(3000, 40000)):
        cases.append(gen_cg(rng, special="empty" if i % 211 == 210 else None))
    for i in range(ctx.n(1000, 12000)):
        cases.append(gen_ntr(rng))
    return cases

def flat(M):
    return [x for r in M for x in r]

def to_input(c):
    if c["op"] == "cg":
        return "cg %s %s %s %s %s %s %s %d" % (vec_in(c["g"]), vec_in(flat(c["B"])), hexf(c["Δ"]), hexf(c["ts"]), hexf(c["tsr"]),
                                               hexf(c["tm"]), hexf(c["mif"]), c["extra"])
    return "ntr %s %s %s %s %s %s %s %s %s %s %s %s" % (vec_in(c["lb"]), vec_in(c["ub"]), hexf(c["γ"]), vec_in(c["x"]), vec_in(c["grad"]),
                                                        vec_in(flat(c["H"])), hexf(c["Δ"]), hexf(c["hvf"]), hexf(c["ts"]), hexf(c["tsr"]),
                                                        hexf(c["tm"]), hexf(c["mif"]))

def max_iter_of(n, mif):
    return round_half_away(float(n) * mif)

def coqmat(M):
    return coqlist([coqvec(r) for r in M])

def to_coq(c, o, nJ=None):
    if c["op"] == "cg":
        return "CCg %s %s %s %s %s %s %s %s %s %s" % (coqvec(c["g"]), coqmat(c["B"]), coqf(c["Δ"]), coqf(c["ts"]), coqf(c["tsr"]), coqf(c["tm"]),
                                                     coqZ(max_iter_of(len(c["g"]), c["mif"])), coqvec(o["s"]), coqf(o["q"]), coqZ(o["calls"]))
    return "CNtr %s %s %s %s %s %s %s %s %s %s %s %s %s %s %s %s %s" % (
        coqvec(c["lb"]), coqvec(c["ub"]), coqf(c["γ"]), coqvec(c["x"]), coqvec(c["grad"]), coqmat(c["H"]), coqf(c["Δ"]), coqf(c["hvf"]),
        coqf(c["ts"]), coqf(c["tsr"]), coqf(c["tm"]), coqZ(max_iter_of(len(o["J"]), c["mif"])),
        coqvec(o["p"]), coqlist([coqnat(i) for i in o["J"]]), coqvec(o["q"]), coqf(o["val"]), coqZ(o["calls"]))

# --------------------------------------------------------------------------- oracle

def model_value(g, B, s):
    return dot(g, s) + 0.5 * dot(s, matvec(B, s))

def cauchy_value(g, B, Δ):
    """model value at the Cauchy point: minimiser of the model along -g inside the ball"""
    gn = norm(g)
    gBg = dot(g, matvec(B, g))
    tmax = Δ / gn
    t = tmax if gBg <= 0 else min(gn * gn / gBg, tmax)
    return -t * gn * gn + 0.5 * t * t * gBg

def cg_tolerance(g, ts, tsr, tm):
    gn = norm(g)
    return min(tm, ts * gn * min(tsr, math.sqrt(gn)))

def cg_oracle(g, B, Δ, ts, tsr, tm, mif, s, q, calls, tag="cg"):
    """property predicate on what solve() returned; returns (signature-suffix, message) or None"""
    n = len(g)
    if n == 0:
        if len(s) != 0 or q != 0:
            return ("empty", "n = 0 must give the empty step with value 0, got q=%r" % q)
        return None
    gn = norm(g)
    nan_out = math.isnan(q) or any(math.isnan(x) for x in s)
    if gn == 0:
        if nan_out:
            return ("zero-gradient-nan-step", "g = 0, radius %r > 0: returned step %r value %r (expected the zero step, value 0)" % (Δ, s, q))
        # fix 756d57214: the zero step with value 0 (the number of Hessian products is only compared with the model)
        if any(x != 0 for x in s) or q != 0:
            return ("zero-gradient-bad-step", "g = 0: step %r value %r (expected the zero step, value 0)" % (s, q))
        return None
    if nan_out:
        gBg = dot(g, matvec(B, g))
        if gBg > 0 and not math.isfinite(gn * gn / gBg):
            return ("alpha-overflow-nan-step", "r'r / d'Bd overflows (|B| = %r, |g| = %r): NaN step returned instead of a boundary point" % (max(abs(x) for r in B for x in r), gn))
        return ("nan-step", "non-finite step/value for finite data: s=%r q=%r" % (s, q))
    sn = norm(s)
    if sn > Δ * (1 + 1e-12):
        return ("norm", "step norm %r exceeds radius %r" % (sn, Δ))
    Bn = fro(B)
    scale = gn * Δ + 0.5 * Bn * Δ * Δ
    # terms of the model at the returned step bound the rounding error of the value
    Bs = matvec(B, s)
    vscale = math.fsum(abs(a * b) for a, b in zip(g, s)) + 0.5 * math.fsum(abs(a * b) for a, b in zip(s, Bs)) + 1e-300
    qv = dot(g, s) + 0.5 * dot(s, Bs)
    if abs(qv - q) > 1e-10 * vscale + 1e-13 * scale:
        return ("value", "returned value %r but g's + 1/2 s'Bs = %r for the returned step" % (q, qv))
    if q > 1e-12 * scale:
        return ("positive", "model value %r > 0" % q)
    qc = cauchy_value(g, B, Δ)
    if q > qc + 1e-9 * abs(qc) + 1e-12 * scale:
        return ("cauchy", "model value %r is worse than the Cauchy point value %r" % (q, qc))
    mi = max_iter_of(n, mif)
    if calls > mi + 2 + 2 or calls < 2:   # g <> 0 here: at least one pass and one eval
        return ("itercap", "%d Hessian products for max_iter = %d" % (calls, mi))
    if sn < Δ * (1 - 1e-9):
        # interior: exactly one eval() -> passes = calls - 1, loop counter at exit i = calls - 2
        i = calls - 2
        tol = cg_tolerance(g, ts, tsr, tm)
        r = [a + b for a, b in zip(g, Bs)]
        rn = norm(r)
        rslack = 1e-7 * (gn + Bn * sn)
        if not (rn < tol * (1 + 1e-7) + rslack or rn <= rslack or i > mi):
            return ("interior", "interior step (|s| = %r < %r) after %d passes but residual %r >= tolerance %r and i = %d <= max_iter = %d" % (sn, Δ, i + 1, rn, tol, i, mi))
    return None

def oracle(c, o):
    if "exc" in o:
        return ("exc", "unexpected exception: " + o["exc"])
    if c["op"] == "cg":
        s = [unhex(t) for t in o["s"]]; q = unhex(o["q"])
        return cg_oracle(c["g"], c["B"], c["Δ"], c["ts"], c["tsr"], c["tm"], c["mif"], s, q, o["calls"])
    # Newton-TR
    n = len(c["x"]); γ = c["γ"]
    p = [unhex(t) for t in o["p"]]; q = [unhex(t) for t in o["q"]]; val = unhex(o["val"]); J = o["J"]
    K = [i for i in range(n) if i not in J]
    for i in K:
        if not (q[i] == p[i]):
            return ("active", "active component %d: q = %r but forward-backward step p = %r" % (i, q[i], p[i]))
    # gradient and operator of the reduced model, recomputed here
    qK = [p[i] if i in K else 0.0 for i in range(n)]
    HqK = matvec(c["H"], qK)
    rJ = [-p[j] / γ + (c["hvf"] * HqK[j] if c["hvf"] != 0 else 0.0) for j in J]
    HJJ = [[c["H"][a][b] for b in J] for a in J]
    qJ = [q[j] for j in J]
    nK2 = math.fsum(p[i] * p[i] for i in K)
    calls = o["calls"] - (1 if c["hvf"] != 0 else 0)
    if len(J) and norm(rJ) == 0 and (math.isnan(val) or any(math.isnan(t) for t in qJ)):
        return ("zero-gradient-nan-step", "Newton-TR with r_J = 0 (inactive forward-backward step is zero): q_J = %r, value %r" % (qJ, val))
    if len(J) == 0:
        if not close(val, -nK2 / (2 * γ), 1e-12):
            return ("ntr-value", "no inactive index: value %r but -|q_K|^2/(2γ) = %r" % (val, -nK2 / (2 * γ)))
        return None
    if math.isnan(val) or any(math.isnan(t) for t in q):
        return ("ntr-nan", "non-finite Newton-TR output q=%r val=%r" % (q, val))
    qJval = val + nK2 / (2 * γ)
    # the value of the reduced problem is recovered by adding |q_K|^2/(2γ) back: allow its rounding
    mv = model_value(rJ, HJJ, qJ)
    vs = math.fsum(abs(a * b) for a, b in zip(rJ, qJ)) + 0.5 * math.fsum(abs(a * b) for a, b in zip(qJ, matvec(HJJ, qJ))) + nK2 / (2 * γ) + 1e-300
    if abs(mv - nK2 / (2 * γ) - val) > 1e-10 * vs:
        return ("ntr-value", "returned %r but model(q_J) - |q_K|^2/(2γ) = %r" % (val, mv - nK2 / (2 * γ)))
    # the reduced step itself obeys the trust-region properties (value taken as recomputed, already tied to `val` above)
    sub = cg_oracle(rJ, HJJ, c["Δ"], c["ts"], c["tsr"], c["tm"], c["mif"], qJ, mv, calls)
    if sub:
        return ("ntr-" + sub[0] if not sub[0].startswith("zero-gradient") else sub[0], "Newton-TR reduced step: " + sub[1])
    return None

def close(a, b, rel=1e-11, ab=1e-300):
    if math.isnan(a) or math.isnan(b):
        return math.isnan(a) and math.isnan(b)
    return a == b or abs(a - b) <= rel * max(abs(a), abs(b)) + ab

def signature(c, o):
    if "exc" in o:
        return c["op"] + "/exc"
    if c["op"] == "cg":
        n = len(c["g"]); s = [unhex(t) for t in o["s"]]
        sn = norm(s) if s and not any(math.isnan(x) for x in s) else float("nan")
        where = "nan" if math.isnan(sn) else ("int" if sn < c["Δ"] * (1 - 1e-9) else "bnd")
        return "cg/%s/n%d/%s/c%d/%s" % (c["kind"], min(n, 4), where, min(o["calls"], 6), "dflt" if (c["ts"], c["tsr"], c["tm"]) == (1.0, 0.5, INF) else "tol")
    n = len(c["x"])
    return "ntr/%s/nJ%d/nK%d/hv%s/c%d" % (c["kind"], min(len(o["J"]), 3), min(n - len(o["J"]), 3), c["hvf"] != 0, min(o["calls"], 5))

def fmt_case(c):
    return {a: ([hexf(x) for x in b] if isinstance(b, list) and b and isinstance(b[0], float) else b) for a, b in c.items() if a not in ("B", "H")}

def run(ctx):
    ctx.coverage["rule"] = ("SteihaugCG::solve on dense symmetric B built from a chosen spectrum (PD, ill-conditioned PD, singular PSD, indefinite, "
                            "negative definite, zero, diagonal, dyadic) with random / eigenvector-aligned / dyadic g, radii 2^-20..2^20 or aimed at "
                            "the Newton-step scale, all tolerance parameter corners, iteration caps 0..3n, plus exact tie cases; "
                            "NewtonTRDirection::apply on box problems with a dense Hessian-product problem class; a case is distinct by "
                            "(matrix kind, n, interior/boundary exit, number of Hessian products, default/custom tolerance) resp. (kind, |J|, |K|, hvf, products)")
    ctx.assumptions += ["binary64 rounding is not modelled in the theorems (ideal reals); the float run of the same definitions is compared with tolerance 2^-36",
                        "the Hessian operator is an arbitrary symmetric linear map in the theorems (Section hypotheses B_add/B_scale/B_sym/B_len); "
                        "the harness instantiates it with a dense matrix applied row by row",
                        "max_iter = (index_t) round(n * max_iter_factor) is computed by the check (round half away from zero) and passed to the model as an integer",
                        "NewtonTRDirection: exact-Hessian path only (finite_diff = false); inactive set and forward-backward step from Prox.v (C15)",
                        "g = 0 takes the early return of fix 756d57214 (theorem C11_zero_gradient_gives_zero_step); a regression to the NaN step is "
                        "reported as C11:zero-gradient-nan-step",
                        "overflow of alpha = r'r/d'Bd (NaN exit) is outside the real-arithmetic theorems: C11_alpha_overflow_nan_refuted; "
                        "random cases keep |B| within 2^-12..2^12 times O(1) spectra so that it is only hit by the dedicated case"]
    gentie.translate(ctx, gentie.STEIHAUG)         # tie 1: regenerate coq/gen/SteihaugGen.v from core.REPO; status -> ctx.coverage["translator_steihaug"]
    ok = check_properties(ctx)                     # Properties_C11.v requires SteihaugGenEq.v (generated = hand model, piece by piece)
    if not ok:
        gentie.name_obligations(ctx, gentie.STEIHAUG)   # name every SteihaugGenEq obligation that no longer checks
    gentie.account_eq(ctx, gentie.STEIHAUG, ok)
    ctx.assumptions += ["translator G11b (gen_steihaug.py): hess_prod(x, out) is `out := B x`; `auto z = v(this->z)` (v = first n rows) and `auto &pa = r` are other "
                        "names of the same vector; max_iter = (index_t) round(n * max_iter_factor) is an integer parameter of the generated code (the expression "
                        "must be literally that one); the generated `while (true)` runs with fuel max_iter + 2 (proved sufficient: C11_gen_solve_is_feasible_and_beats_cauchy)",
                        "generated piece = hand model piece is proved over ideal reals (SteihaugGenEq.v); binary64 agreement of the generated solve with the "
                        "implementation is checked by Corr_SteihaugGen.chk11g on the direct-call cases (independent of the hand model)"]
    if not build_driver(ctx, "C11"):
        return
    cases = gen_cases(ctx)
    outs = run_driver(ctx, "C11", [(to_input(c)) + "\n" for c in cases])
    if outs is None or len(outs) != len(cases):
        ctx.broke("correspondence", "drv_C11", "driver returned %s lines for %d cases; rc=%s %s" % (None if outs is None else len(outs), len(cases), getattr(ctx, "driver_rc", "?"), getattr(ctx, "driver_err", "")))
        return
    terms, idx = [], []
    nviol = 0
    for k, (c, o) in enumerate(zip(cases, outs)):
        ctx.count(c["op"] + ":" + c["kind"])
        ctx.case(signature(c, o), sample={"case": fmt_case(c), "impl": o} if k % 151 == 0 else None)
        bad = oracle(c, o)
        if bad:
            nviol += 1
            ctx.count("oracle-failure:" + bad[0])
            ctx.violation("C11:%s" % bad[0], bad[1], {"driver": "drv_C11", "input": to_input(c), "impl_output": o, "why": bad[1]})
        if "exc" in o:
            continue
        terms.append("(" + to_coq(c, o) + ")"); idx.append(k)
    ctx.coverage["oracle_failures"] = nviol
    failing = coq_failing_cases(ctx, "corr", "Vec Prox Steihaug Corr_C11", "c11case", "chk11", terms, shard=150, dump="model11")
    ctx.coverage["correspondence_cases"] = len(terms)
    if failing:
        k = idx[failing[0]]
        ctx.coverage["correspondence_disagreements"] = len(failing)
        ctx.broke("correspondence", "Steihaug.v vs drv_C11 (%s)" % cases[k]["op"],
                  json.dumps({"input": to_input(cases[k]), "impl_output": outs[k], "model": getattr(ctx, "last_dump", ""),
                              "n_disagree": len(failing)}))
    elif failing is not None:
        ctx.coverage["correspondence_disagreements"] = 0
    # translation validation: the GENERATED solve against the same implementation records (direct calls of SteihaugCG::solve)
    gterms = [t for t, k in zip(terms, idx) if cases[k]["op"] == "cg"]
    gidx = [k for k in idx if cases[k]["op"] == "cg"]
    gentie.validate(ctx, gentie.STEIHAUG, "gencorr", "Vec Prox Steihaug SteihaugGenLib SteihaugGen Corr_C11 Corr_SteihaugGen", "c11case", "chk11g", gterms,
                    "model11g", lambda i: "solve: " + to_input(cases[gidx[i]])[:1500], shard=150)
    # C11 composed with the PANTR loop: Properties_PANTRDIR.v (every direction call of every run of PANTR<NewtonTRDirection> satisfies the
    # guarantees above on its reduced model) + whole runs of the real PANTRSolver<NewtonTRDirection> against PantrDir.v / DirectionsTR.v / Steihaug.v,
    # with THIS oracle (oracle(), Newton-TR branch) on every recorded direction call of the exact-Hessian runs
    from vf.props import PANTRDIR
    PANTRDIR.attach(ctx, scale=0.3, c11_prefix="C11")
