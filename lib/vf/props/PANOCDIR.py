"""PANOCDIR — the SHIPPED PANOC stacks: PANOCSolver<LBFGSDirection | AndersonDirection | NoopDirection | StructuredLBFGSDirection>.
model: coq/theories/Directions.v (the four providers as state machines over Lbfgs.v / LMQR.v / Prox.v) inside coq/theories/PanocDir.v
(the loop of Panoc.v with the provider state threaded through initialize / apply / reset / update / changed_γ);
proof: Properties_PANOCDIR.v — PANOCDIR_refines_oracle_model: every run of PanocDir.panocD, for every provider, is a run of Panoc.panoc
for the direction oracle "j-th apply returned what the provider returned", so every theorem of Properties_PANOC.v holds for the shipped stacks;
correspondence: Corr_PANOCDIR.chkpanocdir — whole runs of the real solver with the real providers (drv_solve, directions lbfgs / anderson /
noop / struclbfgs, accel.* / dir.* options) against the model at binary64: every progress-callback record incl. q and τ, final outputs,
statistics incl. lbfgs_rejected, evaluation / callback counts, provider exceptions;
oracle: the loop invariants of PANOC evaluated directly on the implementation's records (PANOC.oracle) + provider-specific facts."""
import math
from vf.core import *
from vf import solvelib as sl
from vf.props import PANOC

EPS = 2.0 ** -52
INF = float("inf")
DIRS = ["lbfgs", "anderson", "noop", "struclbfgs"]

LBFGS_DEFAULTS = dict(memory=10, min_div_fac=EPS, min_abs_s=EPS * EPS, cbfgs_alpha=1.0, cbfgs_eps=0.0, force_pos_def=True, curvature=True)
ANDERSON_DEFAULTS = dict(memory=10, min_div_fac=100.0 * EPS)
DIR_DEFAULTS = dict(rescale=False, hvf=0.0, fd=True, full_aug=True, use_scaled=False)
ACCEL_KEYS = dict(memory="accel.memory", min_div_fac="accel.min_div_fac", min_abs_s="accel.min_abs_s", cbfgs_alpha="accel.cbfgs.α",
                  cbfgs_eps="accel.cbfgs.ϵ", force_pos_def="accel.force_pos_def")
DIR_KEYS = dict(rescale="dir.rescale_on_step_size_changes", hvf="dir.hessian_vec_factor", fd="dir.hessian_vec_finite_differences",
                full_aug="dir.full_augmented_hessian")


class DirCase:
    """one whole run: problem, start, PANOC parameters P, direction name, accelerator parameters A, direction parameters Dp"""
    def __init__(self, prob, x0, y0, S0, P, always, tol, direction, A, Dp, stop_eval=-1, stop_cb=-1, time0=False, tag="random", solver="panoc", extra=()):
        self.__dict__.update(locals()); del self.__dict__["self"]
        self.stop_dir = -1
        self.script, self.initial = [], False
        params = []
        for k, v in P.items():
            params.append("xcrit=%s" % v if k == "crit" else "%s=%s" % (PANOC.KEYS[k], PANOC.pstr(v)))
        for k, v in A.items():
            if k == "curvature":
                params.append("accel.stepsize=%s" % ("BasedOnCurvature" if v else "BasedOnExternalStepSize"))
            else:
                params.append("%s=%s" % (ACCEL_KEYS[k], PANOC.pstr(v)))
        for k, v in Dp.items():
            if k == "use_scaled":
                params.append("dir.failure_policy=%s" % ("UseScaledLBFGSInput" if v else "FallbackToProjectedGradient"))
            else:
                params.append("%s=%s" % (DIR_KEYS[k], PANOC.pstr(v)))
        params += list(extra)
        self.rq = sl.Request(prob, x0, y0, S0, solver, direction, "inner", params, always=always, tol=tol,
                             max_time_ns=(0 if time0 else -1), stop_at_eval=stop_eval, stop_at_cb=stop_cb)

    def P_(self, k):
        return self.P.get(k, PANOC.DEFAULTS[k])

    def A_(self, k):
        d = ANDERSON_DEFAULTS if self.direction == "anderson" else LBFGS_DEFAULTS
        return self.A.get(k, d[k])

    def D_(self, k):
        return self.Dp.get(k, DIR_DEFAULTS[k])


def coq_lbfgs_params(cs):
    a = cs.A_
    return ("{| Lbfgs.p_memory := %s; Lbfgs.p_min_div_fac := %s; Lbfgs.p_min_abs_s := %s; Lbfgs.p_cbfgs_α := %s; Lbfgs.p_cbfgs_ϵ := %s; "
            "Lbfgs.p_force_pos_def := %s; Lbfgs.p_curvature := %s |}" %
            (coqnat(a("memory")), coqf(a("min_div_fac")), coqf(a("min_abs_s")), coqf(a("cbfgs_alpha")), coqf(a("cbfgs_eps")),
             coqbool(a("force_pos_def")), coqbool(a("curvature"))))

def coq_sel(cs):
    d = cs.direction
    if d == "noop":
        return "SelNoop"
    if d == "lbfgs":
        return "(SelLbfgs %s %s)" % (coq_lbfgs_params(cs), coqbool(cs.D_("rescale")))
    if d == "anderson":
        return "(SelAnderson %s %s %s)" % (coqnat(cs.A_("memory")), coqf(cs.A_("min_div_fac")), coqbool(cs.D_("rescale")))
    return "(SelStruct %s %s %s %s %s)" % (coq_lbfgs_params(cs), coqf(cs.D_("hvf")), coqbool(cs.D_("fd")), coqbool(cs.D_("full_aug")),
                                           coqbool(cs.D_("use_scaled")))

def coq_case(cs, o):
    p = cs.prob
    V, D = sl.V, sl.D
    fuel = cs.P_("max_iter") + 8
    exc = "exc" in o
    if exc:
        ist, fst = [0] * 7, [0.0] * 5
        status, iters, eps, xo, yo, ez = "Busy", 0, 0.0, [], [], []
    else:
        ist = [o["stepsize_backtracks"], o["linesearch_backtracks"], o["linesearch_failures"], o["lbfgs_failures"], o["tau_1_accepted"], o["count_tau"],
               o["lbfgs_rejected"]]
        fst = [D(o, "sum_tau"), D(o, "final_gamma"), D(o, "final_psi"), D(o, "final_h"), D(o, "final_phi")]
        status, iters, eps, xo, yo, ez = o["status"], o["iterations"], D(o, "eps"), V(o, "x_out"), V(o, "y_out"), V(o, "err_z")
    cm = PANOC.coqmat
    return ("(DCase %s %s %s %s %s %s %s %s %s %s %s %s %s %s %s %s %s %s %s %s %s %s %s St%s %s %s %s %s %s %s %s %s %s %s)" %
            (coqnat(p.n), cm(p.Q), coqvec(p.c), coqvec(p.w), cm(p.A), coqvec(p.d), coqvec(p.Clb), coqvec(p.Cub), coqvec(p.Dlb), coqvec(p.Dub),
             coqvec(p.l1), coqvec(cs.x0), coqvec(cs.y0), coqvec(cs.S0), PANOC.coq_params(cs), coq_sel(cs), coqbool(p.hess),
             coqZ(cs.stop_eval), coqZ(cs.stop_cb), coqbool(cs.time0), coqnat(fuel), coqnat(3000), coqbool(exc),
             status, coqnat(iters), coqf(eps), coqvec(xo), coqvec(yo), coqvec(ez),
             coqlist([coqnat(v) for v in ist]), coqvec(fst), coqnat(o["evals"]), coqnat(o["cbs"]),
             coqlist([PANOC.coq_rec(r) for r in o["records"]])))

# ------------------------------------------------------------------ generators
def gen_accel(rng, direction):
    A, Dp = {}, {}
    if direction in ("lbfgs", "struclbfgs"):
        r = rng.random()
        if r < 0.85: A["memory"] = rng.choice([1, 1, 2, 2, 3, 4, 5])
        elif r < 0.88: A["memory"] = 0                               # resize throws
        if rng.random() < (0.2 if direction == "lbfgs" else 0.06):
            A["cbfgs_eps"] = rng.choice([1e-3, 1.0, 1e-6, 0.25])
            A["cbfgs_alpha"] = rng.choice([1.0, 2.0, 0.0, 4.0])
        if rng.random() < 0.2: A["force_pos_def"] = False
        if rng.random() < 0.35: A["curvature"] = False
        if rng.random() < 0.25: A["min_div_fac"] = rng.choice([1e-3, 0.5, 0.0, 0.0625])
        if rng.random() < 0.15: A["min_abs_s"] = rng.choice([1e-6, 0.0, 1e-2])
    if direction == "anderson":
        if rng.random() < 0.85: A["memory"] = rng.choice([1, 1, 2, 2, 3, 4, 5])
        if rng.random() < 0.3: A["min_div_fac"] = rng.choice([1e-3, 0.1, 0.0, 1e-8])
    if direction in ("lbfgs", "anderson") and rng.random() < 0.45:
        Dp["rescale"] = True
    if direction == "struclbfgs":
        if rng.random() < 0.4:
            Dp["hvf"] = rng.choice([1.0, 0.5, 2.0])
            if rng.random() < 0.55: Dp["fd"] = False
            if rng.random() < 0.4: Dp["full_aug"] = False
        if rng.random() < 0.4: Dp["use_scaled"] = True
    return A, Dp

def gen_random(ctx, N, dirs=DIRS):
    rng = ctx.rng
    out = []
    for _ in range(N):
        direction = rng.choice(dirs if dirs is not DIRS else ["lbfgs", "lbfgs", "lbfgs", "anderson", "anderson", "struclbfgs", "struclbfgs", "struclbfgs", "noop"])
        n = rng.choice([1, 2, 2, 3, 3, 4]); m = rng.choice([0, 0, 1, 2, 3])
        prob, kind = sl.gen_problem(rng, rng.choice(["nonconvex", "nonconvex", "qp"]), n=n, m=m)
        if direction == "struclbfgs":
            # active box sides matter: tighter boxes, more often bounded
            prob.Clb, prob.Cub = sl.gen_bounds(rng, n, lo=-2.0, hi=2.0, p_free=0.2, p_one=0.3, p_eq=0.05)
            prob.hess = rng.random() < 0.6
        r = rng.random()
        if r < 0.12: prob.l1 = [rng.choice([0.0, 0.25, 1.0])]
        elif r < 0.2: prob.l1 = [rng.choice([0.0, 0.5, 2.0]) for _ in range(n)]
        P = {"max_iter": rng.choice([1, 2, 3, 5, 8, 12, 15, 20, 25, 25]), "crit": rng.choice(sl.CRITS)}
        if rng.random() < 0.7: P["L_0"] = rng.choice([1e-3, 0.125, 1.0, 16.0, 1e4, 0.03125])
        if rng.random() < 0.2: P["L_max"] = rng.choice([4.0, 64.0, 1e3])
        if rng.random() < 0.1: P["L_min"] = rng.choice([1.0, 1e-2])
        if rng.random() < 0.2: P["Lgamma"] = rng.choice([0.5, 0.99, 0.25])
        if rng.random() < 0.2: P["beta"] = rng.choice([0.5, 0.99, 0.1])
        if rng.random() < 0.2: P["tau_min"] = rng.choice([0.25, 0.0078125, 0.5, 0.3])
        if rng.random() < 0.2: P["tau_factor"] = rng.choice([0.25, 0.75, 0.5])
        if rng.random() < 0.3: P["upd"] = True
        if rng.random() < 0.15: P["recompute"] = True
        if rng.random() < 0.2: P["eager"] = True
        if rng.random() < 0.08: P["force"] = True
        if rng.random() < 0.15: P["max_no_progress"] = rng.choice([0, 1, 2, 3])
        if rng.random() < 0.1: P["qub_tol"] = rng.choice([0.0, 1e-3])
        if rng.random() < 0.1: P["ls_tol"] = rng.choice([0.0, 1e-3])
        A, Dp = gen_accel(rng, direction)
        if direction == "struclbfgs" and Dp.get("hvf", 0.0) != 0.0 and not Dp.get("fd", True):
            prob.hess = rng.random() < 0.85            # exact Hessian-vector members (without them initialize throws)
        x0 = rng.vec(n, 2.0)
        y0 = rng.vec(m, 1.0); S0 = [rng.choice([0.5, 1.0, 4.0, 10.0]) for _ in range(m)]
        tag = direction
        if rng.random() < 0.04:
            # non-finite values: a huge start makes the quartic / the first step overflow (the model must follow the NaN / inf paths)
            x0 = [t * rng.choice([1e80, 1e160]) for t in x0]; tag = direction + "/huge"
        kw = {}
        r = rng.random()
        hv = Dp.get("hvf", 0.0) != 0.0
        if r < 0.12 and not hv: kw["stop_eval"] = rng.randint(0, 80)
        elif r < 0.2: kw["stop_cb"] = rng.randint(0, 8)
        elif r < 0.23: kw["time0"] = True
        out.append(DirCase(prob, x0, y0, S0, P, rng.random() < 0.6, rng.choice([1e-1, 1e-3, 1e-6, 1e-10, 0.0]), direction, A, Dp, tag=tag, **kw))
    return out

def gen_gamma_changes(ctx, N):
    """runs in which the step size changes in the middle (changed_γ: reset / rescale of the provider's history): quartic curvature that grows
    along the path (start near the origin, large linear term), Lipschitz estimate taken at the start; and runs in which an accelerated
    candidate fails outright (L reaches a small L_max in the candidate, or ψ overflows there): direction.reset() inside the line search"""
    rng = ctx.rng
    out = []
    for i in range(N):
        direction = rng.choice(["lbfgs", "lbfgs", "anderson", "anderson", "struclbfgs"])
        n = rng.choice([1, 2, 2, 3, 4]); m = rng.choice([0, 0, 0, 1, 2])
        prob, kind = sl.gen_problem(rng, "nonconvex", n=n, m=m)
        prob.c = [t * rng.choice([4.0, 8.0, 16.0]) for t in prob.c]
        prob.w = [rng.choice([1.0, 2.0, 4.0]) for _ in range(n)]
        if rng.random() < 0.6:
            prob.Clb, prob.Cub = [-INF] * n, [INF] * n
        P = {"max_iter": rng.choice([10, 15, 20, 25]), "crit": rng.choice(sl.CRITS)}
        lsfail = i % 3 == 2
        if lsfail:
            # small L_max: a candidate that needs one more doubling than the current iterate fails; or huge steps (tiny min_div_fac, Lγ close to 1)
            P["L_0"] = rng.choice([0.5, 1.0, 2.0]); P["L_max"] = P["L_0"] * rng.choice([2.0, 4.0, 8.0])
        elif rng.random() < 0.5:
            P["L_0"] = rng.choice([0.25, 1.0, 4.0])
        if rng.random() < 0.3: P["upd"] = True
        if rng.random() < 0.3: P["recompute"] = True
        if rng.random() < 0.15: P["eager"] = True
        if rng.random() < 0.2: P["tau_min"] = rng.choice([0.25, 0.5])
        A, Dp = gen_accel(rng, direction)
        A.pop("cbfgs_eps", None); A.pop("cbfgs_alpha", None)
        if A.get("memory", 1) == 0: A["memory"] = 2
        x0 = rng.vec(n, 0.05)
        y0 = rng.vec(m, 1.0); S0 = [rng.choice([0.5, 1.0, 4.0]) for _ in range(m)]
        out.append(DirCase(prob, x0, y0, S0, P, True, rng.choice([1e-6, 1e-10, 0.0]), direction, A, Dp, tag=direction + ("/lsfail" if lsfail else "/gamma")))
    return out

def gen_dyadic(ctx):
    """exactly representable data: boxes that become active exactly on a bound (StructuredLBFGS index sets on ties), γ changes by exact halving"""
    rng = ctx.rng
    out = []
    for direction in DIRS:
        for x0 in ([1.0, -2.0], [0.5, 3.0], [-1.0, 0.25]):
            for L0 in (0.25, 1.0, 4.0):
                Q = [[2.0, 0.5], [0.5, 1.0]]
                prob = sl.Problem(2, 0, Q, [1.0, -1.0], [0.0, 0.0], [], [], [-1.0, -INF], [2.0, 1.0], [], [])
                P = {"max_iter": 6, "crit": "ProjGradNorm", "L_0": L0, "Lgamma": 0.5, "qub_tol": 0.0, "ls_tol": 0.0}
                A = {"memory": rng.choice([1, 2, 3])} if direction != "noop" else {}
                Dp = {"rescale": rng.random() < 0.5} if direction in ("lbfgs", "anderson") else {}
                out.append(DirCase(prob, x0, [], [], P, True, 0.0, direction, A, Dp, tag=direction + "/dyadic"))
    return out

# ------------------------------------------------------------------ oracle on the implementation's outputs (no Coq model involved)
def oracle(cs, o):
    bad = []
    if "exc" in o:
        # the only exceptions a shipped provider may raise on this problem family
        msg = o["exc"]
        ok = (("memory must be >= 1" in msg and cs.A_("memory") < 1) or
              ("CBFGS check not supported" in msg and cs.direction == "struclbfgs" and cs.A_("cbfgs_eps") > 0) or
              ("Structured L-BFGS requires" in msg and cs.direction == "struclbfgs" and cs.D_("hvf") != 0 and not cs.D_("fd") and not cs.prob.hess))
        if not ok:
            bad.append(("PANOCDIR:unexpected-exception:" + cs.direction, "exception %r with accel=%r dir=%r" % (msg, cs.A, cs.Dp)))
        return bad
    bad += PANOC.oracle(cs, o)
    V, D = sl.V, sl.D
    recs = o["records"]
    # provider-specific facts visible in the records
    for r in recs:
        if r["status"] != "Busy":
            continue
        tau = D(r, "tau")
        if cs.direction == "noop" and tau != 0:
            bad.append(("PANOCDIR:noop-accelerated", "k=%d: tau=%r with NoopDirection" % (r["k"], tau)))
        if r["k"] == 0 and tau != 0:
            bad.append(("PANOCDIR:accelerated-step-without-history", "k=0: tau=%r (no provider has an initial direction)" % tau))
    if cs.direction == "noop" and o["lbfgs_rejected"] != 0:
        bad.append(("PANOCDIR:noop-rejected", "lbfgs_rejected=%d although NoopDirection::update always returns true" % o["lbfgs_rejected"]))
    if cs.direction == "anderson" and o["lbfgs_rejected"] != 0:
        bad.append(("PANOCDIR:anderson-rejected", "lbfgs_rejected=%d although AndersonDirection::update always returns true" % o["lbfgs_rejected"]))
    if cs.direction == "struclbfgs" and o["lbfgs_rejected"] != 0:
        bad.append(("PANOCDIR:struclbfgs-rejected", "lbfgs_rejected=%d although the update is forced" % o["lbfgs_rejected"]))
    return bad

def near_tie(cs, o, rel=2.0 ** -51):
    """decisions visible in the records that are within `rel` (2 ulp) of a tie.  PANOC.near_tie uses 1e-9, which classifies every converging
    run as a QUB tie (ψ̂ − rhs = O(‖p‖²) − margin, margin = 10 ε (1 + |ψ|)); the provider models follow the C++ operation order, runs agree
    bit for bit, so only last-bit ties could differ"""
    V, D = sl.V, sl.D
    P = cs.P_
    tol = cs.tol if cs.tol > 0 else 1e-8
    recs = o.get("records", [])
    for r in recs:
        e = D(r, "eps")
        if math.isfinite(e) and abs(e - tol) <= rel * max(abs(e), tol):
            return "eps~tol"
        psi, psih, L, pp = D(r, "psi"), D(r, "psih"), D(r, "L"), D(r, "nsqp")
        gp = sum(a * b for a, b in zip(V(r, "grad"), V(r, "p")))
        rhs = psi + gp + 0.5 * L * pp + (1 + abs(psi)) * P("qub_tol")
        if all(math.isfinite(t) for t in (psih, rhs)) and pp > 0 and abs(psih - rhs) <= rel * (abs(psi) + abs(gp) + L * pp + abs(psih) + 1e-300):
            return "qub"
    for a, b in zip(recs, recs[1:]):
        g, L, phi, pp, phi2 = D(a, "gamma"), D(a, "L"), D(a, "phi"), D(a, "nsqp"), D(b, "phi")
        if not all(math.isfinite(t) for t in (g, L, phi, pp, phi2)) or g == 0 or pp == 0: continue
        bound = phi - P("beta") * (1 - g * L) / (2 * g) * pp + (1 + abs(phi)) * P("ls_tol")
        if abs(phi2 - bound) <= rel * (abs(phi) + abs(phi2) + 1e-300):
            return "ls"
    return None

def signature(cs, o):
    recs = o["records"]
    cls = set()
    for i, r in enumerate(recs[:-1]):
        tau = sl.D(r, "tau")
        cls.add("t1" if tau == 1 else "tp" if tau > 0 else "t0")
        if sl.D(recs[i + 1], "gamma") < sl.D(r, "gamma"): cls.add("h")
        if sl.D(r, "L") >= cs.P_("L_max"): cls.add("M")
    flags = "".join(k[0] for k in ("eager", "recompute", "upd", "force") if cs.P_(k))
    dflags = ""
    if cs.direction != "noop":
        dflags += "m%d" % min(cs.A_("memory"), 6)
    if cs.direction in ("lbfgs", "struclbfgs"):
        dflags += ("c" if cs.A_("cbfgs_eps") > 0 else "") + ("" if cs.A_("curvature") else "x") + ("" if cs.A_("force_pos_def") else "n")
    if cs.direction in ("lbfgs", "anderson") and cs.D_("rescale"): dflags += "r"
    if cs.direction == "struclbfgs":
        dflags += ("H" + ("f" if cs.D_("fd") else "e") + ("a" if cs.D_("full_aug") else "l") if cs.D_("hvf") != 0 else "") + ("s" if cs.D_("use_scaled") else "")
    stopk = "E" if cs.stop_eval >= 0 else "C" if cs.stop_cb >= 0 else "T" if cs.time0 else "-"
    return "%s/%s/%s/%d/%s/%s/%s" % (cs.direction, dflags, o.get("status", "exc"), min(len(recs), 6), "".join(sorted(cls)), flags, stopk)

# ------------------------------------------------------------------ run
REQUIRES = "Prox SolverStatus SolverKernels AugLag Lbfgs LMQR Panoc Corr_PANOC Directions PanocDir Corr_PANOCDIR"

def run(ctx):
    ctx.coverage["rule"] = ("whole runs of the real PANOCSolver with the four shipped direction providers (LBFGSDirection, AndersonDirection, NoopDirection, "
                            "StructuredLBFGSDirection) on the drv_solve problem family (n<=4, m<=3, boxes C and D, optional l1), max_iter<=25, all 10 stopping criteria, "
                            "L_0 variations so that the step size changes (changed_γ: reset / rescale), memory 0..5 and 10, CBFGS on/off, force_pos_def, both L-BFGS "
                            "step-size policies, min_div_fac / min_abs_s variations, rescale_on_step_size_changes, Anderson min_div_fac, structured L-BFGS with / without "
                            "the Hessian-vector term (finite differences, eval_hess_L_prod, eval_hess_ψ_prod) and both failure policies, update_direction_in_candidate, "
                            "eager / recompute / force flags, stop() injected at evaluation / callback indices, max_time=0, overflowing starts; one evaluation = one "
                            "whole run compared record by record (x, x̂, p, q, τ, γ, L, ε, φγ, ψ, ∇ψ, ψ̂, ŷ) with PanocDir.panocD at binary64; distinct = (provider, provider "
                            "options class, status, #records, branch classes of the run)")
    ctx.assumptions += ["theorems over ideal reals (binary64 rounding is covered by the whole-run correspondence only)",
                        "problem functions, stop flag and clock are arbitrary oracles in the theorems; the direction provider is an arbitrary state machine (dirops) in the refinement theorem",
                        "std::pow (CBFGS) and std::cbrt(eps) are parameters of the provider models",
                        "Eigen storage that is never read before it is written (Q, R, G of AndersonAccel, the L-BFGS buffer after resize) is modelled as zeros"]
    check_properties(ctx, "PANOCDIR")
    run_corr(ctx, "PANOCDIR", 1.0)

def attach(ctx, scale=0.3, extra_oracle=None):
    """re-check Properties_PANOCDIR.v (refinement of the oracle model by every provider) and run the whole-run correspondence of the shipped
    stacks; `extra_oracle(cs, o)` is the calling property's own predicate on each run (violations get the caller's signatures)"""
    check_properties(ctx, "PANOCDIR")
    ctx.assumptions.append("PANOC with the shipped direction providers (PanocDir.v / Directions.v, Properties_PANOCDIR.v) attached: whole runs of "
                           "PANOCSolver<LBFGS|Anderson|Noop|StructuredLBFGS Direction> must coincide with the model at binary64")
    run_corr(ctx, ctx.pid, scale, extra_oracle)

FLAVOR = dict(name="PANOCDIR", solver="PANOCSolver", model="PanocDir.panocD", files="PanocDir.v + Directions.v", requires=REQUIRES, casetype="dcase",
              chk="chkpanocdir", dump="modelpanocdir", conv=(lambda ctx, cs: cs), term=coq_case, key="panocdir")

def run_corr(ctx, prefix, scale, extra_oracle=None, F=FLAVOR):
    if not build_driver(ctx, "solve"): return
    NAME, key = F["name"], F["key"]
    cases = gen_dyadic(ctx) + gen_gamma_changes(ctx, max(20, int(scale * ctx.n(150, 1200)))) + gen_random(ctx, max(40, int(scale * ctx.n(300, 3000))))
    cases = [F["conv"](ctx, c) for c in cases]
    outs = run_driver(ctx, "solve", [c.rq.to_input() for c in cases], timeout=1500)
    if outs is None or len(outs) != len(cases):
        ctx.broke("correspondence", "drv_solve", "driver produced %s results for %d runs rc=%s %s" % (None if outs is None else len(outs), len(cases), getattr(ctx, "driver_rc", "?"), getattr(ctx, "driver_err", "")))
        return
    terms, owners = [], []
    for cs, o in zip(cases, outs):
        ctx.count(cs.tag)
        rep = {"driver": "drv_solve", "input": cs.rq.to_input(), "request": cs.rq.describe(), "impl_output": {k: v for k, v in o.items() if k != "records"},
               "final_record": o["records"][-1] if o["records"] else None}
        if extra_oracle is not None and "exc" not in o:
            for sig, msg in extra_oracle(cs, o):
                ctx.violation(sig, msg, dict(rep, why=msg))
        for sig, msg in oracle(cs, o):
            if prefix != NAME:
                sig = sig.replace("PANOCDIR:", prefix + ":%s-model:" % key).replace("PANOC:", prefix + ":%s-model:" % key)
            elif NAME != "PANOCDIR":
                sig = sig.replace("PANOCDIR:", NAME + ":").replace("PANOC:", NAME + ":")
            ctx.violation(sig, msg, dict(rep, why=msg))
        ctx.case(signature(cs, o), sample=({"request": cs.rq.describe(), "status": o.get("status"), "iterations": o.get("iterations"), "records": len(o["records"])}
                                          if len(o["records"]) > 3 else None))
        ctx.count("status/" + o.get("status", "exception"))
        if F.get("observe"): F["observe"](ctx, cs, o)
        recs = o["records"]
        if any(sl.D(b, "gamma") < sl.D(a, "gamma") for a, b in zip(recs, recs[1:])) and cs.direction != "noop":
            ctx.count("runs-with-step-size-change-after-k=0/" + cs.direction + ("+rescale" if cs.direction in ("lbfgs", "anderson") and cs.D_("rescale") else ""))
        if any(sl.D(r, "tau") > 0 for r in recs if r["status"] == "Busy"):
            ctx.count("runs-with-accepted-accelerated-step/" + cs.direction)
        if "exc" not in o and o["lbfgs_rejected"] > 0:
            ctx.count("runs-with-rejected-update/" + cs.direction)
        terms.append(F["term"](cs, o)); owners.append((cs, o))
    failing = coq_failing_cases(ctx, key + "run", F["requires"], F["casetype"], F["chk"], terms, shard=ctx.n(10, 50), dump=F["dump"])
    ctx.coverage[key + "_whole_run_cases"] = len(terms)
    if failing is None:
        return
    real, ties = [], 0
    for i in failing:
        cs, o = owners[i]
        t = None if cs.tag.endswith("/dyadic") or "exc" in o else near_tie(cs, o)
        if t:
            ties += 1; ctx.count("discarded-near-tie/" + t)
        else:
            real.append(i)
    ctx.coverage[key + "_whole_run_disagreements"] = len(real)
    ctx.coverage[key + "_disagreements_by_provider"] = {d: sum(1 for i in real if owners[i][0].direction == d) for d in DIRS}
    ctx.coverage[key + "_discarded_near_ties"] = ties
    ctx.log("%s whole runs: %d cases, %d disagreements %s, %d near ties discarded" %
            (NAME, len(terms), len(real), ctx.coverage[key + "_disagreements_by_provider"], ties))
    if real:
        cs, o = owners[real[0]]
        sig = ((NAME + ":") if prefix == NAME else "%s:%s-" % (prefix, key)) + "run-differs-from-model:" + cs.direction
        if prefix == NAME:
            ctx.violation(sig, "whole run of %s<%s> differs from the model %s (first of %d disagreeing runs; status=%s iterations=%s)" %
                          (F["solver"], cs.direction, F["model"], len(real), o.get("status"), o.get("iterations")),
                          {"driver": "drv_solve", "input": cs.rq.to_input(), "request": cs.rq.describe(), "impl_output": {k: v for k, v in o.items() if k != "records"},
                           "model_dump": getattr(ctx, "last_dump", "")[-3000:], "why": "model (Coq, binary64) and implementation disagree on this run"})
        ctx.broke("correspondence", "%s (whole run) vs %s<%s> in drv_solve" % (F["files"], F["solver"], cs.direction),
                  json.dumps({"n_disagreements": len(real), "by_provider": ctx.coverage[key + "_disagreements_by_provider"],
                              "first_disagreeing_request": cs.rq.describe(), "driver_input": cs.rq.to_input(),
                              "impl": {k: v for k, v in o.items() if k != "records"}, "impl_records": len(o["records"]),
                              "model_dump": getattr(ctx, "last_dump", "")[-1500:]}))
