"""C02 (partial) — on well-posed convex problems every solver stack converges to the minimiser.
proof: Properties_C02.v — the distance bound  mu |x-x*|^2 <= eps |x-x*|_1 + delta |y-y*|_1  for approximate KKT pairs of strongly convex QPs;
       + LIVENESS of PANOC / ZeroFPR stand-alone (whole-loop models, every direction oracle AND the shipped stateful providers LBFGS / Anderson / Noop /
         StructuredLBFGS inside the loop, tolerance factors 0, criteria ProjGradNorm[2] / FPRNorm[2] / ApproxKKT): Converged in < N iterations, N explicit;
exploration (carries the liveness half for the stacks where it is NOT proved — ALM, PANTR, FISTA, positive tolerance factors —): every shipped stack on generated strongly convex QPs with a strictly feasible
linear constraint set must return Converged within generous limits and meet the bound against (x*, y*) from an independent active-set solve."""
import math, itertools
from fractions import Fraction
from vf.core import *
from vf import solvelib as sl

INF = float("inf")

# ------------------------------------------------------------------ independent reference: active-set solve + KKT verification
def solve_lin(M, b):
    """Gaussian elimination with partial pivoting; returns None if singular"""
    n = len(b)
    A = [row[:] + [b[i]] for i, row in enumerate(M)]
    for c in range(n):
        piv = max(range(c, n), key=lambda r: abs(A[r][c]))
        if abs(A[piv][c]) < 1e-13:
            return None
        A[c], A[piv] = A[piv], A[c]
        for r in range(c + 1, n):
            f = A[r][c] / A[c][c]
            if f != 0.0:
                for k in range(c, n + 1):
                    A[r][k] -= f * A[c][k]
    x = [0.0] * n
    for r in range(n - 1, -1, -1):
        x[r] = (A[r][n] - sum(A[r][k] * x[k] for k in range(r + 1, n))) / A[r][r]
    return x

def kkt_solve(p, actC, actD):
    """actC[i] in {0,-1,+1} (free / at lb / at ub), actD[j] likewise. Solve the equality-constrained QP, return (x, y, w) or None"""
    n, m = p.n, p.m
    eqs = []   # rows (vector a, rhs) : a.x = rhs
    for i in range(n):
        if actC[i]:
            a = [0.0] * n; a[i] = 1.0
            eqs.append(("C", i, a, p.Clb[i] if actC[i] < 0 else p.Cub[i]))
    for j in range(m):
        if actD[j]:
            eqs.append(("D", j, p.A[j][:], p.Dlb[j] if actD[j] < 0 else p.Dub[j]))
    k = len(eqs)
    M = [[0.0] * (n + k) for _ in range(n + k)]
    rhs = [0.0] * (n + k)
    for i in range(n):
        for t in range(n):
            M[i][t] = p.Q[i][t]
        rhs[i] = -p.c[i]
    for e, (_, _, a, b) in enumerate(eqs):
        for t in range(n):
            M[n + e][t] = a[t]; M[t][n + e] = a[t]
        rhs[n + e] = b
    sol = solve_lin(M, rhs)
    if sol is None:
        return None
    x = sol[:n]
    y = [0.0] * m; w = [0.0] * n
    for e, (kind, idx, _, _) in enumerate(eqs):
        if kind == "C": w[idx] = sol[n + e]
        else: y[idx] = sol[n + e]
    return x, y, w

def kkt_verify(p, x, y, w, tol=1e-8):
    n, m = p.n, p.m
    g = p.g(x)
    for i in range(n):
        if not (p.Clb[i] - tol <= x[i] <= p.Cub[i] + tol): return False
        if w[i] > tol and not (math.isfinite(p.Cub[i]) and abs(x[i] - p.Cub[i]) <= tol): return False
        if w[i] < -tol and not (math.isfinite(p.Clb[i]) and abs(x[i] - p.Clb[i]) <= tol): return False
    for j in range(m):
        if not (p.Dlb[j] - tol <= g[j] <= p.Dub[j] + tol): return False
        if y[j] > tol and not (math.isfinite(p.Dub[j]) and abs(g[j] - p.Dub[j]) <= tol): return False
        if y[j] < -tol and not (math.isfinite(p.Dlb[j]) and abs(g[j] - p.Dlb[j]) <= tol): return False
    gl = [a + b + c for a, b, c in zip(p.grad_f(x), p.grad_g_prod(x, y) if m else [0.0] * n, w)]
    return all(abs(t) <= tol * (1 + max(abs(v) for v in p.c + [1.0])) for t in gl)

def reference(p, guesses):
    """try the guessed active sets first, then enumerate (small sizes)"""
    def cands():
        for g in guesses:
            yield g
        dom_c = [[0] + ([-1] if math.isfinite(p.Clb[i]) else []) + ([1] if math.isfinite(p.Cub[i]) and p.Cub[i] != p.Clb[i] else []) for i in range(p.n)]
        dom_d = [[0] + ([-1] if math.isfinite(p.Dlb[j]) else []) + ([1] if math.isfinite(p.Dub[j]) and p.Dub[j] != p.Dlb[j] else []) for j in range(p.m)]
        total = 1
        for d in dom_c + dom_d: total *= len(d)
        if total <= 20000:
            for combo in itertools.product(*(dom_c + dom_d)):
                yield list(combo[:p.n]), list(combo[p.n:])
    seen = set()
    for ac, ad in cands():
        key = (tuple(ac), tuple(ad))
        if key in seen: continue
        seen.add(key)
        r = kkt_solve(p, ac, ad)
        if r and kkt_verify(p, *r):
            return r
    return None

# ------------------------------------------------------------------ generation
def gen_qp(rng, n, m, cond_cap=50.0):
    """strongly convex QP, condition number <= cond_cap, strictly feasible linear constraints"""
    mu = 1.0
    # Q = mu I + sum_k lam_k v_k v_k'  with few directions -> eigenvalues in [mu, mu + sum lam]
    Q = [[(mu if i == j else 0.0) for j in range(n)] for i in range(n)]
    budget = cond_cap * mu - mu
    for _ in range(min(n, 3)):
        v = [rng.dyadic(-1, 1, 2) for _ in range(n)]
        nv = sum(t * t for t in v)
        if nv == 0: continue
        lam = rng.choice([0.5, 2.0, 8.0])
        lam = min(lam, budget / 3 / nv * 1.0) if nv else lam
        for i in range(n):
            for j in range(n):
                Q[i][j] += lam * v[i] * v[j]
    c = [rng.dyadic(-4, 4, 2) for _ in range(n)]
    xf = [rng.dyadic(-1, 1, 2) for _ in range(n)]          # strictly feasible point
    Clb, Cub = [], []
    for i in range(n):
        r = rng.random()
        if r < 0.4: Clb.append(-INF); Cub.append(INF)
        elif r < 0.6: Clb.append(xf[i] - rng.choice([0.25, 1.0])); Cub.append(INF)
        elif r < 0.8: Clb.append(-INF); Cub.append(xf[i] + rng.choice([0.25, 1.0]))
        else: Clb.append(xf[i] - rng.choice([0.25, 1.0])); Cub.append(xf[i] + rng.choice([0.25, 1.0]))
    A = [[rng.dyadic(-2, 2, 2) for _ in range(n)] for _ in range(m)]
    # keep rows linearly independent-ish: add a unit entry
    for j in range(m): A[j][j % n] += 2.0
    Dlb, Dub = [], []
    n_eq = 0
    for j in range(m):
        axf = sum(A[j][i] * xf[i] for i in range(n))
        r = rng.random()
        if r < 0.25 and n_eq < max(0, n - 1):
            Dlb.append(axf); Dub.append(axf); n_eq += 1            # equality row through the feasible point
        elif r < 0.5: Dlb.append(axf - rng.choice([0.5, 1.0])); Dub.append(axf + rng.choice([0.5, 2.0]))
        elif r < 0.75: Dlb.append(-INF); Dub.append(axf + rng.choice([0.25, 1.0]))
        else: Dlb.append(axf - rng.choice([0.25, 1.0])); Dub.append(INF)
    return sl.Problem(n, m, Q, c, [0.0] * n, A, [0.0] * m, Clb, Cub, Dlb, Dub), mu

def run(ctx):
    ctx.coverage["rule"] = ("strongly convex QPs (mu = 1, condition number <= 50, n in 1..8, m in 0..5, equality / range / one-sided rows through a strictly feasible point, finite and infinite variable bounds, "
                            "infeasible starting points); every shipped stack with default solver parameters and generous limits (inner max_iter 20000, FISTA 200000, ALM max_iter 200); reference (x*, y*) from an independent "
                            "active-set solve verified by its KKT conditions; distinct = (stack, mode, m>0, degenerate?) signature")
    ctx.assumptions += ["PARTIAL: the liveness clause ('does return Converged within the limits') is proved for the whole-loop models of PANOC and ZeroFPR stand-alone over R "
                        "(every direction oracle, and the shipped provider models LBFGS / Anderson / Noop / StructuredLBFGS inside the loop: C02_panoc_{lbfgs,anderson,noop,struclbfgs}_returns_converged, "
                        "C02_zerofpr_{...}_returns_converged, generic C02_panocdir_/C02_zerofprdir_returns_converged[_ApproxKKT]; QUB / line-search tolerance factors 0, box constraints); for ALM, PANTR, FISTA and the "
                        "default positive tolerance factors it is explored on the implementation only",
                        "liveness-regime runs (panoc / zerofpr inner, m = 0, tolerance factors 0, L_0 = 1, ProjGradNorm, tol 1e-3): the proved iteration bound N is evaluated in binary64 from "
                        "(phi_gammamin(x0) - psi(x*)) / (beta (1-Lgamma)/(2 gamma0) delta^2) with Lf := ||Q||_F, delta = tol (ProjGradNorm) resp. tol / (1/gamma_min + Lg), Lg := ||Q||_F (ApproxKKT); "
                        "a NoProgress outcome under the gamma-scaled criterion AT a fixed point (|p| <= 1e-9) is a binary64 artefact of tolerance factor 0 (rounding decides the QUB test, gamma collapses) and is counted, not flagged; "
                        "this N is the one of the theorems for the shipped providers (same Dec / DecK and PHI0 as the oracle-level theorems); the bound is a worst-case one (typically >> the observed counts)",
                        "the distance bound is proved for approximate KKT pairs (what Converged certifies by C01); mu is the construction's lower bound of the smallest eigenvalue",
                        "reference solution: Python active-set enumeration + Gaussian elimination in binary64, accepted only if its KKT residuals are < 1e-8"]
    ctx.level = "proof"
    check_properties(ctx)
    if not build_driver(ctx, "solve"): return
    rng = ctx.rng
    reqs, meta = [], []
    nprob = ctx.n(40, 300)
    for k in range(nprob):
        n = rng.choice([1, 2, 3, 4, 6, 8]); m = rng.choice([0, 1, 2, 3, 5])
        m = min(m, n + 1)
        prob, mu = gen_qp(rng, n, m)
        x0 = [rng.choice([-3.0, 3.0, 0.0, 10.0]) + rng.dyadic(-1, 1, 2) for _ in range(n)]   # usually infeasible
        if k % 5 == 4:
            # start with an exactly zero gradient that is NOT the minimiser: box-constrained problem whose unconstrained minimiser x0
            # (c := -Q x0, so grad f(x0) = 0 exactly) lies outside the variable bounds
            prob, mu = gen_qp(rng, n, 0)
            m = 0
            x0 = [rng.dyadic(-2, 2, 2) for _ in range(n)]
            prob.c = [-sum(prob.Q[i][j] * x0[j] for j in range(n)) for i in range(n)]
            prob.Clb[0], prob.Cub[0] = x0[0] + 0.5, x0[0] + 2.0
        elif k % 5 == 3:
            # some gradient components exactly zero at the start
            for i in range(0, n, 2):
                prob.c[i] = -sum(prob.Q[i][j] * x0[j] for j in range(n))
        for solver, direction in sl.STACKS:
            modes = ["alm"] if m > 0 else ["alm", "inner"]
            for mode in modes:
                tol = 1e-6
                params = ["solver.max_iter=%d" % (200000 if solver == "fista" else 20000), "alm.max_iter=200",
                          "alm.tolerance=1e-6", "alm.dual_tolerance=1e-6", "solver.max_time=1h", "alm.max_time=1h"]
                if solver == "pantr": params.append("dir.finite_diff=true")
                prob.prov = 0
                if rng.random() < 0.25: prob.prov = rng.choice([0x80, 0x20, 0x40, 0x10, 0xa0, 0xfe, 0x0e, rng.randrange(0, 256) & 0xfe])   # provider mix (supplied members poison the work buffers)
                reqs.append(sl.Request(prob, x0, [0.0] * m, [1.0] * m, solver, direction, mode, params, tol=tol, rec_limit=0))
                meta.append((k, prob, mu, solver, direction, mode))
    outs = run_driver(ctx, "solve", [r.to_input() for r in reqs], timeout=3000)
    if outs is None or len(outs) != len(reqs):
        ctx.broke("correspondence", "drv_solve", "driver produced %s results for %d runs rc=%s %s" % (None if outs is None else len(outs), len(reqs), getattr(ctx, "driver_rc", "?"), getattr(ctx, "driver_err", "")))
        return
    refs = {}
    for rq, (k, prob, mu, solver, direction, mode), o in zip(reqs, meta, outs):
        stack = "%s.%s" % (solver, direction)
        ctx.count(stack)
        if "exc" in o:
            ctx.violation("C02:exception:" + stack, "solver threw: " + o["exc"], {"driver": "drv_solve", "input": rq.to_input(), "request": rq.describe()})
            continue
        info = {"driver": "drv_solve", "input": rq.to_input(), "request": rq.describe(), "impl_output": {a: b for a, b in o.items() if a != "records"}}
        if o["status"] != "Converged":
            ctx.case("%s/%s/notconverged" % (stack, mode))
            ctx.violation("C02:not-converged:%s:%s" % (stack, mode), "status %s on a strongly convex, strictly feasible QP (n=%d, m=%d) within generous limits" % (o["status"], prob.n, prob.m), info)
            continue
        x, y = sl.V(o, "x_out"), sl.V(o, "y_out")
        if k not in refs:
            # active-set guess from this answer
            ac = [(-1 if math.isfinite(prob.Clb[i]) and abs(x[i] - prob.Clb[i]) < 1e-5 else 1 if math.isfinite(prob.Cub[i]) and abs(x[i] - prob.Cub[i]) < 1e-5 else 0) for i in range(prob.n)]
            g = prob.g(x)
            ad = [(-1 if math.isfinite(prob.Dlb[j]) and abs(g[j] - prob.Dlb[j]) < 1e-4 and (y[j] < 0 or prob.Dlb[j] == prob.Dub[j]) else
                   1 if math.isfinite(prob.Dub[j]) and abs(g[j] - prob.Dub[j]) < 1e-4 else 0) for j in range(prob.m)]
            refs[k] = reference(prob, [(ac, ad)])
            if refs[k] is None:
                ctx.count("reference-not-found")
        ref = refs[k]
        if ref is None:
            ctx.case(None); continue
        xs, ys, ws = ref
        eps = 1e-6; delta = 1e-6 if mode != "inner" else 0.0
        dx = [a - b for a, b in zip(x, xs)]; dy = [a - b for a, b in zip(y, ys)]
        lhs = mu * sum(t * t for t in dx)
        rhs = eps * sl.norm1(dx) + delta * sl.norm1(dy)
        degenerate = any(abs(t) < 1e-9 for j, t in enumerate(ys) if prob.Dlb[j] != -INF or prob.Dub[j] != INF and abs(prob.g(xs)[j] - (prob.Dub[j] if math.isfinite(prob.Dub[j]) else prob.Dlb[j])) < 1e-9) if prob.m else False
        ctx.case("%s/%s/m%d/%s" % (stack, mode, 1 if prob.m else 0, "deg" if degenerate else "nd"),
                 sample={"request": rq.describe(), "x": x, "x_ref": xs, "y": y, "y_ref": ys, "lhs": lhs, "rhs": rhs} if len(ctx.coverage["samples"]) < 3 and prob.m else None)
        slack = 1e-12 + 1e-9 * rhs + 1e-16 * (1 + sum(t * t for t in xs))
        if lhs > rhs + slack:
            ctx.violation("C02:distance-bound:%s:%s" % (stack, mode), "mu|x-x*|^2 = %r > eps|x-x*|_1 + delta|y-y*|_1 = %r" % (lhs, rhs), dict(info, x_ref=xs, y_ref=ys))
    # ---------------- liveness regime of C02_panoc_returns_converged / C02_zerofpr_returns_converged on the real solvers
    # box-constrained members of the family, QUB / line-search tolerance factors 0, L_0 = 1 > 0, criterion ProjGradNorm, tolerance 1e-3:
    # the theorems (over R) say: Converged after fewer than N iterations, never NoProgress / NotFinite; every direction provider.
    Lgam, beta, L0, ltol = 0.95, 0.95, 1.0, 1e-3
    lreqs, lmeta = [], []
    seen = set()
    for (k, prob, mu, solver, direction, mode) in meta:
        if prob.m != 0 or k in seen: continue
        seen.add(k)
        x0 = next(rq.x0 for rq, mt in zip(reqs, meta) if mt[0] == k)
        for solver2 in ("panoc", "zerofpr"):
            for d in sl.PANOC_DIRS:
                for crit in ("ProjGradNorm", "ApproxKKT"):
                    params = ["solver.max_iter=20000", "solver.max_time=1h", "solver.quadratic_upperbound_tolerance_factor=0",
                              "solver.linesearch_tolerance_factor=0", "solver.Lipschitz.L_0=1", "xcrit=" + crit]
                    lreqs.append(sl.Request(prob, x0, [], [], solver2, d, "inner", params, tol=ltol, rec_limit=0))
                    lmeta.append((k, prob, solver2, d, crit))
    louts = run_driver(ctx, "solve", [r.to_input() for r in lreqs], timeout=1500) if lreqs else []
    if louts is None or len(louts) != len(lreqs):
        ctx.broke("correspondence", "drv_solve", "liveness-regime runs: driver produced %s results for %d runs" % (None if louts is None else len(louts), len(lreqs)))
        louts = []
    nmax_seen, ratio_min = 0, None
    for rq, (k, prob, solver2, d, crit), o in zip(lreqs, lmeta, louts):
        stack = "%s.%s" % (solver2, d) + ("" if crit == "ProjGradNorm" else ":" + crit)
        ctx.count("live:" + stack)
        info = {"driver": "drv_solve", "input": rq.to_input(), "request": rq.describe(), "impl_output": {a: b for a, b in o.items() if a != "records"}}
        if "exc" in o:
            ctx.violation("C02:exception:live:" + stack, "solver threw: " + o["exc"], info); continue
        n = prob.n
        Lf = math.sqrt(sum(prob.Q[i][j] ** 2 for i in range(n) for j in range(n)))          # ||Q||_F >= lambda_max(Q): a valid QUB constant
        gmin = Lgam / max(L0, 2 * Lf); g0 = Lgam / L0
        gr = prob.grad_f(rq.x0)
        xh = sl.proj([a - gmin * b for a, b in zip(rq.x0, gr)], prob.Clb, prob.Cub)
        pstep = [a - b for a, b in zip(xh, rq.x0)]
        phi0 = prob.f(rq.x0) + sum(t * t for t in pstep) / (2 * gmin) + sum(a * b for a, b in zip(gr, pstep))
        ref = refs.get(k)
        st = o["status"]
        ctx.case("live/%s/%s" % (stack, st))
        if st == "NoProgress" and crit != "ProjGradNorm":
            # binary64 artefact of the regime itself (factor 0 is not the shipped default; the theorems are over R): AT the fixed point (|p| ~ 1e-16) the
            # QUB test with tolerance factor 0 is decided by rounding, gamma collapses (57 halvings observed) and the gamma-scaled criterion eps = |p/gamma + ...|
            # can no longer fall below the tolerance although the iterate is the minimiser.  Not flagged when the returned point is a fixed point to rounding.
            xo = sl.V(o, "x_out")
            go = prob.grad_f(xo)
            po = [a - b for a, b in zip(sl.proj([a - gmin * b for a, b in zip(xo, go)], prob.Clb, prob.Cub), xo)]
            if max([abs(t) for t in po] + [0.0]) <= 1e-9 * (1 + max(abs(t) for t in xo)):
                ctx.count("live:noprogress-at-fixed-point(gamma collapsed by rounding, factor 0)")
                continue
        if st in ("NoProgress", "NotFinite", "Interrupted", "MaxTime"):
            ctx.violation("C02:liveness-regime:%s:%s" % (st, stack), "status %s in the regime where the whole-loop model provably returns Converged (tolerance factors 0, box-constrained convex QP)" % st, info)
            continue
        if ref is None: continue
        psi_inf = prob.f(ref[0]); psi_inf -= 1e-9 * (1 + abs(psi_inf))
        delta = ltol if crit == "ProjGradNorm" else ltol / (1.0 / gmin + Lf)          # delta_kkt with Lg := ||Q||_F (grad psi = Qx + c is ||Q||_2-Lipschitz)
        dec = beta * (1 - Lgam) / (2 * g0) * delta * delta
        N = math.floor((phi0 - psi_inf) / dec) + 1
        nmax_seen = max(nmax_seen, o["iterations"])
        r_ = N / max(1, o["iterations"]); ratio_min = r_ if ratio_min is None else min(ratio_min, r_)
        if st == "Converged" and o["iterations"] >= N:
            ctx.violation("C02:liveness-bound:" + stack, "Converged after %d iterations but the proved bound is N = %d" % (o["iterations"], N), dict(info, N=N, phi0=phi0, psi_inf=psi_inf))
        elif st == "MaxIter" and N <= 20000:
            ctx.violation("C02:liveness-bound:" + stack, "MaxIter at 20000 >= proved bound N = %d" % N, dict(info, N=N, phi0=phi0, psi_inf=psi_inf))
    ctx.coverage["liveness_regime_runs"] = len(louts)
    ctx.coverage["liveness_regime_max_iterations_observed"] = nmax_seen
    ctx.coverage["liveness_regime_min_ratio_N_over_observed"] = ratio_min
    ctx.coverage["problems"] = nprob
    ctx.coverage["references_found"] = sum(1 for v in refs.values() if v is not None)
