"""ZEROFPRDIR — the SHIPPED ZeroFPR stacks: ZeroFPRSolver<LBFGSDirection | AndersonDirection | NoopDirection | StructuredLBFGSDirection>.
model: coq/theories/ZeroFprDir.v (the loop of ZeroFpr.v with a stateful provider of Directions.v threaded through initialize / apply / reset /
update (both argument selections of update_direction_from_prox_step) / changed_γ);
proof: Properties_ZEROFPRDIR.v — ZEROFPRDIR_refines_oracle_model: every run of ZeroFprDir.zerofprD is a run of ZeroFpr.zerofpr for the oracle
"j-th apply returned what the provider returned", so the theorems of Properties_ZEROFPR.v hold for the shipped stacks;
correspondence: Corr_ZEROFPRDIR.chkzfprdir — whole runs of the real solver with the real providers against the model at binary64.
Generators, oracle, case terms: those of PANOCDIR.py."""
from vf.core import *
from vf import solvelib as sl
from vf.props import PANOCDIR as PD

class ZDirCase(PD.DirCase):
    """a PANOCDIR.DirCase re-targeted at ZeroFPR: no eager_gradient_eval / linesearch_coefficient_update_factor; + update_direction_from_prox_step"""
    def __init__(self, cs, from_prox):
        P = {k: v for k, v in cs.P.items() if k not in ("eager", "tau_factor")}
        PD.DirCase.__init__(self, cs.prob, cs.x0, cs.y0, cs.S0, P, cs.always, cs.tol, cs.direction, cs.A, cs.Dp, stop_eval=cs.stop_eval, stop_cb=cs.stop_cb,
                            time0=cs.time0, tag=cs.tag, solver="zerofpr", extra=(["solver.update_direction_from_prox_step=true"] if from_prox else []))
        self.from_prox = from_prox

def coq_case(cs, o):
    return "(ZDCase %s %s)" % (coqbool(cs.from_prox), PD.coq_case(cs, o))

def observe(ctx, cs, o):
    """measured, not judged: ZeroFPR with update_direction_in_candidate AND update_direction_from_prox_step.  The in-line-search call of
    direction.update uses the prox-step pair (x̂ₖ -> x_next, p̂ₖ, ∇ψ(x̂ₖ)) also when the candidate IS the safe step (τ = 0: x_next = x̂ₖ, s = 0, y = 0),
    unlike the call after the search (guarded by τ > 0).  LBFGSDirection rejects that pair, StructuredLBFGSDirection (forced update) stores it and
    its next apply returns NaN -> lbfgs_failures, reset: in both cases no accelerated step is taken until a step-size change or a failing candidate
    diverts the update to the after-search call site (the model reproduces this exactly; counted here, reported to the coordinator)."""
    if "exc" in o or cs.direction not in ("lbfgs", "struclbfgs") or not (cs.P_("upd") and cs.from_prox):
        return
    busy = [r for r in o["records"] if r["status"] == "Busy"]
    if len(busy) < 3:
        return
    ctx.coverage["in_candidate_from_prox_runs"] = ctx.coverage.get("in_candidate_from_prox_runs", 0) + 1
    if any(sl.D(r, "tau") > 0 for r in busy):
        ctx.coverage["in_candidate_from_prox_runs_with_an_accelerated_step"] = ctx.coverage.get("in_candidate_from_prox_runs_with_an_accelerated_step", 0) + 1

REQUIRES = "Prox SolverStatus SolverKernels AugLag Lbfgs LMQR Panoc ZeroFpr Corr_PANOC Directions PanocDir Corr_PANOCDIR ZeroFprDir Corr_ZEROFPRDIR"
FLAVOR = dict(name="ZEROFPRDIR", solver="ZeroFPRSolver", model="ZeroFprDir.zerofprD", files="ZeroFprDir.v + Directions.v", requires=REQUIRES, casetype="zdcase",
              chk="chkzfprdir", dump="modelzfprdir", conv=(lambda ctx, cs: ZDirCase(cs, ctx.rng.random() < (0.6 if cs.tag.endswith("/gamma") else 0.35))), term=coq_case, key="zerofprdir", observe=observe)

def run(ctx):
    ctx.coverage["rule"] = ("whole runs of the real ZeroFPRSolver with the four shipped direction providers, generators of the PANOCDIR check (drv_solve problem family, "
                            "n<=4, m<=3, max_iter<=25, all criteria, step-size changes in the middle of runs, failing candidates, memory 0..5 and 10, CBFGS, rescale, Anderson, "
                            "structured L-BFGS with / without Hessian-vector term, stop() / max_time injection, overflowing starts) + update_direction_from_prox_step; one "
                            "evaluation = one whole run compared record by record with ZeroFprDir.zerofprD at binary64")
    ctx.assumptions += ["theorems over ideal reals (binary64 rounding is covered by the whole-run correspondence only)",
                        "problem functions, stop flag and clock are arbitrary oracles in the theorems; the direction provider is an arbitrary state machine (dirops) in the refinement theorem",
                        "std::pow (CBFGS) and std::cbrt(eps) are parameters of the provider models"]
    check_properties(ctx, "ZEROFPRDIR")
    PD.run_corr(ctx, "ZEROFPRDIR", 1.0, None, FLAVOR)

def attach(ctx, scale=0.3, extra_oracle=None):
    check_properties(ctx, "ZEROFPRDIR")
    ctx.assumptions.append("ZeroFPR with the shipped direction providers (ZeroFprDir.v / Directions.v, Properties_ZEROFPRDIR.v) attached: whole runs must coincide with the model at binary64")
    PD.run_corr(ctx, ctx.pid, scale, extra_oracle, FLAVOR)
