"""KERNELS — translator G9 (translate/gen_kernels.py) as a shared part of C05 and C06.

pre(ctx)                 regenerate coq/gen/KernelsGen.v from core.REPO, record the translator status in ctx.coverage["translator_kernels"]
                         (out-of-grammar groups are replaced by the committed reference text and REPORTED, never an alarm by themselves),
                         then re-check coq/theories/KernelsGenEq.v (generated definition = hand kernel, per solver copy); a lemma that no
                         longer holds is reported by name as a broken proof obligation.
attach_crit(ctx, ...)    translation validation at binary64: generated g_crit_eps / g_crit_needs_gradh vs direct calls of the real
                         calc_error_stop_crit / stop_crit_requires_grad_ψx̂ (the cases drv_C06 already ran)
attach_runs(ctx, ...)    the same for the loop lambdas: generated fbe / qub_violated / linesearch_violated / halving / τ update of the
                         solver that produced the run vs its callback records (drv_solve)
Both are independent of the hand model SolverKernels.v."""
import json, math, os, re, subprocess, sys
from vf.core import *
from vf import core
from vf import solvelib as sl
from vf import runcorr

SOLVER_ID = {"panoc": 0, "zerofpr": 1, "pantr": 2}


def _failing_lemma(log):
    m = re.search(r'File "([^"]*KernelsGenEq\.v)", line (\d+)', log)
    if not m:
        return None
    lines = open(os.path.join(COQ, "theories", "KernelsGenEq.v"), encoding="utf-8").read().split("\n")
    for i in range(min(int(m.group(2)), len(lines)) - 1, -1, -1):
        mm = re.match(r"\s*(?:Lemma|Theorem)\s+([A-Za-z0-9_']+)", lines[i])
        if mm:
            return mm.group(1)
    return None


def pre(ctx):
    if getattr(ctx, "_kernels_pre", False):
        return
    ctx._kernels_pre = True
    tr = os.path.join(VERIF, "translate", "gen_kernels.py")
    p = subprocess.run([sys.executable, tr, core.REPO], capture_output=True, text=True)
    try:
        st = json.loads(p.stdout.strip().split("\n")[-1])
    except Exception:
        st = {"status": "translator-failed", "detail": (p.stdout + p.stderr)[-400:]}
    if st.get("status") == "translator-failed":
        ctx.coverage["translator_kernels"] = st
        ctx.broke("translator", "gen_kernels.py could not produce KernelsGen.v (no reference text?)", p.stdout + p.stderr)
        return
    # the generated text must type-check; if it does not (a construct the type discipline of the grammar does not cover), the whole
    # reference text is used and this is reported as out-of-grammar
    rc, log = coq_make(["gen/KernelsGen.vo"])
    if rc != 0:
        ref = open(os.path.join(VERIF, "translate", "ref", "KernelsGen.ref.v"), encoding="utf-8").read()
        open(os.path.join(COQ, "gen", "KernelsGen.v"), "w", encoding="utf-8").write(
            "(* KernelsGen.v — REFERENCE TEXT: the translation of the current source does not type-check *)\n" + ref)
        m = re.search(r"Error:(.*)", log, re.S)
        st = {"status": "translator-out-of-grammar", "definitions": st.get("definitions"), "translated": 0,
              "out_of_grammar": {"*": "generated text rejected by coqc: " + " ".join((m.group(1) if m else log).split())[:300]}}
    ctx.coverage["translator_kernels"] = st
    if st["status"] != "ok":
        ctx.log("translator_kernels: out of grammar (reference text used, correspondence/oracles still run): %s" % json.dumps(st["out_of_grammar"], ensure_ascii=False)[:600])
    ctx.assumptions += ["translator G9 (gen_kernels.py): the problem's eval_prox_grad_step / PANOC-OCP's eval_prox_impl are mapped to Prox.eval_prox_grad_step / "
                        "PanocOcp.ocp_prox (tied by C15 / C13); call sites pass the members named in the lemma statements of KernelsGenEq.v",
                        "generated definition = hand kernel is proved over ideal reals; binary64 agreement of the generated terms with the implementation is "
                        "checked by Corr_KernelsGen (a rewriting that is equal over R but rounds differently is left to that check)"]
    # tie: generated = hand kernel, lemma by lemma
    src = strip_coq_comments(open(os.path.join(COQ, "theories", "KernelsGenEq.v"), encoding="utf-8").read())
    lemmas = re.findall(r"^\s*(?:Lemma|Theorem)\s+([A-Za-z0-9_']+)", src, re.M)
    try:
        os.remove(os.path.join(COQ, "theories", "KernelsGenEq.vo"))
    except FileNotFoundError:
        pass
    rc, log = coq_make(["theories/KernelsGenEq.vo"], keep_going=True)
    ctx.coverage["kernels_gen_eq"] = {"lemmas": len(lemmas), "checked": rc == 0}
    ctx.coverage["obligations"] += len(lemmas)
    if rc == 0:
        ctx.coverage["discharged"] += len(lemmas)
    else:
        name = _failing_lemma(log)
        ctx.coverage["kernels_gen_eq"]["failing"] = name
        ctx.broke("proof", "KernelsGenEq.%s (generated kernel differs from the hand kernel the theorems are about)" % (name or "?"), log)


def _corr(ctx, name, terms, owners, what):
    if not terms:
        return
    failing = coq_failing_cases(ctx, name, "Prox SolverStatus SolverKernels KernelsGen Corr_KernelsGen", "kgcase", "chkkg", terms, dump="modelkg")
    cov = ctx.coverage.setdefault("kernels_gen_correspondence", {})
    cov[name] = {"cases": len(terms), "disagreements": len(failing or [])}
    if failing:
        kinds = sorted(set(owners[i] for i in failing))
        ctx.broke("correspondence", "KernelsGen.v (generated from the source) vs %s (%s)" % (what, ",".join(kinds)),
                  json.dumps({"first_disagreeing_case": terms[failing[0]], "kind": owners[failing[0]], "n_disagreements": len(failing),
                              "generated_value": getattr(ctx, "last_dump", "")}))


def attach_crit(ctx, cases, outs):
    """cases / outs of drv_C06 (op == 'crit')"""
    terms, owners = [], []
    for c, o in zip(cases, outs):
        if c.get("op") != "crit" or "exc" in o:
            continue
        terms.append("(KCrit %s %s %s %s %s %s %s %s %s %s %s %s)" % (c["crit"], coqvec(c["lb"]), coqvec(c["ub"]), coqvec(c["l1"]), coqvec(c["p"]), coqf(c["gamma"]),
                                                                      coqvec(c["x"]), coqvec(c["xh"]), coqvec(c["yh"]), coqvec(c["grad"]), coqvec(c["gradh"]), coqf(o["eps"])))
        owners.append("crit/" + c["crit"])
        terms.append("(KNeeds %s %s)" % (c["crit"], coqbool(o["needs_gradh"])))
        owners.append("needs_gradh/" + c["crit"])
    _corr(ctx, "kgcrit", terms, owners, "drv_C06 direct calls of calc_error_stop_crit")


def terms_from_run(rq, o):
    out = []
    if "exc" in o or rq.solver not in SOLVER_ID:
        return out
    sid = coqnat(SOLVER_ID[rq.solver])
    p = rq.prob
    c = runcorr.solver_consts(rq)
    recs = o["records"]
    V, D = sl.V, sl.D
    factor = runcorr.fl(rq, "solver.linesearch_coefficient_update_factor", 0.5)
    tau_min = runcorr.fl(rq, "solver.min_linesearch_coefficient", 1.0 / 256)
    for idx, r in enumerate(recs):
        x, pv, grad = V(r, "x"), V(r, "p"), V(r, "grad")
        gamma, L = D(r, "gamma"), D(r, "L")
        if not all(math.isfinite(t) for t in x + pv + grad + [gamma, L]):
            continue
        fin = math.isfinite(D(r, "phi")) and math.isfinite(D(r, "psi")) and not p.l1
        if fin:
            out.append(("fbe", "(KFbe %s %s %s %s %s %s %s %s)" % (sid, coqf(D(r, "psi")), coqf(0.0), coqf(D(r, "nsqp")), coqf(gamma), coqvec(grad), coqvec(pv), coqf(D(r, "phi")))))
        if L < c["L_max"] and math.isfinite(D(r, "psih")) and math.isfinite(D(r, "psi")) and not c["recompute"]:
            out.append(("qub", "(KQub %s %s %s %s %s %s %s %s)" % (sid, coqf(D(r, "psi")), coqf(D(r, "psih")), coqvec(grad), coqvec(pv), coqf(L), coqf(D(r, "nsqp")), coqf(c["qub_tol"]))))
        if rq.solver != "pantr" and "tau" in r and math.isfinite(D(r, "tau")) and r["status"] == "Busy":      # the final callback passes τ = -1
            out.append(("tau", "(KTau %s %s %s %s)" % (sid, coqf(factor), coqf(tau_min), coqf(D(r, "tau")))))
        nxt = recs[idx + 1] if idx + 1 < len(recs) else None
        if nxt is None or nxt["outer"] != r["outer"] or r["status"] != "Busy":
            continue
        g2, L2 = D(nxt, "gamma"), D(nxt, "L")
        if math.isfinite(g2) and not c["recompute"]:
            out.append(("halve", "(KHalve %s %s %s %s %s)" % (sid, coqf(gamma), coqf(L), coqf(g2), coqf(L2))))
        if rq.solver in ("panoc", "zerofpr") and fin:
            tau = D(r, "tau")
            n_ok = all(math.isfinite(t) for t in V(nxt, "p") + V(nxt, "grad") + [D(nxt, "phi"), D(nxt, "psi"), g2])
            if tau > 0 and not c["force"] and not c["recompute"] and n_ok:
                out.append(("ls", "(KLs %s %s %s %s %s %s %s %s %s %s %s %s %s %s %s %s)" % (
                    sid, coqf(c["beta"]), coqf(c["ls_tol"]), coqf(D(r, "psi")), coqf(0.0), coqf(D(r, "nsqp")), coqf(gamma), coqf(L), coqvec(grad), coqvec(pv),
                    coqf(D(nxt, "psi")), coqf(0.0), coqf(D(nxt, "nsqp")), coqf(g2), coqvec(V(nxt, "grad")), coqvec(V(nxt, "p")))))
    return out


def attach_runs(ctx, reqs, outs):
    """requests / outputs of drv_solve runs the calling check already made"""
    terms, owners = [], []
    for rq, o in zip(reqs, outs):
        for kind, t in terms_from_run(rq, o):
            terms.append(t)
            owners.append("%s/%s" % (rq.solver, kind))
    _corr(ctx, "kgrun", terms, owners, "drv_solve callback records")
