(* DirWf.v — what the liveness theorems (C02) need from a SHIPPED direction provider (Directions.dirops over R), and nothing more:
   there are predicates I0 (the provider as constructed) and Iv on provider states such that, on vectors of the problem's dimension n,
     initialize does not throw on a state satisfying I0 or Iv and establishes Iv; update / changed_γ / reset preserve Iv;
     apply does not throw under Iv, preserves Iv, and when it returns true the buffer q holds a vector of length n.
   The VALUES the provider computes are irrelevant (the liveness theorems hold for every direction).
   Proved here for NoopDirection, LBFGSDirection, AndersonDirection and StructuredLBFGSDirection (the only hypotheses:
   the `throw` conditions of the C++: memory >= 1; for StructuredLBFGS the capability checks of initialize and CBFGS off,
   because apply_masked throws with CBFGS). *)
From Coq Require Import Reals List ZArith Bool Arith Lia.
From Alpaqa Require Import Num NumR Vec Prox Lbfgs LMQR Directions.
Import ListNotations.

Record dir_wf (n : nat) (D : Type) (ops : dirops R D) (I0 Iv : D -> Prop) : Prop := mkDirWf {
  wf_init : forall d y S γ x xh p g, I0 d \/ Iv d -> length x = n -> length xh = n -> length p = n -> length g = n ->
    exists d', d_initialize D ops d y S γ x xh p g = Some d' /\ Iv d';
  wf_update : forall d γ γn x xn p pn g gn, Iv d ->
    length x = n -> length xn = n -> length p = n -> length pn = n -> length g = n -> length gn = n ->
    Iv (snd (d_update D ops d γ γn x xn p pn g gn));
  wf_apply : forall d γ x xh p g q, Iv d -> length x = n -> length xh = n -> length p = n -> length g = n ->
    exists b q' d', d_apply D ops d γ x xh p g q = Some (b, q', d') /\ Iv d' /\ (b = true -> length q' = n);
  wf_changed : forall d a b, Iv d -> Iv (d_changed_gamma D ops d a b);
  wf_reset : forall d, Iv d -> Iv (d_reset D ops d) }.

(* ------------------------------------------------------------------ NoopDirection *)
Lemma noop_wf n : dir_wf n unit (noop_dir (T:=R)) (fun _ => True) (fun _ => True).
Proof.
  constructor; cbn; intros; auto.
  - eexists. split; [reflexivity|exact I].
  - eexists _, _, _. split; [reflexivity|]. split; [exact I|discriminate].
Qed.

(* ------------------------------------------------------------------ L-BFGS storage: every slot holds vectors of length n *)
From Alpaqa Require Import ProxVec LiveVec LbfgsProofs.

Section LbfgsLen.
  Variable n : nat.
  Variable pw : R -> R -> R.
  Variable LP : Lbfgs.params R.
  Notation state := (Lbfgs.state R).
  Notation slot := (Lbfgs.slot R).

  Definition slot_ok (sl : slot) : Prop := length (sl_s sl) = n /\ length (sl_y sl) = n.
  Definition LIv (st : state) : Prop := LbfgsProofs.inv LP st /\ Forall slot_ok (st_slots st).

  Lemma Forall_upd {A} (Q : A -> Prop) (l : list A) i x : Forall Q l -> ((i < length l)%nat -> Q x) -> Forall Q (Lbfgs.upd l i x).
  Proof.
    revert i; induction l as [|a l IH]; intros [|i] HF Hx; cbn; auto; inversion HF; subst; constructor; auto.
    - apply Hx. cbn. lia.
    - apply IH; auto. intros. apply Hx. cbn. lia.
  Qed.
  Lemma get_ok (st : state) i : Forall slot_ok (st_slots st) -> (i < history st)%nat -> slot_ok (get st i).
  Proof. intros HF Hi. unfold get. rewrite Forall_forall in HF. apply HF. apply nth_In. exact Hi. Qed.

  Lemma vsub_length (a b : list R) : length a = n -> length b = n -> length (vsub a b) = n.
  Proof. intros. unfold vsub. now apply map2_length. Qed.
  Lemma axmy_length a (x q : list R) : length x = n -> length q = n -> length (axmy a x q) = n.
  Proof. intros. unfold axmy. apply vsub_length; [assumption|now rewrite vscale_length]. Qed.

  Lemma set_slot_ok (st : state) i sl : Forall slot_ok (st_slots st) -> ((i < history st)%nat -> slot_ok sl) ->
    Forall slot_ok (st_slots (set_slot st i sl)).
  Proof. intros. unfold set_slot. cbn [st_slots]. now apply Forall_upd. Qed.
  Lemma set_α_ok (st : state) i a : Forall slot_ok (st_slots st) -> Forall slot_ok (st_slots (set_α st i a)).
  Proof. intros HF. unfold set_α. apply set_slot_ok; [exact HF|]. intros Hi. exact (get_ok st i HF Hi). Qed.
  Lemma set_mark_ok (st : state) i : Forall slot_ok (st_slots st) -> Forall slot_ok (st_slots (set_mark st i)).
  Proof. intros HF. unfold set_mark. apply set_slot_ok; [exact HF|]. intros Hi. exact (get_ok st i HF Hi). Qed.

  Lemma rev_loop_len l : forall (st : state) q, Forall slot_ok (st_slots st) -> (forall i, In i l -> (i < history st)%nat) -> length q = n ->
    Forall slot_ok (st_slots (fst (rev_loop l st q))) /\ length (snd (rev_loop l st q)) = n.
  Proof.
    induction l as [|i l IH]; intros st q HF Hl Hq; cbn [rev_loop]; [split; assumption|].
    apply IH.
    - now apply set_α_ok.
    - intros j Hj. destruct (set_α_shape st i (ρval (sl_ρ (get st i)) * vdot (sl_s (get st i)) q)%num) as (_ & _ & _ & Eh).
      rewrite Eh. apply Hl. now right.
    - apply axmy_length; [|exact Hq]. apply (get_ok st i HF). apply Hl. now left.
  Qed.
  Lemma fwd_loop_len l : forall (st : state) q, Forall slot_ok (st_slots st) -> (forall i, In i l -> (i < history st)%nat) -> length q = n ->
    length (fwd_loop l st q) = n.
  Proof.
    induction l as [|i l IH]; intros st q HF Hl Hq; cbn [fwd_loop]; [assumption|].
    apply IH; [exact HF|intros j Hj; apply Hl; now right|].
    apply axmy_length; [|exact Hq]. apply (get_ok st i HF). apply Hl. now left.
  Qed.

  Lemma rev_idx_bound (st : state) i : LbfgsProofs.inv LP st -> In i (rev_idx st) -> (i < history st)%nat.
  Proof. intros Hi Hin. rewrite rev_idx_is_rev_fwd in Hin. apply in_rev in Hin. exact (fwd_idx_bound LP st i Hi Hin). Qed.

  Lemma apply_wf (st : state) q γ : LIv st -> length q = n ->
    let r := Lbfgs.apply LP st q γ in LIv (snd r) /\ (fst (fst r) = true -> length (snd (fst r)) = n).
  Proof.
    intros [Hi HF] Hq. unfold Lbfgs.apply. destruct (is_empty st); [cbn; split; [split; assumption|discriminate]|].
    pose proof (rev_loop_len (rev_idx st) st q HF (fun i => rev_idx_bound st i Hi) Hq) as [H1 H2].
    pose proof (rev_loop_shape (rev_idx st) st q) as Hs.
    destruct (rev_loop (rev_idx st) st q) as [st1 q1]. cbn [fst snd] in *.
    split; [split; [exact (same_shape_inv LP _ _ Hs Hi)|exact H1]|]. intros _.
    apply fwd_loop_len; [exact H1| |now rewrite vscale_length].
    intros i Hin. destruct Hs as (_ & _ & _ & Eh). rewrite Eh. exact (fwd_idx_bound LP st i Hi Hin).
  Qed.

  Lemma update_sy_wf (st : state) s y pp forced : LIv st -> length s = n -> length y = n ->
    LIv (snd (update_sy pw LP st s y pp forced)).
  Proof.
    intros [Hi HF] Hs Hy. split; [apply (update_sy_spec pw LP st s y pp forced Hi)|].
    unfold update_sy. destruct (negb forced && negb (update_valid pw LP (vdot y s) (vsqnorm s) pp)); [exact HF|].
    cbn [snd st_slots]. apply set_slot_ok; [exact HF|]. intros _. split; assumption.
  Qed.
  Lemma update_wf (st : state) xk xn pk pn sg forced : LIv st -> length xk = n -> length xn = n -> length pk = n -> length pn = n ->
    LIv (snd (Lbfgs.update pw LP st xk xn pk pn sg forced)).
  Proof.
    intros Hst H1 H2 H3 H4. unfold Lbfgs.update. apply update_sy_wf; [exact Hst|now apply vsub_length|].
    destruct sg; now apply vsub_length.
  Qed.
  Lemma reset_wf (st : state) : LIv st -> LIv (Lbfgs.reset st).
  Proof. intros [Hi HF]. split; [apply (reset_spec LP st Hi)|exact HF]. Qed.
  Lemma scale_first_ok k f : forall l : list slot, Forall slot_ok l -> Forall slot_ok (scale_first k f l).
  Proof.
    induction k as [|k IH]; intros [|sl l] HF; cbn; auto. inversion HF as [|? ? [A B] HF']; subst. constructor; [|now apply IH].
    unfold slot_ok, scale_slot. cbn. rewrite map_length. split; assumption.
  Qed.
  Lemma scale_y_wf (st : state) f : LIv st -> LIv (scale_y st f).
  Proof. intros [Hi HF]. split; [apply (scale_y_spec LP st f Hi)|]. unfold scale_y. cbn [st_slots]. now apply scale_first_ok. Qed.
  Lemma resize_wf : (1 <= p_memory LP)%nat -> exists st, Lbfgs.resize LP n = Some st /\ LIv st.
  Proof.
    intros Hm. unfold Lbfgs.resize. destruct (Nat.ltb_spec (p_memory LP) 1); [lia|]. eexists. split; [reflexivity|]. split.
    - apply (resize_inv LP n). unfold Lbfgs.resize. destruct (Nat.ltb_spec (p_memory LP) 1); [lia|reflexivity].
    - cbn [st_slots]. apply Forall_forall. intros sl Hin. apply repeat_spec in Hin. subst. unfold slot_ok, slot0. cbn. now rewrite repeat_length.
  Qed.

  (* ---- LBFGSDirection *)
  Theorem lbfgs_wf rescale : (1 <= p_memory LP)%nat ->
    dir_wf n state (lbfgs_dir n pw LP rescale) (fun _ => True) LIv.
  Proof.
    intros Hm. constructor; cbn [lbfgs_dir d_initialize d_update d_apply d_changed_gamma d_reset].
    - intros. exact (resize_wf Hm).
    - intros. now apply update_wf.
    - intros d γ x xh p g q Hd _ _ Hp _.
      pose proof (apply_wf d p γ Hd Hp) as Ha. cbv zeta in Ha.
      destruct (Lbfgs.apply LP d p γ) as [[b q'] d']. cbn [fst snd] in Ha. exists b, q', d'. split; [reflexivity|exact Ha].
    - intros d a b Hd. destruct rescale; [now apply scale_y_wf|now apply reset_wf].
    - intros d Hd. now apply reset_wf.
  Qed.
End LbfgsLen.

(* ------------------------------------------------------------------ AndersonDirection *)
From Alpaqa Require Import LMQRRing LMQRAlg LMQRAnd.

Section AndersonLen.
  Variables (n mem : nat) (mdf : R) (rescale : bool).
  Hypothesis Hn : (0 < n)%nat.
  Hypothesis Hmem : (0 < mem)%nat.
  Notation lenn := (fun c : list R => length c = n).

  Definition AIv (a : aast R) : Prop :=
    (0 < cap (a_qr a))%nat /\ ring_inv (cap (a_qr a)) (ring_of (a_qr a)) /\ length (a_G a) = cap (a_qr a) /\
    Forall lenn (a_G a) /\ a_init a = true.
  (* the provider as constructed: AndersonAccel default-constructed (0 x 0 storage), so that resize(n) allocates *)
  Definition AI0 (a : aast R) : Prop := length (a_rlast a) <> n.

  Lemma Forall_updf {A} (Q : A -> Prop) i (f : A -> A) (l : list A) : Forall Q l -> (forall x, Q x -> Q (f x)) -> Forall Q (LMQR.upd i f l).
  Proof.
    revert i; induction l as [|a l IH]; intros [|i] HF Hf; cbn; auto; inversion HF; subst; constructor; auto.
  Qed.

  Lemma aa_fold_length : forall αs cs (x0 : list R), Forall lenn cs -> length x0 = n ->
    length (fold_left (fun x '(a, c) => vadd x (vscale a c)) (combine αs cs) x0) = n.
  Proof.
    induction αs as [|a αs IH]; intros cs x0 HF Hx; [exact Hx|].
    destruct cs as [|c cs]; [exact Hx|]. inversion HF as [|? ? Hc HF']. cbn [combine fold_left]. apply IH; [exact HF'|].
    apply LiveVec.vadd_length; [exact Hx|now rewrite LiveVec.vscale_length].
  Qed.

  Lemma minimize_update_wf (qr : qrst R) G rk rlast gk mdf' γ :
    (0 < cap qr)%nat -> ring_inv (cap qr) (ring_of qr) -> length G = cap qr -> Forall lenn G -> length gk = n ->
    match minimize_update_anderson qr G rk rlast gk mdf' γ with
    | (qr2, G', γ', x) => cap qr2 = cap qr /\ ring_inv (cap qr) (ring_of qr2) /\ length G' = cap qr /\ Forall lenn G' /\ length x = n
    end.
  Proof.
    intros Hm Hring HGl HG Hgk. unfold minimize_update_anderson.
    pose proof (aa_ring_update qr (vsub rk rlast) Hring Hm) as U. cbv zeta in U.
    set (qr2 := add_column (if Nat.eqb (q_idx qr) (cap qr) then remove_column qr else qr) (vsub rk rlast)) in *.
    destruct U as (_ & Hc2 & _ & _ & Hr2 & _).
    cbv zeta. split; [exact Hc2|]. split; [exact Hr2|]. split; [now rewrite LMQRRing.upd_length|].
    split; [apply Forall_updf; [exact HG|intros; exact Hgk]|].
    set (γ' := solve_col qr2 rk _ γ).
    assert (HF : Forall lenn (map (fun e => getc G (snd e)) (ring_iter (q_idx qr2) (r_start qr2) (cap qr2)) ++ [gk])).
    { apply Forall_app. split; [|constructor; auto].
      apply Forall_forall. intros c Hc. apply in_map_iff in Hc. destruct Hc as (e & <- & He).
      pose proof (ring_iter_enumerates_window (cap qr) (ring_of qr2) Hm Hr2) as HW. cbn [ring_of g_qi g_rs] in HW.
      rewrite Hc2 in He. rewrite HW in He. unfold window in He. apply in_map_iff in He. destruct He as (j & <- & Hj).
      cbn [snd]. apply getc_len; auto. rewrite HGl. apply Nat.mod_upper_bound. lia. }
    unfold aa_alphas.
    destruct (map (fun e => getc G (snd e)) (ring_iter (q_idx qr2) (r_start qr2) (cap qr2)) ++ [gk]) as [|c0 cs] eqn:Ec.
    { destruct (map _ _); discriminate. }
    inversion HF as [|? ? Hc0 HF']. apply aa_fold_length; [exact HF'|now rewrite LiveVec.vscale_length].
  Qed.

  Lemma aa_new_wf g0 r0 : length g0 = n -> AIv (aa_initialize (aa_new n mem mdf) g0 r0).
  Proof.
    intros Hg. unfold AIv, aa_initialize, aa_new. cbn [a_qr a_G a_init qr_reset qr_new cap ring_of q_idx r_start r_end].
    assert (Hm : (0 < Nat.min n mem)%nat) by lia.
    split; [exact Hm|]. split; [now apply ring_inv_init|]. split; [now rewrite LMQRRing.upd_length, repeat_length|].
    split; [|reflexivity]. apply Forall_updf; [|intros; exact Hg].
    apply Forall_forall. intros c Hc. apply repeat_spec in Hc. subst. apply repeat_length.
  Qed.

  Theorem anderson_wf : dir_wf n (aast R) (anderson_dir n mem mdf rescale) AI0 AIv.
  Proof.
    constructor; cbn [anderson_dir d_initialize d_update d_apply d_changed_gamma d_reset].
    - intros a y S γ x xh p g Ha _ Hxh _ _. eexists. split; [reflexivity|]. unfold aa_resize.
      destruct (Nat.eqb (cap (a_qr a)) (Nat.min n mem) && Nat.eqb (length (a_rlast a)) n) eqn:E; [|now apply aa_new_wf].
      apply andb_prop in E. destruct E as [E1 E2]. apply Nat.eqb_eq in E1, E2.
      destruct Ha as [Ha|(Hm & Hr & HGl & HG & _)]; [contradiction|].
      unfold AIv, aa_initialize. cbn [a_qr a_G a_init qr_reset cap ring_of q_idx r_start r_end].
      split; [exact Hm|]. split; [now apply ring_inv_init|]. split; [now rewrite LMQRRing.upd_length|].
      split; [|reflexivity]. apply Forall_updf; [exact HG|intros; exact Hxh].
    - intros. assumption.
    - intros a γ x xh p g q (Hm & Hr & HGl & HG & Hi) Hx Hxh Hp _.
      unfold aa_compute. rewrite Hi.
      pose proof (minimize_update_wf (a_qr a) (a_G a) p (a_rlast a) xh (a_mdf a) (a_gamma a) Hm Hr HGl HG Hxh) as W.
      destruct (minimize_update_anderson (a_qr a) (a_G a) p (a_rlast a) xh (a_mdf a) (a_gamma a)) as [[[qr' G'] γ'] xaa].
      eexists _, _, _. split; [reflexivity|].
      destruct W as (W1 & W2 & W3 & W4 & W5).
      split.
      + unfold AIv. cbn [a_qr a_G a_init]. rewrite W1. split; [exact Hm|]. split; [exact W2|]. split; [exact W3|]. split; [exact W4|reflexivity].
      + intros _. unfold vsub. apply ProxVec.map2_length; [exact W5|exact Hx].
    - intros a s t (Hm & Hr & HGl & HG & Hi). destruct rescale.
      + unfold AIv, aa_scale_R. cbn [a_qr a_G a_init]. split; [exact Hm|]. split; [exact Hr|]. split; [exact HGl|]. split; [exact HG|exact Hi].
      + unfold AIv, aa_reset. cbn [a_qr a_G a_init qr_reset cap ring_of q_idx r_start r_end].
        split; [exact Hm|]. split; [now apply ring_inv_init|].
        destruct Hr as (_ & Re & _). cbn [ring_of g_re] in Re.
        destruct (Nat.eqb (r_end (a_qr a)) 0); [split; [exact HGl|split; [exact HG|exact Hi]]|].
        split; [now rewrite LMQRRing.upd_length|]. split; [|exact Hi].
        apply Forall_updf; [exact HG|]. intros _ _. apply getc_len; [exact HG|]. now rewrite HGl.
    - intros a (Hm & Hr & HGl & HG & Hi).
      unfold AIv, aa_reset. cbn [a_qr a_G a_init qr_reset cap ring_of q_idx r_start r_end].
      split; [exact Hm|]. split; [now apply ring_inv_init|].
      destruct Hr as (_ & Re & _). cbn [ring_of g_re] in Re.
      destruct (Nat.eqb (r_end (a_qr a)) 0); [split; [exact HGl|split; [exact HG|exact Hi]]|].
      split; [now rewrite LMQRRing.upd_length|]. split; [|exact Hi].
      apply Forall_updf; [exact HG|]. intros _ _. apply getc_len; [exact HG|]. now rewrite HGl.
  Qed.
End AndersonLen.

(* ------------------------------------------------------------------ StructuredLBFGSDirection *)
Section StructLen.
  Variable n : nat.
  Variable pw : R -> R -> R.
  Variable LP : Lbfgs.params R.
  Variables (lb ub : list (option R)) (l1 : list R) (Dlb Dub : list (option R)).
  Variables (prov_inactive prov_hess_L prov_hess_psi prov_box_D prov_grad_gi : bool).
  Variable grad_psi_at : list R -> list R -> list R -> list R.
  Variable hess_L_prod : list R -> list R -> R -> list R -> list R.
  Variable hess_psi_prod : list R -> list R -> list R -> R -> list R -> list R.
  Variable eval_g : list R -> list R.
  Variable grad_gi : list R -> nat -> list R.
  Variable cbrt_eps : R.
  Variables (hvf : R) (fd full_aug use_scaled : bool).
  Notation state := (Lbfgs.state R).
  Notation LIv_ := (LIv n LP).
  Notation sdir := (struct_dir n pw LP lb ub l1 Dlb Dub prov_inactive prov_hess_L prov_hess_psi prov_box_D prov_grad_gi
                               grad_psi_at hess_L_prod hess_psi_prod eval_g grad_gi cbrt_eps hvf fd full_aug use_scaled).

  (* the hypotheses under which no call of the provider throws *)
  Hypothesis Hmem : (1 <= p_memory LP)%nat.                                                  (* lbfgs.resize *)
  Hypothesis Hcap : struct_init_ok prov_inactive prov_hess_L prov_hess_psi prov_box_D prov_grad_gi hvf fd full_aug = true.   (* the four invalid_argument of initialize *)
  Hypothesis Hcbfgs : cbfgs_on LP = false.                                                   (* apply_masked throws with CBFGS *)

  Definition SIv (d : sdstate (T:=R)) : Prop := LIv_ (sd_lbfgs d).

  Lemma upd_fold_length {A} (f : list A -> nat -> A) (J : list nat) : forall q : list A,
    length (fold_left (fun q j => Lbfgs.upd q j (f q j)) J q) = length q.
  Proof. induction J as [|j J IH]; intros q; cbn [fold_left]; [reflexivity|]. rewrite IH. apply LbfgsProofs.upd_length. Qed.
  Lemma set_on_length J f (q : list R) : length (set_on J f q) = length q.
  Proof. unfold set_on. exact (upd_fold_length (fun _ j => f j) J q). Qed.
  Lemma axmyJ_length J fJ a (x y : list R) : (fJ = true -> length x = n) -> length y = n -> length (axmyJ J fJ a x y) = n.
  Proof.
    intros Hx Hy. unfold axmyJ. destruct fJ; [apply axmy_length; auto|].
    rewrite (upd_fold_length (fun y j => (nth j y n0 - a * nth j x n0)%num) J y). exact Hy.
  Qed.
  Lemma scalJ_length J fJ a (x : list R) : length (scalJ J fJ a x) = length x.
  Proof.
    unfold scalJ. destruct fJ; [apply LiveVec.vscale_length|].
    exact (upd_fold_length (fun x j => (nth j x n0 * a)%num) J x).
  Qed.

  Lemma mrev_loop_len J fJ l : forall (st : state) q γ, Forall (slot_ok n) (st_slots st) -> (forall i, In i l -> (i < history st)%nat) -> length q = n ->
    Forall (slot_ok n) (st_slots (fst (fst (mrev_loop pw LP J fJ l st q γ)))) /\ length (snd (fst (mrev_loop pw LP J fJ l st q γ))) = n.
  Proof.
    induction l as [|i l IH]; intros st q γ HF Hl Hq; cbn [mrev_loop]; [split; assumption|].
    match goal with |- context [if ?b then _ else _] => destruct b end.
    - apply IH; [now apply set_mark_ok| |exact Hq].
      intros j Hj. destruct (set_mark_shape st i) as (_ & _ & _ & Eh). rewrite Eh. apply Hl. now right.
    - apply IH.
      + now apply set_α_ok.
      + intros j Hj. match goal with |- (_ < history (set_α st i ?a))%nat => destruct (set_α_shape st i a) as (_ & _ & _ & Eh) end.
        rewrite Eh. apply Hl. now right.
      + apply axmyJ_length; [|exact Hq]. intros _. apply (get_ok n st i HF). apply Hl. now left.
  Qed.
  Lemma mfwd_loop_len J fJ l : forall (st : state) q, Forall (slot_ok n) (st_slots st) -> (forall i, In i l -> (i < history st)%nat) -> length q = n ->
    length (mfwd_loop J fJ l st q) = n.
  Proof.
    induction l as [|i l IH]; intros st q HF Hl Hq; cbn [mfwd_loop]; [assumption|].
    destruct (α_is_nan (get st i)); (apply IH; [exact HF|intros j Hj; apply Hl; now right|]); [exact Hq|].
    apply axmyJ_length; [|exact Hq]. intros _. apply (get_ok n st i HF). apply Hl. now left.
  Qed.

  Lemma apply_masked_wf (st : state) q γ J : LIv_ st -> length q = n ->
    match apply_masked pw LP st q γ J with
    | (MThrow, _, _) => False
    | (MRet b, q', st') => LIv_ st' /\ length q' = n
    end.
  Proof.
    intros [Hi HF] Hq. unfold apply_masked. destruct (is_empty st); [split; [split; assumption|exact Hq]|].
    rewrite Hcbfgs.
    set (fJ := (length q =? length J)%nat). set (γ0 := if p_curvature LP then (- n1)%num else γ).
    pose proof (mrev_loop_len J fJ (rev_idx st) st q γ0 HF (fun i => rev_idx_bound LP st i Hi) Hq) as [H1 H2].
    pose proof (mrev_loop_shape pw LP J fJ (rev_idx st) st q γ0) as Hs.
    destruct (mrev_loop pw LP J fJ (rev_idx st) st q γ0) as [[st1 q1] γ1]. cbn [fst snd] in *.
    assert (I1 : LIv_ st1) by (split; [exact (same_shape_inv LP _ _ Hs Hi)|exact H1]).
    destruct (γ1 <? n0)%num; [split; assumption|]. split; [exact I1|].
    apply mfwd_loop_len; [exact H1| |now rewrite scalJ_length].
    intros i Hin. destruct Hs as (_ & _ & _ & Eh). rewrite Eh. exact (fwd_idx_bound LP st i Hi Hin).
  Qed.

  Theorem struct_wf : dir_wf n (sdstate (T:=R)) sdir (fun _ => True) SIv.
  Proof.
    constructor; cbn [struct_dir d_initialize d_update d_apply d_changed_gamma d_reset].
    - intros d y S γ x xh p g _ _ _ _ _. rewrite Hcap. destruct (resize_wf n LP Hmem) as (st & E & Hst). rewrite E.
      eexists. split; [reflexivity|exact Hst].
    - intros d γ γn x xn p pn g gn Hd Hx Hxn _ _ Hg Hgn.
      pose proof (update_wf n pw LP (sd_lbfgs d) x xn g gn true true Hd Hx Hxn Hg Hgn) as Hu.
      destruct (Lbfgs.update pw LP (sd_lbfgs d) x xn g gn true true) as [b st']. exact Hu.
    - intros d γ x xh p g q Hd Hx _ Hp Hg. unfold struct_apply.
      set (J := inactive_indices_x lb ub l1 γ x g).
      destruct (Nat.eqb (length J) 0); [eexists _, _, _; split; [reflexivity|split; [exact Hd|discriminate]]|].
      destruct (Nat.eqb (length J) n).
      + pose proof (apply_wf n LP (sd_lbfgs d) (vscale (n1 / γ)%num p) γ Hd ltac:(now rewrite LiveVec.vscale_length)) as Ha. cbv zeta in Ha.
        destruct (Lbfgs.apply LP (sd_lbfgs d) (vscale (n1 / γ)%num p) γ) as [[b q'] st']. cbn [fst snd] in Ha.
        eexists _, _, _. split; [reflexivity|]. exact Ha.
      + match goal with |- context [let '(q1, d1) := ?X in _] => destruct X as [q1 d1] eqn:E1 end.
        assert (H1 : length q1 = n /\ sd_lbfgs d1 = sd_lbfgs d).
        { destruct (hvf_on hvf); injection E1 as <- <-; rewrite !set_on_length; split; auto. }
        destruct H1 as [Hq1 Ed1].
        pose proof (apply_masked_wf (sd_lbfgs d1) q1 γ J ltac:(rewrite Ed1; exact Hd) Hq1) as Hm.
        destruct (apply_masked pw LP (sd_lbfgs d1) q1 γ J) as [[r q2] st']. destruct r as [|b]; [contradiction|].
        destruct Hm as [Hst' Hq2].
        destruct b; [eexists _, _, _; split; [reflexivity|split; [exact Hst'|intros _; exact Hq2]]|].
        destruct use_scaled; eexists _, _, _; (split; [reflexivity|]); (split; [exact Hst'|]); [intros _; now rewrite set_on_length|discriminate].
    - intros d a b Hd. exact Hd.
    - intros d Hd. unfold SIv. cbn [sd_lbfgs]. now apply reset_wf.
  Qed.
End StructLen.
