(* DirWf.v — what the liveness theorems (C02) need from a SHIPPED direction provider (Directions.dirops over R), and nothing more:
   there is a predicate Iv on provider states such that, on vectors of the problem's dimension n,
     initialize does not throw and establishes Iv; update / changed_γ / reset preserve Iv;
     apply does not throw under Iv, preserves Iv, and when it returns true the buffer q holds a vector of length n.
   The VALUES the provider computes are irrelevant (the liveness theorems hold for every direction).
   Proved here for NoopDirection, LBFGSDirection, AndersonDirection and StructuredLBFGSDirection (the only hypotheses:
   the `throw` conditions of the C++: memory >= 1; for StructuredLBFGS the capability checks of initialize and CBFGS off,
   because apply_masked throws with CBFGS). *)
From Coq Require Import Reals List ZArith Bool Arith Lia.
From Alpaqa Require Import Num NumR Vec Prox Lbfgs LMQR Directions.
Import ListNotations.

Record dir_wf (n : nat) (D : Type) (ops : dirops R D) (Iv : D -> Prop) : Prop := mkDirWf {
  wf_init : forall d y S γ x xh p g, length x = n -> length xh = n -> length p = n -> length g = n ->
    exists d', d_initialize D ops d y S γ x xh p g = Some d' /\ Iv d';
  wf_update : forall d γ γn x xn p pn g gn, Iv d ->
    length x = n -> length xn = n -> length p = n -> length pn = n -> length g = n -> length gn = n ->
    Iv (snd (d_update D ops d γ γn x xn p pn g gn));
  wf_apply : forall d γ x xh p g q, Iv d -> length x = n -> length xh = n -> length p = n -> length g = n ->
    exists b q' d', d_apply D ops d γ x xh p g q = Some (b, q', d') /\ Iv d' /\ (b = true -> length q' = n);
  wf_changed : forall d a b, Iv d -> Iv (d_changed_gamma D ops d a b);
  wf_reset : forall d, Iv d -> Iv (d_reset D ops d) }.

(* ------------------------------------------------------------------ NoopDirection *)
Lemma noop_wf n : dir_wf n unit (noop_dir (T:=R)) (fun _ => True).
Proof.
  constructor; cbn; intros; auto.
  - eexists. split; [reflexivity|exact I].
  - eexists _, _, _. split; [reflexivity|]. split; [exact I|discriminate].
Qed.
