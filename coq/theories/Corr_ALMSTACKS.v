(* Corr_ALMSTACKS.v — whole-run correspondence of the COMPOSED models
     AlmZeroFpr.alm_zerofpr   (ALM ∘ ZeroFpr.zerofpr),
     AlmPantr.alm_pantr       (ALM ∘ Pantr.pantr),
     AlmFista.alm_fista       (ALM ∘ FistaLoop.fista),
     AlmPanocDir.alm_panoc_dir (ALM ∘ PanocDir.panocD with the SHIPPED providers of Directions.v)
     AlmZeroFprDir.alm_zerofpr_dir (ALM ∘ ZeroFprDir.zerofprD with the SHIPPED providers of Directions.v, both values of
                               update_direction_from_prox_step)
     AlmPantrDir.alm_pantr_dir (ALM ∘ PantrDir.pantrD with the SHIPPED trust-region provider DirectionsTR.newton_tr_dir over
                               Steihaug.cg_solve; exact Hessian products and finite differences)
   at binary64 against the real
     ALMSolver<ZeroFPRSolver<ScriptedDirection>>, ALMSolver<PANTRSolver<ScriptedTRDirection>>, ALMSolver<FISTASolver>,
     ALMSolver<PANOCSolver<LBFGSDirection | StructuredLBFGSDirection | AndersonDirection | NoopDirection>>,
     ALMSolver<ZeroFPRSolver<LBFGSDirection | StructuredLBFGSDirection | AndersonDirection | NoopDirection>>,
     ALMSolver<PANTRSolver<NewtonTRDirection>>
   as run by harness/drv_solve.cpp (mode "alm" / "alm_nosigma").  Instantiation (that of Corr_ALMPANOC.v):
     - problem = with_defaults (vprob …) of the drv_solve family, provider mask = bits 1..7 of the driver's flags integer,
       wm_supplied = NaN vector (a supplied member poisons the caller's work buffers);
     - scripted directions (Corr_ZEROFPR.scripted_z / Corr_PANTR.scripted_tr) with the GLOBAL apply index;
     - shipped providers exactly as Corr_PANOCDIR.v instantiates them (lbfgs_dir / struct_dir / anderson_dir / noop_dir, initial
       states lbfgs_unsized / struct_unsized / anderson_unsized / tt, dpow, cbrt_eps64, the Hessian members of the driver's VProblem);
       the provider state persists across inner solves.  StructuredLBFGS's eval_grad_ψ is the SAME problem view the inner solver
       uses (AlmPanoc.o_grad_psi through AugLag's vtable model, for the y and Σ stored by initialize); the evaluations of its
       Hessian-vector term (ghost counter sd_hcalls, cumulative in the provider state) are added to the evaluation count;
     - NewtonTRDirection exactly as Corr_PANTRDIR.v instantiates it (capability flags of the driver's problem, eval_hess_ψ_prod of
       the VProblem, iteration-cap table, ε_mach = 2^-52), its eval_grad_ψ (finite differences) being the inner solver's own problem view
       for the y and Σ stored by the `initialize` of the CURRENT inner solve; initial state ntr_new; the provider state persists across
       inner solves (its only content besides y / Σ is the ghost list of Hessian products per apply call, which is added to the
       evaluation count); the trust radius is NOT part of the world: every inner solve re-initialises it;
     - stop() injected at a cumulative evaluation / callback / direction-call index (direction calls are only counted by the driver
       for the scripted directions); the evaluations of ALM's automatic penalty initialisation precede the first inner solve;
     - clocks never expire; nanv = NaN.
   Compared: final status, outer_iterations, ε, δ, norm_penalty, inner_convergence_failures, sum of inner iterations, x, y, Σ written
   back, evaluation / direction-call / callback counts and EVERY progress-callback record of every inner solve with its outer index,
   Σ and y (record comparison of the per-solver files: rec_agree / yrec_agree / frec_agree).  A provider exception of the real run
   (the exception leaves ALMSolver::operator()) must be `None` of the composed model, in the same inner solve, after the same
   records of the earlier inner solves (chk_exception). *)
From Coq Require Import Floats List ZArith Bool Arith.
From Alpaqa Require Import Num NumF Vec Prox SolverStatus SolverKernels AugLag Lbfgs LMQR Panoc ZeroFpr Pantr FistaLoop Directions PanocDir ZeroFprDir
     Steihaug DirectionsTR PantrDir
     Alm AlmCompose AlmPanoc AlmZeroFpr AlmPantr AlmFista AlmPanocDir AlmZeroFprDir AlmPantrDir
     Corr_PANOC Corr_ZEROFPR Corr_PANTR Corr_FISTA Corr_PANOCDIR Corr_PANTRDIR Corr_ALMPANOC.
Import ListNotations.
Local Open Scope float_scope.

(* the inner solver stack of one case *)
Inductive stack :=
| StkZfpr (prm : Panoc.params (T:=float)) (script : list nat) (initial : bool)      (* ZeroFPRSolver<ScriptedDirection> *)
| StkPantr (prm : trparams (T:=float)) (script : list nat) (initial : bool)         (* PANTRSolver<ScriptedTRDirection> *)
| StkFista (prm : fparams (T:=float))                                               (* FISTASolver *)
| StkDir (prm : Panoc.params (T:=float)) (sel : dirsel) (provide_hess : bool)       (* PANOCSolver<shipped provider> *)
| StkZDir (prm : Panoc.params (T:=float)) (from_prox : bool) (sel : dirsel) (provide_hess : bool)    (* ZeroFPRSolver<shipped provider> *)
| StkTDir (prm : trparams (T:=float))                                                (* PANTRSolver<NewtonTRDirection> *)
          (hvf : float) (fd : bool) (fdstep : float)                                 (* NewtonTRDirectionParams *)
          (ts tsr tmax : float) (mitab : list Z)                                     (* SteihaugCGParams; mitab: nJ |-> (index_t) round(nJ * max_iter_factor) *)
          (provide_hess : bool).

(* one callback record as reported by the driver under ALM *)
Inductive anyrec := RX (r : xrec) | RY (r : yrec) | RF (r : frec).
Record srec := mkSR { sr_outer : nat; sr_Sigma : list float; sr_y : list float; sr_rec : anyrec }.

Inductive skcase :=
| SKCase (n : nat) (Q : list (list float)) (c w : list float) (A : list (list float)) (d : list float)
         (Clb Cub Dlb Dub l1 : list float) (split provbits : nat) (x0 y0 S0 : list float) (user_sigma : bool)
         (stk : stack) (ap : alm_params (T:=float))
         (stop_eval stop_cb stop_dir : Z) (fuel lsfuel ofuel : nat)
         (* what the implementation did *)
         (exc : bool)
         (status : Alm.status) (outer : nat) (eps delta norm_pen : float) (fails iters : nat)
         (x_out y_out S_out : list float) (evals dircalls cbs : nat) (recs : list srec).

(* what the composed model did, independent of the stack *)
Record ssum := mkSS { ss_final : final (T:=float); ss_x : list float; ss_evals : nat; ss_dir : nat; ss_cbs : nat; ss_recs : list srec }.

(* the records of all inner solves, in order: the log of solve i with the (outer index, Σ, y) of trace record i *)
Fixpoint recs_of {Lg} (f : Lg -> list anyrec) (logs : list Lg) (tr : list (iter_rec (T:=float))) : list srec :=
  match logs, tr with
  | lg :: logs', rc :: tr' => map (fun r => mkSR (it_i rc) (it_Sigma rc) (it_y rc) r) (f lg) ++ recs_of f logs' tr'
  | _, _ => []
  end.

Definition zlog (r : result (T:=float)) : list anyrec :=
  match r with Done o => map (fun r => RX (rec_of r)) (out_log o) | _ => [] end.
Definition tlog (r : tresult (T:=float)) : list anyrec :=
  match r with TDone o => map (fun r => RY (yrec_of r)) (to_log o) | _ => [] end.
Definition flog (need : bool) (r : fresult (T:=float)) : list anyrec :=
  match r with FDone o => map (fun r => RF (frec_of need r)) (fo_log o) | _ => [] end.
Definition dlog {D} (r : resultD D) : list anyrec :=
  match r with DoneD _ o => map (fun r => RX (rec_of r)) (out_log (od_out _ o)) | _ => [] end.

Definition zdlog {D} (r : zresultD D) : list anyrec :=
  match r with ZDoneD _ o => map (fun r => RX (rec_of r)) (out_log (zo_out _ o)) | _ => [] end.

Definition tdlog {D} (r : tresultD (T:=float) D) : list anyrec :=
  match r with TDoneD _ o => map (fun r => RY (yrec_of r)) (to_log (tod_out _ o)) | _ => [] end.

Definition run_sk (cs : skcase) : option ssum :=
  match cs with
  | SKCase n Q c w A d Clb Cub Dlb Dub l1 split provbits x0 y0 S0 user_sigma stk ap se sc sd fuel lsfuel ofuel
           _ _ _ _ _ _ _ _ _ _ _ _ _ _ _ =>
      let dlb := map lb_of_float Dlb in let dub := map ub_of_float Dub in
      let clb := map lb_of_float Clb in let cub := map ub_of_float Cub in
      let m := length y0 in
      let Pb := with_defaults (vprob n Q c w A d dlb dub) in
      let prov := prov_of_bits provbits in
      let wm := fun _ : list float => repeat nan m in
      let off := alm_pre_evals m ap user_sigma S0 in
      let post := kkt_evals m in
      let stop := fun cn : counters => after se (evals_of m cn + off) || after sc (c_cb cn) || after sd (c_dir cn) in
      let Σ0 := if user_sigma then Some S0 else None in
      match stk with
      | StkZfpr prm script initial =>
          match alm_zerofpr Pb prov wm clb cub l1 split (scripted_z script n) initial stop (fun _ => false) (fun _ => false)
                            prm ap lsfuel fuel ofuel nan Σ0 y0 x0 with
          | None => None
          | Some co => Some (mkSS (co_final co) (co_x co) (evals_of m (co_w co) + off + post) (c_dir (co_w co)) (c_cb (co_w co))
                                  (recs_of zlog (co_logs co) (co_trace co)))
          end
      | StkPantr prm script initial =>
          match alm_pantr Pb prov wm clb cub l1 split (scripted_tr script n) initial stop (fun _ => false) (fun _ => false)
                          prm ap lsfuel fuel ofuel nan Σ0 y0 x0 with
          | None => None
          | Some co => Some (mkSS (co_final co) (co_x co) (evals_of m (co_w co) + off + post) (c_dir (co_w co)) (c_cb (co_w co))
                                  (recs_of tlog (co_logs co) (co_trace co)))
          end
      | StkFista prm =>
          match alm_fista Pb prov clb cub l1 split
                          (fun cn => fafter se (fevals_of m cn + off) || fafter sc (fc_cb cn)) (fun _ => false) (fun _ => false)
                          prm ap lsfuel fuel ofuel nan Σ0 y0 x0 with
          | None => None
          | Some co => Some (mkSS (co_final co) (co_x co) (fevals_of m (co_w co) + off + post) 0 (fc_cb (co_w co))
                                  (recs_of (flog (crit_needs_gradh (fp_crit prm))) (co_logs co) (co_trace co)))
          end
      | StkDir prm sel ph =>
          (* the real providers do not report direction calls to the driver: no injection point there, count 0 *)
          let stopd := fun cn : counters => after se (evals_of m cn + off) || after sc (c_cb cn) in
          let run {D} (ops : dirops float D) (d0 : D) (hc : D -> nat) :=
            match alm_panoc_dir Pb prov wm clb cub l1 split D ops stopd (fun _ => false) (fun _ => false)
                                prm ap lsfuel fuel d0 ofuel nan Σ0 y0 x0 with
            | None => None
            | Some co =>
                let cn := fst (co_w co) in
                Some (mkSS (co_final co) (co_x co) (evals_of m cn + hc (snd (co_w co)) * hcost m sel + off + post) 0 (c_cb cn)
                           (recs_of dlog (co_logs co) (co_trace co)))
            end in
          match sel with
          | SelNoop => run noop_dir tt (fun _ => 0%nat)
          | SelLbfgs LP rescale => run (lbfgs_dir n dpow LP rescale) lbfgs_unsized (fun _ => 0%nat)
          | SelAnderson mem mdf rescale => run (anderson_dir n mem mdf rescale) (anderson_unsized mem mdf) (fun _ => 0%nat)
          | SelStruct LP hvf fd full use_scaled =>
              run (struct_dir n dpow LP clb cub l1 dlb dub
                              true ph ph true false     (* BoxConstrProblem: inactive indices, box D; VProblem: Hessian members iff provide_hess; no eval_grad_gi *)
                              (fun x y Σ => AlmPanoc.o_grad_psi Pb prov y Σ x)      (* problem.eval_grad_ψ: the inner solver's own problem view *)
                              (vp_hess_L_prod n Q w d) (vp_hess_psi_prod n Q w A d Dlb Dub)
                              (vp_g n A d) (fun _ _ => [])
                              cbrt_eps64 hvf fd full use_scaled)
                  struct_unsized (fun s => sd_hcalls s)
          end
      | StkZDir prm fp sel ph =>
          (* as StkDir, the inner solver being ZeroFPRSolver: the provider is handed the PROX iterate (ZeroFprDir.zpassD) *)
          let stopd := fun cn : counters => after se (evals_of m cn + off) || after sc (c_cb cn) in
          let run {D} (ops : dirops float D) (d0 : D) (hc : D -> nat) :=
            match alm_zerofpr_dir Pb prov wm clb cub l1 split D ops stopd (fun _ => false) (fun _ => false)
                                  prm fp ap lsfuel fuel d0 ofuel nan Σ0 y0 x0 with
            | None => None
            | Some co =>
                let cn := fst (co_w co) in
                Some (mkSS (co_final co) (co_x co) (evals_of m cn + hc (snd (co_w co)) * hcost m sel + off + post) 0 (c_cb cn)
                           (recs_of zdlog (co_logs co) (co_trace co)))
            end in
          match sel with
          | SelNoop => run noop_dir tt (fun _ => 0%nat)
          | SelLbfgs LP rescale => run (lbfgs_dir n dpow LP rescale) lbfgs_unsized (fun _ => 0%nat)
          | SelAnderson mem mdf rescale => run (anderson_dir n mem mdf rescale) (anderson_unsized mem mdf) (fun _ => 0%nat)
          | SelStruct LP hvf fd full use_scaled =>
              run (struct_dir n dpow LP clb cub l1 dlb dub
                              true ph ph true false
                              (fun x y Σ => AlmPanoc.o_grad_psi Pb prov y Σ x)
                              (vp_hess_L_prod n Q w d) (vp_hess_psi_prod n Q w A d Dlb Dub)
                              (vp_g n A d) (fun _ _ => [])
                              cbrt_eps64 hvf fd full use_scaled)
                  struct_unsized (fun s => sd_hcalls s)
          end
      | StkTDir prm hvf fd fdstep ts tsr tmax mitab ph =>
          (* the real provider does not report direction calls to the driver; Hessian products / finite-difference gradients made inside
             apply are not events of the loop model: no evaluation-index injection for this stack (the check converts it to a callback index) *)
          let stopd := fun cn : counters => after se (evals_of m cn + off) || after sc (c_cb cn) in
          match alm_pantr_dir Pb prov wm clb cub l1 split (ntrstate float)
                              (newton_tr_dir clb cub l1
                                             true ph ph (Nat.eqb m 0)      (* BoxConstrProblem: inactive indices; VProblem: Hessian members iff provide_hess *)
                                             (fun x y Σ => AlmPanoc.o_grad_psi Pb prov y Σ x)   (* problem.eval_grad_ψ: the inner solver's own problem view *)
                                             (vp_hess_psi_prod n Q w A d Dlb Dub)
                                             hvf fd fdstep ts tsr (ub_of_float tmax) (fun nJ => nth nJ mitab 0%Z) eps64)
                              stopd (fun _ => false) (fun _ => false) prm ap lsfuel fuel ntr_new ofuel nan Σ0 y0 x0 with
          | None => None
          | Some co =>
              let cn := fst (co_w co) in
              Some (mkSS (co_final co) (co_x co) (evals_of m cn + hcostT m fd * nsum (nt_prods (snd (co_w co))) + off + post) 0 (c_cb cn)
                         (recs_of tdlog (co_logs co) (co_trace co)))
          end
      end
  end.

Definition anyrec_agree (a b : anyrec) : bool :=
  match a, b with
  | RX a, RX b => rec_agree a b
  | RY a, RY b => yrec_agree a b
  | RF a, RF b => frec_agree a b
  | _, _ => false
  end.
Definition srec_agree (a b : srec) : bool :=
  Nat.eqb (sr_outer a) (sr_outer b) && vfeq (sr_Sigma a) (sr_Sigma b) && vfeq (sr_y a) (sr_y b) && anyrec_agree (sr_rec a) (sr_rec b).

(* ---------------------------------------------------------------- a provider exception of the real run
   The composed model has no result then, and says no more.  WHERE the exception happened is checked through the outer iteration limit:
   the real run threw inside inner solve j (read off the records it produced before: the last record is a Busy record of solve j, or
   the final record of solve j-1, or there is none: j = 0).  Then the composed model with alm.max_iter = j (which only cuts the run short:
   the inner solves do not see max_iter) must have a result whose records are the real records of solves 0..j-1, and the composed model
   with alm.max_iter = j+1 must have none. *)
Definition with_maxit (cs : skcase) (k : nat) : skcase :=
  match cs with
  | SKCase n Q c w A d Clb Cub Dlb Dub l1 split provbits x0 y0 S0 user_sigma stk ap se sc sd fuel lsfuel ofuel
           exc status outer eps delta norm_pen fails iters x_out y_out S_out evals dircalls cbs recs =>
      SKCase n Q c w A d Clb Cub Dlb Dub l1 split provbits x0 y0 S0 user_sigma stk
             (mkAP (p_tol ap) (p_dual_tol ap) (p_Delta ap) (p_init_pen ap) (p_init_pen_factor ap) (p_init_tol ap) (p_rho ap) (p_theta ap)
                   (p_M ap) (p_max_pen ap) (p_min_pen ap) k (p_single ap))
             se sc sd fuel lsfuel ofuel
             exc status outer eps delta norm_pen fails iters x_out y_out S_out evals dircalls cbs recs
  end.
Definition anyrec_busy (r : anyrec) : bool :=
  match r with
  | RX r => SolverStatus.status_eqb (x_status r) StBusy
  | RY r => SolverStatus.status_eqb (y_status r) StBusy
  | RF r => SolverStatus.status_eqb (fx_status r) StBusy
  end.
Definition exc_solve (recs : list srec) : nat :=
  match rev recs with
  | [] => 0%nat
  | r :: _ => if anyrec_busy (sr_rec r) then sr_outer r else S (sr_outer r)
  end.
Definition chk_exception (cs : skcase) (m : nat) (recs : list srec) : bool :=
  let j := exc_solve recs in
  (* m = 0: ALM makes exactly one inner solve, whatever max_iter > 0 *)
  (match m, j with
   | O, _ | _, O => true
   | _, _ => match run_sk (with_maxit cs j) with
             | Some s => list_agree srec_agree (ss_recs s) (filter (fun r => Nat.ltb (sr_outer r) j) recs)
             | None => false
             end
   end) &&
  match run_sk (with_maxit cs (S j)) with None => true | Some _ => false end.

Definition chkalmstacks (cs : skcase) : bool :=
  match cs with
  | SKCase n Q c w A d Clb Cub Dlb Dub l1 split provbits x0 y0 S0 user_sigma stk ap se sc sd fuel lsfuel ofuel
           exc status outer eps delta norm_pen fails iters x_out y_out S_out evals dircalls cbs recs =>
      match run_sk cs with
      | None => exc && chk_exception cs (length y0) recs   (* a provider call threw (fuel is never exhausted: it exceeds the iteration limits) *)
      | Some s =>
          let f := ss_final s in
          negb exc &&
          Alm.status_eqb (f_status f) status && Nat.eqb (f_outer f) outer && feq (oinf (f_eps f)) eps && feq (oinf (f_delta f)) delta &&
          feq (f_norm_pen f) norm_pen && Nat.eqb (f_fails f) fails && Nat.eqb (f_iters f) iters &&
          vfeq (ss_x s) x_out && vfeq (f_y f) y_out &&
          vfeq (match f_Sigma f with Some sg => if user_sigma then sg else S0 | None => S0 end) S_out &&
          Nat.eqb (ss_evals s) evals && Nat.eqb (ss_dir s) dircalls && Nat.eqb (ss_cbs s) cbs &&
          list_agree srec_agree (ss_recs s) recs
      end
  end.

(* printable summary of the model run (dump of the first disagreeing case) *)
Definition modelalmstacks (cs : skcase) :=
  match run_sk cs with
  | None => (None, (0, 0, 0)%nat, [])
  | Some s =>
      let f := ss_final s in
      (Some (f_status f, f_outer f, (oinf (f_eps f), oinf (f_delta f), f_norm_pen f), (f_fails f, f_iters f), (ss_x s, f_y f, f_Sigma f)),
       (ss_evals s, ss_dir s, ss_cbs s), ss_recs s)
  end.
