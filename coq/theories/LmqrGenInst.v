(* LmqrGenInst.v — the concrete matrix store the GENERATED limited-memory QR / Anderson code (coq/gen/LmqrGen.v) is run and
   reasoned about on: the record `qrst` of LMQR.v as a plain container (raw Q columns, raw R storage columns, the three
   indices, reorth_count, min_eig / max_eig as option), read and written through getc / upd only, and the record `aast`
   for the members of AndersonAccel.  None of the hand-model FUNCTIONS of LMQR.v (add_column, remove_column, solve_col,
   scale_R, qr_reset, ring_iter, minimize_update_anderson, aa_..) is used here: gq_step / ga_step dispatch an operation to the
   generated function (Corr_LmqrGen.v runs them at binary64 against the implementation; LmqrGenEq.v proves them equal to
   the hand model).  No proofs here. *)
From Coq Require Import List ZArith Bool Arith.
From Alpaqa Require Import Num Vec LMQR LmqrGenLib LmqrGen.
Import ListNotations.

Section Inst.
  Context {T : Type} `{Num T}.

  Definition with_Qs (st : qrst T) (Q : list (list T)) : qrst T :=
    mkQR Q (Rs st) (cap st) (q_idx st) (r_start st) (r_end st) (min_eig st) (max_eig st) (reorth st).
  Definition with_Rs (st : qrst T) (R : list (list T)) : qrst T :=
    mkQR (Qs st) R (cap st) (q_idx st) (r_start st) (r_end st) (min_eig st) (max_eig st) (reorth st).

  Definition lmqr_ops : qr_ops T (qrst T) := {|
    qo_rows := fun st => length (getc (Qs st) 0);
    qo_cols := fun st => cap st;
    qo_Qcol := fun st j => getc (Qs st) j;
    qo_set_Qcol := fun st j v => with_Qs st (upd j (fun _ => v) (Qs st));
    qo_Rcol := fun st c => getc (Rs st) c;
    qo_set_Rcol := fun st c v => with_Rs st (upd c (fun _ => v) (Rs st));
    qo_q_idx := fun st => q_idx st;
    qo_set_q_idx := fun st k => mkQR (Qs st) (Rs st) (cap st) k (r_start st) (r_end st) (min_eig st) (max_eig st) (reorth st);
    qo_r_idx_start := fun st => r_start st;
    qo_set_r_idx_start := fun st k => mkQR (Qs st) (Rs st) (cap st) (q_idx st) k (r_end st) (min_eig st) (max_eig st) (reorth st);
    qo_r_idx_end := fun st => r_end st;
    qo_set_r_idx_end := fun st k => mkQR (Qs st) (Rs st) (cap st) (q_idx st) (r_start st) k (min_eig st) (max_eig st) (reorth st);
    qo_reorth_count := fun st => reorth st;
    qo_set_reorth_count := fun st k => mkQR (Qs st) (Rs st) (cap st) (q_idx st) (r_start st) (r_end st) (min_eig st) (max_eig st) k;
    qo_min_eig := fun st => min_eig st;
    qo_set_min_eig := fun st o => mkQR (Qs st) (Rs st) (cap st) (q_idx st) (r_start st) (r_end st) o (max_eig st) (reorth st);
    qo_max_eig := fun st => max_eig st;
    qo_set_max_eig := fun st o => mkQR (Qs st) (Rs st) (cap st) (q_idx st) (r_start st) (r_end st) (min_eig st) o (reorth st);
    qo_resize_Q := fun st n m => mkQR (repeat (repeat n0 n) m) (Rs st) m (q_idx st) (r_start st) (r_end st) (min_eig st) (max_eig st) (reorth st);
    qo_resize_R := fun st a b => with_Rs st (repeat (repeat n0 a) b)
  |}.

  (* the fuels the generated loops are run with: 64 re-orthogonalisation passes (LMQR.reorth_fuel), capacity-many ring steps *)
  Definition gfS : nat := reorth_fuel.
  Definition gfN (st : qrst T) : nat := cap st.

  (* a default-constructed LimitedMemoryQR: empty storage *)
  Definition gqr0 : qrst T := mkQR [] [] 0 0 0 0 None None 0.
  (* LimitedMemoryQR(n, m): storage of that size, indices at their defaults = resize(n, m) on the empty object *)
  Definition gqr_new (n m : nat) : qrst T := g_resize lmqr_ops gfS 0 gqr0 n m.

  Inductive gqop :=
  | GAdd (v : list T) | GRem | GReset | GScale (s : T) | GSolve (b : list T) (tol : T).

  (* one public operation of LimitedMemoryQR, executed by the GENERATED function; x = the caller's solve buffer *)
  Definition gq_step (stx : qrst T * list T) (o : gqop) : qrst T * list T :=
    let '(st, x) := stx in
    let f := gfN st in
    match o with
    | GAdd v => (g_add_column lmqr_ops gfS f st v, x)
    | GRem => (g_remove_column lmqr_ops gfS f st, x)
    | GReset => (g_reset lmqr_ops gfS f st, x)
    | GScale s => (g_scale_R lmqr_ops gfS f st s, x)
    | GSolve b tol => (st, g_solve_col lmqr_ops gfS f st b x tol)
    end.

  (* AndersonAccel: members as a tuple <-> aast *)
  Definition aa_pack (mdf : T) (t : qrst T * list (list T) * list T * list T * bool) : aast T :=
    let '(qr, G, rl, gam, ini) := t in mkAA qr G rl gam mdf ini.

  (* AndersonAccel(params, n): resize(n) on a default-constructed object *)
  Definition gaa_new (n mem : nat) (mdf : T) : aast T :=
    aa_pack mdf (g_aa_resize lmqr_ops gfS 0 mem mdf gqr0 [] [] [] false n).

  Inductive gaop :=
  | GAInit (g r : list T) | GACompute (g r : list T) | GAReset | GAScale (s : T).

  (* one public operation of AndersonAccel by the GENERATED function; None = std::logic_error *)
  Definition ga_step (mem : nat) (a : aast T) (o : gaop) : option (aast T * list T) :=
    let f := gfN (a_qr a) in
    let mdf := a_mdf a in
    match o with
    | GAInit g r => Some (aa_pack mdf (g_aa_initialize lmqr_ops gfS f mem mdf (a_qr a) (a_G a) (a_rlast a) (a_gamma a) (a_init a) g r), [])
    | GACompute g r =>
        match g_aa_compute lmqr_ops gfS f mem mdf (a_qr a) (a_G a) (a_rlast a) (a_gamma a) (a_init a) g r (repeat n0 (length g)) with
        | Some (qr, G, rl, gam, ini, x) => Some (mkAA qr G rl gam mdf ini, x)
        | None => None
        end
    | GAReset => Some (aa_pack mdf (g_aa_reset lmqr_ops gfS f mem mdf (a_qr a) (a_G a) (a_rlast a) (a_gamma a) (a_init a)), [])
    | GAScale s => Some (aa_pack mdf (g_aa_scale_R lmqr_ops gfS f mem mdf (a_qr a) (a_G a) (a_rlast a) (a_gamma a) (a_init a) s), [])
    end.
End Inst.
