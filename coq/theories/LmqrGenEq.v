(* LmqrGenEq.v — tie 1 for C10 (translator G12): every piece that translate/gen_lmqr.py regenerates from ringbuffer.hpp /
   limited-memory-qr.hpp / anderson-helpers.hpp / anderson.hpp on every run (coq/gen/LmqrGen.v, run on the container of
   LmqrGenInst.v) EQUALS the corresponding piece of the hand model LMQR.v — the one all theorems of LMQRRing / LMQRAlg / LMQRLsq /
   LMQRAnd / Properties_C10.v are about.  A change of the source changes LmqrGen.v and breaks the lemma named after the generated
   definition here (`g_<name>_eq`), which is a proof obligation of Properties_C10.v.
   Parts: 1 container laws, ring functions, iterator loops (any number system) — 2 add_column (any number system, under the
   storage shape) — 3 remove_column (over R: the generated rotation has - - s where the model has s; under wf) — 4 solve_col,
   scale_R, get_Q (any number system) — 5 minimize_update_anderson and the AndersonAccel members, whole operations and
   histories (over R) — 6 the theorems of the hand model restated for the generated code.
   Fuels: the generated while loops run with fuelS (scalar conditions; = LMQR.reorth_fuel) and fuelN (index conditions; = capacity). *)
From Coq Require Import Reals List ZArith Lra Lia Bool Arith.
From Alpaqa Require Import Num NumR Vec LMQR LMQRRing LMQRAlg LMQRLsq LMQRAnd LmqrGenLib LmqrGen LmqrGenInst.
Import ListNotations.

(* ================================================================== part 1: container laws, ring functions, iterator loops *)
Notation GO := (@lmqr_ops _ _).

(* ------------------------------------------------------------------ container laws (lists) *)
Lemma vupd_upd {A} (l : list A) i x : vupd l i x = upd i (fun _ => x) l.
Proof. revert i; induction l as [|a l IH]; intros [|i]; cbn; try reflexivity. rewrite IH. reflexivity. Qed.

Lemma upd_get_self {A} (d : A) (f : A -> A) c (l : list A) : upd c (fun _ => f (nth c l d)) l = upd c f l.
Proof. revert c; induction l as [|a l IH]; intros [|c]; cbn; try reflexivity. rewrite IH. reflexivity. Qed.

Lemma upd_length' {A} i (f : A -> A) l : length (upd i f l) = length l.
Proof. revert i; induction l as [|a l IH]; intros [|i]; cbn; auto. Qed.

Lemma nth_upd_same {A} (d : A) i f (l : list A) : (i < length l)%nat -> nth i (upd i f l) d = f (nth i l d).
Proof. revert i; induction l as [|a l IH]; intros [|i] Hi; cbn in *; try lia; auto. apply IH. lia. Qed.

Lemma nth_upd_other {A} (d : A) i k f (l : list A) : i <> k -> nth i (upd k f l) d = nth i l d.
Proof. revert i k; induction l as [|a l IH]; intros [|i] [|k] Hik; cbn; auto; try lia. Qed.

Lemma upd_upd_same {A} i (f g : A -> A) l : upd i g (upd i f l) = upd i (fun x => g (f x)) l.
Proof. revert i; induction l as [|a l IH]; intros [|i]; cbn; auto. rewrite IH. reflexivity. Qed.

Lemma upd_ext {A} i (f g : A -> A) l : (forall x, f x = g x) -> upd i f l = upd i g l.
Proof. intros E. revert i; induction l as [|a l IH]; intros [|i]; cbn; auto. rewrite E; auto. rewrite IH; auto. Qed.

Lemma fold_left_ext_eq {A B} (f g : A -> B -> A) l : (forall a b, f a b = g a b) -> forall a, fold_left f l a = fold_left g l a.
Proof. intros E. induction l as [|b l IH]; intros a; cbn; [reflexivity|]. rewrite E. apply IH. Qed.

Lemma iter_shift {A} (f : A -> A) n x : Nat.iter n f (f x) = f (Nat.iter n f x).
Proof. induction n; [reflexivity|]. change (f (Nat.iter n f (f x)) = f (f (Nat.iter n f x))). rewrite IHn. reflexivity. Qed.

(* the storage shape under which a read after a write hits the written cell *)
Definition shape {T} (st : qrst T) : Prop :=
  length (Qs st) = cap st /\ length (Rs st) = cap st /\ Forall (fun c => length c = cap st) (Rs st).
Lemma wf_shape n (st : qrst R) : wf n st -> shape st.
Proof. intros (_ & _ & H1 & _ & H2 & H3). repeat split; assumption. Qed.

Lemma ci_idx_triple a b c : ci_idx (a, b, c) = (a, b).
Proof. reflexivity. Qed.

Section Ring.
  Context {T : Type} `{Num T}.
  Variables fS fN : nat.
  Notation O := (@lmqr_ops T _).

  (* ------------------------------------------------------------------ ringbuffer.hpp *)
  Lemma g_ci_eq_eq a b : g_ci_eq O fS fN a b = Nat.eqb (fst (fst a)) (fst (fst b)).
  Proof. destruct a as [[? ?] ?], b as [[? ?] ?]. reflexivity. Qed.

  Lemma g_cit_incr_eq zb c m : g_cit_incr O fS fN (zb, c, m) = (S zb, it_succ m c, m).
  Proof. reflexivity. Qed.

  Lemma g_cit_decr_eq zb c m : g_cit_decr O fS fN (zb, c, m) = ((zb - 1)%nat, it_pred m c, m).
  Proof. unfold g_cit_decr, it_pred. rewrite !Nat.sub_1_r. reflexivity. Qed.

  Lemma g_rit_deref_eq it : g_rit_deref O fS fN it = g_cit_decr O fS fN it.
  Proof. reflexivity. Qed.
  Lemma g_rit_incr_eq it : g_rit_incr O fS fN it = g_cit_decr O fS fN it.
  Proof. reflexivity. Qed.

  Lemma g_range_begin_eq size i1 i2 m : g_range_begin O fS fN (size, i1, i2, m) = (0%nat, i1, m).
  Proof. reflexivity. Qed.
  Lemma g_range_end_eq size i1 i2 m : g_range_end O fS fN (size, i1, i2, m) = (size, i2, m).
  Proof. reflexivity. Qed.
  Lemma g_rrange_begin_eq rg : g_rrange_begin O fS fN rg = g_range_end O fS fN rg.
  Proof. reflexivity. Qed.
  Lemma g_rrange_end_eq rg : g_rrange_end O fS fN rg = g_range_begin O fS fN rg.
  Proof. reflexivity. Qed.

  (* ------------------------------------------------------------------ LimitedMemoryQR: index functions and getters *)
  Lemma g_n_eq st : g_n O fS fN st = length (getc (Qs st) 0).
  Proof. reflexivity. Qed.
  Lemma g_m_eq st : g_m O fS fN st = cap st.
  Proof. reflexivity. Qed.
  Lemma g_r_succ_eq st i : g_r_succ O fS fN st i = r_succ (cap st) i.
  Proof. reflexivity. Qed.
  Lemma g_r_pred_eq st i : g_r_pred O fS fN st i = r_pred (cap st) i.
  Proof. unfold g_r_pred, r_pred. cbn. rewrite !Nat.sub_1_r. reflexivity. Qed.
  Lemma g_num_columns_eq st : g_num_columns O fS fN st = q_idx st.
  Proof. reflexivity. Qed.
  Lemma g_ring_head_eq st : g_ring_head O fS fN st = r_start st.
  Proof. reflexivity. Qed.
  Lemma g_ring_tail_eq st : g_ring_tail O fS fN st = r_end st.
  Proof. reflexivity. Qed.
  Lemma g_ring_next_eq st i : g_ring_next O fS fN st i = r_succ (cap st) i.
  Proof. reflexivity. Qed.
  Lemma g_ring_prev_eq st i : g_ring_prev O fS fN st i = r_pred (cap st) i.
  Proof. unfold g_ring_prev. apply g_r_pred_eq. Qed.
  Lemma g_current_history_eq st : g_current_history O fS fN st = q_idx st.
  Proof. reflexivity. Qed.
  Lemma g_get_min_eig_eq st : g_get_min_eig O fS fN st = min_eig st.
  Proof. reflexivity. Qed.
  Lemma g_get_max_eig_eq st : g_get_max_eig O fS fN st = max_eig st.
  Proof. reflexivity. Qed.
  Lemma g_ring_iter_eq st : g_ring_iter O fS fN st = (q_idx st, r_start st, r_end st, cap st).
  Proof. reflexivity. Qed.

  (* ------------------------------------------------------------------ reset, resize *)
  Lemma g_reset_eq st : g_reset O fS fN st = qr_reset st.
  Proof. reflexivity. Qed.
  Lemma g_resize_eq st n m : g_resize O fS fN st n m = qr_new n m.
  Proof. reflexivity. Qed.

  (* ------------------------------------------------------------------ iterator loops = folds over the model's index lists.
     A loop `for (it = (zb, c, m); it != (zb + cnt, _, m); ++it) x = step x *it` run with fuel >= cnt *)
  Lemma fwd_loop_eq {X} (step : X -> nat * nat -> X) m e2 : forall cnt fuel zb c (x : X), (cnt <= fuel)%nat ->
    while_c fuel (fun '(x, it) => negb (g_ci_eq O fS fN it ((zb + cnt)%nat, e2, m)))
                 (fun '(x, it) => (step x (ci_idx it), g_cit_incr O fS fN it)) (x, (zb, c, m))
    = (fold_left step (iter_fwd cnt zb c m) x, ((zb + cnt)%nat, Nat.iter cnt (it_succ m) c, m)).
  Proof.
    induction cnt as [|cnt IH]; intros fuel zb c x Hf.
    - rewrite Nat.add_0_r. destruct fuel; cbn [while_c]; [reflexivity|]. rewrite g_ci_eq_eq. cbn [fst]. rewrite Nat.eqb_refl. reflexivity.
    - destruct fuel as [|fuel]; [lia|]. cbn [while_c]. rewrite g_ci_eq_eq. cbn [fst].
      replace (Nat.eqb zb (zb + S cnt)) with false by (symmetry; apply Nat.eqb_neq; lia). cbn [negb].
      rewrite g_cit_incr_eq. replace (zb + S cnt)%nat with (S zb + cnt)%nat by lia. rewrite IH by lia.
      cbn [iter_fwd fold_left]. rewrite ci_idx_triple. f_equal. f_equal. f_equal.
      rewrite (iter_shift (it_succ m)). reflexivity.
  Qed.

  (* the reverse loop `for (it = rbegin; it != rend; ++it) x = step x (deref it, it.forwardit)`; the forward iterator inside the
     reverse iterator runs from (cnt, c, m) down to (0, _, m) *)
  Lemma rev_loop_eq {X} (step : X -> (nat * nat) * (nat * nat) -> X) m e2 : forall cnt fuel c (x : X), (cnt <= fuel)%nat ->
    fst (while_c fuel (fun '(x, it) => negb (g_ci_eq O fS fN it (0%nat, e2, m)))
                 (fun '(x, it) => (step x (ci_idx (g_rit_deref O fS fN it), ci_idx it), g_rit_incr O fS fN it)) (x, (cnt, c, m)))
    = fold_left step (iter_rev cnt cnt c m) x.
  Proof.
    induction cnt as [|cnt IH]; intros fuel c x Hf.
    - destruct fuel; cbn [while_c]; [reflexivity|]. rewrite g_ci_eq_eq. reflexivity.
    - destruct fuel as [|fuel]; [lia|]. cbn [while_c]. rewrite g_ci_eq_eq. cbn [fst negb Nat.eqb].
      change (g_rit_incr O fS fN (S cnt, c, m)) with (g_cit_decr O fS fN (S cnt, c, m)).
      change (g_rit_deref O fS fN (S cnt, c, m)) with (g_cit_decr O fS fN (S cnt, c, m)).
      rewrite g_cit_decr_eq. cbn [iter_rev fold_left]. rewrite !ci_idx_triple.
      replace (S cnt - 1)%nat with cnt by lia. apply IH. lia.
  Qed.
End Ring.


(* ================================================================== add_column: generated code = hand model *)

(* ------------------------------------------------------------------ list helpers *)
Lemma add_upd_id {A} i (l : list A) : upd i (fun x => x) l = l.
Proof. revert i; induction l as [|a l IH]; intros [|i]; cbn; try reflexivity. rewrite IH. reflexivity. Qed.

Lemma add_map2_nil_r {A B C} (f : A -> B -> C) l : map2 f l [] = [].
Proof. destruct l; reflexivity. Qed.

Lemma add_map2_length {A B C} (f : A -> B -> C) : forall a b, length a = length b -> length (map2 f a b) = length a.
Proof. induction a as [|x a IH]; intros [|y b] E; cbn in *; try reflexivity; try discriminate. rewrite IH; [reflexivity|lia]. Qed.

Lemma add_map2_app {A B C} (f : A -> B -> C) : forall a b c, length a = length c -> map2 f (a ++ b) c = map2 f a c.
Proof.
  induction a as [|x a IH]; intros b [|y c] E; cbn in *; try discriminate.
  - destruct b; reflexivity.
  - rewrite IH; [reflexivity|lia].
Qed.

Lemma add_map2_snd {A B} : forall (a : list A) (b : list B), length b <= length a -> map2 (fun _ s => s) a b = b.
Proof. induction a as [|x a IH]; intros [|y b] E; cbn in *; try reflexivity; try lia. rewrite IH; [reflexivity|lia]. Qed.

Lemma add_skipn_app_len {A} : forall n (a b : list A), length a = n -> skipn n (a ++ b) = b.
Proof. induction n as [|n IH]; intros [|x a] b E; cbn in *; try reflexivity; try discriminate. apply IH. lia. Qed.

Lemma add_skipn_cons {A} (d : A) : forall j (l : list A), j < length l -> skipn j l = nth j l d :: skipn (S j) l.
Proof. induction j as [|j IH]; intros [|x l] Hj; cbn in *; try lia; try reflexivity. apply IH. lia. Qed.

Lemma add_firstn_skipn_upd {A} (g : A -> A) : forall (l : list A) n j k, j + n <= k ->
  firstn n (skipn j (upd k g l)) = firstn n (skipn j l).
Proof.
  induction l as [|a l IH]; intros n j k Hk.
  - destruct k; reflexivity.
  - destruct k as [|k].
    + assert (j = 0) by lia. assert (n = 0) by lia. subst. reflexivity.
    + destruct j as [|j].
      * destruct n as [|n]; [reflexivity|]. cbn. f_equal. apply (IH n 0 k). lia.
      * cbn. apply IH. lia.
Qed.

Lemma add_firstn_upd {A} (g : A -> A) (l : list A) k : firstn k (upd k g l) = firstn k l.
Proof. apply (add_firstn_skipn_upd g l k 0 k). lia. Qed.

Lemma add_vupd_app {A} : forall (a : list A) x b y, vupd (a ++ x :: b) (length a) y = a ++ y :: b.
Proof. induction a as [|z a IH]; intros x b y; cbn; [reflexivity|]. rewrite IH. reflexivity. Qed.

Section SecAdd.
  Context {T : Type} `{Num T}.
  Local Open Scope num_scope.
  Notation O := (@lmqr_ops T _).

  Lemma add_mgs_length : forall (Qc : list (list T)) q, length (snd (mgs Qc q)) = length Qc.
  Proof.
    induction Qc as [|Qi Qc IH]; intros q; cbn; [reflexivity|].
    specialize (IH (vsub q (vscale (vdot Qi q) Qi))).
    destruct (mgs Qc (vsub q (vscale (vdot Qi q) Qi))) as [q' ss]. cbn in *. rewrite IH. reflexivity.
  Qed.

  Lemma add_getc_upd_same (g : list T -> list T) k (l : list (list T)) : k < length l -> getc (upd k g l) k = g (getc l k).
  Proof. intros Hk. unfold getc. apply nth_upd_same. exact Hk. Qed.

  (* ---------------------------------------------------------------- the two loop bodies on the concrete store *)
  (* the common shape: s = Q_i . q ; R(i, re) = f R(i, re) s ; q -= s Q_i *)
  Definition add_gstep (f : T -> T -> T) (k re : nat) (st : qrst T) (i : nat) : qrst T :=
    let s := vdot (getc (Qs st) i) (getc (Qs st) k) in
    mkQR (upd k (fun q => vsub q (vscale s (getc (Qs st) i))) (Qs st))
         (upd re (upd i (fun x => f x s)) (Rs st))
         (cap st) (q_idx st) (r_start st) (r_end st) (min_eig st) (max_eig st) (reorth st).

  Lemma g_add_column_for1_step_eq fS fN k re (st : qrst T) i :
    g_add_column_for1_step O fS fN k re st i =
    let s := vdot (getc (Qs st) i) (getc (Qs st) k) in
    mkQR (upd k (fun q => vsub q (vscale s (getc (Qs st) i))) (Qs st))
         (upd re (upd i (fun _ => s)) (Rs st))
         (cap st) (q_idx st) (r_start st) (r_end st) (min_eig st) (max_eig st) (reorth st).
  Proof.
    unfold g_add_column_for1_step, qset_R.
    cbn [lmqr_ops qo_Qcol qo_set_Qcol qo_Rcol qo_set_Rcol].
    unfold with_Qs, with_Rs. cbn [Qs Rs cap q_idx r_start r_end min_eig max_eig reorth].
    rewrite vupd_upd. f_equal.
    - exact (upd_get_self [] (fun q => vsub q (vscale (vdot (getc (Qs st) i) (getc (Qs st) k)) (getc (Qs st) i))) k (Qs st)).
    - exact (upd_get_self [] (upd i (fun _ => vdot (getc (Qs st) i) (getc (Qs st) k))) re (Rs st)).
  Qed.

  Lemma g_add_column_for2_step_eq fS fN k re (st : qrst T) i :
    g_add_column_for2_step O fS fN k re st i =
    let s := vdot (getc (Qs st) i) (getc (Qs st) k) in
    mkQR (upd k (fun q => vsub q (vscale s (getc (Qs st) i))) (Qs st))
         (upd re (upd i (fun x => x + s)) (Rs st))
         (cap st) (q_idx st) (r_start st) (r_end st) (min_eig st) (max_eig st) (reorth st).
  Proof.
    unfold g_add_column_for2_step, qset_R, qR.
    cbn [lmqr_ops qo_Qcol qo_set_Qcol qo_Rcol qo_set_Rcol].
    unfold with_Qs, with_Rs. cbn [Qs Rs cap q_idx r_start r_end min_eig max_eig reorth].
    rewrite vupd_upd. f_equal.
    - exact (upd_get_self [] (fun q => vsub q (vscale (vdot (getc (Qs st) i) (getc (Qs st) k)) (getc (Qs st) i))) k (Qs st)).
    - rewrite (upd_get_self n0 (fun x => x + vdot (getc (Qs st) i) (getc (Qs st) k)) i (getc (Rs st) re)).
      exact (upd_get_self [] (upd i (fun x => x + vdot (getc (Qs st) i) (getc (Qs st) k))) re (Rs st)).
  Qed.

  Lemma add_for1_gstep fS fN k re (st : qrst T) i :
    g_add_column_for1_step O fS fN k re st i = add_gstep (fun _ s => s) k re st i.
  Proof. apply g_add_column_for1_step_eq. Qed.
  Lemma add_for2_gstep fS fN k re (st : qrst T) i :
    g_add_column_for2_step O fS fN k re st i = add_gstep nadd k re st i.
  Proof. apply g_add_column_for2_step_eq. Qed.

  (* ---------------------------------------------------------------- a run of the loop body = mgs *)
  (* what rows j .. j + |ss| - 1 of the R column become *)
  Definition add_F (f : T -> T -> T) (j : nat) (ss col : list T) : list T :=
    firstn j col ++ map2 f (skipn j col) ss ++ skipn (j + length ss) col.

  Lemma add_F_shift f s ss : forall j col,
    add_F f (S j) ss (upd j (fun x => f x s) col) = add_F f j (s :: ss) col.
  Proof.
    unfold add_F. induction j as [|j IH]; intros [|x col].
    - reflexivity.
    - reflexivity.
    - reflexivity.
    - specialize (IH col). cbn in *. rewrite IH. reflexivity.
  Qed.

  Lemma add_F_nil f j col : add_F f j [] col = col.
  Proof. unfold add_F. rewrite add_map2_nil_r, Nat.add_0_r. cbn. apply firstn_skipn. Qed.

  Lemma add_fold f k re : forall n j (st : qrst T), j + n <= k -> k < length (Qs st) ->
    fold_left (add_gstep f k re) (seq j n) st =
    let qs := mgs (firstn n (skipn j (Qs st))) (getc (Qs st) k) in
    mkQR (upd k (fun _ => fst qs) (Qs st)) (upd re (add_F f j (snd qs)) (Rs st))
         (cap st) (q_idx st) (r_start st) (r_end st) (min_eig st) (max_eig st) (reorth st).
  Proof.
    induction n as [|n IH]; intros j st Hj Hk.
    - cbv zeta. cbn [seq fold_left firstn mgs fst snd]. unfold getc. rewrite (upd_get_self [] (fun x => x) k (Qs st)), add_upd_id.
      rewrite (upd_ext re (add_F f j []) (fun x => x)) by (intros; apply add_F_nil).
      rewrite add_upd_id. destruct st; reflexivity.
    - cbn [seq fold_left]. rewrite IH; [|lia|unfold add_gstep; cbn [Qs]; rewrite upd_length'; exact Hk].
      unfold add_gstep. cbn [Qs Rs cap q_idx r_start r_end min_eig max_eig reorth].
      rewrite add_firstn_skipn_upd by lia.
      rewrite (add_skipn_cons [] j (Qs st)) by lia. cbn [firstn mgs].
      rewrite add_getc_upd_same by exact Hk. cbv beta zeta. change (nth j (Qs st) []) with (getc (Qs st) j).
      destruct (mgs (firstn n (skipn (S j) (Qs st)))
                    (vsub (getc (Qs st) k) (vscale (vdot (getc (Qs st) j) (getc (Qs st) k)) (getc (Qs st) j)))) as [q' ss].
      cbn [fst snd]. rewrite !upd_upd_same. f_equal.
      apply upd_ext. intros col. apply add_F_shift.
  Qed.

  Lemma add_upd_ext_at {A} (d : A) i (f g : A -> A) l : f (nth i l d) = g (nth i l d) -> upd i f l = upd i g l.
  Proof. intros E. rewrite <- (upd_get_self d f), <- (upd_get_self d g), E. reflexivity. Qed.

  (* ---------------------------------------------------------------- the while loop *)
  Lemma g_add_column_while1_cond_eq fS fN k re et (st : qrst T) nq nv :
    g_add_column_while1_cond O fS fN k re et st nq nv = (nq <? et * nv).
  Proof. reflexivity. Qed.

  Lemma g_add_column_while1_step_eq fS fN k re et (st : qrst T) nq nv :
    q_idx st <= k -> k < length (Qs st) ->
    g_add_column_while1_step O fS fN k re et st nq nv =
    let '(q', ss) := mgs (firstn (q_idx st) (Qs st)) (getc (Qs st) k) in
    (mkQR (upd k (fun _ => q') (Qs st))
          (upd re (fun col => vadd col ss ++ skipn (length ss) col) (Rs st))
          (cap st) (q_idx st) (r_start st) (r_end st) (min_eig st) (max_eig st) (S (reorth st)),
     vnorm2 q', nq).
  Proof.
    intros Hq Hk. unfold g_add_column_while1_step.
    cbn [lmqr_ops qo_Qcol qo_q_idx qo_reorth_count qo_set_reorth_count].
    cbn [Qs Rs cap q_idx r_start r_end min_eig max_eig reorth].
    rewrite (fold_left_ext_eq _ (add_gstep nadd k re)) by (intros; apply add_for2_gstep).
    rewrite add_fold by (cbn [Qs]; lia).
    cbn [Qs Rs cap q_idx r_start r_end min_eig max_eig reorth skipn]. cbv zeta.
    destruct (mgs (firstn (q_idx st) (Qs st)) (getc (Qs st) k)) as [q' ss]. cbn [fst snd].
    rewrite add_getc_upd_same by exact Hk. reflexivity.
  Qed.

  (* the states the while loop runs through: Q column q_idx = q, R column r_end = rr ++ (old rows q_idx ..), reorth_count = cnt *)
  Definition add_inv (st : qrst T) (q rr : list T) (cnt : nat) : qrst T :=
    mkQR (upd (q_idx st) (fun _ => q) (Qs st)) (upd (r_end st) (fun col => rr ++ skipn (q_idx st) col) (Rs st))
         (cap st) (q_idx st) (r_start st) (r_end st) (min_eig st) (max_eig st) cnt.

  Lemma add_inv_step fS fN et (st : qrst T) q rr cnt nq nv :
    q_idx st < length (Qs st) -> length rr = q_idx st ->
    g_add_column_while1_step O fS fN (q_idx st) (r_end st) et (add_inv st q rr cnt) nq nv =
    let '(q', ss) := mgs (firstn (q_idx st) (Qs st)) q in (add_inv st q' (vadd rr ss) (S cnt), vnorm2 q', nq).
  Proof.
    intros Hk Hr. rewrite g_add_column_while1_step_eq; [|cbn; lia|cbn [add_inv Qs]; rewrite upd_length'; exact Hk].
    unfold add_inv. cbn [Qs Rs cap q_idx r_start r_end min_eig max_eig reorth].
    rewrite add_firstn_upd, add_getc_upd_same by exact Hk.
    pose proof (add_mgs_length (firstn (q_idx st) (Qs st)) q) as Hl.
    rewrite firstn_length_le in Hl by lia.
    destruct (mgs (firstn (q_idx st) (Qs st)) q) as [q' ss]. cbn [snd] in Hl.
    rewrite !upd_upd_same. f_equal. f_equal. f_equal. apply upd_ext. intros col.
    unfold vadd. rewrite add_map2_app by lia. rewrite add_skipn_app_len by lia. reflexivity.
  Qed.

  Lemma add_reorth_length : forall fuel (Qc : list (list T)) q rr nq nv cnt, length rr = length Qc ->
    length (snd (fst (fst (reorth_loop fuel Qc q rr nq nv cnt)))) = length Qc.
  Proof.
    induction fuel as [|fuel IH]; intros Qc q rr nq nv cnt Hr; cbn [reorth_loop]; [exact Hr|].
    destruct (nq <? eta * nv); [|exact Hr].
    pose proof (add_mgs_length Qc q) as Hl. destruct (mgs Qc q) as [q' ss]. cbn [snd] in Hl.
    apply IH. unfold vadd. rewrite add_map2_length; lia.
  Qed.

  Lemma add_while fS fN (st : qrst T) : q_idx st < length (Qs st) -> forall fuel q rr nq nv cnt, length rr = q_idx st ->
    fst (while_c fuel
           (fun '(s, a, b) => g_add_column_while1_cond O fS fN (q_idx st) (r_end st) eta s a b)
           (fun '(s, a, b) => g_add_column_while1_step O fS fN (q_idx st) (r_end st) eta s a b)
           (add_inv st q rr cnt, nq, nv))
    = let '(q', rr', nq', cnt') := reorth_loop fuel (firstn (q_idx st) (Qs st)) q rr nq nv cnt in
      (add_inv st q' rr' cnt', nq').
  Proof.
    intros Hk. induction fuel as [|fuel IH]; intros q rr nq nv cnt Hr; cbn [while_c reorth_loop]; [reflexivity|].
    unfold g_add_column_while1_cond at 1.
    destruct (nq <? eta * nv); [|reflexivity].
    rewrite add_inv_step by assumption.
    pose proof (add_mgs_length (firstn (q_idx st) (Qs st)) q) as Hl.
    rewrite firstn_length_le in Hl by lia.
    destruct (mgs (firstn (q_idx st) (Qs st)) q) as [q' ss]. cbn [snd] in Hl.
    apply IH. unfold vadd. rewrite add_map2_length; lia.
  Qed.

  (* ---------------------------------------------------------------- the first pass, from the state with Q.col(q_idx) = v *)
  Lemma add_for1_all fS fN (st : qrst T) v :
    q_idx st < length (Qs st) -> q_idx st <= length (getc (Rs st) (r_end st)) ->
    fold_left (g_add_column_for1_step O fS fN (q_idx st) (r_end st)) (seq 0 (q_idx st))
              (with_Qs st (upd (q_idx st) (fun _ => v) (Qs st)))
    = let '(q0, r0) := mgs (firstn (q_idx st) (Qs st)) v in add_inv st q0 r0 (reorth st).
  Proof.
    intros Hk Hc.
    rewrite (fold_left_ext_eq _ (add_gstep (fun _ s => s) (q_idx st) (r_end st))) by (intros; apply add_for1_gstep).
    rewrite add_fold; [|lia|unfold with_Qs; cbn [Qs]; rewrite upd_length'; exact Hk].
    unfold with_Qs. cbn [Qs Rs cap q_idx r_start r_end min_eig max_eig reorth skipn]. cbv zeta.
    rewrite add_firstn_upd, add_getc_upd_same by exact Hk.
    pose proof (add_mgs_length (firstn (q_idx st) (Qs st)) v) as Hl.
    rewrite firstn_length_le in Hl by lia.
    destruct (mgs (firstn (q_idx st) (Qs st)) v) as [q0 r0]. cbn [fst snd] in *.
    unfold add_inv. rewrite upd_upd_same. f_equal.
    apply (add_upd_ext_at []). unfold add_F. cbn [firstn skipn app Nat.add].
    rewrite add_map2_snd by (unfold getc in Hc; lia). rewrite Hl. reflexivity.
  Qed.

  (* ---------------------------------------------------------------- add_column *)
  (* the statements after the while loop *)
  Definition add_tail (fS fN : nat) (st_18 : qrst T) (l_q_1 l_r_2 : nat) (l_norm_q_19 : T) : qrst T :=
    let st_21 := (qset_R O st_18 (qo_q_idx O st_18) l_r_2 l_norm_q_19) in
    let st_22 := (qo_set_Qcol O st_21 l_q_1 (map (fun x_ => x_ / l_norm_q_19) (qo_Qcol O st_21 l_q_1))) in
    let st_23 := (qo_set_min_eig O st_22 (xmin_pinf (qo_min_eig O st_22) l_norm_q_19)) in
    let st_24 := (qo_set_max_eig O st_23 (xmax_ninf (qo_max_eig O st_23) l_norm_q_19)) in
    let st_25 := (qo_set_q_idx O st_24 (S (qo_q_idx O st_24))) in
    let st_26 := (qo_set_r_idx_end O st_25 (g_r_succ O fS fN st_25 (qo_r_idx_end O st_25))) in
    st_26.

  Lemma add_unfold fS fN (st : qrst T) v :
    g_add_column O fS fN st v =
    let k := q_idx st in
    let re := r_end st in
    let st_7 := fold_left (g_add_column_for1_step O fS fN k re) (seq 0 k) (with_Qs st (upd k (fun _ => v) (Qs st))) in
    let w := while_c fS
               (fun '(s, a, b) => g_add_column_while1_cond O fS fN k re eta s a b)
               (fun '(s, a, b) => g_add_column_while1_step O fS fN k re eta s a b)
               (st_7, vnorm2 (getc (Qs st_7) k), vnorm2 v) in
    add_tail fS fN (fst (fst w)) k re (snd (fst w)).
  Proof.
    unfold g_add_column. cbv zeta.
    cbn [lmqr_ops qo_Qcol qo_set_Qcol qo_q_idx qo_r_idx_end].
    change (q_idx (with_Qs st (upd (q_idx st) (fun _ => v) (Qs st)))) with (q_idx st).
    change (nofZ 7 / nofZ 10) with (@eta T _).
    destruct (while_c fS _ _ _) as [[s a] b]. reflexivity.
  Qed.

  Lemma add_tail_lit fS fN Q R c k rs re mi ma cnt k' re' (nq : T) :
    add_tail fS fN (mkQR Q R c k rs re mi ma cnt) k' re' nq =
    mkQR (upd k' (fun _ => map (fun x => x / nq) (getc Q k')) Q)
         (upd re' (fun _ => vupd (getc R re') k nq) R)
         c (S k) rs (r_succ c re) (omin mi nq) (omax ma nq) cnt.
  Proof. reflexivity. Qed.

  Lemma add_tail_inv fS fN (st : qrst T) q rr cnt nq :
    q_idx st < length (Qs st) -> r_end st < length (Rs st) -> q_idx st < length (getc (Rs st) (r_end st)) ->
    length rr = q_idx st ->
    add_tail fS fN (add_inv st q rr cnt) (q_idx st) (r_end st) nq =
    mkQR (upd (q_idx st) (fun _ => map (fun x => x / nq) q) (Qs st))
         (upd (r_end st) (fun col => rr ++ nq :: skipn (S (q_idx st)) col) (Rs st))
         (cap st) (S (q_idx st)) (r_start st) (r_succ (cap st) (r_end st))
         (omin (min_eig st) nq) (omax (max_eig st) nq) cnt.
  Proof.
    intros Hk Hre Hc Hr. unfold add_inv. rewrite add_tail_lit.
    rewrite add_getc_upd_same by exact Hk.
    unfold getc at 1. rewrite nth_upd_same by exact Hre.
    rewrite !upd_upd_same.
    f_equal.
    apply (add_upd_ext_at []).
    rewrite (add_skipn_cons n0 (q_idx st)) by exact Hc.
    generalize (skipn (S (q_idx st)) (nth (r_end st) (Rs st) [])). intros tl. rewrite <- Hr. apply add_vupd_app.
  Qed.

  Lemma g_add_column_eq : forall fN (st : qrst T) v,
    shape st -> (q_idx st < cap st)%nat -> (r_end st < cap st)%nat ->
    g_add_column O reorth_fuel fN st v = add_column st v.
  Proof.
    intros fN st v (HQ & HR & HF) Hk Hre.
    assert (HkQ : q_idx st < length (Qs st)) by lia.
    assert (Hcol : length (getc (Rs st) (r_end st)) = cap st).
    { unfold getc. rewrite Forall_forall in HF. apply HF. apply nth_In. lia. }
    rewrite add_unfold. cbv zeta. unfold add_column.
    rewrite add_for1_all by (try assumption; lia).
    pose proof (add_mgs_length (firstn (q_idx st) (Qs st)) v) as Hl.
    rewrite firstn_length_le in Hl by lia.
    destruct (mgs (firstn (q_idx st) (Qs st)) v) as [q0 r0]. cbn [snd] in Hl.
    replace (getc (Qs (add_inv st q0 r0 (reorth st))) (q_idx st)) with q0
      by (unfold add_inv; cbn [Qs]; rewrite add_getc_upd_same by exact HkQ; reflexivity).
    pose proof (add_while reorth_fuel fN st HkQ reorth_fuel q0 r0 (vnorm2 q0) (vnorm2 v) (reorth st) Hl) as HW.
    pose proof (add_reorth_length reorth_fuel (firstn (q_idx st) (Qs st)) q0 r0 (vnorm2 q0) (vnorm2 v) (reorth st)) as HL.
    rewrite firstn_length_le in HL by lia. specialize (HL Hl).
    destruct (reorth_loop reorth_fuel (firstn (q_idx st) (Qs st)) q0 r0 (vnorm2 q0) (vnorm2 v) (reorth st))
      as [[[q rr] nq] cnt]. cbn [fst snd] in HL.
    rewrite HW. cbn [fst snd].
    apply add_tail_inv; try assumption; lia.
  Qed.
End SecAdd.


(* ================================================================== part 3: remove_column (generated) = LMQR.remove_column *)

(* ------------------------------------------------------------------ Jacobi rotations *)
Lemma jr_make_givens_eq {T : Type} `{Num T} (p q : T) : jr_make_givens p q = make_givens p q.
Proof. reflexivity. Qed.

Lemma rem_jr_trivial_adjoint {T : Type} `{Num T} (c s : T) : jr_trivial (jr_adjoint (c, s)) = rot_trivial c s.
Proof. reflexivity. Qed.

Lemma rem_jr_x_adjoint {T : Type} `{Num T} (c s x y : T) : jr_x (jr_adjoint (c, s)) x y = rotx c s x y.
Proof. reflexivity. Qed.

(* the only place where the reals are needed: - - s = s *)
Lemma rem_jr_y_adjoint (c s x y : R) : jr_y (jr_adjoint (c, s)) x y = roty c s x y.
Proof. unfold jr_y, jr_adjoint, roty. cbn [fst snd]. numR. rewrite Ropp_involutive. reflexivity. Qed.

Lemma rem_map2_ext {A B C} (f g : A -> B -> C) a b : (forall x y, f x y = g x y) -> map2 f a b = map2 g a b.
Proof. intros E. revert b; induction a as [|x a IH]; intros [|y b]; cbn; try reflexivity. rewrite E, IH. reflexivity. Qed.

Lemma jr_apply_rows_adjoint_eq (c s : R) r (col : list R) :
  jr_apply_rows (jr_adjoint (c, s)) r (S r) col = rot_rows c s r col.
Proof.
  unfold jr_apply_rows, rot_rows. rewrite rem_jr_trivial_adjoint.
  destruct (rot_trivial c s); [reflexivity|].
  rewrite !vupd_upd, rem_jr_x_adjoint, rem_jr_y_adjoint. reflexivity.
Qed.

Lemma rem_with_Qs_self {T : Type} `{Num T} (st : qrst T) : with_Qs st (Qs st) = st.
Proof. destruct st; reflexivity. Qed.
Lemma rem_with_Rs_self {T : Type} `{Num T} (st : qrst T) : with_Rs st (Rs st) = st.
Proof. destruct st; reflexivity. Qed.
Lemma rem_with_Rs_twice {T : Type} `{Num T} (st : qrst T) A B : with_Rs (with_Rs st A) B = with_Rs st B.
Proof. reflexivity. Qed.

Lemma jr_apply_cols_eq (st : qrst R) r (c s : R) :
  jr_apply_cols lmqr_ops st r (S r) (c, s) = with_Qs st (rot_cols c s r (Qs st)).
Proof.
  unfold jr_apply_cols, rot_cols. rewrite rem_jr_trivial_adjoint.
  destruct (rot_trivial c s).
  - symmetry. apply rem_with_Qs_self.
  - cbn [lmqr_ops qo_Qcol qo_set_Qcol]. unfold with_Qs. cbn [Qs Rs cap q_idx r_start r_end min_eig max_eig reorth].
    rewrite (rem_map2_ext (jr_y (jr_adjoint (c, s))) (roty c s)) by (intros; apply rem_jr_y_adjoint).
    rewrite (rem_map2_ext (jr_x (jr_adjoint (c, s))) (rotx c s)) by (intros; apply rem_jr_x_adjoint).
    reflexivity.
Qed.

(* ------------------------------------------------------------------ the inner for loop *)
Lemma g_remove_column_forc1_cond_eq fS fN (G : R * R) r (st : qrst R) cc :
  g_remove_column_forc1_cond lmqr_ops fS fN G r st cc = negb (Nat.eqb cc (r_end st)).
Proof. reflexivity. Qed.

Lemma g_remove_column_forc1_step_eq fS fN (cs sn : R) r (st : qrst R) cc :
  g_remove_column_forc1_step lmqr_ops fS fN (cs, sn) r st cc
  = (with_Rs st (upd cc (rot_rows cs sn r) (Rs st)), r_succ (cap st) cc).
Proof.
  unfold g_remove_column_forc1_step. rewrite jr_apply_rows_adjoint_eq.
  cbn [lmqr_ops qo_Rcol qo_set_Rcol]. unfold getc. rewrite (upd_get_self [] (rot_rows cs sn r)).
  reflexivity.
Qed.

Lemma g_remove_column_inner_loop_eq fS fN (cs sn : R) r : forall fuel (st : qrst R) cc,
  fst (while_c fuel (fun '(st_in, s_cc_in) => g_remove_column_forc1_cond lmqr_ops fS fN (cs, sn) r st_in s_cc_in)
                    (fun '(st_in, s_cc_in) => g_remove_column_forc1_step lmqr_ops fS fN (cs, sn) r st_in s_cc_in) (st, cc))
  = with_Rs st (fold_left (fun M k => upd k (rot_rows cs sn r) M) (until_loop fuel (cap st) cc (r_end st)) (Rs st)).
Proof.
  induction fuel as [|fuel IH]; intros st cc; cbn [while_c until_loop].
  - cbn [fold_left fst]. symmetry. apply rem_with_Rs_self.
  - rewrite g_remove_column_forc1_cond_eq. destruct (Nat.eqb cc (r_end st)); cbn [negb].
    + cbn [fold_left fst]. symmetry. apply rem_with_Rs_self.
    + rewrite g_remove_column_forc1_step_eq, IH. reflexivity.
Qed.

(* ------------------------------------------------------------------ the outer while loop *)
Lemma g_remove_column_while1_cond_eq fS fN (st : qrst R) (G : R * R) r c :
  g_remove_column_while1_cond lmqr_ops fS fN st G r c = Nat.ltb (S r) (q_idx st).
Proof. unfold g_remove_column_while1_cond. cbn [lmqr_ops qo_q_idx]. destruct (q_idx st); reflexivity. Qed.

Lemma g_remove_column_while1_step_eq fS (st : qrst R) (G : R * R) r c :
  (c < length (Rs st))%nat -> (r < length (getc (Rs st) c))%nat ->
  ~ In c (until_loop (cap st) (cap st) (r_succ (cap st) c) (r_end st)) ->
  let '(cs, sn, _) := make_givens (getv (getc (Rs st) c) r) (getv (getc (Rs st) c) (S r)) in
  g_remove_column_while1_step lmqr_ops fS (cap st) st G r c
  = (givens_step st r c, (cs, sn), S r, r_succ (cap st) c).
Proof.
  intros Hc Hr Hnot.
  unfold g_remove_column_while1_step, givens_step.
  change (jr_make_givens (qR lmqr_ops st r c) (qR lmqr_ops st (S r) c))
    with (make_givens (getv (getc (Rs st) c) r) (getv (getc (Rs st) c) (S r))).
  destruct (make_givens (getv (getc (Rs st) c) r) (getv (getc (Rs st) c) (S r))) as [[cs sn] rr].
  assert (E8 : qset_R lmqr_ops st r c rr = with_Rs st (upd c (upd r (fun _ => rr)) (Rs st))).
  { unfold qset_R. cbn [lmqr_ops qo_Rcol qo_set_Rcol]. rewrite vupd_upd. unfold getc.
    rewrite (upd_get_self [] (upd r (fun _ => rr))). reflexivity. }
  rewrite E8. clear E8.
  destruct (while_c _ _ _ _) as [st12 cc13] eqn:E.
  apply (f_equal fst) in E. rewrite g_remove_column_inner_loop_eq in E. cbn [fst] in E.
  unfold with_Rs in E. cbn [Qs Rs cap q_idx r_start r_end min_eig max_eig reorth] in E.
  rewrite g_r_succ_eq in E. cbn [cap] in E. subst st12.
  rewrite jr_apply_cols_eq.
  set (R1 := upd c (upd r (fun _ : R => rr)) (Rs st)) in *.
  set (R2 := fold_left _ _ R1).
  assert (Eq : nth r (nth c R2 []) 0%R = rr).
  { unfold R2.
    rewrite (fold_upd_notin (fun x : nat => x) (fun _ : nat => rot_rows cs sn r) (@nil R)) by (rewrite map_id; exact Hnot).
    unfold R1. rewrite nth_upd_same by exact Hc. rewrite nth_upd_same by exact Hr. reflexivity. }
  unfold qR, with_Qs. cbn [lmqr_ops qo_Rcol qo_min_eig qo_max_eig qo_set_min_eig qo_set_max_eig Qs Rs cap q_idx r_start r_end min_eig max_eig reorth].
  unfold getc. cbn [n0 NumR]. rewrite Eq. reflexivity.
Qed.

(* ------------------------------------------------------------------ the sweep: invariant and loop equality *)
(* the part of `wf` the sweep needs (nothing about Q) *)
Definition rem_ok (st : qrst R) : Prop :=
  (0 < cap st)%nat /\ ring_inv (cap st) (ring_of st) /\ length (Rs st) = cap st /\ Forall (fun col => length col = cap st) (Rs st).

Lemma rem_wf_ok n (st : qrst R) : wf n st -> rem_ok st.
Proof. intros (H1 & H2 & _ & _ & H3 & H4). split; [exact H1|]. split; [exact H2|]. split; [exact H3|exact H4]. Qed.

Lemma rem_ok_givens_step (st : qrst R) r c : rem_ok st -> rem_ok (givens_step st r c).
Proof.
  intros (Hm & Hring & HRl & HRf).
  unfold rem_ok, ring_of. destruct (givens_step_fields st r c) as (F1 & F2 & F3 & F4). rewrite F1, F2, F3, F4.
  split; [exact Hm|]. split; [exact Hring|].
  unfold givens_step. destruct (make_givens _ _) as [[cs sn] rr]. cbn [Rs].
  split.
  - rewrite (fold_upd_length (fun x : nat => x) (fun _ : nat => rot_rows cs sn r)). rewrite upd_length. exact HRl.
  - apply (fold_upd_Forall (fun x : nat => x) (fun _ : nat => rot_rows cs sn r) (fun x => length x = cap st)).
    + apply Forall_upd; [exact HRf|]. intros x Hx. rewrite upd_length. exact Hx.
    + intros _ x Hx. rewrite rot_rows_length. exact Hx.
Qed.

(* under the invariant the inner loop of iteration r does not touch storage column c = (r_start + r + 1) mod m *)
Lemma rem_step_side (st : qrst R) r : rem_ok st -> (S r < q_idx st)%nat ->
  let c := ((r_start st + S r) mod cap st)%nat in
  (c < length (Rs st))%nat /\ (r < length (getc (Rs st) c))%nat /\ ~ In c (until_loop (cap st) (cap st) (r_succ (cap st) c) (r_end st)).
Proof.
  intros (Hm & Hring & HRl & HRf) Hr. cbv zeta.
  assert (Hring' := Hring). destruct Hring' as (I1 & I2 & I3 & I4). cbn [ring_of g_qi g_rs g_re] in *.
  assert (Hc : ((r_start st + S r) mod cap st < cap st)%nat) by (apply Nat.mod_upper_bound; lia).
  split; [rewrite HRl; exact Hc|]. split.
  - rewrite (getc_len (cap st)); [lia|exact HRf|rewrite HRl; exact Hc].
  - rewrite add_mod_succ by lia.
    pose proof (until_loop_enumerates (cap st) (ring_of st) (S (S r)) Hm Hring) as E.
    cbn [ring_of g_qi g_rs g_re] in E. rewrite E by lia. clear E.
    intros Hin. apply in_map_iff in Hin. destruct Hin as (i & E & Hi). apply in_seq in Hi.
    symmetry in E. revert E. apply mod_inj_window; lia.
Qed.

Lemma rem_loop_eq fS m : forall fuel (st : qrst R) (G : R * R) r c,
  rem_ok st -> cap st = m -> c = ((r_start st + S r) mod m)%nat ->
  fst (fst (fst (while_c fuel
      (fun '(st_in, s_G_in, s_r_in, s_c_in) => g_remove_column_while1_cond lmqr_ops fS m st_in s_G_in s_r_in s_c_in)
      (fun '(st_in, s_G_in, s_r_in, s_c_in) => g_remove_column_while1_step lmqr_ops fS m st_in s_G_in s_r_in s_c_in)
      (st, G, r, c)))) = sweep fuel r c st.
Proof.
  induction fuel as [|fuel IH]; intros st G r c Hok Hcap Hc; cbn [while_c sweep]; [reflexivity|].
  rewrite g_remove_column_while1_cond_eq.
  destruct (Nat.ltb_spec (S r) (q_idx st)) as [Hr|Hr]; [|reflexivity].
  subst m.
  destruct (rem_step_side st r Hok Hr) as (S1 & S2 & S3). cbv zeta in S1, S2, S3. rewrite <- Hc in S1, S2, S3.
  pose proof (g_remove_column_while1_step_eq fS st G r c S1 S2 S3) as E.
  destruct (make_givens _ _) as [[cs sn] rr] in E. rewrite E. clear E.
  destruct (givens_step_fields st r c) as (F1 & F2 & F3 & F4).
  apply IH.
  - apply rem_ok_givens_step. exact Hok.
  - exact F1.
  - rewrite F3. subst c. destruct Hok as (Hm & _). apply add_mod_succ. exact Hm.
Qed.

(* ------------------------------------------------------------------ remove_column *)
Theorem g_remove_column_eq : forall n fS (st : qrst R), wf n st -> (0 < q_idx st)%nat ->
  g_remove_column lmqr_ops fS (cap st) st = remove_column st.
Proof.
  intros n fS st Hwf Hq. unfold g_remove_column, remove_column.
  pose proof (rem_wf_ok n st Hwf) as Hok.
  assert (Hc : r_succ (cap st) (r_start st) = ((r_start st + 1) mod cap st)%nat).
  { destruct Hok as (_ & (I1 & _) & _). cbn [ring_of g_rs] in I1. apply r_succ_mod. exact I1. }
  pose proof (rem_loop_eq fS (cap st) (cap st) st (n1, n0) 0%nat (r_succ (cap st) (r_start st)) Hok eq_refl Hc) as E.
  rewrite g_r_succ_eq. cbn [lmqr_ops qo_r_idx_start].
  destruct (while_c _ _ _ _) as [[[st19 G'] r'] c'].
  cbn [fst] in E. subst st19.
  set (st' := sweep (cap st) 0 (r_succ (cap st) (r_start st)) st).
  rewrite g_r_succ_eq.
  cbn [lmqr_ops qo_set_r_idx_start qo_set_q_idx qo_q_idx Qs Rs cap q_idx r_start r_end min_eig max_eig reorth].
  rewrite Nat.sub_1_r. reflexivity.
Qed.


(* ================================================================== part 3: solve_col, scale_R, get_Q of the GENERATED code
   (coq/gen/LmqrGen.v, run on the concrete store lmqr_ops) = the hand model LMQR.v, for every number type T. *)

(* ------------------------------------------------------------------ helpers (no numbers) *)
Lemma sol_while_ext {S} (c1 c2 : S -> bool) (f1 f2 : S -> S) :
  (forall s, c1 s = c2 s) -> (forall s, f1 s = f2 s) ->
  forall fuel s, while_c fuel c1 f1 s = while_c fuel c2 f2 s.
Proof.
  intros Ec Ef. induction fuel as [|k IH]; intros s; cbn [while_c]; [reflexivity|].
  rewrite Ec, Ef. destruct (c2 s); auto.
Qed.

Lemma sol_upd_nth_id {A} (d : A) i (l : list A) : upd i (fun _ => nth i l d) l = l.
Proof. revert i; induction l as [|a l IH]; intros [|i]; cbn; try reflexivity. rewrite IH. reflexivity. Qed.

Lemma sol_map_nth_firstn {A} (d : A) : forall (l : list A) k, (k <= length l)%nat ->
  map (fun j => nth j l d) (seq 0 k) = firstn k l.
Proof.
  induction l as [|a l IH]; intros [|k] Hk; cbn [length] in *; try reflexivity; try lia.
  cbn [seq map firstn nth]. rewrite <- seq_shift, map_map. cbn [nth]. rewrite IH by lia. reflexivity.
Qed.

Section SecSolve.
  Context {T : Type} `{Num T}.
  Notation O := (@lmqr_ops T _).
  Local Open Scope num_scope.

  (* ------------------------------------------------------------------ solve_col: the inner row loop
       for (it_c = it_d.forwardit; it_c != fwd_end; ++it_c) x(rR) -= R(rR, cR2) * x(rX2) *)
  Lemma g_solve_col_forc1_cond_eq fS fN (st : qrst T) fend rR (x : list T) it :
    g_solve_col_forc1_cond O fS fN st fend rR x it = negb (Nat.eqb (fst (fst it)) (fst (fst fend))).
  Proof. unfold g_solve_col_forc1_cond. rewrite g_ci_eq_eq. reflexivity. Qed.

  Lemma g_solve_col_forc1_step_eq fS fN (st : qrst T) fend rR (x : list T) zb c m :
    g_solve_col_forc1_step O fS fN st fend rR x (zb, c, m)
    = (upd rR (fun _ => getv x rR - Rat st rR c * getv x zb) x, (S zb, it_succ m c, m)).
  Proof.
    unfold g_solve_col_forc1_step. rewrite ci_idx_triple, g_cit_incr_eq, vupd_upd. reflexivity.
  Qed.

  (* the loop accumulates in x(rR) and re-reads x(rX2) from the current x; all visited rX2 are >= zb > rR, so the
     re-read values are those of any `orig` that agrees with the current x off position rR *)
  Lemma sol_inner_loop fS fN (st : qrst T) e2 m rR (orig : list T) : forall cnt fuel zb c (xs : list T),
    (cnt <= fuel)%nat -> (rR < zb)%nat -> (rR < length xs)%nat ->
    (forall k, k <> rR -> nth k xs n0 = nth k orig n0) ->
    while_c fuel (fun '(x, it) => g_solve_col_forc1_cond O fS fN st ((zb + cnt)%nat, e2, m) rR x it)
                 (fun '(x, it) => g_solve_col_forc1_step O fS fN st ((zb + cnt)%nat, e2, m) rR x it) (xs, (zb, c, m))
    = (upd rR (fun _ => fold_left (fun acc '(rX2, cR2) => acc - Rat st rR cR2 * getv orig rX2)
                                  (iter_fwd cnt zb c m) (nth rR xs n0)) xs,
       ((zb + cnt)%nat, Nat.iter cnt (it_succ m) c, m)).
  Proof.
    induction cnt as [|cnt IH]; intros fuel zb c xs Hf Hz Hl Hag.
    - rewrite Nat.add_0_r. cbn [iter_fwd fold_left Nat.iter nat_rect]. rewrite sol_upd_nth_id.
      destruct fuel; cbn [while_c]; [reflexivity|]. rewrite g_solve_col_forc1_cond_eq. cbn [fst].
      rewrite Nat.eqb_refl. reflexivity.
    - destruct fuel as [|fuel]; [lia|]. cbn [while_c]. rewrite g_solve_col_forc1_cond_eq. cbn [fst].
      replace (Nat.eqb zb (zb + S cnt)) with false by (symmetry; apply Nat.eqb_neq; lia). cbn [negb].
      rewrite g_solve_col_forc1_step_eq. replace (zb + S cnt)%nat with (S zb + cnt)%nat by lia.
      rewrite IH; try lia.
      + rewrite upd_upd_same. unfold getv. rewrite (nth_upd_same n0) by assumption.
        cbn [iter_fwd fold_left]. rewrite (Hag zb) by lia. f_equal. f_equal. f_equal.
        rewrite (iter_shift (it_succ m)). reflexivity.
      + rewrite upd_length'. assumption.
      + intros k Hk. rewrite nth_upd_other by assumption. apply Hag. assumption.
  Qed.

  Lemma g_solve_col_inner_loop_eq fS fN (st : qrst T) e2 m rR : forall cnt zb c (x : list T) (x0 : T),
    (cnt <= fN)%nat -> (rR < zb)%nat -> (rR < length x)%nat ->
    while_c fN (fun '(s_x_in, s_it_c_in) => g_solve_col_forc1_cond O fS fN st ((zb + cnt)%nat, e2, m) rR s_x_in s_it_c_in)
               (fun '(s_x_in, s_it_c_in) => g_solve_col_forc1_step O fS fN st ((zb + cnt)%nat, e2, m) rR s_x_in s_it_c_in)
               (vupd x rR x0, (zb, c, m))
    = (upd rR (fun _ => fold_left (fun acc '(rX2, cR2) => acc - Rat st rR cR2 * getv x rX2)
                                  (iter_fwd cnt zb c m) x0) x,
       ((zb + cnt)%nat, Nat.iter cnt (it_succ m) c, m)).
  Proof.
    intros cnt zb c x x0 Hf Hz Hl. rewrite vupd_upd.
    rewrite (sol_inner_loop fS fN st e2 m rR x); try assumption.
    - rewrite upd_upd_same, (nth_upd_same n0) by assumption. reflexivity.
    - rewrite upd_length'. assumption.
    - intros k Hk. apply nth_upd_other. assumption.
  Qed.

  (* ------------------------------------------------------------------ solve_col: one row of the back substitution *)
  Lemma g_solve_col_forc2_cond_eq fS fN (st : qrst T) b tol rend fend (x : list T) it :
    g_solve_col_forc2_cond O fS fN st b tol rend fend x it = negb (Nat.eqb (fst (fst it)) (fst (fst rend))).
  Proof. unfold g_solve_col_forc2_cond. rewrite g_ci_eq_eq. reflexivity. Qed.

  Lemma g_solve_col_forc2_step_eq fS fN (st : qrst T) b tol rend e2 (x : list T) zb c :
    (0 < zb)%nat -> (zb <= q_idx st)%nat -> (q_idx st <= fN)%nat -> (zb - 1 < length x)%nat ->
    g_solve_col_forc2_step O fS fN st b tol rend (q_idx st, e2, cap st) x (zb, c, cap st)
    = (solve_row st b tol x (((zb - 1)%nat, it_pred (cap st) c), (zb, c)), ((zb - 1)%nat, it_pred (cap st) c, cap st)).
  Proof.
    intros Hz Hq Hf Hl. unfold g_solve_col_forc2_step.
    unfold g_rit_deref, g_rit_incr. rewrite g_cit_decr_eq, ci_idx_triple. cbv iota beta.
    change (qR O st (zb - 1) (it_pred (cap st) c)) with (Rat st (zb - 1)%nat (it_pred (cap st) c)).
    unfold solve_row. destruct (nabs (Rat st (zb - 1) (it_pred (cap st) c)) <? tol).
    - rewrite vupd_upd. reflexivity.
    - replace (q_idx st, e2, cap st) with ((zb + (q_idx st - zb))%nat, e2, cap st) by (f_equal; f_equal; lia).
      rewrite g_solve_col_inner_loop_eq by lia.
      rewrite vupd_upd, upd_upd_same, (nth_upd_same n0) by assumption. reflexivity.
  Qed.

  (* the reverse loop, with the side conditions of one row carried along *)
  Lemma sol_outer_loop fS fN (st : qrst T) b tol e1 e2 : (q_idx st <= fN)%nat ->
    forall cnt fuel c (x : list T), (cnt <= fuel)%nat -> (cnt <= q_idx st)%nat -> (cnt <= length x)%nat ->
    fst (while_c fuel
           (fun '(s_x_in, s_it_d_in) =>
              g_solve_col_forc2_cond O fS fN st b tol (0%nat, e1, cap st) (q_idx st, e2, cap st) s_x_in s_it_d_in)
           (fun '(s_x_in, s_it_d_in) =>
              g_solve_col_forc2_step O fS fN st b tol (0%nat, e1, cap st) (q_idx st, e2, cap st) s_x_in s_it_d_in)
           (x, (cnt, c, cap st)))
    = fold_left (solve_row st b tol) (iter_rev cnt cnt c (cap st)) x.
  Proof.
    intros HfN. induction cnt as [|cnt IH]; intros fuel c x Hf Hq Hl.
    - destruct fuel; cbn [while_c]; [reflexivity|]. rewrite g_solve_col_forc2_cond_eq. reflexivity.
    - destruct fuel as [|fuel]; [lia|]. cbn [while_c]. rewrite g_solve_col_forc2_cond_eq. cbn [fst negb Nat.eqb].
      rewrite g_solve_col_forc2_step_eq by lia. cbn [iter_rev fold_left].
      replace (S cnt - 1)%nat with cnt by lia. apply IH; try lia.
      unfold solve_row. destruct (nabs (Rat st cnt (it_pred (cap st) c)) <? tol); rewrite upd_length'; lia.
  Qed.

  Lemma g_solve_col_eq : forall fS (st : qrst T) b x tol, (q_idx st <= cap st)%nat -> (q_idx st <= length x)%nat ->
    g_solve_col lmqr_ops fS (cap st) st b x tol = solve_col st b tol x.
  Proof.
    intros fS st b x tol Hq Hx. unfold g_solve_col. cbv zeta.
    unfold g_rrange_begin, g_rrange_end. rewrite g_ring_iter_eq, g_range_begin_eq, g_range_end_eq.
    unfold solve_col, ring_rev_iter.
    rewrite <- (sol_outer_loop fS (cap st) st b tol (r_start st) (r_end st) Hq (q_idx st) (cap st) (r_end st) x Hq (le_n _) Hx).
    destruct (while_c _ _ _ _) as [xr itr]. reflexivity.
  Qed.

  (* ------------------------------------------------------------------ scale_R *)
  Lemma g_scale_R_forc1_cond_eq fS fN (s : T) rend (st : qrst T) it :
    g_scale_R_forc1_cond O fS fN s rend st it = negb (Nat.eqb (fst (fst it)) (fst (fst rend))).
  Proof. unfold g_scale_R_forc1_cond. rewrite g_ci_eq_eq. reflexivity. Qed.

  Lemma g_scale_R_forc1_step_eq fS fN (s : T) rend (st : qrst T) zb c m :
    g_scale_R_forc1_step O fS fN s rend st (zb, c, m)
    = (with_Rs st (upd c (scale_prefix (S zb) s) (Rs st)), (S zb, it_succ m c, m)).
  Proof.
    unfold g_scale_R_forc1_step. rewrite ci_idx_triple, g_cit_incr_eq. cbv iota beta.
    cbn [lmqr_ops qo_set_Rcol qo_Rcol]. unfold getc.
    change (scale_top (S zb) s) with (scale_prefix (S zb) s).
    rewrite (upd_get_self [] (scale_prefix (S zb) s)). reflexivity.
  Qed.

  (* the state-threaded fold = the model's fold over the list of R columns *)
  Definition sol_scale_step (s : T) (st : qrst T) (e : nat * nat) : qrst T :=
    with_Rs st (upd (snd e) (scale_prefix (S (fst e)) s) (Rs st)).

  Lemma sol_scale_fold (s : T) : forall (l : list (nat * nat)) (st : qrst T),
    fold_left (sol_scale_step s) l st
    = with_Rs st (fold_left (fun R '(i, ridx) => upd ridx (scale_prefix (S i) s) R) l (Rs st)).
  Proof.
    induction l as [|[i ridx] l IH]; intros st; cbn [fold_left].
    - destruct st; reflexivity.
    - rewrite IH. reflexivity.
  Qed.

  Lemma g_scale_R_eq : forall fS (st : qrst T) s, (q_idx st <= cap st)%nat ->
    g_scale_R lmqr_ops fS (cap st) st s = scale_R st s.
  Proof.
    intros fS st s Hq. unfold g_scale_R. cbv zeta.
    rewrite g_ring_iter_eq, g_range_begin_eq, g_range_end_eq.
    rewrite (sol_while_ext
               (fun '(st_in, it) => g_scale_R_forc1_cond O fS (cap st) s (q_idx st, r_end st, cap st) st_in it)
               (fun '(st_in, it) => negb (g_ci_eq O fS (cap st) it ((0 + q_idx st)%nat, r_end st, cap st)))
               (fun '(st_in, it) => g_scale_R_forc1_step O fS (cap st) s (q_idx st, r_end st, cap st) st_in it)
               (fun '(st_in, it) =>
                  (sol_scale_step s st_in (ci_idx it), g_cit_incr O fS (cap st) it))).
    - rewrite fwd_loop_eq by (cbn; lia). rewrite sol_scale_fold. reflexivity.
    - intros [st_in it]. reflexivity.
    - intros [st_in [[zb c] m]]. rewrite g_scale_R_forc1_step_eq. reflexivity.
  Qed.

  (* ------------------------------------------------------------------ get_Q *)
  Lemma g_get_Q_eq fS fN (st : qrst T) : (q_idx st <= length (Qs st))%nat ->
    Forall (fun col => length col = length (getc (Qs st) 0)) (Qs st) ->
    g_get_Q O fS fN st = get_Q st.
  Proof.
    intros Hq Hall. unfold g_get_Q, qblock_Q, get_Q. rewrite g_n_eq.
    rewrite <- (sol_map_nth_firstn [] (Qs st) (q_idx st) Hq). apply map_ext_in.
    intros j Hj. apply in_seq in Hj. cbn [lmqr_ops qo_Qcol qo_q_idx]. unfold getc at 1.
    apply firstn_all2. rewrite Forall_forall in Hall. rewrite (Hall (nth j (Qs st) [])); [apply le_n|].
    apply nth_In. lia.
  Qed.
End SecSolve.


(* ================================================================== part 5: Anderson acceleration (over R: uses remove_column) *)
Section SecAA.
  Notation O := (@lmqr_ops R _).

  (* ------------------------------------------------------------------ minimize_update_anderson: the loop over the G columns *)
  Lemma g_minimize_update_anderson_while1_cond_eq fS fN G γ e x it a :
    g_minimize_update_anderson_while1_cond O fS fN G γ e x it a = negb (Nat.eqb (fst (fst it)) (fst (fst e))).
  Proof. unfold g_minimize_update_anderson_while1_cond. rewrite g_ci_eq_eq. reflexivity. Qed.

  Definition aa_term (G : list (list R)) (γ : list R) (x : list R) (e : nat * nat) : list R :=
    vadd x (vscale (getv γ (fst e) - getv γ (fst e - 1))%num (getc G (snd e))).

  Lemma g_minimize_update_anderson_while1_step_eq fS fN G γ e x zb c m a :
    g_minimize_update_anderson_while1_step O fS fN G γ e x (zb, c, m) a
    = (aa_term G γ x (zb, c), (S zb, it_succ m c, m), (getv γ zb - getv γ (zb - 1))%num).
  Proof.
    unfold g_minimize_update_anderson_while1_step, aa_term. rewrite ci_idx_triple, g_cit_incr_eq. cbn [fst snd].
    rewrite Nat.sub_1_r. reflexivity.
  Qed.

  Lemma aa_loop_eq fS fN G γ m e2 : forall cnt fuel zb c x a, (cnt <= fuel)%nat ->
    fst (fst (while_c fuel
      (fun '(x, it, al) => g_minimize_update_anderson_while1_cond O fS fN G γ ((zb + cnt)%nat, e2, m) x it al)
      (fun '(x, it, al) => g_minimize_update_anderson_while1_step O fS fN G γ ((zb + cnt)%nat, e2, m) x it al) (x, (zb, c, m), a)))
    = fold_left (aa_term G γ) (iter_fwd cnt zb c m) x.
  Proof.
    induction cnt as [|cnt IH]; intros fuel zb c x a Hf.
    - destruct fuel; cbn [while_c]; [reflexivity|]. rewrite g_minimize_update_anderson_while1_cond_eq. cbn [fst].
      rewrite Nat.add_0_r, Nat.eqb_refl. reflexivity.
    - destruct fuel as [|fuel]; [lia|]. cbn [while_c]. rewrite g_minimize_update_anderson_while1_cond_eq. cbn [fst].
      replace (Nat.eqb zb (zb + S cnt)) with false by (symmetry; apply Nat.eqb_neq; lia). cbn [negb].
      rewrite g_minimize_update_anderson_while1_step_eq. cbn [iter_fwd fold_left].
      replace (zb + S cnt)%nat with (S zb + cnt)%nat by lia. apply IH. lia.
  Qed.

  (* the model's x: alphas / columns combined = the same fold *)
  Lemma aa_iter_fwd_fst m : forall cnt zb c, map fst (iter_fwd cnt zb c m) = seq zb cnt.
  Proof. induction cnt; intros; cbn; [reflexivity|]. rewrite IHcnt. reflexivity. Qed.
  Lemma aa_iter_fwd_length m : forall cnt zb c, length (iter_fwd cnt zb c m) = cnt.
  Proof. induction cnt; intros; cbn; auto. Qed.

  Lemma aa_fold_combine (G : list (list R)) (γ : list R) : forall (l : list (nat * nat)) x,
    fold_left (fun x '(a, c) => vadd x (vscale a c))
      (combine (map (fun i => (getv γ i - getv γ (i - 1))%num) (map fst l)) (map (fun e => getc G (snd e)) l)) x
    = fold_left (aa_term G γ) l x.
  Proof. induction l as [|e l IH]; intros x; cbn [map combine fold_left]; [reflexivity|]. rewrite IH. reflexivity. Qed.

  Lemma aa_combine_app {A B} : forall (a b : list A) (c d : list B), length a = length c ->
    combine (a ++ b) (c ++ d) = combine a c ++ combine b d.
  Proof. induction a as [|x a IH]; intros b [|y c] d Hl; cbn in *; try discriminate; [reflexivity|]. rewrite IH by lia. reflexivity. Qed.

  Lemma aa_model_x (G : list (list R)) (γ : list R) gk k rs m : (1 <= k)%nat ->
    match aa_alphas γ k, map (fun e => getc G (snd e)) (ring_iter k rs m) ++ [gk] with
    | a0 :: αs, c0 :: cs => fold_left (fun x '(a, c) => vadd x (vscale a c)) (combine αs cs) (vscale a0 c0)
    | _, _ => []
    end
    = vadd (fold_left (aa_term G γ) (iter_fwd (k - 1) 1 (it_succ m rs) m) (vscale (getv γ 0) (getc G rs)))
           (vscale (n1 - getv γ (k - 1))%num gk).
  Proof.
    intros Hk. destruct k as [|k]; [lia|]. unfold aa_alphas, ring_iter. cbn [iter_fwd map app snd]. rewrite Nat.sub_succ, Nat.sub_0_r.
    set (l := iter_fwd k 1 (it_succ m rs) m).
    assert (E : seq 1 k = map fst l) by (unfold l; rewrite aa_iter_fwd_fst; reflexivity).
    rewrite E. rewrite aa_combine_app.
    - rewrite fold_left_app. rewrite aa_fold_combine. reflexivity.
    - rewrite !map_length. reflexivity.
  Qed.

  Lemma aa_wf_qr1 n A (qr : qrst R) : wf n qr -> QRrep qr A ->
    let qr1 := if Nat.eqb (q_idx qr) (cap qr) then remove_column qr else qr in
    wf n qr1 /\ cap qr1 = cap qr /\ (q_idx qr1 < cap qr1)%nat /\ (r_end qr1 < cap qr1)%nat.
  Proof.
    intros Hwf Hrep. cbv zeta. pose proof Hwf as (Hm & (R1 & R2 & R3 & R4) & _). cbn [ring_of g_qi g_rs g_re] in *.
    destruct (Nat.eqb_spec (q_idx qr) (cap qr)) as [E|E].
    - assert (Hq0 : (0 < q_idx qr)%nat) by lia.
      destruct (remove_keeps_QR n qr A Hwf Hq0 Hrep) as (_ & Hwf1).
      destruct (ring_of_remove qr) as (Er & Ec). split; [exact Hwf1|]. split; [exact Ec|].
      assert (Eq : q_idx (remove_column qr) = (q_idx qr - 1)%nat) by (change (g_qi (ring_of (remove_column qr)) = (q_idx qr - 1)%nat); rewrite Er; reflexivity).
      assert (Ee : r_end (remove_column qr) = r_end qr) by (change (g_re (ring_of (remove_column qr)) = r_end qr); rewrite Er; reflexivity).
      rewrite Eq, Ee, Ec. lia.
    - split; [exact Hwf|]. split; [reflexivity|]. split; lia.
  Qed.

  Lemma g_minimize_update_anderson_eq n A (qr : qrst R) G rk rlast gk mdf γ xin :
    wf n qr -> QRrep qr A -> (cap qr <= length γ)%nat ->
    g_minimize_update_anderson O reorth_fuel (cap qr) qr G rk rlast gk mdf γ xin
    = minimize_update_anderson qr G rk rlast gk mdf γ.
  Proof.
    intros Hwf Hrep Hγ. unfold g_minimize_update_anderson, minimize_update_anderson.
    rewrite g_num_columns_eq, g_m_eq.
    destruct (aa_wf_qr1 n A qr Hwf Hrep) as (Hwf1 & Hc1 & Hq1 & He1). cbv zeta in Hwf1, Hc1, Hq1, He1.
    assert (E1 : (if Nat.eqb (q_idx qr) (cap qr) then g_remove_column O reorth_fuel (cap qr) qr else qr)
                 = (if Nat.eqb (q_idx qr) (cap qr) then remove_column qr else qr)).
    { destruct (Nat.eqb_spec (q_idx qr) (cap qr)) as [E|E]; [|reflexivity].
      apply (g_remove_column_eq n); [exact Hwf|]. destruct Hwf as (Hm & _). lia. }
    rewrite E1. set (qr1 := if Nat.eqb (q_idx qr) (cap qr) then remove_column qr else qr) in *.
    rewrite (g_add_column_eq (cap qr) qr1 (vsub rk rlast) (wf_shape n qr1 Hwf1) Hq1 He1).
    set (qr2 := add_column qr1 (vsub rk rlast)).
    assert (Hc2 : cap qr2 = cap qr) by (unfold qr2; rewrite cap_add; exact Hc1).
    assert (Hq2 : q_idx qr2 = S (q_idx qr1)) by (apply q_idx_add).
    change (xtimes_or0 (g_get_max_eig O reorth_fuel (cap qr) qr2) mdf) with (match max_eig qr2 with Some e => (e * mdf)%num | None => n0 end).
    set (tol := match max_eig qr2 with Some e => (e * mdf)%num | None => n0 end).
    assert (HS : g_solve_col O reorth_fuel (cap qr) qr2 rk γ tol = solve_col qr2 rk tol γ).
    { rewrite <- Hc2. apply g_solve_col_eq; rewrite ?Hc2, Hq2; lia. }
    rewrite HS. set (γ' := solve_col qr2 rk tol γ).
    rewrite !g_ring_iter_eq, g_range_begin_eq, g_range_end_eq, ci_idx_triple, g_cit_incr_eq, g_num_columns_eq, g_ring_tail_eq.
    cbn [snd].
    replace (q_idx qr2, r_end qr2, cap qr2) with ((1 + (q_idx qr2 - 1))%nat, r_end qr2, cap qr2) by (f_equal; f_equal; lia).
    pose proof (aa_loop_eq reorth_fuel (cap qr) G γ' (cap qr2) (r_end qr2) (q_idx qr2 - 1) (cap qr) 1 (it_succ (cap qr2) (r_start qr2))
                  (vscale (nth 0 γ' n0) (mcol G (r_start qr2))) (nth 0 γ' n0) ltac:(lia)) as HL.
    destruct (while_c _ _ _ _) as [[x' it'] al']. cbn [fst] in HL. subst x'.
    unfold mset_col. rewrite vupd_upd.
    rewrite (aa_model_x G γ' gk (q_idx qr2) (r_start qr2) (cap qr2)) by lia.
    rewrite Nat.sub_1_r. reflexivity.
  Qed.

  (* ------------------------------------------------------------------ AndersonAccel member functions *)
  Lemma g_aa_resize_eq fS fN mem mdf qr G rl gam ini n :
    aa_pack mdf (g_aa_resize O fS fN mem mdf qr G rl gam ini n) = aa_new n mem mdf.
  Proof. reflexivity. Qed.

  Lemma g_aa_initialize_eq fS fN mem (a : aast R) g r :
    aa_pack (a_mdf a) (g_aa_initialize O fS fN mem (a_mdf a) (a_qr a) (a_G a) (a_rlast a) (a_gamma a) (a_init a) g r) = aa_initialize a g r.
  Proof. unfold g_aa_initialize, aa_pack, aa_initialize, mset_col. rewrite vupd_upd. reflexivity. Qed.

  Lemma g_aa_reset_eq fS fN mem (a : aast R) :
    aa_pack (a_mdf a) (g_aa_reset O fS fN mem (a_mdf a) (a_qr a) (a_G a) (a_rlast a) (a_gamma a) (a_init a)) = aa_reset a.
  Proof.
    unfold g_aa_reset, aa_pack, aa_reset, mset_col, mcol. rewrite g_ring_tail_eq, vupd_upd.
    destruct (Nat.eqb (r_end (a_qr a)) 0); reflexivity.
  Qed.

  Lemma g_aa_scale_R_eq fS mem (a : aast R) s : (q_idx (a_qr a) <= cap (a_qr a))%nat ->
    aa_pack (a_mdf a) (g_aa_scale_R O fS (cap (a_qr a)) mem (a_mdf a) (a_qr a) (a_G a) (a_rlast a) (a_gamma a) (a_init a) s) = aa_scale_R a s.
  Proof. intros Hq. unfold g_aa_scale_R, aa_pack, aa_scale_R. rewrite g_scale_R_eq by exact Hq. reflexivity. Qed.

  Lemma g_aa_compute_eq n A mem (a : aast R) g r xin :
    wf n (a_qr a) -> QRrep (a_qr a) A -> (cap (a_qr a) <= length (a_gamma a))%nat ->
    match g_aa_compute O reorth_fuel (cap (a_qr a)) mem (a_mdf a) (a_qr a) (a_G a) (a_rlast a) (a_gamma a) (a_init a) g r xin with
    | Some (qr, G, rl, gam, ini, x) => Some (mkAA qr G rl gam (a_mdf a) ini, x)
    | None => None
    end = aa_compute a g r.
  Proof.
    intros Hwf Hrep Hg. unfold g_aa_compute, aa_compute. destruct (a_init a) eqn:Ei; cbn [negb]; [|reflexivity].
    rewrite (g_minimize_update_anderson_eq n A) by assumption.
    destruct (minimize_update_anderson _ _ _ _ _ _ _) as [[[qr' G'] γ'] x]. reflexivity.
  Qed.

  (* ------------------------------------------------------------------ whole operations: the generated step is the model step *)
  Definition gaop_of (o : aop) : gaop (T:=R) :=
    match o with PInit g r => GAInit g r | PCompute g r => GACompute g r | PReset => GAReset | PScale s => GAScale s end.

  Theorem generated_anderson_step_is_model_step n mem (a : aast R) s o :
    FInv n a s -> option_map fst (ga_step mem a (gaop_of o)) = aa_opstep a o.
  Proof.
    destruct s as [[h A] rl]. intros (HA & Hwf & Hrep & HO & HG & Hgam & Hrl).
    destruct o as [g r|g r| |sc]; cbn [gaop_of ga_step aa_opstep].
    - rewrite g_aa_initialize_eq. reflexivity.
    - unfold gfS, gfN. pose proof (g_aa_compute_eq n A mem a g r (repeat n0 (length g)) Hwf Hrep Hgam) as E.
      destruct (g_aa_compute _ _ _ _ _ _ _ _ _ _ _ _ _) as [[[[[[qr G] rl'] gam] ini] x]|]; rewrite <- E; reflexivity.
    - rewrite g_aa_reset_eq. reflexivity.
    - unfold gfN. rewrite g_aa_scale_R_eq; [reflexivity|]. destruct Hwf as (_ & (_ & _ & Hq & _) & _). exact Hq.
  Qed.

  Fixpoint ga_run (mem : nat) (a : aast R) (ops : list aop) : option (aast R) :=
    match ops with
    | [] => Some a
    | o :: ops' => match ga_step mem a (gaop_of o) with Some (a', _) => ga_run mem a' ops' | None => None end
    end.

  Theorem generated_anderson_run_is_model_run n mem : forall ops (a : aast R) s,
    FInv n a s -> aa_hist_ok n a ops -> ga_run mem a ops = aa_run a ops.
  Proof.
    induction ops as [|o ops IH]; intros a s HF Hok; cbn [ga_run aa_run aa_hist_ok] in *; [reflexivity|].
    destruct Hok as (Ho & Hok). pose proof (generated_anderson_step_is_model_step n mem a s o HF) as E.
    destruct (FInv_step n a s o HF Ho) as (a1 & E1 & HF1 & _). rewrite E1 in *.
    destruct (ga_step mem a (gaop_of o)) as [[a' x]|]; cbn [option_map fst] in E; [|discriminate].
    injection E as ->. apply (IH a1 _ HF1 Hok).
  Qed.

  (* ------------------------------------------------------------------ LimitedMemoryQR: whole operations *)
  Definition gqop_of (o : qop) : gqop (T:=R) :=
    match o with QAdd v => GAdd v | QRem => GRem | QReset => GReset | QScale s => GScale s end.

  Theorem generated_qr_step_is_model_step n (st : qrst R) x o :
    wf n st -> qok n st o -> gq_step (st, x) (gqop_of o) = (qstep st o, x).
  Proof.
    intros Hwf Hok. pose proof Hwf as (Hm & (R1 & R2 & R3 & R4) & _). cbn [ring_of g_qi g_rs g_re] in *.
    destruct o as [v| | |s]; cbn [gqop_of gq_step qstep qok] in *; unfold gfS, gfN.
    - destruct Hok as (_ & Hq & _). rewrite (g_add_column_eq (cap st) st v (wf_shape n st Hwf) Hq R2). reflexivity.
    - rewrite (g_remove_column_eq n reorth_fuel st Hwf Hok). reflexivity.
    - rewrite g_reset_eq. reflexivity.
    - rewrite (g_scale_R_eq reorth_fuel st s R3). reflexivity.
  Qed.

  Theorem generated_qr_run_is_model_run n : forall ops (st : qrst R) A x,
    wf n st -> QRrep st A -> hist_ok n st ops ->
    fold_left gq_step (map gqop_of ops) (st, x) = (fold_left qstep ops st, x).
  Proof.
    induction ops as [|o ops IH]; intros st A x Hwf Hrep Hok; cbn [map fold_left hist_ok] in *; [reflexivity|].
    destruct Hok as (Ho & Hok). rewrite (generated_qr_step_is_model_step n st x o Hwf Ho).
    destruct (qstep_keeps n st A o Hwf Hrep Ho) as (Hrep' & Hwf'). apply (IH _ _ _ Hwf' Hrep' Hok).
  Qed.

  Lemma gqr_new_eq n m : gqr_new (T:=R) n m = qr_new n m.
  Proof. reflexivity. Qed.
  Lemma gaa_new_eq n mem mdf : gaa_new (T:=R) n mem mdf = aa_new n mem mdf.
  Proof. reflexivity. Qed.

  Lemma generated_solve_is_model_solve n (st : qrst R) b tol x :
    wf n st -> (q_idx st <= length x)%nat -> gq_step (st, x) (GSolve b tol) = (st, solve_col st b tol x).
  Proof.
    intros Hwf Hx. destruct Hwf as (_ & (_ & _ & Hq & _) & _). cbn [ring_of g_qi] in Hq.
    cbn [gq_step]. unfold gfN. rewrite g_solve_col_eq by assumption. reflexivity.
  Qed.

  (* ================================================================== part 6: the theorems of the hand model, for the GENERATED code *)
  Local Open Scope R_scope.
  Theorem gen_add_keeps_QR n (fN : nat) (st : qrst R) A v :
    wf n st -> length v = n -> (q_idx st < cap st)%nat -> QRrep st A -> add_norm st v <> 0 ->
    QRrep (g_add_column O reorth_fuel fN st v) (A ++ [v]) /\ wf n (g_add_column O reorth_fuel fN st v).
  Proof.
    intros Hwf Hv Hq Hrep Hn. pose proof Hwf as (_ & (_ & R2 & _) & _). cbn [ring_of g_re] in R2.
    rewrite (g_add_column_eq fN st v (wf_shape n st Hwf) Hq R2). apply add_keeps_QR; assumption.
  Qed.

  Theorem gen_remove_keeps_QR n (fS : nat) (st : qrst R) A :
    wf n st -> (0 < q_idx st)%nat -> QRrep st A ->
    QRrep (g_remove_column O fS (cap st) st) (tl A) /\ wf n (g_remove_column O fS (cap st) st).
  Proof. intros Hwf Hq Hrep. rewrite (g_remove_column_eq n fS st Hwf Hq). apply remove_keeps_QR; assumption. Qed.

  Theorem gen_scale_R_spec n (fS : nat) (st : qrst R) A s :
    wf n st -> QRrep st A ->
    QRrep (g_scale_R O fS (cap st) st s) (map (vscale s) A) /\ wf n (g_scale_R O fS (cap st) st s).
  Proof.
    intros Hwf Hrep. pose proof Hwf as (_ & (_ & _ & R3 & _) & _). cbn [ring_of g_qi] in R3.
    rewrite (g_scale_R_eq fS st s R3). apply scale_R_spec; assumption.
  Qed.

  (* Q R = A, Q orthonormal, storage well formed after every history of the generated operations started from LimitedMemoryQR(n, m) *)
  Theorem gen_QR_orth_from_new (n m : nat) ops x : (0 < m)%nat -> hist_ok n (qr_new n m) ops ->
    let st := fst (fold_left gq_step (map gqop_of ops) (gqr_new n m, x)) in
    QRrep st (fold_left astep ops []) /\ wf n st /\ Orth n st.
  Proof.
    intros Hm Hok. cbv zeta. rewrite gqr_new_eq.
    rewrite (generated_qr_run_is_model_run n ops (qr_new n m) [] x (wf_new n m Hm) (QRrep_new n m) Hok). cbn [fst].
    exact (QR_orth_from_new n m ops Hm Hok).
  Qed.

  Theorem gen_solve_col_thresholded n (fS : nat) (st : qrst R) A b tol x :
    wf n st -> QRrep st A -> Orth n st -> length b = n -> (q_idx st <= length x)%nat ->
    (forall i, (i < q_idx st)%nat -> thr st tol i = false -> Rl st i i <> 0) ->
    let x' := g_solve_col O fS (cap st) st b x tol in
    (forall i, (q_idx st <= i)%nat -> getv x' i = getv x i) /\
    forall i, (i < q_idx st)%nat ->
      (thr st tol i = true -> getv x' i = 0) /\
      (thr st tol i = false -> dotf n (getv (getc (Qs st) i)) (resid A (q_idx st) b (getv x')) = 0).
  Proof.
    intros Hwf Hrep HO Hb Hx Hp. pose proof Hwf as (_ & (_ & _ & R3 & _) & _). cbn [ring_of g_qi] in R3.
    cbv zeta. rewrite (g_solve_col_eq fS st b x tol R3 Hx). exact (solve_col_thresholded n st A b tol x Hwf Hrep HO Hb Hx Hp).
  Qed.

  Theorem gen_solve_col_least_squares n (fS : nat) (st : qrst R) A b tol x :
    wf n st -> QRrep st A -> Orth n st -> length b = n -> (q_idx st <= length x)%nat ->
    (forall i, (i < q_idx st)%nat -> thr st tol i = false /\ Rl st i i <> 0) ->
    let x' := g_solve_col O fS (cap st) st b x tol in
    (forall i, (i < q_idx st)%nat -> row_eq n st b x' i) /\
    (forall j, (j < q_idx st)%nat -> dotf n (Acol A j) (resid A (q_idx st) b (getv x')) = 0) /\
    (forall cz : nat -> R,
       dotf n (resid A (q_idx st) b (getv x')) (resid A (q_idx st) b (getv x'))
       <= dotf n (resid A (q_idx st) b cz) (resid A (q_idx st) b cz)).
  Proof.
    intros Hwf Hrep HO Hb Hx Hp. pose proof Hwf as (_ & (_ & _ & R3 & _) & _). cbn [ring_of g_qi] in R3.
    cbv zeta. rewrite (g_solve_col_eq fS st b x tol R3 Hx). exact (solve_col_least_squares n st A b tol x Hwf Hrep HO Hb Hx Hp).
  Qed.

  (* one generated compute() at any reachable state is the model's compute(): all clauses of anderson_compute_spec hold for it *)
  Theorem gen_anderson_compute_spec n (mem : nat) (a : aast R) h A rl g r a' x :
    FInv n a (h, A, rl) -> op_ok n a (PCompute g r) -> ga_step mem a (GACompute g r) = Some (a', x) ->
    aa_compute a g r = Some (a', x).
  Proof.
    intros HF Hok E. pose proof HF as (HA & Hwf & Hrep & HO & HG & Hgam & Hrl).
    cbn [ga_step] in E. unfold gfS, gfN in E.
    rewrite <- (g_aa_compute_eq n A mem a g r (repeat n0 (length g)) Hwf Hrep Hgam). exact E.
  Qed.

  Theorem gen_anderson_compute_documented n (mem : nat) (a : aast R) h A rl g r a' x :
    FInv n a (h, A, rl) -> op_ok n a (PCompute g r) -> ga_step mem a (GACompute g r) = Some (a', x) ->
    aa_compute a g r = Some (a', x) /\
    let k := q_idx (a_qr a') in
    let W := map (fun j => nth (length h - k + j) h []) (seq 0 k) ++ [g] in
    let α := aa_alphas (a_gamma a') k in
    lsum α = 1 /\ length α = S k /\ length W = S k /\ (forall t, getv x t = dotl α (map (fun c => getv c t) W)).
  Proof.
    intros HF Hok E. pose proof (gen_anderson_compute_spec n mem a h A rl g r a' x HF Hok E) as Ec.
    split; [exact Ec|]. destruct (anderson_compute_spec n a h A rl g r a' x HF Hok Ec) as (_ & _ & _ & _ & _ & H1 & H2 & H3 & H4 & _).
    cbv zeta. auto.
  Qed.

  Theorem gen_anderson_all_histories n (mem : nat) ops (a : aast R) s : FInv n a s -> aa_hist_ok n a ops ->
    exists a', ga_run mem a ops = Some a' /\ FInv n a' (fold_left (abs_step (cap (a_qr a))) ops s) /\ cap (a_qr a') = cap (a_qr a).
  Proof.
    intros HF Hok. rewrite (generated_anderson_run_is_model_run n mem ops a s HF Hok). exact (aa_all_histories n ops a s HF Hok).
  Qed.
End SecAA.
