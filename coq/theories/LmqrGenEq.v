(* LmqrGenEq.v — stub *)
From Alpaqa Require Import Num LMQR LmqrGenLib LmqrGen LmqrGenInst.
