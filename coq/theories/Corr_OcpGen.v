(* Corr_OcpGen.v — translation validation of translator G13 (translate/gen_ocp.py) at binary64: the GENERATED definitions of
   coq/gen/OcpGen.v against the records of the real OCPVariables / OCPEvaluator / StatefulLQRFactor that drv_C12 produced — the same
   cases and observables as Corr_C12.chk12, but none of the hand-model functions forward / backward / factor_masked / solve_masked of
   Ocp.v is involved: offsets, per-stage bodies, loops and iteration orders are all the generated ones.
   The problem functions are the teacher-forced tables of Corr_C12 (packed as `ocp_fns`), the LQR callables add the masked blocks of
   the case's stage data (packed as `lqr_fns`), the dense solve is Corr_C12.gsolve.  Buffers start poisoned with NaN except for what
   the code expects to find (x0, the inputs; for backward the stored constraint values; the fixed inputs in Δu). *)
From Coq Require Import Floats List ZArith Bool Arith.
From Alpaqa Require Import Num NumF Vec Ocp OcpGenLib OcpGen Corr_C12.
Import ListNotations.
Local Open Scope float_scope.

Definition d0 : dims := {| dN := 0; dnx := 0; dnu := 0; dnh := 0; dnc := 0; dnhN := 0; dncN := 0 |}.
Definition F0 : ocp_fns float :=
  {| pf_eval_f := fun _ _ _ => []; pf_eval_h := fun _ _ _ => []; pf_eval_h_N := fun _ => []; pf_eval_l := fun _ _ => 0; pf_eval_l_N := fun _ => 0;
     pf_eval_constr := fun _ _ => []; pf_eval_constr_N := fun _ => []; pf_eval_qr := fun _ _ _ => []; pf_eval_q_N := fun _ _ => [];
     pf_eval_grad_f_prod := fun _ _ _ _ => []; pf_eval_grad_constr_prod := fun _ _ _ => []; pf_eval_grad_constr_prod_N := fun _ _ => [] |}.
Definition L0 : lqr_fns float :=
  {| lf_AB := fun _ => []; lf_Q := fun _ M => M; lf_R := fun _ _ M => M; lf_S := fun _ _ M => M; lf_R_prod := fun _ _ _ _ v => v;
     lf_S_prod := fun _ _ _ v => v; lf_q := fun _ => []; lf_r := fun _ => []; lf_u := fun _ => []; lf_J := fun _ => []; lf_K := fun _ => [] |}.

Definition nans (n : nat) : list float := repeat nan n.

(* ---- layout: the generated accessors *)
Definition glayout_of (d : dims) : list nat :=
  concat (map (fun t => [g_xk_off F0 L0 gsolve d t; (if t <? dN d then g_uk_off F0 L0 gsolve d t else 0)%nat; g_hk_off F0 L0 gsolve d t;
                         g_hk_len F0 L0 gsolve d t; g_ck_off F0 L0 gsolve d t; g_ck_len F0 L0 gsolve d t]) (seq 0 (S (g_N F0 L0 gsolve d))))
  ++ [g_create_len F0 L0 gsolve d; g_create_qr_len F0 L0 gsolve d].

(* ---- forward *)
Definition F_fwd (xnext hs cs : list (list float)) (ls hN cN : list float) (lN : float) : ocp_fns float :=
  {| pf_eval_f := fun t _ _ => nth t xnext []; pf_eval_h := fun t _ _ => nth t hs []; pf_eval_h_N := fun _ => hN;
     pf_eval_l := fun t _ => nth t ls 0; pf_eval_l_N := fun _ => lN; pf_eval_constr := fun t _ => nth t cs []; pf_eval_constr_N := fun _ => cN;
     pf_eval_qr := fun _ _ _ => []; pf_eval_q_N := fun _ _ => []; pf_eval_grad_f_prod := fun _ _ _ _ => [];
     pf_eval_grad_constr_prod := fun _ _ _ => []; pf_eval_grad_constr_prod_N := fun _ _ => [] |}.
Definition init_storage (d : dims) (x0 : list float) (us : list (list float)) : list float :=
  fold_left (fun s t => put (g_uk_off F0 L0 gsolve d t) (nth t us []) s) (seq 0 (dN d))
            (put (g_xk_off F0 L0 gsolve d 0) x0 (nans (g_create_len F0 L0 gsolve d))).

(* ---- backward *)
Definition F_bwd (nx nu : nat) (A B Jc : list (list (list float))) (qrc : list (list float)) (qNc : list float) (JcN : list (list float)) : ocp_fns float :=
  {| pf_eval_f := fun _ _ _ => []; pf_eval_h := fun _ _ _ => []; pf_eval_h_N := fun _ => []; pf_eval_l := fun _ _ => 0; pf_eval_l_N := fun _ => 0;
     pf_eval_constr := fun _ _ => []; pf_eval_constr_N := fun _ => [];
     pf_eval_qr := fun t _ _ => nth t qrc []; pf_eval_q_N := fun _ _ => qNc;
     pf_eval_grad_f_prod := fun t _ _ λ => mtv nx (nth t A []) λ ++ mtv nu (nth t B []) λ;
     pf_eval_grad_constr_prod := fun t _ v => mtv nx (nth t Jc []) v; pf_eval_grad_constr_prod_N := fun _ v => mtv nx JcN v |}.
Definition storage_c (d : dims) (cs : list (list float)) (cN : list float) : list float :=
  put (g_ck_off F0 L0 gsolve d (dN d)) cN
      (fold_left (fun s t => put (g_ck_off F0 L0 gsolve d t) (nth t cs []) s) (seq 0 (dN d)) (nans (g_create_len F0 L0 gsolve d))).

(* ---- LQR callables from the stage data *)
Definition L_lqr (nx nu N : nat) (As Bs Qs Ss Rs : list (list (list float))) (qs rs : list (list float)) (bits : list (list bool))
           (ufix : list (list float)) (QN : list (list float)) (qN : list float) : lqr_fns float :=
  let Jof := fun i => build_J (fun k => nth k (nth i bits []) false) nu in
  {| lf_AB := fun i => map2 (@app float) (nth i As []) (nth i Bs []);
     lf_Q := fun i M => madd M (if (i <? N)%nat then nth i Qs [] else QN);
     lf_R := fun i J M => madd M (selcols J (selrows J (nth i Rs [])));
     lf_S := fun i J M => madd M (selrows J (nth i Ss []));
     lf_R_prod := fun i J K u v => vadd v (mv (selcols K (selrows J (nth i Rs []))) (sel K u));
     lf_S_prod := fun i K u v => vadd v (mtv nx (selrows K (nth i Ss [])) (sel K u));
     lf_q := fun i => if (i <? N)%nat then nth i qs [] else qN;
     lf_r := fun i => nth i rs [];
     lf_u := fun i => nth i ufix [];
     lf_J := Jof;
     lf_K := fun i => compl (Jof i) nu |}.

Definition model12g (c : c12case) : list nat * list float * list float * float :=
  match c with
  | KIdx N n bits _ => (index_storage (index_update (fun t i => nth i (nth t bits []) false) N n), [], [], 0)
  | KLay d _ _ _ => (glayout_of d, [], [], 0)
  | KFwd d x0 us xnext hs cs ls hN cN lN y μ Dlb Dub DNlb DNub _ _ =>
      let '(V, sto) := g_forward (F_fwd xnext hs cs ls hN cN lN) L0 gsolve d (init_storage d x0 us)
                                 (obs Dlb) (oubs Dub) (obs DNlb) (oubs DNub) μ y in
      ([length sto], sto, [], V)
  | KBwd d A B Jc qrc cs qNc JcN cN y μ Dlb Dub DNlb DNub _ _ =>
      let '(g, qr, _, _, _) := g_backward (F_bwd (dnx d) (dnu d) A B Jc qrc qNc JcN) L0 gsolve d (storage_c d cs cN)
                                          (nans (dN d * dnu d)) (nans (g_create_qr_len F0 L0 gsolve d))
                                          (obs Dlb) (oubs Dub) (obs DNlb) (oubs DNub) μ y
                                          (nans (dnx d)) (nans (dnx d)) (nans (Nat.max (dnc d) (dncN d))) in
      ([], g, qr, 0)
  | KLqr nx nu As Bs Qs Ss Rs qs rs bits ufix QN qN _ _ _ =>
      let N := length As in
      let Lq := L_lqr nx nu N As Bs Qs Ss Rs qs rs bits ufix QN qN in
      let '(P, gK, e, s, _, _, _, _) := g_factor_masked F0 Lq gsolve d0 N nx nu true (repeat (nans nx) nx) (repeat [] N) (repeat [] N)
                                                        (nans nx) (nans nx) (nans nx) (nans nu) (repeat (nans nx) nx) in
      let '(du, _, _) := g_solve_masked F0 Lq gsolve d0 N nx nu (concat ufix) (nans (2 * nx)) gK e in
      ([], du, concat P ++ s, 0)
  end.

Definition chk12g (c : c12case) : bool :=
  let '(ns, v1, v2, s) := model12g c in
  match c with
  | KIdx _ _ _ storage => nat_list_eqb ns storage
  | KLay _ lay len lenqr => nat_list_eqb ns (lay ++ [len; lenqr])
  | KFwd _ _ _ _ _ _ _ _ _ _ _ _ _ _ _ _ storage V =>
      nat_list_eqb ns [length storage] && vclose 0x1p-40 v1 storage && sclose 0x1p-34 s V
  | KBwd _ _ _ _ _ _ _ _ _ _ _ _ _ _ _ g qr => vclose tolv v1 g && vclose tolv v2 qr
  | KLqr _ _ _ _ _ _ _ _ _ _ _ _ _ du P0 s0 => vclose tolv v1 du && vclose tolv v2 (concat P0 ++ s0)
  end.
