(* Corr_C20.v — correspondence cases for C20: the heap model of Counters.v (with the reset mode the translator read
   from the source) is run on the same histories as ProblemWithCounters / ControlProblemWithCounters in drv_C20. *)
From Coq Require Import List Arith Bool.
From Alpaqa Require Import Num NumF Counters.
Import ListNotations.

Inductive c20case :=
| CHist (m : reset_mode) (nf : nat)
        (ops : list op)                       (* chronological; the operations executed without undefined behaviour *)
        (ub : option op)                      (* the next operation, at which the driver's guard found a null pointer *)
        (final : list (option (list nat)))    (* per wrapper: null, or its nf counters *)
        (cls : list (option nat)).            (* per wrapper: null, or the sharing class (numbered by first appearance) *)

Fixpoint index_of (b : nat) (seen : list nat) : option nat :=
  match seen with
  | [] => None
  | x :: s => if x =? b then Some 0 else option_map S (index_of b s)
  end.
Fixpoint canon (l : list (option nat)) (seen : list nat) : list (option nat) :=
  match l with
  | [] => []
  | None :: l' => None :: canon l' seen
  | Some b :: l' =>
      match index_of b seen with
      | Some i => Some i :: canon l' seen
      | None => Some (length seen) :: canon l' (seen ++ [b])
      end
  end.
Definition classes (st : state) : list (option nat) := canon (map (ptr st) (seq 0 (nwr st))) [].

Definition opt_eqb {A} (eq : A -> A -> bool) (a b : option A) : bool :=
  match a, b with
  | None, None => true
  | Some x, Some y => eq x y
  | _, _ => false
  end.

(** model output: (snapshot, classes, does the next operation hit undefined behaviour) — None if the prefix itself does *)
Definition model20 (c : c20case) : option (list (option (list nat)) * list (option nat) * option bool) :=
  match c with
  | CHist m nf ops ub _ _ =>
      match exec m ops with
      | None => None
      | Some st =>
          Some (snapshot nf st, classes st,
                match ub with
                | None => None
                | Some o => Some (match step m st o with None => true | Some _ => false end)
                end)
      end
  end.

Definition chk20 (c : c20case) : bool :=
  match c, model20 c with
  | CHist _ _ _ ub final cls, Some (snap, cl, u) =>
      list_agree (opt_eqb (list_agree Nat.eqb)) snap final &&
      list_agree (opt_eqb Nat.eqb) cl cls &&
      match ub, u with
      | None, None => true
      | Some _, Some true => true
      | _, _ => false
      end
  | _, None => false
  end.
