(* LMQR.v — model of the limited-memory QR factorisation and of Anderson acceleration (C10).
   Sources: util/ringbuffer.hpp, accelerators/internal/limited-memory-qr.hpp,
            accelerators/internal/anderson-helpers.hpp, accelerators/anderson.hpp,
            Eigen/src/Jacobi/Jacobi.h (makeGivens for reals, apply_rotation_in_the_plane, non-vectorised).
   Storage-faithful: Q is the raw n x m storage (list of m columns), R the raw m x m storage whose COLUMNS are
   a ring buffer (logical column j lives in storage column (r_start + j) mod m).  Entries the code never reads
   (dead columns, below-diagonal parts) are kept as they are (the C++ leaves them uninitialised / stale).
   No proofs here. *)
From Coq Require Import List ZArith Bool Arith.
From Alpaqa Require Import Num Vec.
Import ListNotations.

(* ------------------------------------------------------------------ ring indices (nat) *)
(* LimitedMemoryQR::r_succ / r_pred *)
Definition r_succ (m i : nat) : nat := if S i <? m then S i else 0.
Definition r_pred (m i : nat) : nat := if i =? 0 then m - 1 else i - 1.
(* CircularIndexIterator::operator++ / -- on the circular component *)
Definition it_succ (m i : nat) : nat := if S i =? m then 0 else S i.
Definition it_pred (m i : nat) : nat := if i =? 0 then m - 1 else i - 1.

(* forward iteration from iterator (zb, c): `cnt` = size - zb steps remain until zerobased == size.
   Elements are CircularIndices (zerobased, circular). *)
Fixpoint iter_fwd (cnt zb c m : nat) : list (nat * nat) :=
  match cnt with
  | 0 => []
  | S k => (zb, c) :: iter_fwd k (S zb) (it_succ m c) m
  end.
(* CircularRange{size, idx1, idx2, max}: begin = (0, idx1), end = (size, idx2); iterators compare zerobased only *)
Definition ring_iter (size idx1 m : nat) : list (nat * nat) := iter_fwd size 0 idx1 m.

(* reverse iteration: the reverse iterator wraps a forward iterator `fw`, *it = *(--copy of fw), ++ is --fw.
   Starts at fw = end = (size, idx2).  Each element: (dereferenced indices, underlying forward iterator). *)
Fixpoint iter_rev (cnt zb c m : nat) : list ((nat * nat) * (nat * nat)) :=
  match cnt with
  | 0 => []
  | S k => let zb' := zb - 1 in let c' := it_pred m c in
           ((zb', c'), (zb, c)) :: iter_rev k zb' c' m
  end.
Definition ring_rev_iter (size idx2 m : nat) := iter_rev size size idx2 m.

(* `for (cc = start; cc != stop; cc = r_succ(cc))` of remove_column *)
Fixpoint until_loop (fuel m cc stop : nat) : list nat :=
  match fuel with
  | 0 => []
  | S f => if cc =? stop then [] else cc :: until_loop f m (r_succ m cc) stop
  end.

(* in-place update of one list position *)
Fixpoint upd {A} (i : nat) (f : A -> A) (l : list A) : list A :=
  match l, i with
  | [], _ => []
  | x :: l', 0 => f x :: l'
  | x :: l', S i' => x :: upd i' f l'
  end.

(* ring state only (what the index theorems are about) *)
Record ring := mkRing { g_qi : nat; g_rs : nat; g_re : nat }.
Inductive ringop := RAdd | RRem | RReset.
Definition ring_step (m : nat) (s : ring) (o : ringop) : ring :=
  match o with
  | RAdd => mkRing (S (g_qi s)) (g_rs s) (r_succ m (g_re s))
  | RRem => mkRing (g_qi s - 1) (r_succ m (g_rs s)) (g_re s)
  | RReset => mkRing 0 0 0
  end.
(* "within capacity": add needs num_columns < m, remove needs num_columns > 0 (the asserts of the C++) *)
Definition ring_ok (m : nat) (s : ring) (o : ringop) : bool :=
  match o with RAdd => g_qi s <? m | RRem => 0 <? g_qi s | RReset => true end.
Fixpoint ring_run (m : nat) (s : ring) (ops : list ringop) : option ring :=
  match ops with
  | [] => Some s
  | o :: ops' => if ring_ok m s o then ring_run m (ring_step m s o) ops' else None
  end.

(* generic ring-indexed storage (R's columns, Anderson's G): add writes storage slot r_end, remove advances r_start *)
Inductive bufop (A : Type) := BAdd (x : A) | BRem | BReset.
Arguments BAdd {A} x. Arguments BRem {A}. Arguments BReset {A}.
Definition ringop_of {A} (o : bufop A) : ringop :=
  match o with BAdd _ => RAdd | BRem => RRem | BReset => RReset end.
Definition buf_step {A} (m : nat) (sb : ring * list A) (o : bufop A) : ring * list A :=
  let '(s, b) := sb in
  (ring_step m s (ringop_of o), match o with BAdd x => upd (g_re s) (fun _ => x) b | _ => b end).
Definition buf_ok {A} (m : nat) (sb : ring * list A) (o : bufop A) : bool := ring_ok m (fst sb) (ringop_of o).
Fixpoint buf_run {A} (m : nat) (sb : ring * list A) (ops : list (bufop A)) : option (ring * list A) :=
  match ops with
  | [] => Some sb
  | o :: ops' => if buf_ok m sb o then buf_run m (buf_step m sb o) ops' else None
  end.
(* what a reader sees through ring_iter *)
Definition buf_read {A} (d : A) (m : nat) (sb : ring * list A) : list A :=
  map (fun e => nth (snd e) (snd sb) d) (ring_iter (g_qi (fst sb)) (g_rs (fst sb)) m).
(* the abstract window: a FIFO queue *)
Definition queue_step {A} (q : list A) (o : bufop A) : list A :=
  match o with BAdd x => q ++ [x] | BRem => tl q | BReset => [] end.

Section LMQR.
  Context {T : Type} `{Num T}.
  Local Open Scope num_scope.

  Definition getv (v : list T) (i : nat) : T := nth i v n0.
  Definition getc (M : list (list T)) (c : nat) : list T := nth c M [].

  Record qrst := mkQR {
    Qs : list (list T);      (* raw Q: m columns of length n *)
    Rs : list (list T);      (* raw R: m storage columns of length m *)
    cap : nat;               (* m() *)
    q_idx : nat; r_start : nat; r_end : nat;
    min_eig : option T;      (* None = +inf (initial) *)
    max_eig : option T;      (* None = -inf (initial) *)
    reorth : nat
  }.

  Definition qr_new (n m : nat) : qrst :=
    mkQR (repeat (repeat n0 n) m) (repeat (repeat n0 m) m) m 0 0 0 None None 0.

  (* std::min(min_eig, x) = (x < min_eig) ? x : min_eig ; std::max(max_eig, x) = (max_eig < x) ? x : max_eig *)
  Definition omin (o : option T) (x : T) : option T :=
    match o with None => if nisnan x then None else Some x | Some a => Some (cmin a x) end.
  Definition omax (o : option T) (x : T) : option T :=
    match o with None => if nisnan x then None else Some x | Some a => Some (cmax a x) end.

  (* ---------------------------------------------------------------- add_column *)
  (* one Gram-Schmidt pass over the live columns:  s = Q_i . q ;  q -= s Q_i  ; returns (q, [s_0 .. s_{k-1}]) *)
  Fixpoint mgs (Qc : list (list T)) (q : list T) : list T * list T :=
    match Qc with
    | [] => (q, [])
    | Qi :: Qc' => let s := vdot Qi q in
                   let '(q', ss) := mgs Qc' (vsub q (vscale s Qi)) in (q', s :: ss)
    end.

  Definition eta : T := nofZ 7 / nofZ 10.   (* real_t(0.7) *)

  (* while (norm_q < η norm_v) { ++reorth_count; pass with r(i) += s; norm_v = norm_q; norm_q = q.norm(); } *)
  Fixpoint reorth_loop (fuel : nat) (Qc : list (list T)) (q rr : list T) (norm_q norm_v : T) (cnt : nat)
    : list T * list T * T * nat :=
    match fuel with
    | 0 => (q, rr, norm_q, cnt)
    | S f => if norm_q <? eta * norm_v then
               let '(q', ss) := mgs Qc q in
               reorth_loop f Qc q' (vadd rr ss) (vnorm2 q') norm_q (S cnt)
             else (q, rr, norm_q, cnt)
    end.
  Definition reorth_fuel := 64%nat.

  Definition add_column (st : qrst) (v : list T) : qrst :=
    let k := q_idx st in
    let Qc := firstn k (Qs st) in
    let '(q0, r0) := mgs Qc v in
    let '(q, rr, nq, cnt) := reorth_loop reorth_fuel Qc q0 r0 (vnorm2 q0) (vnorm2 v) (reorth st) in
    let qn := map (fun x => x / nq) q in
    mkQR (upd k (fun _ => qn) (Qs st))
         (upd (r_end st) (fun col => rr ++ nq :: skipn (S k) col) (Rs st))
         (cap st) (S k) (r_start st) (r_succ (cap st) (r_end st))
         (omin (min_eig st) nq) (omax (max_eig st) nq) cnt.

  (* ---------------------------------------------------------------- remove_column *)
  (* Eigen JacobiRotation<real>::makeGivens(p, q, &r): returns (c, s, r) *)
  Definition make_givens (p q : T) : T * T * T :=
    if q =? n0 then ((if p <? n0 then - n1 else n1), n0, nabs p)
    else if p =? n0 then (n0, (if q <? n0 then n1 else - n1), nabs q)
    else if nabs q <? nabs p then
      let t := q / p in
      let u0 := nsqrt (n1 + t * t) in
      let u := if p <? n0 then - u0 else u0 in
      let c := n1 / u in
      (c, (- t) * c, p * u)
    else
      let t := p / q in
      let u0 := nsqrt (n1 + t * t) in
      let u := if q <? n0 then - u0 else u0 in
      let s := (- n1) / u in
      ((- t) * s, s, q * u).

  (* apply_rotation_in_the_plane with j = (c, -s)  [= G.adjoint() on the left, G.transpose() on the right]:
       x' = c x + (-s) y ;  y' = s x + c y *)
  Definition rotx (c s x y : T) : T := c * x + (- s) * y.
  Definition roty (c s x y : T) : T := s * x + c * y.
  (* `if (c == 1 && s == 0) return;` of apply_rotation_in_the_plane, with j = (c, -s) *)
  Definition rot_trivial (c s : T) : bool := (c =? n1) && ((- s) =? n0).
  Definition rot_rows (c s : T) (r : nat) (col : list T) : list T :=
    if rot_trivial c s then col else
    let x := getv col r in let y := getv col (S r) in
    upd r (fun _ => rotx c s x y) (upd (S r) (fun _ => roty c s x y) col).
  Definition rot_cols (c s : T) (r : nat) (Q : list (list T)) : list (list T) :=
    if rot_trivial c s then Q else
    let X := getc Q r in let Y := getc Q (S r) in
    upd r (fun _ => map2 (rotx c s) X Y) (upd (S r) (fun _ => map2 (roty c s) X Y) Q).

  (* one iteration of the `while (r < q_idx - 1)` loop body, at row r / storage column c *)
  Definition givens_step (st : qrst) (r c : nat) : qrst :=
    let m := cap st in
    let col := getc (Rs st) c in
    let '(cs, sn, rr) := make_givens (getv col r) (getv col (S r)) in
    let R1 := upd c (upd r (fun _ => rr)) (Rs st) in
    let R2 := fold_left (fun R cc => upd cc (rot_rows cs sn r) R) (until_loop m m (r_succ m c) (r_end st)) R1 in
    mkQR (rot_cols cs sn r (Qs st)) R2 m (q_idx st) (r_start st) (r_end st)
         (omin (min_eig st) rr) (omax (max_eig st) rr) (reorth st).

  Fixpoint sweep (fuel : nat) (r c : nat) (st : qrst) : qrst :=
    match fuel with
    | 0 => st
    | S f => if Nat.ltb (S r) (q_idx st) then sweep f (S r) (r_succ (cap st) c) (givens_step st r c) else st
    end.

  Definition remove_column (st : qrst) : qrst :=
    let st' := sweep (cap st) 0 (r_succ (cap st) (r_start st)) st in
    mkQR (Qs st') (Rs st') (cap st') (q_idx st' - 1) (r_succ (cap st') (r_start st')) (r_end st')
         (min_eig st') (max_eig st') (reorth st').

  (* ---------------------------------------------------------------- solve_col *)
  Definition Rat (st : qrst) (row scol : nat) : T := getv (getc (Rs st) scol) row.

  Definition solve_row (st : qrst) (b : list T) (tol : T) (x : list T) (e : (nat * nat) * (nat * nat)) : list T :=
    let '((rR, cR), (zb, c)) := e in
    if nabs (Rat st rR cR) <? tol then upd rR (fun _ => n0) x
    else
      let x0 := vdot (getc (Qs st) rR) b in
      let x1 := fold_left (fun acc '(rX2, cR2) => acc - Rat st rR cR2 * getv x rX2)
                          (iter_fwd (q_idx st - zb) zb c (cap st)) x0 in
      upd rR (fun _ => x1 / Rat st rR cR) x.

  Definition solve_col (st : qrst) (b : list T) (tol : T) (x : list T) : list T :=
    fold_left (solve_row st b tol) (ring_rev_iter (q_idx st) (r_end st) (cap st)) x.

  (* ---------------------------------------------------------------- scale_R, reset *)
  Definition scale_prefix (k : nat) (s : T) (col : list T) : list T :=
    map (fun x => x * s) (firstn k col) ++ skipn k col.
  Definition scale_R (st : qrst) (s : T) : qrst :=
    let R' := fold_left (fun R '(i, ridx) => upd ridx (scale_prefix (S i) s) R)
                        (ring_iter (q_idx st) (r_start st) (cap st)) (Rs st) in
    mkQR (Qs st) R' (cap st) (q_idx st) (r_start st) (r_end st)
         (option_map (fun x => x * s) (min_eig st)) (option_map (fun x => x * s) (max_eig st)) (reorth st).

  Definition qr_reset (st : qrst) : qrst :=
    mkQR (Qs st) (Rs st) (cap st) 0 0 0 None None 0.

  (* ---------------------------------------------------------------- observers *)
  (* logical column j of R = storage column (r_start + j) mod m; only rows 0..j are meaningful *)
  Definition Rlog (st : qrst) (j : nat) : list T := getc (Rs st) ((r_start st + j) mod cap st).
  Definition get_Q (st : qrst) : list (list T) := firstn (q_idx st) (Qs st).
  (* get_R(): upper triangle of the rotated storage, as a list of logical columns (rows 0..j of column j) *)
  Definition get_R (st : qrst) : list (list T) :=
    map (fun j => firstn (S j) (Rlog st j)) (seq 0 (q_idx st)).

  (* ---------------------------------------------------------------- Anderson *)
  Record aast := mkAA {
    a_qr : qrst;
    a_G : list (list T);       (* m columns of length n, ring-indexed like R *)
    a_rlast : list T;
    a_gamma : list T;          (* γ_LS, length m *)
    a_mdf : T;                 (* params.min_div_fac *)
    a_init : bool
  }.

  (* AndersonAccel(params, n): resize(n) with m_AA = min(n, params.memory) *)
  Definition aa_new (n mem : nat) (mdf : T) : aast :=
    let m := Nat.min n mem in
    mkAA (qr_new n m) (repeat (repeat n0 n) m) (repeat n0 n) (repeat n0 m) mdf false.

  Definition aa_initialize (a : aast) (g0 r0 : list T) : aast :=
    mkAA (qr_reset (a_qr a)) (upd 0 (fun _ => g0) (a_G a)) r0 (a_gamma a) (a_mdf a) true.

  (* α_0 = γ_0 ; α_i = γ_i - γ_{i-1} (0 < i < k) ; α_k = 1 - γ_{k-1} *)
  Definition aa_alphas (γ : list T) (k : nat) : list T :=
    getv γ 0 :: map (fun i => getv γ i - getv γ (i - 1)) (seq 1 (k - 1)) ++ [n1 - getv γ (k - 1)].

  (* minimize_update_anderson: returns (qr', G', γ', x_aa) *)
  Definition minimize_update_anderson (qr : qrst) (G : list (list T)) (rk rlast gk : list T) (mdf : T) (γ : list T)
    : qrst * list (list T) * list T * list T :=
    let qr1 := if Nat.eqb (q_idx qr) (cap qr) then remove_column qr else qr in
    let qr2 := add_column qr1 (vsub rk rlast) in
    let tol := match max_eig qr2 with Some e => e * mdf | None => n0 end in
    let γ' := solve_col qr2 rk tol γ in
    let k := q_idx qr2 in
    let it := ring_iter k (r_start qr2) (cap qr2) in
    let α := aa_alphas γ' k in
    let cols := map (fun e => getc G (snd e)) it ++ [gk] in
    let x := match α, cols with
             | a0 :: αs, c0 :: cs =>
                 fold_left (fun x '(a, c) => vadd x (vscale a c)) (combine αs cs) (vscale a0 c0)
             | _, _ => []
             end in
    (qr2, upd (r_end qr2) (fun _ => gk) G, γ', x).

  (* compute(): None models the std::logic_error when called before initialize() *)
  Definition aa_compute (a : aast) (gk rk : list T) : option (aast * list T) :=
    if a_init a then
      let '(qr', G', γ', x) := minimize_update_anderson (a_qr a) (a_G a) rk (a_rlast a) gk (a_mdf a) (a_gamma a) in
      Some (mkAA qr' G' rk γ' (a_mdf a) true, x)
    else None.

  Definition aa_reset (a : aast) : aast :=
    let t := r_end (a_qr a) in
    let G' := if Nat.eqb t 0 then a_G a else upd 0 (fun _ => getc (a_G a) t) (a_G a) in
    mkAA (qr_reset (a_qr a)) G' (a_rlast a) (a_gamma a) (a_mdf a) (a_init a).

  Definition aa_scale_R (a : aast) (s : T) : aast :=
    mkAA (scale_R (a_qr a) s) (a_G a) (a_rlast a) (a_gamma a) (a_mdf a) (a_init a).
End LMQR.

Arguments qrst T : clear implicits.
Arguments aast T : clear implicits.
