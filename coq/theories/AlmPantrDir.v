(* AlmPantrDir.v — the SHIPPED stack ALMSolver<PANTRSolver<DirectionProviderT>>: the ALM outer loop (Alm.v, composed by AlmCompose.v)
   with PantrDir.pantrD (the PANTR loop with a STATEFUL trust-region direction provider, DirectionsTR.trdirops — NewtonTRDirection over
   SteihaugCG is the one the library ships) as its inner solver, on a user problem given by its four basic functions through the vtable
   model of AugLag.v (problem view, counters and InnerSolveOptions as in AlmPantr.v / AlmPanoc.v).
   As for PANOC / ZeroFPR (AlmPanocDir.v, AlmZeroFprDir.v) the provider lives inside the inner solver object, which ALM owns: its state
   PERSISTS across inner solves — the world threaded through AlmCompose is (cumulative counters, provider) — and `initialize` is called at
   k = 0 of every inner solve (PantrDir.passD) with the y and Σ of THAT solve and the first FBS iterate.  Everything else of
   PANTRSolver::operator() is local to one call: the three iterates, the buffer q and in particular the trust radius Δ, which every inner
   solve re-initialises from params.initial_radius / 0.1 ‖∇ψ(x₀)‖ (Pantr.initial_delta inside pantrD).
   A solve that returns NotFinite before the loop does not touch the provider.  An exception thrown by a provider call (NewtonTRDirection:
   the capability checks of initialize, a non-finite / too small radius in apply) leaves PANTRSolver::operator() and
   ALMSolver::operator(): the composed run has no result (None).
   Model only; proofs in PantrDirLen.v / AlmPantrDirProofs.v / AlmPantrDirRefine.v, theorems in Properties_C01.v. *)
From Coq Require Import List ZArith Bool Arith.
From Alpaqa Require Import Num Vec Prox SolverStatus SolverKernels StopChain AugLag Panoc ZeroFpr Pantr DirectionsTR PantrDir
                           Alm AlmCompose AlmPanoc AlmPantr.
Import ListNotations.

Section AlmPantrDir.
  Context {T : Type} `{Num T}.
  Local Open Scope num_scope.

  Variable Pb : problem (T:=T).
  Variable prov : fn -> bool.
  Variable wm_supplied : list T -> list T.
  Variables (Clb Cub : list (option T)) (l1 : list T).
  Variable split : nat.
  Variable D : Type.
  Variable ops : trdirops T D.                  (* the provider (NewtonTRDirection, …) *)
  Variable stop_req : counters -> bool.
  Variable time_up : counters -> bool.
  Variable outer_oot : nat -> bool.
  Variable TP : trparams (T:=T).                (* PANTRParams *)
  Variable AP : alm_params (T:=T).
  Variables (bt_fuel inner_fuel : nat).

  (* one inner solve as the outer loop sees it; the world is (cumulative counters, provider) *)
  (* ir_stop: ALMSolver::stop() sets ALM's own flag and the inner solver's flag in the same call, so the one oracle stop_req serves both:
     the outer loop reads its flag after the inner solve, i.e. at the cumulative counters the solve hands on *)
  Definition tdinner (w : counters * D) (i : nat) (x y Σ : list T) (tol : T) (errz : list T)
      : option (inner_res (T:=T) * list T * tresultD (T:=T) D * (counters * D)) :=
    let r := pantrD (o_psi_grad_full Pb prov wm_supplied y Σ) (o_psi_yhat Pb prov y Σ) (o_grad_L Pb prov) (o_grad_psi Pb prov y Σ) Clb Cub l1
                    D ops (fun c => stop_req (cadd (fst w) c)) (fun c => time_up (cadd (fst w) c))
                    (tr_with_opts TP tol) x y Σ errz bt_fuel (snd w) inner_fuel in
    match r with
    | TDoneD _ oD =>
        let o := tod_out D oD in
        Some ({| ir_status := alm_status_of (to_status o); ir_eps := to_eps o; ir_err := Some (to_errz o);
                 ir_y := Some (to_y o); ir_iters := to_iterations o; ir_oot := outer_oot i;
                 ir_stop := stop_req (cadd (fst w) (to_cnt o)) |},
              to_x o, r, (cadd (fst w) (to_cnt o), tod_dir D oD))
    | TNotFiniteLD _ L =>
        Some ({| ir_status := NotFinite; ir_eps := ninf; ir_err := None; ir_y := None; ir_iters := 0; ir_oot := outer_oot i;
                 ir_stop := stop_req (cadd (fst w) (snd (init_L (o_psi_grad_full Pb prov wm_supplied y Σ) (o_grad_psi Pb prov y Σ) (with_opts (tp_base TP) tol) x))) |},
              x, r, (cadd (fst w) (snd (init_L (o_psi_grad_full Pb prov wm_supplied y Σ) (o_grad_psi Pb prov y Σ) (with_opts (tp_base TP) tol) x)), snd w))
    | TOutOfFuelD _ => None
    | TThrewD _ _ _ _ => None
    end.

  (* ALMSolver<PANTRSolver<DirectionProviderT>>::operator()(p, x, y, Σ);  d0 = the provider as constructed *)
  Definition alm_pantr_dir (d0 : D) (outer_fuel : nat) (nanv : T) (Σ0 : option (list T)) (y0 x0 : list T)
      : option (cout (T:=T) (counters * D) (tresultD (T:=T) D)) :=
    c_run (counters * D)%type (tresultD (T:=T) D) tdinner AP (pb_of Pb split) outer_fuel (pf Pb x0) (pg Pb x0) nanv Σ0 y0 x0 (cnt0, d0).
End AlmPantrDir.
