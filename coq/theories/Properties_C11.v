(* Properties_C11.v — C11: Steihaug CG / Newton-TR step is feasible and beats the Cauchy point.
   Only theorem statements closed by `exact`, each followed by Print Assumptions.
   Setting of all theorems: B any symmetric linear operator on length-n vectors (may be indefinite, singular, zero),
   ANY g of length n (g = 0 takes the early return added by fix 756d57214), radius Δ > 0, any parameters P
   (tolerances, iteration cap); exact real arithmetic.
   `cg_solve B g Δ P` is the model of SteihaugCG::solve (Steihaug.v), the same definition that is run at
   binary64 against the C++ implementation (Corr_C11.v). *)
From Coq Require Import Reals List ZArith Lra Floats.
From Alpaqa Require Import Num NumR NumF Vec Steihaug SteihaugProofs SteihaugGenLib SteihaugGen SteihaugGenEq.
Import ListNotations.
Local Open Scope R_scope.

(* (0) the loop always leaves through one of its return statements, within max_iter + 2 passes; never the NaN exit *)
Theorem C11_terminates : forall n B g Δ P, sym_linear_op n B -> length g = n -> 0 < Δ ->
  let res := cg_solve B g Δ P in
  res_exit res <> ExFuel /\ res_exit res <> ExNaN /\ (0 <= res_iter res <= Z.max 0 (max_iter P + 1))%Z.
Proof. exact P_terminates. Qed.
Print Assumptions C11_terminates.

(* (1) loop invariant at every loop head: r = g + B z, r_sq = r'r <> 0, r'd = -r'r, ||z|| < Δ; each pass decreases the model *)
Theorem C11_cg_invariant_init : forall n B g Δ, sym_linear_op n B -> length g = n -> 0 < Δ -> g <> zeros g ->
  cg_invariant n B g Δ (cg_init g).
Proof. exact P_invariant_init. Qed.
Print Assumptions C11_cg_invariant_init.

Theorem C11_cg_invariant_step : forall n B g Δ P, sym_linear_op n B -> length g = n -> 0 < Δ ->
  forall tol i st st', cg_invariant n B g Δ st -> cg_step B g Δ P tol i st = inr st' ->
  cg_invariant n B g Δ st' /\ model B g (st_z st') <= model B g (st_z st).
Proof. exact P_invariant_step. Qed.
Print Assumptions C11_cg_invariant_step.

(* (2) feasibility *)
Theorem C11_step_norm_le_radius : forall n B g Δ P, sym_linear_op n B -> length g = n -> 0 < Δ ->
  vnorm2 (res_step (cg_solve B g Δ P)) <= Δ.
Proof. exact P_norm_le_radius. Qed.
Print Assumptions C11_step_norm_le_radius.

(* (3) the returned value is the model value of the returned step *)
Theorem C11_returned_value_is_model : forall n B g Δ P, sym_linear_op n B -> length g = n -> 0 < Δ ->
  let res := cg_solve B g Δ P in
  res_val res = vdot g (res_step res) + / 2 * vdot (res_step res) (B (res_step res)).
Proof. exact P_value_is_model. Qed.
Print Assumptions C11_returned_value_is_model.

(* (4) model value <= 0 *)
Theorem C11_model_nonpositive : forall n B g Δ P, sym_linear_op n B -> length g = n -> 0 < Δ ->
  res_val (cg_solve B g Δ P) <= 0.
Proof. exact P_nonpositive. Qed.
Print Assumptions C11_model_nonpositive.

(* (5) no worse than ANY feasible point -t g (t >= 0) of the steepest-descent ray, in particular the Cauchy point *)
Theorem C11_model_le_steepest_descent_ray : forall n B g Δ P, sym_linear_op n B -> length g = n -> 0 < Δ ->
  forall t, 0 <= t -> vnorm2 (vscale (- t) g) <= Δ ->
  res_val (cg_solve B g Δ P) <= model B g (vscale (- t) g).
Proof. exact P_le_steepest_descent. Qed.
Print Assumptions C11_model_le_steepest_descent_ray.

Theorem C11_model_le_cauchy : forall n B g Δ P, sym_linear_op n B -> length g = n -> 0 < Δ ->
  res_val (cg_solve B g Δ P) <= model B g (cauchy_point B g Δ).
Proof. exact P_le_cauchy. Qed.
Print Assumptions C11_model_le_cauchy.

(* the Cauchy point used above (tau = Δ/|g| if g'Bg <= 0, else min(|g|²/g'Bg, Δ/|g|)) is feasible and is the
   minimiser of the model over the feasible part of the ray *)
Theorem C11_cauchy_point_is_ray_minimiser : forall n B g Δ, sym_linear_op n B -> length g = n -> 0 < Δ ->
  vnorm2 (cauchy_point B g Δ) <= Δ /\
  forall t, 0 <= t -> vnorm2 (vscale (- t) g) <= Δ -> model B g (cauchy_point B g Δ) <= model B g (vscale (- t) g).
Proof. exact P_cauchy_point_spec. Qed.
Print Assumptions C11_cauchy_point_is_ray_minimiser.

(* (6) boundary exits lie exactly on the sphere; the interior exit is exactly the strictly-inside case *)
Theorem C11_exit_kinds : forall n B g Δ P, sym_linear_op n B -> length g = n -> 0 < Δ ->
  let res := cg_solve B g Δ P in
  ((res_exit res = ExNegCurvA \/ res_exit res = ExNegCurvB \/ res_exit res = ExBoundary) -> vnorm2 (res_step res) = Δ) /\
  ((res_exit res = ExInterior \/ res_exit res = ExZeroGrad) <-> vnorm2 (res_step res) < Δ) /\
  (res_exit res = ExZeroGrad <-> g = zeros g).
Proof. exact P_exit_kinds. Qed.
Print Assumptions C11_exit_kinds.

(* (7) a step strictly inside the region satisfies the residual rule (true residual g + B s) or the iteration cap *)
Theorem C11_interior_exit_reason : forall n B g Δ P, sym_linear_op n B -> length g = n -> 0 < Δ ->
  let res := cg_solve B g Δ P in
  vnorm2 (res_step res) < Δ ->
  let r := vadd g (B (res_step res)) in
  vnorm2 r < cg_tolerance P g \/ vnorm2 r = 0 \/ (max_iter P < res_iter res)%Z.
Proof. exact P_interior_exit_reason. Qed.
Print Assumptions C11_interior_exit_reason.

(* (8) in any pass (any history satisfying the invariant): negative curvature / an over-long step is answered with a
   boundary point whose value is the model value and does not exceed the model at the current iterate *)
Theorem C11_negative_curvature_gives_boundary : forall n B g Δ P, sym_linear_op n B -> length g = n -> 0 < Δ ->
  forall tol i st, cg_invariant n B g Δ st -> vdot (st_d st) (B (st_d st)) <= 0 ->
  exists r, cg_step B g Δ P tol i st = inl r /\
            (res_exit r = ExNegCurvA \/ res_exit r = ExNegCurvB) /\ vnorm2 (res_step r) = Δ /\
            res_val r = model B g (res_step r) /\ res_val r <= model B g (st_z st).
Proof. exact P_negative_curvature. Qed.
Print Assumptions C11_negative_curvature_gives_boundary.

Theorem C11_overlong_gives_boundary : forall n B g Δ P, sym_linear_op n B -> length g = n -> 0 < Δ ->
  forall tol i st, cg_invariant n B g Δ st -> 0 < vdot (st_d st) (B (st_d st)) ->
  Δ <= vnorm2 (axpy (st_z st) (st_rsq st / vdot (st_d st) (B (st_d st))) (st_d st)) ->
  exists r, cg_step B g Δ P tol i st = inl r /\
            res_exit r = ExBoundary /\ vnorm2 (res_step r) = Δ /\
            res_val r = model B g (res_step r) /\ res_val r <= model B g (st_z st).
Proof. exact P_overlong. Qed.
Print Assumptions C11_overlong_gives_boundary.

(* (9) get_boundaries_intersections: for ||z|| < Δ and d <> 0 the returned pair brackets zero and both points lie on the sphere *)
Theorem C11_roots_bracket_zero : forall (z d : list R) (Δ : R), 0 < Δ -> length z = length d -> d <> zeros d -> vnorm2 z < Δ ->
  let lo := fst (bnd_intersections z d Δ) in
  let hi := snd (bnd_intersections z d Δ) in
  lo < 0 < hi /\ vnorm2 (axpy z lo d) = Δ /\ vnorm2 (axpy z hi d) = Δ.
Proof. exact roots_bracket_zero. Qed.
Print Assumptions C11_roots_bracket_zero.

(* (10) Newton-TR direction: components outside the inactive set J are the forward-backward step, unconditionally *)
Theorem C11_newton_tr_active_is_fb_step : forall (Hprod : list R -> list R) (P : cg_params R) (hvf γ : R)
    (J : list nat) (p : list R) (Δ : R) (i : nat),
  (i < length p)%nat -> ~ In i J ->
  nth i (ntr_q (newton_tr_apply Hprod P hvf γ J p Δ)) 0 = nth i p 0.
Proof. exact newton_tr_active_is_fb_step. Qed.
Print Assumptions C11_newton_tr_active_is_fb_step.

(* (11) ... and the returned value is the model value of the reduced step minus |q_K|²/(2γ): the model decrease of the
   combined step; the reduced step is feasible, and the value is no worse than that of the forward-backward part alone
   or of the reduced Cauchy point.  Hypothesis: the masked Hessian product is symmetric linear on R^|J| (r_J = 0 included). *)
Theorem C11_newton_tr_value_is_combined_decrease : forall (Hprod : list R -> list R) (P : cg_params R) (hvf γ Δ : R)
    (J : list nat) (p : list R),
  0 < Δ -> sym_linear_op (length J) (BJ_of Hprod J p) ->
  let r := newton_tr_apply Hprod P hvf γ J p Δ in
  let qJ := res_step (ntr_cg r) in
  vnorm2 qJ <= Δ /\
  ntr_val r = (vdot (ntr_rJ r) qJ + / 2 * vdot qJ (BJ_of Hprod J p qJ)) - sqnorm_active J p / (2 * γ) /\
  ntr_val r <= - (sqnorm_active J p / (2 * γ)) /\
  ntr_val r <= model (BJ_of Hprod J p) (ntr_rJ r) (cauchy_point (BJ_of Hprod J p) (ntr_rJ r) Δ) - sqnorm_active J p / (2 * γ).
Proof. exact P_newton_tr_value. Qed.
Print Assumptions C11_newton_tr_value_is_combined_decrease.

(* (12) zero gradient (fix 756d57214): the zero step with value 0 is returned without any Hessian product; it is the
   model value of that step, feasible, <= 0 and <= the Cauchy value.  (Before the fix the routine returned NaN here:
   a regression is reported by the check under the signature C11:zero-gradient-nan-step.) *)
Theorem C11_zero_gradient_gives_zero_step : forall (B : list R -> list R) g Δ P, 0 < Δ -> g = zeros g ->   (* any operator B *)
  let res := cg_solve B g Δ P in
  res_step res = zeros g /\ res_val res = 0 /\ res_exit res = ExZeroGrad /\ res_iter res = 0%Z /\
  res_val res = model B g (res_step res) /\ vnorm2 (res_step res) <= Δ /\ res_val res <= model B g (cauchy_point B g Δ).
Proof. exact P_zero_gradient. Qed.
Print Assumptions C11_zero_gradient_gives_zero_step.

(* the same at binary64 on a concrete case: finite zero step, value 0, no Hessian product *)
Theorem C11_zero_gradient_binary64_witness :
  let res := cg_solve (mat_vec [[2; 0]; [0; 1]]%float) [0; 0]%float 1%float
               {| tol_scale := 1%float; tol_scale_root := 0.5%float; tol_max := None; max_iter := 2%Z |} in
  res_step res = [0; 0]%float /\ res_val res = 0%float /\ res_exit res = ExZeroGrad /\ cg_hess_calls res = 0%Z.
Proof. vm_compute. repeat split. Qed.
Print Assumptions C11_zero_gradient_binary64_witness.

(* (13) the NaN exit, unreachable over R (C11_terminates), is reachable at binary64 when r'r / d'Bd overflows:
   a positive definite 1x1 operator 2^-1070, g = 1, Δ = 1 gives alpha = +inf and the routine returns NaN instead of
   the boundary point -1 (signature C11:alpha-overflow-nan-step). *)
Theorem C11_alpha_overflow_nan_refuted :
  exists (B : list (list float)) (g : list float) (Δ : float) (P : cg_params float),
    PrimFloat.ltb 0 Δ = true /\ PrimFloat.ltb 0 (vdot g (mat_vec B g)) = true /\
    let res := cg_solve (mat_vec B) g Δ P in
    res_exit res = ExNaN /\ nisnan (res_val res) = true /\ forallb nisnan (res_step res) = true /\ res_step res <> [].
Proof.
  exists [[0x1p-1070]]%float, [1]%float, 1%float,
         {| tol_scale := 1%float; tol_scale_root := 0.5%float; tol_max := None; max_iter := 1%Z |}.
  vm_compute. repeat split; discriminate.
Qed.
Print Assumptions C11_alpha_overflow_nan_refuted.

(* non-vacuity: an indefinite symmetric operator, a non-zero gradient and a positive radius satisfy all hypotheses,
   the initial state satisfies the loop invariant, and the first pass of the model on it does real work
   (d'Bd = -6 <= 0: the negative-curvature branch is taken) *)
Example C11_nonvacuous :
  let B := mat_vec [[2; 1]; [1; -3]] in let g := [1; 2] in
  sym_linear_op 2 B /\ length g = 2%nat /\ 0 < 1 /\ g <> zeros g /\
  cg_invariant 2 B g 1 (cg_init g) /\ vdot (st_d (cg_init g)) (B (st_d (cg_init g))) = -6.
Proof.
  cbv zeta. split; [exact example_op_sym_linear|]. split; [reflexivity|]. split; [lra|].
  assert (Hg : [1; 2] <> zeros [1; 2]) by (cbn; intros E; injection E; intros; lra).
  split; [exact Hg|]. split.
  - apply (P_invariant_init 2 _ [1; 2] 1 example_op_sym_linear (eq_refl 2%nat)); [lra | exact Hg].
  - cbn. lra.
Qed.

(* ---------------------------------------------------------------------------------------------------------------------------
   (10) The same guarantees for the code REGENERATED from steihaugcg.hpp on every run (coq/gen/SteihaugGen.v, translator
        translate/gen_steihaug.py): g_solve = initialisation + zero-gradient return + tolerance formula + `while (true)` with
        the generated loop body g_solve_while_step (negative-curvature branch, NaN exit, boundary branch, interior update,
        termination tests), the generated root formula g_bnd and the lambda eval.  They follow from the piece-by-piece
        equalities of SteihaugGenEq.v (g_bnd_eq, g_solve_eval_eq, g_tolerance_eq, g_solve_while_step_eq, g_loop_eq,
        g_solve_eq), so a source change that changes a generated piece breaks the equality named after it, and with it these
        obligations.  `tm` is the number passed as params.tol_max (`tolmax_repr`: the model's value, or for the model's +inf any
        number not below the other argument of the outer fmin); the work vectors and the incoming step have n rows. *)
Theorem C11_gen_solve_is_feasible_and_beats_cauchy : forall n B g Δ (P : cg_params R) tm z0 r0 d0 Bd0 we0 s0,
  sym_linear_op n B -> length g = n -> 0 < Δ -> tolmax_repr g P tm -> length z0 = n -> length s0 = n ->
  exists val s,
    g_solve B (tol_scale P) (tol_scale_root P) tm (max_iter P) (cg_fuel P) z0 r0 d0 Bd0 we0 g Δ s0 = Some (val, s) /\
    val = res_val (cg_solve B g Δ P) /\ s = res_step (cg_solve B g Δ P) /\
    vnorm2 s <= Δ /\
    val = vdot g s + / 2 * vdot s (B s) /\
    val <= 0 /\
    val <= model B g (cauchy_point B g Δ).
Proof. exact gen_solve_guarantees. Qed.
Print Assumptions C11_gen_solve_is_feasible_and_beats_cauchy.

Theorem C11_gen_loop_body_keeps_invariant : forall n B g Δ (P : cg_params R) tm tol i st Bd s nxt,
  sym_linear_op n B -> length g = n -> 0 < Δ -> cg_invariant n B g Δ st ->
  g_solve_while_step B (tol_scale P) (tol_scale_root P) tm (max_iter P) g Δ tol (max_iter P) (st_z st) (st_r st) (st_d st) Bd s (st_rsq st) i
    = inr nxt ->
  let '(z', r', d', _, _, rsq', i') := nxt in
  let st' := {| st_z := z'; st_r := r'; st_d := d'; st_rsq := rsq' |} in
  i' = Z.succ i /\ cg_invariant n B g Δ st' /\ model B g z' <= model B g (st_z st).
Proof. exact gen_step_invariant. Qed.
Print Assumptions C11_gen_loop_body_keeps_invariant.

Theorem C11_gen_boundary_roots_are_model_roots : forall B (P : cg_params R) tm z d Δ,
  g_bnd B (tol_scale P) (tol_scale_root P) tm (max_iter P) z d Δ = bnd_intersections z d Δ.
Proof. exact gen_bnd_is_model. Qed.
Print Assumptions C11_gen_boundary_roots_are_model_roots.

(* non-vacuity for the generated code: the indefinite operator and gradient of C11_nonvacuous, Δ = 1, tol_max = 10:
   all hypotheses hold and the generated solve returns a feasible step with a non-positive model value *)
Example C11_gen_nonvacuous :
  let B := mat_vec [[2; 1]; [1; -3]] in
  let P := {| tol_scale := 1; tol_scale_root := 1 / 2; tol_max := Some 10; max_iter := 2 |} in
  exists val s, g_solve B 1 (1 / 2) 10 2%Z (cg_fuel P) [0; 0] [0; 0] [0; 0] [0; 0] [0; 0] [1; 2] 1 [0; 0] = Some (val, s) /\
                vnorm2 s <= 1 /\ val <= 0.
Proof.
  cbn zeta.
  destruct (C11_gen_solve_is_feasible_and_beats_cauchy 2 _ [1; 2] 1
              {| tol_scale := 1; tol_scale_root := 1 / 2; tol_max := Some 10; max_iter := 2 |} 10 [0; 0] [0; 0] [0; 0] [0; 0] [0; 0] [0; 0]
              example_op_sym_linear eq_refl ltac:(lra) eq_refl eq_refl eq_refl) as (val & s & H1 & _ & _ & H2 & _ & H3 & _).
  exists val, s. cbn [tol_scale tol_scale_root max_iter] in H1. auto.
Qed.
