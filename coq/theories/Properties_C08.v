(* Properties_C08.v — C08: FISTA attains the accelerated O(1/k²) rate on convex problems.
   Only theorem statements closed by `exact`, each followed by Print Assumptions.
   `genK` = the scalar kernels (momentum recurrence, extrapolation, QUB test, backtracking updates, γ = Lγ/L) that
   translate/gen_C08_fista.py regenerates from fista.tpp on every run (coq/gen/FistaGen.v); `init/step/run` = the
   hand-written loop skeleton of Fista.v (validated against the real solver by Corr_C08.v).
   Hypothesis bundles (FistaProofs.v):
     prob_ok n lb ub l1        box sides have lb <= ub; with an l1 term the weights are >= 0 and lb <= 0 <= ub
     smooth_convex n f ∇f Lf   ∇f has the right length, first-order convexity inequality, descent lemma with Lf > 0
     params_ok P Lf            quadratic_upperbound_tolerance_factor = 0 (exact arithmetic), 0 < Lγ_factor <= 1,
                               Lγ_factor·Lf <= L_max, 0 < L_min <= L_max
     minimiser n f lb ub l1 xs  xs feasible and F(xs) <= F(x) for every feasible x,  F = f + Σ λ_i |x_i|            *)
From Coq Require Import Reals List ZArith Lra.
From Alpaqa Require Import Num NumR Vec Prox ProxProofs ProxVec Fista FistaGen FistaK FistaProofs FistaGenProofs.
Import ListNotations.
Local Open Scope R_scope.

(* (1) the momentum recurrence in the source satisfies t+ (t+ - 1) = t²  — i.e. t+ = (1 + √(1 + 4t²))/2 *)
Theorem C08_momentum_recurrence : forall t, 1 <= t -> k_tnext genK t * (k_tnext genK t - 1) = t * t.
Proof. exact gen_tnext_recurrence. Qed.
Print Assumptions C08_momentum_recurrence.

(* (2) t_k >= (k+2)/2 for the sequence started at t_0 = 1 *)
Theorem C08_t_lower_bound : forall k, (INR k + 2) / 2 <= titer genK k 1.
Proof. exact gen_t_lower_bound. Qed.
Print Assumptions C08_t_lower_bound.

(* (3) all kernels generated from the source have the properties the rate proof uses *)
Theorem C08_generated_kernels_ok : kernels_ok genK.
Proof. exact genK_ok. Qed.
Print Assumptions C08_generated_kernels_ok.

(* (4) prox-gradient key inequality (Beck–Teboulle Lemma 2.3), multiplied by 2γ:
       ‖x̂-y‖² + 2<y-x, x̂-y>  <=  2γ (F(x) - F(x̂))   whenever the quadratic upper bound with 1/γ holds at y *)
Theorem C08_prox_grad_key_inequality :
  forall n f gradf lb ub l1 Lf, prob_ok n lb ub l1 -> smooth_convex n f gradf Lf ->
  forall γ y x, 0 < γ -> length y = n -> length x = n -> feas n lb ub x ->
  let o := prox_eval f lb ub l1 γ y (gradf y) in
  o_psih o <= f y + o_gp o + / (2 * γ) * o_pp o ->
  dist2 n (o_xh o) y + 2 * Ssum n (fun i => (nth i y 0 - nth i x 0) * (nth i (o_xh o) 0 - nth i y 0))
    <= 2 * γ * (F n f l1 x - F n f l1 (o_xh o)).
Proof. exact key_inequality_b. Qed.
Print Assumptions C08_prox_grad_key_inequality.

(* (5) one pass of the loop (with backtracking) does not increase the potential
       Φ = 2γ t(t-1)(F(x̂)-Fmin) + ‖t x - (t-1) x̂ - x*‖²  and  2γ' t²(F(x̂')-Fmin) <= Φ' *)
Theorem C08_potential_decrease :
  forall n f gradf lb ub l1 Lf P, prob_ok n lb ub l1 -> smooth_convex n f gradf Lf -> params_ok P Lf ->
  forall xs, minimiser n f lb ub l1 xs ->
  forall fuel s s' o nbt, p_noaccel P = false ->
  inv n f gradf lb ub P s -> step genK f gradf lb ub l1 P fuel s = Some (s', o, nbt) ->
  inv n f gradf lb ub P s' /\ Phi n f l1 xs s' <= Phi n f l1 xs s /\
  2 * s_gam s' * (s_t s * s_t s) * (F n f l1 (o_xh o) - F n f l1 xs) <= Phi n f l1 xs s' /\
  0 <= F n f l1 (o_xh o) - F n f l1 xs /\ s_t s + / 2 <= s_t s'.
Proof. exact gen_potential_decrease. Qed.
Print Assumptions C08_potential_decrease.

(* (6) THE RATE, fixed and backtracked step size, every k:  x̂_k = o_xh o is the (k)-th proximal iterate
       (k = 0,1,...) of the run started by `init` at x0, γ_k = s_gam s' the step size it was computed with:
       F(x̂_k) - Fmin <= 2‖x0-x*‖² / (γ_k (k+2)²) <= 2‖x0-x*‖² / (γ_k (k+1)²) *)
Theorem C08_fista_rate :
  forall n f gradf lb ub l1 Lf P, prob_ok n lb ub l1 -> smooth_convex n f gradf Lf -> params_ok P Lf ->
  forall xs, minimiser n f lb ub l1 xs ->
  forall x0 fuel k s0 s s' o nbt, length x0 = n -> p_noaccel P = false ->
  init genK f gradf P x0 = Some s0 -> run genK f gradf lb ub l1 P fuel k s0 = Some s ->
  step genK f gradf lb ub l1 P fuel s = Some (s', o, nbt) ->
  0 < s_gam s' /\
  F n f l1 (o_xh o) - F n f l1 xs <= 2 * dist2 n x0 xs / (s_gam s' * ((INR k + 2) * (INR k + 2))) /\
  F n f l1 (o_xh o) - F n f l1 xs <= 2 * dist2 n x0 xs / (s_gam s' * ((INR k + 1) * (INR k + 1))).
Proof. exact gen_fista_rate. Qed.
Print Assumptions C08_fista_rate.

(* (7) acceleration disabled: F decreases monotonically (from the first proximal iterate on) and the O(1/k) bound *)
Theorem C08_noaccel_monotone_and_rate :
  forall n f gradf lb ub l1 Lf P, prob_ok n lb ub l1 -> smooth_convex n f gradf Lf -> params_ok P Lf ->
  forall xs, minimiser n f lb ub l1 xs ->
  forall x0 fuel k s0 s s' o nbt, length x0 = n -> p_noaccel P = true ->
  init genK f gradf P x0 = Some s0 -> run genK f gradf lb ub l1 P fuel k s0 = Some s ->
  step genK f gradf lb ub l1 P fuel s = Some (s', o, nbt) ->
  0 < s_gam s' /\
  (k <> O -> F n f l1 (o_xh o) <= F n f l1 (s_x s)) /\
  F n f l1 (o_xh o) - F n f l1 xs <= dist2 n x0 xs / (2 * s_gam s' * (INR k + 1)).
Proof. exact gen_fista_noaccel. Qed.
Print Assumptions C08_noaccel_monotone_and_rate.

(* (8) the recurrence as it stood before the fix, t+ = (1 + √(1 + 4t))/2 (square missing), keeps [1,2] invariant and
       has the fixed point 2, so NO sequence produced by it can satisfy t_k >= (k+2)/2 (fails at k = 3): the
       mechanism the property names is refuted for that recurrence. (The rate violation itself is exhibited on the
       implementation by the oracle of lib/vf/props/C08.py.) *)
Theorem C08_missing_square_recurrence_refuted :
  (forall t, 1 <= t <= 2 -> 1 <= tnext_nosq t <= 2) /\ tnext_nosq 2 = 2 /\
  forall K : kernels (T:=R), (forall t, k_tnext K t = tnext_nosq t) ->
    exists k, ~ ((INR k + 2) / 2 <= titer K k 1).
Proof. exact missing_square_refuted. Qed.
Print Assumptions C08_missing_square_recurrence_refuted.

(* non-vacuity: f = ½‖x‖² on R², box [-1,1] x R, l1 weight ½, fixed step L = 1, x* = 0, x0 = (3,-2):
   every hypothesis bundle of (4)-(7) is inhabited and the model initialises and iterates *)
Example C08_nonvacuous :
  prob_ok 2 ex_lb ex_ub [/ 2] /\ smooth_convex 2 ex_f (fun x => x) 1 /\ params_ok ex_P 1 /\
  minimiser 2 ex_f ex_lb ex_ub [/ 2] [0; 0] /\
  exists s0 s' o nbt, init genK ex_f (fun x => x) ex_P [3; -2] = Some s0 /\
                      step genK ex_f (fun x => x) ex_lb ex_ub [/ 2] ex_P 0 s0 = Some (s', o, nbt).
Proof. exact (conj ex_prob_ok (conj ex_smooth_convex (conj ex_params_ok (conj ex_minimiser ex_runs)))). Qed.
