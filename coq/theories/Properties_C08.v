(* Properties_C08.v — C08: FISTA attains the accelerated O(1/k²) rate on convex problems.
   Only theorem statements closed by `exact`, each followed by Print Assumptions.
   `genK` = the scalar kernels (momentum recurrence, extrapolation, QUB test, backtracking updates, γ = Lγ/L) that
   translate/gen_C08_fista.py regenerates from fista.tpp on every run (coq/gen/FistaGen.v); `init/step/run` = the
   hand-written loop skeleton of Fista.v (validated against the real solver by Corr_C08.v).
   Hypothesis bundles (FistaProofs.v):
     prob_ok n lb ub l1        box sides have lb <= ub; with an l1 term the weights are >= 0 and lb <= 0 <= ub
     smooth_convex n f ∇f Lf   ∇f has the right length, first-order convexity inequality, descent lemma with Lf > 0
     params_ok P Lf            quadratic_upperbound_tolerance_factor = 0 (exact arithmetic), 0 < Lγ_factor <= 1,
                               Lγ_factor·Lf <= L_max, 0 < L_min <= L_max
     minimiser n f lb ub l1 xs  xs feasible and F(xs) <= F(x) for every feasible x,  F = f + Σ λ_i |x_i|            *)
From Coq Require Import Reals List ZArith Lra.
From Alpaqa Require Import Num NumR Vec Prox ProxProofs ProxVec Fista FistaGen FistaK FistaProofs FistaGenProofs.
From Alpaqa Require Import SolverStatus SolverKernels FistaLoop FistaLoopProofs FistaLoopRate.
Import ListNotations.
Local Open Scope R_scope.

(* (1) the momentum recurrence in the source satisfies t+ (t+ - 1) = t²  — i.e. t+ = (1 + √(1 + 4t²))/2 *)
Theorem C08_momentum_recurrence : forall t, 1 <= t -> k_tnext genK t * (k_tnext genK t - 1) = t * t.
Proof. exact gen_tnext_recurrence. Qed.
Print Assumptions C08_momentum_recurrence.

(* (2) t_k >= (k+2)/2 for the sequence started at t_0 = 1 *)
Theorem C08_t_lower_bound : forall k, (INR k + 2) / 2 <= titer genK k 1.
Proof. exact gen_t_lower_bound. Qed.
Print Assumptions C08_t_lower_bound.

(* (3) all kernels generated from the source have the properties the rate proof uses *)
Theorem C08_generated_kernels_ok : kernels_ok genK.
Proof. exact genK_ok. Qed.
Print Assumptions C08_generated_kernels_ok.

(* (4) prox-gradient key inequality (Beck–Teboulle Lemma 2.3), multiplied by 2γ:
       ‖x̂-y‖² + 2<y-x, x̂-y>  <=  2γ (F(x) - F(x̂))   whenever the quadratic upper bound with 1/γ holds at y *)
Theorem C08_prox_grad_key_inequality :
  forall n f gradf lb ub l1 Lf, prob_ok n lb ub l1 -> smooth_convex n f gradf Lf ->
  forall γ y x, 0 < γ -> length y = n -> length x = n -> feas n lb ub x ->
  let o := prox_eval f lb ub l1 γ y (gradf y) in
  o_psih o <= f y + o_gp o + / (2 * γ) * o_pp o ->
  dist2 n (o_xh o) y + 2 * Ssum n (fun i => (nth i y 0 - nth i x 0) * (nth i (o_xh o) 0 - nth i y 0))
    <= 2 * γ * (F n f l1 x - F n f l1 (o_xh o)).
Proof. exact key_inequality_b. Qed.
Print Assumptions C08_prox_grad_key_inequality.

(* (5) one pass of the loop (with backtracking) does not increase the potential
       Φ = 2γ t(t-1)(F(x̂)-Fmin) + ‖t x - (t-1) x̂ - x*‖²  and  2γ' t²(F(x̂')-Fmin) <= Φ' *)
Theorem C08_potential_decrease :
  forall n f gradf lb ub l1 Lf P, prob_ok n lb ub l1 -> smooth_convex n f gradf Lf -> params_ok P Lf ->
  forall xs, minimiser n f lb ub l1 xs ->
  forall fuel s s' o nbt, p_noaccel P = false ->
  inv n f gradf lb ub P s -> step genK f gradf lb ub l1 P fuel s = Some (s', o, nbt) ->
  inv n f gradf lb ub P s' /\ Phi n f l1 xs s' <= Phi n f l1 xs s /\
  2 * s_gam s' * (s_t s * s_t s) * (F n f l1 (o_xh o) - F n f l1 xs) <= Phi n f l1 xs s' /\
  0 <= F n f l1 (o_xh o) - F n f l1 xs /\ s_t s + / 2 <= s_t s'.
Proof. exact gen_potential_decrease. Qed.
Print Assumptions C08_potential_decrease.

(* (6) THE RATE, fixed and backtracked step size, every k:  x̂_k = o_xh o is the (k)-th proximal iterate
       (k = 0,1,...) of the run started by `init` at x0, γ_k = s_gam s' the step size it was computed with:
       F(x̂_k) - Fmin <= 2‖x0-x*‖² / (γ_k (k+2)²) <= 2‖x0-x*‖² / (γ_k (k+1)²) *)
Theorem C08_fista_rate :
  forall n f gradf lb ub l1 Lf P, prob_ok n lb ub l1 -> smooth_convex n f gradf Lf -> params_ok P Lf ->
  forall xs, minimiser n f lb ub l1 xs ->
  forall x0 fuel k s0 s s' o nbt, length x0 = n -> p_noaccel P = false ->
  init genK f gradf P x0 = Some s0 -> run genK f gradf lb ub l1 P fuel k s0 = Some s ->
  step genK f gradf lb ub l1 P fuel s = Some (s', o, nbt) ->
  0 < s_gam s' /\
  F n f l1 (o_xh o) - F n f l1 xs <= 2 * dist2 n x0 xs / (s_gam s' * ((INR k + 2) * (INR k + 2))) /\
  F n f l1 (o_xh o) - F n f l1 xs <= 2 * dist2 n x0 xs / (s_gam s' * ((INR k + 1) * (INR k + 1))).
Proof. exact gen_fista_rate. Qed.
Print Assumptions C08_fista_rate.

(* (7) acceleration disabled: F decreases monotonically (from the first proximal iterate on) and the O(1/k) bound *)
Theorem C08_noaccel_monotone_and_rate :
  forall n f gradf lb ub l1 Lf P, prob_ok n lb ub l1 -> smooth_convex n f gradf Lf -> params_ok P Lf ->
  forall xs, minimiser n f lb ub l1 xs ->
  forall x0 fuel k s0 s s' o nbt, length x0 = n -> p_noaccel P = true ->
  init genK f gradf P x0 = Some s0 -> run genK f gradf lb ub l1 P fuel k s0 = Some s ->
  step genK f gradf lb ub l1 P fuel s = Some (s', o, nbt) ->
  0 < s_gam s' /\
  (k <> O -> F n f l1 (o_xh o) <= F n f l1 (s_x s)) /\
  F n f l1 (o_xh o) - F n f l1 xs <= dist2 n x0 xs / (2 * s_gam s' * (INR k + 1)).
Proof. exact gen_fista_noaccel. Qed.
Print Assumptions C08_noaccel_monotone_and_rate.

(* (8) the recurrence as it stood before the fix, t+ = (1 + √(1 + 4t))/2 (square missing), keeps [1,2] invariant and
       has the fixed point 2, so NO sequence produced by it can satisfy t_k >= (k+2)/2 (fails at k = 3): the
       mechanism the property names is refuted for that recurrence. (The rate violation itself is exhibited on the
       implementation by the oracle of lib/vf/props/C08.py.) *)
Theorem C08_missing_square_recurrence_refuted :
  (forall t, 1 <= t <= 2 -> 1 <= tnext_nosq t <= 2) /\ tnext_nosq 2 = 2 /\
  forall K : kernels (T:=R), (forall t, k_tnext K t = tnext_nosq t) ->
    exists k, ~ ((INR k + 2) / 2 <= titer K k 1).
Proof. exact missing_square_refuted. Qed.
Print Assumptions C08_missing_square_recurrence_refuted.

(* non-vacuity: f = ½‖x‖² on R², box [-1,1] x R, l1 weight ½, fixed step L = 1, x* = 0, x0 = (3,-2):
   every hypothesis bundle of (4)-(7) is inhabited and the model initialises and iterates *)
Example C08_nonvacuous :
  prob_ok 2 ex_lb ex_ub [/ 2] /\ smooth_convex 2 ex_f (fun x => x) 1 /\ params_ok ex_P 1 /\
  minimiser 2 ex_f ex_lb ex_ub [/ 2] [0; 0] /\
  exists s0 s' o nbt, init genK ex_f (fun x => x) ex_P [3; -2] = Some s0 /\
                      step genK ex_f (fun x => x) ex_lb ex_ub [/ 2] ex_P 0 s0 = Some (s', o, nbt).
Proof. exact (conj ex_prob_ok (conj ex_smooth_convex (conj ex_params_ok (conj ex_minimiser ex_runs)))). Qed.

(* ====================================================================== C08 ON THE WHOLE-RUN MODEL ======================
   (9)-(15): the rate as a theorem about FistaLoop.fista = the WHOLE of FISTASolver::operator() (all Lipschitz modes, l1, m >= 0, stop
   chain, exit), the model that the whole-run correspondence Corr_FISTA / lib/vf/props/FISTA.py ties to the real solver run by run.
   Route: the potential argument redone on the progress-callback records of FistaLoop (invariants rec_ok / chain of FistaLoopProofs),
   reusing FistaProofs' key inequality and potential algebra; Fista.v's skeleton is not involved.
   Hypotheses:  prob_ok / smooth_convex / minimiser as above (ψ convex with the descent lemma, F = ψ + Σ λ_i|x_i| over the box);
     coherent n ψ ∇ψ psi_grad psi_yhat grad_psi   the three problem oracles evaluate ψ, ∇ψ on n-vectors whatever the event counters are
                                                   (ŷ and eval_grad_L arbitrary); for m > 0, ψ is the augmented Lagrangian for the fixed y, Σ;
     fparams_ok P Lf                               qub tolerance factor 0, 0 < Lγ_factor <= 1, Lγ_factor·Lf <= L_max, 0 < L_min <= L_max.
   NOTHING is assumed about stop_crit, max_iter, tolerance, max_no_progress, the stop flag, the clock, L_0, ε, δ, y, Σ, err_z, the fuels. *)
Section C08_FistaLoop.
  Variable psi_grad : fcounters -> list R -> R * list R.
  Variable psi_yhat : fcounters -> list R -> R * list R.
  Variable grad_L : fcounters -> list R -> list R -> list R.
  Variable grad_psi : fcounters -> list R -> list R.
  Variables (lb ub : list (option R)) (l1 : list R).
  Variable stop_req : fcounters -> bool.
  Variable time_up : fcounters -> bool.
  Variable P : fparams (T:=R).
  Variables (x_in y_in Σ errz_in : list R).
  Variable bt_fuel : nat.
  Variables (n : nat) (f : list R -> R) (gradf : list R -> list R) (Lf : R) (xs : list R).
  Hypothesis Hok : prob_ok n lb ub l1.
  Hypothesis Hf : smooth_convex n f gradf Lf.
  Hypothesis Hco : coherent n f gradf psi_grad psi_yhat grad_psi.
  Hypothesis HP : fparams_ok P Lf.
  Hypothesis Hxs : minimiser n f lb ub l1 xs.
  Hypothesis Hx0 : length x_in = n.

  Notation run := (fista psi_grad psi_yhat grad_L grad_psi lb ub l1 stop_req time_up P x_in y_in Σ errz_in bt_fuel).
  Notation Reachable := (reachable psi_grad psi_yhat grad_L grad_psi lb ub l1 stop_req time_up P x_in y_in Σ errz_in bt_fuel).
  Notation gap r := (F n f l1 (jxh (fr_it r)) - F n f l1 xs).
  Notation R2 := (dist2 n x_in xs).
  Notation ARGS T := (T psi_grad psi_yhat grad_L grad_psi lb ub l1 stop_req time_up P x_in y_in Σ errz_in bt_fuel n f gradf Lf xs Hok Hf Hco HP Hxs Hx0) (only parsing).

  (* (9) THE RATE on whole runs, fixed and backtracked step size: EVERY progress-callback record (k, x̂_k, γ_k) of EVERY completed run *)
  Theorem C08_fistaloop_rate : forall fuel o, run fuel = FDone o -> fp_noaccel P = false ->
    Forall (fun r => 0 < jgam (fr_it r) /\ 0 <= gap r /\ feas n lb ub (jxh (fr_it r)) /\
                     gap r <= 2 * R2 / (jgam (fr_it r) * ((INR (fr_k r) + 2) * (INR (fr_k r) + 2))) /\
                     gap r <= 2 * R2 / (jgam (fr_it r) * ((INR (fr_k r) + 1) * (INR (fr_k r) + 1)))) (fo_log o).
  Proof. exact (ARGS fistaloop_rate). Qed.

  (* (10) ... and the records written so far at every loop head of every run, completed or not *)
  Theorem C08_fistaloop_rate_every_loop_head : forall s, Reachable s -> fp_noaccel P = false ->
    Forall (fun r => 0 < jgam (fr_it r) /\ 0 <= gap r /\ feas n lb ub (jxh (fr_it r)) /\
                     gap r <= 2 * R2 / (jgam (fr_it r) * ((INR (fr_k r) + 2) * (INR (fr_k r) + 2))) /\
                     gap r <= 2 * R2 / (jgam (fr_it r) * ((INR (fr_k r) + 1) * (INR (fr_k r) + 1)))) (fs_log s).
  Proof. exact (ARGS fistaloop_rate_reachable). Qed.

  (* (11) fixed-step mode (L_min = L_max): γ_k = Lγ_factor / L_max at every record, closed-form bound *)
  Theorem C08_fistaloop_rate_fixed_step : forall fuel o, run fuel = FDone o -> fp_noaccel P = false -> ffixed P = true ->
    Forall (fun r => jgam (fr_it r) = fp_Lgamma P / fp_Lmax P /\ 0 <= gap r /\
                     gap r <= 2 * fp_Lmax P * R2 / (fp_Lgamma P * ((INR (fr_k r) + 2) * (INR (fr_k r) + 2))) /\
                     gap r <= 2 * fp_Lmax P * R2 / (fp_Lgamma P * ((INR (fr_k r) + 1) * (INR (fr_k r) + 1)))) (fo_log o).
  Proof. exact (ARGS fistaloop_rate_fixed_step). Qed.

  (* (12) disable_acceleration: O(1/k) at every record, x_{k+1} = x̂_k and F(x̂_{k+1}) <= F(x̂_k) for consecutive records *)
  Theorem C08_fistaloop_noaccel_monotone_and_rate : forall fuel o, run fuel = FDone o -> fp_noaccel P = true ->
    Forall (fun r => 0 < jgam (fr_it r) /\ 0 <= gap r /\ feas n lb ub (jxh (fr_it r)) /\
                     gap r <= R2 / (2 * jgam (fr_it r) * (INR (fr_k r) + 1))) (fo_log o) /\
    forall pre r r' post, fo_log o = pre ++ r :: r' :: post ->
      jx (fr_it r') = jxh (fr_it r) /\ F n f l1 (jxh (fr_it r')) <= F n f l1 (jxh (fr_it r)).
  Proof. exact (ARGS fistaloop_noaccel). Qed.

  (* (13) iteration count (liveness flavour, feeds C02): a record with k + 1 >= N >= sqrt(2‖x0−x*‖²/(γmin η)) whose step size is >= γmin
     has F(x̂_k) − Fmin <= η — the number of iterations until the gap is <= η is at most ⌈sqrt(2‖x0−x*‖²/(γmin η))⌉;
     in fixed-step mode γmin = Lγ_factor / L_max needs no hypothesis.  (γ is non-increasing along a run: FISTA_gamma_nonincreasing.)
     NOT proved: a bound of one of the stop criteria's ε by the function gap (none of the ten criteria is cheaply bounded by it), so
     this does not by itself give `Converged within N iterations`. *)
  Theorem C08_fistaloop_iterations : forall fuel o, run fuel = FDone o -> fp_noaccel P = false ->
    forall (γmin η : R) (N : nat), 0 < γmin -> 0 < η -> sqrt (2 * R2 / (γmin * η)) <= INR N ->
    Forall (fun r => γmin <= jgam (fr_it r) -> (N <= fr_k r + 1)%nat -> gap r <= η) (fo_log o).
  Proof. exact (ARGS fistaloop_iterations). Qed.
  Theorem C08_fistaloop_iterations_fixed_step : forall fuel o, run fuel = FDone o -> fp_noaccel P = false -> ffixed P = true ->
    forall (η : R) (N : nat), 0 < η -> sqrt (2 * fp_Lmax P * R2 / (fp_Lgamma P * η)) <= INR N ->
    Forall (fun r => (N <= fr_k r + 1)%nat -> gap r <= η) (fo_log o).
  Proof. exact (ARGS fistaloop_iterations_fixed_step). Qed.

  (* (14) the F(x̂_k) of (9)-(13) is what the progress callback shows: hx̂ = h(x̂_k), and ψx̂ = ψ(x̂_k) whenever ψ(x̂) is evaluated inside
     the loop (backtracking mode, or a criterion that needs ∇ψ(x̂)) *)
  Theorem C08_fistaloop_reported_values : forall fuel o, run fuel = FDone o ->
    Forall (fun r => jh (fr_it r) = hval n l1 (jxh (fr_it r)) /\
                     (ffixed P = false \/ fneed P = true ->
                      jpsih (fr_it r) = f (jxh (fr_it r)) /\ jpsih (fr_it r) + jh (fr_it r) = F n f l1 (jxh (fr_it r)))) (fo_log o).
  Proof. exact (ARGS fistaloop_reported). Qed.
  (* (15) a-priori step-size bound with backtracking: L is doubled only when the quadratic upper bound is violated, which forces L < Lf
     (descent lemma), so at EVERY record L_k <= max(L_init, 2 Lf) and γ_k >= Lγ_factor / max(L_init, 2 Lf)  (any mode, any acceleration flag);
     hence the iteration count of (13) with NO hypothesis on the step sizes of the run *)
  Theorem C08_fistaloop_stepsize_lower_bound : forall fuel o, run fuel = FDone o ->
    Forall (fun r => jL (fr_it r) <= Rmax (L_init psi_grad grad_psi P x_in) (2 * Lf) /\
                     fp_Lgamma P / Rmax (L_init psi_grad grad_psi P x_in) (2 * Lf) <= jgam (fr_it r)) (fo_log o).
  Proof. exact (ARGS fistaloop_L_bounded). Qed.
  Theorem C08_fistaloop_iterations_apriori : forall fuel o, run fuel = FDone o -> fp_noaccel P = false ->
    forall (η : R) (N : nat), 0 < η ->
    sqrt (2 * R2 / (fp_Lgamma P / Rmax (L_init psi_grad grad_psi P x_in) (2 * Lf) * η)) <= INR N ->
    Forall (fun r => (N <= fr_k r + 1)%nat -> gap r <= η) (fo_log o).
  Proof. exact (ARGS fistaloop_iterations_apriori). Qed.
End C08_FistaLoop.
Print Assumptions C08_fistaloop_rate.
Print Assumptions C08_fistaloop_rate_every_loop_head.
Print Assumptions C08_fistaloop_rate_fixed_step.
Print Assumptions C08_fistaloop_noaccel_monotone_and_rate.
Print Assumptions C08_fistaloop_iterations.
Print Assumptions C08_fistaloop_iterations_fixed_step.
Print Assumptions C08_fistaloop_reported_values.
Print Assumptions C08_fistaloop_stepsize_lower_bound.
Print Assumptions C08_fistaloop_iterations_apriori.

(* non-vacuity of (9)-(15):
   (a) m = 0, fixed step: the instance of C08_nonvacuous (box [-1,1] x R, l1 weight ½) — all hypotheses hold and, for every max_iter,
       the run completes with a non-empty log;
   (b) m = 1, backtracking from L_0 = ½ < Lf = 2, criterion ApproxKKT: ψ(x) = ½x² + ½max(x−1,0)², the augmented Lagrangian of
       min ½x² s.t. x <= 1 at y = 0, Σ = 1, with ŷ(x) = max(x−1,0) *)
Example C08_fistaloop_nonvacuous_m0_fixed_step : forall mi,
  prob_ok 2 ex_lb ex_ub [/ 2] /\ smooth_convex 2 ex_f (fun x => x) 1 /\ coherent 2 ex_f (fun x => x) exl_pg exl_py exl_gp /\
  fparams_ok (exl_P mi) 1 /\ minimiser 2 ex_f ex_lb ex_ub [/ 2] [0; 0] /\ length [3; -2] = 2%nat /\
  fp_noaccel (exl_P mi) = false /\ ffixed (exl_P mi) = true /\
  exists o, exl_run mi = FDone o /\ fo_log o <> [].
Proof. exact exl_nonvacuous. Qed.
Example C08_fistaloop_nonvacuous_m1_backtracking : forall mi,
  prob_ok 1 [None] [None] [] /\ smooth_convex 1 em_f em_g 2 /\ coherent 1 em_f em_g em_pg em_py em_gp /\
  fparams_ok (em_P mi) 2 /\ minimiser 1 em_f [None] [None] [] [0] /\ length [3] = 1%nat /\
  fp_noaccel (em_P mi) = false /\ ffixed (em_P mi) = false /\
  exists o, em_run mi = FDone o /\ fo_log o <> [].
Proof. exact em_nonvacuous. Qed.
