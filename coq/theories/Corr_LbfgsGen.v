(* Corr_LbfgsGen.v — translation validation of translator G11a (translate/gen_lbfgs.py) at binary64: the GENERATED
   functions of coq/gen/LbfgsGen.v (run on the container of LbfgsGenInst.v: gstep / gtrace) against the records of the
   real alpaqa::LBFGS that drv_C09 produced — the same cases and observables as Corr_C09.chk09, but none of the hand-model
   functions of Lbfgs.v is involved: operations, iteration order (g_foreach_fwd) and current_history (g_current_history)
   are all the generated ones. *)
From Coq Require Import Floats List ZArith Bool Arith.
From Alpaqa Require Import Num NumF Vec Lbfgs LbfgsGenLib LbfgsGen LbfgsGenInst Corr_C09.
Import ListNotations.
Local Open Scope float_scope.

Definition gobserve (P : params float) (st : state float) (o : out float) : obs :=
  let G := gp_of P in
  let h := map (get st) (g_foreach_fwd lbfgs_ops fpow G st) in
  {| ob_ret := o_ret o; ob_q := o_q o; ob_ch := g_current_history lbfgs_ops fpow G st;
     ob_S := map (@sl_s float) h; ob_Y := map (@sl_y float) h; ob_R := map (fun sl => ρval (sl_ρ sl)) h |}.

Fixpoint gtrace (P : params float) (st : state float) (ops : list (op float)) : list obs :=
  match ops with
  | [] => []
  | o :: ops' => let '(st', r) := gstep fpow P st o in gobserve P st' r :: gtrace P st' ops'
  end.

Definition model09g (c : c09case) : list obs * bool :=
  match c with
  | CSeq P n _ steps =>
      match gctor fpow P n with
      | Some st => (gtrace P st (map fst steps), true)
      | None => ([], false)
      end
  | CValid P yts sts ptp _ => ([], g_update_valid lbfgs_ops fpow (gp_of P) yts sts ptp)
  end.

Definition chk09g (c : c09case) : bool :=
  match c with
  | CSeq P n ok steps =>
      match gctor fpow P n with
      | Some st => ok && list_agree obs_eq (gtrace P st (map fst steps)) (map snd steps)
      | None => negb ok
      end
  | CValid P yts sts ptp ret => Bool.eqb (g_update_valid lbfgs_ops fpow (gp_of P) yts sts ptp) ret
  end.
