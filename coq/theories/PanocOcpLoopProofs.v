(* PanocOcpLoopProofs.v — loop invariants of the whole-run PANOC-OCP model (PanocOcpLoop.v), over R, for EVERY forward / backward
   oracle, Gauss-Newton oracle, L-BFGS oracle (any state type), stop / time oracle and parameter set.
   Nothing is assumed about the oracles.  Positivity of parameters / lengths are hypotheses only where stated
   (descent of the safe step, termination of the line search). *)
From Coq Require Import Reals List ZArith Lra Lia Bool Arith Psatz.
From Flocq Require Import Raux.
From Alpaqa Require Import Num NumR Vec Prox ProxProofs ProxVec SolverStatus SolverKernels SolverKernelsProofs DescentProofs
                           StopChain StopChainProofs PanocOcp PanocOcpProofs PanocOcpLoop.
Import ListNotations.
Local Open Scope R_scope.

(* ------------------------------------------------------------------ per-stage accumulation = whole-vector reduction (over R) *)
Lemma rsum_app (a b : list R) : rsum (a ++ b) = rsum a + rsum b.
Proof. induction a as [|x a IH]; cbn; [lra|]. rewrite IH. lra. Qed.
Lemma stage_sum_snoc N (F : nat -> R) : stage_sum (S N) F = stage_sum N F + F N.
Proof. unfold stage_sum. rewrite seq_S, fold_left_app. reflexivity. Qed.
Lemma stage_sum_ext N (F G : nat -> R) : (forall t, (t < N)%nat -> F t = G t) -> stage_sum N F = stage_sum N G.
Proof.
  induction N as [|N IH]; intros HE; [reflexivity|]. rewrite !stage_sum_snoc. rewrite IH by (intros; apply HE; lia). rewrite HE by lia. reflexivity.
Qed.
Lemma stage_seg_firstn {A} nu N t (h : list A) : (t < N)%nat -> stage_seg nu t (firstn (N * nu) h) = stage_seg nu t h.
Proof.
  intros Ht. unfold stage_seg. rewrite skipn_firstn_comm, firstn_firstn. f_equal. nia.
Qed.
Lemma stage_sum_rsum nu : forall N (h : list R), length h = (N * nu)%nat ->
  stage_sum N (fun t => rsum (stage_seg nu t h)) = rsum h.
Proof.
  induction N as [|N IH]; intros h Hl.
  - destruct h; [reflexivity|discriminate].
  - rewrite stage_sum_snoc.
    rewrite (stage_sum_ext N _ (fun t => rsum (stage_seg nu t (firstn (N * nu) h)))) by (intros t Ht; now rewrite stage_seg_firstn).
    rewrite IH by (rewrite firstn_length; nia).
    unfold stage_seg. rewrite (firstn_all2 (n:=nu)) by (rewrite skipn_length; nia).
    rewrite <- rsum_app, firstn_skipn. reflexivity.
Qed.
Lemma firstn_map2 {A B C} (f : A -> B -> C) k : forall a b, firstn k (map2 f a b) = map2 f (firstn k a) (firstn k b).
Proof. induction k as [|k IH]; intros [|x a] [|y b]; cbn; try reflexivity. now rewrite IH. Qed.
Lemma skipn_map2 {A B C} (f : A -> B -> C) k : forall a b, length a = length b -> skipn k (map2 f a b) = map2 f (skipn k a) (skipn k b).
Proof.
  induction k as [|k IH]; intros [|x a] [|y b] Hl; cbn in *; try reflexivity; try discriminate. apply IH. lia.
Qed.
Lemma stage_sum_vsqnorm nu N (p : list R) : length p = (N * nu)%nat ->
  stage_sum N (fun t => vsqnorm (stage_seg nu t p)) = vsqnorm p.
Proof.
  intros Hl. rewrite vsqnorm_rsum, <- (stage_sum_rsum nu N) by (now rewrite map_length).
  apply stage_sum_ext. intros t _. rewrite vsqnorm_rsum. unfold stage_seg. now rewrite skipn_map, firstn_map.
Qed.
Lemma stage_sum_vdot nu N (g p : list R) : length g = (N * nu)%nat -> length p = (N * nu)%nat ->
  stage_sum N (fun t => vdot (stage_seg nu t g) (stage_seg nu t p)) = vdot g p.
Proof.
  intros Hg Hp. rewrite vdot_rsum, <- (stage_sum_rsum nu N) by (rewrite (map2_length _ g p (N * nu)); auto).
  apply stage_sum_ext. intros t _. rewrite vdot_rsum. unfold stage_seg. rewrite skipn_map2 by lia. now rewrite firstn_map2.
Qed.
Lemma tile_length {A} N (l : list A) : length (tile N l) = (N * length l)%nat.
Proof. unfold tile. induction N as [|N IH]; cbn; [reflexivity|]. rewrite app_length, IH. reflexivity. Qed.
Lemma vdot_comm (a b : list R) : vdot a b = vdot b a.
Proof. rewrite !vdot_rsum. revert b; induction a as [|x a IH]; intros [|y b]; cbn; try reflexivity. rewrite IH. lra. Qed.
Lemma proj_step_all_in_box γ : forall (lb' ub' : list (option R)) (x g : list R),
  length ub' = length lb' -> length x = length lb' -> length g = length lb' ->
  Forall2 box_ne lb' ub' -> all_in_box lb' ub' (fst (fst (proj_grad_step lb' ub' γ x g))).
Proof.
  unfold all_in_box, proj_grad_step; cbn [fst snd].
  induction lb' as [|l lb' IH]; intros [|u ub'] [|a x] [|b g] H1 H2 H3 Hne; cbn in *; try discriminate; constructor.
  - inversion Hne; subst. cbn [fst snd]. split; [|assumption].
    change (nadd a ?t) with (a + t). rewrite proj_step1_is_proj. now apply proj1_in_box.
  - inversion Hne; subst. apply IH; try lia; assumption.
Qed.

Section Proofs.
  Variables X QR DS : Type.
  Variable fwd : list R -> R * X.
  Variable sim : list R -> X.
  Variable bwd : list R -> X -> list R * QR.
  Variable cvals : X -> list R.
  Variable gn_step : nat -> list R -> X -> QR -> list bool -> list R -> list R.
  Variable lb_apply : DS -> list R -> R -> list nat -> bool * list R * DS.
  Variable lb_update : DS -> list R -> list R -> list R -> list R -> bool * DS.
  Variable lb_reset : DS -> DS.
  Variables (N nu : nat).
  Variables (Ulb Uub Dlb Dub : list (option R)).
  Variable stop_req : counters -> bool.
  Variable time_up : counters -> bool.
  Variable P : params (T:=R).
  Variables (u_in y_in μ errz_in : list R).
  Variables (X0 : X) (ds0 : DS).
  Variable ls_fuel : nat.
  (* every lemma of this section is generalised over ALL the section variables, in the order above *)
  Set Default Proof Using "All".

  Notation it := (iterate (T:=R) X).
  Notation lst := (ls_state (T:=R) X QR DS).
  Notation lstate_ := (lstate (T:=R) X QR DS).
  Notation eprox := (eval_prox X N nu Ulb Uub).
  Notation efwd := (eval_forward X fwd).
  Notation ehat := (eval_forward_hat X fwd).
  Notation ebwd := (eval_backward X QR bwd).
  Notation proxi := (prox_impl N nu Ulb Uub).
  Notation lsloop := (ls_loop X QR DS fwd bwd lb_reset N nu Ulb Uub stop_req P).
  Notation pass_ := (pass X QR DS fwd bwd cvals gn_step lb_apply lb_update lb_reset N nu Ulb Uub Dlb Dub stop_req time_up P u_in y_in μ errz_in ls_fuel).
  Notation loop_ := (loop X QR DS fwd bwd cvals gn_step lb_apply lb_update lb_reset N nu Ulb Uub Dlb Dub stop_req time_up P u_in y_in μ errz_in ls_fuel).
  Notation run_ := (panoc_ocp X QR DS fwd sim bwd cvals gn_step lb_apply lb_update lb_reset N nu Ulb Uub Dlb Dub stop_req time_up P u_in y_in μ errz_in X0 ds0 ls_fuel).
  Notation qubv := (it_qub_violated X P).
  Notation lsv := (it_ls_violated X P).
  Notation eps_of := (it_eps X N nu Ulb Uub P).
  Notation initL := (init_L X QR fwd sim bwd P u_in X0).
  Notation initqub := (init_qub X fwd N nu Ulb Uub P).
  Notation first_it := (first_iterate X fwd N nu Ulb Uub P).

  (* ------------------------------------------------------------------ the consistency invariant *)
  (* ψu, the simulated storage and ∇ψ are the oracles' values at the inputs u of xu *)
  Definition cons_x (i : it) : Prop :=
    ipsi i = fst (fwd (iu i)) /\ ix i = snd (fwd (iu i)) /\ igrad i = fst (bwd (iu i) (ix i)).
  (* û, p, pᵀp, ∇ψᵀp are the projected-gradient step of eval_prox_impl for the iterate's γ at (u, ∇ψ) *)
  Definition cons_step (i : it) : Prop := proxi (igam i) (iu i) (igrad i) = (iuh i, ip i, ipp i, igp i).
  (* ψû and the simulated part of xû are the forward oracle's values at û *)
  Definition cons_hat (i : it) : Prop := ipsih i = fst (fwd (iuh i)) /\ ixh i = snd (fwd (iuh i)).
  Definition consistent (i : it) : Prop := cons_x i /\ cons_step i /\ cons_hat i.

  Definition qub_ok (i : it) : Prop := (Rlt_bool (iL i) (p_Lmax P) && qubv i) = false.

  (* ---- the elementary updates *)
  Lemma eprox_cons (i : it) : cons_x i -> cons_x (eprox i) /\ cons_step (eprox i).
  Proof.
    intros Hx. split; [exact Hx|]. unfold cons_step, eval_prox. cbn [iu igrad igam iuh ip ipp igp].
    destruct (proxi (igam i) (iu i) (igrad i)) as [[[a b] c] d]. reflexivity.
  Qed.
  Lemma ehat_cons (i : it) : cons_x i -> cons_step i -> consistent (ehat i).
  Proof. intros Hx Hs. split; [exact Hx|]. split; [exact Hs|]. split; reflexivity. Qed.
  Lemma ehat_fields (i : it) :
    iu (ehat i) = iu i /\ ix (ehat i) = ix i /\ ipsi (ehat i) = ipsi i /\ igrad (ehat i) = igrad i /\
    igam (ehat i) = igam i /\ iL (ehat i) = iL i /\ ipp (ehat i) = ipp i /\ igp (ehat i) = igp i /\ iul (ehat i) = iul i.
  Proof. repeat split. Qed.
  Lemma eprox_fields (i : it) :
    iu (eprox i) = iu i /\ ix (eprox i) = ix i /\ ipsi (eprox i) = ipsi i /\ igrad (eprox i) = igrad i /\
    igam (eprox i) = igam i /\ iL (eprox i) = iL i.
  Proof. repeat split. Qed.

  (* take_safe_step: the new xu is the old xû *)
  Lemma safe_step_cons (curr next : it) : cons_hat curr ->
    let n' := fst (take_safe_step X QR bwd curr next) in
    cons_x n' /\ iu n' = iuh curr /\ ipsi n' = ipsih curr /\ igam n' = igam next /\ iL n' = iL next.
  Proof.
    intros [H1 H2]. unfold take_safe_step, eval_backward, cons_x. cbn. repeat split; try assumption.
  Qed.
  Lemma accel_step_cons τ q (curr next : it) :
    let n' := fst (take_accel_step X QR fwd bwd τ q curr next) in
    cons_x n' /\ igam n' = igam next /\ iL n' = iL next.
  Proof. unfold take_accel_step, eval_backward, eval_forward, cons_x. cbn. repeat split. Qed.

  (* ------------------------------------------------------------------ line search *)
  Definition gl_of (i : it) : R * R := (igam i, iL i).
  Definition halved (a b : it) : Prop := exists j, gl_of b = halve_n j (gl_of a).
  Lemma halved_refl a : halved a a. Proof. exists 0%nat. reflexivity. Qed.
  Lemma halved_step a b : halved a b -> forall b', gl_of b' = halve_step (gl_of b) -> halved a b'.
  Proof. intros [j E] b' E'. exists (S j). cbn [halve_n]. rewrite <- E. exact E'. Qed.
  Lemma halved_trans a b c : halved a b -> halved b c -> halved a c.
  Proof.
    intros [j E] [k E']. exists (k + j)%nat. rewrite E', E. clear. induction k as [|k IH]; cbn [halve_n Nat.add]; [reflexivity|now rewrite IH].
  Qed.
  Lemma halved_gl a b b' : gl_of b' = gl_of b -> halved a b -> halved a b'.
  Proof. intros E [j H]. exists j. now rewrite E. Qed.
  Lemma halve_it_gl (i : it) : gl_of (halve_it X i) = halve_step (gl_of i).
  Proof. unfold halve_it, gl_of, set_gamma_L. cbn [igam iL]. destruct (halve_step (igam i, iL i)); reflexivity. Qed.

  (* the candidate is the prox point of the current iterate (safeguarded step) *)
  Definition safe_of (c0 next : it) : Prop := iu next = iuh c0 /\ ipsi next = ipsih c0.

  Record LsI (c0 : it) (s : lst) : Prop := {
    li_curr : ls_curr s = c0;
    li_gl : halved c0 (ls_next s);
    li_J : ls_tau s = ls_tau_prev s -> cons_x (ls_next s) /\ (ls_tau s = 0 -> safe_of c0 (ls_next s)) }.
  Record LsPost (c0 : it) (s : lst) : Prop := {
    lp_curr : ls_curr s = c0;
    lp_next : consistent (ls_next s);
    lp_gl : halved c0 (ls_next s);
    lp_qub : qub_ok (ls_next s);
    lp_ls : Rlt_bool 0 (ls_tau s) = true -> lsv (ls_curr s) (ls_next s) = false;
    lp_safe : ls_tau s = 0 -> safe_of c0 (ls_next s) }.

  Lemma ls_invariant c0 q τi dng : cons_hat c0 -> forall fuel s, LsI c0 s ->
    match lsloop fuel q τi dng s with
    | LsDone s' => LsPost c0 s'
    | LsStopped s' => ls_curr s' = c0
    | LsFuel => True
    end.
  Proof.
    intros Hhat. induction fuel as [|fuel IH]; intros s HI; [exact I|].
    cbn [ls_loop]. destruct (stop_req (ls_cnt s)); [cbn [ls_curr]; apply HI|].
    change (@nltb R NumR) with Rlt_bool. change (@neqb R NumR) with Req_bool. change (@nleb R NumR) with Rle_bool.
    change (@n0 R NumR) with 0. change (@n1 R NumR) with 1.
    set (τ := ls_tau s) in *.
    destruct HI as [Hc Hgl HJ]. rewrite Hc.
    set (ph := if Req_bool τ (ls_tau_prev s) then (ls_next s, ls_qr s, inc_polls (ls_cnt s), ls_do_gn s)
               else if Req_bool τ 0 then (fst (take_safe_step X QR bwd c0 (ls_next s)), snd (take_safe_step X QR bwd c0 (ls_next s)),
                                          inc_bwd (inc_polls (ls_cnt s)), ls_do_gn s)
               else (fst (take_accel_step X QR fwd bwd τ q c0 (ls_next s)), snd (take_accel_step X QR fwd bwd τ q c0 (ls_next s)),
                     inc_bwd (inc_fwd (inc_polls (ls_cnt s))), if Req_bool τ 1 then ls_do_gn s else dng)).
    assert (F : halved c0 (fst (fst (fst ph))) /\ cons_x (fst (fst (fst ph))) /\ (τ = 0 -> safe_of c0 (fst (fst (fst ph))))).
    { subst ph. destruct (Req_bool_spec τ (ls_tau_prev s)) as [Et|Et].
      - cbn [fst snd]. destruct (HJ Et) as [Hx Hs]. split; [exact Hgl|split; [exact Hx|exact Hs]].
      - destruct (Req_bool_spec τ 0) as [E0|E0]; cbn [fst snd].
        + pose proof (safe_step_cons c0 (ls_next s) Hhat) as Hf. cbv zeta in Hf. destruct Hf as (H1 & H2 & H3 & H4 & H5).
          split; [|split; [exact H1|intros _; split; assumption]].
          destruct Hgl as [j Ej]. exists j. unfold gl_of in *. now rewrite H4, H5.
        + destruct (accel_step_cons τ q c0 (ls_next s)) as (H1 & H2 & H3).
          split; [|split; [exact H1|intros E; contradiction]].
          destruct Hgl as [j Ej]. exists j. unfold gl_of in *. now rewrite H2, H3. }
    destruct ph as [[[next qr] c1] dg]. cbn [fst snd] in F. destruct F as (Fgl & Fx & Fs).
    (* fail branch *)
    match goal with |- context [if ?b then lsloop fuel q τi dng ?s1 else _] => destruct b eqn:Efail; [apply (IH s1)|] end.
    { constructor; cbn [ls_curr ls_next ls_tau ls_tau_prev].
      - reflexivity.
      - exists 0%nat. reflexivity.
      - intros E0. exfalso. apply andb_prop in Efail. destruct Efail as [Hpos _]. apply Rlt_bool_iff in Hpos. lra. }
    (* prox step and ψ(û) of the candidate *)
    set (next1 := ehat (eprox next)).
    assert (Nc : consistent next1) by (subst next1; destruct (eprox_cons next Fx) as [A B]; now apply ehat_cons).
    assert (Ngl : gl_of next1 = gl_of next) by reflexivity.
    assert (Nu : iu next1 = iu next /\ ipsi next1 = ipsi next) by (split; reflexivity).
    assert (Fs1 : τ = 0 -> safe_of c0 next1).
    { intros E. destruct (Fs E) as [A B]. destruct Nu as [U1 U2]. unfold safe_of. now rewrite U1, U2. }
    assert (Fgl1 : halved c0 next1) by (apply (halved_gl c0 next); assumption).
    (* QUB branch *)
    match goal with |- context [if ?b then lsloop fuel q τi dng ?s1 else _] => destruct b eqn:Equb; [apply (IH s1)|] end.
    { constructor; cbn [ls_curr ls_next ls_tau ls_tau_prev].
      - reflexivity.
      - apply (halved_step c0 next1 Fgl1). apply halve_it_gl.
      - intros E. split; [apply Nc|]. intros E0. destruct (Rlt_bool_spec 0 τ) as [Hp|Hp].
        + (* the new τ is τ_init, equal to the old (positive) τ, and 0 *) exfalso. lra.
        + apply Fs1. exact E0. }
    (* line-search branch *)
    match goal with |- context [if ?b then lsloop fuel q τi dng ?s1 else LsDone ?s2] => destruct b eqn:Els; [apply (IH s1)|] end.
    { constructor; cbn [ls_curr ls_next ls_tau ls_tau_prev].
      - reflexivity.
      - exact Fgl1.
      - intros E. split; [apply Nc|]. intros E0. apply Fs1.
        apply andb_prop in Els. destruct Els as [Hpos _]. apply Rlt_bool_iff in Hpos. exfalso. lra. }
    constructor; cbn [ls_curr ls_next ls_tau ls_tau_prev].
    - reflexivity.
    - exact Nc.
    - exact Fgl1.
    - exact Equb.
    - intros Hp. rewrite Hp in Els. exact Els.
    - exact Fs1.
  Qed.

  (* ------------------------------------------------------------------ the outer loop *)
  Definition L_init : R := iL (fst (fst (fst initL))).
  Definition gl0 : R * R := (p_Lgamma P / L_init, L_init).
  (* (γ, L) of an iterate is the initial pair after some number of halvings/doublings *)
  Definition glrel0 (i : it) : Prop := exists j, gl_of i = halve_n j gl0.
  Lemma glrel0_halved a b : glrel0 a -> halved a b -> glrel0 b.
  Proof.
    intros [j E] [k E']. exists (k + j)%nat. rewrite E', E. clear. induction k as [|k IH]; cbn [halve_n Nat.add]; [reflexivity|now rewrite IH].
  Qed.

  (* what is known about one progress-callback record *)
  Definition rec_ok (r : cbrec (T:=R) X) : Prop :=
    consistent (r_it r) /\ qub_ok (r_it r) /\ glrel0 (r_it r) /\ (r_k r <= p_max_iter P)%nat.
  (* record r of iteration k  vs  the iterate c' of iteration k+1 *)
  Definition link (r : cbrec (T:=R) X) (k' : nat) (c' : it) : Prop :=
    r_status r = StBusy /\ k' = S (r_k r) /\ halved (r_it r) c' /\
    (Rlt_bool 0 (r_tau r) = true -> lsv (r_it r) c' = false) /\
    (r_tau r = 0 -> safe_of (r_it r) c').
  Definition desc (r r' : cbrec (T:=R) X) : Prop := link r (r_k r') (r_it r').
  (* newest-first list of records: every consecutive pair is linked *)
  Fixpoint chain (log : list (cbrec (T:=R) X)) : Prop :=
    match log with
    | r' :: tl => match tl with r :: _ => desc r r' | [] => True end /\ chain tl
    | [] => True
    end.

  Record Inv (s : lstate_) : Prop := {
    iv_cons : consistent (st_curr s);
    iv_qub : qub_ok (st_curr s);
    iv_gl : glrel0 (st_curr s);
    iv_k : (st_k s <= p_max_iter P)%nat;
    iv_log : Forall rec_ok (st_log s);
    iv_chain : chain (st_log s);
    iv_link : match st_log s with r :: _ => link r (st_k s) (st_curr s) | [] => st_k s = 0%nat end }.

  (* what is known about the result of a completed run; cf = the iterate at the final stop check *)
  Record PostW (cf : it) (cnt : counters) (np : nat) (o : outputs (T:=R) X) : Prop := {
    po_cons : consistent cf;
    po_qub : qub_ok cf;
    po_gl : glrel0 cf;
    po_final : out_final o = cf;
    po_eps : eps_of cf = Some (out_eps o);
    po_status : out_status o = stop_status_ocp (o_tol P) (out_eps o) (time_up cnt) (out_iterations o) (p_max_iter P)
                                               np (p_max_no_progress P) (stop_req cnt);
    po_notbusy : out_status o <> StBusy;
    po_iter : (out_iterations o <= p_max_iter P)%nat;
    po_exit : (out_u o, out_y o, out_errz o) = exit_values X cvals Dlb Dub P u_in y_in μ errz_in (out_status o) cf;
    po_log : Forall rec_ok (out_log o);
    po_chain : chain (rev (out_log o));
    po_last : hd_error (rev (out_log o)) = Some (mkCb (out_iterations o) cf [] (- 1) (out_eps o) false 0%Z (out_status o)) }.
  Definition Post (o : outputs (T:=R) X) : Prop := exists cf cnt np, PostW cf cnt np o.

  Lemma set_ul_cons (i : it) u : consistent i -> consistent (set_ul X i u).
  Proof. exact (fun H => H). Qed.

  Lemma pass_inv (s : lstate_) : Inv s ->
    match pass_ s with PCont s' => Inv s' | PExit o => Post o | _ => True end.
  Proof.
    intros [Hc Hq Hgl Hk Hlog Hch Hlk]. unfold pass. cbv zeta.
    change (@n0 R NumR) with 0. change (@n1 R NumR) with 1. change (@nopp R NumR) with Ropp.
    set (curr := st_curr s) in *. set (k := st_k s) in *.
    destruct (eps_of curr) as [ε|] eqn:Eeps; [|exact I].
    destruct (stop_status_ocp (o_tol P) ε (time_up (st_cnt s)) k (p_max_iter P) (st_np s) (p_max_no_progress P) (stop_req (st_cnt s))) eqn:Est.
    2-8: match goal with |- context [exit_values _ _ _ _ _ _ _ _ _ ?st ?c] =>
           destruct (exit_values X cvals Dlb Dub P u_in y_in μ errz_in st c) as [[uo yo] eo] eqn:Eex;
           exists curr, (st_cnt s), (st_np s); constructor; cbn [out_status out_iterations out_eps out_u out_y out_errz out_final out_log];
           [exact Hc|exact Hq|exact Hgl|reflexivity|exact Eeps|now rewrite Est|discriminate|exact Hk|now rewrite Eex
           |apply Forall_rev; constructor; [|exact Hlog]; unfold rec_ok; cbn [r_it r_k]; repeat split; try apply Hc; assumption
           |rewrite rev_involutive; cbn [chain]; split; [|exact Hch]; destruct (st_log s) as [|r tl]; [exact I|exact Hlk]
           |rewrite rev_involutive; reflexivity]
         end.
    (* Busy: direction, line search *)
    rewrite ocp_chain_same in Est. apply busy_iff in Est. destruct Est as (_ & _ & Hne & _).
    match goal with |- match (match ?d with Some _ => _ | None => _ end) with _ => _ end => set (dir := d) end.
    assert (Hd : forall τ0 q nJ ds1 c2, dir = Some (τ0, q, nJ, ds1, c2) -> τ0 = 0 \/ τ0 = 1).
    { subst dir. intros τ0 q nJ ds1 c2. destruct (p_disable_acc P); [intros E; inversion E; auto|].
      destruct (st_do_gn s); [intros E; inversion E; auto|].
      destruct (negb (enable_lbfgs P)); [discriminate|].
      match goal with |- context [lb_apply ?a ?b ?c ?d] => destruct (lb_apply a b c d) as [[ok q'] ds'] end.
      intros E; inversion E. destruct ok; auto. }
    destruct dir as [[[[[τ0 q] nJ] ds1] c2]|]; [|exact I].
    specialize (Hd τ0 q nJ ds1 c2 eq_refl).
    set (τi := if vall_finite q then τ0 else 0).
    assert (Hτi : τi = 0 \/ τi = 1) by (subst τi; destruct (vall_finite q); auto).
    match goal with |- context [lsloop ls_fuel q τi ?dng ?l0] => set (ls0 := l0); set (dn := dng) end.
    assert (HI : LsI curr ls0).
    { subst ls0. constructor; cbn [ls_curr ls_next ls_tau ls_tau_prev].
      - reflexivity.
      - exists 0%nat. reflexivity.
      - intros E. exfalso. destruct Hτi as [E0|E0]; rewrite E0 in E; lra. }
    pose proof (ls_invariant curr q τi dn (proj2 (proj2 Hc)) ls_fuel ls0 HI) as Hls.
    destruct (lsloop ls_fuel q τi dn ls0) as [l|l|]; [| |exact I].
    - (* line search completed *)
      destruct Hls as [Lc Ln Lgl Lq Lls Lsafe]. rewrite Lc in Lls.
      set (nxt := ls_next l) in *. set (τ := ls_tau l) in *.
      set (next2 := if enable_lbfgs P then set_ul X nxt (iu nxt) else nxt).
      assert (E2 : consistent next2 /\ gl_of next2 = gl_of nxt /\ qub_ok next2 /\ lsv curr next2 = lsv curr nxt /\
                   (safe_of curr nxt -> safe_of curr next2)).
      { subst next2. destruct (enable_lbfgs P); (split; [exact Ln|split; [reflexivity|split; [exact Lq|split; [reflexivity|exact (fun H => H)]]]]). }
      destruct E2 as (N2c & N2gl & N2q & N2ls & N2safe).
      match goal with |- match (let '(ds3, rej) := ?dr in _) with _ => _ end => destruct dr as [ds3 rej] end.
      constructor; cbn [st_curr st_k st_log].
      + exact N2c.
      + exact N2q.
      + apply (glrel0_halved curr); [exact Hgl|]. apply (halved_gl curr nxt); assumption.
      + fold k. lia.
      + constructor; [|exact Hlog]. unfold rec_ok; cbn [r_it r_k]. repeat split; try apply Hc; assumption.
      + cbn [chain]. split; [|exact Hch]. destruct (st_log s) as [|r0 tl]; [exact I|exact Hlk].
      + unfold link; cbn [r_status r_k r_it r_tau]. split; [reflexivity|]. split; [reflexivity|].
        split; [apply (halved_gl curr nxt); assumption|]. split.
        * intros Hp. rewrite N2ls. now apply Lls.
        * intros H0. apply N2safe. now apply Lsafe.
    - (* interrupted during the line search: same k, same current iterate *)
      rewrite Hls. constructor; cbn [st_curr st_k st_log]; assumption.
  Qed.

  Lemma loop_inv : forall fuel s o, Inv s -> loop_ fuel s = Done o -> Post o.
  Proof.
    induction fuel as [|fuel IH]; intros s o HI; cbn [loop]; [discriminate|].
    pose proof (pass_inv s HI) as Hp. destruct (pass_ s) as [o'|s'| | |]; try discriminate.
    - intros E. inversion E. subst. exact Hp.
    - apply IH. exact Hp.
  Qed.

  (* ------------------------------------------------------------------ initialisation *)
  Lemma init_qub_inv : forall fuel i c st i' c' st', consistent i -> glrel0 i ->
    initqub fuel i c st = Some (i', c', st') -> consistent i' /\ glrel0 i' /\ qub_ok i'.
  Proof.
    induction fuel as [|fuel IH]; intros i c st i' c' st' Hc Hg; cbn [init_qub];
      change (@nltb R NumR) with Rlt_bool;
      destruct (Rlt_bool (iL i) (p_Lmax P) && qubv i) eqn:Eq; try discriminate.
    1,3: intros E; inversion E; subst; repeat split; try apply Hc; assumption.
    apply IH.
    - destruct (eprox_cons (halve_it X i)) as [A B]; [apply Hc|]. apply ehat_cons; assumption.
    - destruct Hg as [j Ej]. exists (S j). cbn [halve_n]. rewrite <- Ej, <- halve_it_gl. reflexivity.
  Qed.

  Lemma init_L_cons_x : cons_x (fst (fst (fst initL))).
  Proof. unfold init_L. cbv zeta. cbn [eval_backward]. destruct (nleb (p_L0 P) n0); cbn; repeat split. Qed.
  Lemma init_L_u : iu (fst (fst (fst initL))) = u_in.
  Proof. unfold init_L. cbv zeta. cbn [eval_backward]. destruct (nleb (p_L0 P) n0); reflexivity. Qed.

  Lemma init_inv i0 nx0 qr0 c0 i3 c1 s1 dg : initL = (i0, nx0, qr0, c0) ->
    initqub ls_fuel (first_it i0) (inc_fwd c0) stats0 = Some (i3, c1, s1) ->
    Inv (mkSt i3 nx0 0 0 [] qr0 ds0 dg (-1)%Z c1 s1 []).
  Proof.
    intros E0 Eq. pose proof init_L_cons_x as Hx0.
    assert (HL : L_init = iL i0) by (unfold L_init; now rewrite E0).
    rewrite E0 in Hx0. cbn [fst] in Hx0. unfold first_iterate in Eq.
    set (i1 := set_gamma_L X i0 (p_Lgamma P / iL i0)%num (iL i0)) in *.
    destruct (eprox_cons i1) as [A B]; [exact Hx0|].
    pose proof (ehat_cons _ A B) as Hc2.
    assert (Hg2 : glrel0 (ehat (eprox i1))).
    { exists 0%nat. cbn [halve_n]. unfold gl_of, gl0. rewrite HL. reflexivity. }
    destruct (init_qub_inv _ _ _ _ _ _ _ Hc2 Hg2 Eq) as (H1 & H2 & H3).
    constructor; cbn [st_curr st_k st_log]; try assumption; try constructor; try lia.
  Qed.

  (* MAIN: every completed run satisfies Post *)
  Theorem run_post fuel o : run_ fuel = Done o -> Post o.
  Proof.
    unfold panoc_ocp. destruct initL as [[[i0 nx0] qr0] c0] eqn:E0.
    destruct (negb (nfinite (iL i0))); [discriminate|].
    destruct (initqub ls_fuel (first_it i0) (inc_fwd c0) stats0) as [[[i3 c1] s1]|] eqn:Eq; [|discriminate].
    apply loop_inv. exact (init_inv _ _ _ _ _ _ _ _ E0 Eq).
  Qed.

  (* the states at the top of `while (true)`: the one built by the initialisation, and every state a pass continues with
     (after a completed iteration OR after a line search that was interrupted by a stop request) *)
  Inductive reachable : lstate_ -> Prop :=
  | reach_init i0 nx0 qr0 c0 i3 c1 s1 : initL = (i0, nx0, qr0, c0) ->
      initqub ls_fuel (first_it i0) (inc_fwd c0) stats0 = Some (i3, c1, s1) ->
      reachable (mkSt i3 nx0 0 0 [] qr0 ds0 ((0 <? p_gn_interval P)%nat && negb (p_disable_acc P)) (-1)%Z c1 s1 [])
  | reach_step s s' : reachable s -> pass_ s = PCont s' -> reachable s'.
  Theorem reachable_inv s : reachable s -> Inv s.
  Proof.
    induction 1 as [i0 nx0 qr0 c0 i3 c1 s1 E0 Eq|s s' _ IH Ep]; [exact (init_inv _ _ _ _ _ _ _ _ E0 Eq)|].
    pose proof (pass_inv s IH) as Hp. now rewrite Ep in Hp.
  Qed.
  (* the invariant at EVERY stop check (completed iterations and interrupted line searches alike) *)
  Theorem reachable_check s : reachable s ->
    consistent (st_curr s) /\ qub_ok (st_curr s) /\ glrel0 (st_curr s) /\ (st_k s <= p_max_iter P)%nat.
  Proof. intros Hr. destruct (reachable_inv s Hr) as [A B C D _ _ _]. exact (conj A (conj B (conj C D))). Qed.

  (* ------------------------------------------------------------------ (a) reading the invariant *)
  Lemma prox_impl_step γ (u g : list R) :
    fst (fst (fst (proxi γ u g))) = fst (fst (fst (ocp_prox Ulb Uub N γ u g))) /\
    snd (fst (fst (proxi γ u g))) = snd (fst (fst (ocp_prox Ulb Uub N γ u g))).
  Proof.
    unfold prox_impl, ocp_prox. destruct (proj_grad_step (tile N Ulb) (tile N Uub) γ u g) as [[a b] c]. split; reflexivity.
  Qed.
  Lemma consistent_explicit (i : it) : consistent i ->
    ipsi i = fst (fwd (iu i)) /\ ix i = snd (fwd (iu i)) /\ igrad i = fst (bwd (iu i) (snd (fwd (iu i)))) /\
    iuh i = fst (fst (proj_grad_step (tile N Ulb) (tile N Uub) (igam i) (iu i) (igrad i))) /\
    ip i = snd (fst (proj_grad_step (tile N Ulb) (tile N Uub) (igam i) (iu i) (igrad i))) /\
    iuh i = vadd (iu i) (ip i) /\
    ipp i = stage_sum N (fun t => vsqnorm (stage_seg nu t (ip i))) /\
    igp i = stage_sum N (fun t => vdot (stage_seg nu t (igrad i)) (stage_seg nu t (ip i))) /\
    ipsih i = fst (fwd (iuh i)) /\ ixh i = snd (fwd (iuh i)).
  Proof.
    intros ((X1 & X2 & X3) & Hs & (H1 & H2)). unfold cons_step, prox_impl in Hs.
    pose proof (f_equal (fun t => fst (fst (fst t))) Hs) as E1. pose proof (f_equal (fun t => snd (fst (fst t))) Hs) as E2.
    pose proof (f_equal (fun t => snd (fst t)) Hs) as E3. pose proof (f_equal snd Hs) as E4. cbn [fst snd] in E1, E2, E3, E4.
    rewrite <- X2. split; [exact X1|]. split; [reflexivity|]. split; [exact X3|]. split; [now symmetry|]. split; [now symmetry|].
    split; [rewrite <- E1, <- E2; reflexivity|]. split; [rewrite <- E3, E2; reflexivity|]. split; [rewrite <- E4, E2; reflexivity|].
    split; assumption.
  Qed.
  (* the returned / reported û lies in the input box (C13's lemma applies to the loop's iterates) *)
  Lemma consistent_uhat_in_box (i : it) n : consistent i ->
    length (tile N Ulb) = n -> length (tile N Uub) = n -> length (iu i) = n -> length (igrad i) = n ->
    forall j, (j < n)%nat -> box_ne (nth j (tile N Ulb) None) (nth j (tile N Uub) None) ->
    in_box (nth j (tile N Ulb) None) (nth j (tile N Uub) None) (nth j (iuh i) 0) /\
    nth j (iuh i) 0 = proj1 (nth j (tile N Ulb) None) (nth j (tile N Uub) None) (nth j (iu i) 0 - igam i * nth j (igrad i) 0).
  Proof.
    intros Hc H1 H2 H3 H4 j Hj Hne. destruct (consistent_explicit i Hc) as (_ & _ & _ & E4 & _).
    destruct (ocp_prox_is_proj_grad_step Ulb Uub N (igam i) (iu i) (igrad i)) as [A _]. rewrite <- A in E4. rewrite E4. split.
    - apply (ocp_uhat_in_box Ulb Uub N (igam i) (iu i) (igrad i) n H1 H2 H3 H4 j Hj Hne).
    - apply (ocp_uhat_component Ulb Uub N (igam i) (iu i) (igrad i) n H1 H2 H3 H4 j Hj).
  Qed.

  (* ------------------------------------------------------------------ (b) γ·L and monotonicity of γ *)
  Lemma glrel0_product (i : it) : glrel0 i -> igam i * iL i = p_Lgamma P / L_init * L_init.
  Proof.
    intros [j E]. unfold gl_of in E. pose proof (halve_n_product j (p_Lgamma P / L_init) L_init) as Hp.
    fold gl0 in Hp. rewrite <- E in Hp. exact Hp.
  Qed.
  Lemma glrel0_product_factor (i : it) : L_init <> 0 -> glrel0 i -> igam i * iL i = p_Lgamma P.
  Proof. intros HL Hg. rewrite (glrel0_product i Hg). field. exact HL. Qed.
  Lemma halved_nonincreasing (a b : it) : halved a b -> 0 < igam a -> 0 < igam b <= igam a.
  Proof.
    intros [j E] Hp. pose proof (halve_n_nonincreasing j (igam a) (iL a) Hp) as Hn.
    unfold gl_of in E. rewrite <- E in Hn. exact Hn.
  Qed.
  Lemma glrel0_pos (i : it) : 0 < p_Lgamma P -> 0 < L_init -> glrel0 i -> 0 < igam i.
  Proof.
    intros H1 H2 [j E]. assert (Hp : 0 < p_Lgamma P / L_init) by (apply Rdiv_lt_0_compat; assumption).
    pose proof (halve_n_nonincreasing j _ L_init Hp) as Hn. fold gl0 in Hn. rewrite <- E in Hn. apply Hn.
  Qed.

  (* ------------------------------------------------------------------ (c) quadratic upper bound at every checked / reported iterate *)
  Lemma qub_ok_explicit (i : it) : qub_ok i ->
    p_Lmax P <= iL i \/
    ipsih i <= ipsi i + igp i + 1 / 2 * iL i * ipp i + (1 + Rabs (ipsi i)) * p_qub_tol P.
  Proof.
    unfold qub_ok, it_qub_violated, qub_violated, qub_rhs, nhalf1. numR. rewrite ?one_plus_one.
    destruct (Rlt_bool_spec (iL i) (p_Lmax P)); cbn [andb]; [|left; assumption].
    intros Hq. right. apply Rlt_bool_false_iff in Hq. exact Hq.
  Qed.

  (* ------------------------------------------------------------------ (d) descent between consecutive reported iterates: accelerated step *)
  Lemma desc_accelerated (r r' : cbrec (T:=R) X) : desc r r' -> 0 < r_tau r ->
    let a := r_it r in
    it_fbe (r_it r') <= it_fbe a - p_beta P * (1 - igam a * iL a) / (2 * igam a) * ipp a + (1 + Rabs (it_fbe a)) * p_ls_tol P.
  Proof.
    intros (_ & _ & _ & Hls & _) Hp a.
    assert (Hb : Rlt_bool 0 (r_tau r) = true) by (now apply Rlt_bool_iff).
    specialize (Hls Hb). unfold it_ls_violated in Hls. apply ls_accept_descent in Hls. exact Hls.
  Qed.

  Lemma desc_explicit (r r' : cbrec (T:=R) X) : desc r r' ->
    r_status r = StBusy /\ r_k r' = S (r_k r) /\ halved (r_it r) (r_it r') /\
    (r_tau r = 0 -> iu (r_it r') = iuh (r_it r) /\ ipsi (r_it r') = ipsih (r_it r)).
  Proof. intros (A & B & C & _ & D). repeat split; try assumption; apply D; assumption. Qed.

  (* ------------------------------------------------------------------ (e) iterations and status;  (f) exit *)
  Theorem status_clauses fuel o : run_ fuel = Done o ->
    (out_iterations o <= p_max_iter P)%nat /\
    out_status o <> StBusy /\
    (out_status o = StMaxIter -> out_iterations o = p_max_iter P) /\
    (out_status o = StConverged <-> out_eps o <= eff_tol (o_tol P)) /\
    (out_status o = StInterrupted -> exists c, stop_req c = true) /\
    (out_status o = StMaxTime -> exists c, time_up c = true) /\
    (out_status o = StNoProgress -> exists np, (p_max_no_progress P < np)%nat).
  Proof.
    intros Hr. destruct (run_post fuel o Hr) as (cf & cnt & np & W). destruct W. rewrite ocp_chain_same in po_status0.
    split; [assumption|]. split; [assumption|]. split; [|split; [|split; [|split]]].
    - intros E. rewrite E in po_status0. symmetry in po_status0. now apply maxiter_only_at_limit in po_status0.
    - rewrite po_status0. rewrite converged_iff. apply Rle_bool_iff.
    - intros E. rewrite E in po_status0. symmetry in po_status0. apply interrupted_only_if_requested in po_status0. eauto.
    - intros E. rewrite E in po_status0. symmetry in po_status0. apply maxtime_only_if_exceeded in po_status0. eauto.
    - intros E. rewrite E in po_status0. symmetry in po_status0. apply noprogress_only_above_limit in po_status0. eauto.
  Qed.

  (* exit: the written-back triple is write_solution of a consistent iterate (or nothing is written) *)
  Theorem run_exit fuel o : run_ fuel = Done o ->
    exists cf : it, consistent cf /\ qub_ok cf /\ glrel0 cf /\ out_final o = cf /\
      eps_of cf = Some (out_eps o) /\
      (overwrites (out_status o) (o_always P) = true ->
         out_u o = iuh cf /\ iuh cf = vadd (iu cf) (ip cf) /\
         out_u o = fst (fst (proj_grad_step (tile N Ulb) (tile N Uub) (igam cf) (iu cf) (igrad cf))) /\
         let rows := ocp_write Dlb Dub (cvals (snd (fwd (out_u o)))) y_in μ in
         out_y o = map fst rows /\ out_errz o = map snd rows) /\
      (overwrites (out_status o) (o_always P) = false -> out_u o = u_in /\ out_y o = y_in /\ out_errz o = errz_in).
  Proof.
    intros Hr. destruct (run_post fuel o Hr) as (cf & cnt & np & W). destruct W.
    exists cf. repeat (split; [assumption|]). unfold exit_values, write_solution in po_exit0.
    destruct (consistent_explicit cf po_cons0) as (_ & _ & _ & E4 & _ & E6 & _ & _ & _ & E10).
    split; intros Ho; rewrite Ho in po_exit0;
      pose proof (f_equal (fun t => fst (fst t)) po_exit0) as X1; pose proof (f_equal (fun t => snd (fst t)) po_exit0) as X2;
      pose proof (f_equal snd po_exit0) as X3; cbn [fst snd] in X1, X2, X3.
    - split; [exact X1|]. split; [exact E6|]. split; [now rewrite X1|]. cbv zeta. rewrite X1, <- E10. split; assumption.
    - repeat split; assumption.
  Qed.

  (* every progress-callback record and every consecutive pair *)
  Theorem run_records fuel o : run_ fuel = Done o ->
    Forall rec_ok (out_log o) /\ chain (rev (out_log o)) /\
    exists cf, hd_error (rev (out_log o)) = Some (mkCb (out_iterations o) cf [] (- 1) (out_eps o) false 0%Z (out_status o)) /\ consistent cf.
  Proof.
    intros Hr. destruct (run_post fuel o Hr) as (cf & cnt & np & W). destruct W. repeat split; try assumption. exists cf. split; assumption.
  Qed.

  (* ------------------------------------------------------------------ (g) the line search terminates *)
  Section Termination.
    Variables (cL : R) (nL nT : nat) (q : list R) (τi : R) (dng : bool).
    Hypothesis HcL : 0 < cL.
    Hypothesis HLmax : p_Lmax P <= cL * 2 ^ nL.                       (* finite L_max: reached after nL doublings *)
    Hypothesis Hmin : (1 / 2) ^ nT < p_tau_min P.                      (* τ falls below τ_min after nT halvings *)
    Hypothesis Hτi : τi = 0 \/ τi = 1.

    Definition phiA (a b : nat) : nat := ((nL - a) * (nT + 2) + (nT + 1 - b) + (nL + 2))%nat.
    Definition phiB (a : nat) : nat := (nL - a + 1)%nat.

    Lemma pow_half_le m n : (m <= n)%nat -> (1 / 2) ^ n <= (1 / 2) ^ m.
    Proof.
      intros Hmn. induction Hmn as [|n Hmn IH]; [lra|]. cbn [pow].
      assert (0 <= (1 / 2) ^ n) by (apply pow_le; lra). nra.
    Qed.
    Lemma iL_halve (i : it) : iL (halve_it X i) = iL i * 2.
    Proof. unfold halve_it, halve_step, set_gamma_L. cbn [iL snd fst]. cbv [n2 nmul nadd n1 NumR]. lra. Qed.

    Lemma ls_no_fuel : forall fuel s a b,
      iL (ls_curr s) = cL -> iL (ls_next s) = cL * 2 ^ a -> (a <= nL)%nat ->
      ((0 < ls_tau s /\ τi = 1 /\ ls_tau s = (1 / 2) ^ b /\ (b <= nT)%nat /\ (phiA a b <= fuel)%nat) \/
       (ls_tau s = 0 /\ (phiB a <= fuel)%nat)) ->
      lsloop fuel q τi dng s <> LsFuel.
    Proof.
      induction fuel as [|fuel IH]; intros s a b Hc Hn Ha Hph.
      { exfalso. unfold phiA, phiB in Hph. destruct Hph as [(_ & _ & _ & _ & H)|(_ & H)]; nia. }
      cbn [ls_loop]. destruct (stop_req (ls_cnt s)); [discriminate|].
      change (@nltb R NumR) with Rlt_bool. change (@neqb R NumR) with Req_bool. change (@nleb R NumR) with Rle_bool.
      change (@n0 R NumR) with 0. change (@n1 R NumR) with 1. change (@ndiv R NumR) with Rdiv.
      set (τ := ls_tau s) in *.
      set (ph := if Req_bool τ (ls_tau_prev s) then (ls_next s, ls_qr s, inc_polls (ls_cnt s), ls_do_gn s)
                 else if Req_bool τ 0 then (fst (take_safe_step X QR bwd (ls_curr s) (ls_next s)), snd (take_safe_step X QR bwd (ls_curr s) (ls_next s)),
                                            inc_bwd (inc_polls (ls_cnt s)), ls_do_gn s)
                 else (fst (take_accel_step X QR fwd bwd τ q (ls_curr s) (ls_next s)), snd (take_accel_step X QR fwd bwd τ q (ls_curr s) (ls_next s)),
                       inc_bwd (inc_fwd (inc_polls (ls_cnt s))), if Req_bool τ 1 then ls_do_gn s else dng)).
      assert (F : iL (fst (fst (fst ph))) = cL * 2 ^ a).
      { subst ph. destruct (Req_bool τ (ls_tau_prev s)); [exact Hn|]. destruct (Req_bool τ 0); exact Hn. }
      destruct ph as [[[next qr] c1] dg]. cbn [fst snd] in F.
      (* fail branch *)
      match goal with |- context [if ?bb then lsloop fuel q τi dng ?s1 else _] => destruct bb eqn:Efail; [apply (IH s1 0%nat 0%nat)|] end.
      { exact Hc. }
      { cbn [ls_next]. unfold set_gamma_L; cbn [iL]. rewrite Hc. cbn [pow]. lra. }
      { lia. }
      { right. cbn [ls_tau]. split; [reflexivity|]. apply andb_prop in Efail. destruct Efail as [Hpos _]. apply Rlt_bool_iff in Hpos.
        destruct Hph as [(_ & _ & _ & _ & H)|(H0 & _)]; [unfold phiA, phiB in *; nia|lra]. }
      set (next1 := ehat (eprox next)).
      assert (N1 : iL next1 = cL * 2 ^ a) by exact F.
      (* QUB branch: next.L < L_max, so fewer than nL doublings so far *)
      match goal with |- context [if ?bb then lsloop fuel q τi dng ?s1 else _] => destruct bb eqn:Equb; [apply (IH s1 (S a) 0%nat)|] end.
      { exact Hc. }
      { cbn [ls_next]. rewrite iL_halve, N1. cbn [pow]. lra. }
      { apply andb_prop in Equb. destruct Equb as [HL _]. apply Rlt_bool_iff in HL. rewrite N1 in HL.
        destruct (Nat.lt_ge_cases a nL) as [Hlt|Hge]; [lia|]. exfalso.
        assert (2 ^ nL <= 2 ^ a) by (apply Rle_pow; [lra|exact Hge]). nra. }
      { apply andb_prop in Equb. destruct Equb as [HL _]. apply Rlt_bool_iff in HL. rewrite N1 in HL.
        assert (Hlt : (a < nL)%nat).
        { destruct (Nat.lt_ge_cases a nL) as [Hlt|Hge]; [exact Hlt|]. exfalso.
          assert (2 ^ nL <= 2 ^ a) by (apply Rle_pow; [lra|exact Hge]). nra. }
        cbn [ls_tau]. destruct Hph as [(Hp & Hi & Ht & Hb & Hf)|(H0 & Hf)].
        - left. apply Rlt_bool_iff in Hp. rewrite Hp. rewrite Hi. split; [lra|]. split; [reflexivity|]. split; [cbn [pow]; lra|]. split; [lia|].
          unfold phiA in *. nia.
        - right. destruct (Rlt_bool_spec 0 τ) as [Hp|Hp]; [lra|]. split; [exact H0|]. unfold phiB in *. lia. }
      (* line-search branch *)
      match goal with |- context [if ?bb then lsloop fuel q τi dng ?s1 else LsDone ?s2] => destruct bb eqn:Els; [|discriminate] end.
      apply andb_prop in Els. destruct Els as [Hpos _]. apply Rlt_bool_iff in Hpos.
      destruct Hph as [(Hp & Hi & Ht & Hb & Hf)|(H0 & _)]; [|lra].
      match goal with |- lsloop fuel q τi dng ?s1 <> LsFuel => apply (IH s1 a (S b)) end.
      { exact Hc. }
      { exact N1. }
      { exact Ha. }
      cbn [ls_tau]. cbv [n2 nadd n1 NumR]. destruct (Rlt_bool_spec (τ / (1 + 1)) (p_tau_min P)) as [Hlt|Hge].
      - right. split; [reflexivity|]. unfold phiA, phiB in *. nia.
      - left. assert (Hpw : τ / (1 + 1) = (1 / 2) ^ S b) by (rewrite Ht; cbn [pow]; lra).
        assert (Hb' : (S b <= nT)%nat).
        { destruct (Nat.lt_ge_cases b nT) as [Hl|Hg]; [lia|]. exfalso.
          assert ((1 / 2) ^ S b <= (1 / 2) ^ nT) by (apply pow_half_le; lia). lra. }
        assert (0 <= (1 / 2) ^ nT) by (apply pow_le; lra).
        split; [lra|]. split; [exact Hi|]. split; [exact Hpw|]. split; [exact Hb'|]. unfold phiA in *. nia.
    Qed.

    (* explicit bound on the number of passes of `while (!stop_requested)` in one iteration *)
    Definition ls_pass_bound : nat := ((nL + 1) * (nT + 3))%nat.
    Theorem ls_terminates (curr next : it) dg ds qr c st : iL curr = cL -> forall fuel, (ls_pass_bound <= fuel)%nat ->
      lsloop fuel q τi dng (mkLs curr (set_gamma_L X next (igam curr) (iL curr)) τi (- 1) dg ds qr c st) <> LsFuel.
    Proof.
      intros Hc fuel Hf. apply (ls_no_fuel fuel _ 0%nat 0%nat); cbn [ls_curr ls_next ls_tau].
      - exact Hc.
      - unfold set_gamma_L; cbn [iL pow]. lra.
      - lia.
      - unfold ls_pass_bound, phiA, phiB in *. destruct Hτi as [E|E].
        + right. split; [exact E|]. nia.
        + left. split; [lra|]. split; [exact E|]. split; [cbn [pow]; lra|]. split; [lia|]. nia.
    Qed.
  End Termination.

  (* no pass of the outer loop runs out of line-search fuel: one uniform bound for the whole run *)
  Lemma halve_n_L j γ L : snd (halve_n j (γ, L)) = L * 2 ^ j.
  Proof.
    induction j as [|j IH]; cbn [halve_n pow]; [cbn; lra|]. destruct (halve_n j (γ, L)) as [g l]. cbn [snd] in IH.
    unfold halve_step; cbn [snd fst]. cbv [n2 nmul nadd n1 NumR]. rewrite IH. lra.
  Qed.
  Theorem pass_never_out_of_fuel (nL nT : nat) s : Inv s ->
    0 < L_init -> p_Lmax P <= L_init * 2 ^ nL -> (1 / 2) ^ nT < p_tau_min P ->
    (ls_pass_bound nL nT <= ls_fuel)%nat -> pass_ s <> PFuel.
  Proof.
    intros HI HL0 HLm Hm Hfuel. destruct HI as [_ _ [j Ej] _ _ _ _].
    unfold pass. cbv zeta. set (curr := st_curr s) in *.
    assert (EL : iL curr = L_init * 2 ^ j).
    { pose proof (halve_n_L j (p_Lgamma P / L_init) L_init) as Hh. fold gl0 in Hh. rewrite <- Ej in Hh. exact Hh. }
    assert (Hp1 : 1 <= 2 ^ j) by (apply pow_R1_Rle; lra).
    assert (Hp2 : 0 < 2 ^ nL) by (apply pow_lt; lra).
    assert (HcL : 0 < iL curr) by (rewrite EL; nra).
    assert (HLm' : p_Lmax P <= iL curr * 2 ^ nL).
    { rewrite EL. assert (0 <= L_init * 2 ^ nL * (2 ^ j - 1)) by (apply Rmult_le_pos; [apply Rmult_le_pos; lra|lra]). lra. }
    destruct (eps_of curr) as [ε|]; [|discriminate].
    match goal with |- context [stop_status_ocp ?a ?b ?c ?d ?e ?f ?g ?h] => destruct (stop_status_ocp a b c d e f g h) end.
    2-8: match goal with |- context [exit_values _ _ _ _ _ _ _ _ _ ?st ?c] =>
           destruct (exit_values X cvals Dlb Dub P u_in y_in μ errz_in st c) as [[uo yo] eo] end; discriminate.
    change (@n0 R NumR) with 0. change (@n1 R NumR) with 1. change (@nopp R NumR) with Ropp.
    match goal with |- (match ?d with Some _ => _ | None => _ end) <> _ => set (dir := d) end.
    assert (Hd : forall τ0 q nJ ds1 c2, dir = Some (τ0, q, nJ, ds1, c2) -> τ0 = 0 \/ τ0 = 1).
    { subst dir. intros τ0 q nJ ds1 c2. destruct (p_disable_acc P); [intros E; inversion E; auto|].
      destruct (st_do_gn s); [intros E; inversion E; auto|].
      destruct (negb (enable_lbfgs P)); [discriminate|].
      match goal with |- context [lb_apply ?a ?b ?c ?d] => destruct (lb_apply a b c d) as [[ok q'] ds'] end.
      intros E; inversion E. destruct ok; auto. }
    destruct dir as [[[[[τ0 q] nJ] ds1] c2]|]; [|discriminate].
    specialize (Hd τ0 q nJ ds1 c2 eq_refl).
    set (τi := if vall_finite q then τ0 else 0).
    assert (Hτi : τi = 0 \/ τi = 1) by (subst τi; destruct (vall_finite q); auto).
    match goal with |- context [lsloop ls_fuel q τi ?dng (mkLs curr (set_gamma_L X ?nx _ _) _ _ ?dg ?ds ?qr ?c ?st)] =>
      pose proof (ls_terminates (iL curr) nL nT q τi dng HcL HLm' Hm Hτi curr nx dg ds qr c st eq_refl ls_fuel Hfuel) as Ht;
      match goal with |- context [match ?Y with LsDone _ => _ | LsStopped _ => _ | LsFuel => PFuel end] =>
        assert (Ht' : Y <> LsFuel) by exact Ht; destruct Y; [|discriminate|exfalso; apply Ht'; reflexivity] end
    end.
    match goal with |- (let '(ds3, rej) := ?dr in _) <> _ => destruct dr as [ds3 rej] end. discriminate.
  Qed.
  Theorem reachable_pass_never_out_of_fuel (nL nT : nat) s : reachable s ->
    0 < L_init -> p_Lmax P <= L_init * 2 ^ nL -> (1 / 2) ^ nT < p_tau_min P ->
    (ls_pass_bound nL nT <= ls_fuel)%nat -> pass_ s <> PFuel.
  Proof. intros Hr. apply pass_never_out_of_fuel. now apply reachable_inv. Qed.

  (* at k = max_iter the pass exits (whatever the stop flag / clock say), reporting k iterations *)
  Lemma pass_exits_at_max_iter (s : lstate_) ε : eps_of (st_curr s) = Some ε -> st_k s = p_max_iter P ->
    exists o, pass_ s = PExit o /\ out_iterations o = st_k s /\ out_status o <> StBusy /\ out_eps o = ε /\
              (out_u o, out_y o, out_errz o) = exit_values X cvals Dlb Dub P u_in y_in μ errz_in (out_status o) (st_curr s).
  Proof.
    intros He Hk. unfold pass. cbv zeta. rewrite He. unfold stop_status_ocp. cbv zeta. rewrite Hk, Nat.eqb_refl.
    destruct (nleb ε _); [|destruct (time_up (st_cnt s))].
    all: match goal with |- context [exit_values _ _ _ _ _ _ _ _ _ ?st ?c] =>
           destruct (exit_values X cvals Dlb Dub P u_in y_in μ errz_in st c) as [[uo yo] eo] eqn:Eex end;
         eexists; split; [reflexivity|]; cbn [out_iterations out_status out_eps out_u out_y out_errz];
         split; [reflexivity|]; split; [discriminate|]; split; [reflexivity|now rewrite Eex].
  Qed.

  (* ------------------------------------------------------------------ (d) descent after a safeguarded step (τ = 0) *)
  (* with well-formed dimensions the per-stage accumulations are the squared norm / scalar product of the whole vectors *)
  Lemma consistent_pp_gp (i : it) : consistent i -> length Ulb = nu -> length Uub = nu ->
    length (iu i) = (N * nu)%nat -> length (igrad i) = (N * nu)%nat ->
    length (ip i) = (N * nu)%nat /\ length (iuh i) = (N * nu)%nat /\ ipp i = vsqnorm (ip i) /\ igp i = vdot (igrad i) (ip i).
  Proof.
    intros Hc Hl Hu Hx Hg. destruct (consistent_explicit i Hc) as (_ & _ & _ & E4 & E5 & _ & E7 & E8 & _).
    destruct (proj_grad_step_length (tile N Ulb) (tile N Uub) (igam i) (iu i) (igrad i) (N * nu)) as [L1 L2];
      try assumption; try (rewrite tile_length; congruence).
    rewrite <- E4 in L1. rewrite <- E5 in L2. split; [exact L2|]. split; [exact L1|].
    split; [rewrite E7; now apply stage_sum_vsqnorm|rewrite E8; now apply stage_sum_vdot].
  Qed.
  (* the stopping criterion of the loop is C13's ocp_crit on the iterate's own (γ, u, ∇ψ, p) *)
  Lemma eps_is_ocp_crit (i : it) : consistent i -> length Ulb = nu -> length Uub = nu ->
    length (iu i) = (N * nu)%nat -> length (igrad i) = (N * nu)%nat ->
    eps_of i = ocp_crit (p_crit P) Ulb Uub N (igam i) (iu i) (igrad i) (ip i).
  Proof.
    intros Hc Hl Hu Hx Hg. destruct (consistent_pp_gp i Hc Hl Hu Hx Hg) as (_ & _ & Epp & _).
    unfold it_eps, ocp_crit, crit_eps, unit_step, vnorm2. cbn [eval_prox_grad_step].
    destruct (p_crit P); try reflexivity; try (rewrite Epp; reflexivity).
    unfold prox_impl. cbn [fst snd]. do 2 f_equal. apply stage_sum_vsqnorm.
      apply (proj_grad_step_length (tile N Ulb) (tile N Uub) 1 (iu i) (igrad i) (N * nu)); try assumption; rewrite tile_length; congruence.
  Qed.

  Lemma desc_safe (r r' : cbrec (T:=R) X) : desc r r' -> rec_ok r -> rec_ok r' ->
    r_tau r = 0 -> iL (r_it r) < p_Lmax P -> 0 < igam (r_it r) -> 0 < igam (r_it r') ->
    length Ulb = nu -> length Uub = nu -> length (iu (r_it r)) = (N * nu)%nat -> length (igrad (r_it r)) = (N * nu)%nat ->
    length (igrad (r_it r')) = (N * nu)%nat -> Forall2 box_ne (tile N Ulb) (tile N Uub) ->
    let a := r_it r in
    it_fbe (r_it r') <= it_fbe a - (1 - igam a * iL a) / (2 * igam a) * ipp a + (1 + Rabs (ipsi a)) * p_qub_tol P.
  Proof.
    intros (_ & _ & _ & _ & Hsafe) (Ac & Aq & _) (Bc & _) Ht HL Hga Hgb Hl Hu Hlx Hlg Hlg' Hne a.
    destruct (Hsafe Ht) as [Sx Sp]. subst a. set (a := r_it r) in *. set (b := r_it r') in *.
    destruct (consistent_pp_gp a Ac Hl Hu Hlx Hlg) as (Lpa & Lua & Eppa & Egpa).
    assert (Hlxb : length (iu b) = (N * nu)%nat) by (rewrite Sx; exact Lua).
    destruct (consistent_pp_gp b Bc Hl Hu Hlxb Hlg') as (_ & _ & Eppb & Egpb).
    destruct (consistent_explicit a Ac) as (_ & _ & _ & A4 & A5 & _).
    destruct (consistent_explicit b Bc) as (_ & _ & _ & _ & B5 & _).
    assert (Hbox : all_in_box (tile N Ulb) (tile N Uub) (iuh a)).
    { rewrite A4. apply proj_step_all_in_box; rewrite ?tile_length; try congruence; try exact Hne. }
    assert (Hqv : qub_violated (ipsi a) (ipsih a) (vdot (igrad a) (ip a)) (iL a) (vsqnorm (ip a)) (p_qub_tol P) = false).
    { unfold qub_ok, it_qub_violated in Aq. rewrite Eppa, Egpa in Aq. destruct (Rlt_bool_spec (iL a) (p_Lmax P)); [exact Aq|lra]. }
    rewrite A5 in Hqv.
    pose proof (safe_step_envelope_descent (tile N Ulb) (tile N Uub) (igam a) (igam b) (iL a) (p_qub_tol P) (iu a) (igrad a) (iuh a) (igrad b) (ipsi a) (ipsih a)
                  Hga Hgb ltac:(rewrite tile_length; congruence) ltac:(rewrite tile_length; congruence) ltac:(congruence) Hbox Hqv) as Hd.
    cbv zeta in Hd. rewrite <- Sx, <- B5, <- A5 in Hd.
    unfold it_fbe. change (@n0 R NumR) with 0. rewrite Eppb, Egpb, Eppa, Egpa, Sp. exact Hd.
  Qed.

  (* what C13 needs from the loop: a run that returns Converged hands back the projected-gradient point û of a consistent iterate whose
     documented residual (C13's crit_doc of the selected criterion, on the oracle's ψ / ∇ψ at u) is within the tolerance *)
  Theorem run_converged_certifies fuel o : run_ fuel = Done o -> out_status o = StConverged ->
    let cf := out_final o in
    length Ulb = nu -> length Uub = nu -> length (iu cf) = (N * nu)%nat -> length (igrad cf) = (N * nu)%nat -> igam cf <> 0 ->
    let st := proj_grad_step (tile N Ulb) (tile N Uub) (igam cf) (iu cf) (igrad cf) in
    consistent cf /\
    out_u o = fst (fst st) /\
    crit_doc (p_crit P) (tile N Ulb) (tile N Uub) (igam cf) (iu cf) (fst (fst st)) [] (igrad cf) [] <= eff_tol (o_tol P) /\
    igrad cf = fst (bwd (iu cf) (snd (fwd (iu cf)))) /\
    (let rows := ocp_write Dlb Dub (cvals (snd (fwd (out_u o)))) y_in μ in out_y o = map fst rows /\ out_errz o = map snd rows).
  Proof.
    intros Hr Hst. cbv zeta.
    destruct (run_post fuel o Hr) as (cf' & cnt & np & W). destruct W. rewrite po_final0. intros Hl Hu Hx Hg Hγ.
    destruct (run_exit fuel o Hr) as (cf2 & _ & _ & _ & Ef & _ & Hov & _). rewrite po_final0 in Ef. subst cf2.
    assert (Ho : overwrites (out_status o) (o_always P) = true) by (rewrite Hst; reflexivity).
    destruct (Hov Ho) as (O1 & _ & O3 & O4).
    destruct (consistent_explicit cf' po_cons0) as (_ & _ & E3 & _ & E5 & _).
    split; [exact po_cons0|]. split; [exact O3|]. split; [|split; [exact E3|exact O4]].
    pose proof (eps_is_ocp_crit cf' po_cons0 Hl Hu Hx Hg) as Ec. rewrite po_eps0, E5 in Ec. symmetry in Ec.
    rewrite Hst in po_status0. symmetry in po_status0.
    exact (ocp_converged_certifies (p_crit P) Ulb Uub N (igam cf') (iu cf') (igrad cf') (o_tol P) (out_eps o) _ _ _ _ _ _ Hγ Ec po_status0).
  Qed.

  (* ------------------------------------------------------------------ `throw std::logic_error("enable_lbfgs")` is unreachable *)
  Lemma ls_do_gn_cases q τi dng : forall fuel s,
    match lsloop fuel q τi dng s with
    | LsDone s' | LsStopped s' => ls_do_gn s' = ls_do_gn s \/ ls_do_gn s' = dng
    | LsFuel => True
    end.
  Proof.
    induction fuel as [|fuel IH]; intros s; [exact I|].
    cbn [ls_loop]. destruct (stop_req (ls_cnt s)); [left; reflexivity|].
    set (ph := if neqb (ls_tau s) (ls_tau_prev s) then (ls_next s, ls_qr s, inc_polls (ls_cnt s), ls_do_gn s)
               else if neqb (ls_tau s) n0 then (fst (take_safe_step X QR bwd (ls_curr s) (ls_next s)), snd (take_safe_step X QR bwd (ls_curr s) (ls_next s)),
                                          inc_bwd (inc_polls (ls_cnt s)), ls_do_gn s)
               else (fst (take_accel_step X QR fwd bwd (ls_tau s) q (ls_curr s) (ls_next s)), snd (take_accel_step X QR fwd bwd (ls_tau s) q (ls_curr s) (ls_next s)),
                     inc_bwd (inc_fwd (inc_polls (ls_cnt s))), if neqb (ls_tau s) n1 then ls_do_gn s else dng)).
    assert (F : snd ph = ls_do_gn s \/ snd ph = dng).
    { subst ph. destruct (neqb (ls_tau s) (ls_tau_prev s)); [left; reflexivity|]. destruct (neqb (ls_tau s) n0); [left; reflexivity|].
      cbn [snd]. destruct (neqb (ls_tau s) n1); [left|right]; reflexivity. }
    destruct ph as [[[next qr] c1] dg]. cbn [snd] in F.
    repeat match goal with
    | |- match (if ?b then lsloop fuel q τi dng ?s1 else _) with _ => _ end =>
        destruct b; [specialize (IH s1); destruct (lsloop fuel q τi dng s1); cbn [ls_do_gn] in IH; try exact I;
                     (destruct IH as [E|E]; [rewrite E; exact F|right; exact E])|]
    end.
    cbn [ls_do_gn]. exact F.
  Qed.

  Definition gn_inv (s : lstate_) : Prop := p_gn_interval P = 1%nat -> p_disable_acc P = false -> st_do_gn s = true.

  Lemma pass_gn_inv (s : lstate_) : gn_inv s ->
    match pass_ s with PCont s' => gn_inv s' | PThrowLogic => False | _ => True end.
  Proof.
    intros HG. unfold pass. cbv zeta.
    destruct (eps_of (st_curr s)) as [ε|]; [|exact I].
    match goal with |- context [stop_status_ocp ?a ?b ?c ?d ?e ?f ?g ?h] => destruct (stop_status_ocp a b c d e f g h) end.
    2-8: match goal with |- context [exit_values _ _ _ _ _ _ _ _ _ ?st ?c] =>
           destruct (exit_values X cvals Dlb Dub P u_in y_in μ errz_in st c) as [[uo yo] eo] end; exact I.
    match goal with |- match (match ?d with Some _ => _ | None => _ end) with _ => _ end => set (dir := d) end.
    assert (Hd : dir = None -> p_gn_interval P = 1%nat /\ p_disable_acc P = false /\ st_do_gn s = false).
    { subst dir. destruct (p_disable_acc P); [discriminate|]. destruct (st_do_gn s); [discriminate|].
      unfold enable_lbfgs. destruct (Nat.eqb_spec (p_gn_interval P) 1); cbn [negb].
      - intros _. repeat split; assumption.
      - match goal with |- context [lb_apply ?a ?b ?c ?d] => destruct (lb_apply a b c d) as [[ok q'] ds'] end. discriminate. }
    destruct dir as [[[[[τ0 q] nJ] ds1] c2]|].
    2: { destruct (Hd eq_refl) as (A & B & C). rewrite (HG A B) in C. discriminate. }
    match goal with |- context [lsloop ls_fuel q ?τi ?dng ?l0] => pose proof (ls_do_gn_cases q τi dng ls_fuel l0) as Hls; destruct (lsloop ls_fuel q τi dng l0) as [l|l|]; [| |exact I] end.
    - match goal with |- match (let '(ds3, rej) := ?dr in _) with _ => _ end => destruct dr as [ds3 rej] end.
      unfold gn_inv. cbn [st_do_gn ls_do_gn] in *. intros A B. rewrite A, B in Hls. rewrite Nat.mod_1_r in Hls. cbn in Hls.
      destruct Hls as [E|E]; exact E.
    - unfold gn_inv. cbn [st_do_gn ls_do_gn] in *. intros A B. rewrite A, B in Hls. rewrite Nat.mod_1_r in Hls. cbn in Hls.
      destruct Hls as [E|E]; exact E.
  Qed.

  Lemma loop_no_logic_error : forall fuel s, gn_inv s -> loop_ fuel s <> ThrewLogic.
  Proof.
    induction fuel as [|fuel IH]; intros s HG; cbn [loop]; [discriminate|].
    pose proof (pass_gn_inv s HG) as Hp. destruct (pass_ s) as [o'|s'| | |]; try discriminate; [now apply IH|contradiction].
  Qed.
  Theorem run_no_logic_error fuel : run_ fuel <> ThrewLogic.
  Proof.
    unfold panoc_ocp. destruct initL as [[[i0 nx0] qr0] c0].
    destruct (negb (nfinite (iL i0))); [discriminate|].
    destruct (initqub ls_fuel (first_it i0) (inc_fwd c0) stats0) as [[[i3 c1] s1]|]; [|discriminate].
    apply loop_no_logic_error. unfold gn_inv. cbn [st_do_gn]. intros A B. rewrite A, B. reflexivity.
  Qed.
End Proofs.
