(* Properties_PANOC.v — loop invariants of the WHOLE PANOC solver loop (Panoc.panoc = PANOCSolver::operator()), over R,
   for every problem oracle (ψ, ŷ, ∇ψ, ∇L arbitrary functions), every direction provider (oracle), every stop / clock oracle and
   every parameter set.  Only `exact` + Print Assumptions here; the proofs are in PanocProofs.v.  The whole-run correspondence
   (Corr_PANOC.chkpanoc, lib/vf/props/PANOC.py) ties Panoc.panoc at binary64 to the real solver. *)
From Coq Require Import Reals List ZArith Bool Lra.
From Flocq Require Import Raux.
From Alpaqa Require Import Num NumR Vec Prox ProxProofs SolverStatus SolverKernels SolverKernelsProofs DescentProofs
                           StopChain StopChainProofs KktProofs Panoc PanocProofs.
Import ListNotations.
Local Open Scope R_scope.

Section PANOC.
  (* the outside world: nothing is assumed about any of these *)
  Variable psi_grad_full : list R -> R * list R * list R.   (* eval_ψ_grad_ψ: (ψ, ∇ψ, work_m) *)
  Variable psi_yhat : list R -> R * list R.                 (* eval_ψ: (ψ, ŷ) *)
  Variable grad_L : list R -> list R -> list R.             (* eval_grad_L *)
  Variable grad_psi : list R -> list R.                     (* eval_grad_ψ (initial Lipschitz estimate) *)
  Variables (lb ub : list (option R)) (l1 : list R).        (* C and the l1 weights of the prox step *)
  Variable dir_apply : nat -> iterate (T:=R) -> option (list R).
  Variable has_initial : bool.
  Variable stop_req : counters -> bool.                     (* stop_requested() at each poll *)
  Variable time_up : counters -> bool.
  Variable P : params (T:=R).
  Variables (x_in y_in Σ errz_in : list R).
  Variable ls_fuel : nat.

  Notation run := (panoc psi_grad_full psi_yhat grad_L grad_psi lb ub l1 dir_apply has_initial stop_req time_up P x_in y_in Σ errz_in ls_fuel).
  Notation Consistent := (consistent psi_grad_full psi_yhat grad_L lb ub l1 P).
  Notation Reachable := (reachable psi_grad_full psi_yhat grad_L grad_psi lb ub l1 dir_apply has_initial stop_req time_up P x_in y_in Σ errz_in ls_fuel).
  Notation Check_iterate := (check_iterate grad_L P).
  Notation Glrel0 := (glrel0 psi_grad_full grad_psi P x_in).
  Notation Qub_ok := (qub_ok P).
  Notation Rec_ok := (rec_ok psi_grad_full psi_yhat grad_L grad_psi lb ub l1 P x_in).
  Notation Chain := (chain P).
  Notation Desc := (desc P).
  Notation Linit := (L_init psi_grad_full grad_psi P x_in).
  Notation Psi_hat_of := (psi_hat_of psi_grad_full psi_yhat P).
  Notation Is_gradh := (is_gradh psi_grad_full grad_L P).
  Notation Val_x := (val_x psi_grad_full psi_yhat grad_L P).

  (* (a)+(c)+(b)+(e): at EVERY evaluation of the stop check — after a completed iteration as well as after a line search that a stop
     request interrupted — the iterate the check looks at is consistent, satisfies the QUB test or has L >= L_max, has (γ, L) obtained
     from the initial pair by halvings/doublings only, carries ∇ψ(x̂) if the criterion needs it, and k <= max_iter *)
  Theorem PANOC_invariant_at_every_stop_check : forall s, Reachable s ->
    Consistent (Check_iterate s) /\ Qub_ok (Check_iterate s) /\ Glrel0 (Check_iterate s) /\
    (need_gradh P = true -> ihave (Check_iterate s) = true) /\ (st_k s <= p_max_iter P)%nat.
  Proof. exact (reachable_check psi_grad_full psi_yhat grad_L grad_psi lb ub l1 dir_apply has_initial stop_req time_up P x_in y_in Σ errz_in ls_fuel). Qed.

  (* what `consistent` says, spelled out *)
  Theorem PANOC_consistent_means : forall i : iterate (T:=R), Consistent i ->
    ixh i = vadd (ix i) (ip i) /\
    eval_prox_grad_step lb ub l1 (igam i) (ix i) (igrad i) = (ixh i, ip i, ih i) /\
    ipp i = vsqnorm (ip i) /\ igp i = vdot (ip i) (igrad i) /\
    (ipsih i, iyh i) = Psi_hat_of (ixh i) /\
    (ihave i = true -> Is_gradh (ixh i) (iyh i) (igradh i)) /\
    Val_x (ix i) (ipsi i) (igrad i).
  Proof. exact (consistent_explicit psi_grad_full psi_yhat grad_L grad_psi lb ub l1 dir_apply has_initial stop_req time_up P x_in y_in Σ errz_in ls_fuel). Qed.

  (* hypothesis needed (and why): take_safe_step re-uses ψ(x̂ₖ), ∇ψ(x̂ₖ) = eval_grad_L(x̂ₖ, ŷ) as ψ(xₖ₊₁), ∇ψ(xₖ₊₁); they are "the values
     of eval_ψ_grad_ψ at xₖ₊₁" exactly when the problem's evaluation routes agree with each other *)
  Theorem PANOC_consistent_under_coherent_oracles : forall i : iterate (T:=R),
    coherent psi_grad_full psi_yhat grad_L P -> Consistent i ->
    (ipsi i, igrad i) = psi_grad psi_grad_full (ix i) /\ (ihave i = true -> igradh i = snd (psi_grad psi_grad_full (ixh i))).
  Proof. exact (consistent_coherent psi_grad_full psi_yhat grad_L grad_psi lb ub l1 dir_apply has_initial stop_req time_up P x_in y_in Σ errz_in ls_fuel). Qed.

  (* (b) γ·L *)
  Theorem PANOC_gamma_times_L : forall i : iterate (T:=R), Linit <> 0 -> Glrel0 i -> igam i * iL i = p_Lgamma P.
  Proof. exact (glrel0_product_factor psi_grad_full psi_yhat grad_L grad_psi lb ub l1 dir_apply has_initial stop_req time_up P x_in y_in Σ errz_in ls_fuel). Qed.
  Theorem PANOC_gamma_nonincreasing : forall a b : iterate (T:=R), halved a b -> 0 < igam a -> 0 < igam b <= igam a.
  Proof. exact (halved_nonincreasing psi_grad_full psi_yhat grad_L grad_psi lb ub l1 dir_apply has_initial stop_req time_up P x_in y_in Σ errz_in ls_fuel). Qed.

  (* (c) *)
  Theorem PANOC_qub_or_Lmax : forall i : iterate (T:=R), Qub_ok i ->
    p_Lmax P <= iL i \/ ipsih i <= ipsi i + igp i + 1 / 2 * iL i * ipp i + (1 + Rabs (ipsi i)) * p_qub_tol P.
  Proof. exact (qub_ok_explicit psi_grad_full psi_yhat grad_L grad_psi lb ub l1 dir_apply has_initial stop_req time_up P x_in y_in Σ errz_in ls_fuel). Qed.

  (* whole runs: every progress-callback record is ok, every consecutive pair is linked (γ only halved, k+1, descent facts),
     the last record is the final stop check *)
  Theorem PANOC_records : forall fuel o, run fuel = Done o ->
    Forall Rec_ok (out_log o) /\ Chain (rev (out_log o)) /\
    exists cf, hd_error (rev (out_log o)) = Some (mkCb (out_iterations o) cf [] (- 1) (out_eps o) (out_status o)) /\ Consistent cf.
  Proof. exact (panoc_records psi_grad_full psi_yhat grad_L grad_psi lb ub l1 dir_apply has_initial stop_req time_up P x_in y_in Σ errz_in ls_fuel). Qed.

  (* (d) descent between consecutive reported iterates, constants of C05; default recompute_last_prox_step_after_stepsize_change = false *)
  Theorem PANOC_descent_accelerated : forall r r' : cbrec (T:=R), Desc r r' ->
    p_recompute P = false -> p_force_ls P = false -> 0 < r_tau r ->
    let a := r_it r in
    it_fbe (r_it r') <= it_fbe a - p_beta P * (1 - igam a * iL a) / (2 * igam a) * ipp a + (1 + Rabs (it_fbe a)) * p_ls_tol P.
  Proof. exact (desc_accelerated psi_grad_full psi_yhat grad_L grad_psi lb ub l1 dir_apply has_initial stop_req time_up P x_in y_in Σ errz_in ls_fuel). Qed.
  Theorem PANOC_descent_safe_step : forall r r' : cbrec (T:=R), Desc r r' -> Rec_ok r -> Rec_ok r' ->
    p_recompute P = false -> l1 = [] ->
    r_tau r = 0 -> iL (r_it r) < p_Lmax P -> 0 < igam (r_it r) -> 0 < igam (r_it r') ->
    length ub = length lb -> length (ix (r_it r)) = length lb -> length (igrad (r_it r)) = length lb ->
    length (igrad (r_it r')) = length lb -> Forall2 box_ne lb ub ->
    let a := r_it r in
    it_fbe (r_it r') <= it_fbe a - (1 - igam a * iL a) / (2 * igam a) * ipp a + (1 + Rabs (ipsi a)) * p_qub_tol P.
  Proof. exact (desc_safe psi_grad_full psi_yhat grad_L grad_psi lb ub l1 dir_apply has_initial stop_req time_up P x_in y_in Σ errz_in ls_fuel). Qed.

  (* (e) *)
  Theorem PANOC_status_clauses : forall fuel o, run fuel = Done o ->
    (out_iterations o <= p_max_iter P)%nat /\
    out_status o <> StBusy /\
    (out_status o = StMaxIter -> out_iterations o = p_max_iter P) /\
    (out_status o = StConverged <-> out_eps o <= eff_tol (o_tol P)) /\
    (out_status o = StInterrupted -> exists c, stop_req c = true) /\
    (out_status o = StMaxTime -> exists c, time_up c = true) /\
    (out_status o = StNoProgress -> exists np, (p_max_no_progress P < np)%nat).
  Proof. exact (panoc_status_clauses psi_grad_full psi_yhat grad_L grad_psi lb ub l1 dir_apply has_initial stop_req time_up P x_in y_in Σ errz_in ls_fuel). Qed.

  (* (f) exit: C03's relations *)
  Theorem PANOC_exit : forall fuel o, run fuel = Done o ->
    exists cf : iterate (T:=R), Consistent cf /\ Qub_ok cf /\ Glrel0 cf /\ (need_gradh P = true -> ihave cf = true) /\
      out_eps o = it_eps lb ub l1 P cf /\
      (overwrites (out_status o) (o_always P) = true ->
         out_x o = ixh cf /\ ixh cf = vadd (ix cf) (ip cf) /\
         out_y o = snd (psi_yhat (out_x o)) /\
         out_errz o = match errz_in with [] => [] | _ => vdiv (vsub (out_y o) y_in) Σ end) /\
      (overwrites (out_status o) (o_always P) = false -> out_x o = x_in /\ out_y o = y_in /\ out_errz o = errz_in).
  Proof. exact (panoc_exit psi_grad_full psi_yhat grad_L grad_psi lb ub l1 dir_apply has_initial stop_req time_up P x_in y_in Σ errz_in ls_fuel). Qed.

  (* (f) inner_contract_panoc of DESIGN §4 / C01 *)
  Theorem PANOC_inner_contract : forall fuel o, run fuel = Done o ->
    out_status o = StConverged -> p_crit P = ApproxKKT -> l1 = [] ->
    exists (x grad gradh : list R) (γ : R),
      let step := proj_grad_step lb ub γ x grad in
      out_x o = fst (fst step) /\
      out_y o = snd (psi_yhat (out_x o)) /\
      Is_gradh (out_x o) (snd (Psi_hat_of (out_x o))) gradh /\
      out_errz o = match errz_in with [] => [] | _ => vdiv (vsub (out_y o) y_in) Σ end /\
      out_eps o = vnorminf (kkt_residual γ (snd (fst step)) grad gradh) /\
      out_eps o <= eff_tol (o_tol P) /\
      (exists ψ, Val_x x ψ grad) /\
      (0 < p_Lgamma P -> 0 < Linit -> 0 < γ) /\
      (Linit <> 0 -> exists L, γ * L = p_Lgamma P).
  Proof. exact (panoc_inner_contract psi_grad_full psi_yhat grad_L grad_psi lb ub l1 dir_apply has_initial stop_req time_up P x_in y_in Σ errz_in ls_fuel). Qed.

  (* (g) termination of the line search: with a finite L_max (reached from L after nL doublings), L > 0, an update factor in [0,1]
     whose nT-th power is below min_linesearch_coefficient (> 0), `while (!stop_requested)` makes at most (nL+1)(nT+3) passes;
     hence no pass of the outer loop of any run reports OutOfFuel when ls_fuel is at least that bound.
     (The OUTER loop: k <= max_iter bounds completed iterations — theorem (e) — but a stop oracle that alternates between polls can
      interrupt line searches forever; with the real, sticky flag the next stop check returns. Not proved as a fuel bound.) *)
  Theorem PANOC_linesearch_terminates : forall (cL : R) (nL nT : nat) (q : list R) (τi : R),
    0 < cL -> p_Lmax P <= cL * 2 ^ nL -> 0 <= p_tau_factor P <= 1 -> p_tau_factor P ^ nT < p_tau_min P -> τi = 0 \/ τi = 1 ->
    forall (curr next : iterate (T:=R)) upd c st, iL curr = cL -> forall fuel, (ls_pass_bound nL nT <= fuel)%nat ->
    ls_loop psi_grad_full psi_yhat grad_L lb ub l1 stop_req P fuel q τi
            (mkLs curr (set_gamma_L next (igam curr) (iL curr)) τi (- 1) upd false c st) <> LsFuel.
  Proof. exact (ls_terminates psi_grad_full psi_yhat grad_L grad_psi lb ub l1 dir_apply has_initial stop_req time_up P x_in y_in Σ errz_in ls_fuel). Qed.
  Theorem PANOC_pass_never_out_of_fuel : forall (nL nT : nat) s, Reachable s ->
    0 < Linit -> p_Lmax P <= Linit * 2 ^ nL ->
    0 <= p_tau_factor P <= 1 -> p_tau_factor P ^ nT < p_tau_min P ->
    (ls_pass_bound nL nT <= ls_fuel)%nat ->
    pass psi_grad_full psi_yhat grad_L lb ub l1 dir_apply has_initial stop_req time_up P x_in y_in Σ errz_in ls_fuel s <> PFuel.
  Proof. exact (reachable_pass_never_out_of_fuel psi_grad_full psi_yhat grad_L grad_psi lb ub l1 dir_apply has_initial stop_req time_up P x_in y_in Σ errz_in ls_fuel). Qed.
End PANOC.

(* the data of the contract give C01's stationarity bound: dist∞(-∇ψ(x̂), N_C(x̂)) <= tolerance *)
Theorem PANOC_contract_gives_stationarity : forall lb ub γ (x grad gradh : list R) (tol : R) n,
  0 < γ -> length lb = n -> length ub = n -> length x = n -> length grad = n -> length gradh = n ->
  (forall i, (i < n)%nat -> box_ne (nth i lb None) (nth i ub None)) ->
  let step := proj_grad_step lb ub γ x grad in
  let xh := fst (fst step) in let p := snd (fst step) in
  vnorminf (kkt_residual γ p grad gradh) <= tol ->
  forall i, (i < n)%nat ->
    exists r, (forall u, in_box (nth i lb None) (nth i ub None) u -> r * (u - nth i xh 0) <= 0) /\
              Rabs (- nth i gradh 0 - r) <= tol.
Proof. exact approx_kkt_stationarity. Qed.

Print Assumptions PANOC_invariant_at_every_stop_check.
Print Assumptions PANOC_consistent_means.
Print Assumptions PANOC_consistent_under_coherent_oracles.
Print Assumptions PANOC_gamma_times_L.
Print Assumptions PANOC_gamma_nonincreasing.
Print Assumptions PANOC_qub_or_Lmax.
Print Assumptions PANOC_records.
Print Assumptions PANOC_descent_accelerated.
Print Assumptions PANOC_descent_safe_step.
Print Assumptions PANOC_status_clauses.
Print Assumptions PANOC_exit.
Print Assumptions PANOC_inner_contract.
Print Assumptions PANOC_contract_gives_stationarity.
Print Assumptions PANOC_linesearch_terminates.
Print Assumptions PANOC_pass_never_out_of_fuel.

(* non-vacuity: the hypothesis `run fuel = Done o` is satisfiable over R (a concrete run: constant oracles, max_iter = 0) *)
Definition nv_P : params (T:=R) := mkParams 0 10 1 (1/1000000) (1/1000000) (1/2) 1 1 ProjGradNorm 0 0 (1/2) (1/2) (1/4) false false false false true 0.
Definition nv_run := panoc (T:=R) (fun _ => (0, [0], [])) (fun _ => (0, [])) (fun _ _ => [0]) (fun _ => [0]) [None] [None] []
                        (fun _ _ => None) false (fun _ => false) (fun _ => false) nv_P [0] [] [] [] 1 1.
Example PANOC_nonvacuous : exists o, nv_run = Done o /\ out_iterations o = 0%nat /\ out_status o <> StBusy /\ out_x o = [0 + - (1 / 2 / 1) * 0].
Proof.
  unfold nv_run, panoc, init_L, nv_P. cbn [p_L0 fst snd psi_grad].
  change (@nleb R NumR 1 (@n0 R NumR)) with (Rle_bool 1 0).
  destruct (Rle_bool_spec 1 0) as [H|_]; [lra|].
  cbn [iL nfinite NumR negb]. 
  cbv [eval_prox eval_psih set_gamma_L p_eager cnt_psih p_Lgamma iL igam ix igrad ixh ip iyh ipsi ipsih ipp igp ih ihave igradh
       eval_prox_grad_step proj_grad_step map5 proj_step1 clamp_hi clamp_lo osub option_map vadd map2 fst snd].
  cbn [init_qub iL p_Lmax]. change (@nltb R NumR 1 1) with (Rlt_bool 1 1).
  destruct (Rlt_bool_spec 1 1) as [H|_]; [lra|]. cbn [andb].
  cbn [loop]. unfold pass. cbn [st_curr ihave need_gradh p_crit crit_needs_gradh andb st_cnt st_k st_np p_max_iter p_max_no_progress o_tol].
  unfold stop_status_helpers. cbn [Nat.eqb].
  match goal with |- context [if nleb ?a ?b then _ else _] => destruct (nleb a b) end.
  all: cbv [exit_block overwrites o_always ixh iyh]; eexists; split; [reflexivity|]; cbn [out_iterations out_status out_x]; repeat split; try discriminate.
Qed.
