(* Corr_C15.v — correspondence cases for C15: the SAME model definitions (Prox.v) run at binary64
   and are compared with what the C++ implementation returned. *)
From Coq Require Import Floats List ZArith Bool.
From Alpaqa Require Import Num NumF Vec Prox.
Import ListNotations.

Definition lbs (l : list float) := map lb_of_float l.
Definition ubs (l : list float) := map ub_of_float l.
Definition nat_list_eqb (a b : list nat) : bool := list_agree Nat.eqb a b.

Inductive c15case :=
| CStep (lb ub l1 : list float) (γ : float) (x g xh p : list float) (h : float) (J : list nat)
| CMult (k : nat) (lb ub : list float) (M : float) (y yout : list float)
| CL1s (λ γ : float) (v out : list float) (h : float)
| CL1v (λ : list float) (γ : float) (v out : list float) (h : float)
| CL1c (λ γ : float) (v out : list float)
| CBoxProx (lb ub v out : list float)
| CBoxStep (lb ub : list float) (γf : float) (x d out p : list float)
| CProjDiff (lb ub z out : list float).

Fixpoint pairs (v : list float) : list (float * float) :=
  match v with a :: b :: v' => (a, b) :: pairs v' | _ => [] end.
Fixpoint unpairs (v : list (float * float)) : list float :=
  match v with (a, b) :: v' => a :: b :: unpairs v' | [] => [] end.

Definition model15 (c : c15case) : list float * list float * float * list nat :=
  match c with
  | CStep lb ub l1 γ x g _ _ _ _ =>
      let '(xh, p, h) := eval_prox_grad_step (lbs lb) (ubs ub) l1 γ x g in
      (xh, p, h, inactive_indices (lbs lb) (ubs ub) l1 γ x g)
  | CMult k lb ub M y _ => (proj_multipliers k (lbs lb) (ubs ub) M y, [], 0%float, [])
  | CL1s λ γ v _ _ => let '(o, h) := l1_prox_scal λ γ v in (o, [], h, [])
  | CL1v λ γ v _ _ => let '(o, h) := l1_prox_vec λ γ v in (o, [], h, [])
  | CL1c λ γ v _ => (unpairs (map (l1c_prox1 λ γ) (pairs v)), [], 0%float, [])
  | CBoxProx lb ub v _ => (proj (lbs lb) (ubs ub) v, [], 0%float, [])
  | CBoxStep lb ub γf x d _ _ =>
      let p := map5 (fun l u _ xi di => box_prox_step1 l u γf xi di) (lbs lb) (ubs ub) x x d in
      (vadd x p, p, 0%float, [])
  | CProjDiff lb ub z _ => (projdiff (lbs lb) (ubs ub) z, [], 0%float, [])
  end.

Definition chk15 (c : c15case) : bool :=
  let '(o1, o2, h, J) := model15 c in
  match c with
  | CStep _ _ _ _ _ _ xh p hh JJ => vfeq o1 xh && vfeq o2 p && feq h hh && nat_list_eqb J JJ
  | CMult _ _ _ _ _ yout => vfeq o1 yout
  | CL1s _ _ _ out hh => vfeq o1 out && feq h hh
  | CL1v _ _ _ out hh => vfeq o1 out && feq h hh
  | CL1c _ _ _ out => vfeq o1 out
  | CBoxProx _ _ _ out => vfeq o1 out
  | CBoxStep _ _ _ _ _ out p => vfeq o1 out && vfeq o2 p
  | CProjDiff _ _ _ out => vfeq o1 out
  end.
