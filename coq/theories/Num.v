(* Num.v — the number-system interface all numeric models are written against.
   One model definition, two instances:
     NumR  (Coq reals)        : what the theorems are about
     NumF  (primitive floats) : what is executed against the C++ implementation
   No proofs here. *)
From Coq Require Import ZArith List Bool.
Import ListNotations.

Class Num (T : Type) := {
  n0 : T; n1 : T;
  nadd : T -> T -> T; nsub : T -> T -> T; nmul : T -> T -> T; ndiv : T -> T -> T;
  nopp : T -> T; nabs : T -> T; nsqrt : T -> T;
  nleb : T -> T -> bool; nltb : T -> T -> bool; neqb : T -> T -> bool;
  nofZ : Z -> T;
  nfinite : T -> bool;       (* isfinite: always true over R *)
  nisnan : T -> bool         (* always false over R *)
}.

Declare Scope num_scope.
Delimit Scope num_scope with num.
Infix "+" := nadd : num_scope.
Infix "-" := nsub : num_scope.
Infix "*" := nmul : num_scope.
Infix "/" := ndiv : num_scope.
Notation "- x" := (nopp x) : num_scope.
Infix "<=?" := nleb : num_scope.
Infix "<?" := nltb : num_scope.
Infix "=?" := neqb : num_scope.

Section Derived.
  Context {T : Type} `{Num T}.
  Local Open Scope num_scope.

  Definition n2 : T := n1 + n1.
  Definition nhalf (x : T) : T := x / n2.

  (* Eigen's cwiseMax / cwiseMin and std::max / std::min on scalars:
     max(a,b) = (a < b) ? b : a ;  min(a,b) = (b < a) ? b : a *)
  Definition cmax (a b : T) : T := if a <? b then b else a.
  Definition cmin (a b : T) : T := if b <? a then b else a.
  (* std::fmax / std::fmin: NaN-ignoring *)
  Definition nfmax (a b : T) : T := if nisnan a then b else if nisnan b then a else cmax a b.
  Definition nfmin (a b : T) : T := if nisnan a then b else if nisnan b then a else cmin a b.

  (* Optional (possibly infinite) bounds: None = -inf for lower, +inf for upper *)
  Definition clamp_lo (lb : option T) (v : T) : T :=
    match lb with None => v | Some l => cmax v l end.
  Definition clamp_hi (ub : option T) (v : T) : T :=
    match ub with None => v | Some u => cmin v u end.

  Definition nsq (x : T) : T := x * x.
End Derived.
