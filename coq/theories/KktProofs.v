(* KktProofs.v — from the solvers' exit data to approximate KKT conditions of the user's problem (C01, C02). *)
From Coq Require Import Reals List ZArith Lra Lia Bool Psatz.
From Flocq Require Import Raux.
From Alpaqa Require Import Num NumR Vec Prox ProxProofs ProxVec SolverStatus SolverKernels SolverKernelsProofs.
Import ListNotations.
Local Open Scope R_scope.

(* ‖v‖∞ as computed by the code (left fold of max over |v_i|) bounds every component *)
Lemma fold_max_ge_acc (l : list R) (a : R) :
  a <= fold_left (fun acc x => if Rlt_bool acc x then x else acc) l a.
Proof.
  revert a; induction l as [|x l IH]; intros a; cbn [fold_left]; [lra|].
  destruct (Rlt_bool_spec a x); eapply Rle_trans; [|apply IH| |apply IH]; lra.
Qed.
Lemma fold_max_ge_elem (l : list R) (a x : R) : In x l ->
  x <= fold_left (fun acc x => if Rlt_bool acc x then x else acc) l a.
Proof.
  revert a; induction l as [|y l IH]; intros a Hin; [destruct Hin|]. destruct Hin as [E|Hin]; cbn [fold_left].
  - subst y. destruct (Rlt_bool_spec a x); eapply Rle_trans; [|apply fold_max_ge_acc| |apply fold_max_ge_acc]; lra.
  - apply IH, Hin.
Qed.
Lemma vnorminf_ge_component (v : list R) (x : R) : In x v -> Rabs x <= vnorminf v.
Proof.
  intros Hin. unfold vnorminf, vmaxcoeff, redux, vabs.
  assert (Hin' : In (Rabs x) (map (fun t => nabs t) v)) by (apply in_map_iff; exists x; split; [reflexivity|assumption]).
  destruct (map (fun t => nabs t) v) as [|a l] eqn:E; [contradiction|].
  change (Rabs x <= fold_left (fun acc t => if Rlt_bool acc t then t else acc) l a).
  destruct Hin' as [<-|Hl]; [apply fold_max_ge_acc|apply fold_max_ge_elem, Hl].
Qed.
Lemma vnorminf_le_bound (v : list R) (t : R) : vnorminf v <= t -> Forall (fun x => Rabs x <= t) v.
Proof. intros Hb. apply Forall_forall. intros x Hin. eapply Rle_trans; [apply vnorminf_ge_component, Hin|exact Hb]. Qed.

(* ---------- constraint side: from ŷ = Σ(ζ - Π_D ζ), e = (ŷ - y)/Σ ---------- *)
(* g(x̂) - e lies in D, hence dist(g(x̂), D) <= |e| *)
Lemma g_minus_e_in_D lb ub g y σ : 0 < σ -> box_ne lb ub ->
  in_box lb ub (g - errz1 (yhat1 lb ub g y σ) y σ).
Proof. intros Hs Hne. rewrite errz_identity by assumption. replace (g - (g - proj1 lb ub (g + y / σ))) with (proj1 lb ub (g + y / σ)) by ring. now apply proj1_in_box. Qed.

Lemma dist_g_D_le_e lb ub g y σ : 0 < σ -> box_ne lb ub ->
  exists z, in_box lb ub z /\ Rabs (g - z) = Rabs (errz1 (yhat1 lb ub g y σ) y σ).
Proof.
  intros Hs Hne. exists (g - errz1 (yhat1 lb ub g y σ) y σ). split; [now apply g_minus_e_in_D|].
  f_equal. ring.
Qed.

(* complementarity: a positive multiplier only where g is within |e| of the upper bound (symmetric for negative) *)
Lemma yhat_pos_near_upper lb ub g y σ : 0 < σ -> box_ne lb ub -> 0 < yhat1 lb ub g y σ ->
  exists u, ub = Some u /\ g - u = errz1 (yhat1 lb ub g y σ) y σ.
Proof.
  intros Hs Hne Hy. destruct (yhat_complementarity lb ub g y σ Hs Hne) as [Hp _]. destruct (Hp Hy) as (u & Eu & Hz).
  exists u. split; [assumption|]. rewrite errz_identity by assumption. subst ub.
  unfold proj1. destruct lb as [l|]; cbn [clamp_lo clamp_hi box_ne] in *; numR; rbool; lra.
Qed.
Lemma yhat_neg_near_lower lb ub g y σ : 0 < σ -> box_ne lb ub -> yhat1 lb ub g y σ < 0 ->
  exists l, lb = Some l /\ g - l = errz1 (yhat1 lb ub g y σ) y σ.
Proof.
  intros Hs Hne Hy. destruct (yhat_complementarity lb ub g y σ Hs Hne) as [_ Hn]. destruct (Hn Hy) as (l & El & Hz).
  exists l. split; [assumption|]. rewrite errz_identity by assumption. subst lb.
  unfold proj1. destruct ub as [u|]; cbn [clamp_lo clamp_hi box_ne] in *; numR; rbool; lra.
Qed.

(* ---------- stationarity side, vector level ---------- *)
(* If the reported ApproxKKT residual ε = ‖p/γ + (∇ψ(x) - ∇ψ(x̂))‖∞ is <= tol, then for every component i there is r_i in the
   normal cone of C at x̂_i with |-∇ψ(x̂)_i - r_i| <= tol;  ∇ψ(x̂) = ∇f(x̂) + ∇g(x̂) ŷ by construction (eval_grad_L(x̂, ŷ)). *)
Theorem approx_kkt_stationarity lb ub γ (x grad gradh : list R) (tol : R) n :
  0 < γ -> length lb = n -> length ub = n -> length x = n -> length grad = n -> length gradh = n ->
  (forall i, (i < n)%nat -> box_ne (nth i lb None) (nth i ub None)) ->
  let step := proj_grad_step lb ub γ x grad in
  let xh := fst (fst step) in let p := snd (fst step) in
  vnorminf (kkt_residual γ p grad gradh) <= tol ->
  forall i, (i < n)%nat ->
    exists r, (forall u, in_box (nth i lb None) (nth i ub None) u -> r * (u - nth i xh 0) <= 0) /\
              Rabs (- nth i gradh 0 - r) <= tol.
Proof.
  intros Hg Hlb Hub Hx Hgr Hgh Hne step xh p Heps i Hi.
  destruct (proj_grad_step_nth lb ub γ x grad n Hlb Hub Hx Hgr i Hi) as (Exh & Ep & _).
  fold step in Exh, Ep. fold xh in Exh, Ep. fold p in Ep.
  destruct (approx_stationarity_component (nth i lb None) (nth i ub None) γ (nth i x 0) (nth i grad 0) (nth i gradh 0) Hg (Hne i Hi))
    as (r & Hcone & Habs).
  exists r. split.
  - intros u Hu. rewrite Exh. apply Hcone, Hu.
  - rewrite Habs.
    (* the i-th component of the residual vector *)
    assert (Hlen_p : length p = n) by (apply (proj_grad_step_length lb ub γ x grad n Hlb Hub Hx Hgr)).
    set (res := kkt_residual γ p grad gradh) in *.
    assert (Hres_i : nth i res 0 = nth i p 0 / γ + (nth i grad 0 - nth i gradh 0)).
    { unfold res, kkt_residual, vadd, vscale, vsub.
      rewrite (map2_nth _ _ _ n i 0 0 0); [| rewrite map_length; assumption | apply map2_length; assumption | assumption].
      rewrite (map2_nth _ grad gradh n i 0 0 0) by assumption.
      rewrite (nth_indep (map (fun x0 : R => nmul (ndiv n1 γ) x0) p) 0 ((fun x0 : R => nmul (ndiv n1 γ) x0) 0))
        by (rewrite map_length; lia).
      rewrite map_nth. numR. field. lra. }
    assert (Hin : In (nth i res 0) res).
    { apply nth_In. unfold res, kkt_residual, vadd. rewrite (map2_length _ _ _ n); [assumption| |].
      - unfold vscale. rewrite map_length. assumption.
      - unfold vsub. apply map2_length; assumption. }
    pose proof (vnorminf_ge_component res _ Hin) as Hc. rewrite Hres_i in Hc.
    rewrite Ep, Exh in Hc. eapply Rle_trans; [exact Hc|exact Heps].
Qed.

(* ---------- the library's own KKT-error utility (problem/kkt-error.hpp) ---------- *)
Lemma proj1_nonexpansive lb ub a b : box_ne lb ub -> Rabs (proj1 lb ub a - proj1 lb ub b) <= Rabs (a - b).
Proof.
  intros Hne. unfold proj1. destruct lb as [l|], ub as [u|]; cbn [clamp_lo clamp_hi box_ne] in *; numR;
    rbool; unfold Rabs; repeat destruct (Rcase_abs _); lra.
Qed.

(* a point of C is the projection of itself shifted by any element of its normal cone *)
Lemma proj1_of_normal_shift lb ub x r : in_box lb ub x ->
  (forall u, in_box lb ub u -> r * (u - x) <= 0) -> proj1 lb ub (x + r) = x.
Proof.
  intros [Hl Hu] Hn.
  destruct (Rtotal_order r 0) as [Hneg|[Hz|Hpos]].
  - (* r < 0: x must sit on its lower bound *)
    destruct lb as [l|].
    + cbn in Hl. destruct (Rle_lt_or_eq_dec _ _ Hl) as [Hlt|Heq].
      * exfalso. specialize (Hn l). assert (in_box (Some l) ub l).
        { split; cbn; [lra|]. destruct ub; cbn in *; lra. }
        specialize (Hn H). nra.
      * subst x. unfold proj1. destruct ub as [u|]; cbn [clamp_lo clamp_hi] in *; numR; rbool; cbn in *; lra.
    + exfalso. specialize (Hn (x - 1)). assert (in_box None ub (x - 1)).
      { split; cbn; [exact I|]. destruct ub; cbn in *; lra. }
      specialize (Hn H). nra.
  - subst r. rewrite Rplus_0_r. apply proj1_fix. split; assumption.
  - destruct ub as [u|].
    + cbn in Hu. destruct (Rle_lt_or_eq_dec _ _ Hu) as [Hlt|Heq].
      * exfalso. specialize (Hn u). assert (in_box lb (Some u) u).
        { split; cbn; [|lra]. destruct lb; cbn in *; lra. }
        specialize (Hn H). nra.
      * subst x. unfold proj1. destruct lb as [l|]; cbn [clamp_lo clamp_hi] in *; numR; rbool; cbn in *; lra.
    + exfalso. specialize (Hn (x + 1)). assert (in_box lb None (x + 1)).
      { split; cbn; [|exact I]. destruct lb; cbn in *; lra. }
      specialize (Hn H). nra.
Qed.

(* compute_kkt_error's stationarity ‖Π_C(x - ∇L) - x‖ (one component) is at most the distance of -∇L to the normal cone *)
Lemma kkt_utility_stationarity_le_dist lb ub x gL r : box_ne lb ub -> in_box lb ub x ->
  (forall u, in_box lb ub u -> r * (u - x) <= 0) ->
  Rabs (proj1 lb ub (x - gL) - x) <= Rabs (- gL - r).
Proof.
  intros Hne Hx Hn. rewrite <- (proj1_of_normal_shift lb ub x r Hx Hn) at 2.
  eapply Rle_trans; [apply proj1_nonexpansive, Hne|]. right. f_equal. ring.
Qed.
