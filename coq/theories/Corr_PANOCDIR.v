(* Corr_PANOCDIR.v — whole-run correspondence of the SHIPPED stacks: PanocDir.panocD at binary64, with the provider instances of
   Directions.v (LBFGSDirection / AndersonDirection / NoopDirection / StructuredLBFGSDirection), against
   PANOCSolver<LBFGSDirection | AndersonDirection | NoopDirection | StructuredLBFGSDirection>::operator() as run by
   harness/drv_solve.cpp (directions "lbfgs" / "anderson" / "noop" / "struclbfgs", parameters via the accel. and dir. option prefixes).
   Problem oracles: the drv_solve family and the default compositions, exactly as in Corr_PANOC.v (re-used from there);
   for StructuredLBFGS additionally the Hessian-vector members of the driver's VProblem (eval_hess_L_prod, eval_hess_ψ_prod) and the
   finite-difference product of panoc-helpers.tpp.  Every progress-callback record (x, x̂, p, q, τ, γ, L, ε, φγ, ψ, ∇ψ, ...), the final
   status / iterations / ε / outputs, all statistics counters incl. lbfgs_rejected, evaluation and callback counts must coincide;
   a provider exception (CBFGS with apply_masked, memory < 1, missing Hessian members) must be an exception of the model. *)
From Coq Require Import Floats List ZArith Bool Arith.
From Alpaqa Require Import Num NumF Vec Prox SolverStatus SolverKernels AugLag Lbfgs LMQR Panoc Corr_PANOC Directions PanocDir.
Import ListNotations.
Local Open Scope float_scope.

(* std::pow for the exponents the generators use (cbfgs.α / 2 ∈ {0, 1/2, 1, 2}) *)
Definition dpow (x e : float) : float :=
  if PrimFloat.eqb e 1 then x
  else if PrimFloat.eqb e 0x1p-1 then PrimFloat.sqrt x
  else if PrimFloat.eqb e 2 then x * x
  else if PrimFloat.eqb e 0 then 1
  else nan.

Definition cbrt_eps64 : float := 0x1.965fea53d6e3dp-18.    (* std::cbrt(2^-52) *)

(* ---------------------------------------------------------------- Hessian-vector members of drv_solve's VProblem *)
Section Hess.
  Variables (n : nat) (Q : list (list float)) (w : list float) (A : list (list float)) (d : list float).
  Variables (Dlb Dub : list float).
  Definition fupd (j : nat) (f : float -> float) (v : list float) : list float := upd_nth j f v.
  (* Hv = scale * (Q * v); Hv(i) += scale * 3 * w(i) * x(i) * x(i) * v(i) *)
  Definition hess_f (x : list float) (scale : float) (v : list float) : list float :=
    map3 (fun row wx vi => scale * vdot row v + scale * 3 * fst wx * snd wx * snd wx * vi) Q (combine w x) v.
  (* for i < m: Hv(i % n) += 2 * d(i) * y(i) * v(i % n) *)
  Definition hess_curv (yy : list float) (v Hv : list float) : list float :=
    fold_left (fun Hv idy => let '(i, di, yi) := idy in
                 let j := (i mod n)%nat in fupd j (fun a => a + 2 * di * yi * nth j v 0) Hv)
              (combine (combine (seq 0 (length d)) d) yy) Hv.
  Definition vp_hess_L_prod (x y : list float) (scale : float) (v : list float) : list float :=
    hess_curv y v (hess_f x scale v).
  (* eval_hess_ψ_prod of the driver *)
  Definition vp_hess_psi_prod (x y Σ : list float) (scale : float) (v : list float) : list float :=
    let g := vp_g n A d x in
    fold_left (fun Hv i =>
                 let σ := match Σ with [s] => s | _ => nth i Σ 0 end in
                 let ζ := nth i g 0 + nth i y 0 / σ in
                 let lo := nth i Dlb 0 in let hi := nth i Dub 0 in
                 let pr := cmin (cmax ζ lo) hi in
                 let yh := σ * (ζ - pr) in
                 let j := (i mod n)%nat in
                 let Hv1 := fupd j (fun a => a + 2 * nth i d 0 * yh * nth j v 0) Hv in
                 if (ζ <? lo) || (hi <? ζ) then
                   let Ji := fupd j (fun a => a + 2 * nth i d 0 * nth j x 0) (nth i A []) in
                   let dt := vdot Ji v in
                   map2 (fun h ji => h + σ * ji * dt) Hv1 Ji
                 else Hv1)
              (seq 0 (length y)) (hess_f x scale v).
End Hess.

(* ---------------------------------------------------------------- cases *)
Inductive dirsel :=
| SelNoop
| SelLbfgs (LP : Lbfgs.params float) (rescale : bool)
| SelAnderson (mem : nat) (mdf : float) (rescale : bool)
| SelStruct (LP : Lbfgs.params float) (hvf : float) (fd full_aug use_scaled : bool).

Inductive dcase :=
| DCase (n : nat) (Q : list (list float)) (c w : list float) (A : list (list float)) (d : list float)
        (Clb Cub Dlb Dub l1 : list float) (x0 y0 S0 : list float)
        (prm : Panoc.params (T:=float)) (sel : dirsel) (provide_hess : bool)
        (stop_eval stop_cb : Z) (time0 : bool) (fuel lsfuel : nat)
        (* what the implementation did *)
        (exc : bool)
        (status : status) (iterations : nat) (eps : float) (x_out y_out errz : list float)
        (ist : list nat)        (* stepsize_backtracks linesearch_backtracks linesearch_failures lbfgs_failures tau_1_accepted count_tau lbfgs_rejected *)
        (fst_ : list float)     (* sum_tau final_gamma final_psi final_h final_phi *)
        (evals cbs : nat) (recs : list xrec).

(* what the model did, independent of the provider's state type *)
Inductive summ :=
| SDone (o : outputs (T:=float)) (rej hcalls : nat)
| SNotFinite (L : float)
| SFuel
| SThrew (log : list (cbrec (T:=float))).

Definition summarize {D} (hc : D -> nat) (r : resultD D) : summ :=
  match r with
  | DoneD _ o => SDone (od_out _ o) (od_rej _ o) (hc (od_dir _ o))
  | NotFiniteLD _ L => SNotFinite L
  | OutOfFuelD _ => SFuel
  | ThrewD _ log => SThrew log
  end.

Definition run_dcase (cs : dcase) : summ :=
  match cs with
  | DCase n Q c w A d Clb Cub Dlb Dub l1 x0 y0 S0 prm sel ph se sc time0 fuel lsfuel _ _ _ _ _ _ _ _ _ _ _ _ =>
      let dlb := map lb_of_float Dlb in let dub := map ub_of_float Dub in
      let clb := map lb_of_float Clb in let cub := map ub_of_float Cub in
      let m := length y0 in
      let run {D} (ops : dirops float D) (d0 : D) :=
        panocD (o_psi_grad_full n Q c w A d dlb dub y0 S0) (o_psi_yhat n Q c w A d dlb dub y0 S0)
               (o_grad_L n Q c w A d) (o_grad_psi n Q c w A d dlb dub y0 S0)
               clb cub l1 D ops
               (fun cn => after se (evals_of m cn) || after sc (c_cb cn))
               (fun _ => time0)
               prm x0 y0 S0 (repeat nan m) lsfuel d0 fuel in
      match sel with
      | SelNoop => summarize (fun _ => 0%nat) (run noop_dir tt)
      | SelLbfgs LP rescale => summarize (fun _ => 0%nat) (run (lbfgs_dir n dpow LP rescale) lbfgs_unsized)
      | SelAnderson mem mdf rescale => summarize (fun _ => 0%nat) (run (anderson_dir n mem mdf rescale) (anderson_unsized mem mdf))
      | SelStruct LP hvf fd full use_scaled =>
          summarize (fun s => sd_hcalls s)
            (run (struct_dir n dpow LP clb cub l1 dlb dub
                             true ph ph true false          (* BoxConstrProblem: inactive indices, box D; VProblem: Hessian members iff provide_hess; no eval_grad_gi *)
                             (fun x y Σ => o_grad_psi n Q c w A d dlb dub y Σ x)
                             (vp_hess_L_prod n Q w d) (vp_hess_psi_prod n Q w A d Dlb Dub)
                             (vp_g n A d) (fun _ _ => [])
                             cbrt_eps64 hvf fd full use_scaled)
                 struct_unsized)
      end
  end.

(* evaluations of one approximate_hessian_vec_term call (finite differences: one eval_grad_ψ; exact: one Hessian member) *)
Definition hcost (m : nat) (sel : dirsel) : nat :=
  match sel with
  | SelStruct _ _ fd _ _ => if fd then match m with O => 1 | _ => 3 end else 1
  | _ => 0
  end.

Definition ist_ofD (o : outputs (T:=float)) (rej : nat) : list nat := ist_of o ++ [rej].

Definition chkpanocdir (cs : dcase) : bool :=
  match cs with
  | DCase n Q c w A d Clb Cub Dlb Dub l1 x0 y0 S0 prm sel ph se sc time0 fuel lsfuel
          exc status iterations eps x_out y_out errz ist fst_ evals cbs recs =>
      match run_dcase cs with
      | SDone o rej hc =>
          negb exc &&
          status_eqb (out_status o) status && Nat.eqb (out_iterations o) iterations && feq (out_eps o) eps &&
          vfeq (out_x o) x_out && vfeq (out_y o) y_out && vfeq (out_errz o) errz &&
          list_agree Nat.eqb (ist_ofD o rej) ist && vfeq (fst_of o) fst_ &&
          Nat.eqb (evals_of (length y0) (out_cnt o) + hc * hcost (length y0) sel) evals && Nat.eqb (c_cb (out_cnt o)) cbs &&
          list_agree rec_agree (map rec_of (out_log o)) recs
      | SNotFinite _ =>
          negb exc &&
          status_eqb StNotFinite status && Nat.eqb 0 iterations && feq infinity eps &&
          vfexact x0 x_out && vfexact y0 y_out && vfexact (repeat nan (length y0)) errz &&
          list_agree Nat.eqb [0; 0; 0; 0; 0; 0; 0]%nat ist && Nat.eqb 0 cbs && match recs with [] => true | _ => false end
      | SFuel => false
      | SThrew log => exc && list_agree rec_agree (map rec_of log) recs
      end
  end.

Definition case_mD (cs : dcase) : nat :=
  match cs with
  | DCase n Q c w A d Clb Cub Dlb Dub l1 x0 y0 S0 prm sel ph se sc time0 fuel lsfuel
          exc status iterations eps x_out y_out errz ist fst_ evals cbs recs => length y0
  end.
Definition case_sel (cs : dcase) : dirsel :=
  match cs with
  | DCase n Q c w A d Clb Cub Dlb Dub l1 x0 y0 S0 prm sel ph se sc time0 fuel lsfuel
          exc status iterations eps x_out y_out errz ist fst_ evals cbs recs => sel
  end.

(* printable summary of the model run (dump of the first disagreeing case) *)
Definition modelpanocdir (cs : dcase) :=
  match run_dcase cs with
  | SDone o rej hc => (Some (out_status o, out_iterations o, out_eps o, (out_x o, out_y o, out_errz o), (ist_ofD o rej, fst_of o)),
                       ((evals_of (case_mD cs) (out_cnt o) + hc * hcost (case_mD cs) (case_sel cs))%nat, hc, c_cb (out_cnt o), c_polls (out_cnt o)),
                       map rec_of (out_log o))
  | SNotFinite L => (None, (0, 0, 0, 0)%nat, [mkX 0 StNotFinite [] [] L [] [] 0 0 [] 0 [] L 0 0 0 []])
  | SFuel => (None, (1, 1, 1, 1)%nat, [])
  | SThrew log => (None, (3, 3, 3, 3)%nat, map rec_of log)
  end.
