(* SparsityGenLib.v — what the GENERATED file coq/gen/SparsityGen.v (translate/gen_sparsity.py) is written against.  No proofs here.
     obind / ofold      sequencing of computations that can throw (outcome of Sparsity.v); a for loop whose body can throw is
                        `ofold step <index list> state` (stops at the first throw), every other loop is `fold_left`
     is_some / oget     `if (opt)` and `*opt` / `opt.value_or(d)` of a std::optional
     g_*_eqb            == on the enums
     blit               std::ranges::transform(src, dst.begin(), f): |src| consecutive writes from a position
     blit_back          std::ranges::copy_backward(src, it): the same, ending in front of position `it`
     mcol_top           f.col(c).topRows(n) of f = v.reshaped(rows, cols)
     gather             v(permutation)
     nat_sortedb        std::ranges::is_sorted
   `upd` (x[i] = e) and `flat` (position of T(r, c)) are those of Sparsity.v. *)
From Coq Require Import List ZArith Bool Arith.
From Alpaqa Require Import Sparsity.
Import ListNotations.

Inductive fmt := Fdense | Fcsc | Fcoo.        (* Dense / SparseCSC / SparseCOO *)

Definition obind {A B} (x : outcome A) (f : A -> outcome B) : outcome B :=
  match x with
  | Ok a => f a
  | ThrowInvalidArgument => ThrowInvalidArgument
  | ThrowRuntimeError => ThrowRuntimeError
  end.

Fixpoint ofold {S I} (step : S -> I -> outcome S) (l : list I) (s : S) : outcome S :=
  match l with
  | [] => Ok s
  | i :: l' => obind (step s i) (ofold step l')
  end.

Definition is_some {A} (o : option A) : bool := match o with Some _ => true | None => false end.
Definition oget {A} (d : A) (o : option A) : A := match o with Some x => x | None => d end.

Definition g_sym_eqb (a b : symmetry) : bool :=
  match a, b with Unsym, Unsym | Upper, Upper | Lower, Lower => true | _, _ => false end.
Definition g_cscord_eqb (a b : csc_order) : bool :=
  match a, b with CscUnsorted, CscUnsorted | CscSortedRows, CscSortedRows => true | _, _ => false end.
Definition g_cooord_eqb (a b : coo_order) : bool :=
  match a, b with
  | CooUnsorted, CooUnsorted | CooSortedByColsAndRows, CooSortedByColsAndRows | CooSortedByColsOnly, CooSortedByColsOnly
  | CooSortedByRowsAndCols, CooSortedByRowsAndCols | CooSortedByRowsOnly, CooSortedByRowsOnly => true
  | _, _ => false
  end.

Fixpoint blit {A} (l : list A) (pos : nat) (xs : list A) : list A :=
  match xs with
  | [] => l
  | x :: xs' => blit (upd pos x l) (S pos) xs'
  end.
Definition blit_back {A} (l : list A) (pos : nat) (xs : list A) : list A := blit l (pos - length xs) xs.

Definition mcol_top {T} (zero : T) (rows : nat) (v : list T) (c n : nat) : list T :=
  map (fun r => nth (r + c * rows) v zero) (seq 0 n).
Definition gather {T} (zero : T) (v : list T) (perm : list nat) : list T := map (fun i => nth i v zero) perm.

Fixpoint nat_sortedb (l : list nat) : bool :=
  match l with
  | a :: ((b :: _) as t) => (a <=? b) && nat_sortedb t
  | _ => true
  end.
