(* Corr_C13.v — teacher-forced correspondence between PanocOcp.v / gen/StopChain.v at binary64 and the records reported by
   the real PANOCOCPSolver (progress callback + return values).  The step / envelope / line-search records reuse Corr_Run. *)
From Coq Require Import Floats List ZArith Bool Arith.
From Alpaqa Require Import Num NumF Vec Prox SolverStatus SolverKernels StopChain Corr_Run PanocOcp.
Import ListNotations.
Local Open Scope float_scope.

Definition obs (l : list float) := map lb_of_float l.
Definition oubs (l : list float) := map ub_of_float l.

Inductive c13case :=
(* criterion: reported ε from the record's own (u, ∇ψ, p, γ); None = the solver threw *)
| KCrit (c : stopcrit) (Ulb Uub : list float) (N : nat) (γ : float) (u g p : list float) (eps : option float)
(* the reported step and its scalar products *)
| KProx (Ulb Uub : list float) (N : nat) (γ : float) (u g uh p : list float) (pp : float)
(* exit status from (tol, ε, time exceeded, k, max_iter, no_progress, max_no_progress, stop requested) *)
| KStat (tol eps : float) (te : bool) (k max_iter np mnp : nat) (sr : bool) (st : status)
(* number of free input components reported with the direction *)
| KNJ (Ulb Uub : list float) (N : nat) (γ : float) (u g : list float) (nJ : nat)
(* write_solution rows *)
| KWrite (lb ub c y μ y_out e_out : list float)
(* returned inputs *)
| KExit (st : status) (always : bool) (u_in uh u_out : list float).

Definition chk13 (c : c13case) : bool :=
  match c with
  | KCrit cr Ulb Uub N γ u g p eps =>
      match ocp_crit cr (obs Ulb) (oubs Uub) N γ u g p, eps with
      | Some e, Some e' => feq e e'
      | None, None => true
      | _, _ => false
      end
  | KProx Ulb Uub N γ u g uh p pp =>
      let '(uh', p', pp', _) := ocp_prox (obs Ulb) (oubs Uub) N γ u g in
      vfeq uh' uh && vfeq p' p && feq pp' pp
  | KStat tol eps te k mi np mnp sr st => status_eqb (stop_status_ocp tol eps te k mi np mnp sr) st
  | KNJ Ulb Uub N γ u g nJ => Nat.eqb (ocp_nJ (obs Ulb) (oubs Uub) N γ u g) nJ
  | KWrite lb ub c y μ y_out e_out =>
      let r := ocp_write (obs lb) (oubs ub) c y μ in
      (* ζ − Πζ cancels: absolute tolerance 2^-30 (1 + |c| + |y/μ|), scaled by μ for y *)
      let te := map3 (fun ci yi mi => 0x1p-30 * (1 + abs ci + abs (yi / mi))) c y μ in
      let ty := map2 (fun t mi => t * (1 + mi)) te μ in
      Nat.eqb (length r) (length c) && vabs_close ty (map fst r) y_out && vabs_close te (map snd r) e_out
  | KExit st always u_in uh u_out => vfexact (ocp_exit st always u_in uh) u_out
  end.
