(* StopPromptEx.v — concrete runs at binary64 (vm_compute) for the non-vacuity Examples of Properties_C19.v:
   a PANOC run in which the FIRST line-search test sees a sticky request and the run returns Interrupted after one more poll. *)
From Coq Require Import Floats List ZArith Bool Arith.
From Alpaqa Require Import Num NumF Vec Prox SolverStatus SolverKernels StopChain Panoc StopPrompt.
Import ListNotations.
Local Open Scope num_scope.

(* ψ(x) = ½ x², one variable, no constraints, C = R *)
Definition ex_pgf (x : list float) : float * list float * list float :=
  match x with [a] => (a * a / n2, [a], []) | _ => (n0, [], []) end.
Definition ex_py (x : list float) : float * list float := (fst (fst (ex_pgf x)), []).
Definition ex_gL (x _ : list float) : list float := snd (fst (ex_pgf x)).
Definition ex_gp (x : list float) : list float := snd (fst (ex_pgf x)).
Definition ex_P : params (T:=float) :=
  mkParams 10 10 n1 (nofZ 1 / nofZ 1000000) (nofZ 1 / nofZ 1000000) (nofZ 1 / nofZ 2) (nofZ 1 / nofZ 100000) (nofZ 1000000)
           ProjGradNorm n0 n0 (nofZ 1 / nofZ 2) (nofZ 1 / nofZ 2) (nofZ 1 / nofZ 256) false false false false false (nofZ 1 / nofZ 100000000).
(* the request becomes visible after the first poll and stays visible *)
Definition ex_stop (c : counters) : bool := (1 <=? c_polls c)%nat.
Lemma ex_stop_sticky : sticky ex_stop.
Proof. intros c c' Hle. unfold ex_stop. rewrite !Nat.leb_le. cnt_solve. Qed.

Notation ex_args := (ex_pgf) (only parsing).
Definition ex_run := panoc ex_pgf ex_py ex_gL ex_gp [None] [None] [] (fun _ _ => None) false ex_stop (fun _ => false) ex_P [n1] [] [] [] 5.
Definition ex_out : outputs (T:=float) := match ex_run 5 with Done o => o | _ => mkOut StBusy 0 n0 [] [] [] it_blank stats0 [] cnt0 end.

Lemma ex_run_done : ex_run 5 = Done ex_out.
Proof. vm_compute. reflexivity. Qed.
Lemma ex_out_interrupted : out_status ex_out = StInterrupted /\ out_iterations ex_out = 0%nat /\ c_polls (out_cnt ex_out) = 3%nat /\
  c_dir (out_cnt ex_out) = 1%nat /\ c_apply (out_cnt ex_out) = 0%nat.
Proof. vm_compute. repeat split. Qed.

(* the start state and the first line-search test of that run *)
Definition ex_i0c0 := init_L ex_pgf ex_gp ex_P [n1].
Definition ex_s0 : lstate (T:=float) :=
  match init_qub ex_pgf ex_py [None] [None] [] ex_P 5
          (eval_psih ex_pgf ex_py ex_P (eval_prox [None] [None] [] (set_gamma_L (fst ex_i0c0) (p_Lgamma ex_P / iL (fst ex_i0c0)) (iL (fst ex_i0c0)))))
          (cnt_psih ex_P (snd ex_i0c0)) stats0 with
  | Some (i3, c1, z1) => mkSt i3 it_blank 0 0 [] c1 z1 []
  | None => mkSt it_blank it_blank 0 0 [] cnt0 stats0 []
  end.
Definition ex_setup := pass_setup ex_gL ex_gp (fun _ _ => None) false ex_P ex_s0.
Definition ex_pp : pollpt (T:=float) := mkPP (ls_cnt (snd ex_setup)) (ls_curr (snd ex_setup)) (st_k ex_s0).

Lemma ex_polled : panoc_polled ex_pgf ex_py ex_gL ex_gp [None] [None] [] (fun _ _ => None) false ex_stop (fun _ => false) ex_P [n1] [] [] [] 5 ex_pp.
Proof.
  exists ex_s0. split.
  - exists (fst ex_i0c0), (snd ex_i0c0), (st_curr ex_s0), (st_cnt ex_s0), (st_stats ex_s0).
    split; [vm_compute; reflexivity|]. split; [vm_compute; reflexivity|]. split; vm_compute; reflexivity.
  - unfold ex_pp. eapply (pf_ls _ _ _ _ _ _ _ _ _ _ _ _ _ _ _ _ _ ex_s0 (fst (fst ex_setup)) (snd (fst ex_setup)) (snd ex_setup) (snd ex_setup)).
    + vm_compute. reflexivity.
    + vm_compute. reflexivity.
    + constructor.
Qed.
Lemma ex_pp_sees : ex_stop (pp_cnt ex_pp) = true.
Proof. vm_compute. reflexivity. Qed.

(* ------------------------------------------------------------------ ALM: the former counter-run to "no further inner solve"
   min -x  s.t.  x in C = [0,1],  g(x) = x in D = (-inf, 1/2];  x0 = 1, y0 = 0, Σ0 = 0.01, ProjGradNorm, ALM defaults (Δ = 10).
   stop() is called inside evaluation #0 (the first evaluation of the first inner solve) and stays set.  x = 1 is stationary for
   ψ(·; y, Σ) as long as y + Σ/2 <= 1, so inner solve 0 ends at its FIRST stop check with Converged (ε = 0), which ranks above
   Interrupted.  ALMSolver::stop() used to forward the request to the inner solver only: the outer loop then updated y and Σ and
   started inner solves 1, 2 (Converged again) and 3 (Interrupted) — four inner solves, 41 user-function evaluations after the
   request on the real code.  Since the repair the outer loop reads its own flag after the inner solve: ONE inner solve (one-check),
   ALM is not converged (slack error 1/2), not out of time / iterations, and returns Interrupted after outer iteration 0. *)
From Alpaqa Require Import Alm AlmCompose AlmPanoc Corr_PANOC Corr_ALMPANOC.
Local Open Scope float_scope.
Definition ex_alm_case : apcase :=
  APCase 1 [[0]] [-1] [0] [[1]] [0] [0] [1] [neg_infinity] [0.5] [] 0 0 [1] [0] [0x1.47ae147ae147bp-7] true
         ex_P (mkAP (T:=float) 0x1.5798ee2308c3ap-27 0x1.5798ee2308c3ap-27 10 0x1.47ae147ae147bp-7 20 1 0x1.999999999999ap-4 0.25 0x1.dcd65p+29 0x1.dcd65p+29 0x1.12e0be826d695p-30 20 false)
         [] false 0 (-1) (-1) 8 8 30
         Alm.Busy 0 0 0 0 0 0 [] [] [] 0 0 0 [].
Definition ex_alm_summary :=
  match run_ap ex_alm_case with
  | Some co => Some (f_status (co_final co), map (fun rc => (ir_status (it_res rc), ir_iters (it_res rc))) (co_trace co),
                     map (fun lg => match lg with Done o => (c_polls (out_cnt o), c_dir (out_cnt o)) | _ => (99, 99)%nat end) (co_logs co))
  | None => None
  end.
(* what the outer loop read from its own flag after each inner solve, and outer_iterations *)
Definition ex_alm_flags :=
  match run_ap ex_alm_case with
  | Some co => Some (map (fun rc => ir_stop (it_res rc)) (co_trace co), f_outer (co_final co))
  | None => None
  end.
Lemma ex_alm_flag_read : ex_alm_flags = Some ([true], 1%nat).
Proof. vm_compute. reflexivity. Qed.
Lemma ex_alm_one_solve :
  ex_alm_summary = Some (Interrupted, [(Converged, 0)]%nat, [(1, 0)]%nat).
Proof. vm_compute. reflexivity. Qed.
