(* StopPromptGapZ.v — C19 on the ZeroFPR loop model: CONSECUTIVE polls and the bound FROM THE REQUEST TO THE RETURN
   (the ZeroFPR counterpart of StopPromptGap.v).
     zpoll_next_gap            between two consecutive polls of a run: one poll, <= 3 oracle calls, <= 2 direction calls, <= 1 callback
     zloop_request_to_return   if the poll FOLLOWING pp sees the request (pp itself need not), then everything the run does after pp is
                               <= 3 polls, <= 4 oracle calls, <= 2 direction calls (<= 1 apply), <= 2 callbacks.
   For every number system, oracle and parameter set; sticky request. *)
From Coq Require Import List ZArith Bool Arith Lia.
From Alpaqa Require Import Num Vec Prox SolverStatus SolverKernels StopChain StopChainProofs Panoc ZeroFpr StopPrompt StopPromptZfpr.
Import ListNotations.

Section GapZ.
  Context {T : Type} `{Num T}.
  Local Open Scope num_scope.

  Variable psi_grad_full : list T -> T * list T * list T.
  Variable psi_yhat : list T -> T * list T.
  Variable grad_L : list T -> list T -> list T.
  Variable grad_psi : list T -> list T.
  Variables (lb ub : list (option T)) (l1 : list T).
  Variable dir_apply : nat -> iterate (T:=T) -> proxit (T:=T) -> option (list T).
  Variable has_initial : bool.
  Variable stop_req : counters -> bool.
  Variable time_up : counters -> bool.
  Variable P : params (T:=T).
  Variables (x_in y_in Σ errz_in : list T).
  Variable ls_fuel : nat.

  Notation lstT := (lstate (T:=T)).
  Notation lsst := (ZeroFpr.ls_state (T:=T)).
  Notation lsloop := (ZeroFpr.ls_loop psi_grad_full psi_yhat lb ub l1 stop_req P).
  Notation pass_ := (ZeroFpr.pass psi_grad_full psi_yhat grad_L lb ub l1 dir_apply has_initial stop_req time_up P x_in y_in Σ errz_in ls_fuel).
  Notation loop_ := (ZeroFpr.loop psi_grad_full psi_yhat grad_L lb ub l1 dir_apply has_initial stop_req time_up P x_in y_in Σ errz_in ls_fuel).
  Notation zerofpr_ := (zerofpr psi_grad_full psi_yhat grad_L grad_psi lb ub l1 dir_apply has_initial stop_req time_up P x_in y_in Σ errz_in ls_fuel).
  Notation zls_pass := (zls_pass psi_grad_full psi_yhat lb ub l1 P).
  Notation zls_reach := (zls_reach psi_grad_full psi_yhat lb ub l1 stop_req P).
  Notation ztop_status := (ztop_status grad_L lb ub l1 stop_req time_up P).
  Notation ztop_prox := (ztop_prox grad_L lb ub l1).
  Notation zpass_setup := (zpass_setup grad_L lb ub l1 dir_apply has_initial P).
  Notation zpass_finish := (zpass_finish grad_L lb ub l1 P).
  Notation zpolled_from := (zpolled_from psi_grad_full psi_yhat grad_L lb ub l1 dir_apply has_initial stop_req time_up P x_in y_in Σ errz_in ls_fuel).
  Notation zprompt_after := (zprompt_after P).
  Notation zerofpr_start := (zerofpr_start psi_grad_full psi_yhat grad_psi lb ub l1 P x_in ls_fuel).
  Notation zls_pass_adv := (zls_pass_adv psi_grad_full psi_yhat lb ub l1 P).
  Notation zsetup_adv := (zsetup_adv grad_L lb ub l1 dir_apply has_initial P).
  Notation zfinish_adv := (zfinish_adv grad_L lb ub l1 P).
  Notation zls_loop_unfold := (zls_loop_unfold psi_grad_full psi_yhat lb ub l1 stop_req P).
  Notation zpass_eq := (zpass_eq psi_grad_full psi_yhat grad_L lb ub l1 dir_apply has_initial stop_req time_up P x_in y_in Σ errz_in ls_fuel).
  Notation zls_reach_stops := (zls_reach_stops psi_grad_full psi_yhat lb ub l1 stop_req P).
  Notation zloop_stop_prompt := (zloop_stop_prompt psi_grad_full psi_yhat grad_L lb ub l1 dir_apply has_initial stop_req time_up P x_in y_in Σ errz_in ls_fuel).
  Notation zerofpr_done_start := (zerofpr_done_start psi_grad_full psi_yhat grad_L grad_psi lb ub l1 dir_apply has_initial stop_req time_up P x_in y_in Σ errz_in ls_fuel).

  Inductive zpoll_next : lstT -> pollpt (T:=T) -> pollpt (T:=T) -> Prop :=
  | zpn_top_ls s q τi ls0 : ztop_status s = StBusy -> zpass_setup s = (q, τi, ls0) ->
      zpoll_next s (mkPP (ztop_cnt s) (st_curr s) (st_k s)) (mkPP (ZeroFpr.ls_cnt ls0) (st_curr s) (st_k s))
  | zpn_ls_ls s q τi ls0 l ln : ztop_status s = StBusy -> zpass_setup s = (q, τi, ls0) -> zls_reach (st_curr s) (ztop_prox s) q τi ls0 l ->
      stop_req (ZeroFpr.ls_cnt l) = false -> zls_pass (st_curr s) (ztop_prox s) q τi l = inl ln ->
      zpoll_next s (mkPP (ZeroFpr.ls_cnt l) (st_curr s) (st_k s)) (mkPP (ZeroFpr.ls_cnt ln) (st_curr s) (st_k s))
  | zpn_ls_top_done s q τi ls0 l l2 : ztop_status s = StBusy -> zpass_setup s = (q, τi, ls0) -> zls_reach (st_curr s) (ztop_prox s) q τi ls0 l ->
      stop_req (ZeroFpr.ls_cnt l) = false -> zls_pass (st_curr s) (ztop_prox s) q τi l = inr l2 ->
      let s' := zpass_finish s q τi l2 in
      zpoll_next s (mkPP (ZeroFpr.ls_cnt l) (st_curr s) (st_k s)) (mkPP (ztop_cnt s') (st_curr s') (st_k s'))
  | zpn_ls_top_stopped s q τi ls0 l : ztop_status s = StBusy -> zpass_setup s = (q, τi, ls0) -> zls_reach (st_curr s) (ztop_prox s) q τi ls0 l ->
      stop_req (ZeroFpr.ls_cnt l) = true ->
      let s' := zpass_stopped s q (zls_stopped_at l) in
      zpoll_next s (mkPP (ZeroFpr.ls_cnt l) (st_curr s) (st_k s)) (mkPP (ztop_cnt s') (st_curr s') (st_k s'))
  | zpn_next s s' pp pp' : pass_ s = ZeroFpr.PCont s' -> zpoll_next s' pp pp' -> zpoll_next s pp pp'.

  Lemma zpoll_next_gap s pp pp' : zpoll_next s pp pp' ->
    adv (pp_cnt pp) (pp_cnt pp') 1 3 2 1 1 /\ c_polls (pp_cnt pp') = S (c_polls (pp_cnt pp)).
  Proof.
    induction 1 as [s q τi ls0 Eb Es|s q τi ls0 l ln Eb Es Hr Ef Ep|s q τi ls0 l l2 Eb Es Hr Ef Ep|s q τi ls0 l Eb Es Hr Et|s s' pp pp' Ep _ IH];
      cbn [pp_cnt]; [| | | |exact IH].
    - pose proof (zsetup_adv s) as A. rewrite Es in A. cbn [snd] in A.
      assert (c_polls (ZeroFpr.ls_cnt ls0) = S (c_polls (ztop_cnt s))).
      { unfold StopPromptZfpr.zpass_setup in Es. cbv zeta in Es. inversion Es. cbn [ZeroFpr.ls_cnt].
        destruct (st_k s =? 0)%nat; destruct ((0 <? st_k s)%nat || has_initial); cnt_solve. }
      split; [cnt_solve|assumption].
    - destruct (zls_pass_adv (st_curr s) (ztop_prox s) q τi l) as [A B]. rewrite Ep in A, B. cbn [zls_res_state] in A, B. split; [cnt_solve|exact B].
    - subst s'. destruct (zls_pass_adv (st_curr s) (ztop_prox s) q τi l) as [A B]. rewrite Ep in A, B. cbn [zls_res_state] in A, B.
      pose proof (zfinish_adv s q τi l2) as C.
      assert (E1 : c_polls (st_cnt (zpass_finish s q τi l2)) = c_polls (ZeroFpr.ls_cnt l2)).
      { unfold StopPromptZfpr.zpass_finish. cbv zeta. cbn [st_cnt]. destruct (ZeroFpr.ls_updated l2); cnt_solve. }
      unfold ztop_cnt. split; [cnt_solve|]. cnt_unfold. rewrite E1. exact B.
    - subst s'. unfold ztop_cnt, zpass_stopped, zls_stopped_at. cbn [st_cnt ZeroFpr.ls_cnt]. split; cnt_solve.
  Qed.

  Lemma zls_reach_done curr prox q τi s l l2 : zls_reach curr prox q τi s l -> stop_req (ZeroFpr.ls_cnt l) = false ->
    zls_pass curr prox q τi l = inr l2 ->
    forall fuel, lsloop fuel curr prox q τi s = ZeroFpr.LsFuel \/ lsloop fuel curr prox q τi s = ZeroFpr.LsDone l2.
  Proof.
    induction 1 as [s|s s1 s2 Es Ep _ IH]; intros El Ed [|fuel]; try (left; reflexivity).
    - right. rewrite zls_loop_unfold, El, Ed. reflexivity.
    - rewrite zls_loop_unfold, Es, Ep. apply IH; assumption.
  Qed.

  Lemma zpoll_next_polled : forall fuel s o, loop_ fuel s = Done o -> forall pp pp', zpoll_next s pp pp' -> zpolled_from s pp'.
  Proof.
    induction fuel as [|fuel IH]; intros s o Hr pp pp' Hn; [discriminate|]. cbn [ZeroFpr.loop] in Hr.
    destruct Hn as [s q τi ls0 Eb Es|s q τi ls0 l ln Eb Es Hreach Ef Ep|s q τi ls0 l l2 Eb Es Hreach Ef Ep|s q τi ls0 l Eb Es Hreach Et|s s' pp pp' Ep Hn'].
    - eapply zpf_ls; [exact Eb|exact Es|constructor].
    - eapply zpf_ls; [exact Eb|exact Es|].
      clear - Hreach Ef Ep. induction Hreach as [s0|s0 s1 s2 A B _ IHr]; [econstructor; [exact Ef|exact Ep|constructor]|].
      econstructor; [exact A|exact B|apply IHr; assumption].
    - cbv zeta. rewrite zpass_eq, Eb, Es in Hr.
      destruct (zls_reach_done _ _ q τi ls0 l l2 Hreach Ef Ep ls_fuel) as [E|E]; rewrite E in Hr; [discriminate|].
      eapply zpf_next; [rewrite zpass_eq, Eb, Es, E; reflexivity|apply zpf_top].
    - cbv zeta. rewrite zpass_eq, Eb, Es in Hr.
      destruct (zls_reach_stops _ _ q τi ls0 l Hreach Et ls_fuel) as [E|E]; rewrite E in Hr; [discriminate|].
      eapply zpf_next; [rewrite zpass_eq, Eb, Es, E; reflexivity|apply zpf_top].
    - rewrite Ep in Hr. eapply zpf_next; [exact Ep|exact (IH s' o Hr pp pp' Hn')].
  Qed.

  Hypothesis Hsticky : sticky stop_req.

  Theorem zloop_request_to_return fuel s o : loop_ fuel s = Done o ->
    forall pp pp', zpoll_next s pp pp' -> stop_req (pp_cnt pp') = true ->
    adv (pp_cnt pp) (out_cnt o) 3 4 2 1 2 /\ zprompt_after pp' o.
  Proof.
    intros Hr pp pp' Hn Hs. pose proof (zpoll_next_polled fuel s o Hr pp pp' Hn) as Hp.
    pose proof (zloop_stop_prompt Hsticky fuel s o Hr pp' Hp Hs) as Hpr. split; [|exact Hpr].
    destruct (zpoll_next_gap s pp pp' Hn) as [A _]. destruct Hpr as (_ & _ & B & _). cnt_solve.
  Qed.

  Lemma zpoll_next_gap_dir s pp pp' : zpoll_next s pp pp' -> pp_k pp <> 0%nat -> (c_dir (pp_cnt pp') <= c_dir (pp_cnt pp) + 1)%nat.
  Proof.
    induction 1 as [s q τi ls0 Eb Es|s q τi ls0 l ln Eb Es Hr Ef Ep|s q τi ls0 l l2 Eb Es Hr Ef Ep|s q τi ls0 l Eb Es Hr Et|s s' pp pp' Ep _ IH];
      cbn [pp_cnt pp_k]; [| | | |exact IH]; intros Hk.
    - unfold StopPromptZfpr.zpass_setup in Es. cbv zeta in Es. inversion Es. cbn [ZeroFpr.ls_cnt]. unfold ztop_cnt.
      destruct (Nat.eqb_spec (st_k s) 0) as [E|_]; [contradiction|]. destruct ((0 <? st_k s)%nat || has_initial); cnt_solve.
    - destruct (zls_pass_adv (st_curr s) (ztop_prox s) q τi l) as [A _]. rewrite Ep in A. cbn [zls_res_state] in A. cnt_solve.
    - subst s'. unfold ztop_cnt.
      assert (E : (c_dir (st_cnt (zpass_finish s q τi l2)) <= c_dir (ZeroFpr.ls_cnt l) + 1)%nat).
      { unfold StopPromptZfpr.zpass_finish. cbv zeta. cbn [st_cnt].
        unfold StopPromptZfpr.zls_pass in Ep. cbv zeta in Ep.
        set (ph := if ZeroFpr.ls_tau l =? ZeroFpr.ls_tau_prev l then (ZeroFpr.ls_next l, inc_polls (ZeroFpr.ls_cnt l)) else _) in Ep.
        assert (F : c_dir (snd ph) = c_dir (ZeroFpr.ls_cnt l)).
        { subst ph. destruct (ZeroFpr.ls_tau l =? ZeroFpr.ls_tau_prev l); [reflexivity|]. destruct (ZeroFpr.ls_tau l =? n0); reflexivity. }
        destruct ph as [next c1]. cbn [snd] in F.
        repeat match type of Ep with context [if ?b then _ else _] => let E := fresh "E" in destruct b eqn:E end; inversion Ep; subst l2;
          cbn [ZeroFpr.ls_updated ZeroFpr.ls_cnt]; cnt_unfold; try lia;
          match goal with Hu : (ZeroFpr.ls_upd l && negb (ZeroFpr.ls_updated l)) = false |- _ =>
            destruct (ZeroFpr.ls_updated l); cnt_unfold; lia end. }
      cnt_solve.
    - subst s'. unfold ztop_cnt, zpass_stopped, zls_stopped_at. cbn [st_cnt ZeroFpr.ls_cnt]. cnt_solve.
  Qed.

  Theorem zloop_request_one_direction_call fuel s o : loop_ fuel s = Done o ->
    forall pp pp', zpoll_next s pp pp' -> stop_req (pp_cnt pp') = true -> pp_k pp <> 0%nat ->
    (c_dir (out_cnt o) <= c_dir (pp_cnt pp) + 1)%nat.
  Proof.
    intros Hr pp pp' Hn Hs Hk. destruct (zloop_request_to_return fuel s o Hr pp pp' Hn Hs) as [_ (_ & _ & _ & E & _)].
    rewrite E. exact (zpoll_next_gap_dir s pp pp' Hn Hk).
  Qed.
  Corollary zloop_stop_inside_direction_call fuel s o (d : nat) : (forall c, stop_req c = (d <? c_dir c)%nat) -> loop_ fuel s = Done o ->
    forall pp pp', zpoll_next s pp pp' -> stop_req (pp_cnt pp) = false -> stop_req (pp_cnt pp') = true -> pp_k pp <> 0%nat ->
    c_dir (out_cnt o) = S d.
  Proof.
    intros Hd Hr pp pp' Hn Hf Hs Hk. pose proof (zloop_request_one_direction_call fuel s o Hr pp pp' Hn Hs Hk) as A.
    destruct (zloop_request_to_return fuel s o Hr pp pp' Hn Hs) as [_ (_ & _ & _ & E & _)].
    rewrite Hd in Hf, Hs. apply Nat.ltb_ge in Hf. apply Nat.ltb_lt in Hs. lia.
  Qed.

  Definition zerofpr_poll_next (pp pp' : pollpt (T:=T)) : Prop := exists s0, zerofpr_start s0 /\ zpoll_next s0 pp pp'.
  Theorem zerofpr_request_to_return fuel o : zerofpr_ fuel = Done o ->
    forall pp pp', zerofpr_poll_next pp pp' -> stop_req (pp_cnt pp') = true ->
    adv (pp_cnt pp) (out_cnt o) 3 4 2 1 2 /\ zprompt_after pp' o.
  Proof.
    intros Hr pp pp' (s0 & Hs0 & Hn) Hs. destruct (zerofpr_done_start fuel o Hr) as (s0' & Hs0' & Hl).
    assert (s0' = s0).
    { destruct Hs0 as (i0 & c0 & i3 & c1 & z1 & E0 & _ & Eq & ->). destruct Hs0' as (i0' & c0' & i3' & c1' & z1' & E0' & _ & Eq' & ->).
      rewrite E0 in E0'. inversion E0'; subst. rewrite Eq in Eq'. inversion Eq'; subst. reflexivity. }
    subst s0'. exact (zloop_request_to_return fuel s0 o Hl pp pp' Hn Hs).
  Qed.
End GapZ.
