(* LbfgsMasked.v — apply_masked over R (C09): on the index set J the masked two loops compute the BFGS
   operator of the J-restricted pairs (ρ recomputed on J in a local in both loops, pairs failing the documented
   test on J marked through the workspace α and skipped, initial scaling from the most recent valid pair when
   none is given); off J the vector is untouched; the stored (s, y, ρ) are not written.
   Also: scale_y on the dense model. *)
From Coq Require Import Reals List ZArith Bool Arith Lia Lra Psatz.
From Flocq Require Import Raux.
From Alpaqa Require Import Num NumR Vec Lbfgs LbfgsProofs LbfgsAlgebra.
Import ListNotations.
Local Open Scope R_scope.

(* ---------------------------------------------------------------- scale_y *)
Lemma scale_y_dense (P : params R) st f : inv P st ->
  inv P (scale_y st f) /\ hist3 (scale_y st f) = map (scale3 f) (hist3 st) /\ (rho_ok st -> rho_ok (scale_y st f)).
Proof.
  intros Hinv. destruct (scale_y_spec P st f Hinv) as [Hi Hh]. split; [exact Hi|]. split; [exact Hh|].
  intros Hr. exact (step_rho_ok (fun _ _ => 0) P st (OScale f) Hinv Hr).
Qed.

(* ---------------------------------------------------------------- restriction to an index list *)
Lemma restr_length J (v : list R) : length (restr J v) = length J.
Proof. apply map_length. Qed.

Lemma restr_seq_id (a : list R) : restr (seq 0 (length a)) a = a.
Proof.
  unfold restr. induction a as [|x a IH]; [reflexivity|]. cbn [length seq map nth]. f_equal.
  rewrite <- seq_shift, map_map. exact IH.
Qed.

(* pointwise update of the coordinates listed in J *)
Lemma fold_upd_nth (g : nat -> R -> R) J : forall y : list R,
  NoDup J -> (forall j, In j J -> (j < length y)%nat) ->
  let r := fold_left (fun y j => upd y j (g j (nth j y 0))) J y in
  length r = length y /\ (forall j, In j J -> nth j r 0 = g j (nth j y 0)) /\ (forall j, ~ In j J -> nth j r 0 = nth j y 0).
Proof.
  induction J as [|j0 J IH]; intros y Hnd Hb; cbn [fold_left]; [split; [reflexivity|]; split; [intros j []|intros; reflexivity]|].
  inversion Hnd as [|? ? Hni Hnd']; subst.
  set (y1 := upd y j0 (g j0 (nth j0 y 0))).
  assert (Hl1 : length y1 = length y) by apply upd_length.
  destruct (IH y1 Hnd') as (Hl & Hin & Hout).
  { intros j Hj. rewrite Hl1. apply Hb; right; exact Hj. }
  split; [congruence|]. split.
  - intros j [->|Hj].
    + rewrite Hout by exact Hni. unfold y1. apply nth_upd_eq. apply Hb; left; reflexivity.
    + rewrite Hin by exact Hj. unfold y1. rewrite nth_upd_neq; [reflexivity|]. intros ->; contradiction.
  - intros j Hj. rewrite Hout by (intro; apply Hj; right; assumption).
    unfold y1. apply nth_upd_neq. intros ->. apply Hj; left; reflexivity.
Qed.

Definition sameoff (J : list nat) (q q' : list R) : Prop :=
  length q' = length q /\ forall j, ~ In j J -> nth j q' 0 = nth j q 0.
Lemma sameoff_refl J q : sameoff J q q. Proof. split; auto. Qed.
Lemma sameoff_trans J a b c : sameoff J a b -> sameoff J b c -> sameoff J a c.
Proof. intros [L1 H1] [L2 H2]. split; [congruence|]. intros j Hj. rewrite H2, H1; auto. Qed.

Section Ops.
  Variable J : list nat.
  Variable n : nat.
  Hypothesis HJnd : NoDup J.
  Hypothesis HJb : forall j, In j J -> (j < n)%nat.
  Variable fJ : bool.
  Hypothesis HfJ : fJ = true -> J = seq 0 n.

  Lemma dotJ_restr a b : length a = n -> length b = n -> dotJ J fJ a b = rdot (restr J a) (restr J b).
  Proof.
    intros Ha Hb. unfold dotJ. destruct fJ eqn:Hf.
    - rewrite (HfJ eq_refl). rewrite <- Ha at 1. rewrite restr_seq_id. rewrite <- Hb. rewrite restr_seq_id. apply vdot_rdot.
    - assert (G : forall acc, fold_left (fun acc j => (acc + nth j a n0 * nth j b n0)%num) J acc = acc + rdot (restr J a) (restr J b)).
      { clear. induction J as [|j J' IH]; intros acc; cbn [fold_left restr map rdot]; [lra|]. rewrite IH. unfold restr. numR. lra. }
      rewrite G. numR. lra.
  Qed.

  Lemma raxmy_restr c x q : restr J (map2 (fun qi xi => qi - c * xi) q x) = restr J (raxmy c x q).
  Proof. reflexivity. Qed.

  Lemma nth_raxmy c x q j : length x = length q -> nth j (raxmy c x q) 0 = nth j q 0 - c * nth j x 0.
  Proof.
    unfold raxmy. revert x j; induction q as [|u q IH]; intros [|w x] [|j] Hl; cbn in *; try discriminate; try lra.
    apply IH; lia.
  Qed.

  Lemma raxmy_cons c a A b B : raxmy c (a :: A) (b :: B) = (b - c * a) :: raxmy c A B.
  Proof. reflexivity. Qed.

  Lemma restr_raxmy c x q : length x = length q -> restr J (raxmy c x q) = raxmy c (restr J x) (restr J q).
  Proof.
    intros Hl. unfold restr. clear HJnd HJb HfJ. induction J as [|j J' IH]; [reflexivity|].
    cbn [map]. rewrite raxmy_cons, <- IH. f_equal. apply nth_raxmy; exact Hl.
  Qed.

  Lemma axmyJ_restr c x q : length x = n -> length q = n ->
    sameoff J q (axmyJ J fJ c x q) /\ restr J (axmyJ J fJ c x q) = raxmy c (restr J x) (restr J q).
  Proof.
    intros Hx Hq. unfold axmyJ. destruct fJ eqn:Hf.
    - rewrite axmy_raxmy. split.
      + split; [rewrite raxmy_length; congruence|]. intros j Hj. rewrite (HfJ eq_refl), in_seq in Hj.
        rewrite !nth_overflow; auto; try lia. rewrite raxmy_length; try congruence; lia.
      + apply restr_raxmy; congruence.
    - pose proof (fold_upd_nth (fun j v => v - c * nth j x 0) J q HJnd) as Hf'.
      destruct Hf' as (Hl & Hin & Hout); [intros j Hj; rewrite Hq; apply HJb; exact Hj|].
      split; [split; [exact Hl|exact Hout]|].
      unfold restr. rewrite <- (map_id J) at 1. unfold raxmy.
      assert (G : forall L, (forall j, In j L -> In j J) ->
                map (fun j => nth j (fold_left (fun y j0 => upd y j0 (nth j0 y 0 - c * nth j0 x 0)) J q) 0) L =
                map2 (fun qi xi => qi - c * xi) (map (fun j => nth j q 0) L) (map (fun j => nth j x 0) L)).
      { induction L as [|j L IH]; intros HL; [reflexivity|]. cbn [map map2]. rewrite IH by (intros; apply HL; right; assumption).
        f_equal. apply (Hin j). apply HL; left; reflexivity. }
      rewrite map_id. apply G. auto.
  Qed.

  Lemma scalJ_restr c q : length q = n ->
    sameoff J q (scalJ J fJ c q) /\ restr J (scalJ J fJ c q) = map (Rmult c) (restr J q).
  Proof.
    intros Hq. unfold scalJ. destruct fJ eqn:Hf.
    - split.
      + split; [unfold vscale; rewrite map_length; reflexivity|]. intros j Hj. rewrite (HfJ eq_refl), in_seq in Hj.
        rewrite !nth_overflow; auto; try lia. unfold vscale. rewrite map_length. lia.
      + rewrite (HfJ eq_refl). rewrite <- Hq at 2. rewrite restr_seq_id.
        assert (length (vscale c q) = n) by (unfold vscale; rewrite map_length; exact Hq).
        rewrite <- H at 1. rewrite restr_seq_id. reflexivity.
    - pose proof (fold_upd_nth (fun j v => v * c) J q HJnd) as Hf'.
      destruct Hf' as (Hl & Hin & Hout); [intros j Hj; rewrite Hq; apply HJb; exact Hj|].
      split; [split; [exact Hl|exact Hout]|].
      unfold restr. rewrite map_map.
      assert (G : forall L, (forall j, In j L -> In j J) ->
                map (fun j => nth j (fold_left (fun y j0 => upd y j0 (nth j0 y 0 * c)) J q) 0) L =
                map (fun j => c * nth j q 0) L).
      { induction L as [|j L IH]; intros HL; [reflexivity|]. cbn [map]. rewrite IH by (intros; apply HL; right; assumption).
        f_equal. rewrite (Hin j) by (apply HL; left; reflexivity). lra. }
      apply G. auto.
  Qed.

  (* ---------------------------------------------------------------- the masked recursion on restricted pairs *)
  Variable pw : R -> R -> R.
  Variable P : params R.

  Fixpoint MTL (lp : list (pair R)) (γ : R) (v : list R) : bool * list R :=
    match lp with
    | [] => if Rlt_bool γ 0 then (false, v) else (true, map (Rmult γ) v)
    | (s, y) :: older =>
        let yts := rdot s y in
        if negb (update_valid pw P yts (rdot s s) 0) then MTL older γ v
        else
          let ρ := 1 / yts in
          let a := ρ * rdot s v in
          let γ1 := if Rlt_bool γ 0 then 1 / (ρ * rdot y y) else γ in
          let '(ok, r) := MTL older γ1 (raxmy a y v) in
          if ok then (true, raxmy (ρ * rdot y r - a) s r) else (false, r)
    end.

  (* which pairs take part, the initial scaling, success *)
  Fixpoint plan (lp : list (pair R)) (γ : R) : list (pair R) * R * bool :=
    match lp with
    | [] => ([], γ, negb (Rlt_bool γ 0))
    | (s, y) :: older =>
        if negb (update_valid pw P (rdot s y) (rdot s s) 0) then plan older γ
        else
          let γ1 := if Rlt_bool γ 0 then 1 / (1 / rdot s y * rdot y y) else γ in
          let '(k, g, ok) := plan older γ1 in ((s, y) :: k, g, ok)
    end.

  Lemma MTL_plan lp : forall γ v,
    let '(k, g, ok) := plan lp γ in
    fst (MTL lp γ v) = ok /\ (ok = true -> snd (MTL lp γ v) = Hop k g v).
  Proof.
    induction lp as [|[s y] lp IH]; intros γ v; cbn [plan MTL].
    - destruct (Rlt_bool γ 0); cbn; split; auto; discriminate.
    - destruct (negb (update_valid pw P (rdot s y) (rdot s s) 0)); [apply IH|]. cbn zeta.
      set (γ1 := if Rlt_bool γ 0 then 1 / (1 / rdot s y * rdot y y) else γ).
      set (a := 1 / rdot s y * rdot s v).
      specialize (IH γ1 (raxmy a y v)). destruct (plan lp γ1) as [[k g] ok].
      destruct (MTL lp γ1 (raxmy a y v)) as [ok' r]. cbn [fst snd] in IH. destruct IH as [-> IH].
      destruct ok; cbn [fst snd]; split; auto; try discriminate. intros _.
      rewrite Hop_cons. cbn zeta. rewrite (rdot_comm y s). fold a. rewrite <- IH by reflexivity. reflexivity.
  Qed.

  Definition rp (sl : slot R) : pair R := (restr J (sl_s sl), restr J (sl_y sl)).
  Definition lens (sl : slot R) : Prop := length (sl_s sl) = n /\ length (sl_y sl) = n.

  Lemma get_set_α_same st i a : (i < history st)%nat ->
    get (set_α st i a) i = {| sl_s := sl_s (get st i); sl_y := sl_y (get st i); sl_ρ := sl_ρ (get st i); sl_α := a; sl_skip := false |}.
  Proof. intros Hi. unfold set_α. apply get_set_slot_same; exact Hi. Qed.
  Lemma get_set_mark_same st i : (i < history st)%nat ->
    get (set_mark st i) i = {| sl_s := sl_s (get st i); sl_y := sl_y (get st i); sl_ρ := sl_ρ (get st i); sl_α := Lbfgs.nan; sl_skip := true |}.
  Proof. intros Hi. unfold set_mark. apply get_set_slot_same; exact Hi. Qed.

  Lemma mrev_loop_frame l : forall st q γ j, ~ In j l -> get (fst (fst (mrev_loop pw P J fJ l st q γ))) j = get st j.
  Proof.
    induction l as [|i l IH]; intros st q γ j Hn; cbn [mrev_loop]; [reflexivity|]. cbn zeta.
    assert (Hij : i <> j) by (intros ->; apply Hn; left; reflexivity).
    assert (Hn' : ~ In j l) by (intro; apply Hn; right; assumption).
    destruct (negb _); rewrite IH by exact Hn'.
    - unfold set_mark. apply get_set_slot_other; exact Hij.
    - unfold set_α. apply get_set_slot_other; exact Hij.
  Qed.

  Lemma mfwd_loop_app l1 l2 st q : mfwd_loop J fJ (l1 ++ l2) st q = mfwd_loop J fJ l2 st (mfwd_loop J fJ l1 st q).
  Proof. revert q; induction l1 as [|i l1 IH]; intros q; cbn [app mfwd_loop]; [reflexivity|]. destruct (α_is_nan _); apply IH. Qed.

  Lemma map_rp_ext st st' l : (forall j, sy (get st' j) = sy (get st j)) -> map (fun i => rp (get st' i)) l = map (fun i => rp (get st i)) l.
  Proof.
    intros Hs. apply map_ext. intros i. specialize (Hs i). unfold sy in Hs. injection Hs as Hs1 Hs2. unfold rp. rewrite Hs1, Hs2. reflexivity.
  Qed.

  Lemma mloops l : forall st q γ,
    NoDup l -> (forall i, In i l -> (i < history st)%nat) -> length q = n -> (forall i, In i l -> lens (get st i)) ->
    let '(st1, q1, γ1) := mrev_loop pw P J fJ l st q γ in
    let res := MTL (map (fun i => rp (get st i)) l) γ (restr J q) in
    sameoff J q q1 /\
    (Rlt_bool γ1 0 = true -> fst res = false) /\
    (Rlt_bool γ1 0 = false ->
       fst res = true /\
       let qf := mfwd_loop J fJ (rev l) st1 (scalJ J fJ γ1 q1) in
       sameoff J q qf /\ restr J qf = snd res).
  Proof.
    induction l as [|i l IH]; intros st q γ Hnd Hb Hq Hlen.
    - cbn [mrev_loop map MTL rev mfwd_loop]. split; [apply sameoff_refl|].
      destruct (Rlt_bool γ 0) eqn:Hg; split; intros; try discriminate; cbn [fst snd]; auto.
      split; [reflexivity|]. cbn zeta. apply scalJ_restr; exact Hq.
    - inversion Hnd as [|? ? Hni Hnd']; subst.
      destruct (Hlen i (or_introl eq_refl)) as [Hsi Hyi].
      assert (Hih : (i < history st)%nat) by (apply Hb; left; reflexivity).
      cbn [mrev_loop map MTL]. cbn zeta.
      change (rp (get st i)) with (restr J (sl_s (get st i)), restr J (sl_y (get st i))). cbv iota beta.
      rewrite (dotJ_restr (sl_s (get st i)) (sl_y (get st i)) Hsi Hyi), (dotJ_restr (sl_s (get st i)) (sl_s (get st i)) Hsi Hsi).
      set (sJ := restr J (sl_s (get st i))). set (yJ := restr J (sl_y (get st i))).
      change (@n0 R NumR) with 0.
      destruct (negb (update_valid pw P (rdot sJ yJ) (rdot sJ sJ) 0)) eqn:Hval.
      + (* pair invalid on J: NaN mark in α, skipped by both loops *)
        set (st' := set_mark st i).
        assert (Hsy' : forall j, sy (get st' j) = sy (get st j)) by (intros; apply sy_set_mark).
        specialize (IH st' q γ Hnd').
        destruct (mrev_loop pw P J fJ l st' q γ) as [[st1 q1] γ1] eqn:Hm.
        rewrite (map_rp_ext st st' l Hsy') in IH.
        destruct IH as (Hoff & Hneg & Hpos).
        { intros j Hj. destruct (set_mark_shape st i) as (_ & _ & _ & Hh). fold st' in Hh. rewrite Hh. apply Hb; right; exact Hj. }
        { exact Hq. }
        { intros j Hj. specialize (Hsy' j). unfold sy in Hsy'. injection Hsy' as E1 E2. unfold lens. rewrite E1, E2. apply Hlen; right; exact Hj. }
        split; [exact Hoff|]. split; [exact Hneg|]. intros Hg. destruct (Hpos Hg) as (Hok & Hqf). split; [exact Hok|].
        cbn zeta in *. cbn [rev]. rewrite mfwd_loop_app. cbn [mfwd_loop].
        assert (Hgi : get st1 i = get st' i).
        { pose proof (mrev_loop_frame l st' q γ i Hni) as Hx. rewrite Hm in Hx. exact Hx. }
        rewrite Hgi. unfold st'. rewrite get_set_mark_same by exact Hih. unfold α_is_nan. cbn [sl_skip orb]. exact Hqf.
      + (* pair valid on J *)
        set (ρ := 1 / rdot sJ yJ).
        change (@n1 R NumR) with 1. change (@ndiv R NumR) with Rdiv. change (@nmul R NumR) with Rmult. change (@nltb R NumR) with Rlt_bool.
        rewrite (dotJ_restr (sl_s (get st i)) q Hsi Hq), (dotJ_restr (sl_y (get st i)) (sl_y (get st i)) Hyi Hyi).
        fold sJ yJ ρ.
        set (a := ρ * rdot sJ (restr J q)).
        set (st' := set_α st i a).
        set (q' := axmyJ J fJ a (sl_y (get st i)) q).
        set (γ' := if Rlt_bool γ 0 then 1 / (ρ * rdot yJ yJ) else γ).
        destruct (axmyJ_restr a (sl_y (get st i)) q Hyi Hq) as [Hoff' Hr']. fold q' yJ in Hoff', Hr'.
        assert (Hq' : length q' = n) by (destruct Hoff' as [Hl _]; congruence).
        assert (Hsy' : forall j, sy (get st' j) = sy (get st j)) by (intros; unfold st'; apply sy_set_α).
        specialize (IH st' q' γ' Hnd').
        destruct (mrev_loop pw P J fJ l st' q' γ') as [[st1 q1] γ1] eqn:Hm.
        rewrite (map_rp_ext st st' l Hsy'), Hr' in IH.
        destruct IH as (Hoff & Hneg & Hpos).
        { intros j Hj. unfold st'.
          destruct (set_α_shape st i a) as (_ & _ & _ & Hh1).
          rewrite Hh1. apply Hb; right; exact Hj. }
        { exact Hq'. }
        { intros j Hj. specialize (Hsy' j). unfold sy in Hsy'. injection Hsy' as E1 E2. unfold lens. rewrite E1, E2. apply Hlen; right; exact Hj. }
        destruct (MTL (map (fun i0 => rp (get st i0)) l) γ' (raxmy a yJ (restr J q))) as [ok r] eqn:HM. cbn [fst snd] in *.
        split; [eapply sameoff_trans; eauto|]. split.
        * intros Hg. rewrite (Hneg Hg). reflexivity.
        * intros Hg. destruct (Hpos Hg) as (-> & Hqf). cbn [fst snd]. split; [reflexivity|].
          cbn zeta in *. destruct Hqf as [Hqoff Hqr]. cbn [rev]. rewrite mfwd_loop_app. cbn [mfwd_loop].
          assert (Hgi : get st1 i = get st' i).
          { pose proof (mrev_loop_frame l st' q' γ' i Hni) as Hx. rewrite Hm in Hx. exact Hx. }
          rewrite Hgi. unfold st'. rewrite get_set_α_same by exact Hih. unfold α_is_nan. cbn [sl_ρ sl_s sl_y sl_α sl_skip orb].
          change (@nisnan R NumR a) with false. cbv iota.
          set (qf' := mfwd_loop J fJ (rev l) st1 (scalJ J fJ γ1 q1)) in *.
          assert (Hqf' : length qf' = n) by (destruct Hqoff as [Hl _]; congruence).
          change (@n1 R NumR) with 1. change (@ndiv R NumR) with Rdiv.
          change (@nmul R NumR) with Rmult. change (@nsub R NumR) with Rminus.
          (* the second loop recomputes the restricted ρ from the same dot product *)
          rewrite (dotJ_restr (sl_s (get st i)) (sl_y (get st i)) Hsi Hyi). fold sJ yJ ρ.
          rewrite (dotJ_restr (sl_y (get st i)) qf' Hyi Hqf'). fold yJ. rewrite Hqr.
          destruct (axmyJ_restr (ρ * rdot yJ r - a) (sl_s (get st i)) qf' Hsi Hqf') as [Hoff2 Hr2].
          split.
          -- eapply sameoff_trans; [|exact Hoff2]. eapply sameoff_trans; [exact Hoff'|exact Hqoff].
          -- rewrite Hr2, Hqr. reflexivity.
  Qed.
End Ops.

(* the plan read off the stored slots (newest first) *)
Definition masked_plan (pw : R -> R -> R) (P : params R) (J : list nat) (slots_newest_first : list (slot R)) (γ : R) :=
  plan pw P (map (rp J) slots_newest_first) γ.

Lemma apply_masked_restricted_q (pw : R -> R -> R) (P : params R) st q γ J :
  inv P st -> is_empty st = false -> cbfgs_on P = false ->
  NoDup J -> (forall j, In j J -> (j < length q)%nat) ->
  (length J = length q -> J = seq 0 (length q)) ->
  (forall sl, In sl (hist st) -> length (sl_s sl) = length q /\ length (sl_y sl) = length q) ->
  let r := apply_masked pw P st q γ J in
  let '(kept, γ', ok) := masked_plan pw P J (rev (hist st)) (if p_curvature P then -1 else γ) in
  (forall j, ~ In j J -> nth j (snd (fst r)) 0 = nth j q 0) /\
  length (snd (fst r)) = length q /\
  if ok then fst (fst r) = MRet true /\ restr J (snd (fst r)) = Hop kept γ' (restr J q)
  else fst (fst r) = MRet false.
Proof.
  intros Hinv He Hcb Hnd Hb Hfull Hlen. cbn zeta.
  unfold apply_masked. rewrite He, Hcb.
  set (fJ := (length q =? length J)%nat).
  assert (HfJ : fJ = true -> J = seq 0 (length q)).
  { unfold fJ. intros E. apply Nat.eqb_eq in E. apply Hfull. congruence. }
  set (γ0 := if p_curvature P then (- n1)%num else γ).
  assert (Eγ0 : γ0 = (if p_curvature P then -1 else γ)) by reflexivity.
  pose proof (mloops J (length q) Hnd Hb fJ HfJ pw P (rev_idx st) st q γ0) as Hml.
  destruct (mrev_loop pw P J fJ (rev_idx st) st q γ0) as [[st1 q1] γ1] eqn:Hm.
  assert (Hmap : map (fun i => rp J (get st i)) (rev_idx st) = map (rp J) (rev (hist st))).
  { unfold hist. rewrite <- map_rev, <- rev_idx_is_rev_fwd, map_map. reflexivity. }
  rewrite Hmap in Hml. cbn zeta in Hml.
  destruct Hml as (Hoff & Hneg & Hpos).
  { rewrite rev_idx_is_rev_fwd. apply NoDup_rev. eapply fwd_idx_NoDup; eauto. }
  { intros i Hi. rewrite rev_idx_is_rev_fwd in Hi. apply in_rev in Hi. eapply fwd_idx_bound; eauto. }
  { reflexivity. }
  { intros i Hi. rewrite rev_idx_is_rev_fwd in Hi. apply in_rev in Hi. apply Hlen. unfold hist. apply in_map. exact Hi. }
  unfold masked_plan. rewrite <- Eγ0.
  pose proof (MTL_plan pw P (map (rp J) (rev (hist st))) γ0 (restr J q)) as Hpl.
  destruct (plan pw P (map (rp J) (rev (hist st))) γ0) as [[kept γ'] ok]. destruct Hpl as [Hfst Hsnd].
  change (@nltb R NumR γ1 (@n0 R NumR)) with (Rlt_bool γ1 0).
  destruct (Rlt_bool γ1 0) eqn:Hg; cbn [fst snd].
  - destruct Hoff as [Hl Ho]. split; [exact Ho|]. split; [exact Hl|].
    rewrite (Hneg eq_refl) in Hfst. subst ok. reflexivity.
  - destruct (Hpos eq_refl) as (Hok & [Hl Ho] & Hr).
    rewrite rev_idx_is_rev_fwd, rev_involutive in Ho, Hl, Hr.
    split; [exact Ho|]. split; [exact Hl|].
    rewrite Hok in Hfst. subst ok. split; [reflexivity|]. rewrite Hr. apply Hsnd. reflexivity.
Qed.

(* the same, together with what apply_masked does NOT do: the stored history, its ρ included, is unchanged *)
Theorem apply_masked_restricted (pw : R -> R -> R) (P : params R) st q γ J :
  inv P st -> is_empty st = false -> cbfgs_on P = false ->
  NoDup J -> (forall j, In j J -> (j < length q)%nat) ->
  (length J = length q -> J = seq 0 (length q)) ->
  (forall sl, In sl (hist st) -> length (sl_s sl) = length q /\ length (sl_y sl) = length q) ->
  let r := apply_masked pw P st q γ J in
  let '(kept, γ', ok) := masked_plan pw P J (rev (hist st)) (if p_curvature P then -1 else γ) in
  (hist3 (snd r) = hist3 st /\ (forall j, sl_ρ (get (snd r) j) = sl_ρ (get st j)) /\ (rho_ok st -> rho_ok (snd r))) /\
  (forall j, ~ In j J -> nth j (snd (fst r)) 0 = nth j q 0) /\
  length (snd (fst r)) = length q /\
  if ok then fst (fst r) = MRet true /\ restr J (snd (fst r)) = Hop kept γ' (restr J q)
  else fst (fst r) = MRet false.
Proof.
  intros Hinv He Hcb Hnd Hb Hfull Hlen. cbn zeta.
  pose proof (apply_masked_restricted_q pw P st q γ J Hinv He Hcb Hnd Hb Hfull Hlen) as Hq. cbn zeta in Hq.
  pose proof (apply_masked_keeps_history pw P st q γ J) as (Hh & Hg & _ & Hr). cbn zeta in Hh, Hg, Hr.
  destruct (masked_plan pw P J (rev (hist st)) (if p_curvature P then -1 else γ)) as [[kept γ'] ok].
  split; [|exact Hq]. split; [exact Hh|]. split; [|exact Hr]. intros j. apply (Hg j).
Qed.

(* ---------------------------------------------------------------- positive curvature is an invariant of the history
   when it is enforced: force_pos_def, nonnegative thresholds, no forced update, scale_y only by positive factors *)
Definition poscurv (p : pair R) : Prop := 0 < rdot (snd p) (fst p).
Definition enforcing (o : op R) : Prop :=
  match o with
  | OUpdSy _ _ _ forced => forced = false
  | OUpd _ _ _ _ _ forced => forced = false
  | OScale f => 0 < f
  | _ => True
  end.

Lemma abs_step_poscurv pw (P : params R) h o :
  p_force_pos_def P = true -> 0 <= p_min_div_fac P -> 0 <= p_min_abs_s P ->
  Forall poscurv h -> enforcing o -> Forall poscurv (abs_step pw P h o).
Proof.
  intros Hf H1 H2 Hh He. destruct o as [s y pp forced|xk xn pk pn sg forced|q γ|q γ J| |n|f]; cbn [abs_step enforcing] in *; auto.
  - subst forced. unfold accepted. cbn [orb]. destruct (update_valid pw P (vdot y s) (vsqnorm s) pp) eqn:Hv; [|exact Hh].
    apply Forall_push; [exact Hh|]. unfold poscurv; cbn [fst snd]. rewrite <- vdot_rdot.
    eapply accepted_positive_curvature; eauto.
  - subst forced. unfold accepted. cbn [orb].
    match goal with |- context [update_valid pw P (vdot ?y ?s) ?a ?b] => destruct (update_valid pw P (vdot y s) a b) eqn:Hv; [|exact Hh];
      apply Forall_push; [exact Hh|]; unfold poscurv; cbn [fst snd]; rewrite <- vdot_rdot; eapply accepted_positive_curvature; eauto end.
  - destruct (p_memory P <? 1)%nat; auto.
  - apply Forall_map. eapply Forall_impl; [|exact Hh]. intros [s y] Hp. unfold poscurv in *; cbn [fst snd] in *.
    change (@nmul R NumR) with Rmult. rewrite rdot_map_mul_r. nra.
Qed.

Lemma abs_run_poscurv pw (P : params R) ops : forall h,
  p_force_pos_def P = true -> 0 <= p_min_div_fac P -> 0 <= p_min_abs_s P ->
  Forall poscurv h -> Forall enforcing ops -> Forall poscurv (abs_run pw P ops h).
Proof.
  induction ops as [|o ops IH]; intros h Hf H1 H2 Hh He; cbn [abs_run fold_left]; [exact Hh|].
  apply Forall_cons_iff in He as [Ho He]. apply IH; auto. apply abs_step_poscurv; auto.
Qed.

Lemma rdot_self_zero y : rdot y y = 0 -> forall s, rdot y s = 0.
Proof.
  induction y as [|u y IH]; intros Hz [|w s]; cbn in *; try lra.
  pose proof (rdot_self_nonneg y). assert (u = 0) by nra. subst u. rewrite IH by nra. lra.
Qed.

Lemma doc_γ_pos (P : params R) h γ : h <> [] -> Forall poscurv h ->
  p_curvature P = true \/ γ <> 0 -> 0 < doc_γ P h γ.
Proof.
  intros Hne Hh Hc. unfold doc_γ.
  destruct (rev h) as [|[s y] l] eqn:Hr.
  { exfalso. apply Hne. rewrite <- (rev_involutive h), Hr. reflexivity. }
  assert (Hp : poscurv (s, y)).
  { rewrite Forall_forall in Hh. apply Hh. apply in_rev. rewrite Hr. left; reflexivity. }
  unfold poscurv in Hp; cbn [fst snd] in Hp.
  assert (Hyy : 0 < rdot y y).
  { destruct (Rle_lt_or_eq_dec 0 _ (rdot_self_nonneg y)) as [|E]; [assumption|]. rewrite (rdot_self_zero y (eq_sym E)) in Hp. lra. }
  assert (Hg : 0 < vdot y s / vsqnorm y) by (rewrite vdot_rdot, vsqnorm_rdot; apply Rdiv_lt_0_compat; assumption).
  change (@nltb R NumR γ (@n0 R NumR)) with (Rlt_bool γ 0).
  destruct (p_curvature P); cbn [orb]; [exact Hg|].
  destruct (Rlt_bool_spec γ 0); [exact Hg|]. destruct Hc as [Hc|Hc]; [discriminate|lra].
Qed.

(* positive definite when positive curvature is enforced, for every operation sequence *)
Theorem posdef_when_enforced pw (P : params R) ops n γ :
  p_force_pos_def P = true -> 0 <= p_min_div_fac P -> 0 <= p_min_abs_s P ->
  Forall enforcing ops ->
  let h := abs_run pw P ops [] in
  wf n h -> h <> [] -> (p_curvature P = true \/ γ <> 0) ->
  forall v, length v = n -> 0 < rdot v v -> 0 < rdot (Hbfgs h (doc_γ P h γ) v) v.
Proof.
  intros Hf H1 H2 He h Hwf Hne Hc v Hv Hvv.
  assert (Hh : Forall poscurv h) by (apply abs_run_poscurv; auto).
  unfold Hbfgs. apply (Hop_posdef n); auto.
  - apply Forall_rev. exact Hwf.
  - apply doc_γ_pos; auto.
  - apply Forall_rev. exact Hh.
Qed.
