(* LbfgsProofs.v — proofs about the L-BFGS model (Lbfgs.v).
   Part A (any number system): circular buffer refines the bounded abstract history, for every operation.
   Part B (any number system): the two loops over the buffer = the recursive two-loop over the stored slots.
   Part C (over R): the recursion is the dense BFGS inverse Hessian; symmetric, secant, positive definite. *)
From Coq Require Import List ZArith Bool Arith Lia Permutation.
From Alpaqa Require Import Num Vec Lbfgs.
Import ListNotations.

Section Ring.
  Context {T : Type} `{Num T}.
  Variable pw : T -> T -> T.
  Local Open Scope num_scope.

  (* ---------- lists *)
  Lemma upd_length {A} (l : list A) i x : length (upd l i x) = length l.
  Proof. revert i; induction l; intros [|i]; cbn; auto. Qed.
  Lemma nth_upd_eq {A} (l : list A) i x d : (i < length l)%nat -> nth i (upd l i x) d = x.
  Proof. revert i; induction l; intros [|i]; cbn; intros; try lia; auto. apply IHl; lia. Qed.
  Lemma nth_upd_neq {A} (l : list A) i j x d : i <> j -> nth j (upd l i x) d = nth j l d.
  Proof. revert i j; induction l; intros [|i] [|j]; cbn; intros; try lia; auto. Qed.

  Lemma push_length {A} mem (h : list A) x : (1 <= mem)%nat -> (length h <= mem)%nat -> (length (push mem h x) <= mem)%nat.
  Proof.
    intros. unfold push. destruct (Nat.ltb_spec (length h) mem); rewrite app_length; cbn; [lia|].
    destruct h; cbn in *; lia.
  Qed.
  Lemma map_push {A B} (f : A -> B) mem h x : map f (push mem h x) = push mem (map f h) (f x).
  Proof.
    unfold push. rewrite map_length. destruct (length h <? mem)%nat; rewrite map_app; cbn; [reflexivity|].
    destruct h; reflexivity.
  Qed.
  Lemma Forall_push {A} (Q : A -> Prop) mem h x : Forall Q h -> Q x -> Forall Q (push mem h x).
  Proof.
    intros Hh Hx. unfold push. destruct (length h <? mem)%nat; apply Forall_app; split; auto.
    destruct h; cbn; auto. inversion Hh; auto.
  Qed.

  (* ---------- invariant of the buffer *)
  Definition inv (P : params T) (st : state T) : Prop :=
    history st = p_memory P /\ (1 <= p_memory P)%nat /\ (st_idx st < history st)%nat.

  Lemma resize_inv P n st : resize P n = Some st -> inv P st.
  Proof.
    unfold resize. destruct (Nat.ltb_spec (p_memory P) 1); [discriminate|]. intros [= <-].
    unfold inv, history; cbn. rewrite repeat_length. lia.
  Qed.

  (* what the public accessors show of a slot: (s, y, ρ) *)
  Definition syρ (sl : slot T) : list T * list T * option T := (sl_s sl, sl_y sl, sl_ρ sl).
  Definition hist3 (st : state T) := map syρ (hist st).
  Definition pair_of3 (t : list T * list T * option T) : pair T := (fst (fst t), snd (fst t)).
  Lemma pairs_hist3 (st : state T) : pairs st = map pair_of3 (hist3 st).
  Proof. unfold pairs, hist3. rewrite map_map. reflexivity. Qed.

  (* ---------- iteration orders *)
  Lemma rev_idx_is_rev_fwd (st : state T) : rev_idx st = rev (fwd_idx st).
  Proof. unfold rev_idx, fwd_idx. rewrite rev_app_distr. destruct (st_full st); reflexivity. Qed.

  Lemma fwd_idx_length P st : inv P st -> length (fwd_idx st) = current_history st.
  Proof.
    intros (Hh & Hm & Hi). unfold fwd_idx, current_history. rewrite app_length, seq_length.
    destruct (st_full st); cbn; rewrite ?seq_length; lia.
  Qed.
  Lemma fwd_idx_bound P st i : inv P st -> In i (fwd_idx st) -> (i < history st)%nat.
  Proof.
    intros (Hh & Hm & Hi). unfold fwd_idx. rewrite in_app_iff. intros [Hin|Hin].
    - destruct (st_full st); [|contradiction]. apply in_seq in Hin. lia.
    - apply in_seq in Hin. lia.
  Qed.
  Lemma fwd_idx_live P st i : inv P st -> In i (fwd_idx st) -> (i < current_history st)%nat.
  Proof.
    intros (Hh & Hm & Hi). unfold fwd_idx, current_history. rewrite in_app_iff. intros [Hin|Hin].
    - destruct (st_full st); [|contradiction]. apply in_seq in Hin. lia.
    - apply in_seq in Hin. destruct (st_full st); lia.
  Qed.
  Lemma fwd_idx_NoDup P st : inv P st -> NoDup (fwd_idx st).
  Proof.
    intros (Hh & Hm & Hi). unfold fwd_idx. destruct (st_full st); cbn [app]; [|apply seq_NoDup].
    eapply Permutation.Permutation_NoDup; [apply Permutation.Permutation_app_comm|].
    replace (history st - st_idx st)%nat with (history st - st_idx st)%nat by reflexivity.
    pose proof (seq_app (st_idx st) (history st - st_idx st) 0) as Hs. cbn [Nat.add] in Hs. rewrite <- Hs. apply seq_NoDup.
  Qed.
  Lemma current_history_length P st : inv P st -> current_history st = length (hist st) /\ (length (hist st) <= p_memory P)%nat.
  Proof.
    intros Hinv. unfold hist. rewrite map_length, (fwd_idx_length P st Hinv). split; [reflexivity|].
    destruct Hinv as (Hh & Hm & Hi). unfold current_history. destruct (st_full st); lia.
  Qed.

  (* ---------- update: accepted pair appended, oldest dropped beyond memory; rejected: state unchanged *)
  Lemma map_get_upd_other st j sl l :
    ~ In j l -> map (get (set_slot st j sl)) l = map (get st) l.
  Proof.
    intros Hn. apply map_ext_in. intros i Hi. unfold get, set_slot; cbn.
    apply nth_upd_neq. intros ->; contradiction.
  Qed.

  Definition fwd_list (h i : nat) (full : bool) : list nat := (if full then seq i (h - i) else []) ++ seq 0 i.
  Lemma fwd_list_store (h i : nat) (full : bool) : (i < h)%nat ->
    let i' := if (S i <? h)%nat then S i else 0%nat in
    let pre := if full then tl (fwd_list h i full) else fwd_list h i full in
    fwd_list h i' (full || (i' =? 0)%nat) = pre ++ [i] /\ ~ In i pre.
  Proof.
    intros Hi. cbn zeta. unfold fwd_list. destruct (Nat.ltb_spec (S i) h) as [Hlt|Hge].
    - replace (S i =? 0)%nat with false by reflexivity. rewrite orb_false_r, (seq_S i 0). cbn [Nat.add]. destruct full.
      + replace (h - i)%nat with (S (h - S i)) by lia. cbn [seq app tl]. rewrite app_assoc. split; [reflexivity|].
        rewrite in_app_iff, !in_seq. lia.
      + cbn [app]. split; [reflexivity|]. rewrite in_seq. lia.
    - assert (h = S i) by lia. subst h. replace (0 =? 0)%nat with true by reflexivity. rewrite orb_true_r.
      rewrite Nat.sub_0_r, (seq_S i 0). cbn [Nat.add]. change (seq 0 0) with (@nil nat). rewrite app_nil_r. destruct full.
      + replace (S i - i)%nat with 1%nat by lia. cbn [seq app tl]. split; [reflexivity|]. rewrite in_seq. lia.
      + cbn [app]. split; [reflexivity|]. rewrite in_seq. lia.
  Qed.

  Lemma hist_store P st sl :
    inv P st ->
    let i := st_idx st in
    let i' := succ st i in
    let st' := {| st_n := st_n st; st_idx := i'; st_full := st_full st || (i' =? 0)%nat;
                  st_slots := st_slots (set_slot st i sl) |} in
    hist st' = push (p_memory P) (hist st) sl /\ inv P st'.
  Proof.
    intros (Hh & Hm & Hi) i i' st'.
    assert (Hh' : history st' = history st) by (unfold history, st'; cbn; apply upd_length).
    assert (Hget : forall l, ~ In i l -> map (get st') l = map (get st) l).
    { intros l Hl. apply map_ext_in. intros j Hj. unfold get, st'; cbn. apply nth_upd_neq. intros ->; contradiction. }
    assert (Hgi : get st' i = sl).
    { unfold get, st'; cbn. apply nth_upd_eq. exact Hi. }
    split.
    2:{ unfold inv. rewrite Hh'. repeat split; auto. unfold st', i', succ; cbn [st_idx].
        destruct (Nat.ltb_spec (S i) (history st)); lia. }
    destruct (fwd_list_store (history st) i (st_full st) Hi) as [Hfl Hni]. cbn zeta in Hfl, Hni.
    assert (Hf' : fwd_idx st' = fwd_list (history st) i' (st_full st || (i' =? 0)%nat)).
    { unfold fwd_idx, fwd_list. rewrite Hh'. reflexivity. }
    assert (Hf0 : fwd_idx st = fwd_list (history st) i (st_full st)) by reflexivity.
    unfold hist. rewrite Hf'. unfold i', succ. rewrite Hfl, map_app. cbn [map]. rewrite Hgi, (Hget _ Hni).
    unfold push. rewrite map_length, Hf0.
    assert (Hlen : length (fwd_list (history st) i (st_full st)) = if st_full st then history st else i).
    { unfold fwd_list. rewrite app_length, seq_length. destruct (st_full st); cbn [length]; rewrite ?seq_length; lia. }
    rewrite Hlen. destruct (st_full st).
    - destruct (Nat.ltb_spec (history st) (p_memory P)); [lia|]. f_equal.
      destruct (fwd_list (history st) i true); reflexivity.
    - destruct (Nat.ltb_spec i (p_memory P)); [reflexivity|lia].
  Qed.

  Lemma update_sy_spec P st s y pp forced :
    inv P st ->
    let r := update_sy pw P st s y pp forced in
    fst r = accepted pw P s y pp forced /\
    inv P (snd r) /\
    (fst r = false -> snd r = st) /\
    (fst r = true -> hist3 (snd r) = push (p_memory P) (hist3 st) (s, y, Some (n1 / vdot y s))).
  Proof.
    intros Hinv r. subst r. unfold update_sy, accepted.
    destruct forced; cbn [negb andb orb].
    - cbn [fst snd]. pose proof (hist_store P st {| sl_s := s; sl_y := y; sl_ρ := Some (n1 / vdot y s); sl_α := sl_α (get st (st_idx st)); sl_skip := sl_skip (get st (st_idx st)) |} Hinv) as [Hh Hi].
      cbn zeta in Hh, Hi. split; [reflexivity|]. split; [exact Hi|]. split; [discriminate|]. intros _. unfold hist3. rewrite Hh, map_push. reflexivity.
    - destruct (update_valid pw P (vdot y s) (vsqnorm s) pp); cbn [negb fst snd].
      + pose proof (hist_store P st {| sl_s := s; sl_y := y; sl_ρ := Some (n1 / vdot y s); sl_α := sl_α (get st (st_idx st)); sl_skip := sl_skip (get st (st_idx st)) |} Hinv) as [Hh Hi].
        cbn zeta in Hh, Hi. split; [reflexivity|]. split; [exact Hi|]. split; [discriminate|]. intros _. unfold hist3. rewrite Hh, map_push. reflexivity.
      + split; [reflexivity|]. split; [exact Hinv|]. split; [reflexivity|discriminate].
  Qed.

  (* ---------- slots touched only in α / ρ keep the history *)
  Definition same_shape (st st' : state T) : Prop :=
    st_n st' = st_n st /\ st_idx st' = st_idx st /\ st_full st' = st_full st /\ history st' = history st.
  Lemma same_shape_refl st : same_shape st st. Proof. repeat split. Qed.
  Lemma same_shape_trans a b c : same_shape a b -> same_shape b c -> same_shape a c.
  Proof. unfold same_shape. intuition congruence. Qed.
  Lemma same_shape_inv P st st' : same_shape st st' -> inv P st -> inv P st'.
  Proof. unfold same_shape, inv. intros (? & ? & ? & ?) (? & ? & ?). repeat split; try congruence; lia. Qed.
  Lemma same_shape_fwd st st' : same_shape st st' -> fwd_idx st' = fwd_idx st.
  Proof. intros (? & Hi & Hf & Hh). unfold fwd_idx. rewrite Hi, Hf, Hh. reflexivity. Qed.
  Lemma same_shape_rev st st' : same_shape st st' -> rev_idx st' = rev_idx st.
  Proof. intros Hs. rewrite !rev_idx_is_rev_fwd, (same_shape_fwd _ _ Hs). reflexivity. Qed.

  Lemma set_slot_shape st i sl : same_shape st (set_slot st i sl).
  Proof. unfold same_shape, set_slot, history; cbn. rewrite upd_length. auto. Qed.
  Lemma set_α_shape st i a : same_shape st (set_α st i a).
  Proof. apply set_slot_shape. Qed.
  Lemma set_mark_shape st i : same_shape st (set_mark st i).
  Proof. apply set_slot_shape. Qed.

  Lemma get_set_slot_other st i j sl : i <> j -> get (set_slot st i sl) j = get st j.
  Proof. intros. unfold get, set_slot; cbn. apply nth_upd_neq; assumption. Qed.
  Lemma get_set_slot_same st i sl : (i < history st)%nat -> get (set_slot st i sl) i = sl.
  Proof. intros. unfold get, set_slot; cbn. apply nth_upd_eq; assumption. Qed.
  Lemma get_out_of_range st i : (history st <= i)%nat -> get st i = slot0 0.
  Proof. intros. unfold get. apply nth_overflow. assumption. Qed.

  (* pairs (s, y) of every slot *)
  Definition sy (sl : slot T) : pair T := (sl_s sl, sl_y sl).
  (* rewriting slot i with the same (s, y, ρ) keeps (s, y, ρ) of every slot *)
  Lemma syρ_set_slot_same st i sl j : syρ sl = syρ (get st i) -> syρ (get (set_slot st i sl) j) = syρ (get st j).
  Proof.
    intros Hsl. destruct (Nat.eq_dec i j) as [->|Hne]; [|rewrite get_set_slot_other by assumption; reflexivity].
    destruct (Nat.lt_ge_cases j (history st)).
    - rewrite get_set_slot_same by assumption. exact Hsl.
    - rewrite !get_out_of_range; auto. destruct (set_slot_shape st j sl) as (_ & _ & _ & Hh). rewrite Hh; assumption.
  Qed.
  Lemma syρ_set_α st i a j : syρ (get (set_α st i a) j) = syρ (get st j).
  Proof. unfold set_α. apply syρ_set_slot_same. reflexivity. Qed.
  Lemma syρ_set_mark st i j : syρ (get (set_mark st i) j) = syρ (get st j).
  Proof. unfold set_mark. apply syρ_set_slot_same. reflexivity. Qed.
  Lemma sy_of_syρ (a b : slot T) : syρ a = syρ b -> sy a = sy b.
  Proof. unfold syρ, sy. intros E. injection E as -> -> _. reflexivity. Qed.
  Lemma sy_set_α st i a j : sy (get (set_α st i a) j) = sy (get st j).
  Proof. apply sy_of_syρ, syρ_set_α. Qed.
  Lemma sy_set_mark st i j : sy (get (set_mark st i) j) = sy (get st j).
  Proof. apply sy_of_syρ, syρ_set_mark. Qed.

  (* first loop of apply: only α changes *)
  Lemma rev_loop_shape l : forall st q, same_shape st (fst (rev_loop l st q)).
  Proof.
    induction l as [|i l IH]; intros st q; cbn [rev_loop]; [apply same_shape_refl|].
    eapply same_shape_trans; [apply set_α_shape|apply IH].
  Qed.
  Lemma rev_loop_syρ l : forall st q j, syρ (get (fst (rev_loop l st q)) j) = syρ (get st j).
  Proof.
    induction l as [|i l IH]; intros st q j; cbn [rev_loop]; [reflexivity|].
    rewrite IH. apply syρ_set_α.
  Qed.
  Lemma rev_loop_frame l : forall st q j, ~ In j l -> get (fst (rev_loop l st q)) j = get st j.
  Proof.
    induction l as [|i l IH]; intros st q j Hn; cbn [rev_loop]; [reflexivity|].
    rewrite IH by (intro; apply Hn; right; assumption).
    unfold set_α. apply get_set_slot_other. intros ->. apply Hn. left; reflexivity.
  Qed.

  Lemma hist3_same st st' :
    same_shape st st' -> (forall j, syρ (get st' j) = syρ (get st j)) -> hist3 st' = hist3 st.
  Proof.
    intros Hs Hg. unfold hist3, hist. rewrite (same_shape_fwd _ _ Hs), !map_map. apply map_ext. intros; apply Hg.
  Qed.
  Lemma pairs_same st st' :
    same_shape st st' -> (forall j, sy (get st' j) = sy (get st j)) -> pairs st' = pairs st.
  Proof.
    intros Hs Hg. unfold pairs, hist. rewrite (same_shape_fwd _ _ Hs), !map_map. apply map_ext. intros; apply Hg.
  Qed.

  Lemma apply_spec P st q γ :
    let r := apply P st q γ in
    same_shape st (snd r) /\ hist3 (snd r) = hist3 st /\ (is_empty st = true -> r = (false, q, st)).
  Proof.
    unfold apply. destruct (is_empty st) eqn:He; cbn zeta.
    - cbn [snd]. repeat split; auto.
    - destruct (rev_loop (rev_idx st) st q) as [st1 q1] eqn:Hr. cbn [snd].
      assert (Hs : same_shape st st1) by (pose proof (rev_loop_shape (rev_idx st) st q) as Hx; rewrite Hr in Hx; exact Hx).
      split; [exact Hs|]. split; [|discriminate].
      apply hist3_same; [exact Hs|]. intros j. pose proof (rev_loop_syρ (rev_idx st) st q j) as Hx. rewrite Hr in Hx. exact Hx.
  Qed.

  (* masked first loop: only the workspace α (value and NaN mark) changes; s, y and the stored ρ of EVERY slot stay *)
  Lemma mrev_loop_shape P J fJ l : forall st q γ, same_shape st (fst (fst (mrev_loop pw P J fJ l st q γ))).
  Proof.
    induction l as [|i l IH]; intros st q γ; cbn [mrev_loop]; [apply same_shape_refl|].
    cbn zeta. destruct (negb _).
    - eapply same_shape_trans; [apply set_mark_shape|apply IH].
    - eapply same_shape_trans; [apply set_α_shape|apply IH].
  Qed.
  Lemma mrev_loop_syρ P J fJ l : forall st q γ j, syρ (get (fst (fst (mrev_loop pw P J fJ l st q γ))) j) = syρ (get st j).
  Proof.
    induction l as [|i l IH]; intros st q γ j; cbn [mrev_loop]; [reflexivity|].
    cbn zeta. destruct (negb _); rewrite IH.
    - apply syρ_set_mark.
    - apply syρ_set_α.
  Qed.
  Lemma mrev_loop_sy P J fJ l : forall st q γ j, sy (get (fst (fst (mrev_loop pw P J fJ l st q γ))) j) = sy (get st j).
  Proof. intros. apply sy_of_syρ, mrev_loop_syρ. Qed.

  (* apply_masked never writes s, y or ρ: every slot keeps them, hence the stored history (with its ρ) is unchanged *)
  Lemma apply_masked_spec P st q γ J :
    let r := apply_masked pw P st q γ J in
    same_shape st (snd r) /\ (forall j, syρ (get (snd r) j) = syρ (get st j)) /\
    hist3 (snd r) = hist3 st /\ pairs (snd r) = pairs st.
  Proof.
    cbn zeta.
    assert (G : same_shape st (snd (apply_masked pw P st q γ J)) /\ (forall j, syρ (get (snd (apply_masked pw P st q γ J)) j) = syρ (get st j))).
    { unfold apply_masked. destruct (is_empty st); cbn zeta; [split; [apply same_shape_refl|reflexivity]|].
      destruct (cbfgs_on P); [split; [apply same_shape_refl|reflexivity]|].
      destruct (mrev_loop pw P J _ (rev_idx st) st q _) as [[st1 q1] γ1] eqn:Hr.
      assert (Hs : same_shape st st1).
      { pose proof (mrev_loop_shape P J (length q =? length J)%nat (rev_idx st) st q (if p_curvature P then - n1 else γ)) as Hx.
        rewrite Hr in Hx. exact Hx. }
      assert (Hp : forall j, syρ (get st1 j) = syρ (get st j)).
      { intros j. pose proof (mrev_loop_syρ P J (length q =? length J)%nat (rev_idx st) st q (if p_curvature P then - n1 else γ) j) as Hx.
        rewrite Hr in Hx. exact Hx. }
      destruct (γ1 <? n0); cbn [snd]; auto. }
    destruct G as [Hs Hg]. split; [exact Hs|]. split; [exact Hg|]. split.
    - apply hist3_same; assumption.
    - apply pairs_same; [exact Hs|]. intros j. apply sy_of_syρ, Hg.
  Qed.

  (* ---------- reset / resize / scale_y *)
  Lemma reset_spec P st : inv P st -> inv P (reset st) /\ hist3 (reset st) = [].
  Proof.
    intros (Hh & Hm & Hi). split; [unfold inv, reset, history in *; cbn; lia|]. reflexivity.
  Qed.
  Lemma resize_hist3 P n st : resize P n = Some st -> hist3 st = [].
  Proof. unfold resize. destruct (p_memory P <? 1)%nat; [discriminate|]. intros [= <-]. reflexivity. Qed.

  Lemma scale_first_length k f l : length (scale_first k f l) = length l.
  Proof. revert l; induction k; intros [|a l]; cbn; auto. Qed.
  Lemma nth_scale_first k f l i d : (i < k)%nat -> (i < length l)%nat ->
    nth i (scale_first k f l) d = scale_slot f (nth i l d).
  Proof.
    revert l i; induction k; intros [|a l] [|i]; cbn; intros; try lia; auto. apply IHk; lia.
  Qed.
  Definition scale3 (f : T) (t : list T * list T * option T) : list T * list T * option T :=
    (fst (fst t), map (fun x => x * f) (snd (fst t)), option_map (fun r => r * (n1 / f)) (snd t)).
  Lemma scale_y_spec P st f : inv P st -> inv P (scale_y st f) /\ hist3 (scale_y st f) = map (scale3 f) (hist3 st).
  Proof.
    intros Hinv. assert (Hs : same_shape st (scale_y st f)).
    { unfold same_shape, scale_y, history; cbn. rewrite scale_first_length. auto. }
    split; [eapply same_shape_inv; eauto|].
    unfold hist3, hist. rewrite (same_shape_fwd _ _ Hs), !map_map. apply map_ext_in. intros i Hi.
    unfold get at 1, scale_y; cbn [st_slots]. rewrite nth_scale_first.
    - reflexivity.
    - eapply fwd_idx_live; eauto.
    - eapply fwd_idx_bound; eauto.
  Qed.

  (* ---------- every operation refines the abstract bounded history *)
  Lemma map_pair_of3_scale f h :
    map pair_of3 (map (scale3 f) h) = map (fun p : pair T => (fst p, map (fun x => x * f) (snd p))) (map pair_of3 h).
  Proof. rewrite !map_map. apply map_ext. intros [[s y] r]. reflexivity. Qed.

  Lemma step_refines P st o :
    inv P st -> inv P (fst (step pw P st o)) /\ pairs (fst (step pw P st o)) = abs_step pw P (pairs st) o.
  Proof.
    intros Hinv. destruct o as [s y pp forced|xk xn pk pn sg forced|q γ|q γ J| |n|f]; cbn [step abs_step].
    - pose proof (update_sy_spec P st s y pp forced Hinv) as (Ha & Hi & Hf & Ht). cbn zeta in *.
      destruct (update_sy pw P st s y pp forced) as [b st'] eqn:Hu. cbn [fst snd] in *.
      split; [exact Hi|]. rewrite <- Ha. destruct b.
      + rewrite !pairs_hist3, Ht by reflexivity. rewrite map_push. reflexivity.
      + rewrite Hf by reflexivity. reflexivity.
    - unfold update.
      set (s := vsub xn xk). set (y := if sg then vsub pn pk else vsub pk pn). set (pp := if cbfgs_on P then vsqnorm pn else n0).
      pose proof (update_sy_spec P st s y pp forced Hinv) as (Ha & Hi & Hf & Ht). cbn zeta in *.
      destruct (update_sy pw P st s y pp forced) as [b st'] eqn:Hu. cbn [fst snd] in *.
      split; [exact Hi|]. rewrite <- Ha. destruct b.
      + rewrite !pairs_hist3, Ht by reflexivity. rewrite map_push. reflexivity.
      + rewrite Hf by reflexivity. reflexivity.
    - pose proof (apply_spec P st q γ) as (Hs & Hh & _). cbn zeta in *.
      destruct (apply P st q γ) as [[b q'] st'] eqn:Ha. cbn [fst snd] in *.
      split; [eapply same_shape_inv; eauto|]. rewrite !pairs_hist3, Hh. reflexivity.
    - pose proof (apply_masked_spec P st q γ J) as (Hs & _ & _ & Hp). cbn zeta in *.
      destruct (apply_masked pw P st q γ J) as [[b q'] st'] eqn:Ha. cbn [fst snd] in *.
      split; [eapply same_shape_inv; eauto|exact Hp].
    - destruct (reset_spec P st Hinv) as [Hi Hh]. cbn [fst]. split; [exact Hi|]. rewrite pairs_hist3, Hh. reflexivity.
    - destruct (resize P n) as [st'|] eqn:Hr; cbn [fst].
      + split; [eapply resize_inv; eauto|]. rewrite pairs_hist3, (resize_hist3 _ _ _ Hr).
        unfold resize in Hr. destruct (p_memory P <? 1)%nat; [discriminate|reflexivity].
      + split; [exact Hinv|]. unfold resize in Hr. destruct (p_memory P <? 1)%nat; [reflexivity|discriminate].
    - destruct (scale_y_spec P st f Hinv) as [Hi Hh]. cbn [fst]. split; [exact Hi|].
      rewrite !pairs_hist3, Hh. apply map_pair_of3_scale.
  Qed.

  Theorem run_refines P ops : forall st,
    inv P st -> inv P (run pw P ops st) /\ pairs (run pw P ops st) = abs_run pw P ops (pairs st).
  Proof.
    induction ops as [|o ops IH]; intros st Hinv; cbn [run abs_run fold_left]; [auto|].
    destruct (step_refines P st o Hinv) as [Hi Hp].
    destruct (IH _ Hi) as [Hi' Hp']. split; [exact Hi'|]. unfold run in Hp'. rewrite Hp'.
    unfold abs_run. rewrite Hp. reflexivity.
  Qed.

  (* from construction: every reachable state shows exactly the abstract history, and never more than `memory` pairs *)
  Theorem ring_refinement P n st0 ops :
    resize P n = Some st0 ->
    let st := run pw P ops st0 in
    pairs st = abs_run pw P ops [] /\
    current_history st = length (abs_run pw P ops []) /\
    (length (abs_run pw P ops []) <= p_memory P)%nat /\
    rev_idx st = rev (fwd_idx st) /\ NoDup (fwd_idx st).
  Proof.
    intros Hr st. pose proof (resize_inv _ _ _ Hr) as Hinv0.
    destruct (run_refines P ops st0 Hinv0) as [Hinv Hp]. fold st in Hinv, Hp.
    assert (Hp0 : pairs st0 = []) by (rewrite pairs_hist3, (resize_hist3 _ _ _ Hr); reflexivity).
    rewrite Hp0 in Hp. destruct (current_history_length P st Hinv) as [Hc Hl].
    assert (Hlen : length (hist st) = length (abs_run pw P ops [])) by (rewrite <- Hp; unfold pairs; rewrite map_length; reflexivity).
    split; [exact Hp|]. split; [congruence|]. split; [rewrite <- Hlen; exact Hl|].
    split; [apply rev_idx_is_rev_fwd|eapply fwd_idx_NoDup; eauto].
  Qed.

  (* ---------- Part B: the two loops = recursive two-loop over the stored slots (newest first) *)
  Fixpoint TLrec (newest_first : list (slot T)) (γ : T) (v : list T) : list T :=
    match newest_first with
    | [] => vscale γ v
    | sl :: older =>
        let ρ := ρval (sl_ρ sl) in
        let a := ρ * vdot (sl_s sl) v in
        let r := TLrec older γ (axmy a (sl_y sl) v) in
        axmy (ρ * vdot (sl_y sl) r - a) (sl_s sl) r
    end.

  Lemma fwd_loop_app l1 l2 st q : fwd_loop (l1 ++ l2) st q = fwd_loop l2 st (fwd_loop l1 st q).
  Proof. revert q; induction l1; intros q; cbn; auto. Qed.

  Lemma TLrec_ext_syρ l l' γ : Forall2 (fun a b => syρ a = syρ b) l l' -> forall v, TLrec l γ v = TLrec l' γ v.
  Proof.
    induction 1 as [|a b l l' Hab Hl IH]; intros v; cbn [TLrec]; [reflexivity|].
    destruct a, b. unfold syρ in Hab; cbn in *. injection Hab as -> -> ->. cbn zeta. rewrite IH. reflexivity.
  Qed.

  Lemma two_loop_rec l : forall st q γ,
    NoDup l -> (forall i, In i l -> (i < history st)%nat) ->
    fwd_loop (rev l) (fst (rev_loop l st q)) (vscale γ (snd (rev_loop l st q))) = TLrec (map (get st) l) γ q.
  Proof.
    induction l as [|i l IH]; intros st q γ Hnd Hb; [reflexivity|].
    inversion Hnd as [|? ? Hni Hnd']; subst.
    cbn [rev_loop rev map TLrec]. cbn zeta.
    set (sl := get st i). set (α := ρval (sl_ρ sl) * vdot (sl_s sl) q).
    set (st' := set_α st i α). set (q' := axmy α (sl_y sl) q).
    rewrite fwd_loop_app.
    assert (Hb' : forall j, In j l -> (j < history st')%nat).
    { intros j Hj. destruct (set_α_shape st i α) as (_ & _ & _ & Hh). fold st' in Hh. rewrite Hh. apply Hb; right; exact Hj. }
    rewrite (IH st' q' γ Hnd' Hb').
    assert (Hmap : map (get st') l = map (get st) l).
    { apply map_ext_in. intros j Hj. unfold st', set_α. apply get_set_slot_other. intros ->; contradiction. }
    rewrite Hmap. cbn [fwd_loop].
    assert (Hgi : get (fst (rev_loop l st' q')) i = {| sl_s := sl_s sl; sl_y := sl_y sl; sl_ρ := sl_ρ sl; sl_α := α; sl_skip := false |}).
    { rewrite rev_loop_frame by assumption. unfold st', set_α. apply get_set_slot_same. apply Hb; left; reflexivity. }
    rewrite Hgi. cbn [sl_s sl_y sl_ρ sl_α sl_skip]. reflexivity.
  Qed.

  (* apply = TLrec over the stored slots, newest first *)
  Lemma apply_is_TLrec P st q γ :
    inv P st -> is_empty st = false ->
    let r := apply P st q γ in
    fst (fst r) = true /\ snd (fst r) = TLrec (rev (hist st)) (apply_γ P st γ) q.
  Proof.
    intros Hinv He. unfold apply. rewrite He. cbn zeta.
    destruct (rev_loop (rev_idx st) st q) as [st1 q1] eqn:Hr. cbn [fst snd]. split; [reflexivity|].
    pose proof (two_loop_rec (rev_idx st) st q (apply_γ P st γ)) as Htl.
    rewrite Hr in Htl. cbn [fst snd] in Htl.
    rewrite rev_idx_is_rev_fwd, rev_involutive in Htl.
    unfold hist. rewrite <- map_rev. apply Htl.
    - apply NoDup_rev. eapply fwd_idx_NoDup; eauto.
    - intros i Hi. apply in_rev in Hi. eapply fwd_idx_bound; eauto.
  Qed.

  (* with ρ = 1/(yᵀs) in every stored slot the recursion is the BFGS operator of the pairs *)
  Definition ρ_ok3 (t : list T * list T * option T) : Prop := snd t = Some (n1 / vdot (snd (fst t)) (fst (fst t))).
  Definition rho_ok (st : state T) : Prop := Forall ρ_ok3 (hist3 st).

  Lemma TLrec_Hop l γ : Forall (fun sl => ρ_ok3 (syρ sl)) l -> forall v, TLrec l γ v = Hop (map sy l) γ v.
  Proof.
    induction 1 as [|sl l Hsl Hl IH]; intros v; cbn [TLrec map Hop]; [reflexivity|].
    unfold ρ_ok3, syρ in Hsl; cbn in Hsl. unfold sy at 1. rewrite Hsl. cbn [ρval]. cbn zeta. rewrite IH. reflexivity.
  Qed.

  Lemma head_rev_idx P st : inv P st -> is_empty st = false ->
    exists l, rev_idx st = pred st (st_idx st) :: l.
  Proof.
    intros (Hh & Hm & Hi) He. unfold rev_idx, pred, is_empty in *.
    destruct (st_idx st) as [|k] eqn:Hk.
    - destruct (st_full st); [|discriminate]. cbn [seq rev app]. rewrite Nat.sub_0_r.
      destruct (history st) as [|m] eqn:Hm'; [lia|]. rewrite seq_S, rev_app_distr. cbn. rewrite Nat.sub_0_r. eexists; reflexivity.
    - rewrite seq_S, rev_app_distr. cbn. eexists; reflexivity.
  Qed.
End Ring.
