(* FistaProofs.v — theorems about Fista.v at the real instance (C08).
   Everything here is parametric in the scalar kernels `K` (momentum recurrence, extrapolation, QUB test, ...):
   the hypotheses on K are collected in `kernels_ok`; FistaGenProofs.v proves them for the kernels that the
   translator regenerates from fista.tpp. *)
From Coq Require Import Reals List ZArith Lra Lia Bool Psatz.
From Flocq Require Import Raux.
From Alpaqa Require Import Num NumR Vec Prox ProxProofs ProxVec Fista.
Import ListNotations.
Local Open Scope R_scope.

(* ------------------------------------------------------------------ index sums *)
Fixpoint Ssum (n : nat) (F : nat -> R) : R :=
  match n with O => 0 | S m => Ssum m F + F m end.

Lemma Ssum_ext n F G : (forall i, (i < n)%nat -> F i = G i) -> Ssum n F = Ssum n G.
Proof. induction n; intros E; cbn; [reflexivity|]. rewrite IHn, E; auto. Qed.
Lemma Ssum_le n F G : (forall i, (i < n)%nat -> F i <= G i) -> Ssum n F <= Ssum n G.
Proof. induction n; intros E; cbn; [lra|]. pose proof (E n ltac:(lia)). assert (Ssum n F <= Ssum n G) by (apply IHn; auto). lra. Qed.
Lemma Ssum_nonneg n F : (forall i, (i < n)%nat -> 0 <= F i) -> 0 <= Ssum n F.
Proof. induction n; intros E; cbn; [lra|]. pose proof (E n ltac:(lia)). assert (0 <= Ssum n F) by (apply IHn; auto). lra. Qed.
Lemma Ssum_plus n F G : Ssum n F + Ssum n G = Ssum n (fun i => F i + G i).
Proof. induction n; cbn; [lra|]. rewrite <- IHn. lra. Qed.
Lemma Ssum_minus n F G : Ssum n F - Ssum n G = Ssum n (fun i => F i - G i).
Proof. induction n; cbn; [lra|]. rewrite <- IHn. lra. Qed.
Lemma Ssum_scal n c F : c * Ssum n F = Ssum n (fun i => c * F i).
Proof. induction n; cbn; [lra|]. rewrite <- IHn. lra. Qed.
Lemma Ssum_shift n F : Ssum (S n) F = F O + Ssum n (fun i => F (S i)).
Proof. induction n; [cbn; lra|]. change (Ssum (S (S n)) F) with (Ssum (S n) F + F (S n)). rewrite IHn. cbn. lra. Qed.
Lemma Ssum_zero n : Ssum n (fun _ => 0) = 0.
Proof. induction n; cbn; lra. Qed.

Lemma rsum_Ssum v : rsum v = Ssum (length v) (fun i => nth i v 0).
Proof. induction v as [|a v IH]; [reflexivity|]. cbn [length]. rewrite Ssum_shift. cbn [nth rsum]. rewrite IH. reflexivity. Qed.

(* component access *)
Notation "v @ i" := (nth i v 0) (at level 9, i at level 9, format "v @ i").

Lemma vdot_Ssum n (a b : list R) : length a = n -> length b = n ->
  vdot a b = Ssum n (fun i => a@i * b@i).
Proof.
  intros Ha Hb. unfold vdot. rewrite vsum_rsum, rsum_Ssum.
  unfold vmul. rewrite (map2_length _ a b n Ha Hb). apply Ssum_ext. intros i Hi.
  rewrite (map2_nth _ a b n i 0 0 0 Ha Hb Hi). reflexivity.
Qed.
Lemma nth_map_R (f : R -> R) v i : f 0 = 0 -> nth i (map f v) 0 = f (nth i v 0).
Proof. intros H0. revert i; induction v; destruct i; cbn; auto. Qed.
Lemma vsqnorm_Ssum n (a : list R) : length a = n -> vsqnorm a = Ssum n (fun i => a@i * a@i).
Proof.
  intros Ha. unfold vsqnorm. rewrite vsum_rsum, rsum_Ssum, map_length, Ha. apply Ssum_ext. intros i Hi.
  rewrite nth_map_R; [reflexivity|numR; lra].
Qed.
Lemma vnorm1_Ssum n (a : list R) : length a = n -> vnorm1 a = Ssum n (fun i => Rabs a@i).
Proof.
  intros Ha. unfold vnorm1, vabs. rewrite vsum_rsum, rsum_Ssum, map_length, Ha. apply Ssum_ext. intros i Hi.
  rewrite nth_map_R; [reflexivity|numR; apply Rabs_R0].
Qed.

(* ------------------------------------------------------------------ the forward-backward operator, componentwise *)
Lemma l1_prox1_zero γ v : l1_prox1 0 γ v = v.
Proof. unfold l1_prox1. cbv zeta. numR. rewrite Rmult_0_l, Rminus_0_r, Rplus_0_r. rbool; lra. Qed.

Definition comp_ok (lb ub : option R) (λ : R) : Prop :=
  0 <= λ /\ box_ne lb ub /\ (λ = 0 \/ (lb_ok lb 0 /\ ub_ok ub 0)).

(* subgradient inequality of the prox:  (v - o)/γ ∈ ∂(λ|.| + δ_box)(o) *)
Lemma fb1_subgrad lb ub λ γ v u : 0 < γ -> comp_ok lb ub λ -> in_box lb ub u ->
  let o := fb1 lb ub λ γ v in
  in_box lb ub o /\ (u - o) * (v - o) <= γ * (λ * Rabs u - λ * Rabs o).
Proof.
  intros Hγ (Hλ & Hne & [H0 | [Hl Hu]]) Hin o; subst o; unfold fb1.
  - subst λ. rewrite l1_prox1_zero. split; [now apply proj1_in_box|].
    pose proof (proj1_variational lb ub v u Hne Hin). lra.
  - destruct (box_l1_strong_argmin lb ub λ γ v u Hλ Hγ Hl Hu Hin) as [Hb Hs]. split; [exact Hb|].
    set (o := proj1 lb ub (l1_prox1 λ γ v)) in *. unfold obj_l1, Rsqr in Hs.
    assert (Hk : 0 < / (2 * γ)) by (apply Rinv_0_lt_compat; lra).
    assert (Hk1 : 2 * γ * / (2 * γ) = 1) by (field; lra).
    unfold Rdiv in Hs. set (k := / (2 * γ)) in *. clearbody k.
    set (A := λ * Rabs u) in *. set (B := λ * Rabs o) in *. clearbody A B.
    assert (H2 : 2 * k * ((u - o) * (v - o)) <= A - B) by lra.
    pose proof (Rmult_le_compat_l γ _ _ (Rlt_le _ _ Hγ) H2) as H3.
    assert (E : γ * (2 * k * ((u - o) * (v - o))) = (u - o) * (v - o))
      by (transitivity ((2 * γ * k) * ((u - o) * (v - o))); [ring | rewrite Hk1; ring]).
    lra.
Qed.

Definition wt (l1 : list R) (i : nat) : R := l1_weight l1 i.
Definition lbi (lb : list (option R)) (i : nat) := nth i lb None.
Definition ubi (ub : list (option R)) (i : nat) := nth i ub None.

Definition prob_ok (n : nat) (lb ub : list (option R)) (l1 : list R) : Prop :=
  length lb = n /\ length ub = n /\ (forall i, (i < n)%nat -> box_ne (lbi lb i) (ubi ub i)) /\
  (l1 = [] \/ ((length l1 = 1%nat \/ length l1 = n) /\
               forall i, (i < n)%nat -> 0 <= wt l1 i /\ lb_ok (lbi lb i) 0 /\ ub_ok (ubi ub i) 0)).

Lemma prob_ok_comp n lb ub l1 : prob_ok n lb ub l1 ->
  forall i, (i < n)%nat -> comp_ok (lbi lb i) (ubi ub i) (wt l1 i).
Proof.
  intros (Hlb & Hub & Hne & [E | [_ Hw]]) i Hi.
  - unfold comp_ok, wt. subst l1. cbn. repeat split; auto; lra.
  - destruct (Hw i Hi) as (Hw0 & Hl & Hu). repeat split; auto.
Qed.

Definition hval (n : nat) (l1 : list R) (x : list R) : R := Ssum n (fun i => wt l1 i * Rabs x@i).
Definition feas (n : nat) (lb ub : list (option R)) (x : list R) : Prop :=
  forall i, (i < n)%nat -> in_box (lbi lb i) (ubi ub i) x@i.

Lemma prox_step_spec n lb ub l1 γ x g :
  prob_ok n lb ub l1 -> 0 < γ -> length x = n -> length g = n ->
  let res := eval_prox_grad_step lb ub l1 γ x g in
  let xh := fst (fst res) in let p := snd (fst res) in
  length xh = n /\ length p = n /\
  (forall i, (i < n)%nat ->
     xh@i = fb1 (lbi lb i) (ubi ub i) (wt l1 i) γ (x@i - γ * g@i) /\ p@i = xh@i - x@i) /\
  snd res = hval n l1 xh.
Proof.
  intros (Hlb & Hub & Hne & Hl1) Hγ Hx Hg res xh p.
  subst xh p res. unfold eval_prox_grad_step, hval, wt, lbi, ubi in *.
  destruct l1 as [|λ [|λ2 r]].
  - (* box only *)
    destruct (proj_grad_step_length lb ub γ x g n Hlb Hub Hx Hg) as [L1 L2].
    repeat split; auto.
    + destruct (proj_grad_step_nth lb ub γ x g n Hlb Hub Hx Hg i H) as (E & _ & _).
      rewrite E. unfold fb1. cbn [l1_weight]. change (@n0 R NumR) with 0. now rewrite l1_prox1_zero.
    + now destruct (proj_grad_step_nth lb ub γ x g n Hlb Hub Hx Hg i H) as (_ & E & _).
    + cbn [l1_weight]. change (@n0 R NumR) with 0.
      rewrite (Ssum_ext n _ (fun _ => 0)) by (intros; lra). rewrite Ssum_zero.
      destruct n as [|m].
      * destruct lb, ub, x, g; try discriminate; reflexivity.
      * now destruct (proj_grad_step_nth lb ub γ x g (S m) Hlb Hub Hx Hg O ltac:(lia)) as (_ & _ & E).
  - (* scalar weight *)
    destruct Hl1 as [?|[_ Hw]]; [discriminate|]. cbn [l1_weight] in *.
    unfold box_l1_grad_step_scal; cbn [fst snd].
    set (pp := map5 _ lb ub x x g).
    assert (Hp : length pp = n) by (apply map5_length; assumption).
    assert (Hxh : length (vadd x pp) = n) by (unfold vadd; apply map2_length; assumption).
    assert (Hnth : forall i, (i < n)%nat ->
              (vadd x pp)@i = fb1 (nth i lb None) (nth i ub None) λ γ (x@i - γ * g@i) /\ pp@i = (vadd x pp)@i - x@i).
    { intros i Hi. destruct (Hw i Hi) as (Hw0 & Hlo & Hup).
      assert (Hpi : pp@i = box_l1_step1 (nth i lb None) (nth i ub None) λ γ x@i g@i).
      { unfold pp. erewrite (map5_nth _ lb ub x x g n i None None 0 0 0 0); eauto. }
      unfold vadd. rewrite (map2_nth _ x pp n i 0 0 0) by assumption.
      rewrite Hpi. change (nadd x@i ?a) with (x@i + a).
      rewrite box_l1_step1_cases by assumption. split; [reflexivity|].
      rewrite <- box_l1_step1_cases by assumption. lra. }
    repeat split; auto; try (apply Hnth; assumption).
    rewrite (vnorm1_Ssum n) by assumption. change (nmul λ ?a) with (λ * a).
    rewrite Ssum_scal. reflexivity.
  - (* vector weights *)
    destruct Hl1 as [?|[[Hlen|Hlen] Hw]]; [discriminate|cbn in Hlen; lia|].
    set (l1 := λ :: λ2 :: r) in *.
    assert (Hnth := fun i Hi => box_l1_grad_step_nth lb ub l1 γ x g n Hlb Hub Hlen Hx Hg Hγ i Hi).
    pose proof (box_l1_grad_step_h lb ub l1 γ x g) as Hh.
    cbv zeta in Hnth, Hh.
    set (rr := box_l1_grad_step lb ub l1 γ x g) in *.
    assert (Hwt : forall i, l1_weight l1 i = l1@i) by (intros i; reflexivity).
    assert (Hxh : length (fst (fst rr)) = n /\ length (snd (fst rr)) = n).
    { unfold rr, box_l1_grad_step; cbn [fst snd].
      assert (length (map5 (fun l u li xi gi => box_l1_step1 l u li γ xi gi) lb ub l1 x g) = n) by (apply map5_length; assumption).
      split; [unfold vadd; apply map2_length|]; assumption. }
    destruct Hxh as [Hxh Hpl].
    repeat split; auto.
    + destruct (Hw i H) as (Hw0 & Hlo & Hup). rewrite Hwt in *.
      now destruct (Hnth i H Hw0 Hlo Hup).
    + destruct (Hw i H) as (Hw0 & Hlo & Hup). rewrite Hwt in *.
      now destruct (Hnth i H Hw0 Hlo Hup).
    + rewrite Hh, rsum_Ssum. rewrite (map2_length _ _ l1 n Hxh Hlen). apply Ssum_ext. intros i Hi.
      rewrite (map2_nth _ _ l1 n i 0 0 0 Hxh Hlen Hi). rewrite Hwt.
      destruct (Hw i Hi) as (Hw0 & _). rewrite Hwt in Hw0.
      rewrite Rabs_mult, (Rabs_pos_eq l1@i) by assumption. lra.
Qed.

(* ------------------------------------------------------------------ what the proofs need from the scalar kernels *)
Record kernels_ok (K : kernels (T:=R)) : Prop := {
  ko_tnext_ge1 : forall t, 1 <= t -> 1 <= k_tnext K t;
  ko_tnext_rec : forall t, 1 <= t -> k_tnext K t * (k_tnext K t - 1) = t * t;
  ko_extrap : forall tp t a b, t <> 0 -> k_extrap K tp t a b = a + (tp - 1) / t * (a - b);
  ko_qub : forall psx psxh gp L pp, 0 <= L -> 0 <= pp ->
           k_qubv K psx psxh gp L pp 0 = false -> psxh <= psx + gp + L / 2 * pp;
  ko_guard : forall L Lmax, k_guard K L Lmax = false -> Lmax <= L;
  ko_btgam : forall g, k_btgam K g = g / 2;
  ko_btL : forall L, k_btL K L = 2 * L;
  ko_gamofL : forall a L, k_gamofL K a L = a / L }.

(* t' (t' - 1) = t²  with t, t' >= 1  gives  t' >= t + 1/2 *)
Lemma momentum_growth t t' : 1 <= t -> 1 <= t' -> t' * (t' - 1) = t * t -> t + / 2 <= t'.
Proof. intros Ht Ht' E. destruct (Rle_lt_dec (t + / 2) t') as [|Hlt]; [assumption|]. exfalso. nra. Qed.

(* ------------------------------------------------------------------ smooth convex f, composite F = f + h *)
Section Rate.
  Variables (n : nat) (f : list R -> R) (gradf : list R -> list R).
  Variables (lb ub : list (option R)) (l1 : list R).
  Hypothesis Hok : prob_ok n lb ub l1.
  Hypothesis gradf_len : forall x, length x = n -> length (gradf x) = n.
  (* first-order convexity inequality *)
  Hypothesis f_convex : forall x y, length x = n -> length y = n ->
    f y + Ssum n (fun i => (gradf y)@i * (x@i - y@i)) <= f x.
  (* descent lemma (∇f is Lf-Lipschitz) *)
  Variable Lf : R.
  Hypothesis Lf_pos : 0 < Lf.
  Hypothesis f_descent : forall z y, length z = n -> length y = n ->
    f z <= f y + Ssum n (fun i => (gradf y)@i * (z@i - y@i))
           + Lf / 2 * Ssum n (fun i => (z@i - y@i) * (z@i - y@i)).

  Definition F (x : list R) : R := f x + hval n l1 x.
  Definition dist2 (a b : list R) : R := Ssum n (fun i => (a@i - b@i) * (a@i - b@i)).

  Lemma dist2_nonneg a b : 0 <= dist2 a b.
  Proof. apply Ssum_nonneg. intros. apply Rle_0_sqr. Qed.

  (* data of one forward-backward evaluation *)
  Lemma prox_eval_spec γ y : 0 < γ -> length y = n ->
    let o := prox_eval f lb ub l1 γ y (gradf y) in
    length (o_xh o) = n /\ length (o_p o) = n /\ feas n lb ub (o_xh o) /\
    (forall i, (i < n)%nat ->
       (o_xh o)@i = fb1 (lbi lb i) (ubi ub i) (wt l1 i) γ (y@i - γ * (gradf y)@i) /\
       (o_p o)@i = (o_xh o)@i - y@i) /\
    o_h o = hval n l1 (o_xh o) /\
    o_pp o = dist2 (o_xh o) y /\
    o_gp o = Ssum n (fun i => (gradf y)@i * ((o_xh o)@i - y@i)) /\
    o_psih o = f (o_xh o).
  Proof.
    intros Hγ Hy o. subst o. unfold prox_eval.
    pose proof (prox_step_spec n lb ub l1 γ y (gradf y) Hok Hγ Hy (gradf_len y Hy)) as S.
    cbv zeta in S. destruct (eval_prox_grad_step lb ub l1 γ y (gradf y)) as [[xh p] h].
    cbn [fst snd o_xh o_p o_h o_pp o_gp o_psih] in *. destruct S as (Lx & Lp & Hn & Hh).
    assert (A3 : feas n lb ub xh).
    { intros i Hi. destruct (Hn i Hi) as [E _]. rewrite E.
      pose proof (prob_ok_comp n lb ub l1 Hok i Hi) as (Hw & Hne & _). unfold fb1. now apply proj1_in_box. }
    assert (A6 : vsqnorm p = dist2 xh y).
    { rewrite (vsqnorm_Ssum n) by assumption. apply Ssum_ext. intros i Hi. destruct (Hn i Hi) as [_ E]. now rewrite E. }
    assert (A7 : vdot p (gradf y) = Ssum n (fun i => (gradf y)@i * (xh@i - y@i))).
    { rewrite (vdot_Ssum n) by auto. apply Ssum_ext. intros i Hi. destruct (Hn i Hi) as [_ E]. rewrite E. lra. }
    exact (conj Lx (conj Lp (conj A3 (conj Hn (conj Hh (conj A6 (conj A7 eq_refl))))))).
  Qed.

  (* Beck–Teboulle Lemma 2.3: if the quadratic upper bound with 1/γ holds at y then for every feasible x
       F(x) - F(x̂) >= ‖x̂-y‖²/(2γ) + <y-x, x̂-y>/γ.   Stated multiplied by 2γ. *)
  Lemma key_inequality γ y x : 0 < γ -> length y = n -> length x = n -> feas n lb ub x ->
    let o := prox_eval f lb ub l1 γ y (gradf y) in
    o_psih o <= f y + o_gp o + / (2 * γ) * o_pp o ->
    dist2 (o_xh o) y + 2 * Ssum n (fun i => (y@i - x@i) * ((o_xh o)@i - y@i))
      <= 2 * γ * (F x - F (o_xh o)).
  Proof.
    intros Hγ Hy Hx Hfx o Hq.
    destruct (prox_eval_spec γ y Hγ Hy) as (Lx & Lp & Hfe & Hn & Hh & Hpp & Hgp & Hps). fold o in Lx, Lp, Hfe, Hn, Hh, Hpp, Hgp, Hps.
    rewrite Hps, Hgp, Hpp in Hq.
    assert (Hn' : forall i, (i < n)%nat -> (o_xh o)@i = fb1 (lbi lb i) (ubi ub i) (wt l1 i) γ (y@i - γ * (gradf y)@i))
      by (intros i Hi; now destruct (Hn i Hi)).
    clear Hn. rename Hn' into Hn.
    set (xh := o_xh o) in *. clearbody xh. clear o Hh Hps Hgp Hpp Lp.
    pose proof (f_convex x y Hx Hy) as Hc.
    (* subgradient inequality of h, summed *)
    assert (Hs : Ssum n (fun i => (x@i - xh@i) * (y@i - γ * (gradf y)@i - xh@i)) <= γ * (hval n l1 x - hval n l1 xh)).
    { unfold hval. rewrite Ssum_minus, Ssum_scal. apply Ssum_le. intros i Hi.
      rewrite (Hn i Hi).
      apply fb1_subgrad; auto. apply prob_ok_comp with (n := n); assumption. }
    (* the pointwise identity linking the four sums *)
    assert (Hid : γ * Ssum n (fun i => (gradf y)@i * (x@i - y@i))
                  - γ * Ssum n (fun i => (gradf y)@i * (xh@i - y@i))
                  + Ssum n (fun i => (x@i - xh@i) * (y@i - γ * (gradf y)@i - xh@i))
                  = dist2 xh y + Ssum n (fun i => (y@i - x@i) * (xh@i - y@i))).
    { unfold dist2. rewrite !Ssum_scal, Ssum_minus, !Ssum_plus. apply Ssum_ext. intros; ring. }
    unfold F. set (S1 := Ssum n (fun i => (gradf y)@i * (x@i - y@i))) in *.
    set (S2 := Ssum n (fun i => (gradf y)@i * (xh@i - y@i))) in *.
    set (S3 := Ssum n (fun i => (x@i - xh@i) * (y@i - γ * (gradf y)@i - xh@i))) in *.
    set (S4 := Ssum n (fun i => (y@i - x@i) * (xh@i - y@i))) in *.
    set (D := dist2 xh y) in *. set (hx := hval n l1 x) in *. set (hh := hval n l1 xh) in *.
    clearbody S1 S2 S3 S4 D hx hh.
    assert (Hk1 : 2 * γ * / (2 * γ) = 1) by (field; lra).
    set (k := / (2 * γ)) in *. clearbody k.
    (* 2γ f(xh) <= 2γ f(y) + 2γ S2 + D ;  2γ f(x) >= 2γ f(y) + 2γ S1 *)
    assert (Hq2 : 2 * γ * f xh <= 2 * γ * f y + 2 * γ * S2 + D).
    { pose proof (Rmult_le_compat_l (2 * γ) _ _ ltac:(lra) Hq) as H.
      replace (2 * γ * (f y + S2 + k * D)) with (2 * γ * f y + 2 * γ * S2 + (2 * γ * k) * D) in H by ring.
      rewrite Hk1 in H. lra. }
    assert (Hc2 : 2 * γ * f y + 2 * γ * S1 <= 2 * γ * f x).
    { pose proof (Rmult_le_compat_l (2 * γ) _ _ ltac:(lra) Hc) as H. lra. }
    lra.
  Qed.

  (* ---------------- algebra of the potential ---------------- *)
  Definition upot (t : R) (a b xs : list R) : R :=
    Ssum n (fun i => (t * a@i - (t - 1) * b@i - xs@i) * (t * a@i - (t - 1) * b@i - xs@i)).
  Lemma upot_nonneg t a b xs : 0 <= upot t a b xs.
  Proof. apply Ssum_nonneg. intros. apply Rle_0_sqr. Qed.

  Ltac ssum_fold := repeat (rewrite Ssum_scal || rewrite Ssum_plus || rewrite Ssum_minus).

  Lemma pot_identity t (o y xh xs : list R) :
    t * ((t - 1) * (dist2 o y + 2 * Ssum n (fun i => (y@i - xh@i) * (o@i - y@i)))
         + (dist2 o y + 2 * Ssum n (fun i => (y@i - xs@i) * (o@i - y@i))))
    = upot t o xh xs - upot t y xh xs.
  Proof. unfold dist2, upot. ssum_fold. apply Ssum_ext. intros; ring. Qed.

  Lemma three_point (o y xs : list R) :
    dist2 o y + 2 * Ssum n (fun i => (y@i - xs@i) * (o@i - y@i)) = dist2 o xs - dist2 y xs.
  Proof. unfold dist2. ssum_fold. apply Ssum_ext. intros; ring. Qed.

  (* one-step potential decrease, from the key inequality at x = x̂_prev (needed only when t > 1) and x = x* *)
  Lemma pot_step t γ' (o y xh xs : list R) : 1 <= t -> 0 < γ' ->
    (1 < t -> dist2 o y + 2 * Ssum n (fun i => (y@i - xh@i) * (o@i - y@i)) <= 2 * γ' * (F xh - F o)) ->
    dist2 o y + 2 * Ssum n (fun i => (y@i - xs@i) * (o@i - y@i)) <= 2 * γ' * (F xs - F o) ->
    upot t o xh xs - upot t y xh xs <= 2 * γ' * (t * (t - 1) * (F xh - F xs) - t * t * (F o - F xs)).
  Proof.
    intros Ht Hγ Ha Hb. rewrite <- pot_identity.
    set (A := dist2 o y + 2 * Ssum n (fun i => (y@i - xh@i) * (o@i - y@i))) in *.
    set (B := dist2 o y + 2 * Ssum n (fun i => (y@i - xs@i) * (o@i - y@i))) in *.
    set (Fh := F xh) in *. set (Fo := F o) in *. set (Fs := F xs) in *. clearbody A B Fh Fo Fs.
    assert (H1 : (t - 1) * A <= (t - 1) * (2 * γ' * (Fh - Fo))).
    { destruct (Rle_lt_or_eq_dec 1 t Ht) as [Hlt|He].
      - apply Rmult_le_compat_l; [lra|auto].
      - subst t. lra. }
    assert (H2 : t * ((t - 1) * A + B) <= t * ((t - 1) * (2 * γ' * (Fh - Fo)) + 2 * γ' * (Fs - Fo)))
      by (apply Rmult_le_compat_l; lra).
    eapply Rle_trans; [exact H2|]. right. ring.
  Qed.

  (* ---------------- the model loop ---------------- *)
  Variable K : kernels (T:=R).
  Hypothesis HK : kernels_ok K.
  Variable P : params (T:=R).
  Hypothesis P_tol0 : p_tol P = 0.                       (* exact-arithmetic theorem: no rounding margin *)
  Hypothesis P_Lgam : 0 < p_Lgam P <= 1.
  Hypothesis P_Lmax : p_Lgam P * Lf <= p_Lmax P.         (* L_max does not stop the backtracking too early *)

  Notation prox_evalR := (prox_eval f lb ub l1).
  Notation backtrackR := (backtrack K f lb ub l1 P).
  Notation stepR := (step K f gradf lb ub l1 P).
  Notation runR := (run K f gradf lb ub l1 P).

  (* QUB with curvature 1/γ *)
  Definition qub_holds (γ : R) (y : list R) (o : proxout (T:=R)) : Prop :=
    o_psih o <= f y + o_gp o + / (2 * γ) * o_pp o.

  Lemma backtrack_spec y : length y = n -> forall fuel γ L nbt γ' L' o' nbt',
    0 < L -> γ * L = p_Lgam P ->
    backtrackR fuel γ L y (gradf y) (f y) (prox_evalR γ y (gradf y)) nbt = Some (γ', L', o', nbt') ->
    0 < L' /\ γ' * L' = p_Lgam P /\ γ' <= γ /\ o' = prox_evalR γ' y (gradf y) /\ qub_holds γ' y o'.
  Proof.
    intros Hy. induction fuel as [|fuel IH]; intros γ L nbt γ' L' o' nbt' HL Hprod Hbt.
    all: assert (Hγ : 0 < γ) by (destruct P_Lgam; nra).
    all: cbn [backtrack] in Hbt.
    all: destruct (k_guard K L (p_Lmax P) && k_qubv K (f y) (o_psih (prox_evalR γ y (gradf y))) (o_gp (prox_evalR γ y (gradf y))) L
                    (o_pp (prox_evalR γ y (gradf y))) (p_tol P)) eqn:Ec; try discriminate.
    2: { (* one backtracking step *)
      rewrite (ko_btgam K HK), (ko_btL K HK) in Hbt.
      destruct (IH (γ / 2) (2 * L) (S nbt) γ' L' o' nbt' ltac:(lra) ltac:(rewrite <- Hprod; field) Hbt) as (A & B & C & D & E).
      repeat split; auto; lra. }
    all: injection Hbt as <- <- <- <-.
    all: repeat split; auto; try lra.
    all: unfold qub_holds.
    all: destruct (prox_eval_spec γ y Hγ Hy) as (Lx & Lp & Hfe & Hn & Hh & Hpp & Hgp & Hps).
    all: set (o := prox_evalR γ y (gradf y)) in *.
    all: assert (Hpp0 : 0 <= o_pp o) by (rewrite Hpp; apply dist2_nonneg).
    all: assert (Hinv : L <= / γ)
        by (apply Rmult_le_reg_l with γ; [assumption|]; rewrite Rinv_r by lra; rewrite Hprod; apply P_Lgam).
    all: assert (Hhalf : / (2 * γ) = / γ / 2) by (field; lra).
    all: apply andb_false_iff in Ec; destruct Ec as [Eg|Eq].
    all: try (rewrite P_tol0 in Eq; apply (ko_qub K HK) in Eq; [rewrite Hhalf; nra|lra|assumption]).
    all: apply (ko_guard K HK) in Eg.
    all: assert (HLf : Lf <= / γ)
        by (apply Rmult_le_reg_l with γ; [assumption|]; rewrite Rinv_r by lra; nra).
    all: pose proof (f_descent (o_xh o) y Lx Hy) as Hd; rewrite <- Hgp in Hd; fold (dist2 (o_xh o) y) in Hd; rewrite <- Hpp in Hd.
    all: rewrite Hps, Hhalf; nra.
  Qed.

  Variable xs : list R.                                   (* a minimiser x* of F over the box *)
  Hypothesis xs_len : length xs = n.
  Hypothesis xs_feas : feas n lb ub xs.
  Hypothesis xs_min : forall x, length x = n -> feas n lb ub x -> F xs <= F x.

  Definition st_ok (s : state (T:=R)) : Prop :=
    length (s_x s) = n /\ length (s_xh s) = n /\ s_g s = gradf (s_x s) /\ s_psi s = f (s_x s) /\
    0 < s_L s /\ s_gam s * s_L s = p_Lgam P /\ 1 <= s_t s.

  Lemma step_basic fuel s s' o nbt : st_ok s -> stepR fuel s = Some (s', o, nbt) ->
    o = prox_evalR (s_gam s') (s_x s) (gradf (s_x s)) /\ qub_holds (s_gam s') (s_x s) o /\
    0 < s_gam s' /\ s_gam s' <= s_gam s /\
    s_xh s' = o_xh o /\ s_t s' = k_tnext K (s_t s) /\
    s_x s' = (if p_noaccel P then o_xh o else map2 (k_extrap K (s_t s) (k_tnext K (s_t s))) (o_xh o) (s_xh s)) /\
    st_ok s' /\ feas n lb ub (s_xh s') /\ length (o_xh o) = n.
  Proof.
    intros (Lx & Lxh & Eg & Eps & HL & Hprod & Ht) Hst. unfold step in Hst. rewrite Eg, Eps in Hst.
    destruct (backtrackR fuel (s_gam s) (s_L s) (s_x s) (gradf (s_x s)) (f (s_x s))
                (prox_evalR (s_gam s) (s_x s) (gradf (s_x s))) 0) as [[[[γ' L'] o'] nbt']|] eqn:Eb; [|discriminate].
    destruct (backtrack_spec (s_x s) Lx fuel _ _ _ _ _ _ _ HL Hprod Eb) as (A & B & C & D & E).
    injection Hst as <- <- <-. cbn [s_gam s_x s_xh s_t s_g s_psi s_L].
    assert (Hγ' : 0 < γ') by (destruct P_Lgam; nra).
    destruct (prox_eval_spec γ' (s_x s) Hγ' Lx) as (Lo & _ & Hfe & _). rewrite <- D in Lo, Hfe.
    assert (Lx' : length (if p_noaccel P then o_xh o' else map2 (k_extrap K (s_t s) (k_tnext K (s_t s))) (o_xh o') (s_xh s)) = n).
    { destruct (p_noaccel P); [assumption|]. apply map2_length; assumption. }
    pose proof (ko_tnext_ge1 K HK _ Ht).
    unfold st_ok; cbn [s_gam s_x s_xh s_t s_g s_psi s_L].
    repeat match goal with |- _ /\ _ => split end; auto.
  Qed.

  (* ---------------- accelerated iteration: potential ---------------- *)
  Definition Phi (s : state (T:=R)) : R :=
    2 * s_gam s * (s_t s * (s_t s - 1)) * (F (s_xh s) - F xs) + upot (s_t s) (s_x s) (s_xh s) xs.
  Definition inv (s : state (T:=R)) : Prop := st_ok s /\ (s_t s = 1 \/ feas n lb ub (s_xh s)).

  Lemma step_accel fuel s s' o nbt : p_noaccel P = false -> inv s -> stepR fuel s = Some (s', o, nbt) ->
    inv s' /\ Phi s' <= Phi s /\
    2 * s_gam s' * (s_t s * s_t s) * (F (o_xh o) - F xs) <= Phi s' /\
    0 <= F (o_xh o) - F xs /\ s_t s + / 2 <= s_t s'.
  Proof.
    intros Hacc [Hs Hfe] Hst.
    destruct (step_basic fuel s s' o nbt Hs Hst) as (Eo & Hq & Hγ' & Hγle & Exh & Et & Ex & Hs' & Hfe' & Lo).
    destruct Hs as (Lx & Lxh & Eg & Eps & HL & Hprod & Ht).
    rewrite Hacc in Ex.
    set (t := s_t s) in *. set (t' := k_tnext K t) in *. set (γ' := s_gam s') in *.
    pose proof (ko_tnext_ge1 K HK t Ht) as Ht'. pose proof (ko_tnext_rec K HK t Ht) as Hrec. fold t' in Ht', Hrec.
    assert (Hgrow : t + / 2 <= t') by (apply momentum_growth; assumption).
    (* key inequality at x = x* and (when t > 1) at x = previous x̂ *)
    pose proof (key_inequality γ' (s_x s) xs Hγ' Lx xs_len xs_feas) as Hb. cbv zeta in Hb. rewrite <- Eo in Hb.
    specialize (Hb Hq).
    assert (Ha : 1 < t -> dist2 (o_xh o) (s_x s) + 2 * Ssum n (fun i => ((s_x s)@i - (s_xh s)@i) * ((o_xh o)@i - (s_x s)@i))
                          <= 2 * γ' * (F (s_xh s) - F (o_xh o))).
    { intros H1. destruct Hfe as [E|Hfe]; [lra|].
      pose proof (key_inequality γ' (s_x s) (s_xh s) Hγ' Lx Lxh Hfe) as Ha. cbv zeta in Ha. rewrite <- Eo in Ha. exact (Ha Hq). }
    pose proof (pot_step t γ' (o_xh o) (s_x s) (s_xh s) xs Ht Hγ' Ha Hb) as Hpot.
    (* extrapolation identity *)
    assert (Hup : upot t' (s_x s') (o_xh o) xs = upot t (o_xh o) (s_xh s) xs).
    { unfold upot. apply Ssum_ext. intros i Hi. rewrite Ex.
      rewrite (map2_nth _ (o_xh o) (s_xh s) n i 0 0 0 Lo Lxh Hi).
      rewrite (ko_extrap K HK) by lra.
      set (a := (o_xh o)@i). set (b := (s_xh s)@i). set (c := xs@i). clearbody a b c.
      assert (E : t' * (a + (t - 1) / t' * (a - b)) - (t' - 1) * a - c = t * a - (t - 1) * b - c) by (field; lra).
      rewrite E. reflexivity. }
    assert (Hv' : 0 <= F (o_xh o) - F xs).
    { rewrite <- Exh. pose proof (xs_min (s_xh s') ltac:(rewrite Exh; exact Lo) Hfe'). lra. }
    assert (HPhi' : Phi s' = 2 * γ' * (t * t) * (F (o_xh o) - F xs) + upot t (o_xh o) (s_xh s) xs).
    { unfold Phi. rewrite Et, Exh. fold t t' γ'. rewrite Hrec, Hup. reflexivity. }
    split; [split; [exact Hs'|right; exact Hfe']|].
    split; [|split; [|split]]; auto.
    - rewrite HPhi'. unfold Phi. fold t.
      set (v := F (s_xh s) - F xs) in *. set (v' := F (o_xh o) - F xs) in *.
      set (U' := upot t (o_xh o) (s_xh s) xs) in *. set (U := upot t (s_x s) (s_xh s) xs) in *.
      set (γ := s_gam s) in *.
      assert (Hext : 0 <= (γ - γ') * (t * (t - 1) * v)).
      { destruct (Rle_lt_or_eq_dec 1 t Ht) as [Hlt|He].
        - destruct Hfe as [E|Hfe]; [lra|].
          pose proof (xs_min (s_xh s) Lxh Hfe). unfold v. apply Rmult_le_pos; [lra|]. apply Rmult_le_pos; [nra|lra].
        - rewrite <- He. lra. }
      clearbody v v' U U' γ γ' t t'. nra.
    - rewrite HPhi'. pose proof (upot_nonneg t (o_xh o) (s_xh s) xs). lra.
    - rewrite Et. exact Hgrow.
  Qed.

  (* ---------------- acceleration disabled: plain proximal gradient ---------------- *)
  Definition Psi (k : nat) (s : state (T:=R)) : R :=
    2 * s_gam s * INR k * (F (s_x s) - F xs) + dist2 (s_x s) xs.
  Definition inv0 (k : nat) (s : state (T:=R)) : Prop :=
    st_ok s /\ (k = O \/ feas n lb ub (s_x s)).

  Lemma step_noaccel fuel k s s' o nbt : p_noaccel P = true -> inv0 k s -> stepR fuel s = Some (s', o, nbt) ->
    inv0 (S k) s' /\ Psi (S k) s' <= Psi k s /\ s_x s' = o_xh o /\
    (k <> O -> F (o_xh o) <= F (s_x s)) /\ 0 <= F (o_xh o) - F xs.
  Proof.
    intros Hna (Hs & Hfe) Hst.
    destruct (step_basic fuel s s' o nbt Hs Hst) as (Eo & Hq & Hγ' & Hγle & Exh & Et & Ex & Hs' & Hfe' & Lo).
    destruct Hs as (Lx & Lxh & Eg & Eps & HL & Hprod & Ht).
    rewrite Hna in Ex. set (γ' := s_gam s') in *.
    pose proof (key_inequality γ' (s_x s) xs Hγ' Lx xs_len xs_feas) as Hb. cbv zeta in Hb. rewrite <- Eo in Hb.
    specialize (Hb Hq). rewrite three_point in Hb.
    assert (Hv' : 0 <= F (o_xh o) - F xs).
    { rewrite <- Exh. pose proof (xs_min (s_xh s') ltac:(rewrite Exh; exact Lo) Hfe'). lra. }
    assert (Ha : k <> O -> F (o_xh o) <= F (s_x s)).
    { intros Hk. destruct Hfe as [?|Hfe]; [contradiction|].
      pose proof (key_inequality γ' (s_x s) (s_x s) Hγ' Lx Lx Hfe) as Ha. cbv zeta in Ha. rewrite <- Eo in Ha.
      specialize (Ha Hq).
      rewrite (Ssum_ext n _ (fun _ => 0)) in Ha by (intros; ring). rewrite Ssum_zero in Ha.
      pose proof (dist2_nonneg (o_xh o) (s_x s)). nra. }
    split; [split; [exact Hs'|right; rewrite Ex, <- Exh; exact Hfe']|].
    split; [|split; [exact Ex|split; [exact Ha|exact Hv']]].
    unfold Psi. rewrite Ex, S_INR. fold γ'.
    set (v := F (s_x s) - F xs) in *. set (v' := F (o_xh o) - F xs) in *.
    set (D' := dist2 (o_xh o) xs) in *. set (D := dist2 (s_x s) xs) in *. set (γ := s_gam s) in *.
    assert (Hb' : D' - D <= - (2 * γ' * v')) by (unfold v'; lra).
    destruct (Nat.eq_dec k O) as [->|Hk].
    - cbn [INR]. lra.
    - specialize (Ha Hk). assert (Hvv : v' <= v) by (unfold v, v'; lra).
      assert (Hk0 : 0 < INR k) by (apply lt_0_INR; lia).
      assert (H1 : 2 * γ' * INR k * v' <= 2 * γ * INR k * v).
      { apply Rle_trans with (2 * γ' * INR k * v).
        - apply Rmult_le_compat_l; [nra|lra].
        - apply Rmult_le_compat_r; [lra|]. apply Rmult_le_compat_r; lra. }
      lra.
  Qed.

  (* ---------------- whole runs ---------------- *)
  Lemma run_accel fuel m : forall s s', p_noaccel P = false -> inv s -> runR fuel m s = Some s' ->
    inv s' /\ Phi s' <= Phi s /\ s_t s + INR m / 2 <= s_t s'.
  Proof.
    induction m as [|m IH]; intros s s' Hacc Hinv Hrun.
    - cbn in Hrun. injection Hrun as <-. cbn [INR]. repeat split; try apply Hinv; lra.
    - cbn [run] in Hrun. destruct (stepR fuel s) as [[[s1 o1] nbt1]|] eqn:Est; [|discriminate].
      destruct (step_accel fuel s s1 o1 nbt1 Hacc Hinv Est) as (I1 & P1 & _ & _ & T1).
      destruct (IH s1 s' Hacc I1 Hrun) as (I2 & P2 & T2).
      rewrite S_INR. repeat split; try apply I2; lra.
  Qed.

  Lemma run_noaccel fuel m : forall k s s', p_noaccel P = true -> inv0 k s -> runR fuel m s = Some s' ->
    inv0 (m + k) s' /\ Psi (m + k) s' <= Psi k s.
  Proof.
    induction m as [|m IH]; intros k s s' Hna Hinv Hrun.
    - cbn in Hrun. injection Hrun as <-. cbn [Nat.add]. split; [exact Hinv|lra].
    - cbn [run] in Hrun. destruct (stepR fuel s) as [[[s1 o1] nbt1]|] eqn:Est; [|discriminate].
      destruct (step_noaccel fuel k s s1 o1 nbt1 Hna Hinv Est) as (I1 & P1 & _).
      destruct (IH (S k) s1 s' Hna I1 Hrun) as (I2 & P2).
      replace (S m + k)%nat with (m + S k)%nat by lia. split; [exact I2|lra].
  Qed.

  Lemma div_bound x y z : 0 < z -> x * z <= y -> x <= y / z.
  Proof.
    intros Hz H. apply Rmult_le_reg_r with z; [assumption|].
    unfold Rdiv. rewrite Rmult_assoc, Rinv_l by lra. lra.
  Qed.

  (* initial state *)
  Lemma init_ok x0 s0 : length x0 = n -> 0 < p_Lmin P <= p_Lmax P ->
    init K f gradf P x0 = Some s0 ->
    st_ok s0 /\ s_t s0 = 1 /\ s_x s0 = x0.
  Proof.
    intros L0 HLm Hi. unfold init in Hi.
    destruct (if fixed_lipschitz P then (p_Lmax P, x0)
              else if nleb (p_L0 P) n0 then lipschitz_fd gradf P x0 (gradf x0) else (p_L0 P, x0)) as [L xh0] eqn:EL.
    change (@nfinite R NumR ?x) with true in Hi. cbv iota in Hi.
    injection Hi as <-. unfold st_ok. cbn [s_gam s_x s_xh s_t s_g s_psi s_L].
    assert (HL : 0 < L /\ length xh0 = n).
    { pose proof (gradf_len x0 L0) as Lg.
      assert (Lw : forall h : list R, length h = n -> length (vsub x0 h) = n)
        by (intros h Hh; unfold vsub; apply map2_length; assumption).
      unfold fixed_lipschitz, lipschitz_fd in EL. cbv zeta in EL.
      match type of EL with context [vsub x0 ?hh] => 
        assert (Lh : length hh = n) by (apply map2_length; [assumption|]; unfold vscale; rewrite map_length; assumption);
        set (h := hh) in *; clearbody h end.
      match type of EL with context [clamp ?vv _ _] => set (v := vv) in *; clearbody v end.
      unfold clamp in EL. revert EL. numR.
      rbool; intros EL; injection EL as <- <-; (split; [lra|]); auto. }
    destruct HL as [HL Lxh0].
    rewrite (ko_gamofL K HK). change (@n1 R NumR) with 1.
    repeat split; auto; try lra. field; lra.
  Qed.

  Lemma Phi_init s0 x0 : s_t s0 = 1 -> s_x s0 = x0 -> Phi s0 = dist2 x0 xs.
  Proof.
    intros Et Ex. unfold Phi, upot, dist2. rewrite Et, Ex.
    replace (2 * s_gam s0 * (1 * (1 - 1)) * (F (s_xh s0) - F xs)) with 0 by ring.
    rewrite Rplus_0_l. apply Ssum_ext. intros; ring.
  Qed.

  (* THE RATE: k-th proximal iterate x̂_k (k = 0, 1, ...) of the accelerated run *)
  Theorem fista_rate x0 fuel k s0 s s' o nbt :
    length x0 = n -> 0 < p_Lmin P <= p_Lmax P -> p_noaccel P = false ->
    init K f gradf P x0 = Some s0 -> runR fuel k s0 = Some s -> stepR fuel s = Some (s', o, nbt) ->
    0 < s_gam s' /\
    F (o_xh o) - F xs <= 2 * dist2 x0 xs / (s_gam s' * ((INR k + 2) * (INR k + 2))) /\
    F (o_xh o) - F xs <= 2 * dist2 x0 xs / (s_gam s' * ((INR k + 1) * (INR k + 1))).
  Proof.
    intros L0 HLm Hacc Hi Hrun Hst.
    destruct (init_ok x0 s0 L0 HLm Hi) as (Hs0 & Et0 & Ex0).
    assert (I0 : inv s0) by (split; [exact Hs0|left; exact Et0]).
    destruct (run_accel fuel k s0 s Hacc I0 Hrun) as (I1 & P1 & T1).
    destruct (step_accel fuel s s' o nbt Hacc I1 Hst) as (I2 & P2 & B2 & V2 & _).
    destruct (step_basic fuel s s' o nbt (match I1 with conj a _ => a end) Hst) as (_ & _ & Hγ' & _).
    rewrite (Phi_init s0 x0 Et0 Ex0) in P1. rewrite Et0 in T1.
    pose proof (pos_INR k) as Hk.
    set (v := F (o_xh o) - F xs) in *. set (γ' := s_gam s') in *. set (t := s_t s) in *. set (R2 := dist2 x0 xs) in *.
    assert (Ht2 : (INR k + 2) * (INR k + 2) <= 4 * (t * t)) by nra.
    assert (Hgv : 0 <= γ' * v) by (apply Rmult_le_pos; lra).
    assert (Hmain : v * (γ' * ((INR k + 2) * (INR k + 2))) <= 2 * R2).
    { assert (γ' * v * ((INR k + 2) * (INR k + 2)) <= γ' * v * (4 * (t * t))) by (apply Rmult_le_compat_l; assumption).
      nra. }
    split; [exact Hγ'|]. split.
    - apply div_bound; [apply Rmult_lt_0_compat; nra|exact Hmain].
    - apply div_bound; [apply Rmult_lt_0_compat; nra|].
      assert (γ' * v * ((INR k + 1) * (INR k + 1)) <= γ' * v * ((INR k + 2) * (INR k + 2))) by (apply Rmult_le_compat_l; nra).
      nra.
  Qed.

  (* acceleration disabled: monotone decrease and the O(1/k) bound *)
  Theorem fista_noaccel x0 fuel k s0 s s' o nbt :
    length x0 = n -> 0 < p_Lmin P <= p_Lmax P -> p_noaccel P = true ->
    init K f gradf P x0 = Some s0 -> runR fuel k s0 = Some s -> stepR fuel s = Some (s', o, nbt) ->
    0 < s_gam s' /\
    (k <> O -> F (o_xh o) <= F (s_x s)) /\
    F (o_xh o) - F xs <= dist2 x0 xs / (2 * s_gam s' * (INR k + 1)).
  Proof.
    intros L0 HLm Hna Hi Hrun Hst.
    destruct (init_ok x0 s0 L0 HLm Hi) as (Hs0 & Et0 & Ex0).
    assert (I0 : inv0 O s0) by (split; [exact Hs0|left; reflexivity]).
    destruct (run_noaccel fuel k O s0 s Hna I0 Hrun) as (I1 & P1). rewrite Nat.add_0_r in I1, P1.
    destruct (step_noaccel fuel k s s' o nbt Hna I1 Hst) as (I2 & P2 & Ex & Mono & V2).
    destruct (step_basic fuel s s' o nbt (match I1 with conj a _ => a end) Hst) as (_ & _ & Hγ' & _).
    split; [exact Hγ'|]. split; [exact Mono|].
    unfold Psi in P1 at 2. cbn [INR] in P1. rewrite Ex0 in P1.
    unfold Psi in P2 at 1. rewrite Ex, S_INR in P2.
    pose proof (dist2_nonneg (o_xh o) xs). pose proof (pos_INR k).
    apply div_bound; [apply Rmult_lt_0_compat; lra|].
    set (v := F (o_xh o) - F xs) in *. set (γ' := s_gam s') in *. lra.
  Qed.

  (* the momentum sequence of the model: t_k >= (k + 2) / 2 *)
  Lemma titer_lower m : forall t, 1 <= t -> t + INR m / 2 <= titer K m t.
  Proof.
    induction m as [|m IH]; intros t Ht; [cbn; lra|].
    cbn [titer]. rewrite S_INR.
    pose proof (ko_tnext_ge1 K HK t Ht). pose proof (ko_tnext_rec K HK t Ht).
    pose proof (momentum_growth t (k_tnext K t) Ht H H0).
    specialize (IH (k_tnext K t) H). lra.
  Qed.
End Rate.

(* ------------------------------------------------------------------ a momentum map that keeps [1,2] invariant cannot
   satisfy t_k >= (k+2)/2 — this is what happens with the recurrence t+ = (1 + √(1 + 4t))/2 (square missing) *)
Lemma titer_bounded (K : kernels (T:=R)) :
  (forall t, 1 <= t <= 2 -> 1 <= k_tnext K t <= 2) ->
  forall m t, 1 <= t <= 2 -> 1 <= titer K m t <= 2.
Proof. intros HB. induction m as [|m IH]; intros t Ht; cbn [titer]; [assumption|]. apply IH, HB, Ht. Qed.

Lemma bounded_momentum_refutes (K : kernels (T:=R)) :
  (forall t, 1 <= t <= 2 -> 1 <= k_tnext K t <= 2) ->
  exists k, ~ ((INR k + 2) / 2 <= titer K k 1).
Proof.
  intros HB. exists 3%nat. pose proof (titer_bounded K HB 3 1 ltac:(lra)) as H.
  replace (INR 3) with 3 by (cbn; lra). lra.
Qed.

Definition tnext_nosq (t : R) : R := (1 + sqrt (1 + 4 * t)) / 2.
Lemma tnext_nosq_bounded t : 1 <= t <= 2 -> 1 <= tnext_nosq t <= 2.
Proof.
  intros Ht. unfold tnext_nosq.
  assert (H1 : 1 <= sqrt (1 + 4 * t)) by (rewrite <- sqrt_1 at 1; apply sqrt_le_1; lra).
  assert (H2 : sqrt (1 + 4 * t) <= 3).
  { replace 3 with (sqrt 9) by (replace 9 with (3 * 3) by lra; apply sqrt_square; lra). apply sqrt_le_1; lra. }
  lra.
Qed.
(* ... and its fixed point is exactly 2: the sequence from t0 = 1 increases to 2 and never reaches 5/2 *)
Lemma tnext_nosq_fixpoint : tnext_nosq 2 = 2.
Proof. unfold tnext_nosq. replace (1 + 4 * 2) with (3 * 3) by lra. rewrite sqrt_square by lra. lra. Qed.

(* ------------------------------------------------------------------ hypothesis bundles used in the closed statements *)
Definition smooth_convex (n : nat) (f : list R -> R) (gradf : list R -> list R) (Lf : R) : Prop :=
  (forall x, length x = n -> length (gradf x) = n) /\
  (forall x y, length x = n -> length y = n ->
     f y + Ssum n (fun i => (gradf y)@i * (x@i - y@i)) <= f x) /\
  0 < Lf /\
  (forall z y, length z = n -> length y = n ->
     f z <= f y + Ssum n (fun i => (gradf y)@i * (z@i - y@i))
            + Lf / 2 * Ssum n (fun i => (z@i - y@i) * (z@i - y@i))).

Definition minimiser (n : nat) (f : list R -> R) (lb ub : list (option R)) (l1 xs : list R) : Prop :=
  length xs = n /\ feas n lb ub xs /\
  forall x, length x = n -> feas n lb ub x -> F n f l1 xs <= F n f l1 x.

Definition params_ok (P : params (T:=R)) (Lf : R) : Prop :=
  p_tol P = 0 /\ 0 < p_Lgam P <= 1 /\ p_Lgam P * Lf <= p_Lmax P /\ 0 < p_Lmin P <= p_Lmax P.

Section Bundled.
  Variables (n : nat) (f : list R -> R) (gradf : list R -> list R) (lb ub : list (option R)) (l1 : list R) (Lf : R).
  Variable K : kernels (T:=R).
  Variable P : params (T:=R).
  Hypothesis Hok : prob_ok n lb ub l1.
  Hypothesis Hf : smooth_convex n f gradf Lf.

  Lemma key_inequality_b γ y x : 0 < γ -> length y = n -> length x = n -> feas n lb ub x ->
    let o := prox_eval f lb ub l1 γ y (gradf y) in
    o_psih o <= f y + o_gp o + / (2 * γ) * o_pp o ->
    dist2 n (o_xh o) y + 2 * Ssum n (fun i => (y@i - x@i) * ((o_xh o)@i - y@i))
      <= 2 * γ * (F n f l1 x - F n f l1 (o_xh o)).
  Proof. destruct Hf as (A & B & C & D). exact (key_inequality n f gradf lb ub l1 Hok A B γ y x). Qed.

  Hypothesis HK : kernels_ok K.
  Hypothesis HP : params_ok P Lf.
  Variable xs : list R.
  Hypothesis Hxs : minimiser n f lb ub l1 xs.

  Lemma potential_decrease_b fuel s s' o nbt : p_noaccel P = false ->
    inv n f gradf lb ub P s -> step K f gradf lb ub l1 P fuel s = Some (s', o, nbt) ->
    inv n f gradf lb ub P s' /\ Phi n f l1 xs s' <= Phi n f l1 xs s /\
    2 * s_gam s' * (s_t s * s_t s) * (F n f l1 (o_xh o) - F n f l1 xs) <= Phi n f l1 xs s' /\
    0 <= F n f l1 (o_xh o) - F n f l1 xs /\ s_t s + / 2 <= s_t s'.
  Proof.
    destruct Hf as (A & B & C & D). destruct HP as (P1 & P2 & P3 & P4). destruct Hxs as (X1 & X2 & X3).
    exact (step_accel n f gradf lb ub l1 Hok A B Lf C D K HK P P1 P2 P3 xs X1 X2 X3 fuel s s' o nbt).
  Qed.

  Lemma fista_rate_b x0 fuel k s0 s s' o nbt : length x0 = n -> p_noaccel P = false ->
    init K f gradf P x0 = Some s0 -> run K f gradf lb ub l1 P fuel k s0 = Some s ->
    step K f gradf lb ub l1 P fuel s = Some (s', o, nbt) ->
    0 < s_gam s' /\
    F n f l1 (o_xh o) - F n f l1 xs <= 2 * dist2 n x0 xs / (s_gam s' * ((INR k + 2) * (INR k + 2))) /\
    F n f l1 (o_xh o) - F n f l1 xs <= 2 * dist2 n x0 xs / (s_gam s' * ((INR k + 1) * (INR k + 1))).
  Proof.
    destruct Hf as (A & B & C & D). destruct HP as (P1 & P2 & P3 & P4). destruct Hxs as (X1 & X2 & X3).
    intros L0. exact (fista_rate n f gradf lb ub l1 Hok A B Lf C D K HK P P1 P2 P3 xs X1 X2 X3 x0 fuel k s0 s s' o nbt L0 P4).
  Qed.

  Lemma fista_noaccel_b x0 fuel k s0 s s' o nbt : length x0 = n -> p_noaccel P = true ->
    init K f gradf P x0 = Some s0 -> run K f gradf lb ub l1 P fuel k s0 = Some s ->
    step K f gradf lb ub l1 P fuel s = Some (s', o, nbt) ->
    0 < s_gam s' /\
    (k <> O -> F n f l1 (o_xh o) <= F n f l1 (s_x s)) /\
    F n f l1 (o_xh o) - F n f l1 xs <= dist2 n x0 xs / (2 * s_gam s' * (INR k + 1)).
  Proof.
    destruct Hf as (A & B & C & D). destruct HP as (P1 & P2 & P3 & P4). destruct Hxs as (X1 & X2 & X3).
    intros L0. exact (fista_noaccel n f gradf lb ub l1 Hok A B Lf C D K HK P P1 P2 P3 xs X1 X2 X3 x0 fuel k s0 s s' o nbt L0 P4).
  Qed.
End Bundled.

Lemma missing_square_refuted :
  (forall t, 1 <= t <= 2 -> 1 <= tnext_nosq t <= 2) /\ tnext_nosq 2 = 2 /\
  forall K : kernels (T:=R), (forall t, k_tnext K t = tnext_nosq t) ->
    exists k, ~ ((INR k + 2) / 2 <= titer K k 1).
Proof.
  split; [exact tnext_nosq_bounded|]. split; [exact tnext_nosq_fixpoint|].
  intros K HK. apply bounded_momentum_refutes. intros t Ht. rewrite HK. now apply tnext_nosq_bounded.
Qed.
