(* SteihaugProofs.v — proofs about Steihaug.v at the real instance.
   B is an arbitrary symmetric linear operator on vectors of length n (Section hypotheses). *)
From Coq Require Import Reals List ZArith Lra Lia Bool Psatz.
From Flocq Require Import Raux.
From Alpaqa Require Import Num NumR Vec ProxVec Steihaug.
Import ListNotations.
Local Open Scope R_scope.

(* ------------------------------------------------------------------ vectors over R *)
Fixpoint rdot (a b : list R) : R :=
  match a, b with x :: a', y :: b' => x * y + rdot a' b' | _, _ => 0 end.

Lemma rsum_map2_rdot a b : rsum (map2 Rmult a b) = rdot a b.
Proof. revert b; induction a as [|x a IH]; intros [|y b]; cbn; auto. rewrite IH; reflexivity. Qed.

Lemma vdot_rdot (a b : list R) : vdot a b = rdot a b.
Proof. unfold vdot, vmul. rewrite vsum_rsum. apply rsum_map2_rdot. Qed.

Lemma vsqnorm_rdot (v : list R) : vsqnorm v = rdot v v.
Proof.
  unfold vsqnorm. rewrite vsum_rsum. induction v as [|x v IH]; cbn [map rsum rdot]; auto.
  rewrite IH. reflexivity.
Qed.

Lemma vnorm2_rdot (v : list R) : vnorm2 v = sqrt (rdot v v).
Proof. unfold vnorm2. rewrite vsqnorm_rdot. reflexivity. Qed.

Lemma rdot_comm a b : rdot a b = rdot b a.
Proof. revert b; induction a as [|x a IH]; intros [|y b]; cbn; auto. rewrite IH; lra. Qed.

Lemma rdot_nonneg v : 0 <= rdot v v.
Proof. induction v as [|x v IH]; cbn; [lra|]. pose proof (Rle_0_sqr x) as Hx; unfold Rsqr in Hx. lra. Qed.

Lemma rdot_self_zero d r : rdot d d = 0 -> rdot r d = 0.
Proof.
  revert r; induction d as [|x d IH]; intros [|y r]; cbn; auto.
  intros Hz. pose proof (rdot_nonneg d) as Hd. pose proof (Rle_0_sqr x) as Hx; unfold Rsqr in Hx.
  assert (x * x = 0) by lra. assert (x = 0) by nra. subst x.
  rewrite IH by lra. lra.
Qed.

Lemma vadd_length (a b : list R) n : length a = n -> length b = n -> length (vadd a b) = n.
Proof. apply map2_length. Qed.
Lemma vsub_length (a b : list R) n : length a = n -> length b = n -> length (vsub a b) = n.
Proof. apply map2_length. Qed.
Lemma vscale_length (t : R) (a : list R) : length (vscale t a) = length a.
Proof. apply map_length. Qed.
Lemma vneg_length (a : list R) : length (vneg a) = length a.
Proof. apply map_length. Qed.

Lemma rdot_vadd_l a b c : length a = length b -> rdot (vadd a b) c = rdot a c + rdot b c.
Proof.
  unfold vadd. revert b c; induction a as [|x a IH]; intros [|y b] [|z c]; cbn in *; intros Hl; try discriminate; try lra.
  rewrite IH by lia. lra.
Qed.
Lemma rdot_vadd_r a b c : length b = length c -> rdot a (vadd b c) = rdot a b + rdot a c.
Proof. intros. rewrite rdot_comm, rdot_vadd_l by assumption. rewrite (rdot_comm b), (rdot_comm c). lra. Qed.
Lemma rdot_vsub_r a b c : length b = length c -> rdot a (vsub b c) = rdot a b - rdot a c.
Proof.
  unfold vsub. revert b c; induction a as [|x a IH]; intros [|y b] [|z c]; cbn in *; intros Hl; try discriminate; try lra.
  rewrite IH by lia. lra.
Qed.
Lemma rdot_vscale_l t a b : rdot (vscale t a) b = t * rdot a b.
Proof.
  unfold vscale. revert b; induction a as [|x a IH]; intros [|y b]; cbn in *; try lra.
  rewrite IH. lra.
Qed.
Lemma rdot_vscale_r t a b : rdot a (vscale t b) = t * rdot a b.
Proof. rewrite rdot_comm, rdot_vscale_l, rdot_comm. reflexivity. Qed.
Lemma rdot_vneg_r a b : rdot a (vneg b) = - rdot a b.
Proof.
  unfold vneg. revert b; induction a as [|x a IH]; intros [|y b]; cbn in *; try lra.
  rewrite IH. lra.
Qed.

Lemma vadd_assoc (a b c : list R) : vadd (vadd a b) c = vadd a (vadd b c).
Proof.
  unfold vadd. revert b c; induction a as [|x a IH]; intros [|y b] [|z c]; cbn in *; auto.
  rewrite <- IH. f_equal. lra.
Qed.

Definition zeros (v : list R) : list R := map (fun _ => 0) v.
Lemma zeros_length v : length (zeros v) = length v. Proof. apply map_length. Qed.
Lemma zeros_vscale v : zeros v = vscale 0 v.
Proof. unfold zeros, vscale. apply map_ext. intros; cbn; lra. Qed.
Lemma vadd_vscale0 a b : length a = length b -> vadd a (vscale 0 b) = a.
Proof.
  unfold vadd, vscale. revert b; induction a as [|x a IH]; intros [|y b]; cbn in *; intros; try discriminate; auto.
  rewrite IH by lia. f_equal. lra.
Qed.
Lemma rdot_zeros_l v w : rdot (zeros v) w = 0.
Proof. rewrite zeros_vscale, rdot_vscale_l. lra. Qed.
Lemma axpy_zeros_neg t (g : list R) : axpy (zeros g) t (vneg g) = vscale (- t) g.
Proof.
  unfold axpy, zeros, vneg, vscale, vadd. induction g as [|x g IH]; cbn in *; auto.
  rewrite IH. f_equal. lra.
Qed.

(* ------------------------------------------------------------------ the scalar quadratic a t² + b t + c = 0 *)
Lemma roots_spec a b c σ : 0 < a -> c < 0 -> (σ = 1 \/ σ = -1) -> 0 <= σ * b ->
  let sd := sqrt (b * b - 4 * a * c) in
  let aux := b + σ * sd in
  let t1 := - aux / (2 * a) in
  let t2 := (- 2 * c) / aux in
  aux <> 0 /\ t1 + t2 = - b / a /\ t1 * t2 = c / a.
Proof.
  intros Ha Hc Hσ Hσb sd aux t1 t2.
  assert (Hdisc : 0 < b * b - 4 * a * c) by (pose proof (Rle_0_sqr b) as Hb; unfold Rsqr in Hb; nra).
  assert (Hsd : sd * sd = b * b - 4 * a * c) by (apply sqrt_sqrt; lra).
  assert (Hsdpos : 0 < sd) by (apply sqrt_lt_R0; lra).
  assert (Haux : aux <> 0).
  { unfold aux. destruct Hσ; subst σ; nra. }
  assert (Haux2 : aux * aux + 4 * a * c = 2 * b * aux).
  { unfold aux. destruct Hσ; subst σ; nra. }
  split; [exact Haux|]. split.
  - unfold t1, t2.
    replace (- aux / (2 * a) + - 2 * c / aux) with (- (aux * aux + 4 * a * c) / (2 * a * aux)) by (field; lra).
    rewrite Haux2. field. lra.
  - unfold t1, t2. field. lra.
Qed.

(* the two numbers returned by get_boundaries_intersections, over R *)
Lemma bnd_intersections_R (z d : list R) (Δ : R) :
  0 < rdot d d -> rdot z z < Δ * Δ ->
  let lo := fst (bnd_intersections z d Δ) in
  let hi := snd (bnd_intersections z d Δ) in
  lo < 0 < hi /\
  forall t, rdot d d * (t * t) + 2 * rdot z d * t + (rdot z z - Δ * Δ) = rdot d d * ((t - lo) * (t - hi)).
Proof.
  intros Ha Hc. unfold bnd_intersections. rewrite !vsqnorm_rdot, vdot_rdot.
  set (a := rdot d d) in *. set (zz := rdot z z) in *. set (zd := rdot z d).
  cbn [fst snd].
  unfold ncopysign, nsignbit, n4. numR.
  set (b := (1 + 1) * zd). set (c := zz - Δ * Δ).
  assert (Hc' : c < 0) by (unfold c; lra).
  replace (b * b - (1 + 1 + (1 + 1)) * a * c) with (b * b - 4 * a * c) by ring.
  set (sd := sqrt (b * b - 4 * a * c)).
  assert (Hsd0 : 0 <= sd) by apply sqrt_pos.
  assert (Hσ : exists σ, (σ = 1 \/ σ = -1) /\ 0 <= σ * b /\
            (if Rlt_bool b 0 || Req_bool b 0 && Rlt_bool (1 / b) 0 then - Rabs sd else Rabs sd) = σ * sd).
  { rewrite (Rabs_pos_eq sd Hsd0).
    destruct (Rlt_bool_spec b 0); cbn [orb].
    - exists (-1). repeat split; [right; reflexivity | lra | lra].
    - destruct (Req_bool_spec b 0); cbn [andb].
      + destruct (Rlt_bool_spec (1 / b) 0).
        * exists (-1). repeat split; [right; reflexivity | lra | lra].
        * exists 1. repeat split; [left; reflexivity | lra | lra].
      + exists 1. repeat split; [left; reflexivity | lra | lra]. }
  destruct Hσ as (σ & Hσ & Hσb & ->).
  destruct (roots_spec a b c σ Ha Hc' Hσ Hσb) as (Haux & Hsum & Hprod).
  fold sd in Haux, Hsum, Hprod.
  set (aux := b + σ * sd) in *.
  replace (- (1 + 1) * c / aux) with (- 2 * c / aux) by (f_equal; ring).
  replace (- aux / ((1 + 1) * a)) with (- aux / (2 * a)) by (f_equal; ring).
  set (t1 := - aux / (2 * a)) in *. set (t2 := - 2 * c / aux) in *.
  assert (Hneg : t1 * t2 < 0).
  { rewrite Hprod. unfold Rdiv. assert (0 < / a) by (apply Rinv_0_lt_compat; lra). nra. }
  assert (Hfac : forall t, a * (t * t) + b * t + c = a * ((t - t1) * (t - t2))).
  { intros t. replace (a * ((t - t1) * (t - t2))) with (a * (t * t) - a * (t1 + t2) * t + a * (t1 * t2)) by ring.
    rewrite Hsum, Hprod. field. lra. }
  assert (Hfac' : forall t, a * (t * t) + 2 * zd * t + c = a * ((t - t1) * (t - t2))).
  { intros t. rewrite <- Hfac. unfold b. ring. }
  clearbody t1 t2. clear Hfac.
  rbool; try (exfalso; nra); split; try (split; nra); intros t; rewrite Hfac'; ring.
Qed.

(* ------------------------------------------------------------------ the CG loop *)
Section CG.
  Variable n : nat.
  Variable B : list R -> list R.
  Hypothesis B_len : forall v, length v = n -> length (B v) = n.
  Hypothesis B_add : forall u v, length u = n -> length v = n -> B (vadd u v) = vadd (B u) (B v).
  Hypothesis B_scale : forall (a : R) v, length v = n -> B (vscale a v) = vscale a (B v).
  Hypothesis B_sym : forall u v, length u = n -> length v = n -> vdot u (B v) = vdot (B u) v.
  Variable g : list R.
  Hypothesis g_len : length g = n.
  Variable Δ : R.
  Hypothesis Δ_pos : 0 < Δ.
  Variable P : cg_params R.

  (* the quadratic model q(s) = g's + 1/2 s'Bs *)
  Definition qm (s : list R) : R := rdot g s + / 2 * rdot s (B s).

  Lemma cg_eval_qm s : cg_eval B g s = qm s.
  Proof. unfold cg_eval, qm. rewrite !vdot_rdot. numR. rewrite (rdot_comm s g). field. Qed.

  Lemma B_sym' u v : length u = n -> length v = n -> rdot u (B v) = rdot (B u) v.
  Proof. intros. rewrite <- !vdot_rdot. apply B_sym; assumption. Qed.

  Lemma axpy_length z t d : length z = n -> length d = n -> length (axpy z t d) = n.
  Proof. intros. unfold axpy. apply vadd_length; [assumption | rewrite vscale_length; assumption]. Qed.

  Lemma B_axpy z t d : length z = n -> length d = n -> B (axpy z t d) = axpy (B z) t (B d).
  Proof. intros. unfold axpy. rewrite B_add, B_scale; auto. rewrite vscale_length; assumption. Qed.

  Lemma rdot_axpy_r a z t d : length z = n -> length d = n -> rdot a (axpy z t d) = rdot a z + t * rdot a d.
  Proof. intros. unfold axpy. rewrite rdot_vadd_r, rdot_vscale_r; [reflexivity | rewrite vscale_length; congruence]. Qed.
  Lemma rdot_axpy_l a z t d : length z = n -> length d = n -> rdot (axpy z t d) a = rdot z a + t * rdot d a.
  Proof. intros. rewrite rdot_comm, rdot_axpy_r, (rdot_comm a z), (rdot_comm a d); auto. Qed.

  Lemma qm_axpy z t d : length z = n -> length d = n ->
    qm (axpy z t d) = qm z + t * (rdot g d + rdot (B z) d) + / 2 * (t * t) * rdot d (B d).
  Proof.
    intros Hz Hd. unfold qm. rewrite B_axpy by assumption.
    rewrite rdot_axpy_r by assumption.
    rewrite (rdot_axpy_r (axpy z t d)) by (apply B_len; assumption).
    rewrite !rdot_axpy_l by assumption.
    rewrite (B_sym' z d) by assumption. rewrite (rdot_comm d (B z)). field.
  Qed.

  Lemma nrm_axpy z t d : length z = n -> length d = n ->
    rdot (axpy z t d) (axpy z t d) = rdot z z + 2 * t * rdot z d + t * t * rdot d d.
  Proof.
    intros Hz Hd. rewrite rdot_axpy_r by assumption. rewrite !rdot_axpy_l by assumption.
    rewrite (rdot_comm d z). ring.
  Qed.

  (* loop invariant at the head of `while (true)` *)
  Record Inv (st : cg_state R) : Prop := {
    inv_lz : length (st_z st) = n;
    inv_lr : length (st_r st) = n;
    inv_ld : length (st_d st) = n;
    inv_r : st_r st = vadd g (B (st_z st));                       (* r = g + B z *)
    inv_rsq : st_rsq st = rdot (st_r st) (st_r st);               (* r_sq = r'r *)
    inv_pos : 0 < st_rsq st;                                       (* r <> 0 *)
    inv_rd : rdot (st_r st) (st_d st) = - st_rsq st;              (* r'd = -r'r *)
    inv_in : rdot (st_z st) (st_z st) < Δ * Δ }.                  (* ||z|| < radius *)

  Definition feasible_along (z d : list R) (t : R) : Prop :=
    0 <= t /\ rdot (axpy z t d) (axpy z t d) <= Δ * Δ.

  Definition exit_ok (tol : R) (i : Z) (st : cg_state R) (res : cg_result R) : Prop :=
    let s := res_step res in
    length s = n /\ res_val res = qm s /\ res_iter res = i /\
    (res_exit res = ExNegCurvA \/ res_exit res = ExNegCurvB \/ res_exit res = ExBoundary \/ res_exit res = ExInterior) /\
    ((res_exit res = ExNegCurvA \/ res_exit res = ExNegCurvB) <-> rdot (st_d st) (B (st_d st)) <= 0) /\
    (res_exit res <> ExInterior -> rdot s s = Δ * Δ) /\
    (res_exit res = ExInterior -> rdot s s < Δ * Δ /\
        (vnorm2 (vadd g (B s)) < tol \/ vnorm2 (vadd g (B s)) = 0 \/ (max_iter P < i)%Z)) /\
    (forall t, feasible_along (st_z st) (st_d st) t -> res_val res <= qm (axpy (st_z st) t (st_d st))).

  Lemma sqrt_ge_sq x D : 0 < D -> 0 <= x -> D <= sqrt x -> D * D <= x.
  Proof. intros HD Hx H. rewrite <- (sqrt_sqrt x Hx). nra. Qed.
  Lemma sqrt_lt_sq x D : 0 < D -> 0 <= x -> sqrt x < D -> x < D * D.
  Proof. intros HD Hx H. rewrite <- (sqrt_sqrt x Hx). pose proof (sqrt_pos x). nra. Qed.

  Lemma step_spec tol i st : Inv st ->
    match cg_step B g Δ P tol i st with
    | inl res => exit_ok tol i st res
    | inr st' => Inv st' /\ (i <= max_iter P)%Z /\
                 forall t, feasible_along (st_z st) (st_d st) t -> qm (st_z st') <= qm (axpy (st_z st) t (st_d st))
    end.
  Proof.
    destruct st as [z r d rsq]. intros [Hlz Hlr Hld Hr Hrsq Hpos Hrd Hin]. cbn [st_z st_r st_d st_rsq] in *.
    unfold cg_step, exit_ok, feasible_along. cbn [st_z st_r st_d st_rsq].
    rewrite vdot_rdot. set (κ := rdot d (B d)).
    assert (Hdd : 0 < rdot d d).
    { pose proof (rdot_nonneg d) as H0. destruct (Req_dec (rdot d d) 0) as [E|E]; [|lra].
      rewrite (rdot_self_zero d r E) in Hrd. lra. }
    pose proof (bnd_intersections_R z d Δ Hdd Hin) as Hb.
    destruct (bnd_intersections z d Δ) as [lo hi]. cbn [fst snd] in Hb. destruct Hb as [[Hlo Hhi] Hfac].
    assert (Hφ : forall t, qm (axpy z t d) = qm z - t * rsq + / 2 * (t * t) * κ).
    { intros t. rewrite qm_axpy by assumption. fold κ.
      assert (rdot g d + rdot (B z) d = - rsq) as ->; [|ring].
      rewrite <- Hrd, Hr. rewrite rdot_vadd_l; [reflexivity|]. rewrite B_len; congruence. }
    assert (Hψ : forall t, rdot (axpy z t d) (axpy z t d) - Δ * Δ = rdot d d * ((t - lo) * (t - hi))).
    { intros t. rewrite nrm_axpy by assumption. rewrite <- Hfac. ring. }
    assert (Hfeas : forall t, 0 <= t -> rdot (axpy z t d) (axpy z t d) <= Δ * Δ -> t <= hi).
    { intros t Ht Hf. specialize (Hψ t). destruct (Rle_lt_dec t hi); [assumption|exfalso].
      assert (0 < (t - lo) * (t - hi)) by (apply Rmult_lt_0_compat; lra). nra. }
    numR. destruct (Rle_bool_spec κ 0) as [Hκ|Hκ].
    - (* negative curvature: both boundary points *)
      rewrite !cg_eval_qm.
      assert (Hqb : forall t, 0 <= t -> t <= hi -> qm (axpy z hi d) <= qm (axpy z t d)).
      { intros t Ht Hth. rewrite !Hφ.
        assert (0 <= (hi - t) * rsq) by (apply Rmult_le_pos; lra).
        assert ((hi - t) * (hi + t) * κ <= 0) by (assert (0 <= (hi - t) * (hi + t)) by (apply Rmult_le_pos; lra); nra).
        nra. }
      assert (Hsa : rdot (axpy z lo d) (axpy z lo d) = Δ * Δ) by (specialize (Hψ lo); nra).
      assert (Hsb : rdot (axpy z hi d) (axpy z hi d) = Δ * Δ) by (specialize (Hψ hi); nra).
      rbool; cbn [res_step res_val res_exit res_iter].
      all: repeat split; try (apply axpy_length; assumption); try tauto; try (intros; assumption); try (intros; discriminate).
      all: try (intros [E|E]; discriminate).
      all: try (intros t [Ht Hf]; pose proof (Hqb t Ht (Hfeas t Ht Hf)); lra).
      all: try (intros [[E|E]|[E|E]]; discriminate).
    - (* positive curvature *)
      cbn [negb]. fold (axpy z (rsq / κ) d). set (α := rsq / κ).
      assert (Hα : 0 < α) by (unfold α; apply Rdiv_lt_0_compat; lra).
      assert (Hακ : α * κ = rsq) by (unfold α; field; lra).
      rewrite vnorm2_rdot.
      assert (Hnn : 0 <= rdot (axpy z α d) (axpy z α d)) by apply rdot_nonneg.
      destruct (Rle_bool_spec Δ (sqrt (rdot (axpy z α d) (axpy z α d)))) as [Hout|Hinside].
      + (* over-long step: boundary point z + hi d *)
        apply sqrt_ge_sq in Hout; try assumption.
        assert (Hhiα : hi <= α).
        { specialize (Hψ α). destruct (Rle_lt_dec hi α); [assumption|exfalso].
          assert (0 < (α - lo) * (hi - α)) by (apply Rmult_lt_0_compat; lra). nra. }
        assert (Hsb : rdot (axpy z hi d) (axpy z hi d) = Δ * Δ) by (specialize (Hψ hi); nra).
        cbn [res_step res_val res_exit res_iter]. rewrite cg_eval_qm.
        repeat split; try (apply axpy_length; assumption); try tauto; try (intros; assumption); try (intros; discriminate).
        * intros [E|E]; discriminate.
        * intros; lra.
        * intros t [Ht Hf]. pose proof (Hfeas t Ht Hf) as Hth. rewrite !Hφ.
          assert (0 <= (hi - t) * (rsq - / 2 * (hi + t) * κ)) by (apply Rmult_le_pos; nra).
          nra.
      + (* step stays inside *)
        apply sqrt_lt_sq in Hinside; try assumption.
        set (s := axpy z α d) in *. set (r' := axpy r α (B d)).
        assert (Hls : length s = n) by (apply axpy_length; assumption).
        assert (HlBd : length (B d) = n) by (apply B_len; assumption).
        assert (Hlr' : length r' = n) by (apply axpy_length; assumption).
        assert (Hr' : r' = vadd g (B s)).
        { unfold r', s. rewrite B_axpy by assumption. unfold axpy. rewrite Hr. apply vadd_assoc. }
        assert (Hmin : forall t, qm s <= qm (axpy z t d)).
        { intros t. unfold s. rewrite !Hφ.
          assert (0 <= / 2 * κ * ((t - α) * (t - α))) by (pose proof (Rle_0_sqr (t - α)) as Hq; unfold Rsqr in Hq; nra).
          nra. }
        rewrite vsqnorm_rdot.
        destruct ((Rlt_bool (sqrt (rdot r' r')) tol || Req_bool (sqrt (rdot r' r')) 0 || (max_iter P <? i)%Z)) eqn:Hexit.
        * cbn [res_step res_val res_exit res_iter]. rewrite cg_eval_qm.
          repeat split; try assumption; try tauto; try (intros; discriminate).
          -- intros [E|E]; discriminate.
          -- intros; lra.
          -- rewrite <- Hr', vnorm2_rdot.
             apply orb_true_iff in Hexit. destruct Hexit as [Hexit|Hexit].
             ++ apply orb_true_iff in Hexit. destruct Hexit as [Hexit|Hexit].
                ** left. apply Rlt_bool_iff. exact Hexit.
                ** right; left. apply Req_bool_iff. exact Hexit.
             ++ right; right. apply Z.ltb_lt. exact Hexit.
          -- intros t _. apply Hmin.
        * apply orb_false_iff in Hexit. destruct Hexit as [Hexit Hcap]. apply Z.ltb_ge in Hcap.
          apply orb_false_iff in Hexit. destruct Hexit as [_ Hnz].
          assert (Hr'pos : 0 < rdot r' r').
          { pose proof (rdot_nonneg r') as H0. destruct (Req_dec (rdot r' r') 0) as [E|E]; [|lra].
            rewrite E, sqrt_0 in Hnz. destruct (Req_bool_spec 0 0); [discriminate|lra]. }
          assert (Hr'd : rdot r' d = 0).
          { unfold r'. rewrite rdot_axpy_l by assumption. rewrite Hrd. rewrite (rdot_comm (B d) d). fold κ. lra. }
          split; [|split; [exact Hcap | intros t _; apply Hmin]].
          constructor; cbn [st_z st_r st_d st_rsq]; try assumption; try reflexivity.
          -- apply vsub_length; [rewrite vscale_length|]; assumption.
          -- rewrite rdot_vsub_r by (rewrite vscale_length; congruence).
             rewrite rdot_vscale_r, Hr'd. ring.
  Qed.

  (* what every value returned by the loop satisfies *)
  Definition final_ok (tol : R) (res : cg_result R) : Prop :=
    let s := res_step res in
    length s = n /\ res_val res = qm s /\
    (res_exit res = ExNegCurvA \/ res_exit res = ExNegCurvB \/ res_exit res = ExBoundary \/ res_exit res = ExInterior) /\
    (res_exit res <> ExInterior -> rdot s s = Δ * Δ) /\
    (res_exit res = ExInterior -> rdot s s < Δ * Δ /\
        (vnorm2 (vadd g (B s)) < tol \/ vnorm2 (vadd g (B s)) = 0 \/ (max_iter P < res_iter res)%Z)).

  Lemma loop_spec fuel tol : forall i st, Inv st -> (1 <= Z.of_nat fuel)%Z -> (max_iter P + 2 <= Z.of_nat fuel + i)%Z ->
    let res := cg_loop B g Δ P fuel tol i st in
    final_ok tol res /\ (i <= res_iter res)%Z /\ (res_iter res <= Z.max i (max_iter P + 1))%Z /\
    forall t, feasible_along (st_z st) (st_d st) t -> res_val res <= qm (axpy (st_z st) t (st_d st)).
  Proof.
    induction fuel as [|f IH]; intros i st HI Hf1 Hf2; [cbn in Hf1; lia|].
    cbn [cg_loop]. pose proof (step_spec tol i st HI) as Hs.
    destruct (cg_step B g Δ P tol i st) as [res|st'].
    - destruct Hs as (Hl & Hv & Hi & Hk & _ & Hb & Hint & Hle). cbv zeta.
      split; [|split; [lia|split; [lia|exact Hle]]].
      unfold final_ok. rewrite Hi. repeat split; try assumption; apply Hint; assumption.
    - destruct Hs as (HI' & Hcap & Hle).
      assert (Hf1' : (1 <= Z.of_nat f)%Z) by lia.
      assert (Hf2' : (max_iter P + 2 <= Z.of_nat f + Z.succ i)%Z) by lia.
      specialize (IH (Z.succ i) st' HI' Hf1' Hf2'). cbv zeta in IH |- *.
      destruct IH as (Hfin & Hi1 & Hi2 & Hle').
      split; [exact Hfin|]. split; [lia|]. split; [lia|].
      intros t Ht. apply Rle_trans with (qm (st_z st')); [|apply Hle; exact Ht].
      destruct HI' as [Hlz' _ Hld' _ _ _ _ Hin'].
      assert (H0 : feasible_along (st_z st') (st_d st') 0).
      { split; [lra|]. rewrite nrm_axpy by assumption. lra. }
      specialize (Hle' 0 H0). rewrite qm_axpy in Hle' by assumption. lra.
  Qed.

  Hypothesis g_nonzero : 0 < rdot g g.

  Lemma init_inv : Inv (cg_init g).
  Proof.
    unfold cg_init. constructor; cbn [st_z st_r st_d st_rsq].
    - change (length (zeros g) = n). rewrite zeros_length; assumption.
    - assumption.
    - rewrite vneg_length; assumption.
    - change (g = vadd g (B (zeros g))). rewrite zeros_vscale, B_scale by assumption.
      rewrite vadd_vscale0; [reflexivity|]. rewrite B_len; congruence.
    - apply vsqnorm_rdot.
    - rewrite vsqnorm_rdot. assumption.
    - rewrite vsqnorm_rdot. apply rdot_vneg_r.
    - change (rdot (zeros g) (zeros g) < Δ * Δ). rewrite rdot_zeros_l. nra.
  Qed.

  Theorem solve_spec :
    let res := cg_solve B g Δ P in
    final_ok (cg_tolerance P g) res /\ (0 <= res_iter res <= Z.max 0 (max_iter P + 1))%Z /\
    forall t, 0 <= t -> t * t * rdot g g <= Δ * Δ -> res_val res <= qm (vscale (- t) g).
  Proof.
    unfold cg_solve. cbn [cg_init st_rsq]. rewrite vsqnorm_rdot. numR.
    destruct (Req_bool_spec (rdot g g) 0) as [E|_]; [lra|].
    pose proof (loop_spec (cg_fuel P) (cg_tolerance P g) 0%Z (cg_init g) init_inv) as H.
    assert (H1 : (1 <= Z.of_nat (cg_fuel P))%Z) by (unfold cg_fuel; lia).
    assert (H2 : (max_iter P + 2 <= Z.of_nat (cg_fuel P) + 0)%Z) by (unfold cg_fuel; lia).
    specialize (H H1 H2). cbv zeta in H |- *. destruct H as (Hfin & Hi1 & Hi2 & Hle).
    split; [exact Hfin|]. split; [lia|].
    intros t Ht Hf. cbn [cg_init st_z st_d] in Hle. change (map (fun _ => n0) g) with (zeros g) in Hle.
    specialize (Hle t). rewrite axpy_zeros_neg in Hle. apply Hle. split; [assumption|].
    rewrite axpy_zeros_neg, rdot_vscale_l, rdot_vscale_r. nra.
  Qed.
End CG.

(* ------------------------------------------------------------------ statements in terms of the code's own quantities *)
Section CGTheorems.
  Variable n : nat.
  Variable B : list R -> list R.
  Hypothesis B_len : forall v, length v = n -> length (B v) = n.
  Hypothesis B_add : forall u v, length u = n -> length v = n -> B (vadd u v) = vadd (B u) (B v).
  Hypothesis B_scale : forall (a : R) v, length v = n -> B (vscale a v) = vscale a (B v).
  Hypothesis B_sym : forall u v, length u = n -> length v = n -> vdot u (B v) = vdot (B u) v.
  Variable g : list R.
  Hypothesis g_len : length g = n.
  Variable Δ : R.
  Hypothesis Δ_pos : 0 < Δ.
  Variable P : cg_params R.
  Hypothesis g_nonzero : g <> zeros g.

  (* the model g's + 1/2 s'Bs, written with the code's vdot *)
  Definition model (s : list R) : R := vdot g s + / 2 * vdot s (B s).

  Lemma model_qm s : model s = qm B g s.
  Proof. unfold model, qm. rewrite !vdot_rdot. reflexivity. Qed.

  Lemma g_nonzero' : 0 < rdot g g.
  Proof.
    pose proof (rdot_nonneg g) as H0. destruct (Req_dec (rdot g g) 0) as [E|E]; [exfalso|lra].
    apply g_nonzero. clear -E. induction g as [|x l IH]; cbn in *; [reflexivity|].
    pose proof (rdot_nonneg l) as Hl. pose proof (Rle_0_sqr x) as Hx; unfold Rsqr in Hx.
    assert (x = 0) by nra. subst x. f_equal. apply IH. lra.
  Qed.

  Local Notation res := (cg_solve B g Δ P).
  Lemma spec :
    final_ok n B g Δ P (cg_tolerance P g) res /\ (0 <= res_iter res <= Z.max 0 (max_iter P + 1))%Z /\
    forall t, 0 <= t -> t * t * rdot g g <= Δ * Δ -> res_val res <= qm B g (vscale (- t) g).
  Proof. exact (solve_spec n B B_len B_add B_scale B_sym g g_len Δ Δ_pos P g_nonzero'). Qed.

  Lemma sqrt_sq_pos : sqrt (Δ * Δ) = Δ.
  Proof. apply sqrt_square. lra. Qed.

  Lemma sqrt_le_D x : x <= Δ * Δ -> sqrt x <= Δ.
  Proof. intros H. apply Rle_trans with (sqrt (Δ * Δ)); [apply sqrt_le_1_alt; exact H | rewrite sqrt_sq_pos; lra]. Qed.
  Lemma sqrt_lt_D x : 0 <= x -> x < Δ * Δ -> sqrt x < Δ.
  Proof. intros H0 H. apply Rlt_le_trans with (sqrt (Δ * Δ)); [apply sqrt_lt_1_alt; split; assumption | rewrite sqrt_sq_pos; lra]. Qed.

  Lemma solve_length : length (res_step res) = n.
  Proof. destruct spec as ((H & _) & _). exact H. Qed.

  Lemma solve_terminates :
    res_exit res <> ExFuel /\ res_exit res <> ExNaN /\ (0 <= res_iter res <= Z.max 0 (max_iter P + 1))%Z.
  Proof.
    destruct spec as ((_ & _ & Hk & _) & Hi & _).
    split; [|split; [|lia]]; intros E; rewrite E in Hk; destruct Hk as [H|[H|[H|H]]]; discriminate.
  Qed.

  Lemma solve_norm_le_radius : vnorm2 (res_step res) <= Δ.
  Proof.
    destruct spec as ((_ & _ & Hk & Hb & Hint) & _).
    rewrite vnorm2_rdot. apply sqrt_le_D.
    destruct Hk as [H|[H|[H|H]]].
    4: destruct (Hint H); lra.
    all: assert (Hne : res_exit res <> ExInterior) by (rewrite H; discriminate); rewrite (Hb Hne); lra.
  Qed.

  Lemma solve_value_is_model : res_val res = model (res_step res).
  Proof. destruct spec as ((_ & Hv & _) & _). rewrite model_qm. exact Hv. Qed.

  Lemma qm_scale_g c : qm B g (vscale c g) = c * rdot g g + / 2 * (c * c) * rdot g (B g).
  Proof.
    unfold qm. rewrite B_scale by assumption. rewrite rdot_vscale_r, rdot_vscale_l, rdot_vscale_r. ring.
  Qed.

  (* the value is no worse than the model at ANY feasible point of the steepest-descent ray -t g, t >= 0 *)
  Lemma solve_le_steepest_descent t : 0 <= t -> vnorm2 (vscale (- t) g) <= Δ ->
    res_val res <= model (vscale (- t) g).
  Proof.
    intros Ht Hn. destruct spec as (_ & _ & Hle). rewrite model_qm. apply Hle; [assumption|].
    rewrite vnorm2_rdot in Hn. rewrite rdot_vscale_l, rdot_vscale_r in Hn.
    assert (H0 : 0 <= - t * (- t * rdot g g)) by (pose proof g_nonzero'; nra).
    pose proof (sqrt_pos (- t * (- t * rdot g g))) as Hs.
    pose proof (sqrt_sqrt _ H0) as Hq. nra.
  Qed.

  Lemma solve_nonpositive : res_val res <= 0.
  Proof.
    destruct spec as (_ & _ & Hle). specialize (Hle 0 (Rle_refl 0)).
    rewrite qm_scale_g in Hle. nra.
  Qed.

  (* Cauchy point: minimiser of the model along -g inside the ball *)
  Definition cauchy_tau : R :=
    let gn := vnorm2 g in let gBg := vdot g (B g) in
    if Rle_bool gBg 0 then Δ / gn else Rmin (gn * gn / gBg) (Δ / gn).
  Definition cauchy_point : list R := vscale (- cauchy_tau) g.

  Lemma gn_pos : 0 < vnorm2 g.
  Proof. rewrite vnorm2_rdot. apply sqrt_lt_R0. apply g_nonzero'. Qed.
  Lemma gn_sq : vnorm2 g * vnorm2 g = rdot g g.
  Proof. rewrite vnorm2_rdot. apply sqrt_sqrt. apply rdot_nonneg. Qed.

  Lemma cauchy_tau_range : 0 <= cauchy_tau <= Δ / vnorm2 g.
  Proof.
    pose proof gn_pos as Hg. assert (0 < Δ / vnorm2 g) by (apply Rdiv_lt_0_compat; lra).
    unfold cauchy_tau. destruct (Rle_bool_spec (vdot g (B g)) 0) as [H0|H0]; [lra|].
    assert (0 < vnorm2 g * vnorm2 g / vdot g (B g)) by (apply Rdiv_lt_0_compat; nra).
    unfold Rmin. destruct (Rle_dec _ _); lra.
  Qed.

  Lemma cauchy_feasible : vnorm2 cauchy_point <= Δ.
  Proof.
    destruct cauchy_tau_range as [H0 H1]. pose proof gn_pos as Hg. pose proof gn_sq as Hsq.
    unfold cauchy_point. rewrite vnorm2_rdot, rdot_vscale_l, rdot_vscale_r.
    apply sqrt_le_D. rewrite <- Hsq.
    assert (cauchy_tau * vnorm2 g <= Δ).
    { apply Rmult_le_reg_r with (/ vnorm2 g); [apply Rinv_0_lt_compat; lra|].
      rewrite Rmult_assoc, Rinv_r by lra. unfold Rdiv in H1. lra. }
    assert (0 <= cauchy_tau * vnorm2 g) by nra. nra.
  Qed.

  Lemma solve_le_cauchy : res_val res <= model cauchy_point.
  Proof. apply solve_le_steepest_descent; [apply cauchy_tau_range | apply cauchy_feasible]. Qed.

  (* ... and the Cauchy point as defined above really is the best feasible point on the ray *)
  Lemma cauchy_is_ray_minimiser t : 0 <= t -> vnorm2 (vscale (- t) g) <= Δ ->
    model cauchy_point <= model (vscale (- t) g).
  Proof.
    intros Ht Hn. pose proof gn_pos as Hg. pose proof gn_sq as Hsq. pose proof g_nonzero' as Hgg.
    assert (Htmax : t <= Δ / vnorm2 g).
    { rewrite vnorm2_rdot, rdot_vscale_l, rdot_vscale_r in Hn.
      replace (- t * (- t * rdot g g)) with ((t * vnorm2 g) * (t * vnorm2 g)) in Hn by (rewrite <- Hsq; ring).
      rewrite sqrt_square in Hn by nra.
      apply Rmult_le_reg_r with (vnorm2 g); [lra|]. unfold Rdiv. rewrite Rmult_assoc, Rinv_l by lra. lra. }
    unfold cauchy_point. rewrite !model_qm, !qm_scale_g.
    destruct cauchy_tau_range as [Hc0 Hc1]. revert Hc0 Hc1. unfold cauchy_tau.
    rewrite vdot_rdot. set (κ := rdot g (B g)). set (T := Δ / vnorm2 g) in *. rewrite Hsq. set (γ := rdot g g) in *.
    destruct (Rle_bool_spec κ 0) as [Hκ|Hκ]; intros Hc0 Hc1.
    - assert (0 <= (T - t) * γ) by (apply Rmult_le_pos; lra).
      assert ((T - t) * (T + t) * κ <= 0) by (assert (0 <= (T - t) * (T + t)) by (apply Rmult_le_pos; lra); nra).
      nra.
    - set (α := γ / κ). assert (Hακ : α * κ = γ) by (unfold α; field; lra).
      unfold Rmin in *. destruct (Rle_dec α T) as [Hle|Hgt].
      + assert (0 <= / 2 * κ * ((t - α) * (t - α))) by (pose proof (Rle_0_sqr (t - α)) as Hq; unfold Rsqr in Hq; nra).
        nra.
      + assert (0 <= (T - t) * (γ - / 2 * (T + t) * κ)) by (apply Rmult_le_pos; nra).
        nra.
  Qed.

  Lemma solve_exit_kinds :
    ((res_exit res = ExNegCurvA \/ res_exit res = ExNegCurvB \/ res_exit res = ExBoundary) -> vnorm2 (res_step res) = Δ) /\
    (res_exit res = ExInterior <-> vnorm2 (res_step res) < Δ).
  Proof.
    destruct spec as ((_ & _ & Hk & Hb & Hint) & _).
    assert (Hsph : res_exit res <> ExInterior -> vnorm2 (res_step res) = Δ).
    { intros H. rewrite vnorm2_rdot, (Hb H). apply sqrt_sq_pos. }
    assert (Hin : res_exit res = ExInterior -> vnorm2 (res_step res) < Δ).
    { intros H. destruct (Hint H) as [Hlt _]. rewrite vnorm2_rdot.
      apply sqrt_lt_D; [apply rdot_nonneg | exact Hlt]. }
    split; [|split; [exact Hin|]].
    - intros [H|[H|H]]; apply Hsph; rewrite H; discriminate.
    - intros Hlt. destruct Hk as [H|[H|[H|H]]]; try assumption; exfalso;
        (assert (vnorm2 (res_step res) = Δ) by (apply Hsph; rewrite H; discriminate)); lra.
  Qed.

  Lemma solve_interior_exit_reason : vnorm2 (res_step res) < Δ ->
    let r := vadd g (B (res_step res)) in
    vnorm2 r < cg_tolerance P g \/ vnorm2 r = 0 \/ (max_iter P < res_iter res)%Z.
  Proof.
    intros Hlt. apply (proj2 solve_exit_kinds) in Hlt.
    destruct spec as ((_ & _ & _ & _ & Hint) & _). apply (Hint Hlt).
  Qed.
End CGTheorems.

(* ------------------------------------------------------------------ per-pass statements (any history) *)
Section CGSteps.
  Variable n : nat.
  Variable B : list R -> list R.
  Hypothesis B_len : forall v, length v = n -> length (B v) = n.
  Hypothesis B_add : forall u v, length u = n -> length v = n -> B (vadd u v) = vadd (B u) (B v).
  Hypothesis B_scale : forall (a : R) v, length v = n -> B (vscale a v) = vscale a (B v).
  Hypothesis B_sym : forall u v, length u = n -> length v = n -> vdot u (B v) = vdot (B u) v.
  Variable g : list R.
  Hypothesis g_len : length g = n.
  Variable Δ : R.
  Hypothesis Δ_pos : 0 < Δ.
  Variable P : cg_params R.

  (* the loop invariant, in the code's own terms *)
  Definition cg_invariant (st : cg_state R) : Prop :=
    length (st_z st) = n /\ length (st_r st) = n /\ length (st_d st) = n /\
    st_r st = vadd g (B (st_z st)) /\ st_rsq st = vdot (st_r st) (st_r st) /\ st_rsq st <> 0 /\
    vdot (st_r st) (st_d st) = - vdot (st_r st) (st_r st) /\ vnorm2 (st_z st) < Δ.

  Lemma cg_invariant_Inv st : cg_invariant st <-> Inv n B g Δ st.
  Proof.
    unfold cg_invariant. rewrite !vdot_rdot, vnorm2_rdot. split.
    - intros (H1 & H2 & H3 & H4 & H5 & H6 & H7 & H8). constructor; auto.
      + pose proof (rdot_nonneg (st_r st)). lra.
      + lra.
      + apply sqrt_lt_sq; [assumption | apply rdot_nonneg | assumption].
    - intros [H1 H2 H3 H4 H5 H6 H7 H8]. repeat split; auto; try lra.
      apply sqrt_lt_D; [assumption | apply rdot_nonneg | assumption].
  Qed.

  Lemma cg_invariant_init : g <> zeros g -> cg_invariant (cg_init g).
  Proof.
    intros Hg. apply cg_invariant_Inv. apply init_inv; try assumption.
    apply (g_nonzero' g Hg).
  Qed.

  Lemma cg_invariant_step tol i st st' : cg_invariant st ->
    cg_step B g Δ P tol i st = inr st' -> cg_invariant st'.
  Proof.
    intros HI E. apply cg_invariant_Inv in HI. apply cg_invariant_Inv.
    pose proof (step_spec n B B_len B_add B_scale B_sym g g_len Δ Δ_pos P tol i st HI) as H.
    rewrite E in H. apply H.
  Qed.

  (* one CG pass decreases the model strictly (interior pass) *)
  Lemma cg_step_decreases tol i st st' : cg_invariant st ->
    cg_step B g Δ P tol i st = inr st' -> model B g (st_z st') <= model B g (st_z st).
  Proof.
    intros HI E. apply cg_invariant_Inv in HI.
    pose proof (step_spec n B B_len B_add B_scale B_sym g g_len Δ Δ_pos P tol i st HI) as H.
    rewrite E in H. destruct H as (_ & _ & H). rewrite !model_qm.
    destruct HI as [Hlz _ Hld _ _ _ _ Hin].
    assert (H0 : feasible_along Δ (st_z st) (st_d st) 0).
    { split; [lra|]. rewrite (nrm_axpy n) by assumption. lra. }
    specialize (H 0 H0). rewrite (qm_axpy n) in H by assumption. lra.
  Qed.

  (* negative curvature is answered with a boundary point *)
  Lemma negative_curvature_gives_boundary tol i st : cg_invariant st ->
    vdot (st_d st) (B (st_d st)) <= 0 ->
    exists res, cg_step B g Δ P tol i st = inl res /\
                (res_exit res = ExNegCurvA \/ res_exit res = ExNegCurvB) /\ vnorm2 (res_step res) = Δ /\
                res_val res = model B g (res_step res) /\ res_val res <= model B g (st_z st).
  Proof.
    intros HI Hκ. apply cg_invariant_Inv in HI.
    pose proof (step_spec n B B_len B_add B_scale B_sym g g_len Δ Δ_pos P tol i st HI) as H.
    rewrite vdot_rdot in Hκ.
    destruct (cg_step B g Δ P tol i st) as [res|st'] eqn:E.
    - exists res. destruct H as (_ & Hv & _ & _ & Hiff & Hb & _ & Hle).
      apply Hiff in Hκ. split; [reflexivity|]. split; [exact Hκ|]. split; [|split].
      + rewrite vnorm2_rdot, Hb; [apply sqrt_sq_pos; assumption|]. destruct Hκ as [K|K]; rewrite K; discriminate.
      + rewrite model_qm. exact Hv.
      + rewrite model_qm. destruct HI as [Hlz _ Hld _ _ _ _ Hin].
        assert (H0 : feasible_along Δ (st_z st) (st_d st) 0).
        { split; [lra|]. rewrite (nrm_axpy n) by assumption. lra. }
        specialize (Hle 0 H0). rewrite (qm_axpy n) in Hle by assumption. lra.
    - exfalso. revert E. unfold cg_step. rewrite vdot_rdot. numR.
      destruct (Rle_bool_spec (rdot (st_d st) (B (st_d st))) 0); [|lra].
      destruct (bnd_intersections _ _ _). destruct (Req_bool _ _); discriminate.
  Qed.

  (* an over-long CG step is answered with a boundary point *)
  Lemma overlong_gives_boundary tol i st : cg_invariant st ->
    0 < vdot (st_d st) (B (st_d st)) ->
    Δ <= vnorm2 (axpy (st_z st) (st_rsq st / vdot (st_d st) (B (st_d st))) (st_d st)) ->
    exists res, cg_step B g Δ P tol i st = inl res /\
                res_exit res = ExBoundary /\ vnorm2 (res_step res) = Δ /\
                res_val res = model B g (res_step res) /\ res_val res <= model B g (st_z st).
  Proof.
    intros HI Hκ Hlong. apply cg_invariant_Inv in HI.
    pose proof (step_spec n B B_len B_add B_scale B_sym g g_len Δ Δ_pos P tol i st HI) as H.
    assert (E : exists res, cg_step B g Δ P tol i st = inl res /\ res_exit res = ExBoundary).
    { unfold cg_step. numR. destruct (Rle_bool_spec (vdot (st_d st) (B (st_d st))) 0); [lra|].
      cbn [negb]. fold (axpy (st_z st) (st_rsq st / vdot (st_d st) (B (st_d st))) (st_d st)).
      destruct (Rle_bool_spec Δ (vnorm2 (axpy (st_z st) (st_rsq st / vdot (st_d st) (B (st_d st))) (st_d st)))); [|lra].
      destruct (bnd_intersections _ _ _). eexists; split; reflexivity. }
    destruct E as (res & E & Hk). exists res. rewrite E in H.
    destruct H as (_ & Hv & _ & _ & _ & Hb & _ & Hle).
    split; [exact E|]. split; [exact Hk|]. split; [|split].
    - rewrite vnorm2_rdot, Hb; [apply sqrt_sq_pos; assumption|]. rewrite Hk; discriminate.
    - rewrite model_qm. exact Hv.
    - rewrite model_qm. destruct HI as [Hlz _ Hld _ _ _ _ Hin].
      assert (H0 : feasible_along Δ (st_z st) (st_d st) 0).
      { split; [lra|]. rewrite (nrm_axpy n) by assumption. lra. }
      specialize (Hle 0 H0). rewrite (qm_axpy n) in Hle by assumption. lra.
  Qed.
End CGSteps.

(* the two roots bracket zero and both lie on the sphere *)
Lemma roots_bracket_zero (z d : list R) (Δ : R) : 0 < Δ -> length z = length d ->
  d <> zeros d -> vnorm2 z < Δ ->
  let lo := fst (bnd_intersections z d Δ) in
  let hi := snd (bnd_intersections z d Δ) in
  lo < 0 < hi /\ vnorm2 (axpy z lo d) = Δ /\ vnorm2 (axpy z hi d) = Δ.
Proof.
  intros HΔ Hl Hd Hz.
  assert (Hdd : 0 < rdot d d) by (apply (g_nonzero' d Hd)).
  assert (Hzz : rdot z z < Δ * Δ).
  { rewrite vnorm2_rdot in Hz. apply sqrt_lt_sq; [assumption | apply rdot_nonneg | assumption]. }
  pose proof (bnd_intersections_R z d Δ Hdd Hzz) as H. cbv zeta in H |- *.
  destruct H as (Hb & Hfac). split; [exact Hb|].
  assert (Hn : forall t, rdot (axpy z t d) (axpy z t d) = rdot z z + 2 * t * rdot z d + t * t * rdot d d).
  { intros t. unfold axpy. rewrite rdot_vadd_r, !rdot_vadd_l, !rdot_vscale_l, !rdot_vscale_r by (rewrite ?vscale_length; congruence).
    rewrite (rdot_comm d z). ring. }
  split; rewrite vnorm2_rdot, Hn.
  - set (t := fst (bnd_intersections z d Δ)) in *. specialize (Hfac t).
    replace (rdot z z + 2 * t * rdot z d + t * t * rdot d d) with (Δ * Δ) by nra. apply sqrt_square; lra.
  - set (t := snd (bnd_intersections z d Δ)) in *. specialize (Hfac t).
    replace (rdot z z + 2 * t * rdot z d + t * t * rdot d d) with (Δ * Δ) by nra. apply sqrt_square; lra.
Qed.

(* ------------------------------------------------------------------ NewtonTRDirection::apply *)
Lemma scatter_from_length (i n : nat) (J : list nat) (p : list R) : length (scatter_from i n J p) = n.
Proof.
  revert i J p; induction n as [|n IH]; intros i J p; cbn; [reflexivity|].
  destruct J as [|j J]; [cbn; rewrite IH; reflexivity|].
  destruct p as [|x p]; [cbn; rewrite IH; reflexivity|].
  destruct (Nat.eqb i j); cbn; rewrite IH; reflexivity.
Qed.

Lemma keep_active_length (J : list nat) (p : list R) : length (keep_active J p) = length p.
Proof. unfold keep_active. rewrite map_length, combine_length, seq_length. apply Nat.min_id. Qed.

Lemma keep_active_nth (J : list nat) (p : list R) i : (i < length p)%nat ->
  nth i (keep_active J p) 0 = if memb i J then 0 else nth i p 0.
Proof.
  intros Hi. unfold keep_active.
  set (h := fun ix : nat * R => if memb (fst ix) J then n0 else snd ix).
  assert (E : 0 = h (0%nat, 0)) by (unfold h; cbn; destruct (memb 0 J); reflexivity).
  rewrite E at 1. rewrite map_nth. rewrite combine_nth by (rewrite seq_length; reflexivity).
  rewrite seq_nth by assumption. unfold h. cbn. reflexivity.
Qed.

(* the active components (those not reported inactive) of the direction are the forward-backward step *)
Lemma newton_tr_active_is_fb_step (Hprod : list R -> list R) (P : cg_params R) (hvf γ : R)
      (J : list nat) (p : list R) (Δ : R) i :
  (i < length p)%nat -> ~ In i J ->
  nth i (ntr_q (newton_tr_apply Hprod P hvf γ J p Δ)) 0 = nth i p 0.
Proof.
  intros Hi HnJ. unfold newton_tr_apply. cbn [ntr_q]. unfold merge_JK.
  rewrite keep_active_length.
  assert (Hm : memb i J = false).
  { unfold memb. destruct (existsb (Nat.eqb i) J) eqn:E; [|reflexivity].
    apply existsb_exists in E. destruct E as (j & Hj & Hij). apply Nat.eqb_eq in Hij. subst j. contradiction. }
  rewrite (map2_nth _ _ _ (length p) i (0%nat, 0) 0 0).
  - rewrite combine_nth by (rewrite seq_length, keep_active_length; reflexivity).
    rewrite seq_nth by assumption. cbn [fst snd plus]. rewrite Hm.
    rewrite keep_active_nth by assumption. rewrite Hm. reflexivity.
  - rewrite combine_length, seq_length, keep_active_length. apply Nat.min_id.
  - apply scatter_from_length.
  - assumption.
Qed.

Section NTR.
  Variable Hprod : list R -> list R.
  Variable P : cg_params R.
  Variables (hvf γ Δ : R) (J : list nat) (p : list R).
  Hypothesis Δ_pos : 0 < Δ.
  Let nJ := length J.
  (* the masked Hessian product handed to Steihaug CG *)
  Definition BJ_of (pJ : list R) : list R := gather J (Hprod (scatter (length p) J pJ)).
  Hypothesis BJ_len : forall v, length v = nJ -> length (BJ_of v) = nJ.
  Hypothesis BJ_add : forall u v, length u = nJ -> length v = nJ -> BJ_of (vadd u v) = vadd (BJ_of u) (BJ_of v).
  Hypothesis BJ_scale : forall (a : R) v, length v = nJ -> BJ_of (vscale a v) = vscale a (BJ_of v).
  Hypothesis BJ_sym : forall u v, length u = nJ -> length v = nJ -> vdot u (BJ_of v) = vdot (BJ_of u) v.
  Let r := newton_tr_apply Hprod P hvf γ J p Δ.
  Let rJ := ntr_rJ r.
  Let qJ := res_step (ntr_cg r).
  Hypothesis rJ_nonzero : rJ <> zeros rJ.

  Lemma rJ_length : length rJ = nJ.
  Proof.
    unfold rJ, r, newton_tr_apply. cbn [ntr_rJ]. unfold gather, nJ.
    destruct (neqb hvf n0).
    - rewrite vscale_length, map_length. reflexivity.
    - apply vadd_length; [rewrite vscale_length, map_length | rewrite !map_length]; reflexivity.
  Qed.

  Lemma ntr_cg_is_solve : ntr_cg r = cg_solve BJ_of rJ Δ P.
  Proof. reflexivity. Qed.

  (* reduced step feasible; returned value = model decrease of the combined step; no worse than the pure
     forward-backward part, nor than the Cauchy point of the reduced model *)
  Lemma newton_tr_value :
    vnorm2 qJ <= Δ /\
    ntr_val r = (vdot rJ qJ + / 2 * vdot qJ (BJ_of qJ)) - sqnorm_active J p / (2 * γ) /\
    ntr_val r <= - (sqnorm_active J p / (2 * γ)) /\
    ntr_val r <= model BJ_of rJ (cauchy_point BJ_of rJ Δ) - sqnorm_active J p / (2 * γ).
  Proof.
    pose proof rJ_length as Hl.
    pose proof (solve_norm_le_radius nJ BJ_of BJ_len BJ_add BJ_scale BJ_sym rJ Hl Δ Δ_pos P rJ_nonzero) as H1.
    pose proof (solve_value_is_model nJ BJ_of BJ_len BJ_add BJ_scale BJ_sym rJ Hl Δ Δ_pos P rJ_nonzero) as H2.
    pose proof (solve_nonpositive nJ BJ_of BJ_len BJ_add BJ_scale BJ_sym rJ Hl Δ Δ_pos P rJ_nonzero) as H3.
    pose proof (solve_le_cauchy nJ BJ_of BJ_len BJ_add BJ_scale BJ_sym rJ Hl Δ Δ_pos P rJ_nonzero) as H4.
    rewrite <- ntr_cg_is_solve in H1, H2, H3, H4. fold qJ in H1, H2. unfold model in H2.
    assert (Hv : ntr_val r = res_val (ntr_cg r) - sqnorm_active J p / (2 * γ)).
    { unfold r, newton_tr_apply. cbn [ntr_val ntr_cg]. numR. replace (1 + 1) with 2 by ring. reflexivity. }
    split; [exact H1|]. split; [rewrite Hv, H2; reflexivity|]. split; rewrite Hv; lra.
  Qed.
End NTR.

(* ------------------------------------------------------------------ packaged statements (used by Properties_C11.v) *)
(* B is a symmetric linear operator on vectors of length n *)
Definition sym_linear_op (n : nat) (B : list R -> list R) : Prop :=
  (forall v, length v = n -> length (B v) = n) /\
  (forall u v, length u = n -> length v = n -> B (vadd u v) = vadd (B u) (B v)) /\
  (forall (a : R) v, length v = n -> B (vscale a v) = vscale a (B v)) /\
  (forall u v, length u = n -> length v = n -> vdot u (B v) = vdot (B u) v).

(* the zero-gradient early return *)
Lemma rdot_zero_is_zeros (g : list R) : rdot g g = 0 -> g = zeros g.
Proof.
  induction g as [|x l IH]; cbn; [reflexivity|]. intros E.
  pose proof (rdot_nonneg l) as Hl. pose proof (Rle_0_sqr x) as Hx; unfold Rsqr in Hx.
  assert (x = 0) by nra. subst x. f_equal. apply IH. lra.
Qed.

Definition zero_result (g : list R) : cg_result R :=
  {| res_step := zeros g; res_val := 0; res_exit := ExZeroGrad; res_iter := 0%Z |}.

Lemma cg_solve_zero_gradient B (g : list R) Δ P : rdot g g = 0 -> cg_solve B g Δ P = zero_result g.
Proof.
  intros E. unfold cg_solve. cbn [cg_init st_rsq]. rewrite vsqnorm_rdot. numR.
  destruct (Req_bool_spec (rdot g g) 0); [reflexivity | contradiction].
Qed.

Section Packaged.
  Variables (n : nat) (B : list R -> list R) (g : list R) (Δ : R) (P : cg_params R).
  Hypothesis HB : sym_linear_op n B.
  Hypothesis Hg : length g = n.
  Hypothesis HΔ : 0 < Δ.
  Local Notation res := (cg_solve B g Δ P).
  Local Notation q := (model B g).

  Ltac use L := destruct HB as (HB1 & HB2 & HB3 & HB4); eapply L; eauto.

  (* either the early return was taken (g = 0) or the loop ran on g <> 0 *)
  Lemma g_cases : (rdot g g = 0 /\ res = zero_result g) \/ g <> zeros g.
  Proof.
    destruct (Req_dec (rdot g g) 0) as [E|E].
    - left. split; [exact E | apply cg_solve_zero_gradient; exact E].
    - right. intros Hz. apply E. rewrite Hz. apply rdot_zeros_l.
  Qed.

  Lemma vnorm2_zeros : vnorm2 (zeros g) = 0.
  Proof. rewrite vnorm2_rdot, rdot_zeros_l. apply sqrt_0. Qed.
  Lemma model_zeros : q (zeros g) = 0.
  Proof. unfold model. rewrite !vdot_rdot, (rdot_comm g), !rdot_zeros_l. lra. Qed.
  Lemma model_ray_zero c : rdot g g = 0 -> q (vscale c g) = 0.
  Proof.
    intros E. unfold model. rewrite !vdot_rdot, rdot_vscale_r, rdot_vscale_l, E.
    rewrite (rdot_comm g), (rdot_self_zero g _ E). lra.
  Qed.

  Lemma P_zero_gradient : g = zeros g ->
    res_step res = zeros g /\ res_val res = 0 /\ res_exit res = ExZeroGrad /\ res_iter res = 0%Z /\
    res_val res = q (res_step res) /\ vnorm2 (res_step res) <= Δ /\ res_val res <= q (cauchy_point B g Δ).
  Proof.
    intros Hz. assert (E : rdot g g = 0) by (rewrite Hz; apply rdot_zeros_l).
    rewrite (cg_solve_zero_gradient B g Δ P E). cbn [zero_result res_step res_val res_exit res_iter].
    repeat split; try reflexivity.
    - rewrite model_zeros. reflexivity.
    - rewrite vnorm2_zeros. lra.
    - unfold cauchy_point. rewrite model_ray_zero by exact E. lra.
  Qed.

  Lemma P_terminates :
    res_exit res <> ExFuel /\ res_exit res <> ExNaN /\ (0 <= res_iter res <= Z.max 0 (max_iter P + 1))%Z.
  Proof.
    destruct g_cases as [[_ ->]|Hnz]; [cbn; repeat split; try discriminate; lia | use solve_terminates].
  Qed.
  Lemma P_step_length : length (res_step res) = n.
  Proof. destruct g_cases as [[_ ->]|Hnz]; [cbn; rewrite zeros_length; exact Hg | use solve_length]. Qed.
  Lemma P_norm_le_radius : vnorm2 (res_step res) <= Δ.
  Proof. destruct g_cases as [[_ ->]|Hnz]; [cbn [zero_result res_step]; rewrite vnorm2_zeros; lra | use solve_norm_le_radius]. Qed.
  Lemma P_value_is_model : res_val res = vdot g (res_step res) + / 2 * vdot (res_step res) (B (res_step res)).
  Proof.
    change (res_val res = q (res_step res)).
    destruct g_cases as [[_ ->]|Hnz]; [cbn [zero_result res_step res_val]; rewrite model_zeros; reflexivity | use solve_value_is_model].
  Qed.
  Lemma P_nonpositive : res_val res <= 0.
  Proof. destruct g_cases as [[_ ->]|Hnz]; [cbn; lra | use solve_nonpositive]. Qed.
  Lemma P_le_steepest_descent : forall t, 0 <= t -> vnorm2 (vscale (- t) g) <= Δ ->
    res_val res <= q (vscale (- t) g).
  Proof.
    intros t Ht Hn. destruct g_cases as [[E ->]|Hnz]; [|use solve_le_steepest_descent].
    cbn [zero_result res_val]. rewrite model_ray_zero by exact E. lra.
  Qed.
  Lemma P_le_cauchy : res_val res <= q (cauchy_point B g Δ).
  Proof.
    destruct g_cases as [[E ->]|Hnz]; [|use solve_le_cauchy].
    cbn [zero_result res_val]. unfold cauchy_point. rewrite model_ray_zero by exact E. lra.
  Qed.
  Lemma P_cauchy_point_spec :
    vnorm2 (cauchy_point B g Δ) <= Δ /\
    forall t, 0 <= t -> vnorm2 (vscale (- t) g) <= Δ -> q (cauchy_point B g Δ) <= q (vscale (- t) g).
  Proof.
    assert (Hc : rdot g g = 0 \/ g <> zeros g).
    { destruct (Req_dec (rdot g g) 0) as [E|E]; [left; exact E|].
      right. intros Hz. apply E. rewrite Hz. apply rdot_zeros_l. }
    destruct Hc as [E|Hnz].
    - unfold cauchy_point. split.
      + rewrite vnorm2_rdot, rdot_vscale_l, rdot_vscale_r, E, !Rmult_0_r, sqrt_0. lra.
      + intros. rewrite !model_ray_zero by exact E. lra.
    - split; [use cauchy_feasible|]. intros. destruct HB as (HB1 & HB2 & HB3 & HB4).
      eapply cauchy_is_ray_minimiser; eauto.
  Qed.
  Lemma P_exit_kinds :
    ((res_exit res = ExNegCurvA \/ res_exit res = ExNegCurvB \/ res_exit res = ExBoundary) -> vnorm2 (res_step res) = Δ) /\
    ((res_exit res = ExInterior \/ res_exit res = ExZeroGrad) <-> vnorm2 (res_step res) < Δ) /\
    (res_exit res = ExZeroGrad <-> g = zeros g).
  Proof.
    destruct g_cases as [[E ->]|Hnz].
    - cbn [zero_result res_step res_exit]. rewrite vnorm2_zeros. split; [|split].
      + intros [H|[H|H]]; discriminate.
      + split; [intros; lra | intros; right; reflexivity].
      + split; [intros; apply rdot_zero_is_zeros; exact E | reflexivity].
    - destruct HB as (HB1 & HB2 & HB3 & HB4).
      destruct (solve_exit_kinds n B HB1 HB2 HB3 HB4 g Hg Δ HΔ P Hnz) as [K1 K2].
      destruct (solve_terminates n B HB1 HB2 HB3 HB4 g Hg Δ HΔ P Hnz) as (_ & _ & _).
      pose proof (spec n B HB1 HB2 HB3 HB4 g Hg Δ HΔ P Hnz) as ((_ & _ & Hk & _) & _).
      assert (Hnzg : res_exit res <> ExZeroGrad) by (intros E; rewrite E in Hk; destruct Hk as [H|[H|[H|H]]]; discriminate).
      split; [exact K1|]. split.
      + split; [intros [H|H]; [apply K2; exact H | contradiction] | intros H; left; apply K2; exact H].
      + split; [intros; contradiction | intros; contradiction].
  Qed.
  Lemma P_interior_exit_reason : vnorm2 (res_step res) < Δ ->
    let r := vadd g (B (res_step res)) in
    vnorm2 r < cg_tolerance P g \/ vnorm2 r = 0 \/ (max_iter P < res_iter res)%Z.
  Proof.
    destruct g_cases as [[E ->]|Hnz]; [|intros; use solve_interior_exit_reason].
    intros _. cbn [zero_result res_step]. cbv zeta. right; left.
    destruct HB as (HB1 & HB2 & HB3 & HB4).
    rewrite zeros_vscale, HB3 by exact Hg. rewrite vadd_vscale0 by (rewrite HB1; congruence).
    rewrite vnorm2_rdot, E. apply sqrt_0.
  Qed.

  Lemma P_invariant_init : g <> zeros g -> cg_invariant n B g Δ (cg_init g).
  Proof. intros. use cg_invariant_init. Qed.
  Lemma P_invariant_step tol i st st' : cg_invariant n B g Δ st ->
    cg_step B g Δ P tol i st = inr st' ->
    cg_invariant n B g Δ st' /\ q (st_z st') <= q (st_z st).
  Proof. intros. split; [use cg_invariant_step | use cg_step_decreases]. Qed.
  Lemma P_negative_curvature tol i st : cg_invariant n B g Δ st -> vdot (st_d st) (B (st_d st)) <= 0 ->
    exists r, cg_step B g Δ P tol i st = inl r /\
              (res_exit r = ExNegCurvA \/ res_exit r = ExNegCurvB) /\ vnorm2 (res_step r) = Δ /\
              res_val r = q (res_step r) /\ res_val r <= q (st_z st).
  Proof. intros. use negative_curvature_gives_boundary. Qed.
  Lemma P_overlong tol i st : cg_invariant n B g Δ st -> 0 < vdot (st_d st) (B (st_d st)) ->
    Δ <= vnorm2 (axpy (st_z st) (st_rsq st / vdot (st_d st) (B (st_d st))) (st_d st)) ->
    exists r, cg_step B g Δ P tol i st = inl r /\
              res_exit r = ExBoundary /\ vnorm2 (res_step r) = Δ /\
              res_val r = q (res_step r) /\ res_val r <= q (st_z st).
  Proof. intros. use overlong_gives_boundary. Qed.
End Packaged.

(* Newton-TR: no hypothesis on r_J any more (r_J = 0 takes the early return of solve) *)
Lemma P_newton_tr_value (Hprod : list R -> list R) (P : cg_params R) (hvf γ Δ : R) (J : list nat) (p : list R) :
  0 < Δ -> sym_linear_op (length J) (BJ_of Hprod J p) ->
  let r := newton_tr_apply Hprod P hvf γ J p Δ in
  let qJ := res_step (ntr_cg r) in
  vnorm2 qJ <= Δ /\
  ntr_val r = (vdot (ntr_rJ r) qJ + / 2 * vdot qJ (BJ_of Hprod J p qJ)) - sqnorm_active J p / (2 * γ) /\
  ntr_val r <= - (sqnorm_active J p / (2 * γ)) /\
  ntr_val r <= model (BJ_of Hprod J p) (ntr_rJ r) (cauchy_point (BJ_of Hprod J p) (ntr_rJ r) Δ) - sqnorm_active J p / (2 * γ).
Proof.
  intros HΔ HB r qJ.
  pose proof (rJ_length Hprod P hvf γ Δ J p) as Hl. fold r in Hl.
  pose proof (P_norm_le_radius _ _ _ Δ P HB Hl HΔ) as H1.
  pose proof (P_value_is_model _ _ _ Δ P HB Hl HΔ) as H2.
  pose proof (P_nonpositive _ _ _ Δ P HB Hl HΔ) as H3.
  pose proof (P_le_cauchy _ _ _ Δ P HB Hl HΔ) as H4.
  change (cg_solve (BJ_of Hprod J p) (ntr_rJ r) Δ P) with (ntr_cg r) in H1, H2, H3, H4. fold qJ in H1, H2.
  assert (Hv : ntr_val r = res_val (ntr_cg r) - sqnorm_active J p / (2 * γ)).
  { unfold r, newton_tr_apply. cbn [ntr_val ntr_cg]. numR. replace (1 + 1) with 2 by ring. reflexivity. }
  split; [exact H1|]. split; [rewrite Hv, H2; reflexivity|]. split; rewrite Hv; lra.
Qed.

(* a dense symmetric matrix is such an operator: the 2x2 example used for non-vacuity *)
Lemma example_op_sym_linear : sym_linear_op 2 (mat_vec [[2; 1]; [1; -3]]).
Proof.
  unfold sym_linear_op, mat_vec. split; [|split; [|split]].
  - intros v Hv. reflexivity.
  - intros [|a [|b [|]]] [|c [|e [|]]]; try discriminate. intros _ _.
    cbn. f_equal; [|f_equal]; ring.
  - intros t [|a [|b [|]]]; try discriminate. intros _. cbn. f_equal; [|f_equal]; ring.
  - intros [|a [|b [|]]] [|c [|e [|]]]; try discriminate. intros _ _. cbn. ring.
Qed.
