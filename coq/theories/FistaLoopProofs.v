(* FistaLoopProofs.v — loop invariants of the whole-run FISTA model (FistaLoop.v), over R, for EVERY problem oracle (also stateful
   ones: the oracles see the event counters), stop / time oracle and parameter set.  The only hypotheses that ever appear are
   stated where they are needed (positivity / finiteness of parameters for monotonicity and termination, 1 <= t for the momentum
   recurrence, ApproxKKT + no l1 term for the inner-solver contract). *)
From Coq Require Import Reals List ZArith Lra Lia Bool Arith Psatz.
From Flocq Require Import Raux.
From Alpaqa Require Import Num NumR Vec Prox ProxProofs SolverStatus SolverKernels SolverKernelsProofs DescentProofs
                           StopChain StopChainProofs KktProofs FistaGen FistaLoop.
Import ListNotations.
Local Open Scope R_scope.

(* split syntactic conjunctions only (never unfolds a defined predicate) *)
Ltac csplit := repeat match goal with |- _ /\ _ => split end.

Section Proofs.
  Variable psi_grad : fcounters -> list R -> R * list R.
  Variable psi_yhat : fcounters -> list R -> R * list R.
  Variable grad_L : fcounters -> list R -> list R -> list R.
  Variable grad_psi : fcounters -> list R -> list R.
  Variables (lb ub : list (option R)) (l1 : list R).
  Variable stop_req : fcounters -> bool.
  Variable time_up : fcounters -> bool.
  Variable P : fparams (T:=R).
  Variables (x_in y_in Σ errz_in : list R).
  Variable bt_fuel : nat.
  (* every lemma of this section is generalised over ALL the section variables, in the order above *)
  Set Default Proof Using "All".

  Notation it := (fiter (T:=R)).
  Notation eprox := (feval_prox lb ub l1).
  Notation epsih := (feval_psih psi_yhat).
  Notation egradh := (feval_gradh grad_L).
  Notation fixed := (ffixed P).
  Notation need := (fneed P).
  Notation backtrack_ := (fbacktrack psi_yhat lb ub l1 P).
  Notation step_ := (fpass_step psi_yhat grad_L lb ub l1 P bt_fuel).
  Notation pass_ := (fpass psi_grad psi_yhat grad_L grad_psi lb ub l1 stop_req time_up P x_in y_in Σ errz_in bt_fuel).
  Notation loop_ := (floop psi_grad psi_yhat grad_L grad_psi lb ub l1 stop_req time_up P x_in y_in Σ errz_in bt_fuel).
  Notation fista_ := (fista psi_grad psi_yhat grad_L grad_psi lb ub l1 stop_req time_up P x_in y_in Σ errz_in bt_fuel).
  Notation cont_ := (fcont psi_grad grad_psi P).
  Notation exit_ := (fexit psi_yhat P x_in y_in Σ errz_in).
  Notation initL := (finit_L psi_grad grad_psi P x_in).
  Notation eps_of := (fit_eps lb ub l1 P).

  (* ------------------------------------------------------------------ the consistency invariant *)
  (* ψ(x), ∇ψ(x) are the oracle's at x: eval_grad_ψ in fixed-step mode (ψx is never evaluated there), eval_ψ_grad_ψ otherwise *)
  Definition cons_x (i : it) : Prop :=
    if fixed then exists c, jgrad i = grad_psi c (jx i)
    else exists c, (jpsi i, jgrad i) = psi_grad c (jx i).
  (* x̂, p, h(x̂) are the prox step for γ at (x, ∇ψ(x)); the cached products are those of p *)
  Definition cons_step (i : it) : Prop :=
    eval_prox_grad_step lb ub l1 (jgam i) (jx i) (jgrad i) = (jxh i, jp i, jh i) /\
    jpp i = vsqnorm (jp i) /\ jgp i = vdot (jp i) (jgrad i).
  (* ψ(x̂), ŷ are the oracle's (eval_ψ) at x̂ *)
  Definition cons_hat (i : it) : Prop := exists c, (jpsih i, jyh i) = psi_yhat c (jxh i).
  (* the ∇ψ(x̂) buffer holds eval_grad_L(x̂, ŷ) for the current x̂ and ŷ *)
  Definition cons_gradh (i : it) : Prop := exists c, jgradh i = grad_L c (jxh i) (jyh i).
  (* ψ(x̂), ŷ are evaluated inside the loop unless fixed-step mode meets a criterion that does not need ∇ψ(x̂) *)
  Definition hat_in_loop : bool := negb fixed || need.
  (* what holds of the iterate the stop check / the criterion / the progress callback look at *)
  Definition checked (i : it) : Prop :=
    cons_x i /\ cons_step i /\ (hat_in_loop = true -> cons_hat i) /\ (need = true -> cons_gradh i).
  (* what holds of the iterate the exit block reads *)
  Definition final_ok (i : it) : Prop :=
    cons_x i /\ cons_step i /\ cons_hat i /\ (need = true -> cons_gradh i).

  (* everything except the ∇ψ(x̂) buffer *)
  Definition core (i : it) :=
    (jx i, jxh i, jgrad i, jp i, jyh i, (jpsi i, jpsih i, jgam i, jL i), (jpp i, jgp i, jh i)).
  Lemma core_fields (a b : it) : core a = core b ->
    jx a = jx b /\ jxh a = jxh b /\ jgrad a = jgrad b /\ jp a = jp b /\ jyh a = jyh b /\ jpsi a = jpsi b /\ jpsih a = jpsih b /\
    jgam a = jgam b /\ jL a = jL b /\ jpp a = jpp b /\ jgp a = jgp b /\ jh a = jh b.
  Proof. unfold core. intros E. inversion E. csplit; reflexivity. Qed.

  Definition qub_ok (i : it) : Prop := fit_backtrack P i = false.

  Definition gl_of (i : it) : R * R := (jgam i, jL i).
  Definition halved (a b : it) : Prop := exists j, gl_of b = halve_n j (gl_of a).
  Definition L_init : R := jL (fst initL).
  Definition gl0 : R * R := (fp_Lgamma P / L_init, L_init).
  (* (γ, L) of an iterate is the initial pair after some number of halvings/doublings *)
  Definition glrel0 (i : it) : Prop := exists j, gl_of i = halve_n j gl0.

  Lemma halved_refl a : halved a a. Proof. exists 0%nat. reflexivity. Qed.
  Lemma halve_n_add j k γL : halve_n k (halve_n j γL) = halve_n (k + j) γL.
  Proof. induction k as [|k IH]; cbn [halve_n Nat.add]; [reflexivity|now rewrite IH]. Qed.
  Lemma halved_trans a b c : halved a b -> halved b c -> halved a c.
  Proof. intros [j E] [k E']. exists (k + j)%nat. rewrite E', E. apply halve_n_add. Qed.
  Lemma glrel0_halved a b : glrel0 a -> halved a b -> glrel0 b.
  Proof. intros [j E] [k E']. exists (k + j)%nat. rewrite E', E. apply halve_n_add. Qed.
  Lemma halved_gl a b b' : gl_of b = gl_of b' -> halved a b -> halved a b'.
  Proof. intros E [j H]. exists j. now rewrite <- E. Qed.
  Lemma glrel0_gl a b : gl_of a = gl_of b -> glrel0 a -> glrel0 b.
  Proof. intros E [j H]. exists j. now rewrite <- E. Qed.
  (* the GENERATED backtracking updates are one halve_step *)
  Lemma fhalve_it_gl (i : it) : gl_of (fhalve_it i) = halve_step (gl_of i).
  Proof.
    unfold fhalve_it, gl_of, fset_gamma_L, halve_step, bt_gamma, bt_L. cbn [jgam jL fst snd]. numR.
    f_equal; lra.
  Qed.

  (* predicates that depend on the core only *)
  Lemma cons_x_core (a b : it) : core a = core b -> cons_x a -> cons_x b.
  Proof.
    intros E. apply core_fields in E. destruct E as (E1 & E2 & E3 & E4 & E5 & E6 & E7 & E8 & E9 & E10 & E11 & E12).
    unfold cons_x. now rewrite E1, E3, E6.
  Qed.
  Lemma cons_step_core (a b : it) : core a = core b -> cons_step a -> cons_step b.
  Proof.
    intros E. apply core_fields in E. destruct E as (E1 & E2 & E3 & E4 & E5 & E6 & E7 & E8 & E9 & E10 & E11 & E12).
    unfold cons_step. now rewrite E1, E2, E3, E4, E8, E10, E11, E12.
  Qed.
  Lemma cons_hat_core (a b : it) : core a = core b -> cons_hat a -> cons_hat b.
  Proof.
    intros E. apply core_fields in E. destruct E as (E1 & E2 & E3 & E4 & E5 & E6 & E7 & E8 & E9 & E10 & E11 & E12).
    unfold cons_hat. now rewrite E2, E5, E7.
  Qed.
  Lemma qub_ok_core (a b : it) : core a = core b -> qub_ok a -> qub_ok b.
  Proof.
    intros E. apply core_fields in E. destruct E as (E1 & E2 & E3 & E4 & E5 & E6 & E7 & E8 & E9 & E10 & E11 & E12).
    unfold qub_ok, fit_backtrack, fit_qub_violated. now rewrite E6, E7, E9, E10, E11.
  Qed.
  Lemma gl_core (a b : it) : core a = core b -> gl_of a = gl_of b.
  Proof. intros E. apply core_fields in E. unfold gl_of. f_equal; tauto. Qed.

  (* x̂ = x + p for every prox variant of the problem *)
  Lemma prox_xh_is_x_plus_p γ (x g : list R) :
    fst (fst (eval_prox_grad_step lb ub l1 γ x g)) = vadd x (snd (fst (eval_prox_grad_step lb ub l1 γ x g))).
  Proof. unfold eval_prox_grad_step. destruct l1 as [|λ [|λ' r]]; reflexivity. Qed.
  Lemma cons_step_xh (i : it) : cons_step i -> jxh i = vadd (jx i) (jp i).
  Proof. intros (E & _). pose proof (prox_xh_is_x_plus_p (jgam i) (jx i) (jgrad i)) as Hp. rewrite E in Hp. exact Hp. Qed.

  (* ---- the elementary updates *)
  Lemma eprox_cons (i : it) : cons_x i -> cons_x (eprox i) /\ cons_step (eprox i).
  Proof.
    intros Hx. split; [exact Hx|]. unfold cons_step, feval_prox; cbn [jx jxh jgrad jp jh jgam jpp jgp].
    csplit; try reflexivity. destruct (eval_prox_grad_step lb ub l1 (jgam i) (jx i) (jgrad i)) as [[a b] c]; reflexivity.
  Qed.
  Lemma epsih_cons c (i : it) : cons_x i -> cons_step i -> cons_x (epsih c i) /\ cons_step (epsih c i) /\ cons_hat (epsih c i).
  Proof.
    intros Hx Hs. split; [exact Hx|]. split; [exact Hs|]. exists c. unfold feval_psih; cbn [jpsih jyh jxh].
    destruct (psi_yhat c (jxh i)); reflexivity.
  Qed.
  Lemma egradh_core c (i : it) : core (egradh c i) = core i.
  Proof. reflexivity. Qed.
  Lemma egradh_cons c (i : it) : cons_gradh (egradh c i).
  Proof. exists c. reflexivity. Qed.

  (* ------------------------------------------------------------------ backtracking *)
  Lemma backtrack_inv : forall fuel (i : it) c bt ch i' c' bt' ch',
    cons_x i -> cons_step i -> backtrack_ fuel i c bt ch = Some (i', c', bt', ch') ->
    cons_x i' /\ cons_step i' /\ halved i i' /\ qub_ok i' /\
    jx i' = jx i /\ jgrad i' = jgrad i /\ jpsi i' = jpsi i /\ (bt <= bt')%nat /\
    ((ch' = ch /\ i' = i /\ c' = c /\ bt' = bt) \/ (ch' = true /\ cons_hat i')).
  Proof.
    induction fuel as [|fuel IH]; intros i c bt ch i' c' bt' ch' Hx Hs; cbn [fbacktrack];
      destruct (fit_backtrack P i) eqn:Eq; try discriminate.
    1,3: intros E; inversion E; subst; split; [assumption|]; split; [assumption|]; split; [apply halved_refl|]; split; [exact Eq|];
         split; [reflexivity|]; split; [reflexivity|]; split; [reflexivity|]; split; [lia|]; left; csplit; reflexivity.
    intros E.
    destruct (eprox_cons (fhalve_it i)) as [A B]; [exact Hx|].
    destruct (epsih_cons c _ A B) as (A' & B' & C').
    destruct (IH _ _ _ _ _ _ _ _ A' B' E) as (H1 & H2 & H3 & H4 & H5 & H6 & H7 & H8 & H9).
    split; [exact H1|]. split; [exact H2|]. split.
    { apply (halved_trans _ (epsih c (eprox (fhalve_it i)))); [|exact H3]. exists 1%nat. cbn [halve_n].
      rewrite <- fhalve_it_gl. reflexivity. }
    split; [exact H4|]. split; [rewrite H5; reflexivity|]. split; [rewrite H6; reflexivity|]. split; [rewrite H7; reflexivity|].
    split; [lia|]. right. destruct H9 as [(Ec & Ei & _)|[Ec Hh]]; [|split; assumption].
    split; [exact Ec|]. rewrite Ei. exact C'.
  Qed.

  Lemma backtrack_guard_false fuel (i : it) c bt ch : fit_backtrack P i = false -> backtrack_ fuel i c bt ch = Some (i, c, bt, ch).
  Proof. intros Hg. destruct fuel; cbn [fbacktrack]; rewrite Hg; reflexivity. Qed.

  (* ------------------------------------------------------------------ records, chains, loop invariant *)
  Definition xh_init : list R := jxh (fst initL).
  (* fixed-step mode with a criterion that does not need ∇ψ(x̂): ψ(x̂), ŷ are evaluated only in the exit block *)
  Definition late : bool := fixed && negb need.
  (* ... until then the ŷ buffer is uninitialised memory (model: []) and ψx̂ is the NaN it was constructed with *)
  Definition hat_untouched (i : it) : Prop := jyh i = [] /\ jpsih i = nnan.
  Definition rec_ok (r : fcbrec (T:=R)) : Prop :=
    let i := fr_it r in
    checked i /\ qub_ok i /\ glrel0 i /\ (fr_k r <= fp_max_iter P)%nat /\ (fixed = true -> jL i = fp_Lmax P) /\
    (late = true -> hat_untouched i).
  (* record r of iteration k  vs  record r' of iteration k+1 *)
  Definition desc (r r' : fcbrec (T:=R)) : Prop :=
    fr_status r = StBusy /\ fr_k r' = S (fr_k r) /\ halved (fr_it r) (fr_it r') /\ fr_t r' = t_next (fr_t r) /\
    (fp_noaccel P = true -> jx (fr_it r') = jxh (fr_it r)).
  (* x̂ of the iteration before the newest record of tl (the work vector of the Lipschitz estimate before iteration 0) *)
  Definition prev_xh (tl : list (fcbrec (T:=R))) : list R :=
    match tl with r0 :: _ => jxh (fr_it r0) | [] => xh_init end.
  (* newest-first list of records: consecutive pairs are linked, x_{k+1} is the GENERATED extrapolation of x̂_k and x̂_{k-1} *)
  Fixpoint chain (log : list (fcbrec (T:=R))) : Prop :=
    match log with
    | r' :: tl =>
        match tl with
        | r :: tl2 => desc r r' /\
                      (fp_noaccel P = false -> jx (fr_it r') = map2 (extrap1 (fr_t r) (fr_t r')) (jxh (fr_it r)) (prev_xh tl2))
        | [] => fr_k r' = 0%nat /\ fr_t r' = 1 /\ jx (fr_it r') = x_in
        end /\ chain tl
    | [] => True
    end.

  Record Inv (s : fstate (T:=R)) : Prop := {
    iv_x : cons_x (fs_curr s);
    iv_gl : glrel0 (fs_curr s);
    iv_fix : fixed = true -> jL (fs_curr s) = fp_Lmax P;
    iv_k : (fs_k s <= fp_max_iter P)%nat;
    iv_log : Forall rec_ok (fs_log s);
    iv_chain : chain (fs_log s);
    iv_prev : jxh (fs_curr s) = prev_xh (fs_log s);
    iv_late : late = true -> hat_untouched (fs_curr s);
    iv_link : match fs_log s with
              | r :: tl => fr_status r = StBusy /\ fs_k s = S (fr_k r) /\ halved (fr_it r) (fs_curr s) /\ fs_t s = t_next (fr_t r) /\
                           (fp_noaccel P = true -> jx (fs_curr s) = jxh (fr_it r)) /\
                           (fp_noaccel P = false -> jx (fs_curr s) = map2 (extrap1 (fr_t r) (fs_t s)) (jxh (fr_it r)) (prev_xh tl))
              | [] => fs_k s = 0%nat /\ fs_t s = 1 /\ jx (fs_curr s) = x_in
              end }.

  (* the part of a pass before the stop check *)
  Lemma step_facts (s : fstate (T:=R)) curr c5 bt : Inv s -> step_ s = Some (curr, c5, bt) ->
    checked curr /\ qub_ok curr /\ glrel0 curr /\ halved (fs_curr s) curr /\ jx curr = jx (fs_curr s) /\
    (fixed = true -> jL curr = fp_Lmax P) /\ (fs_bt s <= bt)%nat.
  Proof.
    intros [Hx Hgl Hfix _ _ _ _ _ _]. unfold fpass_step. cbv zeta.
    destruct (eprox_cons (fs_curr s) Hx) as [A1 B1].
    set (i1 := eprox (fs_curr s)) in *.
    set (ev := negb fixed || need).
    set (i2 := if ev then epsih (fs_cnt s) i1 else i1).
    set (c2 := if ev then finc_py (fs_cnt s) else fs_cnt s).
    assert (H2 : cons_x i2 /\ cons_step i2 /\ (ev = true -> cons_hat i2) /\ gl_of i2 = gl_of (fs_curr s) /\ jx i2 = jx (fs_curr s)).
    { subst i2. destruct ev.
      - destruct (epsih_cons (fs_cnt s) i1 A1 B1) as (A & B & C). csplit; try assumption; try reflexivity. intros _; exact C.
      - csplit; try assumption; try reflexivity. discriminate. }
    destruct H2 as (A2 & B2 & C2 & G2 & X2).
    set (i3 := if need then egradh c2 i2 else i2).
    set (c3 := if need then finc_gl c2 else c2).
    assert (H3 : core i3 = core i2 /\ (need = true -> cons_gradh i3)).
    { subst i3. destruct need; [split; [reflexivity|intros _; apply egradh_cons]|split; [reflexivity|discriminate]]. }
    destruct H3 as [Co3 D3].
    assert (A3 : cons_x i3) by (apply (cons_x_core i2); [now symmetry|exact A2]).
    assert (B3 : cons_step i3) by (apply (cons_step_core i2); [now symmetry|exact B2]).
    destruct (backtrack_ bt_fuel i3 c3 (fs_bt s) false) as [[[[i4 c4] bt4] ch4]|] eqn:Eb; [|discriminate].
    destruct (backtrack_inv _ _ _ _ _ _ _ _ _ A3 B3 Eb) as (A4 & B4 & H4 & Q4 & X4 & _ & _ & Hbt & Hch).
    intros E. inversion E; subst curr c5 bt; clear E.
    set (again := ch4 && need).
    set (i5 := if again then egradh c4 i4 else i4).
    assert (Co5 : core i5 = core i4) by (subst i5; destruct again; reflexivity).
    assert (Hg3 : gl_of i3 = gl_of (fs_curr s)) by (rewrite (gl_core _ _ Co3); exact G2).
    assert (Hh5 : halved (fs_curr s) i5).
    { apply (halved_gl _ i4); [apply gl_core; now symmetry|]. destruct H4 as [j Ej]. exists j. now rewrite <- Hg3. }
    split; [|split; [|split; [|split; [|split; [|split]]]]].
    - unfold checked. split; [apply (cons_x_core i4); [now symmetry|exact A4]|].
      split; [apply (cons_step_core i4); [now symmetry|exact B4]|]. split.
      + intros Hev. apply (cons_hat_core i4); [now symmetry|].
        destruct Hch as [(_ & Ei & _)|[_ Hh]]; [|exact Hh]. rewrite Ei.
        apply (cons_hat_core i2); [now symmetry|]. apply C2. exact Hev.
      + intros Hn. subst i5 again. rewrite Hn, andb_true_r. destruct Hch as [(Ec & Ei & _)|[Ec _]]; rewrite Ec.
        * rewrite Ei. apply D3, Hn.
        * apply egradh_cons.
    - apply (qub_ok_core i4); [now symmetry|exact Q4].
    - apply (glrel0_halved (fs_curr s)); assumption.
    - exact Hh5.
    - apply core_fields in Co5. apply core_fields in Co3.
      destruct Co5 as (-> & _). rewrite X4. destruct Co3 as (-> & _). exact X2.
    - intros Hf. (* fixed-step mode: L = L_max, the guard of the backtracking loop is false at once *)
      assert (E3 : jL i3 = fp_Lmax P) by (pose proof (f_equal snd Hg3) as E; cbn in E; rewrite E; apply Hfix, Hf).
      assert (Ei : i4 = i3).
      { assert (Hg : fit_backtrack P i3 = false).
        { unfold fit_backtrack, bt_guard. rewrite E3. numR. rewrite Rlt_bool_false by lra. reflexivity. }
        rewrite (backtrack_guard_false bt_fuel i3 c3 (fs_bt s) false Hg) in Eb. inversion Eb. reflexivity. }
      apply core_fields in Co5. destruct Co5 as (_ & _ & _ & _ & _ & _ & _ & _ & -> & _). rewrite Ei. exact E3.
    - exact Hbt.
  Qed.

  (* in `late` mode the first half of a pass never touches ψx̂ / ŷ *)
  Lemma step_late (s : fstate (T:=R)) curr c5 bt : Inv s -> late = true -> step_ s = Some (curr, c5, bt) ->
    jyh curr = jyh (fs_curr s) /\ jpsih curr = jpsih (fs_curr s).
  Proof.
    intros HI Hl. pose proof (iv_fix s HI) as Hfix. unfold late in Hl. apply andb_prop in Hl. destruct Hl as [Hf Hn].
    apply negb_true_iff in Hn. specialize (Hfix Hf). unfold fpass_step. cbv zeta. rewrite Hf, Hn. cbn [negb orb andb].
    assert (Hg : fit_backtrack P (eprox (fs_curr s)) = false).
    { unfold fit_backtrack, bt_guard. cbn [feval_prox jL]. rewrite Hfix. numR. rewrite Rlt_bool_false by lra. reflexivity. }
    rewrite (backtrack_guard_false bt_fuel _ (fs_cnt s) (fs_bt s) false Hg). cbn [andb].
    intros E. inversion E. split; reflexivity.
  Qed.

  (* the iterate the exit block reads: ψ(x̂), ŷ are evaluated late in fixed-step mode when the criterion did not need them *)
  Lemma exit_final_ok c (curr : it) : checked curr ->
    let cf := if late then epsih c curr else curr in
    final_ok cf /\ jx cf = jx curr /\ jxh cf = jxh curr /\ jp cf = jp curr /\ jgrad cf = jgrad curr /\ jgradh cf = jgradh curr /\ gl_of cf = gl_of curr /\
    jpsi cf = jpsi curr /\ jpp cf = jpp curr /\ jgp cf = jgp curr /\ jh cf = jh curr.
  Proof.
    intros (Hx & Hs & Hh & Hg). cbv zeta. unfold late, hat_in_loop, final_ok in *. destruct fixed, need; cbn [andb negb orb] in *.
    2: destruct (epsih_cons c curr Hx Hs) as (A & B & C).
    all: csplit; auto; try reflexivity; discriminate.
  Qed.

  (* what is known about the result of a completed run *)
  (* po_cf: the iterate at the final stop check; po_cnt: the event counters at that check; po_np: the no-progress counter *)
  Record PostW (po_cf : it) (po_cnt : fcounters) (po_np : nat) (o : foutputs (T:=R)) : Prop := {
    po_checked : checked po_cf;
    po_qub : qub_ok po_cf;
    po_gl : glrel0 po_cf;
    po_fix : fixed = true -> jL po_cf = fp_Lmax P;
    po_final : final_ok (fo_final o) /\ jx (fo_final o) = jx po_cf /\ jxh (fo_final o) = jxh po_cf /\ jp (fo_final o) = jp po_cf /\
               jgrad (fo_final o) = jgrad po_cf /\ jgradh (fo_final o) = jgradh po_cf /\ gl_of (fo_final o) = gl_of po_cf /\
               jpsi (fo_final o) = jpsi po_cf /\ jpp (fo_final o) = jpp po_cf /\ jgp (fo_final o) = jgp po_cf /\ jh (fo_final o) = jh po_cf;
    po_eps : fo_eps o = eps_of po_cf;
    po_status : fo_status o = stop_status_helpers (fp_tol P) (fo_eps o) (time_up po_cnt) (fo_iterations o) (fp_max_iter P)
                                                  po_np (fp_max_no_progress P) (stop_req po_cnt);
    po_notbusy : fo_status o <> StBusy;
    po_iter : (fo_iterations o <= fp_max_iter P)%nat;
    po_exit : (fo_x o, fo_y o, fo_errz o) =
              exit_block (fo_status o) (fp_always P) x_in y_in errz_in (jxh (fo_final o)) (jyh (fo_final o)) Σ;
    po_log : Forall rec_ok (fo_log o);
    po_chain : chain (rev (fo_log o));
    po_last : exists t, hd_error (rev (fo_log o)) = Some (mkFCb (fo_iterations o) po_cf t (fo_eps o) (fo_status o)) }.
  Definition Post (o : foutputs (T:=R)) : Prop := exists cf cnt np, PostW cf cnt np o.

  Lemma link_to_chain (s : fstate (T:=R)) curr (rec : fcbrec (T:=R)) : Inv s ->
    halved (fs_curr s) curr -> jx curr = jx (fs_curr s) ->
    fr_k rec = fs_k s -> fr_it rec = curr -> fr_t rec = fs_t s -> chain (rec :: fs_log s).
  Proof.
    intros HI Hh Hxx Ek Ei Et. destruct HI as [_ _ _ _ _ Hch _ _ Hlk]. cbn [chain]. split; [|exact Hch].
    destruct (fs_log s) as [|r tl].
    - destruct Hlk as (K1 & K2 & K3). rewrite Ek, Ei, Et, Hxx. csplit; assumption.
    - destruct Hlk as (K1 & K2 & K3 & K4 & K5 & K6). split.
      + unfold desc. rewrite Ek, Ei, Et, Hxx. split; [exact K1|]. split; [exact K2|]. split; [apply (halved_trans _ (fs_curr s)); assumption|].
        split; assumption.
      + rewrite Ei, Et, Hxx. exact K6.
  Qed.

  Lemma exit_post (s : fstate (T:=R)) curr c5 bt st : Inv s -> step_ s = Some (curr, c5, bt) ->
    st = stop_status_helpers (fp_tol P) (eps_of curr) (time_up c5) (fs_k s) (fp_max_iter P) (fnp P s curr) (fp_max_no_progress P) (stop_req c5) ->
    st <> StBusy -> Post (exit_ s curr (finc_polls c5) bt (eps_of curr) st).
  Proof.
    intros HI Hst Est Hnb. destruct (step_facts s curr c5 bt HI Hst) as (Hck & Hq & Hgl & Hh & Hxx & Hfx & Hbt).
    exists curr, c5, (fnp P s curr). unfold fexit. cbv zeta. fold late.
    pose proof (exit_final_ok (finc_cb (finc_polls c5)) curr Hck) as Hf. cbv zeta in Hf.
    set (cf := if late then epsih (finc_cb (finc_polls c5)) curr else curr) in *.
    assert (Hrec : rec_ok (mkFCb (fs_k s) curr (fs_t s) (eps_of curr) st)).
    { unfold rec_ok; cbn [fr_it fr_k]. csplit; try assumption; try apply Hck; [apply HI|].
      intros Hl. destruct (step_late s curr c5 bt HI Hl Hst) as [E1 E2]. destruct (iv_late s HI Hl) as [F1 F2].
      unfold hat_untouched. rewrite E1, E2. split; assumption. }
    constructor; cbn [fo_status fo_iterations fo_eps fo_x fo_y fo_errz fo_final fo_log].
    - exact Hck.
    - exact Hq.
    - exact Hgl.
    - exact Hfx.
    - exact Hf.
    - reflexivity.
    - exact Est.
    - exact Hnb.
    - apply HI.
    - destruct (exit_block st (fp_always P) x_in y_in errz_in (jxh cf) (jyh cf) Σ) as [[xo yo] eo]. reflexivity.
    - apply Forall_rev. constructor; [exact Hrec|apply HI].
    - rewrite rev_involutive. apply (link_to_chain s curr); try assumption; reflexivity.
    - rewrite rev_involutive. exists (fs_t s). reflexivity.
  Qed.

  Lemma cont_inv (s : fstate (T:=R)) curr c5 bt : Inv s -> step_ s = Some (curr, c5, bt) ->
    StBusy = stop_status_helpers (fp_tol P) (eps_of curr) (time_up c5) (fs_k s) (fp_max_iter P) (fnp P s curr) (fp_max_no_progress P) (stop_req c5) ->
    Inv (cont_ s curr (finc_polls c5) bt (fnp P s curr) (eps_of curr)).
  Proof.
    intros HI Hst Est. destruct (step_facts s curr c5 bt HI Hst) as (Hck & Hq & Hgl & Hh & Hxx & Hfx & Hbt).
    symmetry in Est. apply busy_iff in Est. destruct Est as (_ & _ & Hne & _).
    unfold fcont. cbv zeta.
    set (c7 := finc_cb (finc_polls c5)).
    set (tn := t_next (fs_t s)).
    set (x' := if fp_noaccel P then jxh curr else map2 (extrap1 (fs_t s) tn) (jxh curr) (jxh (fs_curr s))).
    set (nx := if fixed then feval_grad_psi grad_psi c7 (fset_x curr x') else feval_psi_grad psi_grad c7 (fset_x curr x')).
    assert (Hnx : cons_x nx /\ gl_of nx = gl_of curr /\ jxh nx = jxh curr /\ jx nx = x').
    { subst nx. unfold cons_x. destruct fixed; cbn [feval_grad_psi feval_psi_grad fset_x jx jgrad jpsi jxh jgam jL gl_of].
      - csplit; try reflexivity. exists c7. reflexivity.
      - csplit; try reflexivity. exists c7. destruct (psi_grad c7 x'); reflexivity. }
    destruct Hnx as (N1 & N2 & N3 & N4).
    assert (Hrec : rec_ok (mkFCb (fs_k s) curr (fs_t s) (eps_of curr) StBusy)).
    { unfold rec_ok; cbn [fr_it fr_k]. csplit; try assumption; try apply Hck; [apply HI|].
      intros Hl. destruct (step_late s curr c5 bt HI Hl Hst) as [E1 E2]. destruct (iv_late s HI Hl) as [F1 F2].
      unfold hat_untouched. rewrite E1, E2. split; assumption. }
    constructor; cbn [fs_curr fs_k fs_t fs_log].
    - exact N1.
    - apply (glrel0_gl curr); [now symmetry|exact Hgl].
    - intros Hf. pose proof (f_equal snd N2) as E. cbn in E. rewrite E. apply Hfx, Hf.
    - pose proof (iv_k s HI). lia.
    - constructor; [exact Hrec|apply HI].
    - apply (link_to_chain s curr); try assumption; reflexivity.
    - cbn [prev_xh fr_it]. exact N3.
    - intros Hl. destruct (step_late s curr c5 bt HI Hl Hst) as [E1 E2]. destruct (iv_late s HI Hl) as [F1 F2].
      assert (Hy : jyh nx = jyh curr /\ jpsih nx = jpsih curr) by (subst nx; destruct fixed; split; reflexivity).
      destruct Hy as [Y1 Y2]. unfold hat_untouched. rewrite Y1, Y2, E1, E2. split; assumption.
    - cbn [fr_status fr_k fr_it fr_t]. split; [reflexivity|]. split; [reflexivity|].
      split; [exists 0%nat; cbn [halve_n]; exact N2|]. split; [reflexivity|].
      rewrite N4. subst x'. split; intros E; rewrite E; [reflexivity|]. rewrite (iv_prev s HI). reflexivity.
  Qed.

  Lemma pass_inv (s : fstate (T:=R)) : Inv s ->
    match pass_ s with FCont s' => Inv s' | FExit o => Post o | FFuel => True end.
  Proof.
    intros HI. unfold fpass. destruct (step_ s) as [[[curr c5] bt]|] eqn:Hst; [|exact I]. cbv zeta.
    destruct (stop_status_helpers (fp_tol P) (eps_of curr) (time_up c5) (fs_k s) (fp_max_iter P) (fnp P s curr) (fp_max_no_progress P) (stop_req c5)) eqn:Est.
    1: apply (cont_inv s curr c5 bt HI Hst); symmetry; exact Est.
    all: apply (exit_post s curr c5 bt _ HI Hst); [symmetry; exact Est|discriminate].
  Qed.

  Lemma loop_inv : forall fuel s o, Inv s -> loop_ fuel s = FDone o -> Post o.
  Proof.
    induction fuel as [|fuel IH]; intros s o HI; cbn [floop]; [discriminate|].
    pose proof (pass_inv s HI) as Hp. destruct (pass_ s) as [o'|s'|].
    - intros E. inversion E. subst. exact Hp.
    - apply IH. exact Hp.
    - discriminate.
  Qed.

  (* ------------------------------------------------------------------ initialisation *)
  Definition first_state (i0 : it) (c0 : fcounters) : fstate (T:=R) :=
    mkFSt (fset_gamma_L i0 (gamma_of_L (fp_Lgamma P) (jL i0)) (jL i0)) 0 1 0 c0 0 [].

  Lemma init_untouched : hat_untouched (fst initL).
  Proof.
    unfold finit_L, hat_untouched. destruct fixed; [split; reflexivity|]. destruct (nleb (fp_L0 P) n0); cbv zeta; split; reflexivity.
  Qed.
  Lemma init_facts : cons_x (fst initL) /\ jx (fst initL) = x_in /\ (fixed = true -> jL (fst initL) = fp_Lmax P).
  Proof.
    unfold finit_L, cons_x. destruct fixed eqn:Ef.
    - cbn [fst feval_grad_psi fset_gamma_L fit0 jx jgrad jL]. split; [exists fcnt0; reflexivity|]. split; [reflexivity|reflexivity].
    - destruct (nleb (fp_L0 P) n0); cbv zeta; cbn [fst feval_psi_grad fset_gamma_L fset_xh fit0 jx jgrad jpsi jL].
      + split; [exists fcnt0; destruct (psi_grad fcnt0 x_in); reflexivity|]. split; [reflexivity|discriminate].
      + split; [exists fcnt0; destruct (psi_grad fcnt0 x_in); reflexivity|]. split; [reflexivity|discriminate].
  Qed.

  Lemma init_inv i0 c0 : initL = (i0, c0) -> Inv (first_state i0 c0).
  Proof.
    intros E0. destruct init_facts as (Hx & Hxx & Hf). rewrite E0 in Hx, Hxx, Hf. cbn [fst] in Hx, Hxx, Hf.
    assert (HL : L_init = jL i0) by (unfold L_init; now rewrite E0).
    unfold first_state. constructor; cbn [fs_curr fs_k fs_t fs_log].
    - exact Hx.
    - exists 0%nat. cbn [halve_n]. unfold gl_of, gl0, gamma_of_L, fset_gamma_L; cbn [jgam jL]. rewrite HL. reflexivity.
    - exact Hf.
    - lia.
    - constructor.
    - exact I.
    - cbn [prev_xh]. unfold xh_init. rewrite E0. reflexivity.
    - intros _. pose proof init_untouched as Hu. rewrite E0 in Hu. exact Hu.
    - csplit; try reflexivity. exact Hxx.
  Qed.

  (* MAIN: every completed run satisfies Post *)
  Theorem fista_post fuel o : fista_ fuel = FDone o -> Post o.
  Proof.
    unfold fista. destruct initL as [i0 c0] eqn:E0.
    destruct (negb (nfinite (jL i0))); [discriminate|].
    change (@n1 R NumR) with 1. fold (first_state i0 c0).
    apply loop_inv. exact (init_inv _ _ E0).
  Qed.

  (* the states at the top of `while (true)` *)
  Inductive reachable : fstate (T:=R) -> Prop :=
  | reach_init i0 c0 : initL = (i0, c0) -> reachable (first_state i0 c0)
  | reach_step s s' : reachable s -> pass_ s = FCont s' -> reachable s'.
  Theorem reachable_inv s : reachable s -> Inv s.
  Proof.
    induction 1 as [i0 c0 E0|s s' _ IH Ep]; [exact (init_inv _ _ E0)|].
    pose proof (pass_inv s IH) as Hp. now rewrite Ep in Hp.
  Qed.

  (* the invariant at EVERY stop check: the iterate the criterion, the status chain and the progress callback look at *)
  Theorem reachable_check s curr c5 bt : reachable s -> step_ s = Some (curr, c5, bt) ->
    checked curr /\ qub_ok curr /\ glrel0 curr /\ (fixed = true -> jL curr = fp_Lmax P) /\ (fs_k s <= fp_max_iter P)%nat.
  Proof.
    intros Hr Hst. pose proof (reachable_inv s Hr) as HI.
    destruct (step_facts s curr c5 bt HI Hst) as (A & B & C & _ & _ & D & _). repeat (split; [assumption|]). apply HI.
  Qed.

  (* ------------------------------------------------------------------ (a) reading the invariant *)
  Lemma checked_explicit (i : it) : checked i ->
    jxh i = vadd (jx i) (jp i) /\
    eval_prox_grad_step lb ub l1 (jgam i) (jx i) (jgrad i) = (jxh i, jp i, jh i) /\
    jpp i = vsqnorm (jp i) /\ jgp i = vdot (jp i) (jgrad i) /\
    (fixed = true -> exists c, jgrad i = grad_psi c (jx i)) /\
    (fixed = false -> exists c, (jpsi i, jgrad i) = psi_grad c (jx i)) /\
    (fixed = false \/ need = true -> exists c, (jpsih i, jyh i) = psi_yhat c (jxh i)) /\
    (need = true -> exists c, jgradh i = grad_L c (jxh i) (jyh i)).
  Proof.
    intros (Hx & Hs & Hh & Hg). split; [apply cons_step_xh, Hs|]. destruct Hs as (S1 & S2 & S3).
    repeat (split; [assumption|]). unfold cons_x in Hx. split; [|split; [|split]].
    - intros E. now rewrite E in Hx.
    - intros E. now rewrite E in Hx.
    - intros E. apply Hh. unfold hat_in_loop. destruct E as [E|E]; rewrite E; [reflexivity|apply orb_true_r].
    - exact Hg.
  Qed.
  Lemma final_ok_explicit (i : it) : final_ok i ->
    jxh i = vadd (jx i) (jp i) /\
    eval_prox_grad_step lb ub l1 (jgam i) (jx i) (jgrad i) = (jxh i, jp i, jh i) /\
    (exists c, (jpsih i, jyh i) = psi_yhat c (jxh i)) /\
    (need = true -> exists c, jgradh i = grad_L c (jxh i) (jyh i)).
  Proof.
    intros (Hx & Hs & Hh & Hg). split; [apply cons_step_xh, Hs|]. destruct Hs as (S1 & _). repeat (split; [assumption|]). exact Hg.
  Qed.

  (* ------------------------------------------------------------------ (b) γ·L and monotonicity of γ *)
  Lemma glrel0_product (i : it) : glrel0 i -> jgam i * jL i = fp_Lgamma P / L_init * L_init.
  Proof.
    intros [j E]. unfold gl_of in E. pose proof (halve_n_product j (fp_Lgamma P / L_init) L_init) as Hp.
    fold gl0 in Hp. rewrite <- E in Hp. exact Hp.
  Qed.
  Lemma glrel0_product_factor (i : it) : L_init <> 0 -> glrel0 i -> jgam i * jL i = fp_Lgamma P.
  Proof. intros HL Hg. rewrite (glrel0_product i Hg). field. exact HL. Qed.
  Lemma halved_nonincreasing (a b : it) : halved a b -> 0 < jgam a -> 0 < jgam b <= jgam a.
  Proof.
    intros [j E] Hp. pose proof (halve_n_nonincreasing j (jgam a) (jL a) Hp) as Hn.
    unfold gl_of in E. rewrite <- E in Hn. exact Hn.
  Qed.
  Lemma glrel0_pos (i : it) : 0 < fp_Lgamma P -> 0 < L_init -> glrel0 i -> 0 < jgam i.
  Proof.
    intros H1 H2 [j E]. assert (Hp : 0 < fp_Lgamma P / L_init) by (apply Rdiv_lt_0_compat; assumption).
    pose proof (halve_n_nonincreasing j _ L_init Hp) as Hn. fold gl0 in Hn. rewrite <- E in Hn. apply Hn.
  Qed.

  (* ------------------------------------------------------------------ (c) quadratic upper bound at every checked / reported iterate *)
  Lemma qub_ok_explicit (i : it) : qub_ok i ->
    fp_Lmax P <= jL i \/
    jpsih i <= jpsi i + jgp i + 1 / 2 * jL i * jpp i + (1 + Rabs (jpsi i)) * fp_qub_tol P.
  Proof.
    unfold qub_ok, fit_backtrack, fit_qub_violated, bt_guard, FistaGen.qub_violated, qub_margin. numR.
    destruct (Rlt_bool_spec (jL i) (fp_Lmax P)); cbn [andb]; [|left; assumption].
    intros Hq. right. apply Rlt_bool_false_iff in Hq. lra.
  Qed.

  (* ------------------------------------------------------------------ (e) iterations and status;  (f) exit *)
  Theorem fista_status_clauses fuel o : fista_ fuel = FDone o ->
    (fo_iterations o <= fp_max_iter P)%nat /\
    fo_status o <> StBusy /\
    (fo_status o = StMaxIter -> fo_iterations o = fp_max_iter P) /\
    (fo_status o = StConverged <-> fo_eps o <= eff_tol (fp_tol P)) /\
    (fo_status o = StInterrupted -> exists c, stop_req c = true) /\
    (fo_status o = StMaxTime -> exists c, time_up c = true) /\
    (fo_status o = StNoProgress -> exists np, (fp_max_no_progress P < np)%nat).
  Proof.
    intros Hr. destruct (fista_post fuel o Hr) as (cf & cnt & np & W). destruct W.
    split; [assumption|]. split; [assumption|]. split; [|split; [|split; [|split]]].
    - intros E. rewrite E in po_status0. symmetry in po_status0. now apply maxiter_only_at_limit in po_status0.
    - rewrite po_status0. rewrite converged_iff. apply Rle_bool_iff.
    - intros E. rewrite E in po_status0. symmetry in po_status0. apply interrupted_only_if_requested in po_status0. eauto.
    - intros E. rewrite E in po_status0. symmetry in po_status0. apply maxtime_only_if_exceeded in po_status0. eauto.
    - intros E. rewrite E in po_status0. symmetry in po_status0. apply noprogress_only_above_limit in po_status0. eauto.
  Qed.

  (* exit: the written-back triple is the exit block of a consistent iterate whose ψ(x̂), ŷ HAVE been evaluated at x̂ *)
  Theorem fista_exit fuel o : fista_ fuel = FDone o ->
    exists cf : it, checked cf /\ qub_ok cf /\ glrel0 cf /\ fo_eps o = eps_of cf /\
      final_ok (fo_final o) /\ jx (fo_final o) = jx cf /\ jxh (fo_final o) = jxh cf /\ jp (fo_final o) = jp cf /\ gl_of (fo_final o) = gl_of cf /\
      (overwrites (fo_status o) (fp_always P) = true ->
         fo_x o = jxh cf /\ jxh cf = vadd (jx cf) (jp cf) /\
         fo_y o = jyh (fo_final o) /\ (exists c, (jpsih (fo_final o), fo_y o) = psi_yhat c (fo_x o)) /\
         fo_errz o = match errz_in with [] => [] | _ => vdiv (vsub (fo_y o) y_in) Σ end) /\
      (overwrites (fo_status o) (fp_always P) = false -> fo_x o = x_in /\ fo_y o = y_in /\ fo_errz o = errz_in).
  Proof.
    intros Hr. destruct (fista_post fuel o Hr) as (cf & cnt & np & W). destruct W.
    destruct po_final0 as (F0 & F1 & F2 & F3 & F4 & F5 & F6 & _).
    exists cf. repeat (split; [assumption|]). unfold exit_block in po_exit0.
    split; intros Ho; rewrite Ho in po_exit0;
      pose proof (f_equal (fun t => fst (fst t)) po_exit0) as X1; pose proof (f_equal (fun t => snd (fst t)) po_exit0) as X2;
      pose proof (f_equal snd po_exit0) as X3; cbn [fst snd] in X1, X2, X3; rewrite X1, X2, X3.
    - destruct (checked_explicit cf po_checked0) as (E1 & _).
      destruct F0 as (_ & _ & [c Hc] & _).
      split; [exact F2|]. split; [exact E1|]. split; [reflexivity|]. split; [exists c; exact Hc|reflexivity].
    - csplit; reflexivity.
  Qed.

  (* the inner-solver contract of C01 (DESIGN §4): Converged under ApproxKKT *)
  Theorem fista_inner_contract fuel o : fista_ fuel = FDone o ->
    fo_status o = StConverged -> fp_crit P = ApproxKKT -> l1 = [] ->
    exists (x grad gradh : list R) (γ : R),
      let step := proj_grad_step lb ub γ x grad in
      fo_x o = fst (fst step) /\
      (exists c ψh, (ψh, fo_y o) = psi_yhat c (fo_x o)) /\
      (exists c, gradh = grad_L c (fo_x o) (fo_y o)) /\
      fo_errz o = match errz_in with [] => [] | _ => vdiv (vsub (fo_y o) y_in) Σ end /\
      fo_eps o = vnorminf (kkt_residual γ (snd (fst step)) grad gradh) /\
      fo_eps o <= eff_tol (fp_tol P) /\
      ((fixed = true /\ exists c, grad = grad_psi c x) \/ (fixed = false /\ exists c ψ, (ψ, grad) = psi_grad c x)) /\
      (0 < fp_Lgamma P -> 0 < L_init -> 0 < γ) /\
      (L_init <> 0 -> exists L, γ * L = fp_Lgamma P).
  Proof.
    intros Hr Hst Hcrit Hl1. destruct (fista_post fuel o Hr) as (cf & cnt & np & W). destruct W.
    destruct po_final0 as (F0 & F1 & F2 & F3 & F4 & F5 & F6 & _).
    assert (Hn : need = true) by (unfold fneed; now rewrite Hcrit).
    assert (Hlate : late = false) by (unfold late; rewrite Hn; apply andb_false_r).
    destruct (checked_explicit cf po_checked0) as (E1 & E2 & E3 & E4 & E5 & E6 & E7 & E8).
    destruct (E7 (or_intror Hn)) as [ch Hh]. destruct (E8 Hn) as [cg Hg].
    unfold exit_block in po_exit0. rewrite Hst in po_exit0. cbn [overwrites] in po_exit0.
    pose proof (f_equal (fun t => fst (fst t)) po_exit0) as X1; pose proof (f_equal (fun t => snd (fst t)) po_exit0) as X2;
      pose proof (f_equal snd po_exit0) as X3; cbn [fst snd] in X1, X2, X3.
    (* ŷ of the final iterate is that of the checked one: nothing is evaluated late when the criterion needs ∇ψ(x̂) *)
    destruct F0 as (_ & _ & [cf' Hcf'] & Hgf). destruct (Hgf Hn) as [cg' Hg'].
    exists (jx cf), (jgrad cf), (jgradh cf), (jgam cf). cbv zeta.
    rewrite Hl1 in E2. cbn [eval_prox_grad_step] in E2. rewrite E2. cbn [fst snd].
    split; [rewrite X1; exact F2|]. split.
    { exists cf', (jpsih (fo_final o)). rewrite X2, X1. exact Hcf'. }
    split.
    { exists cg'. rewrite X1, X2, <- F5. exact Hg'. }
    split; [rewrite X3, X2; reflexivity|]. split.
    { rewrite po_eps0. unfold fit_eps. rewrite Hcrit. reflexivity. }
    split.
    { destruct (converged_iff (fp_tol P) (fo_eps o) (time_up cnt) (fo_iterations o) (fp_max_iter P) np (fp_max_no_progress P) (stop_req cnt)) as [Hc _].
      rewrite <- po_status0 in Hc. apply Rle_bool_iff, Hc, Hst. }
    split.
    { destruct fixed eqn:Ef; [left; split; [reflexivity|apply E5; reflexivity]|right; split; [reflexivity|]].
      destruct (E6 eq_refl) as [c Hc]. exists c, (jpsi cf). exact Hc. }
    split; [intros; now apply glrel0_pos|].
    intros HL. exists (jL cf). now apply glrel0_product_factor.
  Qed.

  (* every progress-callback record and every consecutive pair *)
  Theorem fista_records fuel o : fista_ fuel = FDone o ->
    Forall rec_ok (fo_log o) /\ chain (rev (fo_log o)) /\
    exists cf t, hd_error (rev (fo_log o)) = Some (mkFCb (fo_iterations o) cf t (fo_eps o) (fo_status o)) /\ checked cf.
  Proof.
    intros Hr. destruct (fista_post fuel o Hr) as (cf & cnt & np & W). destruct W. csplit; try assumption.
    destruct po_last0 as [t Ht]. exists cf, t. split; assumption.
  Qed.

  (* fixed-step mode: L = L_max and γ = Lγ_factor / L_max at every record, no backtracking ever *)
  Lemma rec_ok_fixed (r : fcbrec (T:=R)) : rec_ok r -> fixed = true -> fp_Lmax P <> 0 ->
    jL (fr_it r) = fp_Lmax P /\ jgam (fr_it r) = fp_Lgamma P / fp_Lmax P.
  Proof.
    intros (_ & _ & Hg & _ & Hf & _) Ef HL. specialize (Hf Ef). split; [exact Hf|].
    assert (HLi : L_init = fp_Lmax P) by (unfold L_init; apply init_facts, Ef).
    pose proof (glrel0_product_factor (fr_it r) ltac:(now rewrite HLi) Hg) as Hp. rewrite Hf in Hp.
    apply (Rmult_eq_reg_r (fp_Lmax P)); [|exact HL]. rewrite Hp. field. exact HL.
  Qed.

  (* fixed-step mode with a criterion that does not need ∇ψ(x̂): EVERY progress callback — the final one included — is shown a ŷ buffer
     that has never been written and ψ_hat = NaN; the outputs are nevertheless those of eval_ψ at x̂ (fista_exit) *)
  Lemma rec_ok_late (r : fcbrec (T:=R)) : rec_ok r -> fixed = true -> need = false -> jyh (fr_it r) = [] /\ jpsih (fr_it r) = nnan.
  Proof. intros (_ & _ & _ & _ & _ & Hl) Ef En. apply Hl. unfold late. now rewrite Ef, En. Qed.

  (* ------------------------------------------------------------------ momentum: what the GENERATED recurrence satisfies *)
  Lemma t_next_recurrence t : 1 <= t -> t_next t * (t_next t - 1) = t * t.
  Proof.
    intros Ht. unfold t_next. numR.
    match goal with |- context [sqrt ?a] =>
      assert (Hs0 : 0 <= sqrt a) by apply sqrt_pos; assert (Hs : sqrt a * sqrt a = a) by (apply sqrt_sqrt; nra);
      set (s := sqrt a) in *; clearbody s end.
    nra.
  Qed.
  Lemma t_next_ge t : 1 <= t -> t + 1 / 2 <= t_next t.
  Proof.
    intros Ht. unfold t_next. numR.
    match goal with |- context [sqrt ?a] =>
      assert (Hs0 : 0 <= sqrt a) by apply sqrt_pos; assert (Hs : sqrt a * sqrt a = a) by (apply sqrt_sqrt; nra);
      set (s := sqrt a) in *; clearbody s end.
    nra.
  Qed.
  (* along the records (newest first): t_0 = 1, t_k >= (k+2)/2 and t_{k+1}(t_{k+1} - 1) = t_k² *)
  Lemma chain_momentum : forall log, chain log ->
    match log with
    | r' :: tl => (INR (fr_k r') + 2) / 2 <= fr_t r' /\
                  match tl with r :: _ => fr_t r' * (fr_t r' - 1) = fr_t r * fr_t r | [] => fr_t r' = 1 end
    | [] => True
    end /\ Forall (fun r => 1 <= fr_t r) log.
  Proof.
    induction log as [|r' tl IH]; intros Hc; [split; [exact I|constructor]|].
    cbn [chain] in Hc. destruct Hc as [Hh Hc]. specialize (IH Hc). destruct IH as [IH1 IH2].
    destruct tl as [|r tl2].
    - destruct Hh as (K & T1 & _). rewrite K, T1. cbn [INR]. split; [split; [lra|reflexivity]|constructor; [lra|constructor]].
    - destruct Hh as [(_ & K & _ & T1 & _) _]. destruct IH1 as [Hlow _].
      assert (H1 : 1 <= fr_t r) by (inversion IH2; assumption).
      pose proof (t_next_ge _ H1) as Hg. pose proof (t_next_recurrence _ H1) as Hrec.
      rewrite T1, K, S_INR. split; [split; [lra|exact Hrec]|constructor; [lra|exact IH2]].
  Qed.
  Theorem fista_momentum fuel o : fista_ fuel = FDone o ->
    Forall (fun r => 1 <= fr_t r /\ (INR (fr_k r) + 2) / 2 <= fr_t r) (fo_log o) /\
    (forall pre r r' post, fo_log o = pre ++ r :: r' :: post -> fr_t r' * (fr_t r' - 1) = fr_t r * fr_t r /\ fr_k r' = S (fr_k r)) /\
    (forall r post, fo_log o = r :: post -> fr_t r = 1 /\ fr_k r = 0%nat).
  Proof.
    intros Hr. destruct (fista_post fuel o Hr) as (cf & cnt & np & W). destruct W as [_ _ _ _ _ _ _ _ _ _ _ Hch _].
    assert (Hsuf : forall l, chain l -> forall a b, l = a ++ b -> chain b).
    { intros l Hl a. revert l Hl. induction a as [|x a IH]; intros l Hl b E; [now subst|]. subst l. cbn [app chain] in Hl. destruct Hl as [_ Hl]. apply (IH _ Hl b eq_refl). }
    split; [|split].
    - apply Forall_forall. intros r Hin. apply in_split in Hin. destruct Hin as (pre & post & E).
      assert (E' : rev (fo_log o) = rev post ++ r :: rev pre) by (rewrite E, rev_app_distr; cbn [rev]; rewrite <- app_assoc; reflexivity).
      pose proof (Hsuf _ Hch _ _ E') as Hc. destruct (chain_momentum _ Hc) as [[H1 _] H2]. split; [inversion H2; assumption|exact H1].
    - intros pre r r' post E.
      assert (E' : rev (fo_log o) = rev post ++ r' :: r :: rev pre).
      { rewrite E, rev_app_distr. cbn [rev]. rewrite <- !app_assoc. reflexivity. }
      pose proof (Hsuf _ Hch _ _ E') as Hc. destruct (chain_momentum _ Hc) as [[_ H1] _]. split; [exact H1|].
      cbn [chain] in Hc. destruct Hc as [[(_ & K & _) _] _]. exact K.
    - intros r post E.
      assert (E' : rev (fo_log o) = rev post ++ [r]) by (rewrite E; reflexivity).
      pose proof (Hsuf _ Hch _ _ E') as Hc. cbn [chain] in Hc. destruct Hc as [(K & T1 & _) _]. split; assumption.
  Qed.

  (* ------------------------------------------------------------------ (g) the backtracking loop terminates *)
  Lemma jL_after_halve c (i : it) : jL (epsih c (eprox (fhalve_it i))) = jL i * 2.
  Proof. unfold fhalve_it, bt_L. cbn. reflexivity. Qed.
  Lemma backtrack_terminates (cL : R) (nL : nat) : 0 < cL -> fp_Lmax P <= cL * 2 ^ nL ->
    forall a fuel (i : it) c bt ch, jL i = cL * 2 ^ a -> (a <= nL)%nat -> (nL - a + 1 <= fuel)%nat -> backtrack_ fuel i c bt ch <> None.
  Proof.
    intros HcL HLm a fuel. revert a. induction fuel as [|fuel IH]; intros a i c bt ch Hi Ha Hf; [lia|].
    cbn [fbacktrack]. destruct (fit_backtrack P i) eqn:Eq; [|discriminate].
    unfold fit_backtrack, bt_guard in Eq. apply andb_prop in Eq. destruct Eq as [Hlt _]. numR. apply Rlt_bool_iff in Hlt. rewrite Hi in Hlt.
    assert (Hlt' : (a < nL)%nat).
    { destruct (Nat.lt_ge_cases a nL) as [H|H]; [exact H|]. exfalso.
      assert (2 ^ nL <= 2 ^ a) by (apply Rle_pow; [lra|exact H]). nra. }
    apply (IH (S a)).
    - rewrite jL_after_halve, Hi. cbn [pow]. lra.
    - lia.
    - lia.
  Qed.

  Lemma halve_n_L j γ L : snd (halve_n j (γ, L)) = L * 2 ^ j.
  Proof.
    induction j as [|j IH]; cbn [halve_n pow]; [cbn; lra|]. destruct (halve_n j (γ, L)) as [g l]. cbn [snd] in IH.
    unfold halve_step; cbn [snd fst]. numR. rewrite IH. lra.
  Qed.
  Theorem pass_never_out_of_fuel (nL : nat) s : Inv s -> 0 < L_init -> fp_Lmax P <= L_init * 2 ^ nL -> (nL + 1 <= bt_fuel)%nat ->
    pass_ s <> FFuel.
  Proof.
    intros HI HL0 HLm Hfuel. unfold fpass.
    assert (Hs : step_ s <> None).
    { unfold fpass_step. cbv zeta.
      match goal with |- context [backtrack_ bt_fuel ?i ?c ?b ?h] => set (i3 := i); set (c3 := c) end.
      assert (Hgl : gl_of i3 = gl_of (fs_curr s)) by (subst i3; destruct need; [destruct (negb fixed || true)|destruct (negb fixed || false)]; reflexivity).
      destruct (iv_gl s HI) as [j Ej]. rewrite <- Hgl in Ej.
      assert (EL : jL i3 = L_init * 2 ^ j).
      { pose proof (halve_n_L j (fp_Lgamma P / L_init) L_init) as Hh. fold gl0 in Hh. rewrite <- Ej in Hh. exact Hh. }
      assert (Hp1 : 1 <= 2 ^ j) by (apply pow_R1_Rle; lra).
      assert (Hp2 : 0 < 2 ^ nL) by (apply pow_lt; lra).
      assert (HcL : 0 < jL i3) by (rewrite EL; nra).
      assert (HLm' : fp_Lmax P <= jL i3 * 2 ^ nL).
      { rewrite EL. assert (0 <= L_init * 2 ^ nL * (2 ^ j - 1)) by (apply Rmult_le_pos; [apply Rmult_le_pos; lra|lra]). lra. }
      pose proof (backtrack_terminates (jL i3) nL HcL HLm' 0%nat bt_fuel i3 c3 (fs_bt s) false ltac:(cbn [pow]; lra) ltac:(lia) ltac:(lia)) as Hb.
      destruct (backtrack_ bt_fuel i3 c3 (fs_bt s) false) as [[[[i4 c4] bt4] ch4]|]; [discriminate|contradiction]. }
    destruct (step_ s) as [[[curr c5] bt]|]; [|contradiction]. cbv zeta.
    match goal with |- context [match ?st with StBusy => _ | _ => _ end] => destruct st end; discriminate.
  Qed.
  Theorem reachable_pass_never_out_of_fuel (nL : nat) s : reachable s ->
    0 < L_init -> fp_Lmax P <= L_init * 2 ^ nL -> (nL + 1 <= bt_fuel)%nat -> pass_ s <> FFuel.
  Proof. intros Hr. apply pass_never_out_of_fuel. now apply reachable_inv. Qed.

  (* the whole run: iterations are bounded by max_iter, so with enough backtracking fuel a run of max_iter + 1 passes completes *)
  Lemma loop_completes (nL : nat) : 0 < L_init -> fp_Lmax P <= L_init * 2 ^ nL -> (nL + 1 <= bt_fuel)%nat ->
    forall fuel s, Inv s -> (fp_max_iter P - fs_k s < fuel)%nat -> loop_ fuel s <> FOutOfFuel.
  Proof.
    intros HL0 HLm Hbf. induction fuel as [|fuel IH]; intros s HI Hf; [lia|]. cbn [floop].
    pose proof (pass_never_out_of_fuel nL s HI HL0 HLm Hbf) as Hnf. pose proof (pass_inv s HI) as Hp.
    destruct (pass_ s) as [o|s'|] eqn:Ep; [discriminate| |contradiction].
    apply IH; [exact Hp|].
    (* Busy implies k <> max_iter, and k' = k + 1 *)
    unfold fpass in Ep. destruct (step_ s) as [[[curr c5] bt]|]; [|discriminate]. cbv zeta in Ep.
    match type of Ep with context [match ?st with StBusy => _ | _ => _ end] => destruct st eqn:Est; try discriminate end.
    apply busy_iff in Est. destruct Est as (_ & _ & Hne & _). inversion Ep; subst s'. cbn [fcont fs_k].
    pose proof (iv_k s HI). lia.
  Qed.
  Theorem fista_terminates (nL : nat) : 0 < L_init -> fp_Lmax P <= L_init * 2 ^ nL -> (nL + 1 <= bt_fuel)%nat ->
    forall fuel, (fp_max_iter P < fuel)%nat -> fista_ fuel <> FOutOfFuel.
  Proof.
    intros HL0 HLm Hbf fuel Hf. unfold fista. destruct initL as [i0 c0] eqn:E0.
    destruct (negb (nfinite (jL i0))); [discriminate|].
    change (@n1 R NumR) with 1. fold (first_state i0 c0).
    apply (loop_completes nL HL0 HLm Hbf); [exact (init_inv _ _ E0)|]. cbn [first_state fs_k]. lia.
  Qed.
  (* ... and over R a run never takes the NotFinite early return, so it completes with outputs *)
  Theorem fista_completes (nL : nat) : 0 < L_init -> fp_Lmax P <= L_init * 2 ^ nL -> (nL + 1 <= bt_fuel)%nat ->
    forall fuel, (fp_max_iter P < fuel)%nat -> exists o, fista_ fuel = FDone o.
  Proof.
    intros HL0 HLm Hbf fuel Hf. pose proof (fista_terminates nL HL0 HLm Hbf fuel Hf) as Ht.
    destruct (fista_ fuel) as [o|L|] eqn:E; [exists o; reflexivity| |contradiction].
    exfalso. unfold fista in E. destruct initL as [i0 c0]. cbn [nfinite NumR negb] in E.
    revert E. generalize (fset_gamma_L i0 (gamma_of_L (fp_Lgamma P) (jL i0)) (jL i0)). intros i1.
    generalize (mkFSt i1 0 n1 0 c0 0 []). clear. intros s. revert s.
    induction fuel as [|fuel IH]; intros s; cbn [floop]; [discriminate|].
    destruct (pass_ s); [discriminate|apply IH|discriminate].
  Qed.
End Proofs.
