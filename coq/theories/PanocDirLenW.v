(* PanocDirLenW.v — PanocDirLen.v (the LENGTH invariant of PANOC with a stateful direction provider) for providers that keep dimensions
   in the sense of DirLen.dir_len: `initialize` is only required to establish the provider invariant Iv from a state satisfying I0 (the
   provider as constructed) or Iv (the provider as a previous solve left it).  Adds what a composition across inner solves needs:
   the provider a completed run returns satisfies I0 or Iv again (the exit pass returns the provider it was handed; before the first
   `initialize` that is the provider the run started from).  The line-search part is PanocDirLen.ls_lenD (it never initializes).  Over R. *)
From Coq Require Import Reals List ZArith Lra Lia Bool Arith Psatz.
From Flocq Require Import Raux.
From Alpaqa Require Import Num NumR Vec Prox ProxProofs ProxVec SolverStatus SolverKernels SolverKernelsProofs DescentProofs
                           StopChain StopChainProofs LoopSkeleton KktProofs Panoc PanocProofs PanocLen LiveVec
                           Directions PanocDir PanocDirProofs PanocDirLen DirWf DirLen.
Import ListNotations.
Local Open Scope R_scope.

Section DirLenW.
  Variable psi_grad_full : list R -> R * list R * list R.
  Variable psi_yhat : list R -> R * list R.
  Variable grad_L : list R -> list R -> list R.
  Variable grad_psi : list R -> list R.
  Variables (lb ub : list (option R)) (l1 : list R).
  Variable D : Type.
  Variable ops : dirops R D.
  Variable stop_req : counters -> bool.
  Variable time_up : counters -> bool.
  Variable P : Panoc.params (T:=R).
  Variables (x_in y_in Σ errz_in : list R).
  Variable ls_fuel : nat.
  Variable d0 : D.

  Variable n : nat.
  Hypothesis Hl1 : l1 = [].
  Hypothesis Hlb : length lb = n.
  Hypothesis Hub : length ub = n.
  Hypothesis Hxin : length x_in = n.
  Hypothesis Hpg : forall x, length x = n -> length (snd (psi_grad psi_grad_full x)) = n.
  Hypothesis HgL : forall x yh, length x = n -> length (grad_L x yh) = n.
  Hypothesis Hgp : forall x, length x = n -> length (grad_psi x) = n.

  (* the provider keeps dimensions *)
  Variables (I0 Iv : D -> Prop).
  Hypothesis HDL : dir_len n D ops I0 Iv.
  Hypothesis Hd0 : I0 d0 \/ Iv d0.

  Let I_init := dl_init n D ops I0 Iv HDL.
  Let I_update := dl_update n D ops I0 Iv HDL.
  Let I_apply := dl_apply n D ops I0 Iv HDL.
  Let I_changed := dl_changed n D ops I0 Iv HDL.
  Let I_reset := dl_reset n D ops I0 Iv HDL.

  Notation it := (iterate (T:=R)).
  Notation eprox := (eval_prox lb ub l1).
  Notation epsih := (eval_psih psi_grad_full psi_yhat P).
  Notation lsloopD := (ls_loopD psi_grad_full psi_yhat grad_L grad_psi lb ub l1 D ops stop_req P).
  Notation passD_ := (passD psi_grad_full psi_yhat grad_L grad_psi lb ub l1 D ops stop_req time_up P x_in y_in Σ errz_in ls_fuel).
  Notation loopD_ := (loopD psi_grad_full psi_yhat grad_L grad_psi lb ub l1 D ops stop_req time_up P x_in y_in Σ errz_in ls_fuel).
  Notation panocD_ := (panocD psi_grad_full psi_yhat grad_L grad_psi lb ub l1 D ops stop_req time_up P x_in y_in Σ errz_in ls_fuel d0).
  Notation reachableD_ := (reachableD psi_grad_full psi_yhat grad_L grad_psi lb ub l1 D ops stop_req time_up P x_in y_in Σ errz_in ls_fuel d0).
  Notation hasinit := (d_has_initial D ops).
  Notation Good := (good psi_grad_full grad_L grad_psi P n).
  Notation GoodX := (good_x n).
  Notation LenI_ := (LenI psi_grad_full grad_L grad_psi P n).
  Notation Linit := (L_init psi_grad_full grad_psi P x_in).
  Notation oklen := (oklen n).
  Notation good_lens := (good_lens psi_grad_full grad_L grad_psi P n).
  Notation eprox_lens := (eprox_lens lb ub l1 n Hl1 Hlb Hub).
  Notation dir_update_I := (dir_update_I D ops n Iv I_update).
  Notation ls_lenD := (ls_lenD psi_grad_full psi_yhat grad_L grad_psi lb ub l1 D ops stop_req P n Hl1 Hlb Hub Hpg HgL Hgp Iv I_update I_reset).

  (* the provider is sane: as constructed / as the previous solve left it (I0 or Iv), and Iv from the first `initialize` on *)
  Definition saneD (d : D) : Prop := I0 d \/ Iv d.
  Definition goodDW (sD : lstateD (T:=R) D) : Prop :=
    Good (st_curr (sd_st D sD)) /\ ((st_k (sd_st D sD) = 0%nat /\ saneD (sd_dir D sD)) \/ Iv (sd_dir D sD)) /\ Forall oklen (sd_trace D sD).

  Lemma passDW_len sD : goodDW sD -> match passD_ sD with PContD _ sD' => goodDW sD' | PExitD _ oD => saneD (od_dir D oD) | _ => True end.
  Proof.
    destruct sD as [[curr0 next0 k np q0 cnt stats log] d rej tr]. unfold goodDW. cbn [sd_st sd_dir sd_trace st_curr st_k].
    intros (Hg & Hk & Htr).
    unfold passD. cbn [sd_st sd_dir sd_rej sd_trace st_curr st_next st_k st_np st_q st_cnt st_stats st_log].
    match goal with |- context [stop_status_helpers ?a ?b ?c ?d ?e ?f ?g ?h] => destruct (stop_status_helpers a b c d e f g h) end.
    2-8: (cbv zeta; match goal with |- context [exit_block ?a ?b ?c ?d ?e ?f ?g ?h] => destruct (exit_block a b c d e f g h) as [[xo yo] eo] end;
          cbn [od_dir]; destruct Hk as [[_ Hk]|Hk]; [exact Hk|right; exact Hk]).
    set (curr := if need_gradh P && negb (ihave curr0) then eval_gradh grad_L grad_psi P curr0 else curr0).
    assert (Cg : Good curr).
    { subst curr. destruct (need_gradh P && negb (ihave curr0)); [apply (egradh_good psi_grad_full grad_L grad_psi P n HgL Hgp), Hg|exact Hg]. }
    destruct (good_lens _ Cg) as (C1 & C2 & C3 & C4).
    destruct (if (k =? 0)%nat then d_initialize D ops d y_in Σ (igam curr) (ix curr) (ixh curr) (ip curr) (igrad curr) else Some d)
      as [d1|] eqn:Ed1; [|exact I].
    assert (H1 : Iv d1).
    { destruct (Nat.eqb_spec k 0) as [Ek|Ek].
      - refine (I_init _ _ _ _ _ _ _ _ _ _ C1 C3 C4 C2 Ed1). destruct Hk as [[_ Hk]|Hk]; [exact Hk|right; exact Hk].
      - injection Ed1 as <-. destruct Hk as [[Hk _]|Hk]; [contradiction|exact Hk]. }
    change (@n0 R NumR) with 0. change (@n1 R NumR) with 1. change (@nopp R NumR) with Ropp. change (@neqb R NumR) with Req_bool.
    unfold dir_phase.
    destruct ((0 <? k)%nat || hasinit) eqn:Euse.
    - destruct (d_apply D ops d1 (igam curr) (ix curr) (ixh curr) (ip curr) (igrad curr) q0) as [[[b q'] d2]|] eqn:Ea; [|exact I].
      destruct (I_apply _ _ _ _ _ _ _ _ _ _ H1 C1 C3 C4 C2 Ea) as [H2 Hq'].
      set (r := if b then Some q' else None).
      set (τi := match r with Some q'' => if vall_finite q'' then 1 else 0 | None => 0 end).
      assert (Hτ : τi = 0 \/ τi = 1) by (subst τi; destruct r as [q''|]; [destruct (vall_finite q'')|]; auto).
      assert (Hq : τi = 1 -> length q' = n).
      { subst τi r. destruct b; [intros _; apply Hq'; reflexivity|intros; lra]. }
      assert (Hr : oklen r) by (subst r; destruct b; intros q'' E; [injection E as <-; apply Hq'; reflexivity|discriminate]).
      assert (Htr' : Forall oklen (tr ++ [r])) by (apply Forall_app; split; [exact Htr|constructor; [exact Hr|constructor]]).
      match goal with |- context [lsloopD ls_fuel q' τi ?l0 ?d3 ?rj] =>
        set (ls0 := l0);
        assert (H3 : Iv d3) by (destruct (true && negb (Req_bool τi 1)); [apply I_reset, H2|exact H2]);
        assert (HI : LenI_ τi ls0) by
          (subst ls0; unfold LenI; cbn [ls_curr ls_next ls_tau ls_tau_prev]; split; [exact Cg|]; split; [right; split; reflexivity|]; intros E; exact E);
        pose proof (ls_lenD q' τi Hτ Hq ls_fuel ls0 d3 rj HI H3) as H4;
        pose proof (ls_len psi_grad_full psi_yhat grad_L grad_psi lb ub l1 stop_req P n Hl1 Hlb Hub Hpg HgL Hgp q' τi Hτ Hq ls_fuel ls0 HI) as Hls;
        rewrite <- (ls_loopD_fst psi_grad_full psi_yhat grad_L grad_psi lb ub l1 D ops stop_req P ls_fuel q' τi ls0 d3 rj) in Hls;
        destruct (lsloopD ls_fuel q' τi ls0 d3 rj) as [[lr d4] rej4]
      end.
      cbn [fst snd] in H4, Hls. destruct lr as [l|l|]; [| |exact I].
      + (* line search completed *)
        destruct Hls as [Lc Ln]. cbn [sd_st sd_dir sd_trace st_curr st_k].
        split; [exact Ln|]. split; [right|exact Htr'].
        destruct (good_lens _ Lc) as (A1 & A2 & _ & A4). destruct (good_lens _ Ln) as (B1 & B2 & _ & B4).
        destruct (ls_updated l); cbn [negb andb snd]; [exact H4|].
        set (ch := negb (Req_bool (igam (ls_curr l)) (igam (ls_next l)))).
        assert (H5 : Iv (if ch then d_changed_gamma D ops d4 (igam (ls_next l)) (igam (ls_curr l)) else d4))
          by (destruct ch; [apply I_changed, H4|exact H4]).
        destruct (ch && p_recompute P).
        * destruct (eprox_lens (set_gamma_L (ls_curr l) (igam (ls_next l)) (iL (ls_next l)))) as (E1 & E2 & _ & E4); [split; [exact A1|exact A2]|].
          apply dir_update_I; assumption.
        * apply dir_update_I; assumption.
      + (* interrupted *)
        cbn [sd_st sd_dir sd_trace st_curr st_k]. split; [exact Hls|]. split; [right; exact H4|exact Htr'].
    - cbn [andb].
      assert (Hτ : 0 = 0 \/ 0 = 1) by (left; reflexivity).
      assert (Hq : 0 = 1 -> length q0 = n) by (intros; lra).
      match goal with |- context [lsloopD ls_fuel q0 0 ?l0 ?d3 ?rj] =>
        set (ls0 := l0);
        assert (HI : LenI_ 0 ls0) by
          (subst ls0; unfold LenI; cbn [ls_curr ls_next ls_tau ls_tau_prev]; split; [exact Cg|]; split; [right; split; reflexivity|]; intros E; exact E);
        pose proof (ls_lenD q0 0 Hτ Hq ls_fuel ls0 d3 rj HI H1) as H4;
        pose proof (ls_len psi_grad_full psi_yhat grad_L grad_psi lb ub l1 stop_req P n Hl1 Hlb Hub Hpg HgL Hgp q0 0 Hτ Hq ls_fuel ls0 HI) as Hls;
        rewrite <- (ls_loopD_fst psi_grad_full psi_yhat grad_L grad_psi lb ub l1 D ops stop_req P ls_fuel q0 0 ls0 d3 rj) in Hls;
        destruct (lsloopD ls_fuel q0 0 ls0 d3 rj) as [[lr d4] rej4]
      end.
      cbn [fst snd] in H4, Hls. destruct lr as [l|l|]; [| |exact I].
      + destruct Hls as [Lc Ln]. cbn [sd_st sd_dir sd_trace st_curr st_k].
        split; [exact Ln|]. split; [right|exact Htr].
        destruct (good_lens _ Lc) as (A1 & A2 & _ & A4). destruct (good_lens _ Ln) as (B1 & B2 & _ & B4).
        destruct (ls_updated l); cbn [negb andb snd]; [exact H4|].
        set (ch := negb (Req_bool (igam (ls_curr l)) (igam (ls_next l)))).
        assert (H5 : Iv (if ch then d_changed_gamma D ops d4 (igam (ls_next l)) (igam (ls_curr l)) else d4))
          by (destruct ch; [apply I_changed, H4|exact H4]).
        destruct (ch && p_recompute P).
        * destruct (eprox_lens (set_gamma_L (ls_curr l) (igam (ls_next l)) (iL (ls_next l)))) as (E1 & E2 & _ & E4); [split; [exact A1|exact A2]|].
          apply dir_update_I; assumption.
        * apply dir_update_I; assumption.
      + cbn [sd_st sd_dir sd_trace st_curr st_k]. split; [exact Hls|]. split; [right; exact H4|exact Htr].
  Qed.


  Theorem reachableD_goodDW sD : reachableD_ sD -> goodDW sD.
  Proof.
    induction 1 as [i0 c0 i3 c1 s1 E0 Eq|sD sD' _ IH Ep].
    - unfold goodDW. cbn [sd_st sd_dir sd_trace st_curr st_k]. split; [|split; [left; split; [reflexivity|exact Hd0]|constructor]].
      eapply (init_qub_good psi_grad_full psi_yhat grad_L grad_psi lb ub l1 P n Hl1 Hlb Hub Hpg); [|exact Eq].
      apply (prox_psih_good psi_grad_full psi_yhat grad_L grad_psi lb ub l1 P n Hl1 Hlb Hub Hpg).
      pose proof (initL_good_x psi_grad_full grad_psi P x_in n Hxin Hpg) as H0. rewrite E0 in H0. exact H0.
    - pose proof (passDW_len sD IH) as Hp. now rewrite Ep in Hp.
  Qed.

  (* ---- every completed run ends in an exit pass from a reachable state *)
  Lemma loopDW_exit : forall fuel sD oD, reachableD_ sD -> loopD_ fuel sD = DoneD D oD -> exists sD', reachableD_ sD' /\ passD_ sD' = PExitD D oD.
  Proof.
    induction fuel as [|fuel IH]; intros sD oD Hr; cbn [loopD]; [discriminate|].
    destruct (passD_ sD) as [o'|sD'| |] eqn:Ep.
    - intros E. inversion E; subst. exists sD. split; assumption.
    - apply IH. eapply reachD_step; eassumption.
    - discriminate.
    - discriminate.
  Qed.
  Theorem panocDW_exit_pass fuel oD : panocD_ fuel = DoneD D oD -> exists sD, reachableD_ sD /\ passD_ sD = PExitD D oD.
  Proof.
    unfold panocD. destruct (init_L psi_grad_full grad_psi P x_in) as [i0 c0] eqn:E0.
    destruct (negb (nfinite (iL i0))); [discriminate|].
    destruct (init_qub psi_grad_full psi_yhat lb ub l1 P ls_fuel _ (cnt_psih P c0) stats0) as [[[i3 c1] s1]|] eqn:Eq; [|discriminate].
    apply loopDW_exit. eapply reachD_init; eassumption.
  Qed.

  (* the provider a completed run hands back is sane again *)
  Theorem panocDW_out_dir fuel oD : panocD_ fuel = DoneD D oD -> saneD (od_dir D oD).
  Proof.
    intros Hr. destruct (panocDW_exit_pass fuel oD Hr) as (sD & Hreach & Hp).
    pose proof (passDW_len sD (reachableD_goodDW sD Hreach)) as H. now rewrite Hp in H.
  Qed.

  (* every accepted apply result of a completed run has length n *)
  Theorem panocDW_trace_len fuel oD : panocD_ fuel = DoneD D oD -> Forall oklen (od_trace D oD).
  Proof.
    intros Hr. destruct (panocDW_exit_pass fuel oD Hr) as (sD & Hreach & Hp).
    destruct (reachableD_goodDW sD Hreach) as (_ & _ & Htr).
    pose proof (reachableD_inv eq00R lt00R psi_grad_full psi_yhat grad_L grad_psi lb ub l1 D ops stop_req time_up P x_in y_in Σ errz_in ls_fuel d0 sD Hreach) as Hi.
    pose proof (passD_inv eq00R lt00R psi_grad_full psi_yhat grad_L grad_psi lb ub l1 D ops stop_req time_up P x_in y_in Σ errz_in ls_fuel sD Hi) as Hpi.
    rewrite Hp in Hpi. rewrite Hpi. exact Htr.
  Qed.

  (* ---- the primal buffer after any completed run has length n *)
  Theorem panocDW_out_x_length fuel oD : panocD_ fuel = DoneD D oD -> length (out_x (od_out D oD)) = n.
  Proof.
    intros Hr. pose proof (panocDW_trace_len fuel oD Hr) as Htr.
    destruct (panocD_refines_R psi_grad_full psi_yhat grad_L grad_psi lb ub l1 D ops stop_req time_up P x_in y_in Σ errz_in ls_fuel d0 fuel oD Hr)
      as (O & o & HO & Eo & (_ & _ & _ & E4 & _)).
    rewrite E4.
    exact (panoc_out_x_length psi_grad_full psi_yhat grad_L grad_psi lb ub l1 O hasinit stop_req time_up P x_in y_in Σ errz_in ls_fuel n
             Hl1 Hlb Hub Hxin Hpg HgL Hgp (oracle_len n _ O Htr HO) fuel o Eo).
  Qed.

  (* ---- the inner contract with dimensions, for PANOC with the provider *)
  Theorem panocDW_inner_contract_len fuel oD : panocD_ fuel = DoneD D oD ->
    let o := od_out D oD in
    out_status o = StConverged -> p_crit P = ApproxKKT ->
    exists (x grad gradh : list R) (γ : R),
      let step := proj_grad_step lb ub γ x grad in
      length x = n /\ length grad = n /\ length gradh = n /\
      out_x o = fst (fst step) /\ length (out_x o) = n /\
      out_y o = snd (psi_yhat (out_x o)) /\
      (if p_eager P then gradh = snd (psi_grad psi_grad_full (out_x o)) \/ gradh = grad_psi (out_x o) else gradh = grad_L (out_x o) (out_y o)) /\
      out_errz o = match errz_in with [] => [] | _ => vdiv (vsub (out_y o) y_in) Σ end /\
      out_eps o = vnorminf (kkt_residual γ (snd (fst step)) grad gradh) /\
      out_eps o <= eff_tol (o_tol P) /\
      (0 < p_Lgamma P -> 0 < Linit -> 0 < γ).
  Proof.
    intros Hr. pose proof (panocDW_trace_len fuel oD Hr) as Htr.
    destruct (panocD_refines_R psi_grad_full psi_yhat grad_L grad_psi lb ub l1 D ops stop_req time_up P x_in y_in Σ errz_in ls_fuel d0 fuel oD Hr)
      as (O & o & HO & Eo & (E1 & _ & E3 & E4 & E5 & E6 & _)).
    cbv zeta. rewrite E1, E3, E4, E5, E6.
    exact (panoc_inner_contract_len psi_grad_full psi_yhat grad_L grad_psi lb ub l1 O hasinit stop_req time_up P x_in y_in Σ errz_in ls_fuel n
             Hl1 Hlb Hub Hxin Hpg HgL Hgp (oracle_len n _ O Htr HO) fuel o Eo).
  Qed.
End DirLenW.
