(* ZeroFprLen.v — a LENGTH invariant of the whole-loop ZeroFPR model (ZeroFpr.v), over R, for arbitrary stop / clock / direction
   oracles (structure of PanocLen.v):  with l1 = [], |lb| = |ub| = |x_in| = n, length-preserving gradient oracles (eval_ψ_grad_ψ,
   eval_grad_L) and a direction provider that returns n-vectors, the current iterate at the top of every pass has x of length n; with
   the consistency invariant of ZeroFprProofs.v this gives ∇ψ(x), x̂, p of length n.
   Consequences: the primal buffer after ANY completed run has length n, and a strengthened inner contract (Converged under ApproxKKT)
   in which x and ∇ψ(x) have length n. *)
From Coq Require Import Reals List ZArith Lra Lia Bool Arith Psatz.
From Flocq Require Import Raux.
From Alpaqa Require Import Num NumR Vec Prox ProxProofs ProxVec SolverStatus SolverKernels SolverKernelsProofs DescentProofs
                           StopChain StopChainProofs LoopSkeleton KktProofs Panoc PanocProofs LiveVec ZeroFpr ZeroFprProofs.
Import ListNotations.
Local Open Scope R_scope.

Lemma zfpr_candidate_length (τ : R) (xh q : list R) n :
  length xh = n -> length q = n -> length (zerofpr_candidate τ xh q) = n.
Proof.
  intros Hx Hq. unfold zerofpr_candidate. destruct (neqb τ n1); [now apply vadd_length|].
  apply vadd_length; [assumption|now rewrite vscale_length].
Qed.

Section Len.
  Variable psi_grad_full : list R -> R * list R * list R.
  Variable psi_yhat : list R -> R * list R.
  Variable grad_L : list R -> list R -> list R.
  Variable grad_psi : list R -> list R.
  Variables (lb ub : list (option R)) (l1 : list R).
  Variable dir_apply : nat -> iterate (T:=R) -> proxit (T:=R) -> option (list R).
  Variable has_initial : bool.
  Variable stop_req : counters -> bool.
  Variable time_up : counters -> bool.
  Variable P : params (T:=R).
  Variables (x_in y_in Σ errz_in : list R).
  Variable ls_fuel : nat.

  Variable n : nat.
  Hypothesis Hl1 : l1 = [].
  Hypothesis Hlb : length lb = n.
  Hypothesis Hub : length ub = n.
  Hypothesis Hxin : length x_in = n.
  Hypothesis Hpg : forall x, length x = n -> length (snd (psi_grad psi_grad_full x)) = n.
  Hypothesis HgL : forall x yh, length x = n -> length (grad_L x yh) = n.
  Hypothesis Hdir : forall j i px q, dir_apply j i px = Some q -> length q = n.

  Notation it := (iterate (T:=R)).
  Notation eprox := (eval_prox lb ub l1).
  Notation ecost := (eval_cost psi_yhat).
  Notation proxof := (eval_prox_it grad_L lb ub l1).
  Notation lsloop := (ls_loop psi_grad_full psi_yhat lb ub l1 stop_req P).
  Notation pass_ := (pass psi_grad_full psi_yhat grad_L lb ub l1 dir_apply has_initial stop_req time_up P x_in y_in Σ errz_in ls_fuel).
  Notation loop_ := (loop psi_grad_full psi_yhat grad_L lb ub l1 dir_apply has_initial stop_req time_up P x_in y_in Σ errz_in ls_fuel).
  Notation zerofpr_ := (zerofpr psi_grad_full psi_yhat grad_L grad_psi lb ub l1 dir_apply has_initial stop_req time_up P x_in y_in Σ errz_in ls_fuel).
  Notation pgrad := (psi_grad psi_grad_full).
  Notation Reachable := (ZeroFprProofs.reachable psi_grad_full psi_yhat grad_L grad_psi lb ub l1 dir_apply has_initial stop_req time_up P x_in y_in Σ errz_in ls_fuel).
  Notation Inv_ := (ZeroFprProofs.Inv psi_grad_full psi_yhat grad_L grad_psi lb ub l1 P x_in).
  Notation Zcons := (zconsistent psi_grad_full psi_yhat grad_L lb ub l1).
  Notation Zcons_x := (zcons_x psi_grad_full psi_yhat grad_L).
  Notation Cstep := (cons_step lb ub l1).
  Notation Linit := (L_init psi_grad_full grad_psi P x_in).
  Notation initqub := (ZeroFpr.init_qub psi_yhat lb ub l1 P).
  Notation initL := (init_L psi_grad_full grad_psi P x_in).
  Notation first_it := (ZeroFprProofs.first_iterate psi_yhat lb ub l1 P).

  Definition lenx (i : it) : Prop := length (ix i) = n.

  (* what the consistency invariant adds to |x| = n *)
  Lemma zcons_grad_len (i : it) : Zcons_x i -> lenx i -> length (igrad i) = n.
  Proof.
    intros [E|[_ E]] Hx.
    - pose proof (f_equal snd E) as E'. cbn [snd] in E'. rewrite E'. apply Hpg, Hx.
    - rewrite E. apply HgL, Hx.
  Qed.
  Lemma cstep_len (i : it) : Cstep i -> lenx i -> length (igrad i) = n -> length (ixh i) = n /\ length (ip i) = n.
  Proof.
    intros (E & _) Hx Hg. rewrite Hl1 in E. cbn [eval_prox_grad_step] in E.
    destruct (proj_grad_step_length lb ub (igam i) (ix i) (igrad i) n Hlb Hub Hx Hg) as [A B].
    rewrite E in A, B. cbn [fst snd] in A, B. split; assumption.
  Qed.
  Lemma zcons_len (i : it) : Zcons i -> lenx i -> length (igrad i) = n /\ length (ixh i) = n /\ length (ip i) = n.
  Proof.
    intros (Hx & Hs & _) Hl. pose proof (zcons_grad_len i Hx Hl) as Hg. split; [exact Hg|]. now apply cstep_len.
  Qed.

  (* ---- line search: curr and prox are read-only; only x of `next` matters *)
  Definition LenI (τi : R) (s : ls_state (T:=R)) : Prop :=
    (lenx (ls_next s) \/ (ls_tau_prev s = - 1 /\ ls_tau s = τi)) /\ (τi = 0 -> ls_tau s = 0).

  Lemma ls_len (c0 : it) (prox : proxit (T:=R)) q τi : length (ixh c0) = n -> (τi = 0 \/ τi = 1) -> (τi = 1 -> length q = n) ->
    forall fuel s, LenI τi s ->
    match lsloop fuel c0 prox q τi s with
    | LsDone s' => lenx (ls_next s')
    | _ => True
    end.
  Proof.
    intros Hxh Hτi Hq. induction fuel as [|fuel IH]; intros s HI; [exact I|].
    cbn [ls_loop]. destruct (stop_req (ls_cnt s)); [exact I|].
    change (@nltb R NumR) with Rlt_bool. change (@neqb R NumR) with Req_bool. change (@nleb R NumR) with Rle_bool.
    change (@n0 R NumR) with 0. change (@n1 R NumR) with 1.
    set (τ := ls_tau s) in *.
    set (ph := if Req_bool τ (ls_tau_prev s) then (ls_next s, inc_polls (ls_cnt s))
               else if Req_bool τ 0 then (take_safe_step c0 prox (ls_next s), inc_polls (ls_cnt s))
               else (take_accel_step psi_grad_full τ q c0 (ls_next s), inc_pg (inc_polls (ls_cnt s)))).
    destruct HI as (Hn & Hz). fold τ in Hn, Hz.
    assert (F : lenx (fst ph)).
    { subst ph. destruct (Req_bool_spec τ (ls_tau_prev s)) as [Et|Et].
      - cbn [fst]. destruct Hn as [Hn|[Hp Ht]]; [exact Hn|].
        exfalso. fold τ in Ht. rewrite Ht, Hp in Et. destruct Hτi; lra.
      - destruct (Req_bool_spec τ 0) as [E0|E0]; cbn [fst].
        + unfold lenx, take_safe_step. cbn [ix]. exact Hxh.
        + unfold lenx, take_accel_step, eval_psi_grad. cbn [ix]. apply zfpr_candidate_length; [exact Hxh|]. apply Hq.
          destruct Hτi as [Ei|Ei]; [|exact Ei]. exfalso. apply E0, Hz, Ei. }
    destruct ph as [next c1]. cbn [fst] in F.
    match goal with |- context [if ?b then lsloop fuel c0 prox q τi ?s1 else _] => destruct b eqn:Efail; [apply (IH s1)|] end.
    { unfold LenI; cbn [ls_next ls_tau ls_tau_prev]. split; [left; exact F|]. reflexivity. }
    set (next1 := ecost (eprox next)).
    assert (N1 : lenx next1) by exact F.
    match goal with |- context [if ?b then lsloop fuel c0 prox q τi ?s1 else _] => destruct b eqn:Equb; [apply (IH s1)|] end.
    { unfold LenI; cbn [ls_next ls_tau ls_tau_prev]. split; [left; exact N1|].
      intros Ei. destruct (Rlt_bool_spec 0 τ) as [Hp|Hp]; [exact Ei|apply Hz, Ei]. }
    match goal with |- context [if ?b then lsloop fuel c0 prox q τi ?s1 else LsDone ?s2] => destruct b eqn:Els; [apply (IH s1)|] end.
    { unfold LenI; cbn [ls_next ls_tau ls_tau_prev]. split; [left; exact N1|].
      intros Ei. exfalso. apply andb_prop in Els. destruct Els as [Hpos _]. apply Rlt_bool_iff in Hpos.
      specialize (Hz Ei). lra. }
    cbn [ls_next]. exact N1.
  Qed.

  (* ---- one pass of the outer loop *)
  Lemma pass_len (s : lstate (T:=R)) : Zcons (st_curr s) -> lenx (st_curr s) ->
    match pass_ s with PCont s' => lenx (st_curr s') | _ => True end.
  Proof.
    intros Hc Hl. destruct (zcons_len _ Hc Hl) as (_ & Lxh & _). unfold pass. cbv zeta.
    change (@n0 R NumR) with 0. change (@n1 R NumR) with 1. change (@nopp R NumR) with Ropp.
    set (curr := st_curr s) in *. set (prox := proxof curr).
    match goal with |- context [stop_status_helpers ?a ?b ?c ?d ?e ?f ?g ?h] => destruct (stop_status_helpers a b c d e f g h) end.
    2-8: match goal with |- context [exit_block ?a ?b ?c ?d ?e ?f ?g ?h] => destruct (exit_block a b c d e f g h) as [[xo yo] eo] end; exact I.
    set (k := st_k s).
    match goal with |- context [if (0 <? k)%nat || has_initial then dir_apply (c_apply ?cc) curr prox else None] => set (c2 := cc) end.
    set (use_dir := (0 <? k)%nat || has_initial).
    set (r := if use_dir then dir_apply (c_apply c2) curr prox else None).
    set (q := match r with Some q' => q' | None => st_q s end).
    set (τi := match r with Some q' => if vall_finite q' then 1 else 0 | None => 0 end).
    assert (Hτ : τi = 0 \/ τi = 1) by (subst τi; destruct r as [q'|]; [destruct (vall_finite q')|]; auto).
    assert (Hq : τi = 1 -> length q = n).
    { subst τi q r. destruct use_dir; [|intros; lra]. destruct (dir_apply (c_apply c2) curr prox) as [q'|] eqn:Ed; [|intros; lra].
      intros _. eapply Hdir; exact Ed. }
    match goal with |- context [lsloop ls_fuel curr prox q τi ?l0] => set (ls0 := l0) end.
    assert (HI : LenI τi ls0).
    { subst ls0. unfold LenI; cbn [ls_next ls_tau ls_tau_prev]. split; [right; split; reflexivity|]. intros E; exact E. }
    pose proof (ls_len curr prox q τi Lxh Hτ Hq ls_fuel ls0 HI) as Hls.
    destruct (lsloop ls_fuel curr prox q τi ls0) as [l|l|]; [| |exact I]; cbn [st_curr].
    - exact Hls.
    - exact Hl.
  Qed.

  Lemma init_qub_ix : forall fuel i c st i' c' st', initqub fuel i c st = Some (i', c', st') -> ix i' = ix i.
  Proof.
    induction fuel as [|fuel IH]; intros i c st i' c' st'; cbn [ZeroFpr.init_qub];
      destruct (nltb (iL i) (p_Lmax P) && it_qub_violated P i); try discriminate.
    1,3: intros E; inversion E; subst; reflexivity.
    intros E. rewrite (IH _ _ _ _ _ _ E). reflexivity.
  Qed.
  Lemma initL_ix : ix (fst initL) = x_in.
  Proof. unfold init_L. cbv zeta. destruct (nleb (p_L0 P) n0); reflexivity. Qed.

  Theorem reachable_lenx s : Reachable s -> lenx (st_curr s).
  Proof.
    induction 1 as [i0 c0 i3 c1 s1 E0 Eq|s s' Hr IH Ep].
    - cbn [st_curr]. unfold lenx. rewrite (init_qub_ix _ _ _ _ _ _ _ Eq). unfold ZeroFprProofs.first_iterate. cbn [eval_cost eval_prox set_gamma_L ix].
      pose proof initL_ix as H0. rewrite E0 in H0. cbn [fst] in H0. rewrite H0. exact Hxin.
    - pose proof (reachable_inv psi_grad_full psi_yhat grad_L grad_psi lb ub l1 dir_apply has_initial stop_req time_up P x_in y_in Σ errz_in ls_fuel s Hr) as HI.
      pose proof (pass_len s (iv_cons _ _ _ _ _ _ _ _ _ _ HI) IH) as Hp. now rewrite Ep in Hp.
  Qed.

  (* ---- every completed run ends in an exit pass from a reachable state *)
  Lemma loop_exit : forall fuel s o, Reachable s -> loop_ fuel s = Done o -> exists s', Reachable s' /\ pass_ s' = PExit o.
  Proof.
    induction fuel as [|fuel IH]; intros s o Hr; cbn [loop]; [discriminate|].
    destruct (pass_ s) as [o'|s'|] eqn:Ep.
    - intros E. inversion E; subst. exists s. split; assumption.
    - apply IH. eapply reach_step; eassumption.
    - discriminate.
  Qed.
  Theorem zerofpr_exit_pass fuel o : zerofpr_ fuel = Done o -> exists s, Reachable s /\ pass_ s = PExit o.
  Proof.
    unfold zerofpr. destruct initL as [i0 c0] eqn:E0.
    destruct (negb (nfinite (iL i0))); [discriminate|].
    change (@ndiv R NumR) with Rdiv. fold (first_it i0).
    destruct (initqub ls_fuel (first_it i0) (inc_py c0) stats0) as [[[i3 c1] s1]|] eqn:Eq; [|discriminate].
    apply loop_exit. eapply reach_init; eassumption.
  Qed.

  (* the outputs of an exit pass, in terms of the current iterate of that pass *)
  Lemma pass_exit_fields s o : pass_ s = PExit o ->
    let cf := st_curr s in
    out_eps o = zit_eps lb ub l1 P cf (proxof cf) /\ out_status o <> StBusy /\
    (exists cnt, out_status o = stop_status_helpers (o_tol P) (out_eps o) (time_up cnt) (st_k s) (p_max_iter P) (st_np s) (p_max_no_progress P) (stop_req cnt)) /\
    (out_x o, out_y o, out_errz o) = exit_block (out_status o) (o_always P) x_in y_in errz_in (ixh cf) (iyh cf) Σ.
  Proof.
    unfold pass. cbv zeta.
    change (@n0 R NumR) with 0. change (@n1 R NumR) with 1. change (@nopp R NumR) with Ropp.
    set (curr := st_curr s) in *. set (prox := proxof curr).
    set (c0 := inc_gl (st_cnt s)).
    destruct (stop_status_helpers (o_tol P) (zit_eps lb ub l1 P curr prox) (time_up c0) (st_k s) (p_max_iter P) (st_np s) (p_max_no_progress P) (stop_req c0)) eqn:Est.
    2-8: match goal with |- context [exit_block ?st _ _ _ _ _ _ _] =>
           destruct (exit_block st (o_always P) x_in y_in errz_in (ixh curr) (iyh curr) Σ) as [[xo yo] eo] eqn:Eex;
           intros E; inversion E; subst o; clear E;
           cbn [out_status out_iterations out_eps out_x out_y out_errz out_final];
           split; [reflexivity|split; [discriminate|split; [exists c0; now rewrite Est|now rewrite Eex]]]
         end.
    match goal with |- context [match ?X with LsDone _ => _ | LsStopped _ => _ | LsFuel => PFuel end] => destruct X end; discriminate.
  Qed.

  (* the primal buffer after any completed run has length n *)
  Theorem zerofpr_out_x_length fuel o : zerofpr_ fuel = Done o -> length (out_x o) = n.
  Proof.
    intros Hr. destruct (zerofpr_exit_pass fuel o Hr) as (s & Hreach & Hp).
    pose proof (reachable_lenx s Hreach) as Hl.
    pose proof (reachable_inv psi_grad_full psi_yhat grad_L grad_psi lb ub l1 dir_apply has_initial stop_req time_up P x_in y_in Σ errz_in ls_fuel s Hreach) as HI.
    destruct (zcons_len _ (iv_cons _ _ _ _ _ _ _ _ _ _ HI) Hl) as (_ & Lxh & _).
    destruct (pass_exit_fields s o Hp) as (_ & _ & _ & Hex). cbv zeta in Hex.
    unfold exit_block in Hex. destruct (overwrites (out_status o) (o_always P));
      pose proof (f_equal (fun t => fst (fst t)) Hex) as X1; cbn [fst snd] in X1; rewrite X1; [exact Lxh|exact Hxin].
  Qed.

  (* ---- the strengthened inner contract *)
  Theorem zerofpr_inner_contract_len fuel o : zerofpr_ fuel = Done o ->
    out_status o = StConverged -> p_crit P = ApproxKKT ->
    exists (x grad : list R) (γ : R),
      let step := proj_grad_step lb ub γ x grad in
      let gradh := grad_L (out_x o) (out_y o) in
      length x = n /\ length grad = n /\
      out_x o = fst (fst step) /\ length (out_x o) = n /\
      out_y o = snd (psi_yhat (out_x o)) /\
      out_errz o = match errz_in with [] => [] | _ => vdiv (vsub (out_y o) y_in) Σ end /\
      out_eps o = vnorminf (kkt_residual γ (snd (fst step)) grad gradh) /\
      out_eps o <= eff_tol (o_tol P) /\
      (0 < p_Lgamma P -> 0 < Linit -> 0 < γ).
  Proof.
    intros Hr Hst Hcrit. destruct (zerofpr_exit_pass fuel o Hr) as (s & Hreach & Hp).
    pose proof (reachable_lenx s Hreach) as Hl.
    pose proof (reachable_inv psi_grad_full psi_yhat grad_L grad_psi lb ub l1 dir_apply has_initial stop_req time_up P x_in y_in Σ errz_in ls_fuel s Hreach) as HI.
    destruct HI as [Hc _ Hgl _ _ _ _].
    destruct (zcons_len _ Hc Hl) as (Lg & Lxh & _).
    destruct (pass_exit_fields s o Hp) as (He & _ & _ & Hex). cbv zeta in *.
    set (cf := st_curr s) in *.
    destruct (zconsistent_explicit psi_grad_full psi_yhat grad_L grad_psi lb ub l1 dir_apply has_initial stop_req time_up P x_in y_in Σ errz_in ls_fuel cf Hc)
      as (E1 & E2 & E3 & E4 & E5 & E7).
    rewrite Hst in Hex. unfold exit_block in Hex. cbn [overwrites] in Hex.
    pose proof (f_equal (fun t => fst (fst t)) Hex) as X1. pose proof (f_equal (fun t => snd (fst t)) Hex) as X2.
    pose proof (f_equal snd Hex) as X3. cbn [fst snd] in X1, X2, X3.
    exists (ix cf), (igrad cf), (igam cf). cbv zeta.
    rewrite Hl1 in E2. cbn [eval_prox_grad_step] in E2. rewrite E2. cbn [fst snd].
    split; [exact Hl|]. split; [exact Lg|]. split; [exact X1|]. split; [now rewrite X1|].
    split; [rewrite X2, X1, <- E5; reflexivity|]. split; [rewrite X3, X2; reflexivity|]. split.
    { rewrite He. unfold zit_eps, eval_prox_it, prox_step_in_prox. cbn [px_grad]. rewrite Hcrit, X1, X2. reflexivity. }
    split.
    { destruct (zerofpr_status_clauses psi_grad_full psi_yhat grad_L grad_psi lb ub l1 dir_apply has_initial stop_req time_up P x_in y_in Σ errz_in ls_fuel fuel o Hr)
        as (_ & _ & _ & Hcv & _). apply Hcv. exact Hst. }
    intros H1 H2. now apply (glrel0_pos psi_grad_full psi_yhat grad_L grad_psi lb ub l1 (fun _ _ => None) has_initial stop_req time_up P x_in y_in Σ errz_in ls_fuel).
  Qed.
End Len.
