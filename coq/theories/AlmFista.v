(* AlmFista.v — ALMSolver<FISTASolver>: the ALM outer loop (Alm.v, composed by AlmCompose.v) with the whole-loop FISTA model
   (FistaLoop.v) as its inner solver, on a user problem given by its four basic functions through the vtable model of AugLag.v
   (same problem view as AlmPanoc.v; FISTA never reads the work_m buffer of eval_ψ_grad_ψ, and has no direction).
   The world threaded through successive solves is FISTA's own counter record (cumulative): the stop flag and the clock are functions
   of the counters summed over the finished solves.  The oracles of FistaLoop.v receive the event counters (for stateful problems);
   the problem view here is stateless and ignores them.
   Model only; proofs in AlmFistaProofs.v, theorem in Properties_C01.v. *)
From Coq Require Import List ZArith Bool Arith.
From Alpaqa Require Import Num Vec Prox SolverStatus SolverKernels StopChain AugLag FistaLoop Alm AlmCompose AlmPanoc.
Import ListNotations.

Section AlmFista.
  Context {T : Type} `{Num T}.
  Local Open Scope num_scope.

  Variable Pb : problem (T:=T).
  Variable prov : fn -> bool.
  Variables (Clb Cub : list (option T)) (l1 : list T).
  Variable split : nat.
  Variable stop_req : fcounters -> bool.
  Variable time_up : fcounters -> bool.
  Variable outer_oot : nat -> bool.
  Variable FP : fparams (T:=T).                 (* FISTAParams; fp_always / fp_tol are set by ALM *)
  Variable AP : alm_params (T:=T).
  Variables (bt_fuel inner_fuel : nat).

  Definition fcadd (a b : fcounters) : fcounters :=
    mkFCnt (fc_polls a + fc_polls b) (fc_pg a + fc_pg b) (fc_py a + fc_py b) (fc_gl a + fc_gl b) (fc_gpsi a + fc_gpsi b) (fc_cb a + fc_cb b).

  (* InnerSolveOptions{.always_overwrite_results = true, .tolerance = ε} *)
  Definition fwith_opts (tol : T) : fparams (T:=T) :=
    mkFParams (fp_max_iter FP) (fp_max_no_progress FP) (fp_L0 FP) (fp_lip_eps FP) (fp_lip_delta FP) (fp_Lgamma FP) (fp_Lmin FP) (fp_Lmax FP)
              (fp_crit FP) (fp_qub_tol FP) (fp_noaccel FP) true tol.

  (* the problem as the inner solver sees it, for fixed (y, Σ) *)
  Definition fo_psi_grad (y Σ : list T) (_ : fcounters) (x : list T) : T * list T := fst (te_psi_grad_psi Pb prov x y Σ).
  Definition fo_psi_yhat (y Σ : list T) (_ : fcounters) (x : list T) : T * list T := fst (te_psi Pb prov x y Σ).
  Definition fo_grad_L (_ : fcounters) (x yh : list T) : list T := fst (te_grad_L Pb prov x yh).
  Definition fo_grad_psi (y Σ : list T) (_ : fcounters) (x : list T) : list T := fst (te_grad_psi Pb prov x y Σ).

  (* one inner solve as the outer loop sees it *)
  (* ir_stop: ALMSolver::stop() sets ALM's own flag and the inner solver's flag in the same call, so the one oracle stop_req serves both:
     the outer loop reads its flag after the inner solve, i.e. at the cumulative counters the solve hands on *)
  Definition finner (w : fcounters) (i : nat) (x y Σ : list T) (tol : T) (errz : list T)
      : option (inner_res (T:=T) * list T * fresult (T:=T) * fcounters) :=
    let r := fista (fo_psi_grad y Σ) (fo_psi_yhat y Σ) fo_grad_L (fo_grad_psi y Σ) Clb Cub l1
                   (fun c => stop_req (fcadd w c)) (fun c => time_up (fcadd w c))
                   (fwith_opts tol) x y Σ errz bt_fuel inner_fuel in
    match r with
    | FDone o =>
        Some ({| ir_status := alm_status_of (fo_status o); ir_eps := fo_eps o; ir_err := Some (fo_errz o);
                 ir_y := Some (fo_y o); ir_iters := fo_iterations o; ir_oot := outer_oot i;
                 ir_stop := stop_req (fcadd w (fo_cnt o)) |},
              fo_x o, r, fcadd w (fo_cnt o))
    | FNotFiniteL L =>
        (* return Stats{.status = NotFinite}: nothing written, ε = inf; the evaluations of the Lipschitz estimate happened *)
        Some ({| ir_status := NotFinite; ir_eps := ninf; ir_err := None; ir_y := None; ir_iters := 0; ir_oot := outer_oot i;
                 ir_stop := stop_req (fcadd w (snd (finit_L (fo_psi_grad y Σ) (fo_grad_psi y Σ) (fwith_opts tol) x))) |},
              x, r, fcadd w (snd (finit_L (fo_psi_grad y Σ) (fo_grad_psi y Σ) (fwith_opts tol) x)))
    | FOutOfFuel => None
    end.

  (* ALMSolver<FISTASolver>::operator()(p, x, y, Σ) *)
  Definition alm_fista (outer_fuel : nat) (nanv : T) (Σ0 : option (list T)) (y0 x0 : list T)
      : option (cout (T:=T) fcounters (fresult (T:=T))) :=
    c_run fcounters (fresult (T:=T)) finner AP (pb_of Pb split) outer_fuel (pf Pb x0) (pg Pb x0) nanv Σ0 y0 x0 fcnt0.
End AlmFista.
