(* FistaLen.v — a LENGTH invariant of the whole-loop FISTA model (FistaLoop.v), over R, for arbitrary (also stateful) problem oracles
   and stop / clock oracles:  with l1 = [], |lb| = |ub| = |x_in| = n and gradient oracles eval_ψ_grad_ψ / eval_grad_ψ that return
   n-vectors at n-vectors (whatever the event counters), the iterate at the top of every pass has x, ∇ψ(x) and the previous x̂ of
   length n (the "previous x̂" of pass 0 is the work vector x0 or x0 − h of the Lipschitz estimate), and the iterate every stop check
   looks at has x, ∇ψ(x), x̂, p of length n.  Nothing is needed of eval_ψ / eval_grad_L, of disable_acceleration, of fixed-step mode.
   Consequences: the primal buffer after ANY completed run has length n, and a strengthened inner contract (Converged under
   ApproxKKT) in which x, ∇ψ(x) and the returned x have length n. *)
From Coq Require Import Reals List ZArith Lra Lia Bool Arith Psatz.
From Flocq Require Import Raux.
From Alpaqa Require Import Num NumR Vec Prox ProxProofs ProxVec SolverStatus SolverKernels SolverKernelsProofs DescentProofs
                           StopChain StopChainProofs KktProofs FistaGen FistaLoop FistaLoopProofs.
Import ListNotations.
Local Open Scope R_scope.

Section Len.
  Variable psi_grad : fcounters -> list R -> R * list R.
  Variable psi_yhat : fcounters -> list R -> R * list R.
  Variable grad_L : fcounters -> list R -> list R -> list R.
  Variable grad_psi : fcounters -> list R -> list R.
  Variables (lb ub : list (option R)) (l1 : list R).
  Variable stop_req : fcounters -> bool.
  Variable time_up : fcounters -> bool.
  Variable P : fparams (T:=R).
  Variables (x_in y_in Σ errz_in : list R).
  Variable bt_fuel : nat.

  Variable n : nat.
  Hypothesis Hl1 : l1 = [].
  Hypothesis Hlb : length lb = n.
  Hypothesis Hub : length ub = n.
  Hypothesis Hxin : length x_in = n.
  Hypothesis Hpg : forall c x, length x = n -> length (snd (psi_grad c x)) = n.
  Hypothesis Hgp : forall c x, length x = n -> length (grad_psi c x) = n.

  Notation it := (fiter (T:=R)).
  Notation eprox := (feval_prox lb ub l1).
  Notation epsih := (feval_psih psi_yhat).
  Notation egradh := (feval_gradh grad_L).
  Notation fixed := (ffixed P).
  Notation need := (fneed P).
  Notation backtrack_ := (fbacktrack psi_yhat lb ub l1 P).
  Notation step_ := (fpass_step psi_yhat grad_L lb ub l1 P bt_fuel).
  Notation pass_ := (fpass psi_grad psi_yhat grad_L grad_psi lb ub l1 stop_req time_up P x_in y_in Σ errz_in bt_fuel).
  Notation loop_ := (floop psi_grad psi_yhat grad_L grad_psi lb ub l1 stop_req time_up P x_in y_in Σ errz_in bt_fuel).
  Notation fista_ := (fista psi_grad psi_yhat grad_L grad_psi lb ub l1 stop_req time_up P x_in y_in Σ errz_in bt_fuel).
  Notation cont_ := (fcont psi_grad grad_psi P).
  Notation exit_ := (fexit psi_yhat P x_in y_in Σ errz_in).
  Notation initL := (finit_L psi_grad grad_psi P x_in).
  Notation Reachable := (reachable psi_grad psi_yhat grad_L grad_psi lb ub l1 stop_req time_up P x_in y_in Σ errz_in bt_fuel).
  Notation Linit := (L_init psi_grad grad_psi P x_in).

  Definition good_x (i : it) : Prop := length (jx i) = n /\ length (jgrad i) = n.
  (* the iterate at the top of a pass: x, ∇ψ(x) and the x̂ of the previous pass *)
  Definition good_top (i : it) : Prop := good_x i /\ length (jxh i) = n.
  (* the iterate a stop check looks at *)
  Definition good (i : it) : Prop := good_x i /\ length (jxh i) = n /\ length (jp i) = n.

  Lemma good_top_x (i : it) : good_top i -> good_x i.
  Proof. intros H; apply H. Qed.

  Lemma vsub_length (a b : list R) : length a = n -> length b = n -> length (vsub a b) = n.
  Proof. intros Ha Hb. unfold vsub. now apply map2_length. Qed.

  (* ---- elementary updates *)
  Lemma eprox_good (i : it) : good_x i -> good (eprox i).
  Proof.
    intros [Hx Hg]. unfold feval_prox. rewrite Hl1. cbn [eval_prox_grad_step].
    destruct (proj_grad_step_length lb ub (jgam i) (jx i) (jgrad i) n Hlb Hub Hx Hg) as [Lxh Lp].
    unfold good, good_x. cbn [jx jxh jgrad jp]. split; [split; assumption|]. split; assumption.
  Qed.
  Lemma epsih_good c (i : it) : good i -> good (epsih c i).
  Proof. exact (fun H => H). Qed.
  Lemma egradh_good c (i : it) : good i -> good (egradh c i).
  Proof. exact (fun H => H). Qed.
  Lemma halve_good_x (i : it) : good_x i -> good_x (fhalve_it i).
  Proof. exact (fun H => H). Qed.

  Lemma backtrack_good : forall fuel (i : it) c bt ch i' c' bt' ch', good i ->
    backtrack_ fuel i c bt ch = Some (i', c', bt', ch') -> good i'.
  Proof.
    induction fuel as [|fuel IH]; intros i c bt ch i' c' bt' ch' Hg; cbn [fbacktrack];
      destruct (fit_backtrack P i); try discriminate.
    1,3: intros E; inversion E; subst; exact Hg.
    apply IH. apply epsih_good, eprox_good, halve_good_x, Hg.
  Qed.

  (* ---- the part of a pass before the stop check *)
  Lemma step_good (s : fstate (T:=R)) curr c5 bt : good_x (fs_curr s) -> step_ s = Some (curr, c5, bt) -> good curr.
  Proof.
    intros Hg. unfold fpass_step. cbv zeta.
    pose proof (eprox_good (fs_curr s) Hg) as G1.
    set (i1 := eprox (fs_curr s)) in *.
    set (ev := negb fixed || need).
    set (i2 := if ev then epsih (fs_cnt s) i1 else i1).
    assert (G2 : good i2) by (subst i2; destruct ev; [apply epsih_good|]; exact G1).
    set (c2 := if ev then finc_py (fs_cnt s) else fs_cnt s).
    set (i3 := if need then egradh c2 i2 else i2).
    assert (G3 : good i3) by (subst i3; destruct need; [apply egradh_good|]; exact G2).
    set (c3 := if need then finc_gl c2 else c2).
    destruct (backtrack_ bt_fuel i3 c3 (fs_bt s) false) as [[[[i4 c4] bt4] ch4]|] eqn:Eb; [|discriminate].
    pose proof (backtrack_good _ _ _ _ _ _ _ _ _ G3 Eb) as G4.
    intros E. inversion E; subst curr c5 bt; clear E.
    destruct (ch4 && need); [apply egradh_good|]; exact G4.
  Qed.

  (* Busy: x of the next pass is x̂ or the extrapolation of x̂ and the previous x̂ *)
  Lemma cont_good (s : fstate (T:=R)) curr c6 bt np ε : good_top (fs_curr s) -> good curr -> good_top (fs_curr (cont_ s curr c6 bt np ε)).
  Proof.
    intros (_ & Lprev) (_ & Lxh & _). unfold fcont. cbv zeta. cbn [fs_curr].
    set (x' := if fp_noaccel P then jxh curr else map2 (extrap1 (fs_t s) (t_next (fs_t s))) (jxh curr) (jxh (fs_curr s))).
    assert (Lx' : length x' = n) by (subst x'; destruct (fp_noaccel P); [exact Lxh|now apply map2_length]).
    unfold good_top, good_x. destruct fixed; cbn [feval_grad_psi feval_psi_grad fset_x jx jgrad jxh].
    - split; [split; [exact Lx'|apply Hgp, Lx']|exact Lxh].
    - split; [split; [exact Lx'|apply Hpg, Lx']|exact Lxh].
  Qed.

  Lemma exit_good (s : fstate (T:=R)) curr c6 bt ε st : good curr -> good (fo_final (exit_ s curr c6 bt ε st)).
  Proof.
    intros Hg. unfold fexit. cbv zeta. cbn [fo_final]. destruct (fixed && negb need); [apply epsih_good|]; exact Hg.
  Qed.

  (* ---- one pass *)
  Lemma pass_len (s : fstate (T:=R)) : good_top (fs_curr s) ->
    match pass_ s with FCont s' => good_top (fs_curr s') | FExit o => good (fo_final o) | FFuel => True end.
  Proof.
    intros Hg. unfold fpass. destruct (step_ s) as [[[curr c5] bt]|] eqn:Hst; [|exact I]. cbv zeta.
    pose proof (step_good s curr c5 bt (good_top_x _ Hg) Hst) as Gc.
    match goal with |- context [stop_status_helpers ?a ?b ?c ?d ?e ?f ?g ?h] => destruct (stop_status_helpers a b c d e f g h) end.
    1: apply cont_good; assumption.
    all: apply exit_good; exact Gc.
  Qed.

  (* ---- initialisation: x = x0, ∇ψ(x0), and the work vector x̂ = x0 or x0 − h *)
  Lemma initL_good_top : good_top (fst initL).
  Proof.
    unfold finit_L, good_top, good_x. destruct fixed.
    - cbn [fst feval_grad_psi fset_gamma_L fit0 jx jgrad jxh]. split; [split; [exact Hxin|apply Hgp, Hxin]|exact Hxin].
    - destruct (nleb (fp_L0 P) n0); cbv zeta; cbn [fst feval_psi_grad fset_gamma_L fset_xh fit0 jx jgrad jxh].
      + split; [split; [exact Hxin|apply Hpg, Hxin]|]. apply vsub_length; [exact Hxin|].
        unfold flipschitz_h. rewrite map_length. apply Hpg, Hxin.
      + split; [split; [exact Hxin|apply Hpg, Hxin]|exact Hxin].
  Qed.

  Theorem reachable_good s : Reachable s -> good_top (fs_curr s).
  Proof.
    induction 1 as [i0 c0 E0|s s' _ IH Ep].
    - cbn [first_state fs_curr]. pose proof initL_good_top as H0. rewrite E0 in H0. exact H0.
    - pose proof (pass_len s IH) as Hp. now rewrite Ep in Hp.
  Qed.
  (* the iterate at every stop check *)
  Theorem reachable_check_good s curr c5 bt : Reachable s -> step_ s = Some (curr, c5, bt) -> good curr.
  Proof. intros Hr Hst. exact (step_good s curr c5 bt (good_top_x _ (reachable_good s Hr)) Hst). Qed.

  (* ---- every completed run ends in an exit pass from a reachable state *)
  Lemma loop_exit : forall fuel s o, Reachable s -> loop_ fuel s = FDone o -> exists s', Reachable s' /\ pass_ s' = FExit o.
  Proof.
    induction fuel as [|fuel IH]; intros s o Hr; cbn [floop]; [discriminate|].
    destruct (pass_ s) as [o'|s'|] eqn:Ep.
    - intros E. inversion E; subst. exists s. split; assumption.
    - apply IH. eapply reach_step; eassumption.
    - discriminate.
  Qed.
  Theorem fista_exit_pass fuel o : fista_ fuel = FDone o -> exists s, Reachable s /\ pass_ s = FExit o.
  Proof.
    unfold fista. destruct initL as [i0 c0] eqn:E0.
    destruct (negb (nfinite (jL i0))); [discriminate|].
    change (@n1 R NumR) with 1. fold (first_state P i0 c0).
    apply loop_exit. apply reach_init. exact E0.
  Qed.

  (* the iterate at the return statement of a completed run *)
  Theorem fista_final_good fuel o : fista_ fuel = FDone o -> good (fo_final o).
  Proof.
    intros Hr. destruct (fista_exit_pass fuel o Hr) as (s & Hreach & Hp).
    pose proof (pass_len s (reachable_good s Hreach)) as Hl. now rewrite Hp in Hl.
  Qed.

  (* the primal buffer after any completed run has length n *)
  Theorem fista_out_x_length fuel o : fista_ fuel = FDone o -> length (fo_x o) = n.
  Proof.
    intros Hr. pose proof (fista_final_good fuel o Hr) as Hg.
    destruct (fista_post psi_grad psi_yhat grad_L grad_psi lb ub l1 stop_req time_up P x_in y_in Σ errz_in bt_fuel fuel o Hr)
      as (cf & cnt & np & W). destruct W as [_ _ _ _ _ _ _ _ _ Hex _ _ _].
    unfold exit_block in Hex. destruct (overwrites (fo_status o) (fp_always P));
      pose proof (f_equal (fun t => fst (fst t)) Hex) as X1; cbn [fst snd] in X1; rewrite X1; [apply Hg|exact Hxin].
  Qed.

  (* ---- the strengthened inner contract: FistaLoopProofs.fista_inner_contract + lengths *)
  Theorem fista_inner_contract_len fuel o : fista_ fuel = FDone o ->
    fo_status o = StConverged -> fp_crit P = ApproxKKT ->
    exists (x grad gradh : list R) (γ : R),
      let step := proj_grad_step lb ub γ x grad in
      length x = n /\ length grad = n /\ length (fo_x o) = n /\
      fo_x o = fst (fst step) /\
      (exists c ψh, (ψh, fo_y o) = psi_yhat c (fo_x o)) /\
      (exists c, gradh = grad_L c (fo_x o) (fo_y o)) /\
      fo_errz o = match errz_in with [] => [] | _ => vdiv (vsub (fo_y o) y_in) Σ end /\
      fo_eps o = vnorminf (kkt_residual γ (snd (fst step)) grad gradh) /\
      fo_eps o <= eff_tol (fp_tol P) /\
      ((fixed = true /\ exists c, grad = grad_psi c x) \/ (fixed = false /\ exists c ψ, (ψ, grad) = psi_grad c x)) /\
      (0 < fp_Lgamma P -> 0 < Linit -> 0 < γ) /\
      (Linit <> 0 -> exists L, γ * L = fp_Lgamma P).
  Proof.
    intros Hr Hst Hcrit. pose proof (fista_final_good fuel o Hr) as Hgood. pose proof (fista_out_x_length fuel o Hr) as Lxo.
    destruct (fista_post psi_grad psi_yhat grad_L grad_psi lb ub l1 stop_req time_up P x_in y_in Σ errz_in bt_fuel fuel o Hr)
      as (cf & cnt & np & W). destruct W as [Hck Hq Hgl Hfx Hfin Heps Hstat Hnb Hit Hex Hlog Hch Hlast].
    destruct Hfin as (F0 & F1 & F2 & F3 & F4 & F5 & F6 & _).
    destruct Hgood as ((Lx & Lg) & Lxh & Lp). rewrite F1 in Lx. rewrite F4 in Lg.
    assert (Hn : need = true) by (unfold fneed; now rewrite Hcrit).
    destruct (checked_explicit psi_grad psi_yhat grad_L grad_psi lb ub l1 stop_req time_up P x_in y_in Σ errz_in bt_fuel cf Hck)
      as (E1 & E2 & E3 & E4 & E5 & E6 & E7 & E8).
    unfold exit_block in Hex. rewrite Hst in Hex. cbn [overwrites] in Hex.
    pose proof (f_equal (fun t => fst (fst t)) Hex) as X1; pose proof (f_equal (fun t => snd (fst t)) Hex) as X2;
      pose proof (f_equal snd Hex) as X3; cbn [fst snd] in X1, X2, X3.
    destruct F0 as (_ & _ & [cf' Hcf'] & Hgf). destruct (Hgf Hn) as [cg' Hg'].
    exists (jx cf), (jgrad cf), (jgradh cf), (jgam cf). cbv zeta.
    rewrite Hl1 in E2. cbn [eval_prox_grad_step] in E2. rewrite E2. cbn [fst snd].
    split; [exact Lx|]. split; [exact Lg|]. split; [exact Lxo|].
    split; [rewrite X1; exact F2|]. split.
    { exists cf', (jpsih (fo_final o)). rewrite X2, X1. exact Hcf'. }
    split.
    { exists cg'. rewrite X1, X2, <- F5. exact Hg'. }
    split; [rewrite X3, X2; reflexivity|]. split.
    { rewrite Heps. unfold fit_eps. rewrite Hcrit. reflexivity. }
    split.
    { destruct (converged_iff (fp_tol P) (fo_eps o) (time_up cnt) (fo_iterations o) (fp_max_iter P) np (fp_max_no_progress P) (stop_req cnt)) as [Hc _].
      rewrite <- Hstat in Hc. apply Rle_bool_iff, Hc, Hst. }
    split.
    { destruct fixed eqn:Ef; [left; split; [reflexivity|apply E5; reflexivity]|right; split; [reflexivity|]].
      destruct (E6 eq_refl) as [c Hc]. exists c, (jpsi cf). exact Hc. }
    split; [intros; now apply (glrel0_pos psi_grad psi_yhat grad_L grad_psi lb ub l1 stop_req time_up P x_in y_in Σ errz_in bt_fuel)|].
    intros HL. exists (jL cf). now apply (glrel0_product_factor psi_grad psi_yhat grad_L grad_psi lb ub l1 stop_req time_up P x_in y_in Σ errz_in bt_fuel).
  Qed.
End Len.
