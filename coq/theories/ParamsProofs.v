(* ParamsProofs.v — proofs about the set_params model of Params.v (all schemas, all states, all strings). *)
From Coq Require Import String Ascii List ZArith Bool Arith Lia.
From Alpaqa Require Import Params.
Import ListNotations.
Local Open Scope string_scope.

(* ------------------------------------------------------------------ induction principle for the nested schema type *)
Section SchemaInd.
  Variable P : schema -> Prop.
  Hypothesis Hleaf : forall t, P (SLeaf t).
  Hypothesis Hstruct : forall n tbl, Forall (fun e => P (snd (snd e))) tbl -> P (SStruct n tbl).
  Fixpoint schema_ind' (s : schema) : P s :=
    match s with
    | SLeaf t => Hleaf t
    | SStruct n tbl =>
      Hstruct n tbl
        ((fix go (l : list (string * (nat * schema))) : Forall (fun e => P (snd (snd e))) l :=
            match l with
            | [] => Forall_nil _
            | e :: l' => Forall_cons e (schema_ind' (snd (snd e))) (go l')
            end) tbl)
    end.
End SchemaInd.

Lemma assoc_In : forall A k (l : list (string * A)) a, assoc k l = Some a -> In (k, a) l.
Proof.
  induction l as [|[k' a'] l IH]; simpl; intros a H; [discriminate|].
  destruct (String.eqb k k') eqn:E.
  - apply String.eqb_eq in E. inversion H; subst. now left.
  - right. now apply IH.
Qed.

(* ------------------------------------------------------------------ list updates *)
Lemma upd_nth_same : forall A i (l : list A) a, nth_error l i = Some a -> upd_nth i a l = l.
Proof.
  induction i; destruct l; simpl; intros; try discriminate; auto.
  - now inversion H.
  - f_equal. now apply IHi.
Qed.
Lemma nth_error_upd_nth_eq : forall A i (l : list A) a b, nth_error l i = Some b -> nth_error (upd_nth i a l) i = Some a.
Proof. induction i; destruct l; simpl; intros; try discriminate; auto. eapply IHi; eauto. Qed.
Lemma nth_error_upd_nth_neq : forall A i j (l : list A) a, i <> j -> nth_error (upd_nth i a l) j = nth_error l j.
Proof.
  induction i; destruct l; simpl; intros; auto.
  - destruct j; [congruence|reflexivity].
  - destruct j; simpl; auto.
Qed.
Lemma upd_nth_length : forall A i (l : list A) a, length (upd_nth i a l) = length l.
Proof. induction i; destruct l; simpl; auto. Qed.

Section Proofs.
  Variable F : Type.
  Variable conv : string -> convres F.
  Variable ticks : nat -> nat -> F -> tickres.
  Notation set_param := (set_param conv ticks).
  Notation set_leaf := (set_leaf conv ticks).
  Notation set_params := (set_params conv ticks).
  Notation parse_dur := (parse_dur conv ticks).
  Notation resolve := (resolve).

  (* the struct setter = table lookup, then recursion into the bound member *)
  Lemma set_param_struct : forall n tbl v key val,
    set_param (SStruct n tbl) v key val =
    match assoc (fst (split_at ch_dot key)) tbl with
    | None => (v, Some EUnknownKey)
    | Some (i, sub) => set_member (fun fv => set_param sub fv (snd (split_at ch_dot key)) val) i v
    end.
  Proof.
    intros. simpl. destruct (split_at ch_dot key) as [k rem]. simpl.
    induction tbl as [|[k' [i sub]] l IH]; simpl; auto.
    destruct (String.eqb k k'); auto.
  Qed.
  Lemma resolve_struct : forall n tbl key,
    resolve (SStruct n tbl) key =
    match assoc (fst (split_at ch_dot key)) tbl with
    | None => None
    | Some (i, sub) => match resolve sub (snd (split_at ch_dot key)) with Some (p, t) => Some (i :: p, t) | None => None end
    end.
  Proof.
    intros. simpl. destruct (split_at ch_dot key) as [k rem]. simpl.
    induction tbl as [|[k' [i sub]] l IH]; simpl; auto.
    destruct (String.eqb k k'); auto.
  Qed.

  (* ---------------------------------------------------------------- tree lemmas *)
  Lemma get_upd_disjoint : forall p q (v w : value F), disjoint p q -> get (upd v p w) q = get v q.
  Proof.
    induction p as [|i p IH]; intros q v w D; [destruct q; contradiction|].
    destruct q as [|j q]; [contradiction|]. simpl in D.
    destruct v as [l|fs]; simpl; auto.
    destruct (nth_error fs i) as [f|] eqn:E; simpl; auto.
    destruct (Nat.eq_dec i j) as [->|N].
    - rewrite (nth_error_upd_nth_eq _ _ _ _ _ E). rewrite E.
      destruct D as [D|D]; [congruence|]. now apply IH.
    - now rewrite nth_error_upd_nth_neq.
  Qed.
  Lemma get_upd_same : forall p (v w x : value F), get v p = Some x -> get (upd v p w) p = Some w.
  Proof.
    induction p as [|i p IH]; simpl; intros; auto.
    destruct v as [l|fs]; [discriminate|].
    destruct (nth_error fs i) as [f|] eqn:E; [|discriminate]. simpl.
    rewrite (nth_error_upd_nth_eq _ _ _ _ _ E). eapply IH; eauto.
  Qed.
  Lemma upd_get_id : forall p (v x : value F), get v p = Some x -> upd v p x = v.
  Proof.
    induction p as [|i p IH]; simpl; intros v x H; [now inversion H|].
    destruct v as [l|fs]; auto.
    destruct (nth_error fs i) as [f|] eqn:E; auto.
    rewrite (IH _ _ H). now rewrite upd_nth_same.
  Qed.

  (* ---------------------------------------------------------------- shape of one set_param call *)
  Definition structural (er : err) : Prop := er = EUnknownKey \/ er = EIndexScalar \/ er = EShape.

  Theorem set_param_shape : forall sch v key val v' e,
    set_param sch v key val = (v', e) ->
    (v' = v /\ exists er, e = Some er /\ structural er) \/
    (exists p t l l', resolve sch key = Some (p, t) /\ get v p = Some (VLeaf l) /\
                      set_leaf t l "" val = (l', e) /\ v' = upd v p (VLeaf l')).
  Proof.
    induction sch as [t|n tbl IH] using schema_ind'; intros v key val v' e H.
    - simpl in H. destruct v as [l|fs].
      + destruct (set_leaf t l key val) as [l' e'] eqn:E. inversion H; subst; clear H.
        destruct (key =? "") eqn:K.
        * apply String.eqb_eq in K; subst. right. exists [], t, l, l'. simpl. auto.
        * left. unfold Params.set_leaf in E. rewrite K in E. simpl in E. inversion E; subst.
          split; auto. exists EIndexScalar. split; auto. right; left; auto.
      + inversion H; subst. left. split; auto. exists EShape. split; auto. right; right; auto.
    - rewrite set_param_struct in H. rewrite resolve_struct.
      destruct (assoc (fst (split_at ch_dot key)) tbl) as [[i sub]|] eqn:A.
      + apply assoc_In in A. rewrite Forall_forall in IH. specialize (IH _ A). simpl in IH.
        unfold set_member in H. destruct v as [l|fs].
        * inversion H; subst. left. split; auto. exists EShape. split; auto. right; right; auto.
        * destruct (nth_error fs i) as [fv|] eqn:N.
          -- destruct (set_param sub fv (snd (split_at ch_dot key)) val) as [fv' e'] eqn:R.
             inversion H; subst; clear H.
             destruct (IH _ _ _ _ _ R) as [[-> Her]|(p & t & l & l' & Hr & Hg & Hs & ->)].
             ++ left. split; auto. now rewrite upd_nth_same.
             ++ right. exists (i :: p), t, l, l'. rewrite Hr. simpl. rewrite N. auto.
          -- inversion H; subst. left. split; auto. exists EShape. split; auto. right; right; auto.
      + inversion H; subst. left. split; auto. exists EUnknownKey. split; auto. left; auto.
  Qed.

  (* FRAME: every position of the whole nested structure that is not the addressed leaf keeps its value —
     whether the call returns or throws. If the key addresses no leaf nothing changes at all. *)
  Theorem set_param_frame : forall sch v key val v' e,
    set_param sch v key val = (v', e) ->
    match resolve sch key with
    | Some (p, _) => forall q, disjoint p q -> get v' q = get v q
    | None => v' = v
    end.
  Proof.
    intros. destruct (set_param_shape _ _ _ _ _ _ H) as [[-> _]|(p & t & l & l' & Hr & Hg & Hs & ->)].
    - destruct (resolve sch key) as [[p t]|]; auto.
    - rewrite Hr. intros. now apply get_upd_disjoint.
  Qed.

  (* VALUE: on success the addressed leaf (and only a leaf) holds what the leaf setter computed from the value string *)
  Theorem set_param_ok_value : forall sch v key val v',
    set_param sch v key val = (v', None) ->
    exists p t l l', resolve sch key = Some (p, t) /\ get v p = Some (VLeaf l) /\
                     set_leaf t l "" val = (l', None) /\ get v' p = Some (VLeaf l') /\ v' = upd v p (VLeaf l').
  Proof.
    intros. destruct (set_param_shape _ _ _ _ _ _ H) as [[_ (er & Hx & _)]|(p & t & l & l' & Hr & Hg & Hs & ->)]; [discriminate|].
    exists p, t, l, l'. repeat split; auto. eapply get_upd_same; eauto.
  Qed.

  (* every leaf setter keeps the old value on every error *)
  Lemma set_leaf_error_keeps : forall t l val l' er,
    set_leaf t l "" val = (l', Some er) -> l' = l.
  Proof.
    intros t l val l' er H. unfold Params.set_leaf in H. cbn [String.eqb negb] in H. cbv iota in H.
    destruct t.
    - destruct ((val =? "0") || (val =? "false")); [discriminate|].
      destruct ((val =? "1") || (val =? "true")); [discriminate|]. now inversion H.
    - destruct (scan_int lo hi val); try (now inversion H).
      destruct (rest =? ""); inversion H; subst; congruence.
    - destruct (scan_real_len val); [|now inversion H].
      destruct (conv (stake n val)); try (now inversion H).
      destruct (sdrop n val =? ""); inversion H; subst; congruence.
    - destruct (Params.parse_dur conv ticks (S (String.length val)) period val 0%Z) as [t' [e|]]; [now inversion H|discriminate].
    - destruct (assoc val tbl); [discriminate|]. now inversion H.
    - now inversion H.
  Qed.

  (* REJECTED => UNCHANGED: whenever set_param throws, the whole nested structure is exactly what it was *)
  Theorem rejected_leaves_unchanged : forall sch v key val v' er,
    set_param sch v key val = (v', Some er) -> v' = v.
  Proof.
    intros sch v key val v' er H.
    destruct (set_param_shape _ _ _ _ _ _ H) as [[-> _]|(p & t & l & l' & Hr & Hg & Hl & ->)]; auto.
    assert (l' = l) by (eapply set_leaf_error_keeps; eauto).
    subst. now apply upd_get_id.
  Qed.

  (* ---------------------------------------------------------------- error classes *)
  Theorem unknown_key_rejected : forall n tbl v key val,
    assoc (fst (split_at ch_dot key)) tbl = None ->
    set_param (SStruct n tbl) v key val = (v, Some EUnknownKey).
  Proof. intros. rewrite set_param_struct. now rewrite H. Qed.

  Theorem index_into_scalar_rejected : forall t l key val,
    key <> "" -> set_param (SLeaf t) (VLeaf l) key val = (VLeaf l, Some EIndexScalar).
  Proof.
    intros. simpl. unfold Params.set_leaf.
    destruct (key =? "") eqn:K; [apply String.eqb_eq in K; contradiction|]. reflexivity.
  Qed.

  Theorem enumerator_by_name : forall tbl l val z,
    assoc val tbl = Some z -> set_leaf (LEnum tbl) l "" val = (VEnum z, None).
  Proof. intros. unfold Params.set_leaf. simpl. now rewrite H. Qed.

  Theorem unknown_enumerator_rejected : forall tbl l val,
    assoc val tbl = None -> set_leaf (LEnum tbl) l "" val = (l, Some EEnumUnknown).
  Proof. intros. unfold Params.set_leaf. simpl. now rewrite H. Qed.

  Theorem bool_exact : forall l val,
    set_leaf LBool l "" val =
      if (val =? "0") || (val =? "false") then (VBool false, None)
      else if (val =? "1") || (val =? "true") then (VBool true, None) else (l, Some EBadBool).
  Proof. reflexivity. Qed.

  Theorem trailing_chars_rejected_int : forall lo hi l val z rest,
    scan_int lo hi val = IVal z rest -> rest <> "" ->
    set_leaf (LInt lo hi) l "" val = (l, Some ENumSuffix).
  Proof.
    intros. unfold Params.set_leaf. simpl. rewrite H.
    destruct (rest =? "") eqn:E; [apply String.eqb_eq in E; contradiction|]. reflexivity.
  Qed.
  Theorem trailing_chars_rejected_real : forall l val n x,
    scan_real_len val = Some n -> conv (stake n val) = CVal x -> sdrop n val <> "" ->
    set_leaf LReal l "" val = (l, Some ENumSuffix).
  Proof.
    intros. unfold Params.set_leaf. simpl. rewrite H, H0.
    destruct (sdrop n val =? "") eqn:E; [apply String.eqb_eq in E; contradiction|]. reflexivity.
  Qed.
  Theorem out_of_range_int_rejected : forall lo hi l val,
    scan_int lo hi val = IRange -> set_leaf (LInt lo hi) l "" val = (l, Some ENumRange).
  Proof. intros. unfold Params.set_leaf. simpl. now rewrite H. Qed.
  Theorem out_of_range_real_rejected : forall l val n,
    scan_real_len val = Some n -> conv (stake n val) = CRange -> set_leaf LReal l "" val = (l, Some ENumRange).
  Proof. intros. unfold Params.set_leaf. simpl. now rewrite H, H0. Qed.

  (* durations: terms are summed onto the accumulator *)
  Theorem parse_dur_accumulates : forall fuel p s t,
    parse_dur fuel p s t = (let (z, e) := parse_dur fuel p s 0%Z in ((t + z)%Z, e)).
  Proof.
    induction fuel; intros; simpl.
    - now rewrite Z.add_0_r.
    - destruct s; [now rewrite Z.add_0_r|].
      set (s1 := sdrop _ _). destruct s1; [now rewrite Z.add_0_r|].
      set (s2 := String a0 s1). destruct (scan_real_len s2); [|now rewrite Z.add_0_r].
      destruct (conv (stake n s2)); try (now rewrite Z.add_0_r).
      destruct (unit_of _); [|now rewrite Z.add_0_r].
      destruct (ticks p n0 x); try (now rewrite Z.add_0_r).
      rewrite IHfuel. rewrite (IHfuel _ _ (0 + z)%Z).
      destruct (parse_dur fuel p _ 0%Z). f_equal. lia.
  Qed.

  Lemma parse_dur_unfold : forall fuel p s t,
    parse_dur (S fuel) p s t =
    match s with
    | EmptyString => (t, None)
    | _ =>
      let s1 := sdrop (count_while is_trim s) s in
      match s1 with
      | EmptyString => (t, None)
      | _ =>
        match scan_real_len s1 with
        | None => (t, Some EDurValue)
        | Some n =>
          match conv (stake n s1) with
          | CRange => (t, Some EDurValue)
          | CMissing => (t, Some EOracle)
          | CVal x =>
            let rest := sdrop n s1 in
            let k := count_while (fun a => negb (is_unit_stop a)) rest in
            match unit_of (stake k rest) with
            | None => (t, Some EDurUnits)
            | Some u =>
              match ticks p u x with
              | TUB => (t, Some EDurUB)
              | TRange => (t, Some EDurRange)
              | TOk dz => parse_dur fuel p (sdrop k rest) (t + dz)%Z
              end
            end
          end
        end
      end
    end.
  Proof. reflexivity. Qed.

  (* one well-formed term "<number><units>" followed by the rest adds ticks(number, units) and continues *)
  Theorem parse_dur_term : forall fuel p s t n x u dz,
    s <> "" -> count_while is_trim s = 0 ->
    scan_real_len s = Some n -> conv (stake n s) = CVal x ->
    unit_of (stake (count_while (fun a => negb (is_unit_stop a)) (sdrop n s)) (sdrop n s)) = Some u ->
    ticks p u x = TOk dz ->
    parse_dur (S fuel) p s t =
    parse_dur fuel p (sdrop (count_while (fun a => negb (is_unit_stop a)) (sdrop n s)) (sdrop n s)) (t + dz)%Z.
  Proof.
    intros. rewrite parse_dur_unfold. destruct s as [|a s]; [contradiction|]. rewrite H0.
    change (sdrop 0 (String a s)) with (String a s). cbv zeta. rewrite H1, H2, H3, H4. reflexivity.
  Qed.

  Theorem bad_units_rejected : forall fuel p s t n x,
    s <> "" -> count_while is_trim s = 0 ->
    scan_real_len s = Some n -> conv (stake n s) = CVal x ->
    unit_of (stake (count_while (fun a => negb (is_unit_stop a)) (sdrop n s)) (sdrop n s)) = None ->
    parse_dur (S fuel) p s t = (t, Some EDurUnits).
  Proof.
    intros. rewrite parse_dur_unfold. destruct s as [|a s]; [contradiction|]. rewrite H0.
    change (sdrop 0 (String a s)) with (String a s). cbv zeta. rewrite H1, H2, H3. reflexivity.
  Qed.

  (* a term whose number of units does not fit the representation (NaN, infinite, too large) is rejected *)
  Theorem out_of_range_duration_rejected : forall fuel p s t n x u,
    s <> "" -> count_while is_trim s = 0 ->
    scan_real_len s = Some n -> conv (stake n s) = CVal x ->
    unit_of (stake (count_while (fun a => negb (is_unit_stop a)) (sdrop n s)) (sdrop n s)) = Some u ->
    ticks p u x = TRange ->
    parse_dur (S fuel) p s t = (t, Some EDurRange).
  Proof.
    intros. rewrite parse_dur_unfold. destruct s as [|a s]; [contradiction|]. rewrite H0.
    change (sdrop 0 (String a s)) with (String a s). cbv zeta. rewrite H1, H2, H3, H4. reflexivity.
  Qed.

  (* the digit '0' is not trimmed: a term may start with (or be) a zero *)
  Theorem zero_not_trimmed : forall s, count_while is_trim (String "0"%char s) = 0.
  Proof. reflexivity. Qed.

  (* "0s", "0ms", ... : a zero-valued term with any of the units is accepted and adds nothing *)
  Theorem zero_duration_term_accepted : forall p t x u (units : string),
    In units ["s"; "ms"; "us"; s_micro; "ns"; "min"; "h"; ""] ->
    conv "0" = CVal x -> unit_of units = Some u -> ticks p u x = TOk 0%Z ->
    parse_dur (S (S (String.length units))) p (String "0"%char units) t = (t, None).
  Proof.
    intros p t x u units Hin Hc Hu Ht. simpl in Hin.
    repeat (destruct Hin as [<-|Hin]; [
      rewrite (parse_dur_term _ p _ t 1 x u 0%Z);
        [rewrite Z.add_0_r; reflexivity | discriminate | reflexivity | reflexivity | exact Hc | exact Hu | exact Ht] |]).
    contradiction.
  Qed.

  (* ---------------------------------------------------------------- set_params *)
  Definition opt_prefix (kv : string) : string := fst (split_at ch_dot (fst (split_at ch_eq kv))).
  Definition opt_key (kv : string) : string := snd (split_at ch_dot (fst (split_at ch_eq kv))).
  Definition opt_value (kv : string) : string := snd (split_at ch_eq kv).

  Lemma set_params_cons : forall sch v prefix kv rest used i,
    set_params sch v prefix (kv :: rest) used i =
    if negb (opt_prefix kv =? prefix) then set_params sch v prefix rest used (S i)
    else let (v', e) := set_param sch v (opt_key kv) (opt_value kv) in
         match e with
         | Some er => (v', incr_nth i used, Some (i, er))
         | None => set_params sch v' prefix rest (incr_nth i used) (S i)
         end.
  Proof.
    intros. unfold opt_prefix, opt_key, opt_value. simpl.
    destruct (split_at ch_eq kv) as [key val]. simpl.
    destruct (split_at ch_dot key) as [pfx rem]. simpl. reflexivity.
  Qed.

  Theorem other_prefix_ignored : forall sch prefix opts v used i,
    (forall kv, In kv opts -> opt_prefix kv <> prefix) ->
    set_params sch v prefix opts used i = (v, used, None).
  Proof.
    induction opts as [|kv rest IH]; intros; [reflexivity|].
    rewrite set_params_cons.
    destruct (opt_prefix kv =? prefix) eqn:E.
    - apply String.eqb_eq in E. exfalso. eapply H; eauto. now left.
    - simpl. apply IH. intros. apply H. now right.
  Qed.

  Lemma nth_incr_nth : forall i l j, nth j (incr_nth i l) 0 = nth j l 0 + (if Nat.eqb j i && Nat.ltb i (length l) then 1 else 0).
  Proof.
    induction i; destruct l; intros j; destruct j; simpl; rewrite ?andb_false_r; try lia.
    rewrite IHi. reflexivity.
  Qed.
  Lemma incr_nth_length : forall i l, length (incr_nth i l) = length l.
  Proof. induction i; destruct l; simpl; auto. Qed.

  (* USED: after a run without exception, slot j (i <= j) has been incremented exactly when option j-i carries the prefix *)
  Theorem used_counts : forall sch prefix opts v used i v' used',
    set_params sch v prefix opts used i = (v', used', None) ->
    i + length opts <= length used ->
    length used' = length used /\
    forall j, nth j used' 0 = nth j used 0 +
              (match nth_error opts (j - i) with
               | Some kv => if Nat.leb i j && (opt_prefix kv =? prefix) then 1 else 0
               | None => 0
               end).
  Proof.
    induction opts as [|kv rest IH]; intros v used i v' used' H L.
    - inversion H; subst. split; auto. intros. destruct (j - i); simpl; lia.
    - rewrite set_params_cons in H. simpl in L.
      destruct (opt_prefix kv =? prefix) eqn:E; simpl in H.
      + destruct (set_param sch v (opt_key kv) (opt_value kv)) as [v1 [er|]]; [discriminate|].
        apply IH in H; [|rewrite incr_nth_length; lia].
        destruct H as [Hl Hn]. rewrite incr_nth_length in Hl. split; auto.
        intros j. rewrite Hn, nth_incr_nth.
        destruct (Nat.eq_dec j i) as [->|N].
        * rewrite Nat.eqb_refl. replace (Nat.ltb i (length used)) with true by (symmetry; apply Nat.ltb_lt; lia).
          replace (i - S i) with 0 by lia. replace (i - i) with 0 by lia.
          replace (Nat.leb (S i) i) with false by (symmetry; apply Nat.leb_gt; lia).
          rewrite Nat.leb_refl. cbn [nth_error andb]. rewrite E. destruct rest; cbn [nth_error andb]; lia.
        * replace (Nat.eqb j i) with false by (symmetry; now apply Nat.eqb_neq). cbn [andb].
          destruct (Nat.leb (S i) j) eqn:Lj.
          -- apply Nat.leb_le in Lj. replace (j - i) with (S (j - S i)) by lia. cbn [nth_error].
             replace (Nat.leb i j) with true by (symmetry; apply Nat.leb_le; lia). lia.
          -- apply Nat.leb_gt in Lj. replace (j - i) with 0 by lia. replace (j - S i) with 0 by lia. cbn [nth_error].
             replace (Nat.leb i j) with false by (symmetry; apply Nat.leb_gt; lia). cbn [andb].
             destruct rest; cbn [nth_error andb]; lia.
      + apply IH in H; [|lia]. destruct H as [Hl Hn]. split; auto.
        intros j. rewrite Hn.
        destruct (Nat.leb (S i) j) eqn:Lj.
        * apply Nat.leb_le in Lj. replace (j - i) with (S (j - S i)) by lia. cbn [nth_error].
          replace (Nat.leb i j) with true by (symmetry; apply Nat.leb_le; lia). reflexivity.
        * apply Nat.leb_gt in Lj. replace (j - S i) with 0 by lia.
          destruct (Nat.eq_dec j i) as [->|N].
          -- replace (i - i) with 0 by lia. cbn [nth_error]. rewrite E, andb_false_r.
             destruct rest; cbn [nth_error andb]; lia.
          -- replace (j - i) with 0 by lia. cbn [nth_error].
             replace (Nat.leb i j) with false by (symmetry; apply Nat.leb_gt; lia). cbn [andb].
             destruct rest; cbn [nth_error andb]; lia.
  Qed.

  (* FRAME for a whole option list: a position q that no matching option addresses is untouched, return or throw *)
  Theorem set_params_frame : forall sch prefix q opts v used i v' used' r,
    set_params sch v prefix opts used i = (v', used', r) ->
    (forall kv, In kv opts -> opt_prefix kv = prefix ->
       match resolve sch (opt_key kv) with Some (p, _) => disjoint p q | None => True end) ->
    get v' q = get v q.
  Proof.
    induction opts as [|kv rest IH]; intros v used i v' used' r H D.
    - now inversion H.
    - rewrite set_params_cons in H.
      destruct (opt_prefix kv =? prefix) eqn:E; simpl in H.
      + apply String.eqb_eq in E.
        destruct (set_param sch v (opt_key kv) (opt_value kv)) as [v1 e] eqn:S1.
        assert (G : get v1 q = get v q).
        { pose proof (set_param_frame _ _ _ _ _ _ S1) as Fr.
          specialize (D kv (or_introl eq_refl) E).
          destruct (resolve sch (opt_key kv)) as [[p t]|]; [now apply Fr|now subst]. }
        destruct e as [er|].
        * inversion H; subst. exact G.
        * rewrite <- G. eapply IH; eauto. intros. apply D; auto. now right.
      + eapply IH; eauto. intros. apply D; auto. now right.
  Qed.
  (* a rejected option: the structure is exactly what the options before it (all accepted or skipped) made of it *)
  Theorem set_params_rejected_unchanged : forall sch prefix opts v used i v' used' j er,
    set_params sch v prefix opts used i = (v', used', Some (j, er)) ->
    exists k used0, j = i + k /\ k < length opts /\
      set_params sch v prefix (firstn k opts) used i = (v', used0, None) /\ used' = incr_nth j used0.
  Proof.
    induction opts as [|kv rest IH]; intros v used i v' used' j er H; [discriminate|].
    rewrite set_params_cons in H.
    destruct (opt_prefix kv =? prefix) eqn:E; simpl in H.
    - destruct (set_param sch v (opt_key kv) (opt_value kv)) as [v1 [e1|]] eqn:S1.
      + inversion H; subst. apply rejected_leaves_unchanged in S1. subst.
        exists 0, used. simpl. split; [lia|]. split; [lia|]. split; [reflexivity|f_equal; lia].
      + destruct (IH _ _ _ _ _ _ _ H) as (k & u0 & -> & Hk & Hs & ->).
        exists (S k), u0. simpl length. split; [lia|]. split; [lia|]. split; [|f_equal; lia].
        cbn [firstn]. rewrite set_params_cons, E. simpl. rewrite S1. exact Hs.
    - destruct (IH _ _ _ _ _ _ _ H) as (k & u0 & -> & Hk & Hs & ->).
      exists (S k), u0. simpl length. split; [lia|]. split; [lia|]. split; [|f_equal; lia].
      cbn [firstn]. rewrite set_params_cons, E. simpl. exact Hs.
  Qed.

  (* vectors *)
  Theorem vec_subkey_rejected : forall (old : list F) key val,
    key <> "" -> set_vec conv old key val = (old, Some EIndexScalar).
  Proof.
    intros. unfold set_vec. destruct (key =? "") eqn:K; [apply String.eqb_eq in K; contradiction|]. reflexivity.
  Qed.
  Theorem vec_rejected_unchanged : forall (old v' : list F) key val er,
    set_vec conv old key val = (v', Some er) -> v' = old.
  Proof.
    intros old v' key val er H. unfold set_vec in H.
    destruct (negb (key =? "")); [now inversion H|].
    destruct (set_vec_elems F conv (S (count_char ch_comma val)) val []) as [xs [e|]]; [now inversion H|discriminate].
  Qed.
End Proofs.

(* ------------------------------------------------------------------ numbers are read exactly (positional decimal) *)
Definition dchar (d : nat) : ascii := ascii_of_nat (48 + d).
Fixpoint dstr (ds : list nat) : string := match ds with [] => EmptyString | d :: r => String (dchar d) (dstr r) end.
Definition dval (ds : list nat) : Z := fold_left (fun a d => (10 * a + Z.of_nat d)%Z) ds 0%Z.

Lemma dchar_digit : forall d, d < 10 -> is_digit (dchar d) = true /\ digit_val (dchar d) = Z.of_nat d /\ Ascii.eqb (dchar d) "-"%char = false.
Proof. intros d H. do 10 (destruct d as [|d]; [vm_compute; auto|]). lia. Qed.

Lemma dstr_scan : forall ds, Forall (fun d => d < 10) ds ->
  count_while is_digit (dstr ds) = length ds /\ stake (length ds) (dstr ds) = dstr ds /\ sdrop (length ds) (dstr ds) = EmptyString.
Proof.
  induction 1 as [|d ds Hd Hf IH]; [simpl; auto|].
  cbn [dstr length count_while stake sdrop].
  destruct (dchar_digit _ Hd) as (-> & _ & _). destruct IH as (-> & -> & ->). auto.
Qed.
Lemma digits_val_dstr : forall ds acc, Forall (fun d => d < 10) ds ->
  digits_val acc (dstr ds) = fold_left (fun a d => (10 * a + Z.of_nat d)%Z) ds acc.
Proof.
  induction ds as [|d ds IH]; intros acc H; [reflexivity|]. inversion H; subst.
  cbn [dstr digits_val fold_left].
  destruct (dchar_digit _ H2) as (_ & -> & _). now apply IH.
Qed.

Lemma scan_int_dstr : forall lo hi ds,
  ds <> [] -> Forall (fun d => d < 10) ds -> (lo <= dval ds <= hi)%Z ->
  scan_int lo hi (dstr ds) = IVal (dval ds) EmptyString.
Proof.
  intros lo hi ds Hne Hd Hr. unfold scan_int.
  destruct ds as [|d ds]; [contradiction|].
  assert (Hd0 : d < 10) by now inversion Hd.
  destruct (dchar_digit _ Hd0) as (_ & _ & Hm).
  destruct (dstr_scan _ Hd) as (Hc & Ht & Hs).
  replace (match dstr (d :: ds) with String a _ => Ascii.eqb a "-"%char && (lo <? 0)%Z | EmptyString => false end) with false
    by (cbn [dstr]; now rewrite Hm).
  cbv iota. rewrite Hc, Ht, Hs. cbn [length Nat.eqb].
  rewrite digits_val_dstr by auto. fold (dval (d :: ds)).
  replace ((lo <=? dval (d :: ds))%Z && (dval (d :: ds) <=? hi)%Z) with true
    by (symmetry; apply andb_true_iff; split; apply Z.leb_le; lia).
  reflexivity.
Qed.

Lemma scan_int_neg_dstr : forall lo hi ds,
  ds <> [] -> Forall (fun d => d < 10) ds -> (lo < 0)%Z -> (lo <= - dval ds <= hi)%Z ->
  scan_int lo hi (String "-"%char (dstr ds)) = IVal (- dval ds) EmptyString.
Proof.
  intros lo hi ds Hne Hd Hlo Hr. unfold scan_int.
  destruct (dstr_scan _ Hd) as (Hc & Ht & Hs).
  replace (Ascii.eqb "-"%char "-"%char && (lo <? 0)%Z) with true
    by (symmetry; apply andb_true_iff; split; [reflexivity|apply Z.ltb_lt; lia]).
  cbv iota. cbn [sdrop]. rewrite Hc, Ht, Hs.
  destruct ds as [|d ds]; [contradiction|]. cbn [length Nat.eqb].
  rewrite digits_val_dstr by auto. fold (dval (d :: ds)).
  replace ((lo <=? - dval (d :: ds))%Z && (- dval (d :: ds) <=? hi)%Z) with true
    by (symmetry; apply andb_true_iff; split; apply Z.leb_le; lia).
  reflexivity.
Qed.

Section Exact.
  Variable F : Type.
  Variable conv : string -> convres F.
  Variable ticks : nat -> nat -> F -> tickres.

  (* an in-range decimal digit string d1...dn is stored as the integer sum d_i 10^(n-i), nothing is thrown *)
  Theorem int_read_exactly : forall lo hi (old : leafval F) ds,
    ds <> [] -> Forall (fun d => d < 10) ds -> (lo <= dval ds <= hi)%Z ->
    set_leaf conv ticks (LInt lo hi) old "" (dstr ds) = (VInt (dval ds), None).
  Proof.
    intros. unfold set_leaf. cbn [String.eqb negb]. cbv iota.
    rewrite scan_int_dstr by auto. reflexivity.
  Qed.

  Theorem negative_int_read_exactly : forall lo hi (old : leafval F) ds,
    ds <> [] -> Forall (fun d => d < 10) ds -> (lo < 0)%Z -> (lo <= - dval ds <= hi)%Z ->
    set_leaf conv ticks (LInt lo hi) old "" (String "-"%char (dstr ds)) = (VInt (- dval ds), None).
  Proof.
    intros. unfold set_leaf. cbn [String.eqb negb]. cbv iota.
    rewrite scan_int_neg_dstr by auto. reflexivity.
  Qed.
End Exact.

(* ------------------------------------------------------------------ a tiny executable instance for the non-vacuity examples *)
(* reals are whole numbers, conv reads decimal digits, ticks = x * unit / period *)
Definition convZ (s : string) : convres Z :=
  if Nat.eqb (count_while is_digit s) (String.length s) && negb (s =? "") then CVal (digits_val 0 s) else CMissing.
Definition ticksZ (p u : nat) (x : Z) : tickres := TOk (x * nth u unit_ns 1 / nth p unit_ns 1)%Z.
