(* PanocLiveKkt.v — liveness of the whole-loop PANOC model for an ABSTRACT stopping criterion (any criterion whose ε is below the
   tolerance as soon as ‖p‖² <= δ², δ > 0), and its instance for the DEFAULT criterion ApproxKKT under a Lipschitz hypothesis on ∇ψ:
      ε = ‖p/γ + ∇ψ(x) - ∇ψ(x̂)‖∞ <= (1/γmin + Lg)·‖p‖₂.
   The problem-level lemmas, the line-search invariant and the pass shapes are those of PanocLive.v; only the loop part is redone with
   the iterate of the stop check (which carries ∇ψ(x̂) when the criterion needs it) in place of st_curr. *)
From Coq Require Import Reals List ZArith Lra Lia Bool Arith Psatz.
From Flocq Require Import Raux.
From Alpaqa Require Import Num NumR Vec Prox ProxProofs ProxVec SolverStatus SolverKernels SolverKernelsProofs DescentProofs
                           StopChain StopChainProofs LoopSkeleton KktProofs Panoc PanocProofs LiveVec PanocLive.
Import ListNotations.
Local Open Scope R_scope.

(* ---------- componentwise bounds ---------- *)
Lemma components_le_of_sq (v : list R) (t : R) : 0 <= t -> vsqnorm v <= t * t -> Forall (fun x => Rabs x <= t) v.
Proof.
  intros Ht Hs. apply Forall_forall. intros x Hx. pose proof (vsqnorm_ge_component v x Hx) as Hc.
  assert (Hx2 : Rabs x * Rabs x <= t * t).
  { replace (Rabs x * Rabs x) with (x * x); [lra|]. unfold Rabs; destruct (Rcase_abs x); ring. }
  pose proof (Rabs_pos x). nra.
Qed.
Lemma residual_components (c s r : R) : 0 <= c -> forall (p D : list R),
  Forall (fun x => Rabs x <= s) p -> Forall (fun x => Rabs x <= r) D ->
  Forall (fun x => Rabs x <= c * s + r) (vadd (vscale c p) D).
Proof.
  intros Hc. induction p as [|a p IH]; intros [|b D] Hp HD; cbn; try constructor.
  - inversion Hp; inversion HD; subst. change (Rabs (c * a + b) <= c * s + r).
    eapply Rle_trans; [apply Rabs_triang|]. rewrite Rabs_mult, (Rabs_pos_eq c Hc).
    assert (c * Rabs a <= c * s) by (apply Rmult_le_compat_l; assumption). lra.
  - inversion Hp; inversion HD; subst. now apply IH.
Qed.

(* discharge the leading non-dependent premises of H from the context *)
Ltac spec H := repeat match type of H with ?A -> _ => let a := fresh in assert (a : A) by assumption; specialize (H a); clear a end.

Section LiveGen.
  Variable psi_grad_full : list R -> R * list R * list R.
  Variable psi_yhat : list R -> R * list R.
  Variable grad_L : list R -> list R -> list R.
  Variable grad_psi : list R -> list R.
  Variables (lb ub : list (option R)).
  Variable dir_apply : nat -> iterate (T:=R) -> option (list R).      (* ARBITRARY *)
  Variable has_initial : bool.
  Variable P : params (T:=R).
  Variables (x_in y_in Σ errz_in : list R).
  Variable ls_fuel : nat.

  Notation l1 := (@nil R).
  Notation never := (fun _ : counters => false).
  Notation PP f := (f psi_grad_full psi_yhat grad_L grad_psi lb ub l1 dir_apply has_initial never never P x_in y_in Σ errz_in ls_fuel).
  Notation PL f := (f psi_grad_full psi_yhat grad_L grad_psi lb ub dir_apply has_initial P x_in y_in Σ errz_in ls_fuel).

  Notation it := (iterate (T:=R)).
  Notation lsloop := (ls_loop psi_grad_full psi_yhat grad_L grad_psi lb ub l1 never P).
  Notation pass_ := (pass psi_grad_full psi_yhat grad_L grad_psi lb ub l1 dir_apply has_initial never never P x_in y_in Σ errz_in ls_fuel).
  Notation loop_ := (loop psi_grad_full psi_yhat grad_L grad_psi lb ub l1 dir_apply has_initial never never P x_in y_in Σ errz_in ls_fuel).
  Notation panoc_ := (panoc psi_grad_full psi_yhat grad_L grad_psi lb ub l1 dir_apply has_initial never never P x_in y_in Σ errz_in ls_fuel).
  Notation pgrad := (psi_grad psi_grad_full).
  Notation eps_of := (it_eps lb ub l1 P).
  Notation Consistent := (consistent psi_grad_full psi_yhat grad_L grad_psi lb ub l1 P).
  Notation Glrel0 := (glrel0 psi_grad_full grad_psi P x_in).
  Notation Linit := (L_init psi_grad_full grad_psi P x_in).
  Notation Inv_ := (Inv psi_grad_full psi_yhat grad_L grad_psi lb ub l1 P x_in).
  Notation check_it := (check_iterate grad_L grad_psi P).

  Variables (ψ : list R -> R) (g : list R -> list R) (n : nat) (Lf ψinf : R).
  Hypothesis Hpsi : forall x, pgrad x = (ψ x, g x).
  Hypothesis Hco : coherent psi_grad_full psi_yhat grad_L grad_psi P.
  Hypothesis Hglen : forall x, length x = n -> length (g x) = n.
  Hypothesis Hqub : forall u d, length u = n -> length d = n ->
    ψ (vadd u d) <= ψ u + vdot (g u) d + Lf / 2 * vsqnorm d.
  Hypothesis Hinf : forall z, all_in_box lb ub z -> ψinf <= ψ z.
  Hypothesis Hlb : length lb = n.
  Hypothesis Hub : length ub = n.
  Hypothesis Hne : Forall2 box_ne lb ub.
  Hypothesis Hxin : length x_in = n.
  Hypothesis Hdir : forall j i q, dir_apply j i = Some q -> length q = n.
  Hypothesis HLg : 0 < p_Lgamma P < 1.
  Hypothesis HL0 : 0 < Linit.
  Hypothesis HLmax : Lf <= p_Lmax P.
  Hypothesis Hqt : p_qub_tol P = 0.
  Hypothesis Hlt : p_ls_tol P = 0.
  Hypothesis Hbeta : 0 < p_beta P <= 1.
  Hypothesis Hforce : p_force_ls P = false.
  Variables (nL nT : nat).
  Hypothesis HnL : p_Lmax P <= Linit * 2 ^ nL.
  Hypothesis Hfac : 0 <= p_tau_factor P <= 1.
  Hypothesis Hmin : p_tau_factor P ^ nT < p_tau_min P.
  Hypothesis Hfuel : (ls_pass_bound nL nT <= ls_fuel)%nat.

  Notation Lbar := (Lbar psi_grad_full grad_psi P x_in Lf).
  Notation gam0 := (gam0 psi_grad_full grad_psi P x_in).
  Notation gam_min := (gam_min psi_grad_full grad_psi P x_in Lf).
  Notation cmin := (cmin psi_grad_full grad_psi P x_in).
  Notation tol := (tol P).
  Notation Phi0 := (Phi0 psi_grad_full grad_psi lb ub P x_in ψ g Lf).
  Notation facts := (facts lb ub ψ g n).
  Notation good := (good psi_grad_full grad_psi lb ub P x_in ψ g n Lf).
  Notation status_of s := (stop_status_helpers (o_tol P) (eps_of (check_it s)) false (st_k s) (p_max_iter P) (st_np s) (p_max_no_progress P) false).

  (* ---- the abstract stopping criterion *)
  Variable δ : R.
  Hypothesis Hδ : 0 < δ.
  Hypothesis Heps : forall i, Consistent i -> (need_gradh P = true -> ihave i = true) -> good i -> ipp i <= δ * δ -> eps_of i <= tol.

  Definition decg : R := cmin * (δ * δ).
  Lemma cmin_pos' : 0 < cmin. Proof. now apply cmin_pos. Qed.
  Lemma decg_pos : 0 < decg.
  Proof. unfold decg. pose proof cmin_pos'. apply Rmult_lt_0_compat; [assumption|now apply Rmult_lt_0_compat]. Qed.

  Variable Φ0 : R.
  Variable N : nat.
  Hypothesis HN : Φ0 - ψinf < INR N * decg.
  Hypothesis HNmax : (N <= p_max_iter P)%nat.
  Hypothesis HPhi : Phi0 <= Φ0.

  Record LInvG (s : lstate (T:=R)) : Prop := {
    lg_inv : Inv_ s;
    lg_good : good (st_curr s);
    lg_np : st_np s = 0%nat;
    lg_pot : it_fbe (st_curr s) + INR (st_k s) * decg <= Φ0 }.

  Lemma LInvG_k s : LInvG s -> (st_k s < N)%nat.
  Proof.
    intros [_ G _ Hp]. pose proof (PL good_gam ψ g n Lf) as Hgg. spec Hgg. destruct (Hgg _ G) as (Hg & Hpr & _).
    pose proof (good_nv psi_grad_full grad_psi lb ub P x_in ψ g n Lf) as Hnv. spec Hnv. specialize (Hnv _ G).
    pose proof (fbe_lower lb ub P ψ g n ψinf) as Hlow. spec Hlow. specialize (Hlow (st_curr s) (g_facts _ _ _ _ _ _ _ _ _ _ _ G) Hnv Hg Hpr).
    pose proof decg_pos as Hd. apply INR_lt.
    assert (INR (st_k s) * decg < INR N * decg) by lra. nra.
  Qed.

  Lemma facts_core (a b : it) : core a = core b -> facts a -> facts b.
  Proof.
    intros E F. apply (PP core_fields) in E. destruct E as (E1 & E2 & E3 & E4 & E5 & E6 & E7 & E8 & E9 & E10 & E11 & E12).
    destruct F. constructor; rewrite <- ?E1, <- ?E2, <- ?E3, <- ?E4, <- ?E6, <- ?E7, <- ?E8, <- ?E10, <- ?E11, <- ?E12; assumption.
  Qed.
  Lemma good_core (a b : it) : core a = core b -> good a -> good b.
  Proof.
    intros E [F Q Gl Ln L]. constructor.
    - now apply (facts_core a).
    - now apply (PP qub_ok_core a).
    - now apply (PP glrel0_core a).
    - apply (PP core_fields) in E. destruct E as (E1 & _). now rewrite <- E1.
    - apply (PP core_fields) in E. destruct E as (_ & _ & _ & _ & _ & _ & _ & _ & E9 & _). now rewrite <- E9.
  Qed.
  Lemma check_it_core s : core (check_it s) = core (st_curr s).
  Proof. unfold check_iterate. destruct (need_gradh P && negb (ihave (st_curr s))); reflexivity. Qed.

  Lemma pass_exit_x s o : pass_ s = PExit o -> out_status o = StConverged ->
    out_x o = ixh (check_it s) /\ out_eps o = eps_of (check_it s).
  Proof.
    unfold pass. cbv zeta. fold (check_it s). fold (eps_of (check_it s)).
    destruct (status_of s) eqn:Est.
    1: match goal with |- context [match ?X with LsDone _ => _ | LsStopped _ => _ | LsFuel => PFuel end] => destruct X end; discriminate.
    2-7: match goal with |- context [exit_block ?a ?b ?c ?d ?e ?f ?g ?h] => destruct (exit_block a b c d e f g h) as [[xo yo] eo] end;
         intros E; inversion E; cbn [out_status]; discriminate.
    unfold exit_block. cbn [overwrites andb].
    intros E Hs. inversion E. cbn [out_x out_eps]. split; [|reflexivity].
    destruct (p_eager P); reflexivity.
  Qed.

  (* what is known about the iterate of the final stop check *)
  Definition final_ok (o : outputs (T:=R)) : Prop :=
    exists cf : it, Consistent cf /\ (need_gradh P = true -> ihave cf = true) /\ good cf /\ out_x o = ixh cf /\ out_eps o = eps_of cf.

  Lemma pass_live_g s : LInvG s ->
    (exists o, pass_ s = PExit o /\ out_status o = StConverged /\ out_iterations o = st_k s /\ final_ok o) \/
    (exists s', pass_ s = PCont s' /\ LInvG s' /\ st_k s' = S (st_k s)).
  Proof.
    intros HI. pose proof (LInvG_k s HI) as Hk. destruct HI as [Hinv G Hnp Hpot].
    assert (Hkm : st_k s <> p_max_iter P) by lia.
    pose proof (PP pass_inv s Hinv) as Hpi.
    pose proof (PP pass_never_out_of_fuel nL nT s Hinv HL0 HnL Hfac Hmin Hfuel) as Hnf.
    destruct (PP check_iterate_consistent s Hinv) as (Cc & _ & _ & Chave).
    pose proof (check_it_core s) as Eco.
    assert (G0 : good (check_it s)) by (apply (good_core (st_curr s)); [now symmetry|exact G]).
    assert (Efbe : it_fbe (check_it s) = it_fbe (st_curr s)) by (now apply (PP fbe_core)).
    destruct (pass_ s) as [o|s'|] eqn:Ep; [| |exfalso; now apply Hnf].
    - left. exists o. destruct (pass_exit_shape psi_grad_full psi_yhat grad_L grad_psi lb ub dir_apply has_initial P x_in y_in Σ errz_in ls_fuel s o Ep) as (E1 & E2 & E3).
      assert (Hst : out_status o = StConverged).
      { rewrite E1. destruct (status_cases grad_L grad_psi lb ub P s Hkm Hnp) as [Ec|[Eb _]]; [exact Ec|contradiction]. }
      split; [reflexivity|]. split; [exact Hst|]. split; [exact E2|].
      destruct (pass_exit_x s o Ep Hst) as [Ex Ee]. exists (check_it s). repeat (split; [assumption|]). exact Ee.
    - right. exists s'. split; [reflexivity|].
      destruct (PL pass_cont_shape n Hdir s s' Ep) as (Eb & q & τi & upd & c & st & l & Hτ & Hq & Hls). cbv zeta in Hls.
      destruct (status_cases grad_L grad_psi lb ub P s Hkm Hnp) as [Ec|[_ Hepsb]]; [rewrite Ec in Eb; discriminate|].
      set (c0 := check_it s) in *.
      assert (Hpp : δ * δ < ipp c0).
      { destruct (Rlt_le_dec (δ * δ) (ipp c0)) as [Hlt1|Hle]; [exact Hlt1|]. pose proof (Heps c0 Cc Chave G0 Hle). lra. }
      set (ls0 := mkLs c0 (set_gamma_L (st_next s) (igam c0) (iL c0)) τi (- 1) upd false c st) in *.
      assert (HI2 : LsI2 psi_grad_full psi_yhat grad_L grad_psi lb ub P x_in n Lf c0 τi ls0).
      { constructor; [constructor|..]; cbn [ls_curr ls_next ls_tau ls_tau_prev ls0].
        - exact Cc.
        - reflexivity.
        - exists 0%nat. reflexivity.
        - intros E. exfalso. destruct Hτ; lra.
        - unfold set_gamma_L. cbn [iL]. apply G0.
        - intros E. exfalso. destruct Hτ; lra.
        - trivial.
        - destruct Hτ; lra. }
      destruct Hfac as [Hfac0 Hfac1].
      pose proof (g_len _ _ _ _ _ _ _ _ _ _ c0 G0) as Hlen0. pose proof (g_L _ _ _ _ _ _ _ _ _ _ c0 G0) as HL0c.
      assert (Hτnn : 0 <= τi) by (destruct Hτ; lra).
      pose proof (PL ls_invariant2 ψ g n Lf) as Hpost. spec Hpost. specialize (Hpost c0 q τi). spec Hpost. specialize (Hpost ls_fuel ls0 HI2).
      destruct Hls as [El|(El & Ec & Ek & Enp)]; rewrite El in Hpost; [contradiction|].
      destruct Hpost as (Lp & HLn & Hlen & Hnn).
      pose proof (PL iteration_descent ψ g n Lf) as Hd. spec Hd. specialize (Hd c0 l G0 Lp Hlen Hnn).
      pose proof cmin_pos' as Hcm.
      split; [|exact Ek]. constructor.
      + exact Hpi.
      + rewrite Ec. pose proof (PL iteration_good ψ g n Lf) as Hg'. spec Hg'. now apply (Hg' c0).
      + rewrite Enp, Hnp.
        destruct (veqb (ix (ls_curr l)) (ix (ls_next l))) eqn:Es; [|apply np_stays_zero].
        exfalso.
        pose proof (PL same_x_forces_zero_step ψ g n Lf) as Hz. spec Hz. specialize (Hz c0 l G0 Lp Hlen Hnn Es). nra.
      + rewrite Ec, Ek, S_INR. rewrite Efbe in Hd. unfold decg in *. nra.
  Qed.

  Lemma loop_live_g : forall fuel s, LInvG s -> (N < fuel + st_k s)%nat ->
    exists o, loop_ fuel s = Done o /\ out_status o = StConverged /\ (out_iterations o < N)%nat /\ final_ok o.
  Proof.
    induction fuel as [|fuel IH]; intros s HI Hf; pose proof (LInvG_k s HI) as Hk; [lia|].
    cbn [loop]. destruct (pass_live_g s HI) as [(o & Ep & Es & Ei & Efin)|(s' & Ep & HI' & Ek)]; rewrite Ep.
    - exists o. split; [reflexivity|]. split; [exact Es|]. split; [lia|exact Efin].
    - apply IH; [exact HI'|lia].
  Qed.

  Theorem panoc_live_g fuel : (N < fuel)%nat ->
    exists o, panoc_ fuel = Done o /\ out_status o = StConverged /\ (out_iterations o < N)%nat /\ final_ok o.
  Proof.
    intros Hf. unfold panoc.
    destruct (init_L psi_grad_full grad_psi P x_in) as [i0 c0] eqn:E0.
    cbn [nfinite NumR negb]. change (@ndiv R NumR) with Rdiv. fold (first_iterate psi_grad_full psi_yhat lb ub l1 P i0).
    set (i2 := first_iterate psi_grad_full psi_yhat lb ub l1 P i0).
    assert (HLi : Linit = iL i0) by (unfold L_init; now rewrite E0).
    assert (Hx0 : ix i0 = x_in) by (pose proof (PP init_L_x) as Hx; now rewrite E0 in Hx).
    pose proof (PP init_L_cons_x) as Hcx. rewrite E0 in Hcx. cbn [fst] in Hcx.
    set (i1 := set_gamma_L i0 (p_Lgamma P / iL i0) (iL i0)).
    destruct (PP eprox_cons i1 Hcx) as [A B].
    assert (Hc2 : Consistent i2) by (apply (PP epsih_cons); assumption).
    destruct (PP epsih_fields (eval_prox lb ub l1 i1)) as (F1 & _ & _ & _ & _ & F6 & F7 & _).
    assert (Hgl2 : gl_of i2 = halve_n 0 (gl0 psi_grad_full grad_psi P x_in)).
    { cbn [halve_n]. unfold gl_of, gl0, i2, first_iterate. fold i1. rewrite F6, F7, HLi. reflexivity. }
    assert (Hx2 : ix i2 = x_in) by (unfold i2, first_iterate; fold i1; rewrite F1; exact Hx0).
    assert (HL2 : iL i2 <= Lbar).
    { unfold i2, first_iterate. fold i1. rewrite F7. change (iL (eval_prox lb ub l1 i1)) with (iL i0). rewrite <- HLi. apply Rmax_l. }
    pose proof (PL init_qub_live ψ g n Lf) as Hiq. spec Hiq. specialize (Hiq nL nT). spec Hiq. specialize (Hiq N). spec Hiq.
    destruct (Hiq ls_fuel i2 (cnt_psih P c0) stats0 0%nat Hc2 Hgl2 Hx2 HL2) as (i3 & c1 & s1 & Eq & Hx3 & HL3).
    { unfold ls_pass_bound in Hfuel. nia. }
    rewrite Eq.
    pose proof (PP init_inv i0 c0 i3 c1 s1 E0 Eq) as Hinv.
    assert (G3 : good i3).
    { destruct Hinv as [Hc Hq Hgl _ _ _ _]. cbn [st_curr] in *. constructor; try assumption; [|now rewrite Hx3].
      pose proof (PL consistent_facts ψ g n) as Hcf. spec Hcf. apply Hcf; [exact Hc|now rewrite Hx3]. }
    apply loop_live_g; [|cbn [st_k]; lia].
    constructor; cbn [st_curr st_np st_k]; [exact Hinv|exact G3|reflexivity|].
    pose proof (PL fbe_le_Phi0 ψ g n Lf) as Hfp. spec Hfp. specialize (Hfp nL nT). spec Hfp. specialize (Hfp N). spec Hfp.
    specialize (Hfp i3 G3 Hx3). cbn [INR]. lra.
  Qed.
End LiveGen.

(* ====================================================================================================================
   instance: the default criterion ApproxKKT, ∇ψ Lipschitz with constant Lg (in the 2-norm)
   ==================================================================================================================== *)
Section LiveKkt.
  Variable psi_grad_full : list R -> R * list R * list R.
  Variable psi_yhat : list R -> R * list R.
  Variable grad_L : list R -> list R -> list R.
  Variable grad_psi : list R -> list R.
  Variables (lb ub : list (option R)).
  Variable dir_apply : nat -> iterate (T:=R) -> option (list R).
  Variable has_initial : bool.
  Variable P : params (T:=R).
  Variables (x_in y_in Σ errz_in : list R).
  Variable ls_fuel : nat.
  Notation l1 := (@nil R).
  Notation never := (fun _ : counters => false).
  Notation PP f := (f psi_grad_full psi_yhat grad_L grad_psi lb ub l1 dir_apply has_initial never never P x_in y_in Σ errz_in ls_fuel).
  Notation PL f := (f psi_grad_full psi_yhat grad_L grad_psi lb ub dir_apply has_initial P x_in y_in Σ errz_in ls_fuel).
  Notation panoc_ := (panoc psi_grad_full psi_yhat grad_L grad_psi lb ub l1 dir_apply has_initial never never P x_in y_in Σ errz_in ls_fuel).
  Notation pgrad := (psi_grad psi_grad_full).
  Notation Linit := (L_init psi_grad_full grad_psi P x_in).
  Variables (ψ : list R -> R) (g : list R -> list R) (n : nat) (Lf ψinf Lg : R).
  Hypothesis Hpsi : forall x, pgrad x = (ψ x, g x).
  Hypothesis Hco : coherent psi_grad_full psi_yhat grad_L grad_psi P.
  Hypothesis Hglen : forall x, length x = n -> length (g x) = n.
  Hypothesis Hqub : forall u d, length u = n -> length d = n ->
    ψ (vadd u d) <= ψ u + vdot (g u) d + Lf / 2 * vsqnorm d.
  Hypothesis Hlip : forall u d, length u = n -> length d = n ->
    vsqnorm (vsub (g u) (g (vadd u d))) <= Lg * Lg * vsqnorm d.
  Hypothesis HLg0 : 0 <= Lg.
  Hypothesis Hinf : forall z, all_in_box lb ub z -> ψinf <= ψ z.
  Hypothesis Hlb : length lb = n.
  Hypothesis Hub : length ub = n.
  Hypothesis Hne : Forall2 box_ne lb ub.
  Hypothesis Hxin : length x_in = n.
  Hypothesis Hdir : forall j i q, dir_apply j i = Some q -> length q = n.
  Hypothesis HLg : 0 < p_Lgamma P < 1.
  Hypothesis HL0 : 0 < Linit.
  Hypothesis HLmax : Lf <= p_Lmax P.
  Hypothesis Hqt : p_qub_tol P = 0.
  Hypothesis Hlt : p_ls_tol P = 0.
  Hypothesis Hbeta : 0 < p_beta P <= 1.
  Hypothesis Hforce : p_force_ls P = false.
  Hypothesis Hcrit : p_crit P = ApproxKKT.
  Variables (nL nT : nat).
  Hypothesis HnL : p_Lmax P <= Linit * 2 ^ nL.
  Hypothesis Hfac : 0 <= p_tau_factor P <= 1.
  Hypothesis Hmin : p_tau_factor P ^ nT < p_tau_min P.
  Hypothesis Hfuel : (ls_pass_bound nL nT <= ls_fuel)%nat.

  Notation gam_min := (gam_min psi_grad_full grad_psi P x_in Lf).
  Notation cmin := (cmin psi_grad_full grad_psi P x_in).
  Notation tol := (tol P).
  Notation Phi0 := (Phi0 psi_grad_full grad_psi lb ub P x_in ψ g Lf).
  Notation good := (good psi_grad_full grad_psi lb ub P x_in ψ g n Lf).

  (* ε <= (1/γmin + Lg)·‖p‖₂ : stop as soon as ‖p‖₂ <= δ_kkt *)
  Definition delta_kkt : R := tol / (/ gam_min + Lg).
  Definition dec_kkt : R := cmin * (delta_kkt * delta_kkt).

  Lemma kkt_den_pos : 0 < / gam_min + Lg.
  Proof. pose proof (gam_min_pos psi_grad_full grad_psi P x_in Lf HLg HL0) as H. apply Rinv_0_lt_compat in H. lra. Qed.
  Lemma delta_kkt_pos : 0 < delta_kkt.
  Proof. unfold delta_kkt. apply Rdiv_lt_0_compat; [apply tol_pos|apply kkt_den_pos]. Qed.

  Lemma eps_small_kkt i : consistent psi_grad_full psi_yhat grad_L grad_psi lb ub l1 P i -> (need_gradh P = true -> ihave i = true) -> good i ->
    ipp i <= delta_kkt * delta_kkt -> it_eps lb ub l1 P i <= tol.
  Proof.
    intros Hc Hhave G Hs. pose proof (g_facts _ _ _ _ _ _ _ _ _ _ i G) as F.
    pose proof (PL good_gam ψ g n Lf) as Hgg. spec Hgg. destruct (Hgg i G) as (Hg & _ & _ & Hm).
    pose proof (gam_min_pos psi_grad_full grad_psi P x_in Lf HLg HL0) as Hgm.
    pose proof delta_kkt_pos as Hd. pose proof kkt_den_pos as Hden.
    assert (Hh : ihave i = true) by (apply Hhave; unfold need_gradh; now rewrite Hcrit).
    destruct (PP consistent_coherent i Hco Hc) as [_ E2]. specialize (E2 Hh). rewrite Hpsi in E2. cbn [snd] in E2.
    unfold it_eps, crit_eps. rewrite Hcrit. unfold kkt_residual. change (@ndiv R NumR) with Rdiv. change (@n1 R NumR) with 1.
    rewrite (f_grad _ _ _ _ _ i F), E2, (f_xh _ _ _ _ _ i F).
    rewrite (f_pp _ _ _ _ _ i F) in Hs.
    pose proof (Hlip (ix i) (ip i) (g_len _ _ _ _ _ _ _ _ _ _ i G) (f_lenp _ _ _ _ _ i F)) as HD.
    set (D := vsub (g (ix i)) (g (vadd (ix i) (ip i)))) in *.
    pose proof (vsqnorm_nonneg (ip i)) as Hp0.
    assert (HD2 : vsqnorm D <= (Lg * delta_kkt) * (Lg * delta_kkt)).
    { assert (Lg * Lg * vsqnorm (ip i) <= Lg * Lg * (delta_kkt * delta_kkt)) by (apply Rmult_le_compat_l; [nra|exact Hs]). nra. }
    pose proof (components_le_of_sq (ip i) delta_kkt ltac:(lra) Hs) as Cp.
    pose proof (components_le_of_sq D (Lg * delta_kkt) ltac:(nra) HD2) as CD.
    assert (Hc1 : 0 <= 1 / igam i) by (apply Rlt_le, Rdiv_lt_0_compat; lra).
    pose proof (residual_components (1 / igam i) delta_kkt (Lg * delta_kkt) Hc1 (ip i) D Cp CD) as CR.
    assert (Hinv : 1 / igam i <= / gam_min) by (unfold Rdiv; rewrite Rmult_1_l; apply Rinv_le_contravar; lra).
    assert (Htot : 1 / igam i * delta_kkt + Lg * delta_kkt <= tol).
    { assert (E : delta_kkt * (/ gam_min + Lg) = tol) by (unfold delta_kkt, Rdiv; rewrite Rmult_assoc, Rinv_l by lra; ring).
      set (dk := delta_kkt) in *. set (ig := / gam_min) in *. clearbody dk ig. nra. }
    eapply Rle_trans; [|exact Htot]. apply vnorminf_le; [|exact CR]. nra.
  Qed.

  Theorem panoc_live_kkt_final (N fuel : nat) : Phi0 - ψinf < INR N * dec_kkt -> (N <= p_max_iter P)%nat -> (N < fuel)%nat ->
    exists o, panoc_ fuel = Done o /\ out_status o = StConverged /\ (out_iterations o < N)%nat /\
              final_ok psi_grad_full psi_yhat grad_L grad_psi lb ub P x_in ψ g n Lf o.
  Proof.
    intros HN Hmax Hf.
    pose proof (PL panoc_live_g ψ g n Lf ψinf) as X. spec X. specialize (X nL nT). spec X.
    specialize (X delta_kkt delta_kkt_pos eps_small_kkt Phi0 N HN Hmax (Rle_refl _) fuel Hf). exact X.
  Qed.
  Theorem panoc_live_kkt (N fuel : nat) : Phi0 - ψinf < INR N * dec_kkt -> (N <= p_max_iter P)%nat -> (N < fuel)%nat ->
    exists o, panoc_ fuel = Done o /\ out_status o = StConverged /\ (out_iterations o < N)%nat.
  Proof.
    intros HN Hmax Hf. destruct (panoc_live_kkt_final N fuel HN Hmax Hf) as (o & A & B & C & _). exists o. repeat split; assumption.
  Qed.
End LiveKkt.
