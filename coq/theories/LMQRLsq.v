(* LMQRLsq.v — exact-arithmetic theorems, part 2: orthonormality of Q for every history, solve_col is the
   least-squares minimiser (thresholded pivots: zero component + residual orthogonal to the kept Q columns),
   re-orthogonalisation needs at most one extra pass. *)
From Coq Require Import Reals List Arith Lia Lra Bool Psatz.
From Flocq Require Import Raux.
From Alpaqa Require Import Num NumR Vec LMQR LMQRRing LMQRAlg.
Import ListNotations.
Local Open Scope R_scope.

(* ------------------------------------------------------------------ inner products of length-n vectors *)
Definition dotf (n : nat) (f g : nat -> R) : R := sumf (fun t => f t * g t) n.
Definition dotn (n : nat) (a b : list R) : R := dotf n (getv a) (getv b).

Lemma sumf_swap (f : nat -> nat -> R) n k :
  sumf (fun t => sumf (fun i => f t i) k) n = sumf (fun i => sumf (fun t => f t i) n) k.
Proof.
  induction n; cbn [sumf].
  - rewrite sumf_zero. reflexivity.
  - rewrite IHn. rewrite (sumf_plus (fun i => sumf (fun t => f t i) n) (fun i => f n i)). reflexivity.
Qed.

Lemma dotf_sym n f g : dotf n f g = dotf n g f.
Proof. unfold dotf. apply sumf_ext. intros. ring. Qed.
Lemma dotf_ext_r n f g g' : (forall t, (t < n)%nat -> g t = g' t) -> dotf n f g = dotf n f g'.
Proof. intros H. unfold dotf. apply sumf_ext. intros. rewrite H; auto. Qed.
Lemma dotf_ext_l n f f' g : (forall t, (t < n)%nat -> f t = f' t) -> dotf n f g = dotf n f' g.
Proof. intros H. unfold dotf. apply sumf_ext. intros. rewrite H; auto. Qed.
Lemma dotf_sub_r n f g h : dotf n f (fun t => g t - h t) = dotf n f g - dotf n f h.
Proof. unfold dotf. induction n; simpl; try rewrite IHn; lra. Qed.
Lemma dotf_scal_r n f c g : dotf n f (fun t => c * g t) = c * dotf n f g.
Proof. unfold dotf. induction n; simpl; try rewrite IHn; lra. Qed.
Lemma dotf_nonneg n f : 0 <= dotf n f f.
Proof. unfold dotf. induction n; simpl; try lra. pose proof (Rle_0_sqr (f n)). unfold Rsqr in *. lra. Qed.
Lemma dotf_lincomb_r n w y (c : nat -> R) (Z : nat -> nat -> R) k :
  (forall t, (t < n)%nat -> y t = sumf (fun i => c i * Z i t) k) ->
  dotf n w y = sumf (fun i => c i * dotf n w (Z i)) k.
Proof.
  intros H. unfold dotf.
  rewrite (sumf_ext _ (fun t => sumf (fun i => c i * (w t * Z i t)) k)).
  - rewrite sumf_swap. apply sumf_ext. intros i _. apply sumf_scal.
  - intros t Ht. rewrite H by auto. rewrite <- sumf_scal. apply sumf_ext. intros. ring.
Qed.
Lemma dotf_square_sum n f g :
  dotf n (fun t => f t + g t) (fun t => f t + g t) = dotf n f f + 2 * dotf n f g + dotf n g g.
Proof. unfold dotf. induction n; simpl; try rewrite IHn; ring. Qed.
Lemma dotf_tri n (f g u v w1 w2 : nat -> R) a1 b1 c1 a2 b2 c2 :
  (forall t, f t = a1 * u t + b1 * v t + c1 * w1 t) -> (forall t, g t = a2 * u t + b2 * v t + c2 * w2 t) ->
  dotf n f g = a1 * a2 * dotf n u u + a1 * b2 * dotf n u v + a1 * c2 * dotf n u w2
             + b1 * a2 * dotf n v u + b1 * b2 * dotf n v v + b1 * c2 * dotf n v w2
             + c1 * a2 * dotf n w1 u + c1 * b2 * dotf n w1 v + c1 * c2 * dotf n w1 w2.
Proof. intros Hf Hg. unfold dotf. induction n; simpl; [ring|]. rewrite IHn, Hf, Hg. ring. Qed.

(* the model's left-fold dot product / norm are these sums *)
Lemma fold_left_Rplus (l : list R) x : fold_left Rplus l x = x + sumf (fun t => nth t l 0) (length l).
Proof.
  revert x; induction l; intros x; cbn [fold_left length].
  - simpl. lra.
  - rewrite IHl. rewrite sumf_shift. simpl. lra.
Qed.
Lemma vsum_sumf (v : list R) : vsum v = sumf (getv v) (length v).
Proof.
  unfold vsum, redux. destruct v as [|x l]; [reflexivity|].
  change (fold_left Rplus l x = sumf (getv (x :: l)) (S (length l))).
  rewrite fold_left_Rplus, sumf_shift. reflexivity.
Qed.
Lemma vdot_dotn n (a b : list R) : length a = n -> length b = n -> vdot a b = dotn n a b.
Proof.
  intros Ha Hb. unfold vdot. rewrite vsum_sumf. unfold vmul. rewrite map2_length, Ha, Hb, Nat.min_id.
  unfold dotn, dotf. apply sumf_ext. intros t _. rewrite getv_map2 by (numR; lia || lra). reflexivity.
Qed.
Lemma vnorm2_dotn n (v : list R) : length v = n -> vnorm2 v = sqrt (dotn n v v).
Proof.
  intros Hv. unfold vnorm2, vsqnorm. rewrite vsum_sumf, map_length, Hv. numR. f_equal.
  unfold dotn, dotf. apply sumf_ext. intros t _. rewrite getv_map by (numR; lra). reflexivity.
Qed.

(* ------------------------------------------------------------------ orthonormal Q *)
Definition Orth (n : nat) (st : qrst R) : Prop :=
  forall i j, (i < q_idx st)%nat -> (j < q_idx st)%nat ->
    dotn n (getc (Qs st) i) (getc (Qs st) j) = if Nat.eqb i j then 1 else 0.
Definition orthl (n : nat) (L : list (list R)) : Prop :=
  forall i j, (i < length L)%nat -> (j < length L)%nat ->
    dotn n (getc L i) (getc L j) = if Nat.eqb i j then 1 else 0.

Lemma orthl_tail n a L : orthl n (a :: L) -> orthl n L.
Proof. intros H i j Hi Hj. apply (H (S i) (S j)); simpl; lia. Qed.

(* one Gram-Schmidt pass over an orthonormal list leaves a vector orthogonal to every element of the list *)
Lemma mgs_orth n : forall Qc q, Forall (fun c => length c = n) Qc -> length q = n -> orthl n Qc ->
  forall j, (j < length Qc)%nat -> dotn n (getc Qc j) (fst (mgs Qc q)) = 0.
Proof.
  induction Qc as [|a Qc IH]; intros q HF Hq HO j Hj; [simpl in Hj; lia|].
  assert (Ha : length a = n) by (inversion HF; auto).
  assert (HF' : Forall (fun c => length c = n) Qc) by (inversion HF; auto).
  cbn [mgs]. set (s := vdot a q). set (q1 := vsub q (vscale s a)).
  assert (Hq1 : length q1 = n) by (unfold q1; rewrite vsub_length; rewrite ?vscale_length; lia).
  pose proof (mgs_spec n Qc q1 HF' Hq1) as (L1 & L2 & L3).
  pose proof (IH q1 HF' Hq1 (orthl_tail n a Qc HO)) as IH'.
  destruct (mgs Qc q1) as [q' ss]. cbn [fst snd] in *.
  destruct j as [|j].
  - change (getc (a :: Qc) 0) with a. unfold dotn.
    rewrite (dotf_ext_r n _ _ (fun t => getv q1 t - sumf (fun i => getv ss i * getv (getc Qc i) t) (length Qc)))
      by (intros; apply L3).
    rewrite dotf_sub_r.
    rewrite (dotf_lincomb_r n (getv a) (fun t => sumf (fun i => getv ss i * getv (getc Qc i) t) (length Qc))
               (fun i => getv ss i) (fun i => getv (getc Qc i)) (length Qc)) by (intros; reflexivity).
    rewrite (sumf_ext _ (fun _ => 0)), sumf_zero.
    + rewrite (dotf_ext_r n _ _ (fun t => getv q t - s * getv a t)).
      * rewrite dotf_sub_r, dotf_scal_r. fold (dotn n a q). fold (dotn n a a).
        assert (E1 : dotn n a a = 1) by (apply (HO 0%nat 0%nat); simpl; lia).
        unfold s. rewrite (vdot_dotn n) by auto. rewrite E1. lra.
      * intros t _. unfold q1. rewrite getv_vsub by (rewrite vscale_length; lia). rewrite getv_vscale. reflexivity.
    + intros i Hi. fold (dotn n a (getc Qc i)).
      assert (E0 : dotn n a (getc Qc i) = 0) by (apply (HO 0%nat (S i)); simpl; lia). rewrite E0. lra.
  - change (getc (a :: Qc) (S j)) with (getc Qc j). apply IH'. simpl in Hj. lia.
Qed.

Lemma reorth_q_orth n Qc : Forall (fun c => length c = n) Qc -> orthl n Qc ->
  forall fuel q rr nq nv cnt, length q = n ->
  (forall j, (j < length Qc)%nat -> dotn n (getc Qc j) q = 0) -> nq = vnorm2 q ->
  match reorth_loop fuel Qc q rr nq nv cnt with
  | (q', _, nq', _) => length q' = n /\ (forall j, (j < length Qc)%nat -> dotn n (getc Qc j) q' = 0) /\ nq' = vnorm2 q'
  end.
Proof.
  intros HF HO. induction fuel as [|f IH]; intros q rr nq nv cnt Hq Hq0 Hnq; cbn [reorth_loop]; auto.
  destruct (nltb nq (nmul eta nv)); auto.
  pose proof (mgs_spec n Qc q HF Hq) as (L1 & _).
  pose proof (mgs_orth n Qc q HF Hq HO) as M.
  destruct (mgs Qc q) as [q' ss]. cbn [fst snd] in *.
  apply IH; auto.
Qed.

Theorem add_keeps_orth n st v :
  wf n st -> length v = n -> (q_idx st < cap st)%nat -> Orth n st -> add_norm st v <> 0 ->
  Orth n (add_column st v).
Proof.
  intros (Hm & Hr & HQl & HQf & HRl & HRf) Hv Hk HO Hn.
  unfold add_norm in Hn. unfold add_column.
  set (k := q_idx st) in *. set (Qc := firstn k (Qs st)) in *.
  assert (HQc : Forall (fun c => length c = n) Qc) by (apply Forall_firstn'; auto).
  assert (HQcl : length Qc = k) by (unfold Qc; rewrite firstn_length; lia).
  assert (HQci : forall i, (i < k)%nat -> getc Qc i = getc (Qs st) i).
  { intros. unfold Qc, getc. apply nth_firstn_lt; auto. }
  assert (HOl : orthl n Qc).
  { intros i j Hi Hj. rewrite HQcl in *. rewrite !HQci by auto. apply HO; auto. }
  pose proof (mgs_spec n Qc v HQc Hv) as (L1 & _).
  pose proof (mgs_orth n Qc v HQc Hv HOl) as M0.
  destruct (mgs Qc v) as [q0 r0]. cbn [fst snd] in *.
  pose proof (reorth_q_orth n Qc HQc HOl reorth_fuel q0 r0 (vnorm2 q0) (vnorm2 v) (reorth st) L1 M0 eq_refl) as Hi.
  destruct (reorth_loop reorth_fuel Qc q0 r0 (vnorm2 q0) (vnorm2 v) (reorth st)) as [[[q rr] nq] cnt].
  destruct Hi as (I1 & I2 & I3).
  assert (Hsq : nq * nq = dotn n q q).
  { rewrite I3, (vnorm2_dotn n) by auto. apply sqrt_sqrt. apply dotf_nonneg. }
  intros i j Hi Hj. cbn [q_idx Qs] in *.
  assert (Hqn : forall t, getv (map (fun x : R => (x / nq)%num) q) t = / nq * getv q t).
  { intros t. rewrite getv_map by (numR; lra). numR. unfold Rdiv. ring. }
  destruct (Nat.eq_dec i k) as [Ei|Ei]; destruct (Nat.eq_dec j k) as [Ej|Ej]; try subst i; try subst j.
  - rewrite !getc_upd_same by lia. rewrite Nat.eqb_refl. unfold dotn.
    rewrite (dotf_ext_r n _ _ (fun t => / nq * getv q t)) by (intros; apply Hqn). rewrite dotf_scal_r.
    rewrite dotf_sym. rewrite (dotf_ext_r n _ _ (fun t => / nq * getv q t)) by (intros; apply Hqn). rewrite dotf_scal_r.
    fold (dotn n q q). rewrite <- Hsq. field. exact Hn.
  - rewrite getc_upd_same by lia. rewrite getc_upd_other by lia.
    destruct (Nat.eqb_spec k j); [lia|]. unfold dotn. rewrite dotf_sym.
    rewrite (dotf_ext_r n _ _ (fun t => / nq * getv q t)) by (intros; apply Hqn). rewrite dotf_scal_r.
    rewrite <- HQci by lia. fold (dotn n (getc Qc j) q). rewrite I2 by lia. ring.
  - rewrite getc_upd_other by lia. rewrite getc_upd_same by lia.
    destruct (Nat.eqb_spec i k); [lia|]. unfold dotn.
    rewrite (dotf_ext_r n _ _ (fun t => / nq * getv q t)) by (intros; apply Hqn). rewrite dotf_scal_r.
    rewrite <- HQci by lia. fold (dotn n (getc Qc i) q). rewrite I2 by lia. ring.
  - rewrite !getc_upd_other by lia. apply HO; lia.
Qed.

(* ------------------------------------------------------------------ remove_column keeps Q orthonormal *)
Definition Qwf (n : nat) (st : qrst R) : Prop :=
  length (Qs st) = cap st /\ Forall (fun c => length c = n) (Qs st) /\ (q_idx st <= cap st)%nat.

Lemma wf_Qwf n st : wf n st -> Qwf n st.
Proof. intros (_ & (_ & _ & H & _) & HQl & HQf & _). cbn [ring_of g_qi] in H. repeat split; auto. Qed.

Lemma givens_step_orth n st r c :
  Qwf n st -> Orth n st -> (S r < q_idx st)%nat ->
  Orth n (givens_step st r c) /\ Qwf n (givens_step st r c).
Proof.
  intros (HQl & HQf & Hle) HO Hr.
  unfold givens_step.
  pose proof (make_givens_spec (getv (getc (Rs st) c) r) (getv (getc (Rs st) c) (S r))) as G.
  destruct (make_givens (getv (getc (Rs st) c) r) (getv (getc (Rs st) c) (S r))) as [[cs sn] rr].
  destruct G as (G1 & _).
  assert (HSr : (S r < length (Qs st))%nat) by lia.
  split.
  - intros i j Hi Hj. cbn [q_idx Qs] in *.
    set (u := getv (getc (Qs st) r)). set (v := getv (getc (Qs st) (S r))).
    set (al := fun i : nat => if Nat.eqb i r then cs else if Nat.eqb i (S r) then sn else 0).
    set (be := fun i : nat => if Nat.eqb i r then - sn else if Nat.eqb i (S r) then cs else 0).
    set (ga := fun i : nat => if Nat.eqb i r then 0 else if Nat.eqb i (S r) then 0 else 1).
    assert (Hrep : forall i t, getv (getc (rot_cols cs sn r (Qs st)) i) t = al i * u t + be i * v t + ga i * getv (getc (Qs st) i) t).
    { intros i0 t. rewrite (getv_rot_cols n) by auto. unfold al, be, ga, u, v.
      destruct (Nat.eqb_spec i0 r); [ring|]. destruct (Nat.eqb_spec i0 (S r)); ring. }
    unfold dotn.
    rewrite (dotf_tri n _ _ u v (getv (getc (Qs st) i)) (getv (getc (Qs st) j)) (al i) (be i) (ga i) (al j) (be j) (ga j))
      by (intros; apply Hrep).
    unfold u, v.
    repeat match goal with |- context [dotf n (getv (getc (Qs st) ?a)) (getv (getc (Qs st) ?b))] =>
      change (dotf n (getv (getc (Qs st) a)) (getv (getc (Qs st) b))) with (dotn n (getc (Qs st) a) (getc (Qs st) b));
      rewrite (HO a b) by lia end.
    unfold al, be, ga.
    repeat match goal with |- context [Nat.eqb ?a ?b] => destruct (Nat.eqb_spec a b); try lia end; nra.
  - unfold Qwf. cbn [Qs cap q_idx]. repeat split; auto.
    + rewrite rot_cols_length. auto.
    + apply rot_cols_Forall; auto.
Qed.

Lemma sweep_orth n : forall fuel r c st, Qwf n st -> Orth n st -> Orth n (sweep fuel r c st).
Proof.
  induction fuel as [|f IH]; intros r c st Hw HO; cbn [sweep]; auto.
  destruct (Nat.ltb_spec (S r) (q_idx st)); auto.
  destruct (givens_step_orth n st r c Hw HO H) as (HO' & Hw'). apply IH; auto.
Qed.

Theorem remove_keeps_orth n st : wf n st -> Orth n st -> Orth n (remove_column st).
Proof.
  intros Hwf HO. pose proof (sweep_orth n (cap st) 0 (r_succ (cap st) (r_start st)) st (wf_Qwf n st Hwf) HO) as H.
  destruct (sweep_fields (cap st) 0 (r_succ (cap st) (r_start st)) st) as (_ & E2 & _).
  unfold remove_column. intros i j Hi Hj. cbn [q_idx Qs] in *. apply H; lia.
Qed.

Lemma scale_keeps_orth n st s : Orth n st -> Orth n (scale_R st s).
Proof. intros HO i j Hi Hj. unfold scale_R in *. cbn [q_idx Qs] in *. apply HO; auto. Qed.
Lemma reset_orth n st : Orth n (qr_reset st).
Proof. intros i j Hi. simpl in Hi. lia. Qed.

(* every history within capacity: the window is represented with an orthonormal Q and an upper-triangular R *)
Theorem QR_orth_all_histories n : forall ops st A, wf n st -> QRrep st A -> Orth n st -> hist_ok n st ops ->
  QRrep (fold_left qstep ops st) (fold_left astep ops A) /\ wf n (fold_left qstep ops st) /\
  Orth n (fold_left qstep ops st).
Proof.
  induction ops as [|o ops IH]; cbn [fold_left hist_ok]; intros st A Hwf Hrep HO Hok; auto.
  destruct Hok as (Ho & Hok). destruct (qstep_keeps n st A o Hwf Hrep Ho) as (Hrep' & Hwf').
  apply IH; auto.
  destruct o; cbn [qstep qok] in *.
  - destruct Ho as (H1 & H2 & H3). apply add_keeps_orth; auto.
  - apply remove_keeps_orth; auto.
  - apply reset_orth.
  - apply scale_keeps_orth; auto.
Qed.

Corollary QR_orth_from_new n m ops : (0 < m)%nat -> hist_ok n (qr_new n m) ops ->
  let st := fold_left qstep ops (qr_new n m) in
  QRrep st (fold_left astep ops []) /\ wf n st /\ Orth n st.
Proof.
  intros Hm Hok. apply (QR_orth_all_histories n ops (qr_new n m) []); auto.
  - apply wf_new; auto.
  - apply QRrep_new.
  - intros i j Hi. simpl in Hi. lia.
Qed.

(* ------------------------------------------------------------------ solve_col *)
(* R as a full k x k matrix (zero below the diagonal) *)
Definition Ru (st : qrst R) (i j : nat) : R := if Nat.leb i j then Rl st i j else 0.
(* pivot i is thresholded by solve_col(b, x, tol) *)
Definition thr (st : qrst R) (tol : R) (i : nat) : bool := Rlt_bool (Rabs (Rl st i i)) tol.
(* row i of  R x = Q^T b *)
Definition row_eq (n : nat) (st : qrst R) (b x : list R) (i : nat) : Prop :=
  sumf (fun j => Ru st i j * getv x j) (q_idx st) = dotn n (getc (Qs st) i) b.
(* (A c)(t) for a coefficient function c, and the residual A x - b *)
Definition Amulf (A : list (list R)) (k : nat) (c : nat -> R) (t : nat) : R := sumf (fun j => c j * Acol A j t) k.
Definition resid (A : list (list R)) (k : nat) (b : list R) (c : nat -> R) (t : nat) : R := Amulf A k c t - getv b t.

Lemma sumf_ge_as_lsum (g : nat -> R) i : forall k, (i <= k)%nat ->
  sumf (fun j => if Nat.leb i j then g j else 0) k = lsum (map g (seq i (k - i))).
Proof.
  induction k; intros Hk.
  - assert (i = 0)%nat by lia. subst. reflexivity.
  - cbn [sumf]. destruct (Nat.eq_dec i (S k)) as [->|Hne].
    + rewrite Nat.sub_diag. cbn [seq map]. rewrite (sumf_ext _ (fun _ => 0)), sumf_zero.
      * destruct (Nat.leb_spec (S k) k); [lia|]. unfold lsum. simpl. lra.
      * intros j Hj. destruct (Nat.leb_spec (S k) j); [lia|]. reflexivity.
    + rewrite IHk by lia. replace (S k - i)%nat with (S (k - i)) by lia.
      rewrite seq_S, map_app, lsum_app. replace (i + (k - i))%nat with k by lia.
      destruct (Nat.leb_spec i k); [|lia]. unfold lsum at 3. simpl. lra.
Qed.

Lemma sumf_delta (f : nat -> R) i : forall m,
  sumf (fun l => f l * (if Nat.eqb i l then 1 else 0)) m = if Nat.ltb i m then f i else 0.
Proof.
  induction m; [reflexivity|]. cbn [sumf]. rewrite IHm.
  destruct (Nat.ltb_spec i m), (Nat.ltb_spec i (S m)), (Nat.eqb_spec i m); try lia; subst; lra.
Qed.

Lemma fold_sub_lsum (h : nat * nat -> R) : forall l x0,
  fold_left (fun acc e => acc - h e) l x0 = x0 - lsum (map h l).
Proof. induction l; intros x0; cbn [fold_left map]. - unfold lsum. simpl. lra. - rewrite IHl. unfold lsum. simpl. lra. Qed.

Definition good (n : nat) (st : qrst R) (b : list R) (tol : R) (y : list R) (i : nat) : Prop :=
  (thr st tol i = true -> getv y i = 0) /\ (thr st tol i = false -> row_eq n st b y i).

Lemma good_ext n st b tol y y' i :
  (forall j, (i <= j)%nat -> getv y' j = getv y j) -> good n st b tol y i -> good n st b tol y' i.
Proof.
  intros He (G1 & G2). split; intros Ht.
  - rewrite He by lia. auto.
  - unfold row_eq. rewrite <- (G2 Ht). apply sumf_ext. intros j _. unfold Ru.
    destruct (Nat.leb_spec i j); [rewrite He by lia; reflexivity | ring].
Qed.

(* back substitution over the reverse ring iteration solves the rows from the bottom up *)
Theorem solve_col_rows n st b tol x :
  wf n st -> length b = n -> (q_idx st <= length x)%nat ->
  (forall i, (i < q_idx st)%nat -> thr st tol i = false -> Rl st i i <> 0) ->
  let x' := solve_col st b tol x in
  length x' = length x /\ (forall i, (q_idx st <= i)%nat -> getv x' i = getv x i) /\
  forall i, (i < q_idx st)%nat -> good n st b tol x' i.
Proof.
  intros (Hm & Hring & HQl & HQf & HRl & HRf) Hb Hx Hpiv.
  assert (Hring' := Hring). destruct Hring' as (R1 & R2 & R3 & R4). cbn [ring_of g_qi g_rs g_re] in *.
  set (k := q_idx st) in *. set (m := cap st) in *. set (rs := r_start st) in *.
  cbv zeta. unfold solve_col. fold k. fold m. unfold ring_rev_iter. rewrite R4.
  rewrite iter_rev_spec by auto.
  set (F := fun j : nat => ((j, (rs + j) mod m), (S j, (rs + S j) mod m))%nat).
  set (f := fun (e : (nat * nat) * (nat * nat)) (acc : list R) => solve_row st b tol acc e).
  rewrite <- (fold_left_rev_right f). rewrite rev_involutive.
  assert (P : forall d z, (z + d = k)%nat ->
    let y := fold_right f x (map F (seq z d)) in
    length y = length x /\ (forall i, (i < z \/ k <= i)%nat -> getv y i = getv x i) /\
    forall i, (z <= i < k)%nat -> good n st b tol y i).
  { induction d as [|d IH]; intros z Hz; cbv zeta.
    - cbn [seq map fold_right]. split; auto. split; auto. intros; lia.
    - cbn [seq map fold_right].
      destruct (IH (S z) ltac:(lia)) as (Yl & Yo & Yg). cbv zeta in Yl, Yo, Yg.
      set (y := fold_right f x (map F (seq (S z) d))) in *.
      assert (Hzl : (z < length y)%nat) by lia.
      pose (val := fold_left (fun (acc : R) '(rX2, cR2) => acc - Rat st z cR2 * getv y rX2)
                             (iter_fwd (k - S z) (S z) ((rs + S z) mod m) m) (vdot (getc (Qs st) z) b)
                   / Rat st z ((rs + z) mod m)).
      assert (Ey : f (F z) y = if thr st tol z then upd z (fun _ : R => 0) y else upd z (fun _ : R => val) y) by reflexivity.
      rewrite Ey. clear Ey.
      destruct (thr st tol z) eqn:Et.
      + (* thresholded pivot: component set to zero *)
        split; [rewrite upd_length; auto|]. split.
        * intros i Hi. rewrite getv_upd_other by lia. apply Yo. lia.
        * intros i Hi. destruct (Nat.eq_dec i z) as [->|Hne].
          -- split; intros Ht; [|congruence]. rewrite getv_upd_same by auto. reflexivity.
          -- apply (good_ext n st b tol y); [|apply Yg; lia]. intros j Hj. apply getv_upd_other. lia.
      + split; [rewrite upd_length; auto|]. split.
        * intros i Hi. rewrite getv_upd_other by lia. apply Yo. lia.
        * intros i Hi. destruct (Nat.eq_dec i z) as [->|Hne].
          2:{ apply (good_ext n st b tol y); [|apply Yg; lia]. intros j Hj. apply getv_upd_other. lia. }
          split; intros Ht; [congruence|].
          assert (Hnz : Rl st z z <> 0) by (apply Hpiv; auto; lia).
          unfold row_eq. fold k.
          rewrite (sumf_ext _ (fun j => if Nat.leb z j then Rl st z j * getv (upd z (fun _ : R => val) y) j else 0))
            by (intros j _; unfold Ru; destruct (Nat.leb z j); ring).
          rewrite (sumf_ge_as_lsum (fun j => Rl st z j * getv (upd z (fun _ : R => val) y) j)) by lia.
          replace (k - z)%nat with (S (k - S z)) by lia. cbn [seq map]. unfold lsum at 1. cbn [fold_right].
          fold (lsum (map (fun j => Rl st z j * getv (upd z (fun _ : R => val) y) j) (seq (S z) (k - S z)))).
          rewrite getv_upd_same by auto. unfold val.
          rewrite (map_ext_in _ (fun j => Rl st z j * getv y j))
            by (intros j Hj; apply in_seq in Hj; rewrite getv_upd_other by lia; reflexivity).
          replace ((rs + S z) mod m) with ((rs + S z) mod m) by reflexivity.
          pose proof (iter_fwd_spec m Hm (k - S z) (S z) rs) as HI. rewrite HI.
          rewrite (fold_left_ext' _ (fun acc e => acc - Rat st z (snd e) * getv y (fst e)))
            by (intros acc [a0 b0]; reflexivity).
          rewrite (fold_sub_lsum (fun e => Rat st z (snd e) * getv y (fst e))).
          rewrite map_map. cbn [fst snd].
          change (fun j : nat => Rat st z ((rs + j) mod m) * getv y j) with (fun j : nat => Rl st z j * getv y j).
          change (Rat st z ((rs + z) mod m)) with (Rl st z z).
          rewrite (vdot_dotn n) by (auto; apply getc_len; auto; lia).
          numR. field. exact Hnz. }
  destruct (P k 0%nat ltac:(lia)) as (Yl & Yo & Yg). cbv zeta in Yl, Yo, Yg.
  split; auto. split.
  - intros i Hi. apply Yo. lia.
  - intros i Hi. apply Yg. lia.
Qed.

(* Q_i . A_j = R(i,j) for an orthonormal Q (zero below the diagonal) *)
Lemma dot_Q_Acol n st A i j : QRrep st A -> Orth n st -> (i < q_idx st)%nat -> (j < q_idx st)%nat ->
  dotf n (getv (getc (Qs st) i)) (Acol A j) = Ru st i j.
Proof.
  intros (HA & HQR) HO Hi Hj.
  rewrite (dotf_lincomb_r n _ (Acol A j) (fun l => Rl st l j) (fun l => getv (getc (Qs st) l)) (S j)).
  - rewrite (sumf_ext _ (fun l => Rl st l j * (if Nat.eqb i l then 1 else 0))).
    + rewrite sumf_delta. unfold Ru. destruct (Nat.ltb_spec i (S j)), (Nat.leb_spec i j); try lia; reflexivity.
    + intros l Hl. fold (dotn n (getc (Qs st) i) (getc (Qs st) l)). rewrite HO by lia. reflexivity.
  - intros t _. rewrite <- (HQR j t Hj). reflexivity.
Qed.

(* a solved row means: the residual A x - b is orthogonal to that Q column *)
Theorem row_eq_residual_orth n st A b x i :
  QRrep st A -> Orth n st -> (i < q_idx st)%nat -> row_eq n st b x i ->
  dotf n (getv (getc (Qs st) i)) (resid A (q_idx st) b (getv x)) = 0.
Proof.
  intros Hrep HO Hi Hrow. unfold resid. rewrite dotf_sub_r.
  unfold Amulf.
  rewrite (dotf_lincomb_r n _ (fun t => sumf (fun j => getv x j * Acol A j t) (q_idx st))
             (fun j => getv x j) (fun j => Acol A j) (q_idx st)) by (intros; reflexivity).
  rewrite (sumf_ext _ (fun j => Ru st i j * getv x j)).
  - unfold row_eq in Hrow. rewrite Hrow. unfold dotn. lra.
  - intros j Hj. rewrite (dot_Q_Acol n st A i j) by auto. ring.
Qed.

(* all rows solved  =>  normal equations  A^T (A x - b) = 0 *)
Theorem rows_imply_normal_equations n st A b x :
  QRrep st A -> Orth n st -> (forall i, (i < q_idx st)%nat -> row_eq n st b x i) ->
  forall j, (j < q_idx st)%nat -> dotf n (Acol A j) (resid A (q_idx st) b (getv x)) = 0.
Proof.
  intros Hrep HO Hrows j Hj. rewrite dotf_sym.
  destruct Hrep as (HA & HQR).
  rewrite (dotf_lincomb_r n _ (Acol A j) (fun l => Rl st l j) (fun l => getv (getc (Qs st) l)) (S j))
    by (intros t _; rewrite <- (HQR j t Hj); reflexivity).
  rewrite (sumf_ext _ (fun _ => 0)), sumf_zero; auto.
  intros l Hl. rewrite dotf_sym. rewrite (row_eq_residual_orth n st A b x l); [ring | split; auto | auto | lia | apply Hrows; lia].
Qed.

(* normal equations  =>  x minimises || A z - b ||  over all coefficient vectors z *)
Theorem normal_equations_imply_minimiser n A k b (cx : nat -> R) :
  (forall j, (j < k)%nat -> dotf n (Acol A j) (resid A k b cx) = 0) ->
  forall cz : nat -> R, dotf n (resid A k b cx) (resid A k b cx) <= dotf n (resid A k b cz) (resid A k b cz).
Proof.
  intros Hne cz.
  set (d := fun j => cz j - cx j).
  assert (E : forall t, resid A k b cz t = resid A k b cx t + Amulf A k d t).
  { intros t. unfold resid, Amulf, d.
    rewrite (sumf_ext (fun j => cz j * Acol A j t) (fun j => cx j * Acol A j t + (cz j - cx j) * Acol A j t))
      by (intros; ring).
    rewrite sumf_plus. ring. }
  rewrite (dotf_ext_l n (resid A k b cz) (fun t => resid A k b cx t + Amulf A k d t)) by (intros; apply E).
  rewrite (dotf_ext_r n _ (resid A k b cz) (fun t => resid A k b cx t + Amulf A k d t)) by (intros; apply E).
  rewrite dotf_square_sum.
  assert (Z : dotf n (resid A k b cx) (Amulf A k d) = 0).
  { rewrite (dotf_lincomb_r n _ (Amulf A k d) d (fun j => Acol A j) k) by (intros; reflexivity).
    rewrite (sumf_ext _ (fun _ => 0)), sumf_zero; auto.
    intros j Hj. rewrite dotf_sym, Hne by auto. ring. }
  rewrite Z. pose proof (dotf_nonneg n (Amulf A k d)). lra.
Qed.

(* solve_col: thresholded pivots give a zero component; for the others the residual is orthogonal to Q_i.
   (So x' has x'_T = 0 and annihilates the projection of A x - b on span{Q_i : i not thresholded}.) *)
Theorem solve_col_thresholded n st A b tol x :
  wf n st -> QRrep st A -> Orth n st -> length b = n -> (q_idx st <= length x)%nat ->
  (forall i, (i < q_idx st)%nat -> thr st tol i = false -> Rl st i i <> 0) ->
  let x' := solve_col st b tol x in
  (forall i, (q_idx st <= i)%nat -> getv x' i = getv x i) /\
  forall i, (i < q_idx st)%nat ->
    (thr st tol i = true -> getv x' i = 0) /\
    (thr st tol i = false -> dotf n (getv (getc (Qs st) i)) (resid A (q_idx st) b (getv x')) = 0).
Proof.
  intros Hwf Hrep HO Hb Hx Hpiv. cbv zeta.
  destruct (solve_col_rows n st b tol x Hwf Hb Hx Hpiv) as (_ & Ho & Hg). cbv zeta in Ho, Hg.
  split; auto. intros i Hi. destruct (Hg i Hi) as (G1 & G2). split; auto.
  intros Ht. apply row_eq_residual_orth; auto.
Qed.

(* no pivot below the threshold (and none zero): solve_col returns THE least-squares minimiser of ||A x - b|| *)
Theorem solve_col_least_squares n st A b tol x :
  wf n st -> QRrep st A -> Orth n st -> length b = n -> (q_idx st <= length x)%nat ->
  (forall i, (i < q_idx st)%nat -> thr st tol i = false /\ Rl st i i <> 0) ->
  let x' := solve_col st b tol x in
  (forall i, (i < q_idx st)%nat -> row_eq n st b x' i) /\
  (forall j, (j < q_idx st)%nat -> dotf n (Acol A j) (resid A (q_idx st) b (getv x')) = 0) /\
  (forall cz : nat -> R,
     dotf n (resid A (q_idx st) b (getv x')) (resid A (q_idx st) b (getv x'))
     <= dotf n (resid A (q_idx st) b cz) (resid A (q_idx st) b cz)).
Proof.
  intros Hwf Hrep HO Hb Hx Hpiv. cbv zeta.
  assert (Hpiv' : forall i, (i < q_idx st)%nat -> thr st tol i = false -> Rl st i i <> 0) by (intros i Hi _; apply Hpiv; auto).
  destruct (solve_col_rows n st b tol x Hwf Hb Hx Hpiv') as (_ & _ & Hg). cbv zeta in Hg.
  assert (Hrows : forall i, (i < q_idx st)%nat -> row_eq n st b (solve_col st b tol x) i).
  { intros i Hi. destruct (Hg i Hi) as (_ & G2). apply G2. apply Hpiv; auto. }
  split; auto.
  pose proof (rows_imply_normal_equations n st A b (solve_col st b tol x) Hrep HO Hrows) as Hne.
  split; auto. apply normal_equations_imply_minimiser; auto.
Qed.

(* uniqueness: with non-zero pivots the triangular system has one solution, so the minimiser is unique on the window *)

(* ------------------------------------------------------------------ re-orthogonalisation terminates after <= 1 extra pass *)
Lemma vsub_vscale0 : forall (q a : list R), length a = length q -> vsub q (vscale 0 a) = q.
Proof.
  induction q as [|x q IH]; intros [|y a] Hl; simpl in *; try discriminate; auto.
  unfold vsub. cbn [map2]. fold (vsub q (vscale 0 a)). f_equal; [numR; lra|]. apply IH. lia.
Qed.

(* a pass over an orthonormal list changes nothing on a vector that is already orthogonal to it *)
Lemma mgs_fix n : forall Qc q, Forall (fun c => length c = n) Qc -> length q = n ->
  (forall j, (j < length Qc)%nat -> dotn n (getc Qc j) q = 0) -> fst (mgs Qc q) = q.
Proof.
  induction Qc as [|a Qc IH]; intros q HF Hq H0; [reflexivity|].
  assert (Ha : length a = n) by (inversion HF; auto).
  assert (HF' : Forall (fun c => length c = n) Qc) by (inversion HF; auto).
  cbn [mgs].
  assert (Es : vdot a q = 0) by (rewrite (vdot_dotn n) by auto; apply (H0 0%nat); simpl; lia).
  rewrite Es. rewrite vsub_vscale0 by lia.
  specialize (IH q HF' Hq). destruct (mgs Qc q) as [q' ss]. cbn [fst] in *. apply IH.
  intros j Hj. apply (H0 (S j)). simpl. lia.
Qed.

Lemma vnorm2_nonneg n (v : list R) : length v = n -> 0 <= vnorm2 v.
Proof. intros. rewrite (vnorm2_dotn n) by auto. apply sqrt_pos. Qed.

(* once q is orthogonal to the (orthonormal) live columns, the while loop runs at most once more, whatever the fuel *)
Theorem reorth_at_most_one_extra_pass n Qc q0 r0 nv cnt f :
  Forall (fun c => length c = n) Qc -> length q0 = n ->
  (forall j, (j < length Qc)%nat -> dotn n (getc Qc j) q0 = 0) ->
  reorth_loop (S (S f)) Qc q0 r0 (vnorm2 q0) nv cnt = reorth_loop 2 Qc q0 r0 (vnorm2 q0) nv cnt /\
  match reorth_loop (S (S f)) Qc q0 r0 (vnorm2 q0) nv cnt with
  | (q, _, nq, cnt') => q = q0 /\ nq = vnorm2 q0 /\ (cnt' <= S cnt)%nat
  end.
Proof.
  intros HF Hq H0. cbn [reorth_loop].
  pose proof (mgs_fix n Qc q0 HF Hq H0) as Efix.
  assert (Hstop : nltb (vnorm2 q0) (nmul eta (vnorm2 q0)) = false).
  { unfold eta. numR. apply Rlt_bool_false. pose proof (vnorm2_nonneg n q0 Hq). lra. }
  destruct (nltb (vnorm2 q0) (nmul eta nv)).
  - destruct (mgs Qc q0) as [q' ss]. cbn [fst] in Efix. subst q'. rewrite Hstop.
    split; auto.
  - split; auto.
Qed.

Theorem add_column_reorth_count n st v :
  wf n st -> length v = n -> (q_idx st < cap st)%nat -> Orth n st ->
  (reorth (add_column st v) <= S (reorth st))%nat.
Proof.
  intros (Hm & Hr & HQl & HQf & HRl & HRf) Hv Hk HO.
  unfold add_column.
  set (k := q_idx st) in *. set (Qc := firstn k (Qs st)) in *.
  assert (HQc : Forall (fun c => length c = n) Qc) by (apply Forall_firstn'; auto).
  assert (HQcl : length Qc = k) by (unfold Qc; rewrite firstn_length; lia).
  assert (HOl : orthl n Qc).
  { intros i j Hi Hj. rewrite HQcl in *. unfold Qc, getc. rewrite !nth_firstn_lt by auto. apply HO; auto. }
  pose proof (mgs_spec n Qc v HQc Hv) as (L1 & _).
  pose proof (mgs_orth n Qc v HQc Hv HOl) as M0.
  destruct (mgs Qc v) as [q0 r0]. cbn [fst snd] in *.
  pose proof (reorth_at_most_one_extra_pass n Qc q0 r0 (vnorm2 v) (reorth st) 62 HQc L1 M0) as (_ & H).
  change (S (S 62)) with reorth_fuel in H.
  destruct (reorth_loop reorth_fuel Qc q0 r0 (vnorm2 q0) (vnorm2 v) (reorth st)) as [[[q rr] nq] cnt].
  cbn [reorth]. tauto.
Qed.

(* with a positive threshold, a pivot that is not thresholded is non-zero *)
Lemma positive_threshold_pivot_nonzero st tol i : 0 < tol -> thr st tol i = false -> Rl st i i <> 0.
Proof.
  unfold thr. intros Ht H E. rewrite E, Rabs_R0 in H. rewrite Rlt_bool_true in H by auto. discriminate.
Qed.
