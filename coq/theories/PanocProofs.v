(* PanocProofs.v — loop invariants of the whole-run PANOC model (Panoc.v), over R, for EVERY problem oracle, direction oracle,
   stop / time oracle and parameter set.  The only hypotheses that ever appear are stated where they are needed:
     - oracle coherence (eval_ψ_grad_ψ(x) = (ψ(x), eval_grad_L(x, ŷ(x)))) to read the ψ(x)/∇ψ(x) clause of the invariant as
       "the values of eval_ψ_grad_ψ at x" (the code itself relies on it in take_safe_step);
     - recompute_last_prox_step_after_stepsize_change = false for clauses about the reported record of a Busy iteration
       (with `true` the code rewrites γ, L, x̂, p of that record after the search without re-evaluating ψ(x̂));
     - positivity / finiteness of parameters for descent and termination. *)
From Coq Require Import Reals List ZArith Lra Lia Bool Arith Psatz.
From Flocq Require Import Raux.
From Alpaqa Require Import Num NumR Vec Prox ProxProofs ProxVec SolverStatus SolverKernels SolverKernelsProofs DescentProofs
                           StopChain StopChainProofs LoopSkeleton KktProofs Panoc.
Import ListNotations.
Local Open Scope R_scope.

Section Proofs.
  Variable psi_grad_full : list R -> R * list R * list R.
  Variable psi_yhat : list R -> R * list R.
  Variable grad_L : list R -> list R -> list R.
  Variable grad_psi : list R -> list R.
  Variables (lb ub : list (option R)) (l1 : list R).
  Variable dir_apply : nat -> iterate (T:=R) -> option (list R).
  Variable has_initial : bool.
  Variable stop_req : counters -> bool.
  Variable time_up : counters -> bool.
  Variable P : params (T:=R).
  Variables (x_in y_in Σ errz_in : list R).
  Variable ls_fuel : nat.
  (* every lemma of this section is generalised over ALL the section variables, in the order above *)
  Set Default Proof Using "All".

  Notation it := (iterate (T:=R)).
  Notation eprox := (eval_prox lb ub l1).
  Notation epsih := (eval_psih psi_grad_full psi_yhat P).
  Notation epsihx := (eval_psih_exit psi_yhat).
  Notation egradh := (eval_gradh grad_L).
  Notation lsloop := (ls_loop psi_grad_full psi_yhat grad_L lb ub l1 stop_req P).
  Notation pass_ := (pass psi_grad_full psi_yhat grad_L lb ub l1 dir_apply has_initial stop_req time_up P x_in y_in Σ errz_in ls_fuel).
  Notation loop_ := (loop psi_grad_full psi_yhat grad_L lb ub l1 dir_apply has_initial stop_req time_up P x_in y_in Σ errz_in ls_fuel).
  Notation panoc_ := (panoc psi_grad_full psi_yhat grad_L grad_psi lb ub l1 dir_apply has_initial stop_req time_up P x_in y_in Σ errz_in ls_fuel).
  Notation pgrad := (psi_grad psi_grad_full).
  Notation qubv := (it_qub_violated P).
  Notation eps_of := (it_eps lb ub l1 P).

  (* ------------------------------------------------------------------ the consistency invariant *)
  (* (ψ, ŷ) as the code obtains them at a point x̂ (eval_ψx̂) *)
  Definition psi_hat_of (x : list R) : R * list R :=
    if p_eager P then (fst (fst (psi_grad_full x)), snd (psi_grad_full x)) else psi_yhat x.
  (* a gradient buffer holds "∇ψ at x̂": eval_grad_L(x̂, ŷ) or, with eager evaluation, the gradient output of eval_ψ_grad_ψ(x̂) *)
  Definition is_gradh (x yh g : list R) : Prop :=
    g = grad_L x yh \/ (p_eager P = true /\ g = snd (fst (psi_grad_full x))).
  (* (ψ, ∇ψ) at x: from eval_ψ_grad_ψ(x), or carried over from the x̂-side of the previous iterate (take_safe_step) *)
  Definition val_x (x : list R) (ψ : R) (g : list R) : Prop :=
    (ψ, g) = pgrad x \/ (ψ = fst (psi_hat_of x) /\ is_gradh x (snd (psi_hat_of x)) g).

  Definition cons_x (i : it) : Prop := val_x (ix i) (ipsi i) (igrad i).
  Definition cons_step (i : it) : Prop :=
    eval_prox_grad_step lb ub l1 (igam i) (ix i) (igrad i) = (ixh i, ip i, ih i) /\
    ipp i = vsqnorm (ip i) /\ igp i = vdot (ip i) (igrad i).
  Definition cons_hat (i : it) : Prop :=
    (ipsih i, iyh i) = psi_hat_of (ixh i) /\ (ihave i = true -> is_gradh (ixh i) (iyh i) (igradh i)).
  Definition consistent (i : it) : Prop := cons_x i /\ cons_step i /\ cons_hat i.

  (* everything except the ∇ψ(x̂) buffer and its flag *)
  Definition core (i : it) :=
    (ix i, ixh i, igrad i, ip i, iyh i, (ipsi i, ipsih i, igam i, iL i), (ipp i, igp i, ih i)).

  Definition qub_ok (i : it) : Prop := (Rlt_bool (iL i) (p_Lmax P) && qubv i) = false.

  Lemma core_fields (a b : it) : core a = core b ->
    ix a = ix b /\ ixh a = ixh b /\ igrad a = igrad b /\ ip a = ip b /\ iyh a = iyh b /\ ipsi a = ipsi b /\ ipsih a = ipsih b /\
    igam a = igam b /\ iL a = iL b /\ ipp a = ipp b /\ igp a = igp b /\ ih a = ih b.
  Proof. unfold core. intros E. inversion E. repeat split; assumption. Qed.

  Lemma consistent_core (a b : it) : core a = core b ->
    (ihave b = true -> is_gradh (ixh b) (iyh b) (igradh b)) -> consistent a -> consistent b.
  Proof.
    intros E Hg (Hx & Hs & Hh). apply core_fields in E.
    destruct E as (E1 & E2 & E3 & E4 & E5 & E6 & E7 & E8 & E9 & E10 & E11 & E12).
    unfold consistent, cons_x, cons_step, cons_hat in *.
    rewrite <- E1, <- E2, <- E3, <- E4, <- E5, <- E6, <- E7, <- E8, <- E10, <- E11, <- E12.
    destruct Hh as [Hh _]. repeat split; try tauto. rewrite E2, E5. exact Hg.
  Qed.
  Lemma qub_ok_core (a b : it) : core a = core b -> qub_ok a -> qub_ok b.
  Proof.
    intros E. apply core_fields in E. destruct E as (E1 & E2 & E3 & E4 & E5 & E6 & E7 & E8 & E9 & E10 & E11 & E12).
    unfold qub_ok, it_qub_violated. now rewrite E6, E7, E9, E10, E11.
  Qed.
  Lemma fbe_core (a b : it) : core a = core b -> it_fbe a = it_fbe b.
  Proof.
    intros E. apply core_fields in E. destruct E as (E1 & E2 & E3 & E4 & E5 & E6 & E7 & E8 & E9 & E10 & E11 & E12).
    unfold it_fbe. now rewrite E6, E8, E10, E11, E12.
  Qed.

  (* x̂ = x + p for every prox variant of the problem *)
  Lemma prox_xh_is_x_plus_p γ (x g : list R) :
    fst (fst (eval_prox_grad_step lb ub l1 γ x g)) = vadd x (snd (fst (eval_prox_grad_step lb ub l1 γ x g))).
  Proof. unfold eval_prox_grad_step. destruct l1 as [|λ [|λ' r]]; reflexivity. Qed.
  Lemma cons_step_xh (i : it) : cons_step i -> ixh i = vadd (ix i) (ip i).
  Proof. intros (E & _). pose proof (prox_xh_is_x_plus_p (igam i) (ix i) (igrad i)) as Hp. rewrite E in Hp. exact Hp. Qed.

  (* ---- the elementary updates *)
  Lemma eprox_cons (i : it) : cons_x i -> cons_x (eprox i) /\ cons_step (eprox i).
  Proof.
    intros Hx. split; [exact Hx|]. unfold cons_step, eval_prox; cbn [ix ixh igrad ip ih igam ipp igp].
    repeat split. destruct (eval_prox_grad_step lb ub l1 (igam i) (ix i) (igrad i)) as [[a b] c]; reflexivity.
  Qed.
  Lemma eprox_gl (i : it) : igam (eprox i) = igam i /\ iL (eprox i) = iL i.
  Proof. split; reflexivity. Qed.
  Lemma epsih_cons (i : it) : cons_x i -> cons_step i -> consistent (epsih i).
  Proof.
    intros Hx Hs. unfold consistent, cons_x, cons_step, cons_hat, eval_psih, psi_hat_of, is_gradh in *.
    destruct (p_eager P) eqn:Ee; cbn [ix ixh igrad ip ih igam ipp igp ipsi ipsih iyh ihave igradh]; repeat split; try tauto.
    - destruct (psi_yhat (ixh i)); reflexivity.
    - discriminate.
  Qed.
  Lemma epsih_fields (i : it) :
    ix (epsih i) = ix i /\ ixh (epsih i) = ixh i /\ igrad (epsih i) = igrad i /\ ip (epsih i) = ip i /\ ipsi (epsih i) = ipsi i /\
    igam (epsih i) = igam i /\ iL (epsih i) = iL i /\ ipp (epsih i) = ipp i /\ igp (epsih i) = igp i /\ ih (epsih i) = ih i.
  Proof. unfold eval_psih. destruct (p_eager P); cbn; repeat split; reflexivity. Qed.
  Lemma epsih_hat (i : it) : (ipsih (epsih i), iyh (epsih i)) = psi_hat_of (ixh i).
  Proof.
    unfold eval_psih, psi_hat_of. destruct (p_eager P); cbn [ipsih iyh]; [reflexivity|]. destruct (psi_yhat (ixh i)); reflexivity.
  Qed.
  Lemma egradh_cons (i : it) : consistent i -> consistent (egradh i) /\ core (egradh i) = core i /\ ihave (egradh i) = true.
  Proof.
    intros Hc. split; [|split; reflexivity].
    apply (consistent_core i); [reflexivity| |exact Hc]. intros _. left. reflexivity.
  Qed.
  Lemma set_gl_cons_x (i : it) γ L : cons_x i -> cons_x (set_gamma_L i γ L).
  Proof. exact (fun H => H). Qed.

  (* the step taken when τ changed *)
  Lemma safe_step_facts (curr next : it) c :
    consistent curr ->
    let r := take_safe_step grad_L curr next c in
    let curr' := fst (fst r) in let next' := snd (fst r) in
    consistent curr' /\ core curr' = core curr /\ cons_x next' /\ ix next' = ixh curr /\ ipsi next' = ipsih curr /\
    igam next' = igam next /\ iL next' = iL next.
  Proof.
    intros Hc. unfold take_safe_step. cbv zeta.
    set (curr1 := if ihave curr then curr else egradh curr).
    assert (H1 : consistent curr1 /\ core curr1 = core curr /\ ihave curr1 = true).
    { subst curr1. destruct (ihave curr) eqn:Eh; [repeat split; [apply Hc..|exact Eh]|apply egradh_cons, Hc]. }
    destruct H1 as (Hc1 & Ec1 & Hh1). cbn [fst snd].
    split; [|split; [|split; [|repeat split]]].
    - apply (consistent_core curr1); [reflexivity|cbn; discriminate|exact Hc1].
    - rewrite <- Ec1. reflexivity.
    - unfold cons_x; cbn [ix ipsi igrad]. right. destruct Hc1 as (_ & _ & Hhat & Hg). rewrite <- Hhat. cbn [fst snd].
      split; [reflexivity|apply Hg, Hh1].
    - cbn [ix]. apply core_fields in Ec1. tauto.
    - cbn [ipsi]. apply core_fields in Ec1. tauto.
  Qed.
  Lemma accel_step_facts τ q (curr next : it) :
    let next' := take_accel_step psi_grad_full τ q curr next in
    cons_x next' /\ igam next' = igam next /\ iL next' = iL next.
  Proof.
    unfold take_accel_step, eval_psi_grad, cons_x, val_x. cbn [ix ipsi igrad igam iL]. split; [|split; reflexivity].
    left. destruct (pgrad _); reflexivity.
  Qed.

  (* ------------------------------------------------------------------ line search *)
  Definition gl_of (i : it) : R * R := (igam i, iL i).
  Definition halved (a b : it) : Prop := exists j, gl_of b = halve_n j (gl_of a).
  Lemma halved_refl a : halved a a. Proof. exists 0%nat. reflexivity. Qed.
  Lemma halved_step a b : halved a b -> forall b', gl_of b' = halve_step (gl_of b) -> halved a b'.
  Proof. intros [j E] b' E'. exists (S j). cbn [halve_n]. rewrite <- E. exact E'. Qed.
  Lemma halved_trans a b c : halved a b -> halved b c -> halved a c.
  Proof.
    intros [j E] [k E']. exists (k + j)%nat. rewrite E', E. clear. induction k as [|k IH]; cbn [halve_n Nat.add]; [reflexivity|now rewrite IH].
  Qed.
  Lemma halve_it_gl (i : it) : gl_of (halve_it i) = halve_step (gl_of i).
  Proof. unfold halve_it, gl_of, set_gamma_L. cbn [igam iL]. destruct (halve_step (igam i, iL i)); reflexivity. Qed.

  Definition safe_of (c0 next : it) : Prop := ix next = ixh c0 /\ ipsi next = ipsih c0.

  Record LsI (c0 : it) (s : ls_state (T:=R)) : Prop := {
    li_cons : consistent (ls_curr s);
    li_core : core (ls_curr s) = core c0;
    li_gl : halved c0 (ls_next s);
    li_J : ls_tau s = ls_tau_prev s -> cons_x (ls_next s) /\ (ls_tau s = 0 -> safe_of c0 (ls_next s)) }.
  Record LsPost (c0 : it) (s : ls_state (T:=R)) : Prop := {
    lp_cons : consistent (ls_curr s);
    lp_core : core (ls_curr s) = core c0;
    lp_next : consistent (ls_next s);
    lp_gl : halved c0 (ls_next s);
    lp_qub : qub_ok (ls_next s);
    lp_ls : Rlt_bool 0 (ls_tau s) = true -> it_ls_violated P (ls_curr s) (ls_next s) = false;
    lp_safe : ls_tau s = 0 -> safe_of c0 (ls_next s) }.

  Lemma cons_x_same (a b : it) : ix a = ix b -> ipsi a = ipsi b -> igrad a = igrad b -> cons_x a -> cons_x b.
  Proof. unfold cons_x. intros -> -> ->. exact (fun H => H). Qed.

  Lemma ls_invariant c0 q τi : forall fuel s, LsI c0 s ->
    match lsloop fuel q τi s with
    | LsDone s' => LsPost c0 s'
    | LsStopped s' => consistent (ls_curr s') /\ core (ls_curr s') = core c0
    | LsFuel => True
    end.
  Proof.
    induction fuel as [|fuel IH]; intros s HI; [exact I|].
    cbn [ls_loop]. destruct (stop_req (ls_cnt s)); [cbn [ls_curr]; split; apply HI|].
    change (@nltb R NumR) with Rlt_bool. change (@neqb R NumR) with Req_bool. change (@nleb R NumR) with Rle_bool.
    change (@n0 R NumR) with 0. change (@n1 R NumR) with 1.
    set (τ := ls_tau s) in *.
    (* the step phase *)
    set (ph := if Req_bool τ (ls_tau_prev s) then (ls_curr s, ls_next s, inc_polls (ls_cnt s))
               else if Req_bool τ 0 then take_safe_step grad_L (ls_curr s) (ls_next s) (inc_polls (ls_cnt s))
               else (ls_curr s, take_accel_step psi_grad_full τ q (ls_curr s) (ls_next s), inc_pg (inc_polls (ls_cnt s)))).
    assert (F : consistent (fst (fst ph)) /\ core (fst (fst ph)) = core c0 /\ halved c0 (snd (fst ph)) /\
                cons_x (snd (fst ph)) /\ (τ = 0 -> safe_of c0 (snd (fst ph)))).
    { subst ph. destruct HI as [Hc Hco Hgl HJ]. destruct (Req_bool_spec τ (ls_tau_prev s)) as [Et|Et].
      - cbn [fst snd]. destruct (HJ Et) as [Hx Hs]. split; [exact Hc|split; [exact Hco|split; [exact Hgl|split; [exact Hx|exact Hs]]]].
      - destruct (Req_bool_spec τ 0) as [E0|E0].
        + pose proof (safe_step_facts (ls_curr s) (ls_next s) (inc_polls (ls_cnt s)) Hc) as Hf. cbv zeta in Hf.
          destruct Hf as (H1 & H2 & H3 & H4 & H5 & H6 & H7).
          split; [exact H1|]. split; [now rewrite H2|]. split.
          { destruct Hgl as [j Ej]. exists j. unfold gl_of in *. now rewrite H6, H7. }
          split; [exact H3|]. intros _. apply core_fields in Hco. unfold safe_of. rewrite H4, H5. split; tauto.
        + cbn [fst snd]. destruct (accel_step_facts τ q (ls_curr s) (ls_next s)) as (H1 & H2 & H3).
          split; [exact Hc|]. split; [exact Hco|]. split.
          { destruct Hgl as [j Ej]. exists j. unfold gl_of in *. now rewrite H2, H3. }
          split; [exact H1|]. intros E; contradiction. }
    destruct ph as [[curr next] c1]. cbn [fst snd] in F. destruct F as (Fc & Fco & Fgl & Fx & Fs).
    (* fail branch *)
    match goal with |- context [if ?b then lsloop fuel q τi ?s1 else _] => destruct b eqn:Efail; [apply (IH s1)|] end.
    { constructor; cbn [ls_curr ls_next ls_tau ls_tau_prev].
      - exact Fc.
      - exact Fco.
      - apply core_fields in Fco. exists 0%nat. unfold gl_of, set_gamma_L; cbn [igam iL halve_n]. f_equal; tauto.
      - intros E0. exfalso. apply andb_prop in Efail. destruct Efail as [Hpos _].
        apply Rlt_bool_iff in Hpos. subst τ. lra. }
    (* prox step and ψ(x̂) of the candidate *)
    set (next1 := epsih (eprox next)).
    assert (N1 : consistent next1 /\ gl_of next1 = gl_of next /\ ix next1 = ix next /\ ipsi next1 = ipsi next /\ igrad next1 = igrad next).
    { subst next1. destruct (eprox_cons next Fx) as [Hx Hs]. split; [apply epsih_cons; assumption|].
      destruct (epsih_fields (eprox next)) as (E1 & E2 & E3 & E4 & E5 & E6 & E7 & _).
      unfold gl_of. rewrite E6, E7, E1, E5, E3. repeat split. }
    destruct N1 as (Nc & Ngl & Nx & Npsi & Ngr).
    assert (Fx1 : cons_x next1) by apply Nc.
    assert (Fs1 : τ = 0 -> safe_of c0 next1).
    { intros E. destruct (Fs E) as [A B]. unfold safe_of. now rewrite Nx, Npsi. }
    assert (Fgl1 : halved c0 next1).
    { destruct Fgl as [j Ej]. exists j. now rewrite Ngl. }
    (* QUB branch *)
    match goal with |- context [if ?b then lsloop fuel q τi ?s1 else _] => destruct b eqn:Equb; [apply (IH s1)|] end.
    { constructor; cbn [ls_curr ls_next ls_tau ls_tau_prev].
      - exact Fc.
      - exact Fco.
      - apply (halved_step c0 next1 Fgl1). apply halve_it_gl.
      - intros E. split; [exact Fx1|]. intros E0. destruct (Rlt_bool_spec 0 τ) as [Hp|Hp].
        + (* τ_init = τ > 0 and τ_init = 0: impossible *) exfalso. lra.
        + apply Fs1. exact E0. }
    (* line-search branch *)
    match goal with |- context [if ?b then lsloop fuel q τi ?s1 else LsDone ?s2] => destruct b eqn:Els; [apply (IH s1)|] end.
    { constructor; cbn [ls_curr ls_next ls_tau ls_tau_prev].
      - exact Fc.
      - exact Fco.
      - exact Fgl1.
      - intros E. split; [exact Fx1|]. intros E0. apply Fs1.
        apply andb_prop in Els. destruct Els as [Hpos _]. apply Rlt_bool_iff in Hpos.
        (* the new τ equals the old one and is 0, but the old one is positive *) exfalso. lra. }
    constructor; cbn [ls_curr ls_next ls_tau ls_tau_prev].
    - exact Fc.
    - exact Fco.
    - exact Nc.
    - exact Fgl1.
    - exact Equb.
    - intros Hp. rewrite Hp in Els. exact Els.
    - exact Fs1.
  Qed.

  (* ------------------------------------------------------------------ the outer loop *)
  Definition L_init : R := iL (fst (init_L psi_grad_full grad_psi P x_in)).
  Definition gl0 : R * R := (p_Lgamma P / L_init, L_init).
  (* (γ, L) of an iterate is the initial pair after some number of halvings/doublings *)
  Definition glrel0 (i : it) : Prop := exists j, gl_of i = halve_n j gl0.
  Lemma glrel0_halved a b : glrel0 a -> halved a b -> glrel0 b.
  Proof.
    intros [j E] [k E']. exists (k + j)%nat. rewrite E', E. clear. induction k as [|k IH]; cbn [halve_n Nat.add]; [reflexivity|now rewrite IH].
  Qed.
  Lemma gl_core a b : core a = core b -> gl_of a = gl_of b.
  Proof. intros E. apply core_fields in E. unfold gl_of. f_equal; tauto. Qed.
  Lemma halved_core_r a b b' : core b = core b' -> halved a b -> halved a b'.
  Proof. intros E [j H]. exists j. now rewrite <- (gl_core _ _ E). Qed.
  Lemma halved_core_l a a' b : core a = core a' -> halved a b -> halved a' b.
  Proof. intros E [j H]. exists j. now rewrite <- (gl_core _ _ E). Qed.
  Lemma glrel0_core a b : core a = core b -> glrel0 a -> glrel0 b.
  Proof. intros E [j H]. exists j. now rewrite <- (gl_core _ _ E). Qed.
  Lemma ls_violated_core a a' b b' : core a = core a' -> core b = core b' ->
    it_ls_violated P a b = it_ls_violated P a' b'.
  Proof.
    intros Ea Eb. unfold it_ls_violated. rewrite (fbe_core _ _ Ea), (fbe_core _ _ Eb).
    apply core_fields in Ea. destruct Ea as (E1 & E2 & E3 & E4 & E5 & E6 & E7 & E8 & E9 & E10 & E11 & E12).
    now rewrite E8, E9, E10.
  Qed.
  Lemma safe_of_core a a' b b' : core a = core a' -> core b = core b' -> safe_of a b -> safe_of a' b'.
  Proof.
    intros Ea Eb [H1 H2]. apply core_fields in Ea. apply core_fields in Eb. unfold safe_of.
    destruct Ea as (E1 & E2 & E3 & E4 & E5 & E6 & E7 & _). destruct Eb as (F1 & F2 & F3 & F4 & F5 & F6 & _).
    rewrite <- F1, <- F6, <- E2, <- E7. split; assumption.
  Qed.

  (* what is known about one progress-callback record *)
  Definition rec_ok (r : cbrec (T:=R)) : Prop :=
    let i := r_it r in
    cons_x i /\ cons_step i /\ glrel0 i /\ (r_k r <= p_max_iter P)%nat /\
    ((p_recompute P = false \/ r_status r <> StBusy) -> cons_hat i /\ qub_ok i).
  (* record r of iteration k  vs  the iterate c' of iteration k+1 *)
  Definition link (r : cbrec (T:=R)) (k' : nat) (c' : it) : Prop :=
    r_status r = StBusy /\ k' = S (r_k r) /\ halved (r_it r) c' /\
    (p_recompute P = false ->
       (Rlt_bool 0 (r_tau r) = true -> it_ls_violated P (r_it r) c' = false) /\
       (r_tau r = 0 -> safe_of (r_it r) c')).
  Definition desc (r r' : cbrec (T:=R)) : Prop := link r (r_k r') (r_it r').
  (* newest-first list of records: every consecutive pair is linked *)
  Fixpoint chain (log : list (cbrec (T:=R))) : Prop :=
    match log with
    | r' :: tl => match tl with r :: _ => desc r r' | [] => True end /\ chain tl
    | [] => True
    end.
  Lemma link_core r k c c' : core c = core c' -> link r k c -> link r k c'.
  Proof.
    intros E (H1 & H2 & H3 & H4). split; [exact H1|]. split; [exact H2|]. split; [apply (halved_core_r _ c); assumption|].
    intros Er. destruct (H4 Er) as [H5 H6]. split.
    - intros Hp. rewrite <- (ls_violated_core (r_it r) (r_it r) c c' eq_refl E). now apply H5.
    - intros Hz. apply (safe_of_core (r_it r) (r_it r) c c' eq_refl E). now apply H6.
  Qed.

  Record Inv (s : lstate (T:=R)) : Prop := {
    iv_cons : consistent (st_curr s);
    iv_qub : qub_ok (st_curr s);
    iv_gl : glrel0 (st_curr s);
    iv_k : (st_k s <= p_max_iter P)%nat;
    iv_log : Forall rec_ok (st_log s);
    iv_chain : chain (st_log s);
    iv_link : match st_log s with r :: _ => link r (st_k s) (st_curr s) | [] => st_k s = 0%nat end }.

  (* what is known about the result of a completed run *)
  (* po_cf: the iterate at the final stop check; po_cnt: the event counters at that check; po_np: the no-progress counter *)
  Record PostW (po_cf : it) (po_cnt : counters) (po_np : nat) (o : outputs (T:=R)) : Prop := {
    po_cons : consistent po_cf;
    po_qub : qub_ok po_cf;
    po_gl : glrel0 po_cf;
    po_have : need_gradh P = true -> ihave po_cf = true;
    po_final : out_final o = (if overwrites (out_status o) (o_always P) && p_eager P then epsihx po_cf else po_cf);
    po_eps : out_eps o = eps_of po_cf;
    po_status : out_status o = stop_status_helpers (o_tol P) (out_eps o) (time_up po_cnt) (out_iterations o) (p_max_iter P)
                                                   po_np (p_max_no_progress P) (stop_req po_cnt);
    po_notbusy : out_status o <> StBusy;
    po_iter : (out_iterations o <= p_max_iter P)%nat;
    po_exit : (out_x o, out_y o, out_errz o) =
              exit_block (out_status o) (o_always P) x_in y_in errz_in (ixh po_cf) (iyh (out_final o)) Σ;
    po_log : Forall rec_ok (out_log o);
    po_chain : chain (rev (out_log o));
    po_last : hd_error (rev (out_log o)) = Some (mkCb (out_iterations o) po_cf [] (- 1) (out_eps o) (out_status o)) }.
  Definition Post (o : outputs (T:=R)) : Prop := exists cf cnt np, PostW cf cnt np o.

  Lemma epsih_core (i : it) : cons_hat i -> core (epsih i) = core i.
  Proof.
    intros [Hh _]. pose proof (epsih_hat i) as E. rewrite <- Hh in E. inversion E as [[E1 E2]].
    destruct (epsih_fields i) as (F1 & F2 & F3 & F4 & F5 & F6 & F7 & F8 & F9 & F10).
    unfold core. now rewrite F1, F2, F3, F4, F5, F6, F7, F8, F9, F10, E1, E2.
  Qed.

  Lemma tau_init_cases (r : option (list R)) :
    let t := match r with Some q' => if vall_finite q' then 1 else 0 | None => 0 end in t = 0 \/ t = 1.
  Proof. destruct r as [q'|]; cbv zeta; [destruct (vall_finite q')|]; auto. Qed.

  Lemma pass_inv (s : lstate (T:=R)) : Inv s ->
    match pass_ s with PCont s' => Inv s' | PExit o => Post o | PFuel => True end.
  Proof.
    intros [Hc Hq Hgl Hk Hlog Hch Hlk]. unfold pass. cbv zeta.
    change (@n0 R NumR) with 0. change (@n1 R NumR) with 1. change (@nopp R NumR) with Ropp.
    set (need := need_gradh P && negb (ihave (st_curr s))).
    set (curr := if need then egradh (st_curr s) else st_curr s).
    set (c0 := if need then inc_gl (st_cnt s) else st_cnt s).
    assert (Hcurr : consistent curr /\ core curr = core (st_curr s) /\ (need_gradh P = true -> ihave curr = true)).
    { subst curr need. destruct (need_gradh P); cbn [andb]; [|split; [exact Hc|split; [reflexivity|discriminate]]].
      destruct (ihave (st_curr s)) eqn:Eh; cbn [negb].
      - split; [exact Hc|split; [reflexivity|intros _; exact Eh]].
      - destruct (egradh_cons _ Hc) as (A & B & C). split; [exact A|split; [exact B|intros _; exact C]]. }
    destruct Hcurr as (Cc & Cco & Chave).
    assert (Cq : qub_ok curr) by (apply (qub_ok_core (st_curr s)); [now symmetry|exact Hq]).
    assert (Cgl : glrel0 curr) by (apply (glrel0_core (st_curr s)); [now symmetry|exact Hgl]).
    assert (Clk : match st_log s with r :: _ => link r (st_k s) curr | [] => st_k s = 0%nat end).
    { destruct (st_log s) as [|r tl]; [exact Hlk|]. apply (link_core r _ (st_curr s)); [now symmetry|exact Hlk]. }
    set (ε := eps_of curr). set (k := st_k s) in *.
    destruct (stop_status_helpers (o_tol P) ε (time_up c0) k (p_max_iter P) (st_np s) (p_max_no_progress P) (stop_req c0)) eqn:Est.
    2-8: match goal with |- context [exit_block ?st _ _ _ _ _ _ _] =>
           set (ow := overwrites st (o_always P));
           set (cf := if ow && p_eager P then epsihx curr else curr);
           assert (Exh : ixh cf = ixh curr) by (subst cf; destruct (ow && p_eager P); reflexivity);
           rewrite Exh;
           destruct (exit_block st (o_always P) x_in y_in errz_in (ixh curr) (iyh cf) Σ) as [[xo yo] eo] eqn:Eex;
           exists curr, c0, (st_np s); constructor; cbn [out_status out_iterations out_eps out_x out_y out_errz out_final out_log];
           [exact Cc|exact Cq|exact Cgl|exact Chave|reflexivity|reflexivity|now rewrite Est|discriminate|exact Hk
           |now rewrite Eex
           |apply Forall_rev; constructor; [|exact Hlog];
            unfold rec_ok; cbn [r_it r_k r_status]; split; [apply Cc|split; [apply Cc|split; [exact Cgl|split; [exact Hk|intros _; split; [apply Cc|exact Cq]]]]]
           |rewrite rev_involutive; cbn [chain]; split; [|exact Hch]; destruct (st_log s) as [|r tl]; [exact I|exact Clk]
           |rewrite rev_involutive; reflexivity]
         end.
    (* Busy: direction, line search *)
    apply busy_iff in Est. destruct Est as (_ & _ & Hne & _).
    set (c2 := if (k =? 0)%nat then inc_dir (inc_polls c0) else inc_polls c0).
    set (use_dir := (0 <? k)%nat || has_initial).
    set (r := if use_dir then dir_apply (c_apply c2) curr else None).
    set (q := match r with Some q' => q' | None => st_q s end).
    set (τi := match r with Some q' => if vall_finite q' then 1 else 0 | None => 0 end).
    match goal with |- context [lsloop ls_fuel q τi ?l0] => set (ls0 := l0) end.
    assert (HI : LsI curr ls0).
    { subst ls0. constructor; cbn [ls_curr ls_next ls_tau ls_tau_prev].
      - exact Cc.
      - reflexivity.
      - exists 0%nat. reflexivity.
      - intros E. exfalso. destruct (tau_init_cases r) as [E0|E0]; fold τi in E0; lra. }
    pose proof (ls_invariant curr q τi ls_fuel ls0 HI) as Hls.
    destruct (lsloop ls_fuel q τi ls0) as [l|l|]; [| |exact I].
    - (* line search completed *)
      destruct Hls as [Lc Lco Ln Lgl Lq Lls Lsafe].
      set (cur := ls_curr l) in *. set (nxt := ls_next l) in *. set (τ := ls_tau l) in *.
      match goal with |- Inv (mkSt _ ?c2' _ _ _ _ _ (?rc :: _)) => set (curr2 := c2'); set (rec := rc) end.
      assert (H2 : (p_recompute P = false -> curr2 = cur) /\ cons_x curr2 /\ cons_step curr2 /\
                   (gl_of curr2 = gl_of cur \/ gl_of curr2 = gl_of nxt)).
      { subst curr2. destruct (negb (ls_updated l) && negb (neqb (igam cur) (igam nxt)) && p_recompute P) eqn:Eb.
        - apply andb_prop in Eb. destruct Eb as [_ Er]. split; [intros E; rewrite E in Er; discriminate|].
          destruct (eprox_cons (set_gamma_L cur (igam nxt) (iL nxt))) as [A B]; [apply Lc|]. split; [exact A|]. split; [exact B|].
          right. reflexivity.
        - split; [reflexivity|]. split; [apply Lc|]. split; [apply Lc|]. left. reflexivity. }
      destruct H2 as (Hrc & H2x & H2s & H2gl).
      assert (Hcn : halved cur nxt) by (apply (halved_core_l curr); [now symmetry|exact Lgl]).
      assert (Hh2 : halved curr2 nxt).
      { destruct H2gl as [E|E]; [destruct Hcn as [j Ej]; exists j; now rewrite E|exists 0%nat; now rewrite E]. }
      assert (Hh1 : halved cur curr2).
      { destruct H2gl as [E|E]; [exists 0%nat; now rewrite E|destruct Hcn as [j Ej]; exists j; now rewrite E]. }
      assert (Hg2 : glrel0 curr2).
      { apply (glrel0_halved cur); [|exact Hh1]. apply (glrel0_core curr); [now symmetry|exact Cgl]. }
      constructor; cbn [st_curr st_k st_log].
      + exact Ln.
      + exact Lq.
      + apply (glrel0_halved curr); assumption.
      + lia.
      + constructor; [|exact Hlog]. unfold rec_ok; subst rec; cbn [r_it r_k r_status].
        split; [exact H2x|]. split; [exact H2s|]. split; [exact Hg2|]. split; [exact Hk|].
        intros [Er|Er]; [|contradiction]. rewrite (Hrc Er). split; [apply Lc|].
        apply (qub_ok_core curr); [now symmetry|exact Cq].
      + cbn [chain]. split; [|exact Hch]. destruct (st_log s) as [|r0 tl]; [exact I|].
        unfold desc; subst rec; cbn [r_k r_it]. destruct Clk as (K1 & K2 & K3 & K4).
        split; [exact K1|]. split; [exact K2|]. split.
        { apply (halved_trans _ curr); [exact K3|]. apply (halved_core_l cur); [exact Lco|exact Hh1]. }
        intros Er. rewrite (Hrc Er). destruct (K4 Er) as [K5 K6]. split.
        * intros Hp. rewrite <- (ls_violated_core (r_it r0) (r_it r0) curr cur eq_refl); [now apply K5|now symmetry].
        * intros H0. apply (safe_of_core (r_it r0) (r_it r0) curr cur eq_refl); [now symmetry|now apply K6].
      + unfold link; subst rec; cbn [r_status r_k r_it r_tau]. split; [reflexivity|]. split; [reflexivity|]. split; [exact Hh2|].
        intros Er. rewrite (Hrc Er). split; [exact Lls|].
        intros H0. apply (safe_of_core curr cur nxt nxt); [now symmetry|reflexivity|now apply Lsafe].
    - (* interrupted during the line search: same k, same core of curr *)
      destruct Hls as [Lc Lco].
      constructor; cbn [st_curr st_k st_log].
      + exact Lc.
      + apply (qub_ok_core curr); [now symmetry|exact Cq].
      + apply (glrel0_core curr); [now symmetry|exact Cgl].
      + exact Hk.
      + exact Hlog.
      + exact Hch.
      + destruct (st_log s) as [|r0 tl]; [exact Clk|]. apply (link_core r0 _ curr); [now symmetry|exact Clk].
  Qed.

  Lemma loop_inv : forall fuel s o, Inv s -> loop_ fuel s = Done o -> Post o.
  Proof.
    induction fuel as [|fuel IH]; intros s o HI; cbn [loop]; [discriminate|].
    pose proof (pass_inv s HI) as Hp. destruct (pass_ s) as [o'|s'|].
    - intros E. inversion E. subst. exact Hp.
    - apply IH. exact Hp.
    - discriminate.
  Qed.

  Notation initqub := (init_qub psi_grad_full psi_yhat lb ub l1 P).
  Lemma init_qub_inv : forall fuel i c st i' c' st', consistent i -> glrel0 i ->
    initqub fuel i c st = Some (i', c', st') -> consistent i' /\ glrel0 i' /\ qub_ok i'.
  Proof.
    induction fuel as [|fuel IH]; intros i c st i' c' st' Hc Hg; cbn [init_qub];
      change (@nltb R NumR) with Rlt_bool;
      destruct (Rlt_bool (iL i) (p_Lmax P) && qubv i) eqn:Eq; try discriminate.
    1,3: intros E; inversion E; subst; repeat split; try apply Hc; assumption.
    apply IH.
    - destruct (eprox_cons (halve_it i)) as [A B]; [apply Hc|]. apply epsih_cons; assumption.
    - destruct Hg as [j Ej]. exists (S j). cbn [halve_n]. rewrite <- Ej, <- halve_it_gl.
      destruct (epsih_fields (eprox (halve_it i))) as (_ & _ & _ & _ & _ & F6 & F7 & _). unfold gl_of. now rewrite F6, F7.
  Qed.

  Lemma init_L_cons_x : cons_x (fst (init_L psi_grad_full grad_psi P x_in)).
  Proof.
    unfold init_L. cbv zeta. destruct (nleb (p_L0 P) n0); cbn [fst]; unfold cons_x, val_x; cbn [ix ipsi igrad];
      left; destruct (pgrad x_in); reflexivity.
  Qed.
  Lemma init_L_x : ix (fst (init_L psi_grad_full grad_psi P x_in)) = x_in.
  Proof. unfold init_L. cbv zeta. destruct (nleb (p_L0 P) n0); reflexivity. Qed.

  Notation initL := (init_L psi_grad_full grad_psi P x_in).
  Definition first_iterate (i0 : it) : it := epsih (eprox (set_gamma_L i0 (p_Lgamma P / iL i0) (iL i0))).

  Lemma init_inv i0 c0 i3 c1 s1 : initL = (i0, c0) ->
    initqub ls_fuel (first_iterate i0) (cnt_psih P c0) stats0 = Some (i3, c1, s1) ->
    Inv (mkSt i3 it_blank 0 0 [] c1 s1 []).
  Proof.
    intros E0 Eq. pose proof init_L_cons_x as Hx0.
    assert (HL : L_init = iL i0) by (unfold L_init; now rewrite E0).
    rewrite E0 in Hx0. cbn [fst] in Hx0. unfold first_iterate in Eq.
    set (i1 := set_gamma_L i0 (p_Lgamma P / iL i0) (iL i0)) in *.
    destruct (eprox_cons i1) as [A B]; [exact Hx0|].
    pose proof (epsih_cons _ A B) as Hc2.
    assert (Hg2 : glrel0 (epsih (eprox i1))).
    { exists 0%nat. cbn [halve_n]. destruct (epsih_fields (eprox i1)) as (_ & _ & _ & _ & _ & F6 & F7 & _).
      unfold gl_of, gl0. rewrite F6, F7, HL. reflexivity. }
    destruct (init_qub_inv _ _ _ _ _ _ _ Hc2 Hg2 Eq) as (H1 & H2 & H3).
    constructor; cbn [st_curr st_k st_log]; try assumption; try constructor; try lia.
  Qed.

  (* MAIN: every completed run satisfies Post *)
  Theorem panoc_post fuel o : panoc_ fuel = Done o -> Post o.
  Proof.
    unfold panoc. destruct initL as [i0 c0] eqn:E0.
    destruct (negb (nfinite (iL i0))); [discriminate|].
    change (@ndiv R NumR) with Rdiv. fold (first_iterate i0).
    destruct (initqub ls_fuel (first_iterate i0) (cnt_psih P c0) stats0) as [[[i3 c1] s1]|] eqn:Eq; [|discriminate].
    apply loop_inv. exact (init_inv _ _ _ _ _ E0 Eq).
  Qed.

  (* the states at the top of `while (true)`: the one built by the initialisation, and every state a pass continues with
     (after a completed iteration OR after a line search that was interrupted by a stop request) *)
  Inductive reachable : lstate (T:=R) -> Prop :=
  | reach_init i0 c0 i3 c1 s1 : initL = (i0, c0) ->
      initqub ls_fuel (first_iterate i0) (cnt_psih P c0) stats0 = Some (i3, c1, s1) ->
      reachable (mkSt i3 it_blank 0 0 [] c1 s1 [])
  | reach_step s s' : reachable s -> pass_ s = PCont s' -> reachable s'.
  Theorem reachable_inv s : reachable s -> Inv s.
  Proof.
    induction 1 as [i0 c0 i3 c1 s1 E0 Eq|s s' _ IH Ep]; [exact (init_inv _ _ _ _ _ E0 Eq)|].
    pose proof (pass_inv s IH) as Hp. now rewrite Ep in Hp.
  Qed.
  (* the iterate the stop check of a pass looks at (after the optional evaluation of ∇ψ(x̂)) *)
  Definition check_iterate (s : lstate (T:=R)) : it :=
    if need_gradh P && negb (ihave (st_curr s)) then egradh (st_curr s) else st_curr s.
  Lemma check_iterate_consistent s : Inv s ->
    consistent (check_iterate s) /\ qub_ok (check_iterate s) /\ glrel0 (check_iterate s) /\ (need_gradh P = true -> ihave (check_iterate s) = true).
  Proof.
    intros [Hc Hq Hgl _ _ _ _]. unfold check_iterate. destruct (need_gradh P); cbn [andb];
      [|split; [exact Hc|split; [exact Hq|split; [exact Hgl|discriminate]]]].
    destruct (ihave (st_curr s)) eqn:Eh; cbn [negb]; [split; [exact Hc|split; [exact Hq|split; [exact Hgl|intros _; exact Eh]]]|].
    destruct (egradh_cons _ Hc) as (A & B & C).
    split; [exact A|]. split; [apply (qub_ok_core (st_curr s)); [now symmetry|exact Hq]|].
    split; [apply (glrel0_core (st_curr s)); [now symmetry|exact Hgl]|]. intros _; exact C.
  Qed.

  (* ------------------------------------------------------------------ (a) reading the invariant *)
  Definition coherent : Prop := forall x, pgrad x = (fst (psi_hat_of x), grad_L x (snd (psi_hat_of x))).

  Lemma consistent_explicit (i : it) : consistent i ->
    ixh i = vadd (ix i) (ip i) /\
    eval_prox_grad_step lb ub l1 (igam i) (ix i) (igrad i) = (ixh i, ip i, ih i) /\
    ipp i = vsqnorm (ip i) /\ igp i = vdot (ip i) (igrad i) /\
    (ipsih i, iyh i) = psi_hat_of (ixh i) /\
    (ihave i = true -> is_gradh (ixh i) (iyh i) (igradh i)) /\
    val_x (ix i) (ipsi i) (igrad i).
  Proof.
    intros (Hx & Hs & Hh). split; [apply cons_step_xh, Hs|]. destruct Hs as (S1 & S2 & S3). destruct Hh as (H1 & H2). tauto.
  Qed.
  Lemma is_gradh_coherent x g : coherent -> is_gradh x (snd (psi_hat_of x)) g -> g = snd (pgrad x).
  Proof.
    intros Hco [E|[Ee E]]; [rewrite (Hco x); cbn [snd]; exact E|].
    rewrite E. reflexivity.
  Qed.
  Lemma val_x_coherent x ψ g : coherent -> val_x x ψ g -> (ψ, g) = pgrad x.
  Proof.
    intros Hco [E|[E1 E2]]; [exact E|]. rewrite (is_gradh_coherent x g Hco E2), E1, (Hco x). reflexivity.
  Qed.
  (* under oracle coherence: ψx, ∇ψ are the values of eval_ψ_grad_ψ at x, and a valid ∇ψ(x̂) buffer holds its gradient at x̂ *)
  Lemma consistent_coherent (i : it) : coherent -> consistent i ->
    (ipsi i, igrad i) = pgrad (ix i) /\ (ihave i = true -> igradh i = snd (pgrad (ixh i))).
  Proof.
    intros Hco (Hx & _ & Hh1 & Hh2). split; [apply val_x_coherent; assumption|].
    intros Hv. apply is_gradh_coherent; [exact Hco|]. rewrite <- Hh1. cbn [snd]. apply Hh2, Hv.
  Qed.

  (* ------------------------------------------------------------------ (b) γ·L and monotonicity of γ *)
  Lemma glrel0_product (i : it) : glrel0 i -> igam i * iL i = p_Lgamma P / L_init * L_init.
  Proof.
    intros [j E]. unfold gl_of in E. pose proof (halve_n_product j (p_Lgamma P / L_init) L_init) as Hp.
    fold gl0 in Hp. rewrite <- E in Hp. exact Hp.
  Qed.
  Lemma glrel0_product_factor (i : it) : L_init <> 0 -> glrel0 i -> igam i * iL i = p_Lgamma P.
  Proof. intros HL Hg. rewrite (glrel0_product i Hg). field. exact HL. Qed.
  Lemma halved_nonincreasing (a b : it) : halved a b -> 0 < igam a -> 0 < igam b <= igam a.
  Proof.
    intros [j E] Hp. pose proof (halve_n_nonincreasing j (igam a) (iL a) Hp) as Hn.
    unfold gl_of in E. rewrite <- E in Hn. exact Hn.
  Qed.
  Lemma halved_product (a b : it) : halved a b -> igam b * iL b = igam a * iL a.
  Proof.
    intros [j E]. pose proof (halve_n_product j (igam a) (iL a)) as Hp. unfold gl_of in E. rewrite <- E in Hp. exact Hp.
  Qed.
  Lemma glrel0_pos (i : it) : 0 < p_Lgamma P -> 0 < L_init -> glrel0 i -> 0 < igam i.
  Proof.
    intros H1 H2 [j E]. assert (Hp : 0 < p_Lgamma P / L_init) by (apply Rdiv_lt_0_compat; assumption).
    pose proof (halve_n_nonincreasing j _ L_init Hp) as Hn. fold gl0 in Hn. rewrite <- E in Hn. apply Hn.
  Qed.

  (* ------------------------------------------------------------------ (c) quadratic upper bound at every checked / reported iterate *)
  Lemma qub_ok_explicit (i : it) : qub_ok i ->
    p_Lmax P <= iL i \/
    ipsih i <= ipsi i + igp i + 1 / 2 * iL i * ipp i + (1 + Rabs (ipsi i)) * p_qub_tol P.
  Proof.
    unfold qub_ok, it_qub_violated, qub_violated, qub_rhs, nhalf1. numR. rewrite ?one_plus_one.
    destruct (Rlt_bool_spec (iL i) (p_Lmax P)); cbn [andb]; [|left; assumption].
    intros Hq. right. apply Rlt_bool_false_iff in Hq. exact Hq.
  Qed.

  (* ------------------------------------------------------------------ (d) descent between consecutive reported iterates *)
  Lemma desc_accelerated (r r' : cbrec (T:=R)) : desc r r' -> p_recompute P = false -> p_force_ls P = false -> 0 < r_tau r ->
    let a := r_it r in
    it_fbe (r_it r') <= it_fbe a - p_beta P * (1 - igam a * iL a) / (2 * igam a) * ipp a + (1 + Rabs (it_fbe a)) * p_ls_tol P.
  Proof.
    intros (_ & _ & _ & H) Hr Hf Hp a. destruct (H Hr) as [Hls _].
    assert (Hb : Rlt_bool 0 (r_tau r) = true) by (now apply Rlt_bool_iff).
    specialize (Hls Hb). unfold it_ls_violated in Hls. rewrite Hf in Hls. apply ls_accept_descent in Hls. exact Hls.
  Qed.

  Lemma vdot_comm (a b : list R) : vdot a b = vdot b a.
  Proof.
    rewrite !vdot_rsum. revert b; induction a as [|x a IH]; intros [|y b]; cbn; try reflexivity. rewrite IH. lra.
  Qed.
  Lemma proj_step_all_in_box γ : forall (lb' ub' : list (option R)) (x g : list R),
    length ub' = length lb' -> length x = length lb' -> length g = length lb' ->
    Forall2 box_ne lb' ub' -> all_in_box lb' ub' (fst (fst (proj_grad_step lb' ub' γ x g))).
  Proof.
    unfold all_in_box, proj_grad_step; cbn [fst snd].
    induction lb' as [|l lb' IH]; intros [|u ub'] [|a x] [|b g] H1 H2 H3 Hne; cbn in *; try discriminate; constructor.
    - inversion Hne; subst. cbn [fst snd]. split; [|assumption].
      change (nadd a ?t) with (a + t). rewrite proj_step1_is_proj. now apply proj1_in_box.
    - inversion Hne; subst. apply IH; try lia; assumption.
  Qed.

  (* safeguarded step (τ = 0) with the quadratic upper bound satisfied at the reported iterate: C05's envelope descent *)
  Lemma desc_safe (r r' : cbrec (T:=R)) : desc r r' -> rec_ok r -> rec_ok r' -> p_recompute P = false -> l1 = [] ->
    r_tau r = 0 -> iL (r_it r) < p_Lmax P -> 0 < igam (r_it r) -> 0 < igam (r_it r') ->
    length ub = length lb -> length (ix (r_it r)) = length lb -> length (igrad (r_it r)) = length lb ->
    length (igrad (r_it r')) = length lb -> Forall2 box_ne lb ub ->
    let a := r_it r in
    it_fbe (r_it r') <= it_fbe a - (1 - igam a * iL a) / (2 * igam a) * ipp a + (1 + Rabs (ipsi a)) * p_qub_tol P.
  Proof.
    intros (_ & _ & _ & H) (Ax & As & _ & _ & Ag) (Bx & Bs & _) Hr Hl1 Ht HL Hga Hgb Hub Hlx Hlg Hlg' Hne a.
    destruct (H Hr) as [_ Hsafe]. destruct (Hsafe Ht) as [Sx Sp]. destruct (Ag (or_introl Hr)) as [_ Aq].
    subst a. set (a := r_it r) in *. set (b := r_it r') in *.
    unfold cons_step in As, Bs. rewrite Hl1 in As, Bs. cbn [eval_prox_grad_step] in As, Bs.
    destruct As as (As1 & As2 & As3). destruct Bs as (Bs1 & Bs2 & Bs3).
    assert (Eap : ip a = snd (fst (proj_grad_step lb ub (igam a) (ix a) (igrad a)))) by (now rewrite As1).
    assert (Eaxh : ixh a = fst (fst (proj_grad_step lb ub (igam a) (ix a) (igrad a)))) by (now rewrite As1).
    assert (Eah : ih a = 0) by (pose proof (f_equal snd As1) as Hh; unfold proj_grad_step in Hh; cbn [snd] in Hh; symmetry; exact Hh).
    assert (Ebp : ip b = snd (fst (proj_grad_step lb ub (igam b) (ixh a) (igrad b)))) by (rewrite <- Sx; now rewrite Bs1).
    assert (Ebh : ih b = 0) by (pose proof (f_equal snd Bs1) as Hh; unfold proj_grad_step in Hh; cbn [snd] in Hh; symmetry; exact Hh).
    assert (Hlen : length (ixh a) = length lb).
    { rewrite Eaxh. apply (proj_grad_step_length lb ub (igam a) (ix a) (igrad a) (length lb)); auto. }
    assert (Hbox : all_in_box lb ub (ixh a)) by (rewrite Eaxh; apply proj_step_all_in_box; assumption).
    assert (Hqv : qub_violated (ipsi a) (ipsih a) (vdot (igrad a) (ip a)) (iL a) (vsqnorm (ip a)) (p_qub_tol P) = false).
    { unfold qub_ok, it_qub_violated in Aq. rewrite As2, As3, (vdot_comm (ip a)) in Aq.
      destruct (Rlt_bool_spec (iL a) (p_Lmax P)); [exact Aq|lra]. }
    rewrite Eap in Hqv.
    pose proof (safe_step_envelope_descent lb ub (igam a) (igam b) (iL a) (p_qub_tol P) (ix a) (igrad a) (ixh a) (igrad b) (ipsi a) (ipsih a)
                  Hga Hgb ltac:(now rewrite Hlen) ltac:(now rewrite Hlen, Hub) ltac:(now rewrite Hlen, Hlg') Hbox Hqv) as Hd.
    cbv zeta in Hd. rewrite <- Ebp, <- Eap in Hd.
    unfold it_fbe. rewrite Ebh, Eah, Bs2, Bs3, As2, As3, Sp, (vdot_comm (ip b)), (vdot_comm (ip a)). exact Hd.
  Qed.

  (* ------------------------------------------------------------------ (e) iterations and status;  (f) exit *)
  Theorem panoc_status_clauses fuel o : panoc_ fuel = Done o ->
    (out_iterations o <= p_max_iter P)%nat /\
    out_status o <> StBusy /\
    (out_status o = StMaxIter -> out_iterations o = p_max_iter P) /\
    (out_status o = StConverged <-> out_eps o <= eff_tol (o_tol P)) /\
    (out_status o = StInterrupted -> exists c, stop_req c = true) /\
    (out_status o = StMaxTime -> exists c, time_up c = true) /\
    (out_status o = StNoProgress -> exists np, (p_max_no_progress P < np)%nat).
  Proof.
    intros Hr. destruct (panoc_post fuel o Hr) as (cf & cnt & np & W). destruct W.
    split; [assumption|]. split; [assumption|]. split; [|split; [|split; [|split]]].
    - intros E. rewrite E in po_status0. symmetry in po_status0. now apply maxiter_only_at_limit in po_status0.
    - rewrite po_status0. rewrite converged_iff. apply Rle_bool_iff.
    - intros E. rewrite E in po_status0. symmetry in po_status0. apply interrupted_only_if_requested in po_status0. eauto.
    - intros E. rewrite E in po_status0. symmetry in po_status0. apply maxtime_only_if_exceeded in po_status0. eauto.
    - intros E. rewrite E in po_status0. symmetry in po_status0. apply noprogress_only_above_limit in po_status0. eauto.
  Qed.

  (* exit: the written-back triple is the exit block of a consistent iterate; the multipliers written back are the ŷ output of
     eval_ψ at the returned point (also with eager gradient evaluation, where the exit block calls eval_ψ for them) *)
  Theorem panoc_exit fuel o : panoc_ fuel = Done o ->
    exists cf : it, consistent cf /\ qub_ok cf /\ glrel0 cf /\ (need_gradh P = true -> ihave cf = true) /\
      out_eps o = eps_of cf /\
      (overwrites (out_status o) (o_always P) = true ->
         out_x o = ixh cf /\ ixh cf = vadd (ix cf) (ip cf) /\
         out_y o = snd (psi_yhat (out_x o)) /\
         out_errz o = match errz_in with [] => [] | _ => vdiv (vsub (out_y o) y_in) Σ end) /\
      (overwrites (out_status o) (o_always P) = false -> out_x o = x_in /\ out_y o = y_in /\ out_errz o = errz_in).
  Proof.
    intros Hr. destruct (panoc_post fuel o Hr) as (cf & cnt & np & W). destruct W.
    exists cf. repeat (split; [assumption|]). unfold exit_block in po_exit0.
    split; intros Ho; rewrite Ho in po_exit0;
      pose proof (f_equal (fun t => fst (fst t)) po_exit0) as X1; pose proof (f_equal (fun t => snd (fst t)) po_exit0) as X2;
      pose proof (f_equal snd po_exit0) as X3; cbn [fst snd] in X1, X2, X3; rewrite X1, X2, X3.
    - destruct (consistent_explicit cf po_cons0) as (E1 & _ & _ & _ & E5 & _).
      split; [reflexivity|]. split; [exact E1|]. split; [|reflexivity].
      rewrite po_final0, Ho. cbn [andb]. destruct (p_eager P) eqn:Ee.
      + reflexivity.
      + pose proof (f_equal snd E5) as E5'. cbn [snd] in E5'. rewrite E5'. unfold psi_hat_of. rewrite Ee. reflexivity.
    - repeat split.
  Qed.

  (* the inner-solver contract of C01 (DESIGN §4): Converged under ApproxKKT.  ŷ_crit is the multiplier estimate the criterion's
     ∇ψ(x̂) was formed with: the ŷ output of eval_ψ(x̂), or with eager evaluation whatever eval_ψ_grad_ψ(x̂) left in its work_m argument
     (in that case the gradient itself is the one returned by eval_ψ_grad_ψ unless an interrupted line search forced eval_grad_L) *)
  Theorem panoc_inner_contract fuel o : panoc_ fuel = Done o ->
    out_status o = StConverged -> p_crit P = ApproxKKT -> l1 = [] ->
    exists (x grad gradh : list R) (γ : R),
      let step := proj_grad_step lb ub γ x grad in
      out_x o = fst (fst step) /\
      out_y o = snd (psi_yhat (out_x o)) /\
      is_gradh (out_x o) (snd (psi_hat_of (out_x o))) gradh /\
      out_errz o = match errz_in with [] => [] | _ => vdiv (vsub (out_y o) y_in) Σ end /\
      out_eps o = vnorminf (kkt_residual γ (snd (fst step)) grad gradh) /\
      out_eps o <= eff_tol (o_tol P) /\
      (exists ψ, val_x x ψ grad) /\
      (0 < p_Lgamma P -> 0 < L_init -> 0 < γ) /\
      (L_init <> 0 -> exists L, γ * L = p_Lgamma P).
  Proof.
    intros Hr Hst Hcrit Hl1. destruct (panoc_exit fuel o Hr) as (cf & Hc & Hq & Hg & Hh & He & Hov & _).
    assert (Hov' : overwrites (out_status o) (o_always P) = true) by (rewrite Hst; reflexivity).
    destruct (Hov Hov') as (O1 & O2 & O3 & O5).
    destruct (consistent_explicit cf Hc) as (E1 & E2 & E3 & E4 & E5 & E6 & E7).
    exists (ix cf), (igrad cf), (igradh cf), (igam cf). cbv zeta.
    rewrite Hl1 in E2. cbn [eval_prox_grad_step] in E2. rewrite E2. cbn [fst snd].
    split; [exact O1|]. split; [exact O3|]. split.
    { rewrite O1. pose proof (f_equal snd E5) as E5'. cbn [snd] in E5'. rewrite <- E5'. apply E6, Hh. unfold need_gradh. now rewrite Hcrit. }
    split; [exact O5|]. split.
    { rewrite He. unfold it_eps. rewrite Hcrit. reflexivity. }
    split; [destruct (panoc_status_clauses fuel o Hr) as (_ & _ & _ & Hcv & _); apply Hcv; exact Hst|].
    split; [exists (ipsi cf); exact E7|]. split; [intros; now apply glrel0_pos|].
    intros HL. exists (iL cf). now apply glrel0_product_factor.
  Qed.

  (* every progress-callback record and every consecutive pair *)
  Theorem panoc_records fuel o : panoc_ fuel = Done o ->
    Forall rec_ok (out_log o) /\ chain (rev (out_log o)) /\
    exists cf, hd_error (rev (out_log o)) = Some (mkCb (out_iterations o) cf [] (- 1) (out_eps o) (out_status o)) /\ consistent cf.
  Proof.
    intros Hr. destruct (panoc_post fuel o Hr) as (cf & cnt & np & W). destruct W. repeat split; try assumption. exists cf. split; assumption.
  Qed.

  (* the invariant at EVERY stop check (completed iterations and interrupted line searches alike) *)
  Theorem reachable_check s : reachable s ->
    consistent (check_iterate s) /\ qub_ok (check_iterate s) /\ glrel0 (check_iterate s) /\
    (need_gradh P = true -> ihave (check_iterate s) = true) /\ (st_k s <= p_max_iter P)%nat.
  Proof.
    intros Hr. pose proof (reachable_inv s Hr) as Hi. destruct (check_iterate_consistent s Hi) as (A & B & C & D).
    repeat (split; [assumption|]). apply Hi.
  Qed.
  (* ------------------------------------------------------------------ (g) the line search terminates *)
  Section Termination.
    Variables (cL : R) (nL nT : nat) (q : list R) (τi : R).
    Hypothesis HcL : 0 < cL.
    Hypothesis HLmax : p_Lmax P <= cL * 2 ^ nL.                       (* finite L_max: reached after nL doublings *)
    Hypothesis Hfac : 0 <= p_tau_factor P <= 1.
    Hypothesis Hmin : p_tau_factor P ^ nT < p_tau_min P.               (* τ falls below τ_min after nT reductions *)
    Hypothesis Hτi : τi = 0 \/ τi = 1.

    Definition phiA (a b : nat) : nat := ((nL - a) * (nT + 2) + (nT + 1 - b) + (nL + 2))%nat.
    Definition phiB (a : nat) : nat := (nL - a + 1)%nat.

    Lemma pow_le_1 x m n : 0 <= x <= 1 -> (m <= n)%nat -> x ^ n <= x ^ m.
    Proof.
      intros Hx Hmn. induction Hmn as [|n Hmn IH]; [lra|]. cbn [pow].
      assert (0 <= x ^ n) by (apply pow_le; lra). nra.
    Qed.
    Lemma iL_safe_next (curr next : it) c : iL (snd (fst (take_safe_step grad_L curr next c))) = iL next.
    Proof. unfold take_safe_step. destruct (ihave curr); reflexivity. Qed.
    Lemma iL_safe_curr (curr next : it) c : iL (fst (fst (take_safe_step grad_L curr next c))) = iL curr.
    Proof. unfold take_safe_step. destruct (ihave curr); reflexivity. Qed.
    Lemma iL_psih_prox (i : it) : iL (epsih (eprox i)) = iL i.
    Proof. unfold eval_psih. destruct (p_eager P); reflexivity. Qed.
    Lemma iL_halve (i : it) : iL (halve_it i) = iL i * 2.
    Proof. unfold halve_it, halve_step, set_gamma_L. cbn [iL snd fst]. cbv [n2 nmul nadd n1 NumR]. lra. Qed.

    Lemma ls_no_fuel : forall fuel s a b,
      iL (ls_curr s) = cL -> iL (ls_next s) = cL * 2 ^ a -> (a <= nL)%nat ->
      ((0 < ls_tau s /\ τi = 1 /\ ls_tau s = p_tau_factor P ^ b /\ (b <= nT)%nat /\ (phiA a b <= fuel)%nat) \/
       (ls_tau s = 0 /\ (phiB a <= fuel)%nat)) ->
      lsloop fuel q τi s <> LsFuel.
    Proof.
      induction fuel as [|fuel IH]; intros s a b Hc Hn Ha Hph.
      { exfalso. unfold phiA, phiB in Hph. destruct Hph as [(_ & _ & _ & _ & H)|(_ & H)]; nia. }
      cbn [ls_loop]. destruct (stop_req (ls_cnt s)); [discriminate|].
      change (@nltb R NumR) with Rlt_bool. change (@neqb R NumR) with Req_bool. change (@nleb R NumR) with Rle_bool.
      change (@n0 R NumR) with 0. change (@n1 R NumR) with 1. change (@nmul R NumR) with Rmult.
      set (τ := ls_tau s) in *.
      set (ph := if Req_bool τ (ls_tau_prev s) then (ls_curr s, ls_next s, inc_polls (ls_cnt s))
                 else if Req_bool τ 0 then take_safe_step grad_L (ls_curr s) (ls_next s) (inc_polls (ls_cnt s))
                 else (ls_curr s, take_accel_step psi_grad_full τ q (ls_curr s) (ls_next s), inc_pg (inc_polls (ls_cnt s)))).
      assert (F : iL (fst (fst ph)) = cL /\ iL (snd (fst ph)) = cL * 2 ^ a).
      { subst ph. destruct (Req_bool τ (ls_tau_prev s)); [split; assumption|].
        destruct (Req_bool τ 0); [rewrite iL_safe_curr, iL_safe_next; split; assumption|split; [assumption|exact Hn]]. }
      destruct ph as [[curr next] c1]. cbn [fst snd] in F. destruct F as [Fc Fn].
      (* fail branch *)
      match goal with |- context [if ?bb then lsloop fuel q τi ?s1 else _] => destruct bb eqn:Efail; [apply (IH s1 0%nat 0%nat)|] end.
      { exact Fc. }
      { cbn [ls_next]. unfold set_gamma_L; cbn [iL]. rewrite Fc. cbn [pow]. lra. }
      { lia. }
      { right. cbn [ls_tau]. split; [reflexivity|]. apply andb_prop in Efail. destruct Efail as [Hpos _]. apply Rlt_bool_iff in Hpos.
        destruct Hph as [(_ & _ & _ & _ & H)|(H0 & _)]; [unfold phiA, phiB in *; nia|lra]. }
      set (next1 := epsih (eprox next)).
      assert (N1 : iL next1 = cL * 2 ^ a) by (subst next1; rewrite iL_psih_prox; exact Fn).
      (* QUB branch: next.L < L_max, so fewer than nL doublings so far *)
      match goal with |- context [if ?bb then lsloop fuel q τi ?s1 else _] => destruct bb eqn:Equb; [apply (IH s1 (S a) 0%nat)|] end.
      { exact Fc. }
      { cbn [ls_next]. rewrite iL_halve, N1. cbn [pow]. lra. }
      { apply andb_prop in Equb. destruct Equb as [HL _]. apply Rlt_bool_iff in HL. rewrite N1 in HL.
        destruct (Nat.lt_ge_cases a nL) as [Hlt|Hge]; [lia|]. exfalso.
        assert (2 ^ nL <= 2 ^ a) by (apply Rle_pow; [lra|exact Hge]). nra. }
      { apply andb_prop in Equb. destruct Equb as [HL _]. apply Rlt_bool_iff in HL. rewrite N1 in HL.
        assert (Hlt : (a < nL)%nat).
        { destruct (Nat.lt_ge_cases a nL) as [Hlt|Hge]; [exact Hlt|]. exfalso.
          assert (2 ^ nL <= 2 ^ a) by (apply Rle_pow; [lra|exact Hge]). nra. }
        cbn [ls_tau]. destruct Hph as [(Hp & Hi & Ht & Hb & Hf)|(H0 & Hf)].
        - left. apply Rlt_bool_iff in Hp. rewrite Hp. rewrite Hi. split; [lra|]. split; [reflexivity|]. split; [cbn [pow]; lra|]. split; [lia|].
          unfold phiA in *. nia.
        - right. destruct (Rlt_bool_spec 0 τ) as [Hp|Hp]; [lra|]. split; [exact H0|]. unfold phiB in *. lia. }
      (* line-search branch *)
      match goal with |- context [if ?bb then lsloop fuel q τi ?s1 else LsDone ?s2] => destruct bb eqn:Els; [|discriminate] end.
      apply andb_prop in Els. destruct Els as [Hpos _]. apply Rlt_bool_iff in Hpos.
      destruct Hph as [(Hp & Hi & Ht & Hb & Hf)|(H0 & _)]; [|lra].
      match goal with |- lsloop fuel q τi ?s1 <> LsFuel => apply (IH s1 a (S b)) end.
      { exact Fc. }
      { exact N1. }
      { exact Ha. }
      cbn [ls_tau]. fold τ in Ht. destruct (Rlt_bool_spec (τ * p_tau_factor P) (p_tau_min P)) as [Hlt|Hge].
      - right. split; [reflexivity|]. unfold phiA, phiB in *. nia.
      - left. assert (Hpw : τ * p_tau_factor P = p_tau_factor P ^ S b) by (rewrite Ht; cbn [pow]; lra).
        assert (Hb' : (S b <= nT)%nat).
        { destruct (Nat.lt_ge_cases b nT) as [Hl|Hg]; [lia|]. exfalso.
          assert (p_tau_factor P ^ S b <= p_tau_factor P ^ nT) by (apply pow_le_1; [exact Hfac|lia]). lra. }
        assert (0 <= p_tau_factor P ^ nT) by (apply pow_le; lra).
        split; [lra|]. split; [exact Hi|]. split; [exact Hpw|]. split; [exact Hb'|]. unfold phiA in *. nia.
    Qed.

    (* explicit bound on the number of passes of `while (!stop_requested)` in one iteration *)
    Definition ls_pass_bound : nat := ((nL + 1) * (nT + 3))%nat.
    Theorem ls_terminates (curr next : it) upd c st : iL curr = cL -> forall fuel, (ls_pass_bound <= fuel)%nat ->
      lsloop fuel q τi (mkLs curr (set_gamma_L next (igam curr) (iL curr)) τi (- 1) upd false c st) <> LsFuel.
    Proof.
      intros Hc fuel Hf. apply (ls_no_fuel fuel _ 0%nat 0%nat); cbn [ls_curr ls_next ls_tau].
      - exact Hc.
      - unfold set_gamma_L; cbn [iL pow]. lra.
      - lia.
      - unfold ls_pass_bound, phiA, phiB in *. destruct Hτi as [E|E].
        + right. split; [exact E|]. nia.
        + left. split; [lra|]. split; [exact E|]. split; [cbn [pow]; lra|]. split; [lia|]. nia.
    Qed.
  End Termination.

  (* no pass of the outer loop runs out of line-search fuel: one uniform bound for the whole run *)
  Lemma halve_n_L j γ L : snd (halve_n j (γ, L)) = L * 2 ^ j.
  Proof.
    induction j as [|j IH]; cbn [halve_n pow]; [cbn; lra|]. destruct (halve_n j (γ, L)) as [g l]. cbn [snd] in IH.
    unfold halve_step; cbn [snd fst]. cbv [n2 nmul nadd n1 NumR]. rewrite IH. lra.
  Qed.
  Theorem pass_never_out_of_fuel (nL nT : nat) s : Inv s ->
    0 < L_init -> p_Lmax P <= L_init * 2 ^ nL ->
    0 <= p_tau_factor P <= 1 -> p_tau_factor P ^ nT < p_tau_min P ->
    (ls_pass_bound nL nT <= ls_fuel)%nat -> pass_ s <> PFuel.
  Proof.
    intros HI HL0 HLm Hf Hm Hfuel. destruct (check_iterate_consistent s HI) as (_ & _ & [j Ej] & _).
    unfold pass. cbv zeta. fold (check_iterate s).
    set (curr := check_iterate s) in *.
    assert (EL : iL curr = L_init * 2 ^ j).
    { pose proof (halve_n_L j (p_Lgamma P / L_init) L_init) as Hh. fold gl0 in Hh. rewrite <- Ej in Hh. exact Hh. }
    assert (Hp1 : 1 <= 2 ^ j) by (apply pow_R1_Rle; lra).
    assert (Hp2 : 0 < 2 ^ nL) by (apply pow_lt; lra).
    assert (HcL : 0 < iL curr) by (rewrite EL; nra).
    assert (HLm' : p_Lmax P <= iL curr * 2 ^ nL).
    { rewrite EL. assert (0 <= L_init * 2 ^ nL * (2 ^ j - 1)) by (apply Rmult_le_pos; [apply Rmult_le_pos; lra|lra]). lra. }
    match goal with |- context [stop_status_helpers ?a ?b ?c ?d ?e ?f ?g ?h] => destruct (stop_status_helpers a b c d e f g h) end.
    2-8: match goal with |- context [exit_block ?a ?b ?c ?d ?e ?f ?g ?h] => destruct (exit_block a b c d e f g h) as [[xo yo] eo] end; discriminate.
    change (@n0 R NumR) with 0. change (@n1 R NumR) with 1. change (@nopp R NumR) with Ropp.
    match goal with |- context [lsloop ls_fuel ?q ?τi (mkLs curr (set_gamma_L ?nx _ _) _ _ ?u _ ?c ?st)] =>
      assert (Hτ : τi = 0 \/ τi = 1) by (match goal with |- (match ?r with Some _ => _ | None => _ end) = 0 \/ _ => destruct r as [q'|]; [destruct (vall_finite q')|]; auto end);
      pose proof (ls_terminates (iL curr) nL nT q τi HcL HLm' Hf Hm Hτ curr nx u c st eq_refl ls_fuel Hfuel) as Ht;
      match goal with |- context [match ?X with LsDone _ => _ | LsStopped _ => _ | LsFuel => PFuel end] =>
        assert (Ht' : X <> LsFuel) by exact Ht; destruct X; [discriminate|discriminate|exfalso; apply Ht'; reflexivity] end
    end.
  Qed.

  Theorem reachable_pass_never_out_of_fuel (nL nT : nat) s : reachable s ->
    0 < L_init -> p_Lmax P <= L_init * 2 ^ nL ->
    0 <= p_tau_factor P <= 1 -> p_tau_factor P ^ nT < p_tau_min P ->
    (ls_pass_bound nL nT <= ls_fuel)%nat -> pass_ s <> PFuel.
  Proof. intros Hr. apply pass_never_out_of_fuel. now apply reachable_inv. Qed.
End Proofs.
