(* AlmPanocDirW.v — END-TO-END for ALMSolver<PANOCSolver<DirectionProviderT>> (AlmPanocDir.alm_panoc_dir) for every provider that keeps
   dimensions in the sense of DirLen.dir_len (initialize may depend on the state it finds: I0 = as constructed, Iv = as a previous inner
   solve left it), and its instances for the two shipped providers AlmPanocDirProofs.v does not cover:
     AndersonDirection            (memory >= 1; every min_div_fac, rescale_on_step_size_changes; the provider as constructed)
     StructuredLBFGSDirection     (NO hypothesis: every parameter, any state d0 — memory < 1, a failing capability check of initialize
                                   and CBFGS make a provider call throw, and a run in which a call throws has no result).
   The world threaded through the outer loop is (cumulative counters, provider); its invariant is "the provider is sane" (I0 or Iv):
   an inner solve that ends before its first `initialize` (NotFinite, or an exit at k = 0) hands the provider on untouched, every other
   one hands on a provider satisfying Iv (PanocDirLenW.panocDW_out_dir).  Generic lemma: AlmComposeKktW.compose_converged_is_kkt_W. *)
From Coq Require Import Reals List ZArith Lra Lia Bool Arith Psatz.
From Flocq Require Import Raux.
From Alpaqa Require Import Num NumR Vec Prox ProxProofs ProxVec SolverStatus SolverKernels SolverKernelsProofs DescentProofs
                           StopChain StopChainProofs KktProofs AugLag AugLagProofs Panoc PanocProofs PanocLen LiveVec
                           Lbfgs LMQR Directions PanocDir PanocDirProofs PanocDirLen DirWf DirLen PanocDirLenW
                           Alm AlmProofs AlmCompose AlmComposeProofs AlmComposeKkt AlmComposeKktW AlmPanoc AlmPanocProofs AlmPanocDir.
Import ListNotations.
Local Open Scope R_scope.

Section E2E.
  Variable Pb : problem (T:=R).
  Variable prov : fn -> bool.
  Variable wm_supplied : list R -> list R.
  Variables (Clb Cub : list (option R)) (l1 : list R).
  Variable split : nat.
  Variable D : Type.
  Variable ops : dirops R D.
  Variable stop_req : counters -> bool.
  Variable time_up : counters -> bool.
  Variable outer_oot : nat -> bool.
  Variable PP : Panoc.params (T:=R).
  Variable AP : alm_params (T:=R).
  Variables (ls_fuel inner_fuel : nat).
  Variables (n m : nat).

  Hypothesis Hprov : provider_ok Pb prov.
  Hypothesis Hempty : grad_g_prod_empty_ok Pb.
  Hypothesis Hl1 : l1 = [].
  Hypothesis Hcrit : p_crit PP = ApproxKKT.
  Hypothesis HLg : 0 < p_Lgamma PP.
  Hypothesis HL : 0 < p_L0 PP \/ 0 < p_Lmin PP <= p_Lmax PP.
  Hypothesis HClb : length Clb = n.
  Hypothesis HCub : length Cub = n.
  Hypothesis HCne : Forall2 box_ne Clb Cub.
  Hypothesis Hgf : forall x, length x = n -> length (pgrad_f Pb x) = n.
  Hypothesis Hgg : forall x y, length x = n -> length (pgrad_g_prod Pb x y) = n.
  Hypothesis Hg : forall x, length x = n -> length (pg Pb x) = m.
  Hypothesis HDlb : length (plb Pb) = m.
  Hypothesis HDub : length (pub Pb) = m.
  Hypothesis HDne : Forall2 box_ne (plb Pb) (pub Pb).

  Variables (I0 Iv : D -> Prop).
  Hypothesis HDL : dir_len n D ops I0 Iv.

  Notation inner_ := (dinner Pb prov wm_supplied Clb Cub l1 D ops stop_req time_up outer_oot PP ls_fuel inner_fuel).
  Notation opgf := (o_psi_grad_full Pb prov wm_supplied).
  Notation opy := (o_psi_yhat Pb prov).
  Notation ogL := (o_grad_L Pb prov).
  Notation ogp := (o_grad_psi Pb prov).
  Definition dsane (w : counters * D) : Prop := I0 (snd w) \/ Iv (snd w).

  (* ---- one inner solve, handed a sane provider *)
  Lemma dinner_contract_W : inner_contract_kkt_W (counters * D)%type (resultD D) inner_ dsane Pb Clb Cub n.
  Proof.
    intros w i x y Σ tol errz r x' lg w' Hw Hx. unfold dinner.
    match goal with |- context [match ?pr with DoneD _ _ => _ | NotFiniteLD _ _ => _ | OutOfFuelD _ => _ | ThrewD _ _ => _ end] =>
      destruct pr as [oD|L| |lg'] eqn:Er end.
    3,4: discriminate.
    2: { intros E. injection E as E1 E2 E3 E4. subst r x' w'. split; [exact Hw|]. split; [exact Hx|]. cbn [ir_status]. discriminate. }
    cbv zeta. intros E. injection E as E1 E2 E3 E4. subst r x' w'. cbn [ir_status ir_y ir_err ir_eps].
    assert (Hpg : forall z, length z = n -> length (snd (psi_grad (opgf y Σ) z)) = n).
    { intros z Hz. rewrite (opgf_grad Pb prov wm_supplied Hprov Hempty). unfold grad_psi_def. now apply (grad_L_def_length Pb n Hgf Hgg). }
    assert (HgL' : forall z yh, length z = n -> length (ogL z yh) = n).
    { intros z yh Hz. rewrite (ogL_val Pb prov Hprov Hempty). now apply (grad_L_def_length Pb n Hgf Hgg). }
    assert (Hgp' : forall z, length z = n -> length (ogp y Σ z) = n).
    { intros z Hz. rewrite (ogp_val Pb prov Hprov Hempty). unfold grad_psi_def. now apply (grad_L_def_length Pb n Hgf Hgg). }
    split.
    { unfold dsane. cbn [snd].
      exact (panocDW_out_dir (opgf y Σ) (opy y Σ) ogL (ogp y Σ) Clb Cub l1 D ops _ _ (with_opts PP tol) x y Σ errz ls_fuel (snd w) n
               Hl1 HClb HCub Hx Hpg HgL' Hgp' I0 Iv HDL Hw inner_fuel oD Er). }
    split.
    { exact (panocDW_out_x_length (opgf y Σ) (opy y Σ) ogL (ogp y Σ) Clb Cub l1 D ops _ _ (with_opts PP tol) x y Σ errz ls_fuel (snd w) n
               Hl1 HClb HCub Hx Hpg HgL' Hgp' I0 Iv HDL Hw inner_fuel oD Er). }
    intros Hst. apply alm_status_of_converged in Hst.
    destruct (panocDW_inner_contract_len (opgf y Σ) (opy y Σ) ogL (ogp y Σ) Clb Cub l1 D ops _ _ (with_opts PP tol) x y Σ errz ls_fuel (snd w) n
                Hl1 HClb HCub Hx Hpg HgL' Hgp' I0 Iv HDL Hw inner_fuel oD Er Hst Hcrit)
      as (xx & grad & gradh & γ & Lxx & Lgr & Lgh & Ex & Lxo & Ey & Egh & Ee & Eeps & Etol & Hγ).
    set (o := od_out D oD) in *.
    cbv zeta in *. rewrite (opy_val Pb prov Hprov) in Ey. cbn [snd] in Ey.
    assert (Egh' : gradh = grad_L_def Pb (out_x o) (yhat_def Pb (out_x o) y Σ)).
    { change (p_eager (with_opts PP tol)) with (p_eager PP) in Egh. destruct (p_eager PP).
      - destruct Egh as [->| ->]; [rewrite (opgf_grad Pb prov wm_supplied Hprov Hempty)|rewrite (ogp_val Pb prov Hprov Hempty)]; reflexivity.
      - rewrite Egh, (ogL_val Pb prov Hprov Hempty), Ey. reflexivity. }
    split; [now rewrite Ey|]. split; [now rewrite Ee, Ey|].
    exists xx, grad, γ. split.
    { apply Hγ; [exact HLg|]. apply L_init_pos. exact HL. }
    split; [exact Lxx|]. split; [exact Lgr|]. split; [exact Ex|]. split; [now rewrite Eeps, Egh'|exact Etol].
  Qed.

  (* ================================================================ THE theorem, for every dimension-keeping provider (dir_len) *)
  Theorem alm_panoc_dirlen_converged_is_kkt (d0 : D) outer_fuel nanv Σ0 y0 x0 co :
    I0 d0 \/ Iv d0 ->
    length x0 = n -> length y0 = m ->
    Alm.p_max_iter AP <> 0%nat ->
    (m <> 0%nat -> sigma_inv AP m (initial_sigma AP m (pf Pb x0) (pg Pb x0) Σ0)) ->
    (m = 0%nat -> 0 < p_tol AP) ->
    alm_panoc_dir Pb prov wm_supplied Clb Cub l1 split D ops stop_req time_up outer_oot PP AP ls_fuel inner_fuel d0
                  outer_fuel nanv Σ0 y0 x0 = Some co ->
    f_status (co_final co) = Converged ->
    kkt_point Pb Clb Cub n m (p_tol AP) (p_dual_tol AP) (co_x co) (f_y (co_final co)).
  Proof.
    intros Hd0 Hx0 Hy0 Hmi HΣ Htol Hrun Hst. unfold alm_panoc_dir in Hrun.
    exact (compose_converged_is_kkt_W (counters * D)%type (resultD D) inner_ dsane Pb Clb Cub split AP n m HClb HCub HCne Hgf Hgg Hg HDlb HDub HDne
             dinner_contract_W outer_fuel nanv Σ0 y0 x0 (cnt0, d0) co Hd0 Hx0 Hy0 Hmi HΣ Htol Hrun Hst).
  Qed.

  (* the provider object after ANY completed ALM run is sane again (a second operator() call on the same solver object starts from it) *)
  Theorem alm_panoc_dirlen_keeps_provider (d0 : D) outer_fuel nanv Σ0 y0 x0 co :
    I0 d0 \/ Iv d0 -> length x0 = n ->
    alm_panoc_dir Pb prov wm_supplied Clb Cub l1 split D ops stop_req time_up outer_oot PP AP ls_fuel inner_fuel d0
                  outer_fuel nanv Σ0 y0 x0 = Some co ->
    (I0 (snd (co_w co)) \/ Iv (snd (co_w co))) /\ length (co_x co) = n.
  Proof.
    intros Hd0 Hx0 Hrun. unfold alm_panoc_dir in Hrun.
    exact (compose_keeps_world (counters * D)%type (resultD D) inner_ dsane Pb Clb Cub AP n m Hg HDlb HDub dinner_contract_W _ _ _ _ _ _ _ _ (cnt0, d0) co Hd0 Hx0 Hrun).
  Qed.
End E2E.

(* ================================================================ the shipped providers *)
Section Shipped.
  Variable Pb : problem (T:=R).
  Variable prov : fn -> bool.
  Variable wm_supplied : list R -> list R.
  Variables (Clb Cub : list (option R)) (l1 : list R).
  Variable split : nat.
  Variable stop_req : counters -> bool.
  Variable time_up : counters -> bool.
  Variable outer_oot : nat -> bool.
  Variable PP : Panoc.params (T:=R).
  Variable AP : alm_params (T:=R).
  Variables (ls_fuel inner_fuel : nat).
  Variables (n m : nat).

  Hypothesis Hprov : provider_ok Pb prov.
  Hypothesis Hempty : grad_g_prod_empty_ok Pb.
  Hypothesis Hl1 : l1 = [].
  Hypothesis Hcrit : p_crit PP = ApproxKKT.
  Hypothesis HLg : 0 < p_Lgamma PP.
  Hypothesis HL : 0 < p_L0 PP \/ 0 < p_Lmin PP <= p_Lmax PP.
  Hypothesis HClb : length Clb = n.
  Hypothesis HCub : length Cub = n.
  Hypothesis HCne : Forall2 box_ne Clb Cub.
  Hypothesis Hgf : forall x, length x = n -> length (pgrad_f Pb x) = n.
  Hypothesis Hgg : forall x y, length x = n -> length (pgrad_g_prod Pb x y) = n.
  Hypothesis Hg : forall x, length x = n -> length (pg Pb x) = m.
  Hypothesis HDlb : length (plb Pb) = m.
  Hypothesis HDub : length (pub Pb) = m.
  Hypothesis HDne : Forall2 box_ne (plb Pb) (pub Pb).

  (* ---- AndersonDirection *)
  Theorem alm_panoc_anderson_converged_is_kkt (mem : nat) (mdf : R) (rescale : bool) :
    (1 <= mem)%nat ->
    forall (d0 : aast R) outer_fuel nanv Σ0 y0 x0 co,
    anderson_I0 n d0 \/ anderson_Iv n d0 ->
    length x0 = n -> length y0 = m ->
    Alm.p_max_iter AP <> 0%nat ->
    (m <> 0%nat -> sigma_inv AP m (initial_sigma AP m (pf Pb x0) (pg Pb x0) Σ0)) ->
    (m = 0%nat -> 0 < p_tol AP) ->
    alm_panoc_dir Pb prov wm_supplied Clb Cub l1 split (aast R) (anderson_dir n mem mdf rescale) stop_req time_up outer_oot PP AP
                  ls_fuel inner_fuel d0 outer_fuel nanv Σ0 y0 x0 = Some co ->
    f_status (co_final co) = Converged ->
    kkt_point Pb Clb Cub n m (p_tol AP) (p_dual_tol AP) (co_x co) (f_y (co_final co)).
  Proof.
    intros Hmem d0 outer_fuel nanv Σ0 y0 x0 co Hd0.
    exact (alm_panoc_dirlen_converged_is_kkt Pb prov wm_supplied Clb Cub l1 split (aast R) (anderson_dir n mem mdf rescale)
             stop_req time_up outer_oot PP AP ls_fuel inner_fuel n m Hprov Hempty Hl1 Hcrit HLg HL HClb HCub HCne Hgf Hgg Hg HDlb HDub HDne
             (anderson_I0 n) (anderson_Iv n) (anderson_len n mem mdf rescale Hmem) d0 outer_fuel nanv Σ0 y0 x0 co Hd0).
  Qed.

  (* ---- StructuredLBFGSDirection *)
  Theorem alm_panoc_struclbfgs_converged_is_kkt pw (LP : Lbfgs.params R) slb sub sl1 Dlb Dub
      prov_inactive prov_hess_L prov_hess_psi prov_box_D prov_grad_gi
      grad_psi_at hess_L_prod hess_psi_prod eval_g grad_gi cbrt_eps hvf fd full_aug use_scaled :
    forall (d0 : sdstate (T:=R)) outer_fuel nanv Σ0 y0 x0 co,
    length x0 = n -> length y0 = m ->
    Alm.p_max_iter AP <> 0%nat ->
    (m <> 0%nat -> sigma_inv AP m (initial_sigma AP m (pf Pb x0) (pg Pb x0) Σ0)) ->
    (m = 0%nat -> 0 < p_tol AP) ->
    alm_panoc_dir Pb prov wm_supplied Clb Cub l1 split (sdstate (T:=R))
                  (struct_dir n pw LP slb sub sl1 Dlb Dub prov_inactive prov_hess_L prov_hess_psi prov_box_D prov_grad_gi
                              grad_psi_at hess_L_prod hess_psi_prod eval_g grad_gi cbrt_eps hvf fd full_aug use_scaled)
                  stop_req time_up outer_oot PP AP ls_fuel inner_fuel d0 outer_fuel nanv Σ0 y0 x0 = Some co ->
    f_status (co_final co) = Converged ->
    kkt_point Pb Clb Cub n m (p_tol AP) (p_dual_tol AP) (co_x co) (f_y (co_final co)).
  Proof.
    intros d0 outer_fuel nanv Σ0 y0 x0 co.
    exact (alm_panoc_dirlen_converged_is_kkt Pb prov wm_supplied Clb Cub l1 split (sdstate (T:=R)) _
             stop_req time_up outer_oot PP AP ls_fuel inner_fuel n m Hprov Hempty Hl1 Hcrit HLg HL HClb HCub HCne Hgf Hgg Hg HDlb HDub HDne
             (fun _ => True) (SIv n LP)
             (struct_len_all n pw LP slb sub sl1 Dlb Dub prov_inactive prov_hess_L prov_hess_psi prov_box_D prov_grad_gi
                             grad_psi_at hess_L_prod hess_psi_prod eval_g grad_gi cbrt_eps hvf fd full_aug use_scaled)
             d0 outer_fuel nanv Σ0 y0 x0 co (or_introl I)).
  Qed.
End Shipped.
