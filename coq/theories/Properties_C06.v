(* Properties_C06.v — C06: exit status, iteration count and reported residual mean what is documented.
   The stop-status functions are GENERATED from the C++ on every run (gen/StopChain.v). *)
From Coq Require Import Reals List ZArith Bool Arith Floats Lra.
From Alpaqa Require Import Num NumR NumF Vec Prox SolverStatus SolverKernels StopChain StopChainProofs
     SolverKernelsProofs LoopSkeleton PanocOcp KernelsGen KernelsGenEq.
Import ListNotations.

Section Chain.
  Context {T : Type} `{Num T}.
  (* Converged is reported exactly when the residual is <= the effective tolerance *)
  Theorem C06_converged_iff_le_tol : forall opts_tol eps te it mi np mnp sr,
    stop_status_helpers opts_tol eps te it mi np mnp sr = StConverged <-> nleb eps (eff_tol opts_tol) = true.
  Proof. exact converged_iff. Qed.
  (* a satisfied tolerance wins over any limit reached at the same moment *)
  Theorem C06_tolerance_wins : forall opts_tol eps te it mi np mnp sr,
    nleb eps (eff_tol opts_tol) = true -> stop_status_helpers opts_tol eps te it mi np mnp sr = StConverged.
  Proof. exact tolerance_wins. Qed.
  Theorem C06_maxiter_only_at_limit : forall opts_tol eps te it mi np mnp sr,
    stop_status_helpers opts_tol eps te it mi np mnp sr = StMaxIter -> it = mi.
  Proof. exact maxiter_only_at_limit. Qed.
  Theorem C06_maxtime_only_if_exceeded : forall opts_tol eps te it mi np mnp sr,
    stop_status_helpers opts_tol eps te it mi np mnp sr = StMaxTime -> te = true.
  Proof. exact maxtime_only_if_exceeded. Qed.
  Theorem C06_notfinite_only_nonfinite : forall opts_tol eps te it mi np mnp sr,
    stop_status_helpers opts_tol eps te it mi np mnp sr = StNotFinite -> nfinite eps = false.
  Proof. exact notfinite_only_nonfinite. Qed.
  Theorem C06_noprogress_only_above_limit : forall opts_tol eps te it mi np mnp sr,
    stop_status_helpers opts_tol eps te it mi np mnp sr = StNoProgress -> (mnp < np)%nat.
  Proof. exact noprogress_only_above_limit. Qed.
  Theorem C06_interrupted_only_if_requested : forall opts_tol eps te it mi np mnp sr,
    stop_status_helpers opts_tol eps te it mi np mnp sr = StInterrupted -> sr = true.
  Proof. exact interrupted_only_if_requested. Qed.
  Theorem C06_busy_iff : forall opts_tol eps te it mi np mnp sr,
    stop_status_helpers opts_tol eps te it mi np mnp sr = StBusy <->
    nleb eps (eff_tol opts_tol) = false /\ te = false /\ it <> mi /\ nfinite eps = true /\ (np <= mnp)%nat /\ sr = false.
  Proof. exact busy_iff. Qed.
  (* PANOC-OCP's private copy of the chain decides identically *)
  Theorem C06_ocp_chain_same : forall opts_tol eps te it mi np mnp sr,
    stop_status_ocp opts_tol eps te it mi np mnp sr = stop_status_helpers opts_tol eps te it mi np mnp sr.
  Proof. exact ocp_chain_same. Qed.

  (* loop skeleton: for EVERY sequence of per-iteration observations the iteration count never exceeds max_iter,
     and MaxIter is reported only with the count equal to max_iter *)
  Theorem C06_iterations_le_max_iter : forall opts_tol max_iter max_no_progress eps_at te_at sr_at same_at fuel np r st,
    run opts_tol max_iter max_no_progress eps_at te_at sr_at same_at fuel 0 np = Some (r, st) ->
    (r <= max_iter)%nat /\ (st = StMaxIter -> r = max_iter).
  Proof. intros. eapply run_iterations_le_max; [|eassumption]. apply Nat.le_0_l. Qed.
  Theorem C06_loop_returns_by_max_iter : forall opts_tol max_iter max_no_progress eps_at te_at sr_at same_at np,
    forall fuel, (max_iter <= fuel)%nat ->
    exists r st, run opts_tol max_iter max_no_progress eps_at te_at sr_at same_at fuel 0 np = Some (r, st) /\ st <> StBusy.
  Proof. intros. apply run_terminates; auto; [apply Nat.le_0_l|]. rewrite Nat.sub_0_r. assumption. Qed.
End Chain.
Print Assumptions C06_converged_iff_le_tol.
Print Assumptions C06_tolerance_wins.
Print Assumptions C06_busy_iff.
Print Assumptions C06_iterations_le_max_iter.
Print Assumptions C06_loop_returns_by_max_iter.

Theorem C06_chain_order_documented :
  chain_order_helpers = [StConverged; StMaxTime; StMaxIter; StNotFinite; StNoProgress; StInterrupted] /\
  chain_order_ocp = chain_order_helpers.
Proof. exact chain_order_documented. Qed.
Print Assumptions C06_chain_order_documented.

Theorem C06_default_tolerance : forall opts_tol : R, (opts_tol <= 0)%R -> eff_tol opts_tol = (1 / 10 ^ 8)%R.
Proof. exact default_tolerance_R. Qed.
Print Assumptions C06_default_tolerance.

(* at binary64 (primitive floats, stdlib FloatAxioms): Converged is never reported for NaN or +inf *)
Theorem C06_nonfinite_never_converged : forall (opts_tol eps : float) te it mi np mnp sr,
  f_finite opts_tol = true ->
  stop_status_helpers (T:=float) opts_tol eps te it mi np mnp sr = StConverged ->
  f_finite eps = true \/ Prim2SF eps = S754_infinity true.
Proof. exact nonfinite_never_converged_F. Qed.
Print Assumptions C06_nonfinite_never_converged.

(* no-progress counter: grows by one only on an unchanged iterate, any change resets it; NoProgress therefore needs more than
   max_no_progress consecutive sampled iterations without change *)
Theorem C06_no_progress_counter_spec : forall np k m same np',
  no_progress_update np k m same = Some np' ->
  (np' = S np /\ same = true) \/ (np' = 0%nat /\ same = false) \/ (np' = np /\ np = 0%nat).
Proof. exact np_update_spec. Qed.
Print Assumptions C06_no_progress_counter_spec.
Theorem C06_no_progress_counter_defined : forall np k m same,
  exists np', no_progress_update np k m same = Some np'.
Proof. exact np_update_defined. Qed.
(* max_no_progress = 0: every iteration is sampled (no division by zero) *)
Theorem C06_max_no_progress_zero : forall np k same,
  no_progress_update np k 0 same = Some (if same then S np else 0%nat).
Proof. exact np_update_zero_limit. Qed.
Print Assumptions C06_max_no_progress_zero.

(* reported ε = documented formula of the selected criterion, for the iterate data the solver holds
   (x̂ = x + p with p the projected-gradient step for γ at x) *)
Local Open Scope R_scope.
Theorem C06_eps_matches_doc_ApproxKKT : forall lb ub γ x grad gradh yh,
  let step := proj_grad_step lb ub γ x grad in
  length x = length (snd (fst step)) ->
  crit_eps ApproxKKT lb ub [] (snd (fst step)) γ x (fst (fst step)) yh grad gradh
  = crit_doc ApproxKKT lb ub γ x (fst (fst step)) yh grad gradh.
Proof. exact crit_matches_doc_ApproxKKT. Qed.
Theorem C06_eps_matches_doc_ApproxKKT2 : forall lb ub γ x grad gradh yh,
  let step := proj_grad_step lb ub γ x grad in
  length x = length (snd (fst step)) ->
  crit_eps ApproxKKT2 lb ub [] (snd (fst step)) γ x (fst (fst step)) yh grad gradh
  = crit_doc ApproxKKT2 lb ub γ x (fst (fst step)) yh grad gradh.
Proof. exact crit_matches_doc_ApproxKKT2. Qed.
Theorem C06_eps_matches_doc_ProjGradNorm : forall lb ub γ x grad gradh yh,
  let step := proj_grad_step lb ub γ x grad in
  crit_eps ProjGradNorm lb ub [] (snd (fst step)) γ x (fst (fst step)) yh grad gradh
  = crit_doc ProjGradNorm lb ub γ x (fst (fst step)) yh grad gradh.
Proof. exact crit_matches_doc_ProjGradNorm. Qed.
Theorem C06_eps_matches_doc_ProjGradNorm2 : forall lb ub γ x grad gradh yh,
  let step := proj_grad_step lb ub γ x grad in
  crit_eps ProjGradNorm2 lb ub [] (snd (fst step)) γ x (fst (fst step)) yh grad gradh
  = crit_doc ProjGradNorm2 lb ub γ x (fst (fst step)) yh grad gradh.
Proof. exact crit_matches_doc_ProjGradNorm2. Qed.
Theorem C06_eps_matches_doc_ProjGradUnitNorm : forall lb ub γ x grad gradh yh,
  let step := proj_grad_step lb ub γ x grad in
  crit_eps ProjGradUnitNorm lb ub [] (snd (fst step)) γ x (fst (fst step)) yh grad gradh
  = crit_doc ProjGradUnitNorm lb ub γ x (fst (fst step)) yh grad gradh.
Proof. exact crit_matches_doc_ProjGradUnitNorm. Qed.
Theorem C06_eps_matches_doc_ProjGradUnitNorm2 : forall lb ub γ x grad gradh yh,
  let step := proj_grad_step lb ub γ x grad in
  crit_eps ProjGradUnitNorm2 lb ub [] (snd (fst step)) γ x (fst (fst step)) yh grad gradh
  = crit_doc ProjGradUnitNorm2 lb ub γ x (fst (fst step)) yh grad gradh.
Proof. exact crit_matches_doc_ProjGradUnitNorm2. Qed.
Theorem C06_eps_matches_doc_FPRNorm : forall lb ub γ x grad gradh yh, γ <> 0 ->
  let step := proj_grad_step lb ub γ x grad in
  crit_eps FPRNorm lb ub [] (snd (fst step)) γ x (fst (fst step)) yh grad gradh
  = crit_doc FPRNorm lb ub γ x (fst (fst step)) yh grad gradh.
Proof. exact crit_matches_doc_FPRNorm. Qed.
Theorem C06_eps_matches_doc_FPRNorm2 : forall lb ub γ x grad gradh yh, γ <> 0 ->
  let step := proj_grad_step lb ub γ x grad in
  crit_eps FPRNorm2 lb ub [] (snd (fst step)) γ x (fst (fst step)) yh grad gradh
  = crit_doc FPRNorm2 lb ub γ x (fst (fst step)) yh grad gradh.
Proof. exact crit_matches_doc_FPRNorm2. Qed.
Theorem C06_eps_matches_doc_LBFGSBpp : forall lb ub γ x grad gradh yh,
  let step := proj_grad_step lb ub γ x grad in
  crit_eps LBFGSBpp lb ub [] (snd (fst step)) γ x (fst (fst step)) yh grad gradh
  = crit_doc LBFGSBpp lb ub γ x (fst (fst step)) yh grad gradh.
Proof. exact crit_matches_doc_LBFGSBpp. Qed.
Print Assumptions C06_eps_matches_doc_ApproxKKT.
Print Assumptions C06_eps_matches_doc_LBFGSBpp.

Theorem C06_eps_matches_doc_Ipopt : forall lb ub γ p x xh yh grad gradh,
  crit_eps Ipopt lb ub [] p γ x xh yh grad gradh = crit_doc Ipopt lb ub γ x xh yh grad gradh.
Proof. exact crit_matches_doc_Ipopt. Qed.
Print Assumptions C06_eps_matches_doc_Ipopt.

(* ======================================================================================================================
   The same statements for the criteria / counters GENERATED from the C++ on every run (gen/KernelsGen.v):
   g_crit_eps is the `switch (crit)` of PANOCHelpers::calc_error_stop_crit, case by case; g_ocp_crit PANOC-OCP's local copy;
   g_<solver>_np_update the no-progress statement of each solver loop. *)
Theorem C06_gen_crit_eps_is_model : forall c lb ub l1 p (γ : R) x xh yh grad gradh,
  g_crit_eps c lb ub l1 p γ x xh yh grad gradh = crit_eps c lb ub l1 p γ x xh yh grad gradh.
Proof. intros. apply gen_crit_eps_eq. Qed.
Theorem C06_gen_crit_needs_gradh_is_model : forall c, g_crit_needs_gradh c = crit_needs_gradh c.
Proof. exact gen_crit_needs_gradh_eq. Qed.
Theorem C06_gen_ocp_crit_is_model : forall c Ulb Uub N (γ : R) u g p, g_ocp_crit c Ulb Uub N γ u g p (vsqnorm p) = ocp_crit c Ulb Uub N γ u g p.
Proof. exact gen_ocp_crit_eq. Qed.
Theorem C06_gen_eps_matches_doc_ApproxKKT : forall lb ub γ x grad gradh yh,
  let step := proj_grad_step lb ub γ x grad in
  length x = length (snd (fst step)) ->
  g_crit_eps ApproxKKT lb ub [] (snd (fst step)) γ x (fst (fst step)) yh grad gradh
  = crit_doc ApproxKKT lb ub γ x (fst (fst step)) yh grad gradh.
Proof. exact gen_crit_matches_doc_ApproxKKT. Qed.
Theorem C06_gen_eps_matches_doc_ApproxKKT2 : forall lb ub γ x grad gradh yh,
  let step := proj_grad_step lb ub γ x grad in
  length x = length (snd (fst step)) ->
  g_crit_eps ApproxKKT2 lb ub [] (snd (fst step)) γ x (fst (fst step)) yh grad gradh
  = crit_doc ApproxKKT2 lb ub γ x (fst (fst step)) yh grad gradh.
Proof. exact gen_crit_matches_doc_ApproxKKT2. Qed.
Theorem C06_gen_eps_matches_doc_ProjGradNorm : forall lb ub γ x grad gradh yh,
  let step := proj_grad_step lb ub γ x grad in
  g_crit_eps ProjGradNorm lb ub [] (snd (fst step)) γ x (fst (fst step)) yh grad gradh
  = crit_doc ProjGradNorm lb ub γ x (fst (fst step)) yh grad gradh.
Proof. exact gen_crit_matches_doc_ProjGradNorm. Qed.
Theorem C06_gen_eps_matches_doc_ProjGradNorm2 : forall lb ub γ x grad gradh yh,
  let step := proj_grad_step lb ub γ x grad in
  g_crit_eps ProjGradNorm2 lb ub [] (snd (fst step)) γ x (fst (fst step)) yh grad gradh
  = crit_doc ProjGradNorm2 lb ub γ x (fst (fst step)) yh grad gradh.
Proof. exact gen_crit_matches_doc_ProjGradNorm2. Qed.
Theorem C06_gen_eps_matches_doc_ProjGradUnitNorm : forall lb ub γ x grad gradh yh,
  let step := proj_grad_step lb ub γ x grad in
  g_crit_eps ProjGradUnitNorm lb ub [] (snd (fst step)) γ x (fst (fst step)) yh grad gradh
  = crit_doc ProjGradUnitNorm lb ub γ x (fst (fst step)) yh grad gradh.
Proof. exact gen_crit_matches_doc_ProjGradUnitNorm. Qed.
Theorem C06_gen_eps_matches_doc_ProjGradUnitNorm2 : forall lb ub γ x grad gradh yh,
  let step := proj_grad_step lb ub γ x grad in
  g_crit_eps ProjGradUnitNorm2 lb ub [] (snd (fst step)) γ x (fst (fst step)) yh grad gradh
  = crit_doc ProjGradUnitNorm2 lb ub γ x (fst (fst step)) yh grad gradh.
Proof. exact gen_crit_matches_doc_ProjGradUnitNorm2. Qed.
Theorem C06_gen_eps_matches_doc_FPRNorm : forall lb ub γ x grad gradh yh, γ <> 0 ->
  let step := proj_grad_step lb ub γ x grad in
  g_crit_eps FPRNorm lb ub [] (snd (fst step)) γ x (fst (fst step)) yh grad gradh
  = crit_doc FPRNorm lb ub γ x (fst (fst step)) yh grad gradh.
Proof. exact gen_crit_matches_doc_FPRNorm. Qed.
Theorem C06_gen_eps_matches_doc_FPRNorm2 : forall lb ub γ x grad gradh yh, γ <> 0 ->
  let step := proj_grad_step lb ub γ x grad in
  g_crit_eps FPRNorm2 lb ub [] (snd (fst step)) γ x (fst (fst step)) yh grad gradh
  = crit_doc FPRNorm2 lb ub γ x (fst (fst step)) yh grad gradh.
Proof. exact gen_crit_matches_doc_FPRNorm2. Qed.
Theorem C06_gen_eps_matches_doc_LBFGSBpp : forall lb ub γ x grad gradh yh,
  let step := proj_grad_step lb ub γ x grad in
  g_crit_eps LBFGSBpp lb ub [] (snd (fst step)) γ x (fst (fst step)) yh grad gradh
  = crit_doc LBFGSBpp lb ub γ x (fst (fst step)) yh grad gradh.
Proof. exact gen_crit_matches_doc_LBFGSBpp. Qed.
Theorem C06_gen_eps_matches_doc_Ipopt : forall lb ub γ p x xh yh grad gradh,
  g_crit_eps Ipopt lb ub [] p γ x xh yh grad gradh = crit_doc Ipopt lb ub γ x xh yh grad gradh.
Proof. exact gen_crit_matches_doc_Ipopt. Qed.
Theorem C06_gen_panoc_no_progress_counter_spec : forall np k m (x xn : list R),
  let np' := g_panoc_np_update np k m x xn in
  (np' = S np /\ veqb x xn = true) \/ (np' = 0%nat /\ veqb x xn = false) \/ (np' = np /\ np = 0%nat).
Proof. exact gen_panoc_np_update_spec. Qed.
Theorem C06_gen_panoc_no_progress_is_model : forall np k m (x xn : list R),
  Some (g_panoc_np_update np k m x xn) = no_progress_update np k m (veqb x xn).
Proof. exact gen_panoc_np_update_eq. Qed.
Theorem C06_gen_zerofpr_no_progress_counter_spec : forall np k m (x xn : list R),
  let np' := g_zerofpr_np_update np k m x xn in
  (np' = S np /\ veqb x xn = true) \/ (np' = 0%nat /\ veqb x xn = false) \/ (np' = np /\ np = 0%nat).
Proof. exact gen_zerofpr_np_update_spec. Qed.
Theorem C06_gen_zerofpr_no_progress_is_model : forall np k m (x xn : list R),
  Some (g_zerofpr_np_update np k m x xn) = no_progress_update np k m (veqb x xn).
Proof. exact gen_zerofpr_np_update_eq. Qed.
Theorem C06_gen_fista_no_progress_counter_spec : forall np k m (x xn : list R),
  let np' := g_fista_np_update np k m x xn in
  (np' = S np /\ veqb x xn = true) \/ (np' = 0%nat /\ veqb x xn = false) \/ (np' = np /\ np = 0%nat).
Proof. exact gen_fista_np_update_spec. Qed.
Theorem C06_gen_fista_no_progress_is_model : forall np k m (x xn : list R),
  Some (g_fista_np_update np k m x xn) = no_progress_update np k m (veqb x xn).
Proof. exact gen_fista_np_update_eq. Qed.
Theorem C06_gen_ocp_no_progress_counter_spec : forall np k m (x xn : list R),
  let np' := g_ocp_np_update np k m x xn in
  (np' = S np /\ veqb x xn = true) \/ (np' = 0%nat /\ veqb x xn = false) \/ (np' = np /\ np = 0%nat).
Proof. exact gen_ocp_np_update_spec. Qed.
Theorem C06_gen_ocp_no_progress_is_model : forall np k m (x xn : list R),
  Some (g_ocp_np_update np k m x xn) = no_progress_update np k m (veqb x xn).
Proof. exact gen_ocp_np_update_eq. Qed.
Print Assumptions C06_gen_crit_eps_is_model.
Print Assumptions C06_gen_eps_matches_doc_ApproxKKT.
Print Assumptions C06_gen_eps_matches_doc_Ipopt.
Print Assumptions C06_gen_panoc_no_progress_counter_spec.

(* non-vacuity *)
Example C06_nonvacuous :
  stop_status_helpers (T:=R) 0 (1 / 10 ^ 9) false 3 5 0 10 false = StConverged /\
  stop_status_helpers (T:=R) (1/2) 1 false 5 5 0 10 true = StMaxIter /\
  stop_status_helpers (T:=R) (1/2) 1 false 4 5 0 10 true = StInterrupted.
Proof.
  unfold stop_status_helpers, default_tolerance_helpers. numR. change (10 ^ 8)%Z with 100000000%Z. simpl IZR.
  repeat split; rbool; try reflexivity; try lra; exfalso; simpl in *; lra.
Qed.
