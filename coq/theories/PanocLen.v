(* PanocLen.v — a LENGTH (and gradient-provenance) invariant of the whole-loop PANOC model (Panoc.v), over R, for arbitrary
   stop / clock / direction oracles:  with l1 = [], |lb| = |ub| = |x_in| = n, length-preserving gradient oracles and a direction provider that
   returns n-vectors, the current iterate of every reachable state has x, ∇ψ(x), x̂, p of length n, and a valid ∇ψ(x̂) buffer
     - has length n, and
     - holds eval_grad_L(x̂, ŷ(x̂)) without eager gradient evaluation, resp. the gradient output of eval_ψ_grad_ψ(x̂) or eval_grad_ψ(x̂) with it
       (PanocProofs.is_gradh leaves open a third alternative in eager mode; it never occurs).
   Consequence: a strengthened inner contract (Converged under ApproxKKT) in which x, ∇ψ(x), ∇ψ(x̂) have length n. *)
From Coq Require Import Reals List ZArith Lra Lia Bool Arith Psatz.
From Flocq Require Import Raux.
From Alpaqa Require Import Num NumR Vec Prox ProxProofs ProxVec SolverStatus SolverKernels SolverKernelsProofs DescentProofs
                           StopChain StopChainProofs LoopSkeleton KktProofs Panoc PanocProofs LiveVec.
Import ListNotations.
Local Open Scope R_scope.

Section Len.
  Variable psi_grad_full : list R -> R * list R * list R.
  Variable psi_yhat : list R -> R * list R.
  Variable grad_L : list R -> list R -> list R.
  Variable grad_psi : list R -> list R.
  Variables (lb ub : list (option R)) (l1 : list R).
  Variable dir_apply : nat -> iterate (T:=R) -> option (list R).
  Variable has_initial : bool.
  Variable stop_req : counters -> bool.
  Variable time_up : counters -> bool.
  Variable P : params (T:=R).
  Variables (x_in y_in Σ errz_in : list R).
  Variable ls_fuel : nat.

  Variable n : nat.
  Hypothesis Hl1 : l1 = [].
  Hypothesis Hlb : length lb = n.
  Hypothesis Hub : length ub = n.
  Hypothesis Hxin : length x_in = n.
  Hypothesis Hpg : forall x, length x = n -> length (snd (psi_grad psi_grad_full x)) = n.
  Hypothesis HgL : forall x yh, length x = n -> length (grad_L x yh) = n.
  Hypothesis Hgp : forall x, length x = n -> length (grad_psi x) = n.
  Hypothesis Hdir : forall j i q, dir_apply j i = Some q -> length q = n.

  Notation it := (iterate (T:=R)).
  Notation eprox := (eval_prox lb ub l1).
  Notation epsih := (eval_psih psi_grad_full psi_yhat P).
  Notation epsihx := (eval_psih_exit psi_yhat).
  Notation egradh := (eval_gradh grad_L grad_psi P).
  Notation lsloop := (ls_loop psi_grad_full psi_yhat grad_L grad_psi lb ub l1 stop_req P).
  Notation pass_ := (pass psi_grad_full psi_yhat grad_L grad_psi lb ub l1 dir_apply has_initial stop_req time_up P x_in y_in Σ errz_in ls_fuel).
  Notation loop_ := (loop psi_grad_full psi_yhat grad_L grad_psi lb ub l1 dir_apply has_initial stop_req time_up P x_in y_in Σ errz_in ls_fuel).
  Notation panoc_ := (panoc psi_grad_full psi_yhat grad_L grad_psi lb ub l1 dir_apply has_initial stop_req time_up P x_in y_in Σ errz_in ls_fuel).
  Notation pgrad := (psi_grad psi_grad_full).
  Notation eps_of := (it_eps lb ub l1 P).
  Notation initqub := (init_qub psi_grad_full psi_yhat lb ub l1 P).
  Notation initL := (init_L psi_grad_full grad_psi P x_in).
  Notation Reachable := (reachable psi_grad_full psi_yhat grad_L grad_psi lb ub l1 dir_apply has_initial stop_req time_up P x_in y_in Σ errz_in ls_fuel).
  Notation Consistent := (consistent psi_grad_full psi_yhat grad_L grad_psi lb ub l1 P).
  Notation Glrel0 := (glrel0 psi_grad_full grad_psi P x_in).
  Notation Linit := (L_init psi_grad_full grad_psi P x_in).
  Notation check_it := (check_iterate grad_L grad_psi P).
  Notation first_it := (first_iterate psi_grad_full psi_yhat lb ub l1 P).

  (* what a valid ∇ψ(x̂) buffer holds *)
  Definition gstrict (i : it) : Prop :=
    if p_eager P then igradh i = snd (pgrad (ixh i)) \/ igradh i = grad_psi (ixh i)
    else igradh i = grad_L (ixh i) (iyh i).
  Definition good_x (i : it) : Prop := length (ix i) = n /\ length (igrad i) = n.
  Definition good (i : it) : Prop :=
    good_x i /\ length (ixh i) = n /\ length (ip i) = n /\ (ihave i = true -> length (igradh i) = n /\ gstrict i).

  Lemma good_good_x i : good i -> good_x i.
  Proof. intros H; apply H. Qed.

  (* ---- elementary updates *)
  Lemma prox_psih_good (i : it) : good_x i -> good (epsih (eprox i)).
  Proof.
    intros [Hx Hg]. unfold eval_prox. rewrite Hl1. cbn [eval_prox_grad_step].
    destruct (proj_grad_step_length lb ub (igam i) (ix i) (igrad i) n Hlb Hub Hx Hg) as [Lxh Lp].
    unfold good, good_x, gstrict, eval_psih. destruct (p_eager P) eqn:Ee; cbn [ix ixh igrad ip ihave igradh iyh].
    - split; [split; assumption|]. split; [exact Lxh|]. split; [exact Lp|]. intros _. split; [apply Hpg, Lxh|left; reflexivity].
    - split; [split; assumption|]. split; [exact Lxh|]. split; [exact Lp|]. discriminate.
  Qed.
  Lemma egradh_good (i : it) : good i -> good (egradh i).
  Proof.
    intros ((Hx & Hg) & Lxh & Lp & _). unfold good, good_x, gstrict, eval_gradh. cbn [ix ixh igrad ip ihave igradh iyh].
    split; [split; assumption|]. split; [exact Lxh|]. split; [exact Lp|]. intros _. split.
    - destruct (p_eager P); [apply Hgp|apply HgL]; exact Lxh.
    - destruct (p_eager P); [right|]; reflexivity.
  Qed.
  Lemma set_gl_good_x (i : it) γ L : good_x i -> good_x (set_gamma_L i γ L).
  Proof. exact (fun H => H). Qed.
  Lemma halve_good_x (i : it) : good_x i -> good_x (halve_it i).
  Proof. exact (fun H => H). Qed.

  Lemma safe_step_good (curr next : it) c : good curr ->
    let r := take_safe_step grad_L grad_psi P curr next c in
    good (fst (fst r)) /\ good_x (snd (fst r)).
  Proof.
    intros Hc. unfold take_safe_step. cbv zeta.
    set (curr1 := if ihave curr then curr else egradh curr).
    assert (H1 : good curr1 /\ ihave curr1 = true).
    { subst curr1. destruct (ihave curr) eqn:Eh; [split; assumption|split; [apply egradh_good, Hc|reflexivity]]. }
    destruct H1 as (((Hx & Hg) & Lxh & Lp & Hgh) & Hh). cbn [fst snd]. split.
    - unfold good, good_x. cbn [ix ixh igrad ip ihave igradh iyh]. split; [split; assumption|]. split; [exact Lxh|]. split; [exact Lp|]. discriminate.
    - unfold good_x. cbn [ix igrad]. split; [exact Lxh|apply (Hgh Hh)].
  Qed.
  Lemma accel_step_good τ q (curr next : it) : good curr -> length q = n ->
    good_x (take_accel_step psi_grad_full τ q curr next).
  Proof.
    intros ((Hx & Hg) & Lxh & Lp & _) Hq. unfold take_accel_step, eval_psi_grad, good_x. cbn [ix igrad].
    assert (Hc : length (panoc_candidate τ (ix curr) (ip curr) q) = n) by (apply panoc_candidate_length; assumption).
    split; [exact Hc|apply Hpg, Hc].
  Qed.

  (* ---- line search *)
  Definition LenI (τi : R) (s : ls_state (T:=R)) : Prop :=
    good (ls_curr s) /\
    (good_x (ls_next s) \/ (ls_tau_prev s = - 1 /\ ls_tau s = τi)) /\
    (τi = 0 -> ls_tau s = 0).

  Lemma ls_len q τi : (τi = 0 \/ τi = 1) -> (τi = 1 -> length q = n) -> forall fuel s, LenI τi s ->
    match lsloop fuel q τi s with
    | LsDone s' => good (ls_curr s') /\ good (ls_next s')
    | LsStopped s' => good (ls_curr s')
    | LsFuel => True
    end.
  Proof.
    intros Hτi Hq. induction fuel as [|fuel IH]; intros s HI; [exact I|].
    cbn [ls_loop]. destruct (stop_req (ls_cnt s)); [cbn [ls_curr]; apply HI|].
    change (@nltb R NumR) with Rlt_bool. change (@neqb R NumR) with Req_bool. change (@nleb R NumR) with Rle_bool.
    change (@n0 R NumR) with 0. change (@n1 R NumR) with 1.
    set (τ := ls_tau s) in *.
    set (ph := if Req_bool τ (ls_tau_prev s) then (ls_curr s, ls_next s, inc_polls (ls_cnt s))
               else if Req_bool τ 0 then take_safe_step grad_L grad_psi P (ls_curr s) (ls_next s) (inc_polls (ls_cnt s))
               else (ls_curr s, take_accel_step psi_grad_full τ q (ls_curr s) (ls_next s), inc_pg (inc_polls (ls_cnt s)))).
    destruct HI as (Hc & Hn & Hz). fold τ in Hn, Hz.
    assert (F : good (fst (fst ph)) /\ good_x (snd (fst ph))).
    { subst ph. destruct (Req_bool_spec τ (ls_tau_prev s)) as [Et|Et].
      - cbn [fst snd]. split; [exact Hc|]. destruct Hn as [Hn|[Hp Ht]]; [exact Hn|].
        exfalso. fold τ in Ht. rewrite Ht, Hp in Et. destruct Hτi; lra.
      - destruct (Req_bool_spec τ 0) as [E0|E0].
        + apply safe_step_good, Hc.
        + cbn [fst snd]. split; [exact Hc|]. apply accel_step_good; [exact Hc|]. apply Hq.
          destruct Hτi as [Ei|Ei]; [|exact Ei]. exfalso. apply E0, Hz, Ei. }
    destruct ph as [[curr next] c1]. cbn [fst snd] in F. destruct F as (Fc & Fn).
    (* fail branch *)
    match goal with |- context [if ?b then lsloop fuel q τi ?s1 else _] => destruct b eqn:Efail; [apply (IH s1)|] end.
    { unfold LenI; cbn [ls_curr ls_next ls_tau ls_tau_prev]. split; [exact Fc|]. split; [left; exact Fn|]. reflexivity. }
    set (next1 := epsih (eprox next)).
    assert (N1 : good next1) by (apply prox_psih_good, Fn).
    (* QUB branch *)
    match goal with |- context [if ?b then lsloop fuel q τi ?s1 else _] => destruct b eqn:Equb; [apply (IH s1)|] end.
    { unfold LenI; cbn [ls_curr ls_next ls_tau ls_tau_prev]. split; [exact Fc|]. split; [left; apply halve_good_x, N1|].
      intros Ei. destruct (Rlt_bool_spec 0 τ) as [Hp|Hp]; [exact Ei|apply Hz, Ei]. }
    (* line-search branch *)
    match goal with |- context [if ?b then lsloop fuel q τi ?s1 else LsDone ?s2] => destruct b eqn:Els; [apply (IH s1)|] end.
    { unfold LenI; cbn [ls_curr ls_next ls_tau ls_tau_prev]. split; [exact Fc|]. split; [left; apply N1|].
      intros Ei. exfalso. apply andb_prop in Els. destruct Els as [Hpos _]. apply Rlt_bool_iff in Hpos.
      specialize (Hz Ei). lra. }
    cbn [ls_curr ls_next]. split; [exact Fc|exact N1].
  Qed.

  (* ---- one pass of the outer loop *)
  Lemma check_it_good s : good (st_curr s) -> good (check_it s).
  Proof.
    intros H. unfold check_iterate. destruct (need_gradh P && negb (ihave (st_curr s))); [apply egradh_good, H|exact H].
  Qed.

  Lemma pass_len (s : lstate (T:=R)) : good (st_curr s) ->
    match pass_ s with PCont s' => good (st_curr s') | _ => True end.
  Proof.
    intros Hg. pose proof (check_it_good s Hg) as Cg. unfold pass. cbv zeta. fold (check_it s).
    change (@n0 R NumR) with 0. change (@n1 R NumR) with 1. change (@nopp R NumR) with Ropp.
    set (curr := check_it s) in *.
    match goal with |- context [stop_status_helpers ?a ?b ?c ?d ?e ?f ?g ?h] => destruct (stop_status_helpers a b c d e f g h) end.
    2-8: match goal with |- context [exit_block ?a ?b ?c ?d ?e ?f ?g ?h] => destruct (exit_block a b c d e f g h) as [[xo yo] eo] end; exact I.
    set (k := st_k s).
    match goal with |- context [inc_apply ?cc] => set (c2 := cc) end.
    set (use_dir := (0 <? k)%nat || has_initial).
    set (r := if use_dir then dir_apply (c_apply c2) curr else None).
    set (q := match r with Some q' => q' | None => st_q s end).
    set (τi := match r with Some q' => if vall_finite q' then 1 else 0 | None => 0 end).
    assert (Hτ : τi = 0 \/ τi = 1) by (subst τi; destruct r as [q'|]; [destruct (vall_finite q')|]; auto).
    assert (Hq : τi = 1 -> length q = n).
    { subst τi q r. destruct use_dir; [|intros; lra]. destruct (dir_apply (c_apply c2) curr) as [q'|] eqn:Ed; [|intros; lra].
      intros _. eapply Hdir; exact Ed. }
    match goal with |- context [lsloop ls_fuel q τi ?l0] => set (ls0 := l0) end.
    assert (HI : LenI τi ls0).
    { subst ls0. unfold LenI; cbn [ls_curr ls_next ls_tau ls_tau_prev]. split; [exact Cg|]. split; [right; split; reflexivity|]. intros E; exact E. }
    pose proof (ls_len q τi Hτ Hq ls_fuel ls0 HI) as Hls.
    destruct (lsloop ls_fuel q τi ls0) as [l|l|]; [| |exact I]; cbn [st_curr].
    - apply Hls.
    - exact Hls.
  Qed.

  Lemma init_qub_good : forall fuel i c st i' c' st', good i -> initqub fuel i c st = Some (i', c', st') -> good i'.
  Proof.
    induction fuel as [|fuel IH]; intros i c st i' c' st' Hg; cbn [init_qub];
      destruct (nltb (iL i) (p_Lmax P) && it_qub_violated P i); try discriminate.
    1,3: intros E; inversion E; subst; exact Hg.
    apply IH. apply prox_psih_good, halve_good_x, Hg.
  Qed.

  Lemma initL_good_x : good_x (fst initL).
  Proof.
    unfold init_L. cbv zeta. destruct (nleb (p_L0 P) n0); cbn [fst]; unfold good_x; cbn [ix igrad]; split; try exact Hxin; apply Hpg, Hxin.
  Qed.

  Theorem reachable_good s : Reachable s -> good (st_curr s).
  Proof.
    induction 1 as [i0 c0 i3 c1 s1 E0 Eq|s s' _ IH Ep].
    - cbn [st_curr]. eapply init_qub_good; [|exact Eq]. unfold first_iterate. apply prox_psih_good, set_gl_good_x.
      pose proof initL_good_x as H0. rewrite E0 in H0. exact H0.
    - pose proof (pass_len s IH) as Hp. now rewrite Ep in Hp.
  Qed.

  (* ---- every completed run ends in an exit pass from a reachable state *)
  Lemma loop_exit : forall fuel s o, Reachable s -> loop_ fuel s = Done o -> exists s', Reachable s' /\ pass_ s' = PExit o.
  Proof.
    induction fuel as [|fuel IH]; intros s o Hr; cbn [loop]; [discriminate|].
    destruct (pass_ s) as [o'|s'|] eqn:Ep.
    - intros E. inversion E; subst. exists s. split; assumption.
    - apply IH. eapply reach_step; eassumption.
    - discriminate.
  Qed.
  Theorem panoc_exit_pass fuel o : panoc_ fuel = Done o -> exists s, Reachable s /\ pass_ s = PExit o.
  Proof.
    unfold panoc. destruct initL as [i0 c0] eqn:E0.
    destruct (negb (nfinite (iL i0))); [discriminate|].
    change (@ndiv R NumR) with Rdiv. fold (first_it i0).
    destruct (initqub ls_fuel (first_it i0) (cnt_psih P c0) stats0) as [[[i3 c1] s1]|] eqn:Eq; [|discriminate].
    apply loop_exit. eapply reach_init; eassumption.
  Qed.

  (* the outputs of an exit pass, in terms of the iterate its stop check looked at *)
  Lemma pass_exit_fields s o : pass_ s = PExit o ->
    let cf := check_it s in
    out_eps o = eps_of cf /\ out_status o <> StBusy /\
    out_status o = stop_status_helpers (o_tol P) (out_eps o) (time_up (if need_gradh P && negb (ihave (st_curr s)) then cnt_gradh P (st_cnt s) else st_cnt s))
                     (st_k s) (p_max_iter P) (st_np s) (p_max_no_progress P)
                     (stop_req (if need_gradh P && negb (ihave (st_curr s)) then cnt_gradh P (st_cnt s) else st_cnt s)) /\
    out_final o = (if overwrites (out_status o) (o_always P) && p_eager P then epsihx cf else cf) /\
    (out_x o, out_y o, out_errz o) = exit_block (out_status o) (o_always P) x_in y_in errz_in (ixh cf) (iyh (out_final o)) Σ.
  Proof.
    unfold pass. cbv zeta. fold (check_it s).
    change (@n0 R NumR) with 0. change (@n1 R NumR) with 1. change (@nopp R NumR) with Ropp.
    set (curr := check_it s) in *.
    set (c0 := if need_gradh P && negb (ihave (st_curr s)) then cnt_gradh P (st_cnt s) else st_cnt s).
    destruct (stop_status_helpers (o_tol P) (eps_of curr) (time_up c0) (st_k s) (p_max_iter P) (st_np s) (p_max_no_progress P) (stop_req c0)) eqn:Est.
    2-8: match goal with |- context [exit_block ?st _ _ _ _ _ _ _] =>
           set (ow := overwrites st (o_always P));
           set (cf := if ow && p_eager P then epsihx curr else curr);
           assert (Exh : ixh cf = ixh curr) by (subst cf; destruct (ow && p_eager P); reflexivity);
           rewrite Exh;
           destruct (exit_block st (o_always P) x_in y_in errz_in (ixh curr) (iyh cf) Σ) as [[xo yo] eo] eqn:Eex;
           intros E; inversion E; subst o; clear E;
           cbn [out_status out_iterations out_eps out_x out_y out_errz out_final];
           split; [reflexivity|split; [discriminate|split; [now rewrite Est|split; [reflexivity|now rewrite Eex]]]]
         end.
    match goal with |- context [match ?X with LsDone _ => _ | LsStopped _ => _ | LsFuel => PFuel end] => destruct X end; discriminate.
  Qed.

  (* the primal buffer after any completed run has length n *)
  Theorem panoc_out_x_length fuel o : panoc_ fuel = Done o -> length (out_x o) = n.
  Proof.
    intros Hr. destruct (panoc_exit_pass fuel o Hr) as (s & Hreach & Hp).
    pose proof (reachable_good s Hreach) as Hg. apply check_it_good in Hg.
    destruct (pass_exit_fields s o Hp) as (_ & _ & _ & _ & Hex). cbv zeta in Hex.
    unfold exit_block in Hex. destruct (overwrites (out_status o) (o_always P));
      pose proof (f_equal (fun t => fst (fst t)) Hex) as X1; cbn [fst snd] in X1; rewrite X1; [apply Hg|exact Hxin].
  Qed.

  (* ---- the strengthened inner contract *)
  Notation Psi_hat_of := (psi_hat_of psi_grad_full psi_yhat P).
  Theorem panoc_inner_contract_len fuel o : panoc_ fuel = Done o ->
    out_status o = StConverged -> p_crit P = ApproxKKT ->
    exists (x grad gradh : list R) (γ : R),
      let step := proj_grad_step lb ub γ x grad in
      length x = n /\ length grad = n /\ length gradh = n /\
      out_x o = fst (fst step) /\ length (out_x o) = n /\
      out_y o = snd (psi_yhat (out_x o)) /\
      (if p_eager P then gradh = snd (pgrad (out_x o)) \/ gradh = grad_psi (out_x o) else gradh = grad_L (out_x o) (out_y o)) /\
      out_errz o = match errz_in with [] => [] | _ => vdiv (vsub (out_y o) y_in) Σ end /\
      out_eps o = vnorminf (kkt_residual γ (snd (fst step)) grad gradh) /\
      out_eps o <= eff_tol (o_tol P) /\
      (0 < p_Lgamma P -> 0 < Linit -> 0 < γ).
  Proof.
    intros Hr Hst Hcrit. destruct (panoc_exit_pass fuel o Hr) as (s & Hreach & Hp).
    pose proof (reachable_good s Hreach) as Hg. apply check_it_good in Hg.
    pose proof (reachable_inv psi_grad_full psi_yhat grad_L grad_psi lb ub l1 dir_apply has_initial stop_req time_up P x_in y_in Σ errz_in ls_fuel s Hreach) as Hinv.
    destruct (check_iterate_consistent psi_grad_full psi_yhat grad_L grad_psi lb ub l1 dir_apply has_initial stop_req time_up P x_in y_in Σ errz_in ls_fuel s Hinv)
      as (Hc & _ & Hgl & Hhave).
    destruct (pass_exit_fields s o Hp) as (He & _ & Hstat & Hfin & Hex). cbv zeta in *.
    set (cf := check_it s) in *.
    destruct (consistent_explicit psi_grad_full psi_yhat grad_L grad_psi lb ub l1 dir_apply has_initial stop_req time_up P x_in y_in Σ errz_in ls_fuel cf Hc)
      as (E1 & E2 & E3 & E4 & E5 & E6 & E7).
    assert (Hh : ihave cf = true) by (apply Hhave; unfold need_gradh; now rewrite Hcrit).
    destruct Hg as ((Lx & Lg) & Lxh & Lp & Hgh). destruct (Hgh Hh) as [Lgh Hgs].
    rewrite Hst in Hex, Hfin. unfold exit_block in Hex. cbn [overwrites andb] in Hex, Hfin.
    pose proof (f_equal (fun t => fst (fst t)) Hex) as X1. pose proof (f_equal (fun t => snd (fst t)) Hex) as X2.
    pose proof (f_equal snd Hex) as X3. cbn [fst snd] in X1, X2, X3.
    assert (Hy : out_y o = snd (psi_yhat (out_x o))).
    { rewrite X2, X1, Hfin. destruct (p_eager P) eqn:Ee; [reflexivity|].
      pose proof (f_equal snd E5) as E5'. cbn [snd] in E5'. rewrite E5'. unfold psi_hat_of. rewrite Ee. reflexivity. }
    exists (ix cf), (igrad cf), (igradh cf), (igam cf). cbv zeta.
    rewrite Hl1 in E2. cbn [eval_prox_grad_step] in E2. rewrite E2. cbn [fst snd].
    split; [exact Lx|]. split; [exact Lg|]. split; [exact Lgh|]. split; [exact X1|]. split; [now rewrite X1|].
    split; [exact Hy|]. split.
    { unfold gstrict in Hgs. rewrite X1. destruct (p_eager P) eqn:Ee; [exact Hgs|].
      rewrite Hgs, X2, Hfin. reflexivity. }
    split; [rewrite X3, X2; reflexivity|]. split.
    { rewrite He. unfold it_eps. rewrite Hcrit. reflexivity. }
    split.
    { destruct (panoc_status_clauses psi_grad_full psi_yhat grad_L grad_psi lb ub l1 dir_apply has_initial stop_req time_up P x_in y_in Σ errz_in ls_fuel fuel o Hr)
        as (_ & _ & _ & Hcv & _). apply Hcv. exact Hst. }
    intros H1 H2. eapply glrel0_pos; eassumption.
  Qed.
End Len.
