(* AlmComposeProofs.v — the composed ALM run (AlmCompose.v: outer loop calling an inner solver given as a function) IS Alm.alm_run on the
   script of inner outcomes it produces, the script is never exhausted, and every record of the trace was produced by one call of the
   inner solver on exactly the data the record says it was handed (calls chained through x and the world w).
   Over R, for EVERY inner solver, parameter set and problem. *)
From Coq Require Import Reals List ZArith Lra Lia Bool Arith.
From Alpaqa Require Import Num NumR Vec Prox Alm AlmProofs AlmCompose.
Import ListNotations.
Local Open Scope R_scope.

Arguments c_script {T W Lg} _.
Arguments c_logs {T W Lg} _.
Arguments c_x {T W Lg} _.
Arguments c_w {T W Lg} _.
Arguments co_trace {T W Lg} _.
Arguments co_final {T W Lg} _.
Arguments co_x {T W Lg} _.
Arguments co_logs {T W Lg} _.
Arguments co_w {T W Lg} _.

Section ComposeProofs.
  Variables (W Lg : Type).
  Variable inner : W -> nat -> list R -> list R -> list R -> R -> list R -> option (inner_res (T:=R) * list R * Lg * W).
  Variable P : alm_params (T:=R).
  Variable pb : alm_problem (T:=R).

  Notation stR := (st (T:=R)).
  Notation iresR := (inner_res (T:=R)).
  Notation irecR := (iter_rec (T:=R)).
  Notation cloop := (c_loop W Lg inner P pb).
  Notation cscript := (c_script_of W Lg inner P pb).
  Notation crun := (c_run W Lg inner P pb).

  (* the loop-carried state of the composition is the one of Alm.alm_loop *)
  Lemma c_y_in_eq (s : stR) : c_y_in P pb s = y_in_of P pb s.
  Proof. reflexivity. Qed.
  Lemma c_next_eq (i : nat) (s : stR) (r : iresR) : c_next P pb i s r = next P pb i s r.
  Proof. reflexivity. Qed.

  (* `called x w tr xf wf`: the records of tr were produced, in order, by calls of the inner solver starting from the primal buffer x and
     the world w; each call was handed what its record says (outer index, y, Σ, tolerance, err_z buffer) and returned the record's
     outcome; the x buffer / world after one call are those before the next; after the last call they are xf / wf *)
  Inductive called : list R -> W -> list irecR -> list R -> W -> Prop :=
  | called_nil x w : called x w [] x w
  | called_cons x w rc x' lg w' tr xf wf :
      inner w (it_i rc) x (it_y rc) (it_Sigma rc) (it_tol rc) (it_err_in rc) = Some (it_res rc, x', lg, w') ->
      called x' w' tr xf wf -> called x w (rc :: tr) xf wf.

  (* the test of c_loop: another inner solve follows exactly when alm_loop would read a second script element *)
  Lemma one_step_exhausted i (s : stR) (r : iresR) :
    f_exhausted (snd (alm_loop P pb i s [r])) =
      negb (is_interrupted (ir_status r)) && negb (rec_exit P (mkrec P pb i s r)).
  Proof.
    rewrite alm_loop_cons. destruct (is_interrupted (ir_status r)); [reflexivity|].
    destruct (rec_exit P (mkrec P pb i s r)); reflexivity.
  Qed.

  Lemma c_loop_spec : forall fuel i (s : stR) x w c, cloop fuel i s x w = Some c ->
    f_exhausted (snd (alm_loop P pb i s (c_script c))) = false /\
    called x w (fst (alm_loop P pb i s (c_script c))) (c_x c) (c_w c) /\
    length (c_logs c) = length (c_script c) /\ c_script c <> [].
  Proof.
    induction fuel as [|fuel IH]; intros i s x w c; cbn [c_loop]; [discriminate|].
    destruct (inner w i x (c_y_in P pb s) (s_Sigma s) (s_eps s) (s_err s)) as [[[[r x'] lg] w']|] eqn:Ein; [|discriminate].
    rewrite one_step_exhausted.
    destruct (is_interrupted (ir_status r)) eqn:Hint; cbn [negb andb].
    { intros E. inversion E; subst; clear E. cbn [c_script c_x c_w c_logs]. rewrite alm_loop_cons, Hint. cbn [fst snd fin f_exhausted].
      split; [reflexivity|]. split; [|split; [reflexivity|discriminate]].
      eapply called_cons; [cbn [mkrec it_i it_y it_Sigma it_tol it_err_in it_res]; exact Ein|constructor]. }
    destruct (rec_exit P (mkrec P pb i s r)) eqn:Hx; cbn [negb].
    { intros E. inversion E; subst; clear E. cbn [c_script c_x c_w c_logs]. rewrite alm_loop_cons, Hint, Hx. cbn [fst snd fin f_exhausted].
      split; [reflexivity|]. split; [|split; [reflexivity|discriminate]].
      eapply called_cons; [cbn [mkrec it_i it_y it_Sigma it_tol it_err_in it_res]; exact Ein|constructor]. }
    destruct (cloop fuel (S i) (c_next P pb i s r) x' w') as [c'|] eqn:Ec; [|discriminate].
    intros E. inversion E; subst; clear E. cbn [c_script c_x c_w c_logs].
    destruct (IH _ _ _ _ _ Ec) as (H1 & H2 & H3 & H4).
    rewrite alm_loop_cons, Hint, Hx. cbn [fst snd]. rewrite <- c_next_eq.
    split; [exact H1|]. split; [|split; [cbn [length]; now rewrite H3|discriminate]].
    eapply called_cons; [cbn [mkrec it_i it_y it_Sigma it_tol it_err_in it_res]; exact Ein|exact H2].
  Qed.

  (* ALMSolver::operator() composed with the inner solver *)
  Theorem c_run_spec fuel f0 g0 nanv Σ0 y0 x0 w0 co : crun fuel f0 g0 nanv Σ0 y0 x0 w0 = Some co ->
    exists script : list iresR,
      co_trace co = fst (alm_run P pb f0 g0 nanv Σ0 y0 script) /\
      co_final co = snd (alm_run P pb f0 g0 nanv Σ0 y0 script) /\
      f_exhausted (co_final co) = false /\
      called x0 w0 (co_trace co) (co_x co) (co_w co) /\
      length (co_logs co) = length script /\
      (p_max_iter P <> 0%nat -> script <> []).
  Proof.
    unfold c_run. destruct (cscript fuel f0 g0 nanv Σ0 y0 x0 w0) as [c|] eqn:Ec; [|discriminate].
    intros E. inversion E; subst; clear E. cbn [co_trace co_final co_x co_w co_logs].
    exists (c_script c). split; [reflexivity|]. split; [reflexivity|].
    unfold c_script_of in Ec. unfold alm_run.
    destruct (Nat.eqb (p_max_iter P) 0) eqn:Hmi.
    { inversion Ec; subst; clear Ec. cbn. split; [reflexivity|]. split; [constructor|]. split; [reflexivity|].
      apply Nat.eqb_eq in Hmi. intros H; contradiction. }
    destruct (Nat.eqb (pb_m pb) 0) eqn:Hm0.
    { destruct (inner w0 0%nat x0 y0 [] (p_tol P) []) as [[[[r x'] lg] w']|] eqn:Ein; [|discriminate].
      inversion Ec; subst; clear Ec. cbn [c_script c_x c_w c_logs fst snd f_exhausted]. split; [reflexivity|].
      split; [|split; [reflexivity|intros _; discriminate]].
      eapply called_cons; [cbn [it_i it_y it_Sigma it_tol it_err_in it_res]; exact Ein|constructor]. }
    destruct (c_loop_spec _ _ _ _ _ _ Ec) as (H1 & H2 & H3 & H4). split; [exact H1|]. split; [exact H2|]. split; [exact H3|intros _; exact H4].
  Qed.

  (* ---------------------------------------------------------------- a stop request ends the composed run *)
  (* `run_ends_at pre rc post f`: rc (preceded by pre) is the LAST outer iteration — no further inner solve —, outer_iterations counts
     it, and the status follows the code's ranking: Interrupted if the inner solve said so, else Converged > MaxTime > MaxIter >
     Interrupted (ALM's own flag); for m = 0 (single inner solve, the flag is not read) the inner status is returned as it is *)
  Definition run_ends_at (pre : list irecR) (rc : irecR) (post : list irecR) (f : final (T:=R)) : Prop :=
    post = [] /\ f_outer f = S (length pre) /\
    (pb_m pb <> 0%nat ->
       f_status f = (if is_interrupted (ir_status (it_res rc)) then Interrupted
                     else if rec_conv P rc then Converged else if ir_oot (it_res rc) then MaxTime
                     else if Nat.eqb (S (length pre)) (p_max_iter P) then MaxIter else Interrupted)) /\
    (pb_m pb = 0%nat -> f_status f = ir_status (it_res rc)).

  (* the outer iteration after whose inner solve ALM's own stop flag is read as set (ir_stop) is the last one of the composed run *)
  Theorem c_run_stop_ends_run fuel f0 g0 nanv Σ0 y0 x0 w0 co : crun fuel f0 g0 nanv Σ0 y0 x0 w0 = Some co ->
    forall pre rc post, co_trace co = pre ++ rc :: post -> ir_stop (it_res rc) = true -> run_ends_at pre rc post (co_final co).
  Proof.
    intros Hrun pre rc post Etr Hs.
    destruct (c_run_spec _ _ _ _ _ _ _ _ _ Hrun) as (script & Htr & Hfin & _).
    rewrite Htr in Etr. rewrite Hfin. clear Htr Hfin Hrun.
    destruct (Nat.eq_dec (p_max_iter P) 0) as [Hmi|Hmi].
    { exfalso. unfold alm_run in Etr. rewrite (proj2 (Nat.eqb_eq _ _) Hmi) in Etr. cbn [fst] in Etr. destruct pre; discriminate. }
    destruct (Nat.eq_dec (pb_m pb) 0) as [Hm|Hm].
    { unfold alm_run in *. rewrite (proj2 (Nat.eqb_neq _ _) Hmi), (proj2 (Nat.eqb_eq _ _) Hm) in *.
      destruct script as [|r rest]; cbn [fst snd] in *; [destruct pre; discriminate|].
      destruct pre as [|a pre]; cbn [app] in Etr; [|destruct pre; discriminate].
      inversion Etr; subst. unfold run_ends_at. cbn [f_outer f_status length it_res].
      split; [reflexivity|]. split; [reflexivity|]. split; [intros H; contradiction|reflexivity]. }
    destruct (run_stop_request_ends_run P pb f0 g0 nanv Σ0 y0 script Hmi Hm pre rc post Etr Hs) as (A & B & C & D & _).
    unfold run_ends_at. split; [exact A|]. split; [exact C|]. split; [intros _; exact D|intros H; contradiction].
  Qed.

  (* ---------------------------------------------------------------- reading `called` *)
  (* an invariant of the primal buffer that every inner solve preserves holds for the input of every call; the last call returns co_x *)
  Lemma called_last (Q : list R -> Prop) :
    (forall w i x y Σ tol e r x' lg w', Q x -> inner w i x y Σ tol e = Some (r, x', lg, w') -> Q x') ->
    forall pre rc x0 w0 xf wf, Q x0 -> called x0 w0 (pre ++ [rc]) xf wf ->
      exists x w lg, Q x /\
        inner w (it_i rc) x (it_y rc) (it_Sigma rc) (it_tol rc) (it_err_in rc) = Some (it_res rc, xf, lg, wf).
  Proof.
    intros HQ. induction pre as [|a pre IH]; intros rc x0 w0 xf wf Q0 Hc; cbn [app] in Hc.
    - inversion Hc as [|? ? ? x' lg w' ? ? ? Ein Hrest]; subst. inversion Hrest; subst. exists x0, w0, lg. split; assumption.
    - inversion Hc as [|? ? ? x' lg w' ? ? ? Ein Hrest]; subst. apply (IH rc x' w' xf wf); [|exact Hrest].
      eapply HQ; [exact Q0|exact Ein].
  Qed.

  Lemma called_all (Q : list R -> Prop) (R' : irecR -> Prop) :
    (forall w i x y Σ tol e r x' lg w', Q x -> inner w i x y Σ tol e = Some (r, x', lg, w') -> Q x') ->
    (forall rc w x x' lg w', Q x ->
       inner w (it_i rc) x (it_y rc) (it_Sigma rc) (it_tol rc) (it_err_in rc) = Some (it_res rc, x', lg, w') -> R' rc) ->
    forall tr x0 w0 xf wf, Q x0 -> called x0 w0 tr xf wf -> Forall R' tr /\ Q xf.
  Proof.
    intros HQ HR. induction tr as [|a tr IH]; intros x0 w0 xf wf Q0 Hc.
    - inversion Hc; subst. split; [constructor|assumption].
    - inversion Hc as [|? ? ? x' lg w' ? ? ? Ein Hrest]; subst.
      destruct (IH x' w' xf wf) as [H1 H2]; [eapply HQ; [exact Q0|exact Ein]|exact Hrest|].
      split; [constructor; [eapply HR; [exact Q0|exact Ein]|exact H1]|exact H2].
  Qed.
End ComposeProofs.
